(** * Out-of-memory behaviour of cube picking (Mgr/OomPick.v), part 2

    Under the invariant of the C13 theorems (BDD: [BddOK], BCDD: [BcddOK], ZBDD:
    [ZbddOK] of DD/PickZbdd.v; the edge is valid; the literal set of
    [pick_cube_dd_set] is a cube diagram): the bounded algorithms never get stuck
    (no [get_node] / [unwrap] panics, the fuel suffices), and whatever they return
    - result or out-of-memory - the table they leave satisfies the invariant and
    extends the table they started from.

    Method (as Mgr/OomTddSafe.v): the [GOk] case is NOT re-proved - it follows from
    the refinement ([pick_dd_sim] ...) and the theorems about the unbounded
    algorithms ([pick_dd_spec], [pick_dd_set_eq_gen] of DD/PickProofs.v,
    [pick_dd_z_spec], [pick_dd_set_z_spec] of DD/PickZbdd.v); the failure case is a
    walk through the bounded algorithm that only needs the preconditions of the
    sub-call (the chosen cofactor is valid and not false) and of the literal's
    node ([add_lit_*_ok]: it is never a panic).

    BDD / BCDD: proved once for the abstract view of DD/PickProofs.v (Section
    [GenSafe], same hypotheses as its Section [Gen]); [pick_cube_dd_set] is
    reduced to [pick_cube_dd] with the choice "polarity in the literal set"
    ([pick_dd_set_c_eq_gen], the bounded counterpart of [pick_dd_set_eq_gen]).
    ZBDD: two direct walks. *)

From Coq Require Import List NArith PArith Bool Arith Lia FMapPositive.
From OxiVerif Require Import DD.Table DD.TableProofs DD.Build DD.BuildProofs DD.Apply DD.ApplyProofs
  DD.SatCount DD.SatCountProofs DD.Pick DD.PickProofs DD.PickBdd DD.PickBcdd DD.PickZbdd
  Mgr.Oom Mgr.OomProofs.
From OxiVerif Require Import Mgr.OomGen Mgr.OomGenProofs Mgr.OomBcddProofs Mgr.OomPick Mgr.OomPickProofs.
Import ListNotations.

(** replace the (unused) state of a run *)
Definition gset_st {C C' R : Type} (c : C') (r : gres C R) : gres C' R :=
  match r with
  | GOk s _ x => GOk s c x
  | GOom s _ => GOom s c
  | GStuck => GStuck
  end.

(** a literal whose unbounded creation succeeds is never a panic *)
Lemma lit_res_fs : forall St (Inv : snap -> St -> Prop) cap s (st : St) o u p tr,
  lit_rel cap s o (Some u) -> Inv s st ->
  fail_safe Inv extends s (lit_res s st o p tr).
Proof.
  intros St Inv cap s st o u p tr [o' [-> _]] I. unfold lit_res.
  apply gfin_safe; [exact I | apply extends_refl].
Qed.

(** ** BDD and BCDD *)

Section GenSafe.
Variable view : snap -> edge -> cview.
Variable OK : snap -> Prop.
Variable good : snap -> edge -> Prop.
Variable den : snap -> edge -> lasg -> bool.

Hypothesis OK_WF : forall s, OK s -> WF s.
Hypothesis view_err : forall s e, OK s -> good s e -> view s e <> CErr.
Hypothesis view_term : forall s e b, OK s -> good s e -> view s e = CTerm b ->
  rlevel s (eref e) = nlevels s /\ forall a, den s e a = b.
Hypothesis view_node : forall s e l t x, OK s -> good s e -> view s e = CNode l t x ->
  l = rlevel s (eref e) /\ l < nlevels s /\ good s t /\ good s x /\
  l < rlevel s (eref t) /\ l < rlevel s (eref x) /\
  (forall a, den s e a = if a l then den s t a else den s x a) /\
  (exists a, den s e a = true).
Hypothesis den_indep : forall s e l a b, OK s -> good s e -> l < rlevel s (eref e) ->
  den s e (updb a l b) = den s e a.

Variable add_lit : snap -> edge -> nat -> bool -> option (snap * edge).
Hypothesis add_lit_ok : forall s sub l c, OK s -> good s sub -> l < nlevels s ->
  l < rlevel s (eref sub) -> (exists a, den s sub a = true) ->
  exists s' r, add_lit s sub l c = Some (s', r) /\ OK s' /\ extends s s' /\ good s' r /\
    rlevel s' (eref r) = l /\ forall a, den s' r a = Bool.eqb (a l) c && den s sub a.

Variable cap : nat.
Variable add_lit_c : snap -> edge -> nat -> bool -> lit_out.
Hypothesis add_lit_rel : forall s sub l c, lit_rel cap s (add_lit_c s sub l c) (add_lit s sub l c).

Notation isf := (is_false view).

(** the invariant of the manager (the state of the choice function is arbitrary) *)
Definition PInv {St : Type} (s : snap) (st : St) : Prop := OK s.

(** what is known about the result of a walk that started at [e0] in [s0]: a
    valid, satisfiable edge at the level of [e0] *)
Definition Qpick (s0 : snap) (e0 : edge) (s' : snap) (r : edge * list step) : Prop :=
  good s' (fst r) /\ rlevel s' (eref (fst r)) = rlevel s0 (eref e0) /\ exists a, den s' (fst r) a = true.

Section Choice.
Variable St : Type.
Variable choice : St -> nat -> edge -> bool * St.

Notation RS := (res_safe (@PInv St) extends).
Notation FS := (fail_safe (@PInv St) extends).

Lemma pick_dd_ok_safe : forall fuel s st e s' st' r, OK s -> good s e -> isf s e = false ->
  nlevels s - rlevel s (eref e) < fuel ->
  pick_dd_c view add_lit_c St choice fuel s st e = GOk s' st' r ->
  PInv s' st' /\ extends s s' /\ Qpick s e s' r.
Proof.
  intros fuel s st e s' st' r O G Hnf Hf E.
  pose proof (sim_never_wrong St no_m2 cap 1 _ _ _ _ _ _ _
                (pick_dd_sim view add_lit cap add_lit_c add_lit_rel St choice fuel s st e) E) as Eu.
  destruct (pick_dd_spec view OK good den OK_WF view_err view_term view_node den_indep add_lit add_lit_ok
              St choice fuel s st e O G Hnf Hf)
    as [s1 [r1 [tr1 [st1 [P [_ [O1 [X1 [G1 [L1 [_ A1]]]]]]]]]]].
  rewrite P in Eu. cbn [pk_u] in Eu. inversion Eu; subst s' st' r.
  split; [exact O1|]. split; [exact X1|]. split; [exact G1|]. split; [exact L1 | exact A1].
Qed.

Theorem pick_dd_c_safe : forall fuel s st e, OK s -> good s e -> isf s e = false ->
  nlevels s - rlevel s (eref e) < fuel ->
  RS (Qpick s e) s (pick_dd_c view add_lit_c St choice fuel s st e).
Proof.
  induction fuel as [|f IH]; intros s st e O G Hnf Hf; [lia|].
  apply safe_intro; [|intros s' st' r E; apply (pick_dd_ok_safe (S f) s st e s' st' r O G Hnf Hf E)].
  cbn [pick_dd_c]. unfold is_false in Hnf.
  destruct (view s e) as [|b|l t x] eqn:Ev.
  - exfalso. apply (view_err s e O G Ev).
  - exact I.
  - destruct (view_node s e l t x O G Ev) as [El [Ll [Gt [Gx [Lt [Lx [Hd [a0 Ha0]]]]]]]].
    pose proof (rlevel_le s (OK_WF s O) (eref t)) as Bt.
    pose proof (rlevel_le s (OK_WF s O) (eref x)) as Bx.
    (* the decision, uniformly (as in [pick_dd_spec]) *)
    assert (Hdec : exists c asked st1, decide view St choice s st l e t x = (c, asked, st1) /\
               isf s (if c then t else x) = false).
    { unfold decide. destruct (isf s t) eqn:Ft.
      - exists false, false, st. split; [reflexivity|]. cbv iota.
        destruct (isf s x) eqn:Fx; [|reflexivity]. exfalso.
        rewrite Hd, (isf_true view OK good den view_term s t O Gt Ft),
                (isf_true view OK good den view_term s x O Gx Fx) in Ha0.
        destruct (a0 l); discriminate.
      - destruct (isf s x) eqn:Fx.
        + exists true, false, st. split; [reflexivity | exact Ft].
        + destruct (choice st l e) as [c st1]. exists c, true, st1. split; [reflexivity|].
          destruct c; assumption. }
    destruct Hdec as [c [asked [st1 [Ed Fc]]]]. rewrite Ed.
    assert (Gc : good s (if c then t else x)) by (destruct c; assumption).
    assert (Lc : l < rlevel s (eref (if c then t else x))) by (destruct c; assumption).
    apply (gbind_safe St (@PInv St) extends extends_trans _ _ (Qpick s (if c then t else x)) s).
    + apply IH; auto. destruct c; lia.
    + intros s1 st2 r O1 X1 [G1 [L1 A1]].
      destruct (add_lit_ok s1 (fst r) l c O1 G1 ltac:(rewrite (ext_nlevels _ _ X1); exact Ll)
                  ltac:(rewrite L1; exact Lc) A1) as [s2 [r2 [Ea _]]].
      pose proof (add_lit_rel s1 (fst r) l c) as Hrel. rewrite Ea in Hrel.
      apply (lit_res_fs St (@PInv St) cap s1 st2 _ (s2, r2) _ _ Hrel O1).
Qed.

End Choice.

(** *** [pick_cube_dd_set] = [pick_cube_dd] with the choice "polarity in the set" *)

Lemma pick_dd_set_c_eq_gen : forall St L fuel s (st : St) e set Lc,
  OK s -> good s e -> good s set -> CubeAt view s set Lc ->
  (forall l, rlevel s (eref e) <= l -> lit_pol Lc l = lit_pol L l) ->
  pick_dd_set_c view add_lit_c St fuel s st e set =
  gset_st st (pick_dd_c view add_lit_c unit (mask_choice (lit_pol L)) fuel s tt e).
Proof.
  intros St L. induction fuel as [|f IH]; intros s st e set Lc O G Gs C Hl; [reflexivity|].
  cbn [pick_dd_set_c pick_dd_c]. destruct (view s e) as [|b|l t x] eqn:Ev; try reflexivity.
  destruct (view_node s e l t x O G Ev) as [El [Ll [Gt [Gx [Lt [Lx _]]]]]].
  destruct (set_choice_cube view OK good den OK_WF view_term view_node s set Lc l O Gs C Ll)
    as [set' [L' [Es [G' [C' Hp]]]]].
  rewrite Es, (Hl l ltac:(lia)). unfold decide.
  assert (Hrec : forall c : bool,
    pick_dd_set_c view add_lit_c St f s st (if c then t else x) set' =
    gset_st st (pick_dd_c view add_lit_c unit (mask_choice (lit_pol L)) f s tt (if c then t else x))).
  { intros c. apply (IH s st (if c then t else x) set' L' O ltac:(destruct c; assumption) G' C').
    intros l0 Hl0. rewrite (Hp l0) by (destruct c; lia). apply Hl. destruct c; lia. }
  assert (Hfin : forall (c asked : bool),
    gbind (pick_dd_set_c view add_lit_c St f s st (if c then t else x) set')
      (fun s1 st1 r => lit_res s1 st1 (add_lit_c s1 (fst r) l c) (mkStep l e (Some c) asked) (snd r)) =
    gset_st st
      (gbind (pick_dd_c view add_lit_c unit (mask_choice (lit_pol L)) f s tt (if c then t else x))
         (fun s1 st2 r => lit_res s1 st2 (add_lit_c s1 (fst r) l c) (mkStep l e (Some c) asked) (snd r)))).
  { intros c asked. rewrite (Hrec c). unfold mask_choice.
    destruct (pick_dd_c view add_lit_c unit _ f s tt (if c then t else x)) as [s1 [] r|s1 []|];
      [|reflexivity|reflexivity].
    cbn [gset_st gbind]. unfold lit_res.
    destruct (add_lit_c s1 (fst r) l c) as [[[s2 r2]|]|]; reflexivity. }
  destruct (isf s t); [exact (Hfin false false)|].
  destruct (isf s x); [exact (Hfin true false) | exact (Hfin (lit_pol L l) true)].
Qed.

Lemma gset_st_safe : forall St (Q : snap -> edge * list step -> Prop) s (st : St) (r : gres unit (edge * list step)),
  res_safe (@PInv unit) extends Q s r -> res_safe (@PInv St) extends Q s (gset_st st r).
Proof. intros St Q s st [s' c' x|s' c'|] H; exact H. Qed.

Section TopLevel.
Variable St : Type.
Variable choice : St -> nat -> edge -> bool * St.

(** the result is a valid edge *)
Definition Qgood (s' : snap) (r : edge * list step) : Prop := good s' (fst r).

(** [pick_cube_dd_edge] with the standard fuel, any valid edge (the false
    function included: it is returned as it is) *)
Theorem pick_cube_dd_c_rs : forall s st e, OK s -> good s e ->
  res_safe (@PInv St) extends Qgood s (pick_cube_dd_c view add_lit_c St choice s st e).
Proof.
  intros s st e O G. unfold pick_cube_dd_c.
  destruct (isf s e) eqn:F.
  - unfold is_false in F. cbn [pick_dd_c].
    destruct (view s e) as [|[|]|]; try discriminate.
    split; [exact O|]. split; [apply extends_refl | exact G].
  - pose proof (rlevel_le s (OK_WF s O) (eref e)).
    apply (res_safe_weaken St (@PInv St) extends _ (Qpick s e) Qgood s _
             (pick_dd_c_safe St choice (S (nlevels s)) s st e O G F ltac:(lia))).
    intros s' r [Gr _]. exact Gr.
Qed.

(** [pick_cube_dd_set_edge] with a literal set that is a cube diagram *)
Theorem pick_cube_dd_set_c_rs : forall s (st : St) e set L, OK s -> good s e -> good s set ->
  cube_lits view (S (nlevels s)) s set = Some L ->
  res_safe (@PInv St) extends Qgood s (pick_cube_dd_set_c view add_lit_c St s st e set).
Proof.
  intros s st e set L O G Gs El. unfold pick_cube_dd_set_c.
  rewrite (pick_dd_set_c_eq_gen St L (S (nlevels s)) s st e set L O G Gs
             (cube_lits_CubeAt view _ _ _ _ El) ltac:(reflexivity)).
  apply gset_st_safe.
  destruct (isf s e) eqn:F.
  - unfold is_false in F. cbn [pick_dd_c].
    destruct (view s e) as [|[|]|]; try discriminate.
    split; [exact O|]. split; [apply extends_refl | exact G].
  - pose proof (rlevel_le s (OK_WF s O) (eref e)).
    apply (res_safe_weaken unit (@PInv unit) extends _ (Qpick s e) Qgood s _
             (pick_dd_c_safe unit (mask_choice (lit_pol L)) (S (nlevels s)) s tt e O G F ltac:(lia))).
    intros s' r [Gr _]. exact Gr.
Qed.

End TopLevel.
End GenSafe.

(** ** ZBDD *)

Notation isfz := (is_false view_plain).

Definition ZPInv {St : Type} (s : snap) (st : St) : Prop := ZbddOK s.

(** what is known about the result of a walk that started at [e0] in [s0] *)
Definition Qz (s0 : snap) (e0 : edge) (s' : snap) (r : edge * list step) : Prop :=
  good_z s' (fst r) /\ isfz s' (fst r) = false /\ rlevel s0 (eref e0) <= rlevel s' (eref (fst r)).

Definition Qgood_z (s' : snap) (r : edge * list step) : Prop := good_z s' (fst r).

Section ZSafe.
Variable cap : nat.
Variable St : Type.

Notation RS := (res_safe (@ZPInv St) extends).
Notation FS := (fail_safe (@ZPInv St) extends).

(** the last step of both ZBDD walks: the literal's node on a positive literal
    / don't care, the sub-result on a negative literal *)
Lemma z_step_fs : forall s l (c dnc : bool) p e' s1 st2 (r : edge * list step),
  l < nlevels s -> l < rlevel s (eref e') ->
  ZbddOK s1 -> extends s s1 -> Qz s e' s1 r ->
  FS s1 (if c then lit_res s1 st2 (add_lit_z_cap cap s1 (fst r) l dnc) p (snd r)
         else GOk s1 st2 (fst r, p :: snd r)).
Proof.
  intros s l c dnc p e' s1 st2 r Ll Lc B1 X1 [G1 [F1 L1]].
  destruct c; [|exact I].
  destruct (add_lit_z_ok s1 (fst r) l dnc B1 G1 F1 ltac:(rewrite (ext_nlevels _ _ X1); exact Ll) ltac:(lia))
    as [s2 [r2 [Ea _]]].
  pose proof (add_lit_z_rel cap s1 (fst r) l dnc) as Hrel. rewrite Ea in Hrel.
  apply (lit_res_fs St (@ZPInv St) cap s1 st2 _ (s2, r2) _ _ Hrel B1).
Qed.

Section Choice.
Variable choice : St -> nat -> edge -> bool * St.

Lemma pick_dd_z_ok_safe : forall fuel s st e s' st' r, ZbddOK s -> good_z s e -> isfz s e = false ->
  nlevels s - rlevel s (eref e) < fuel ->
  pick_dd_z_c cap St choice fuel s st e = GOk s' st' r ->
  ZPInv s' st' /\ extends s s' /\ Qz s e s' r.
Proof.
  intros fuel s st e s' st' r B G Hnf Hf E.
  pose proof (sim_never_wrong St no_m2 cap 1 _ _ _ _ _ _ _ (pick_dd_z_sim cap St choice fuel s st e) E) as Eu.
  destruct (pick_dd_z_spec St choice fuel s st e B G Hnf Hf)
    as [s1 [r1 [tr1 [st1 [P [_ [B1 [X1 [G1 [F1 [L1 _]]]]]]]]]]].
  rewrite P in Eu. cbn [pk_u] in Eu. inversion Eu; subst s' st' r.
  split; [exact B1|]. split; [exact X1|]. split; [exact G1|]. split; [exact F1 | exact L1].
Qed.

Theorem pick_dd_z_c_safe : forall fuel s st e, ZbddOK s -> good_z s e -> isfz s e = false ->
  nlevels s - rlevel s (eref e) < fuel ->
  RS (Qz s e) s (pick_dd_z_c cap St choice fuel s st e).
Proof.
  induction fuel as [|f IH]; intros s st e B G Hnf Hf; [lia|].
  apply safe_intro; [|intros s' st' r E; apply (pick_dd_z_ok_safe (S f) s st e s' st' r B G Hnf Hf E)].
  cbn [pick_dd_z_c]. unfold is_false in Hnf.
  destruct (view_plain s e) as [|b|l hi lo] eqn:Ev.
  - exfalso. apply (z_view_err s B e G Ev).
  - exact I.
  - destruct (z_view_node s B e l hi lo G Ev) as [El [Ll [Gh [Gl [Lh [Llo [Fh _]]]]]]].
    pose proof (rlevel_le s (zo_wf s B) (eref hi)) as Bh. pose proof (rlevel_le s (zo_wf s B) (eref lo)) as Bl.
    cbv zeta.
    assert (Hdec : exists (c asked : bool) st1,
      (if edge_eqb hi lo || isfz s lo then (true, false, st)
       else let (c, st') := choice st l e in (c, true, st')) = (c, asked, st1) /\
      isfz s (if c then hi else lo) = false).
    { destruct (edge_eqb hi lo || isfz s lo) eqn:Eo.
      - exists true, false, st. split; [reflexivity | exact Fh].
      - apply orb_false_iff in Eo. destruct Eo as [_ Fl].
        destruct (choice st l e) as [c st1]. exists c, true, st1. split; [reflexivity|].
        destruct c; assumption. }
    destruct Hdec as [c [asked [st1 [Ed Fc]]]]. rewrite Ed.
    assert (Gc : good_z s (if c then hi else lo)) by (destruct c; assumption).
    assert (Lc : l < rlevel s (eref (if c then hi else lo))) by (destruct c; assumption).
    apply (gbind_safe St (@ZPInv St) extends extends_trans _ _ (Qz s (if c then hi else lo)) s).
    + apply IH; auto. destruct c; lia.
    + intros s1 st2 r B1 X1 Q1.
      apply (z_step_fs s l c (edge_eqb hi lo) _ (if c then hi else lo) s1 st2 r Ll Lc B1 X1 Q1).
Qed.

(** [pick_cube_dd_edge] (ZBDD) with the standard fuel, any valid edge *)
Theorem pick_cube_dd_z_c_rs : forall s st e, ZbddOK s -> good_z s e ->
  RS Qgood_z s (pick_cube_dd_z_c cap St choice s st e).
Proof.
  intros s st e B G. unfold pick_cube_dd_z_c.
  destruct (isfz s e) eqn:F.
  - unfold is_false in F. cbn [pick_dd_z_c].
    destruct (view_plain s e) as [|[|]|]; try discriminate.
    split; [exact B|]. split; [apply extends_refl | exact G].
  - pose proof (rlevel_le s (zo_wf s B) (eref e)).
    apply (res_safe_weaken St (@ZPInv St) extends _ (Qz s e) Qgood_z s _
             (pick_dd_z_c_safe (S (nlevels s)) s st e B G F ltac:(lia))).
    intros s' r [Gr _]. exact Gr.
Qed.

End Choice.

(** *** [pick_cube_dd_set] (ZBDD) *)

Lemma pick_dd_set_z_ok_safe : forall fuel s (st : St) e set Lc s' st' r,
  ZbddOK s -> good_z s e -> good_z s set -> CubeZ s set Lc -> isfz s e = false ->
  nlevels s - rlevel s (eref e) < fuel ->
  pick_dd_set_z_c cap St fuel s st e set = GOk s' st' r ->
  ZPInv s' st' /\ extends s s' /\ Qz s e s' r.
Proof.
  intros fuel s st e set Lc s' st' r B G Gs C Hnf Hf E.
  pose proof (sim_never_wrong St no_m2 cap 1 _ _ _ _ _ _ _ (pick_dd_set_z_sim cap St fuel s st e set) E) as Eu.
  destruct (pick_dd_set_z_spec Lc fuel s e set Lc B G Gs C ltac:(reflexivity) Hnf Hf)
    as [s1 [r1 [tr1 [P [[B1 [X1 [G1 [F1 [L1 _]]]]] _]]]]].
  rewrite P in Eu. cbn [pk_set_u] in Eu. inversion Eu; subst s' st' r.
  split; [exact B1|]. split; [exact X1|]. split; [exact G1|]. split; [exact F1 | exact L1].
Qed.

Theorem pick_dd_set_z_c_safe : forall fuel s (st : St) e set Lc,
  ZbddOK s -> good_z s e -> good_z s set -> CubeZ s set Lc -> isfz s e = false ->
  nlevels s - rlevel s (eref e) < fuel ->
  RS (Qz s e) s (pick_dd_set_z_c cap St fuel s st e set).
Proof.
  induction fuel as [|f IH]; intros s st e set Lc B G Gs C Hnf Hf; [lia|].
  apply safe_intro;
    [|intros s' st' r E; apply (pick_dd_set_z_ok_safe (S f) s st e set Lc s' st' r B G Gs C Hnf Hf E)].
  cbn [pick_dd_set_z_c]. unfold is_false in Hnf.
  destruct (view_plain s e) as [|b|l hi lo] eqn:Ev.
  - exfalso. apply (z_view_err s B e G Ev).
  - exact I.
  - destruct (z_view_node s B e l hi lo G Ev) as [El [Ll [Gh [Gl [Lh [Llo [Fh _]]]]]]].
    pose proof (rlevel_le s (zo_wf s B) (eref hi)) as Bh. pose proof (rlevel_le s (zo_wf s B) (eref lo)) as Bl.
    pose proof (rlevel_le s (zo_wf s B) (eref set)) as Bs.
    destruct (set_pop_cubez (S (nlevels s)) s set Lc l B Gs C ltac:(lia) Ll)
      as [set' [L' [ni [P [G' [C' _]]]]]].
    rewrite P.
    assert (Hdec : exists c dnc asked : bool,
      (if isfz s lo then (true, false, false)
       else match ni with
            | Some (shi, slo) => (true, if edge_eqb shi slo then edge_eqb hi lo else false, true)
            | None => (false, false, true)
            end) = (c, dnc, asked) /\
      isfz s (if c then hi else lo) = false).
    { destruct (isfz s lo) eqn:Fl.
      - exists true, false, false. split; [reflexivity | exact Fh].
      - destruct ni as [[shi slo]|].
        + eexists true, _, true. split; [reflexivity | exact Fh].
        + exists false, false, true. split; [reflexivity | exact Fl]. }
    destruct Hdec as [c [dnc [asked [Ed Fc]]]]. rewrite Ed.
    assert (Gc : good_z s (if c then hi else lo)) by (destruct c; assumption).
    assert (Lc' : l < rlevel s (eref (if c then hi else lo))) by (destruct c; assumption).
    apply (gbind_safe St (@ZPInv St) extends extends_trans _ _ (Qz s (if c then hi else lo)) s).
    + apply (IH s st (if c then hi else lo) set' L'); auto. destruct c; lia.
    + intros s1 st2 r B1 X1 Q1. cbv zeta.
      apply (z_step_fs s l c dnc _ (if c then hi else lo) s1 st2 r Ll Lc' B1 X1 Q1).
Qed.

(** [pick_cube_dd_set_edge] (ZBDD) with a literal set that is a cube diagram *)
Theorem pick_cube_dd_set_z_c_rs : forall s (st : St) e set L, ZbddOK s -> good_z s e -> good_z s set ->
  cube_lits_z (S (nlevels s)) s set = Some L ->
  RS Qgood_z s (pick_cube_dd_set_z_c cap St s st e set).
Proof.
  intros s st e set L B G Gs El. unfold pick_cube_dd_set_z_c.
  destruct (isfz s e) eqn:F.
  - unfold is_false in F. cbn [pick_dd_set_z_c].
    destruct (view_plain s e) as [|[|]|]; try discriminate.
    split; [exact B|]. split; [apply extends_refl | exact G].
  - pose proof (rlevel_le s (zo_wf s B) (eref e)).
    apply (res_safe_weaken St (@ZPInv St) extends _ (Qz s e) Qgood_z s _
             (pick_dd_set_z_c_safe (S (nlevels s)) s st e set L B G Gs (cube_lits_z_CubeZ _ _ _ _ El) F
                ltac:(lia))).
    intros s' r [Gr _]. exact Gr.
Qed.

End ZSafe.
