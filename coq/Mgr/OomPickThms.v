(** * Out-of-memory behaviour of cube picking (Mgr/OomPick.v), part 3: the C14 statements

    For the two allocating entry points [pick_cube_dd_edge] ([PKDd e], any choice
    function [choice : St -> nat -> edge -> bool * St] with any state) and
    [pick_cube_dd_set_edge] ([PKSet e set]) of the three rule sets ([pkind]) at
    once; [prun_c] = the bounded run in the error monad of the code, [prun_u] =
    the unbounded entry points of DD/Pick.v:

    - [pick_never_wrong], [pick_retry], [pick_monotone]: no hypothesis (every
      table, choice function, state, capacity, edge, literal set);
    - under the invariant of the kind ([pinv]: [BddOK] / [BcOK] / [ZbddOK], the
      invariants of the other C14 families) and [pcall_ok] (the edge is valid; the
      literal set is a valid edge that is a cube diagram):
      [pick_never_wrong_sem] (a result is a valid edge of a table in which
      everything that existed is intact, and it is what the C13 theorems say:
      [pcall_spec]), [pick_safe] (the state after [Err(OutOfMemory)]),
      [pick_no_panic], [pick_exact] (the run fails iff the table of the unbounded
      run does not fit);
    - [pick_nc_exact]: the instance the correspondence run evaluates, under the
      two extracted checkers only. *)

From Coq Require Import List NArith PArith Bool Arith Lia FMapPositive.
From OxiVerif Require Import DD.Table DD.TableProofs DD.Build DD.BuildProofs DD.Apply DD.ApplyProofs
  DD.SatCount DD.SatCountProofs DD.Pick DD.PickProofs DD.PickBdd DD.PickBcdd DD.PickZbdd
  Mgr.Oom Mgr.OomProofs Mgr.OomSafe.
From OxiVerif Require Import Mgr.OomGen Mgr.OomGenProofs Mgr.OomBcddProofs Mgr.OomBcddSafe Mgr.OomZbddThms
  Mgr.OomPick Mgr.OomPickProofs Mgr.OomPickSafe.
Import ListNotations.

(** ** The invariant, "intact", valid edges, per kind *)

(** the invariants of the C14 families of the three kinds (DD/ApplyProofs.v,
    DD/ApplyBcddProofs.v, DD/ZbddOpsProofs.v) *)
Definition pinv (kind : pkind) (s : snap) : Prop :=
  match kind with
  | PBdd => BddOK s
  | PBcdd => ApplyBcddProofs.BcOK s
  | PZbdd => ZbddOpsProofs.ZbddOK s
  end.

(** [intact] (Mgr/OomSafe.v), [intact_c] (Mgr/OomBcddSafe.v), [intact_z] (Mgr/OomZbddThms.v) *)
Definition pintact (kind : pkind) (s s' : snap) : Prop :=
  match kind with
  | PBdd => intact s s'
  | PBcdd => intact_c s s'
  | PZbdd => intact_z s s'
  end.

(** a valid edge (BDD / ZBDD: untagged) and the Boolean function over the levels
    it denotes (DD/PickBdd.v, DD/PickBcdd.v, DD/PickZbdd.v) *)
Definition pgood (kind : pkind) (s : snap) (e : edge) : Prop :=
  match kind with
  | PBdd => good_bdd s e
  | PBcdd => good_bcdd s e
  | PZbdd => good_z s e
  end.
Definition pden (kind : pkind) (s : snap) (e : edge) : lasg -> bool :=
  match kind with
  | PBdd => den_bdd s e
  | PBcdd => den_bcdd s e
  | PZbdd => den_z s e
  end.

(** [set] is a cube diagram with the literal list [L] *)
Definition pkcube (kind : pkind) (s : snap) (set : edge) (L : list (nat * bool)) : Prop :=
  match kind with
  | PBdd => cube_lits view_plain (S (nlevels s)) s set = Some L
  | PBcdd => cube_lits view_bcdd (S (nlevels s)) s set = Some L
  | PZbdd => cube_lits_z (S (nlevels s)) s set = Some L
  end.

(** the hypothesis on a call *)
Definition pcall_ok (kind : pkind) (s : snap) (k : pcall) : Prop :=
  match k with
  | PKDd e => pgood kind s e
  | PKSet e set => pgood kind s e /\ pgood kind s set /\ exists L, pkcube kind s set L
  end.

(** the two records of the C13 files and of the apply files have the same fields *)
Lemma bcok_iff : forall s, ApplyBcddProofs.BcOK s <-> BcddOK s.
Proof. intros s. split; intros [A B C]; constructor; assumption. Qed.

Lemma zok_iff : forall s, ZbddOpsProofs.ZbddOK s <-> PickZbdd.ZbddOK s.
Proof. intros s. split; intros [A B C D F]; constructor; assumption. Qed.

Theorem pinv_b_spec : forall kind s, pinv_b kind s = true <-> pinv kind s.
Proof.
  intros [] s; unfold pinv_b, pinv;
    [apply bdd_ok_b_spec | apply ApplyBcddProofs.bcok_b_spec | apply ZbddOpsProofs.zbdd_ok_b_spec].
Qed.

Lemma pedge_ok_b_spec : forall kind s e, pedge_ok_b kind s e = true <-> pgood kind s e.
Proof.
  intros [] s e; unfold pedge_ok_b, pgood, good_bdd, good_bcdd, good_z;
    rewrite ?andb_true_iff, ?negb_true_iff, ref_ok_b_spec; tauto.
Qed.

Lemma pcube_b_spec : forall kind s set, pcube_b kind s set = true <-> exists L, pkcube kind s set L.
Proof.
  intros [] s set; unfold pcube_b, pkcube.
  - destruct (cube_lits view_plain (S (nlevels s)) s set) as [L|];
      split; try discriminate; eauto. intros [L E]. discriminate.
  - destruct (cube_lits view_bcdd (S (nlevels s)) s set) as [L|];
      split; try discriminate; eauto. intros [L E]. discriminate.
  - destruct (cube_lits_z (S (nlevels s)) s set) as [L|];
      split; try discriminate; eauto. intros [L E]. discriminate.
Qed.

(** the extracted checker decides the hypothesis on a call *)
Theorem pcall_ok_b_spec : forall kind s k, pcall_ok_b kind s k = true <-> pcall_ok kind s k.
Proof.
  intros kind s [e|e set]; unfold pcall_ok_b, pcall_ok.
  - apply pedge_ok_b_spec.
  - rewrite !andb_true_iff, !pedge_ok_b_spec, pcube_b_spec. tauto.
Qed.

Theorem pextends_intact : forall kind s s', pinv kind s -> extends s s' -> pintact kind s s'.
Proof.
  intros [] s s' B X; unfold pinv, pintact in *;
    [apply extends_intact | apply extends_intact_c | apply extends_intact_z]; assumption.
Qed.

(** ** The specification of a result (what the C13 theorems say) *)

(** [pick_cube_edge] of the kind (DD/Pick.v) *)
Definition ppick_cube (St : Type) (choice : St -> nat -> edge -> bool * St) (kind : pkind)
    (s : snap) (st : St) (e : edge) : option (option (cubev * list step * St)) :=
  match kind with
  | PBdd => pick_cube_bdd St choice s st e
  | PBcdd => pick_cube_bcdd St choice s st e
  | PZbdd => pick_cube_z St choice s st e
  end.

(** [pick_cube_dd]: the result [r] (in table [s'], with trace [tr] and final
    state [st'] of the choice function) implies the function, is false iff the
    function is, and is exactly the cube [pick_cube] returns with the same choice
    function: same trace (same calls, same answers), same final state, and it
    holds exactly under the assignments that agree with the cube vector; for the
    false function the edge itself is returned and nothing is created *)
Definition dd_spec {St : Type} (den : snap -> edge -> lasg -> bool)
    (pc : option (option (cubev * list step * St)))
    (s : snap) (st : St) (e : edge) (s' : snap) (st' : St) (r : edge) (tr : list step) : Prop :=
  (forall a, den s' r a = true -> den s' e a = true) /\
  ((forall a, den s' r a = false) <-> (forall a, den s e a = false)) /\
  match pc with
  | Some (Some (cb, tr0, st0)) =>
    tr = tr0 /\ st' = st0 /\ forall a, den s' r a = true <-> agrees s a cb
  | Some None => s' = s /\ r = e /\ tr = [] /\ st' = st
  | None => False
  end.

(** [pick_cube_dd_set], BDD / BCDD (the conclusion of [pick_dd_set_bdd_ok] /
    [pick_dd_set_bcdd_ok]): implicant, false iff false, the conjunction of the
    trace's literals, every value that is not forced is the polarity in the set *)
Definition set_spec (view : snap -> edge -> cview) (good : snap -> edge -> Prop)
    (den : snap -> edge -> lasg -> bool)
    (s : snap) (e : edge) (s' : snap) (r : edge) (tr : list step) (L : list (nat * bool)) : Prop :=
  (forall a, den s' r a = true -> den s' e a = true) /\
  ((forall a, den s' r a = false) <-> (forall a, den s e a = false)) /\
  ((exists a0, den s e a0 = true) -> forall a, den s' r a = sat_trace a tr) /\
  forall p, In p tr -> call_ok view good den s p /\
    (sp_asked p = true -> sp_val p = Some (lit_pol L (sp_level p))).

(** [pick_cube_dd_set], ZBDD ([pick_dd_set_z_ok], [pick_dd_set_z_false]) *)
Definition set_spec_z (s : snap) (e : edge) (s' : snap) (r : edge) (tr : list step)
    (L : list (nat * bool)) : Prop :=
  (forall a, den_z s' r a = true -> den_z s' e a = true) /\
  (is_false view_plain s e = true -> s' = s /\ r = e /\ tr = []) /\
  (is_false view_plain s e = false ->
     (forall a, den_z s' r a = zsatb s a 0 tr) /\ (exists a, den_z s' r a = true) /\
     forall p, In p tr -> set_rule s L p).

Definition pset_spec (kind : pkind) (s : snap) (e : edge) (s' : snap) (r : edge) (tr : list step)
    (L : list (nat * bool)) : Prop :=
  match kind with
  | PBdd => set_spec view_plain good_bdd den_bdd s e s' r tr L
  | PBcdd => set_spec view_bcdd good_bcdd den_bcdd s e s' r tr L
  | PZbdd => set_spec_z s e s' r tr L
  end.

Definition pcall_spec (St : Type) (choice : St -> nat -> edge -> bool * St) (kind : pkind)
    (s : snap) (st : St) (k : pcall) (s' : snap) (st' : St) (r : edge * list step) : Prop :=
  match k with
  | PKDd e => dd_spec (pden kind) (ppick_cube St choice kind s st e) s st e s' st' (fst r) (snd r)
  | PKSet e set =>
    st' = st /\ forall L, pkcube kind s set L -> pset_spec kind s e s' (fst r) (snd r) L
  end.

(** the state after a failure *)
Definition pfailed_ok (kind : pkind) (cap : nat) (s s' : snap) : Prop :=
  pinv kind s' /\ extends s s' /\ pintact kind s s' /\
  node_count s <= node_count s' /\ cap <= node_count s'.

(** ** The unbounded run (C13 theorems) *)

Section Top.
Variable St : Type.
Variable choice : St -> nat -> edge -> bool * St.

(** [pick_cube_dd] of the three kinds is total on valid edges, with its specification *)
Lemma dd_u_ok_bdd : forall s st e, BddOK s -> good_bdd s e ->
  exists s' r tr st', pick_cube_dd_bdd St choice s st e = Some (s', r, tr, st') /\
    BddOK s' /\ extends s s' /\ good_bdd s' r /\
    dd_spec den_bdd (pick_cube_bdd St choice s st e) s st e s' st' r tr.
Proof.
  intros s st e B G.
  destruct (pick_cube_bdd_total St choice s st e B G) as [[[[cb tr0] st0]|] Ep].
  - destruct (pick_dd_bdd_same_cube St choice s st e cb tr0 st0 B G Ep) as [s1 [r1 [P [B1 [X1 [G1 D1]]]]]].
    destruct (pick_dd_bdd_implicant St choice s st e s1 r1 tr0 st0 B G P) as [_ [_ [_ [Hi Hf]]]].
    exists s1, r1, tr0, st0. split; [exact P|]. split; [exact B1|]. split; [exact X1|]. split; [exact G1|].
    split; [exact Hi|]. split; [exact Hf|]. rewrite Ep. auto.
  - pose proof (pick_dd_bdd_false St choice s st e B G Ep) as P.
    destruct (pick_dd_bdd_implicant St choice s st e s e [] st B G P) as [_ [_ [_ [Hi Hf]]]].
    exists s, e, [], st. split; [exact P|]. split; [exact B|]. split; [apply extends_refl|]. split; [exact G|].
    split; [exact Hi|]. split; [exact Hf|]. rewrite Ep. auto.
Qed.

Lemma dd_u_ok_bcdd : forall s st e, BcddOK s -> good_bcdd s e ->
  exists s' r tr st', pick_cube_dd_bcdd St choice s st e = Some (s', r, tr, st') /\
    BcddOK s' /\ extends s s' /\ good_bcdd s' r /\
    dd_spec den_bcdd (pick_cube_bcdd St choice s st e) s st e s' st' r tr.
Proof.
  intros s st e B G.
  destruct (pick_cube_bcdd_total St choice s st e B G) as [[[[cb tr0] st0]|] Ep].
  - destruct (pick_dd_bcdd_same_cube St choice s st e cb tr0 st0 B G Ep) as [s1 [r1 [P [B1 [X1 [G1 D1]]]]]].
    destruct (pick_dd_bcdd_implicant St choice s st e s1 r1 tr0 st0 B G P) as [_ [_ [_ [Hi Hf]]]].
    exists s1, r1, tr0, st0. split; [exact P|]. split; [exact B1|]. split; [exact X1|]. split; [exact G1|].
    split; [exact Hi|]. split; [exact Hf|]. rewrite Ep. auto.
  - pose proof (pick_dd_bcdd_false St choice s st e B G Ep) as P.
    destruct (pick_dd_bcdd_implicant St choice s st e s e [] st B G P) as [_ [_ [_ [Hi Hf]]]].
    exists s, e, [], st. split; [exact P|]. split; [exact B|]. split; [apply extends_refl|]. split; [exact G|].
    split; [exact Hi|]. split; [exact Hf|]. rewrite Ep. auto.
Qed.

Lemma dd_u_ok_z : forall s st e, PickZbdd.ZbddOK s -> good_z s e ->
  exists s' r tr st', pick_cube_dd_z St choice s st e = Some (s', r, tr, st') /\
    PickZbdd.ZbddOK s' /\ extends s s' /\ good_z s' r /\
    dd_spec den_z (pick_cube_z St choice s st e) s st e s' st' r tr.
Proof.
  intros s st e B G.
  destruct (pick_cube_z_total St choice s st e B G) as [[[[cb tr0] st0]|] Ep].
  - destruct (pick_dd_z_same_cube St choice s st e cb tr0 st0 B G Ep) as [s1 [r1 [P [B1 [X1 [G1 D1]]]]]].
    destruct (pick_dd_z_implicant St choice s st e s1 r1 tr0 st0 B G P) as [_ [_ [_ [Hi Hf]]]].
    exists s1, r1, tr0, st0. split; [exact P|]. split; [exact B1|]. split; [exact X1|]. split; [exact G1|].
    split; [exact Hi|]. split; [exact Hf|]. rewrite Ep. auto.
  - pose proof (pick_dd_z_false St choice s st e Ep) as P.
    destruct (pick_dd_z_implicant St choice s st e s e [] st B G P) as [_ [_ [_ [Hi Hf]]]].
    exists s, e, [], st. split; [exact P|]. split; [exact B|]. split; [apply extends_refl|]. split; [exact G|].
    split; [exact Hi|]. split; [exact Hf|]. rewrite Ep. auto.
Qed.

End Top.

(** [pick_cube_dd_set] of the three kinds is total when the literal set is a cube *)
Lemma set_u_ok_bdd : forall s e set L, BddOK s -> good_bdd s e -> good_bdd s set ->
  cube_lits view_plain (S (nlevels s)) s set = Some L ->
  exists s' r tr, pick_cube_dd_set_bdd s e set = Some (s', r, tr) /\
    BddOK s' /\ extends s s' /\ good_bdd s' r /\ set_spec view_plain good_bdd den_bdd s e s' r tr L.
Proof.
  intros s e set L B G Gs El.
  pose proof (pick_dd_set_bdd_eq s e set L B G Gs El) as Eq.
  destruct (dd_u_ok_bdd unit (mask_choice (lit_pol L)) s tt e B G) as [s1 [r1 [tr1 [[] [P _]]]]].
  rewrite P in Eq. cbn [drop_st] in Eq.
  destruct (pick_dd_set_bdd_ok s e set L s1 r1 tr1 B G Gs El Eq) as [B1 [X1 [G1 V]]].
  exists s1, r1, tr1. auto.
Qed.

Lemma set_u_ok_bcdd : forall s e set L, BcddOK s -> good_bcdd s e -> good_bcdd s set ->
  cube_lits view_bcdd (S (nlevels s)) s set = Some L ->
  exists s' r tr, pick_cube_dd_set_bcdd s e set = Some (s', r, tr) /\
    BcddOK s' /\ extends s s' /\ good_bcdd s' r /\ set_spec view_bcdd good_bcdd den_bcdd s e s' r tr L.
Proof.
  intros s e set L B G Gs El.
  pose proof (pick_dd_set_bcdd_eq s e set L B G Gs El) as Eq.
  destruct (dd_u_ok_bcdd unit (mask_choice (lit_pol L)) s tt e B G) as [s1 [r1 [tr1 [[] [P _]]]]].
  rewrite P in Eq. cbn [drop_st] in Eq.
  destruct (pick_dd_set_bcdd_ok s e set L s1 r1 tr1 B G Gs El Eq) as [B1 [X1 [G1 V]]].
  exists s1, r1, tr1. auto.
Qed.

Lemma set_u_ok_z : forall s e set L, PickZbdd.ZbddOK s -> good_z s e -> good_z s set ->
  cube_lits_z (S (nlevels s)) s set = Some L ->
  exists s' r tr, pick_cube_dd_set_z s e set = Some (s', r, tr) /\
    PickZbdd.ZbddOK s' /\ extends s s' /\ good_z s' r /\ set_spec_z s e s' r tr L.
Proof.
  intros s e set L B G Gs El. destruct (is_false view_plain s e) eqn:F.
  - exists s, e, []. split; [apply (pick_dd_set_z_false s e set F)|]. split; [exact B|].
    split; [apply extends_refl|]. split; [exact G|]. split; [auto|]. split; [auto|]. intros F'. congruence.
  - destruct (pick_dd_set_z_ok s e set L B G Gs El F) as [s1 [r1 [tr1 [P [B1 [X1 [G1 [Hd [Hi [Hex Hr]]]]]]]]]].
    exists s1, r1, tr1. split; [exact P|]. split; [exact B1|]. split; [exact X1|]. split; [exact G1|].
    split; [exact Hi|]. split; [intros F'; congruence|]. auto.
Qed.

(** the cube's literal list is a function of the literal set *)
Lemma pcube_fun : forall kind s set L L', pkcube kind s set L -> pkcube kind s set L' -> L' = L.
Proof. intros [] s set L L' E E'; unfold pkcube in *; congruence. Qed.

(** the invariant and a valid edge, as the manager-level invariant / result
    predicate of [res_safe] *)
Definition PKInv (kind : pkind) {St : Type} (s : snap) (st : St) : Prop := pinv kind s.
Definition PQ (kind : pkind) (s' : snap) (r : edge * list step) : Prop := pgood kind s' (fst r).

(** the unbounded run for the two entry points of the three kinds at once *)
Lemma prun_u_ok : forall St choice kind s (st : St) k, pinv kind s -> pcall_ok kind s k ->
  exists su stu ru, prun_u St choice kind s st k = Some (su, stu, ru) /\
    pinv kind su /\ extends s su /\ pgood kind su (fst ru) /\
    pcall_spec St choice kind s st k su stu ru.
Proof.
  intros St choice kind s st k B Hk. destruct kind, k as [e|e set]; unfold pinv, pcall_ok, pgood in *.
  - destruct (dd_u_ok_bdd St choice s st e B Hk) as [s1 [r1 [tr1 [st1 [P [B1 [X1 [G1 V]]]]]]]].
    exists s1, st1, (r1, tr1). unfold prun_u. rewrite P. auto.
  - destruct Hk as [G [Gs [L El]]].
    destruct (set_u_ok_bdd s e set L B G Gs El) as [s1 [r1 [tr1 [P [B1 [X1 [G1 V]]]]]]].
    exists s1, st, (r1, tr1). unfold prun_u. rewrite P.
    split; [reflexivity|]. split; [exact B1|]. split; [exact X1|]. split; [exact G1|].
    split; [reflexivity|]. intros L' El'. rewrite (pcube_fun PBdd s set L L' El El'). exact V.
  - apply bcok_iff in B.
    destruct (dd_u_ok_bcdd St choice s st e B Hk) as [s1 [r1 [tr1 [st1 [P [B1 [X1 [G1 V]]]]]]]].
    exists s1, st1, (r1, tr1). unfold prun_u. rewrite P. apply bcok_iff in B1. auto.
  - destruct Hk as [G [Gs [L El]]]. apply bcok_iff in B.
    destruct (set_u_ok_bcdd s e set L B G Gs El) as [s1 [r1 [tr1 [P [B1 [X1 [G1 V]]]]]]].
    exists s1, st, (r1, tr1). unfold prun_u. rewrite P. apply bcok_iff in B1.
    split; [reflexivity|]. split; [exact B1|]. split; [exact X1|]. split; [exact G1|].
    split; [reflexivity|]. intros L' El'. rewrite (pcube_fun PBcdd s set L L' El El'). exact V.
  - apply zok_iff in B.
    destruct (dd_u_ok_z St choice s st e B Hk) as [s1 [r1 [tr1 [st1 [P [B1 [X1 [G1 V]]]]]]]].
    exists s1, st1, (r1, tr1). unfold prun_u. rewrite P. apply zok_iff in B1. auto.
  - destruct Hk as [G [Gs [L El]]]. apply zok_iff in B.
    destruct (set_u_ok_z s e set L B G Gs El) as [s1 [r1 [tr1 [P [B1 [X1 [G1 V]]]]]]].
    exists s1, st, (r1, tr1). unfold prun_u. rewrite P. apply zok_iff in B1.
    split; [reflexivity|]. split; [exact B1|]. split; [exact X1|]. split; [exact G1|].
    split; [reflexivity|]. intros L' El'. rewrite (pcube_fun PZbdd s set L L' El El'). exact V.
Qed.

Lemma res_safe_map : forall C R (Inv Inv' : snap -> C -> Prop) (Q Q' : snap -> R -> Prop) s (r : gres C R),
  res_safe Inv extends Q s r -> (forall s0 c, Inv s0 c -> Inv' s0 c) -> (forall s0 x, Q s0 x -> Q' s0 x) ->
  res_safe Inv' extends Q' s r.
Proof.
  intros C R Inv Inv' Q Q' s [s' c' x|s' c'|] H HI HQ; simpl in *; [|destruct H; auto|exact H].
  destruct H as [A [B D]]. auto.
Qed.

(** the safe-run fact for the two entry points of the three kinds at once *)
Lemma prun_rs : forall St choice kind cap s (st : St) k, pinv kind s -> pcall_ok kind s k ->
  res_safe (@PKInv kind St) extends (PQ kind) s (prun_c St choice kind cap s st k).
Proof.
  intros St choice kind cap s st k B Hk. destruct kind, k as [e|e set]; unfold pinv, pcall_ok, pgood in *.
  - exact (pick_cube_dd_c_rs view_plain BddOK good_bdd den_bdd bdd_OK_WF bdd_view_err bdd_view_term
             bdd_view_node bdd_den_indep add_lit_bdd add_lit_bdd_ok cap (add_lit_bdd_cap cap)
             (add_lit_bdd_rel cap) St choice s st e B Hk).
  - destruct Hk as [G [Gs [L El]]].
    exact (pick_cube_dd_set_c_rs view_plain BddOK good_bdd den_bdd bdd_OK_WF bdd_view_err bdd_view_term
             bdd_view_node bdd_den_indep add_lit_bdd add_lit_bdd_ok cap (add_lit_bdd_cap cap)
             (add_lit_bdd_rel cap) St s st e set L B G Gs El).
  - apply bcok_iff in B.
    apply (res_safe_map St _ (@PInv BcddOK St) _ (Qgood good_bcdd) _ s _
             (pick_cube_dd_c_rs view_bcdd BcddOK good_bcdd den_bcdd bcdd_OK_WF bcdd_view_err bcdd_view_term
                bcdd_view_node bcdd_den_indep add_lit_bcdd add_lit_bcdd_ok cap (add_lit_bcdd_cap cap)
                (add_lit_bcdd_rel cap) St choice s st e B Hk)).
    + intros s0 c H. apply bcok_iff. exact H.
    + auto.
  - destruct Hk as [G [Gs [L El]]]. apply bcok_iff in B.
    apply (res_safe_map St _ (@PInv BcddOK St) _ (Qgood good_bcdd) _ s _
             (pick_cube_dd_set_c_rs view_bcdd BcddOK good_bcdd den_bcdd bcdd_OK_WF bcdd_view_err bcdd_view_term
                bcdd_view_node bcdd_den_indep add_lit_bcdd add_lit_bcdd_ok cap (add_lit_bcdd_cap cap)
                (add_lit_bcdd_rel cap) St s st e set L B G Gs El)).
    + intros s0 c H. apply bcok_iff. exact H.
    + auto.
  - apply zok_iff in B.
    apply (res_safe_map St _ (@ZPInv St) _ Qgood_z _ s _ (pick_cube_dd_z_c_rs cap St choice s st e B Hk)).
    + intros s0 c H. apply zok_iff. exact H.
    + auto.
  - destruct Hk as [G [Gs [L El]]]. apply zok_iff in B.
    apply (res_safe_map St _ (@ZPInv St) _ Qgood_z _ s _ (pick_cube_dd_set_z_c_rs cap St s st e set L B G Gs El)).
    + intros s0 c H. apply zok_iff. exact H.
    + auto.
Qed.

Lemma pfailed_of_state : forall St kind cap s s' (st' : St), pinv kind s ->
  failed_state St no_m2 cap 1 (@PKInv kind St) extends s s' st' -> pfailed_ok kind cap s s'.
Proof.
  intros St kind cap s s' st' B [B' [X [G F]]]. simpl in G, F. unfold no_m2 in *.
  split; [exact B'|]. split; [exact X|]. split; [apply (pextends_intact kind s s' B X)|]. lia.
Qed.

(** ** The statements *)

(** *** never a wrong edge: a result - table, final state of the choice function,
    edge, trace - is literally the result of the unbounded run *)
Theorem pick_never_wrong : forall St choice kind cap s (st : St) k s' st' r,
  prun_c St choice kind cap s st k = GOk s' st' r ->
  prun_u St choice kind s st k = Some (s', st', r).
Proof.
  intros St choice kind cap s st k s' st' r E.
  apply (sim_never_wrong St no_m2 cap 1 _ _ _ _ _ _ _ (prun_sim St choice kind cap s st k) E).
Qed.

(** *** retry: when the table of the unbounded run fits, the bounded run succeeds
    with exactly that result *)
Theorem pick_retry : forall St choice kind cap s (st : St) k su stu ru,
  prun_u St choice kind s st k = Some (su, stu, ru) -> node_count su <= cap ->
  prun_c St choice kind cap s st k = GOk su stu ru.
Proof.
  intros St choice kind cap s st k su stu ru E Hfit.
  pose proof (prun_sim St choice kind cap s st k) as M. rewrite E in M.
  destruct M as [_ [G F]]. simpl in G. apply F. simpl. unfold no_m2 in *. lia.
Qed.

(** *** monotone in the capacity *)
Theorem pick_monotone : forall St choice kind cap cap' s (st : St) k s' st' r, cap <= cap' ->
  prun_c St choice kind cap s st k = GOk s' st' r ->
  prun_c St choice kind cap' s st k = GOk s' st' r.
Proof.
  intros St choice kind cap cap' s st k s' st' r Hle E.
  apply (sim_monotone St _ no_m2 cap 1 cap' 1 s _ _ _ s' st' r Hle (le_n 1)
           (prun_sim St choice kind cap s st k) (prun_sim St choice kind cap' s st k) E).
Qed.

(** *** a result is a valid edge with the C13 specification, in a table in which
    everything that existed before is intact *)
Theorem pick_never_wrong_sem : forall St choice kind cap s (st : St) k s' st' r,
  pinv kind s -> pcall_ok kind s k ->
  prun_c St choice kind cap s st k = GOk s' st' r ->
  pinv kind s' /\ extends s s' /\ pintact kind s s' /\ pgood kind s' (fst r) /\
  pcall_spec St choice kind s st k s' st' r.
Proof.
  intros St choice kind cap s st k s' st' r B Hk E.
  apply pick_never_wrong in E.
  destruct (prun_u_ok St choice kind s st k B Hk) as [s1 [st1 [r1 [E1 [B1 [X1 [G1 V1]]]]]]].
  rewrite E in E1. inversion E1; subst s1 st1 r1.
  split; [exact B1|]. split; [exact X1|]. split; [apply (pextends_intact kind s s' B X1)|]. auto.
Qed.

(** *** the state after a failure: [st'] is the state of the choice function at
    the point of failure (all its calls precede the first allocation) *)
Theorem pick_safe : forall St choice kind cap s (st : St) k s' st',
  pinv kind s -> pcall_ok kind s k ->
  prun_c St choice kind cap s st k = GOom s' st' ->
  pinv kind s' /\ extends s s' /\ pintact kind s s' /\
  node_count s <= node_count s' /\ cap <= node_count s'.
Proof.
  intros St choice kind cap s st k s' st' B Hk E.
  pose proof (prun_rs St choice kind cap s st k B Hk) as S.
  pose proof (prun_sim St choice kind cap s st k) as M.
  rewrite E in S, M. apply (pfailed_of_state St kind cap s s' st' B).
  apply (failed_intro St no_m2 cap 1 (@PKInv kind St) extends _ (PQ kind) s s' st' _ S M).
Qed.

(** *** no panic, no divergence *)
Theorem pick_no_panic : forall St choice kind cap s (st : St) k,
  pinv kind s -> pcall_ok kind s k ->
  prun_c St choice kind cap s st k <> GStuck.
Proof.
  intros St choice kind cap s st k B Hk E.
  pose proof (prun_rs St choice kind cap s st k B Hk) as S. rewrite E in S. exact S.
Qed.

(** *** exactness: the bounded run delivers the result of the unbounded run exactly
    when its table fits, and fails - leaving a safe table, store full - otherwise *)
Theorem pick_exact : forall St choice kind cap s (st : St) k,
  pinv kind s -> pcall_ok kind s k ->
  exists su stu ru, prun_u St choice kind s st k = Some (su, stu, ru) /\
    pinv kind su /\ pgood kind su (fst ru) /\ pcall_spec St choice kind s st k su stu ru /\
    (node_count su <= Nat.max cap (node_count s) ->
       prun_c St choice kind cap s st k = GOk su stu ru) /\
    (Nat.max cap (node_count s) < node_count su ->
       exists s' st', prun_c St choice kind cap s st k = GOom s' st' /\
         pinv kind s' /\ extends s s' /\ pintact kind s s' /\
         node_count s <= node_count s' /\ cap <= node_count s').
Proof.
  intros St choice kind cap s st k B Hk.
  destruct (prun_u_ok St choice kind s st k B Hk) as [su [stu [ru [Eu [Bu [_ [Gu V]]]]]]].
  exists su, stu, ru. split; [exact Eu|]. split; [exact Bu|]. split; [exact Gu|]. split; [exact V|].
  pose proof (prun_rs St choice kind cap s st k B Hk) as S.
  pose proof (prun_sim St choice kind cap s st k) as M. rewrite Eu in M.
  destruct (exact_intro St no_m2 cap 1 (@PKInv kind St) extends _ (PQ kind) s _ su stu ru S M) as [A1 A2].
  destruct M as [_ F]. simpl in F. destruct F as [G _]. unfold no_m2 in *. split.
  - intros Hfit. apply A1. simpl. unfold no_m2. lia.
  - intros Hbig. destruct (A2 (or_introl Hbig)) as [s' [st' [E Fs]]].
    exists s', st'. split; [exact E | apply (pfailed_of_state St kind cap s s' st' B Fs)].
Qed.

(** *** what "intact" means for the owner of a handle (the three records spelled out) *)
Theorem pick_intact_meaning : forall kind s s', pintact kind s s' ->
  s_handles s' = s_handles s /\
  s_v2l s' = s_v2l s /\ s_l2v s' = s_l2v s /\ s_terms s' = s_terms s /\
  (forall id nd, find_node s id = Some nd -> find_node s' id = Some nd) /\
  (forall h, In h (s_handles s) -> forall c0, sem_edge s' (snd h) c0 = sem_edge s (snd h) c0) /\
  (forall id, find_node s id = None -> ~ reachable s' (handle_refs s') (RN id)) /\
  (forall r, reachable s' (handle_refs s') r <-> reachable s (handle_refs s) r).
Proof.
  intros [] s s' I; unfold pintact in I.
  - destruct I as [A [B1 [B2 B3]] C0 D E0 F G]. repeat (split; [assumption|]). assumption.
  - destruct (intact_c_elim s s' I) as [A [B1 [B2 [B3 [C0 [_ [E0 [F G]]]]]]]].
    repeat (split; [assumption|]). assumption.
  - destruct (intact_z_elim s s' I) as [A [B1 [B2 [B3 [C0 [_ [E0 [F G]]]]]]]].
    repeat (split; [assumption|]). assumption.
Qed.

(** ** The instances the correspondence run evaluates (choice = a table indexed
    by level, no state): the hypotheses are the two extracted checkers *)

Theorem pick_nc_exact : forall kind cap s m k, pinv_b kind s = true -> pcall_ok_b kind s k = true ->
  prun_c unit (mask_choice m) kind cap s tt k <> GStuck /\
  exists su ru, prun_u unit (mask_choice m) kind s tt k = Some (su, tt, ru) /\
    pinv_b kind su = true /\ pedge_ok_b kind su (fst ru) = true /\
    pcall_spec unit (mask_choice m) kind s tt k su tt ru /\
    (node_count su <= Nat.max cap (node_count s) ->
       prun_c unit (mask_choice m) kind cap s tt k = GOk su tt ru) /\
    (Nat.max cap (node_count s) < node_count su ->
       exists s', prun_c unit (mask_choice m) kind cap s tt k = GOom s' tt /\
         pinv_b kind s' = true /\ extends s s' /\ pintact kind s s' /\
         node_count s <= node_count s' /\ cap <= node_count s').
Proof.
  intros kind cap s m k Hb Hk. apply pinv_b_spec in Hb. apply pcall_ok_b_spec in Hk.
  split; [apply (pick_no_panic unit (mask_choice m) kind cap s tt k Hb Hk)|].
  destruct (pick_exact unit (mask_choice m) kind cap s tt k Hb Hk) as [su [[] [ru [E [Bu [Gu [V [A B]]]]]]]].
  exists su, ru. split; [exact E|]. split; [apply pinv_b_spec; exact Bu|].
  split; [apply pedge_ok_b_spec; exact Gu|]. split; [exact V|]. split; [exact A|].
  intros Hbig. destruct (B Hbig) as [s' [[] [E' [B' R]]]].
  exists s'. split; [exact E'|]. split; [apply pinv_b_spec; exact B' | exact R].
Qed.

Lemma pick_nc_eq : forall kind cap s m e set,
  pick_dd_nc kind cap s m e = prun_c unit (mask_choice m) kind cap s tt (PKDd e) /\
  pick_dd_set_nc kind cap s e set = prun_c unit (mask_choice (fun _ => false)) kind cap s tt (PKSet e set) /\
  pick_dd_unc kind s m e = prun_u unit (mask_choice m) kind s tt (PKDd e) /\
  pick_dd_set_unc kind s e set = prun_u unit (mask_choice (fun _ => false)) kind s tt (PKSet e set).
Proof. intros. repeat split. Qed.
