(** * Out-of-memory behaviour of the BDD apply algorithms (Mgr/Oom.v), part 1

    Facts that need no invariant (they hold for every table, cache and fuel):

    - [*_refines] ([oom_never_wrong]): when the bounded algorithm returns
      [ROk s' c' r], the unbounded algorithm of DD/Apply.v returns literally
      [Some (s', c', r)], and at most [cap] nodes are stored unless nothing
      was inserted; when it returns [ROom s' c'] the store is full
      ([cap <= node_count s']) and no node has disappeared;
    - [*_retry]: when the unbounded algorithm returns [Some (s', c', r)] and
      the nodes of [s'] fit into the capacity, the bounded algorithm returns
      [ROk s' c' r] (for either recursor);
    - [*_monotone]: a run that succeeds with capacity [cap] succeeds with the
      same result for every capacity [cap' >= cap] and either recursor.

    The invariant-dependent part (the table after a failure) is in
    Mgr/OomSafe.v. *)

From Coq Require Import List NArith PArith Bool Arith Lia FMapPositive FMapFacts.
From OxiVerif Require Import DD.Table DD.TableProofs DD.Canon DD.Sem DD.Build DD.BuildProofs
  DD.Apply DD.ApplyProofs Mgr.Oom.
Import ListNotations.

Module PMP := FMapFacts.WProperties_fun PositiveMap.E PositiveMap.

(** ** Node counts *)

Lemma node_count_insert : forall s id nd, find_node s id = None ->
  node_count (set_nodes s (PositiveMap.add id nd (s_nodes s))) = S (node_count s).
Proof.
  intros s id nd E. unfold node_count. simpl.
  apply (PMP.cardinal_2 (x := id) (e := nd)).
  - apply PMP.F.not_find_in_iff. exact E.
  - intros y. reflexivity.
Qed.

Lemma get_or_insert_count : forall s lvl ch s' e, get_or_insert s lvl ch = (s', e) ->
  (find_dup s lvl ch <> None /\ s' = s) \/
  (find_dup s lvl ch = None /\ node_count s' = S (node_count s)).
Proof.
  intros s lvl ch s' e. unfold get_or_insert.
  destruct (find_dup s lvl ch) as [id|] eqn:Ed; intros Heq; inversion Heq; subst.
  - left. split; [discriminate | reflexivity].
  - right. split; [reflexivity|]. apply node_count_insert. apply fresh_id_free.
Qed.

(** what the bounded insertion does, relative to the unbounded one *)
Lemma get_or_insert_cap_some : forall cap s lvl ch x, get_or_insert_cap cap s lvl ch = Some x ->
  get_or_insert s lvl ch = x /\
  node_count s <= node_count (fst x) <= Nat.max cap (node_count s).
Proof.
  intros cap s lvl ch [s' e]. unfold get_or_insert_cap.
  destruct (find_dup s lvl ch) as [id|] eqn:Ed.
  - intros Heq. inversion Heq; subst. unfold get_or_insert. rewrite Ed. cbn [fst]. split; [reflexivity | lia].
  - destruct (Nat.ltb_spec (node_count s) cap) as [Hlt|Hge]; [|discriminate].
    intros Heq. inversion Heq as [Hx]. split; [reflexivity|]. rewrite Hx. cbn [fst].
    destruct (get_or_insert_count s lvl ch s' e Hx) as [[A _]|[_ B]]; [congruence | lia].
Qed.

Lemma get_or_insert_cap_none : forall cap s lvl ch, get_or_insert_cap cap s lvl ch = None ->
  find_dup s lvl ch = None /\ cap <= node_count s.
Proof.
  intros cap s lvl ch. unfold get_or_insert_cap.
  destruct (find_dup s lvl ch) as [id|]; [discriminate|].
  destruct (Nat.ltb_spec (node_count s) cap) as [Hlt|Hge]; [discriminate | auto].
Qed.

(** the converse: the unbounded insertion result is delivered whenever it fits *)
Lemma get_or_insert_cap_fits : forall cap s lvl ch s' e, get_or_insert s lvl ch = (s', e) ->
  node_count s <= node_count s' /\
  (node_count s' <= Nat.max cap (node_count s) -> get_or_insert_cap cap s lvl ch = Some (s', e)).
Proof.
  intros cap s lvl ch s' e Hx. unfold get_or_insert_cap.
  destruct (get_or_insert_count s lvl ch s' e Hx) as [[A ->]|[A B]].
  - split; [lia|]. intros _. unfold get_or_insert in Hx.
    destruct (find_dup s lvl ch) as [id|]; [|congruence]. inversion Hx. reflexivity.
  - split; [lia|]. intros Hfit. rewrite A.
    destruct (Nat.ltb_spec (node_count s) cap) as [Hlt|Hge]; [rewrite Hx; reflexivity | lia].
Qed.

Lemma mk_node_cap_some : forall cap s lvl ch x, mk_node_cap cap s lvl ch = Some x ->
  mk_node s lvl ch = x /\
  node_count s <= node_count (fst x) <= Nat.max cap (node_count s).
Proof.
  intros cap s lvl ch x. unfold mk_node_cap, mk_node.
  destruct ch as [|c0 rest]; [intros Heq; inversion Heq; cbn [fst]; split; [reflexivity | lia]|].
  destruct (all_equal (c0 :: rest)); [intros Heq; inversion Heq; cbn [fst]; split; [reflexivity | lia]|].
  apply get_or_insert_cap_some.
Qed.

Lemma mk_node_cap_none : forall cap s lvl ch, mk_node_cap cap s lvl ch = None -> cap <= node_count s.
Proof.
  intros cap s lvl ch. unfold mk_node_cap.
  destruct ch as [|c0 rest]; [discriminate|].
  destruct (all_equal (c0 :: rest)); [discriminate|].
  intros Hx. apply (get_or_insert_cap_none cap s lvl _ Hx).
Qed.

Lemma mk_node_cap_fits : forall cap s lvl ch s' e, mk_node s lvl ch = (s', e) ->
  node_count s <= node_count s' /\
  (node_count s' <= Nat.max cap (node_count s) -> mk_node_cap cap s lvl ch = Some (s', e)).
Proof.
  intros cap s lvl ch s' e. unfold mk_node_cap, mk_node.
  destruct ch as [|c0 rest]; [intros Heq; inversion Heq; subst; split; [lia | reflexivity]|].
  destruct (all_equal (c0 :: rest)); [intros Heq; inversion Heq; subst; split; [lia | reflexivity]|].
  apply get_or_insert_cap_fits.
Qed.

(** a success with capacity [cap] is a success with every larger capacity *)
Lemma mk_node_cap_mono : forall cap cap' s lvl ch x, cap <= cap' ->
  mk_node_cap cap s lvl ch = Some x -> mk_node_cap cap' s lvl ch = Some x.
Proof.
  intros cap cap' s lvl ch [s' e] Hle Hx.
  destruct (mk_node_cap_some cap s lvl ch _ Hx) as [Hm Hc]. simpl in Hc.
  apply (proj2 (mk_node_cap_fits cap' s lvl ch s' e Hm)). lia.
Qed.

(** ** Unfolding lemmas *)

Section Bounded.
Variable gt : ref -> ref -> bool.
Variable C : Type.
Variable cget : C -> N -> list ref -> option ref.
Variable cadd : C -> N -> list ref -> ref -> C.

(** the unbounded counterpart of [finish] *)
Definition ufinish (lvl : nat) (code : N) (args : list ref)
  (s2 : snap) (c2 : C) (t e : ref) : option (snap * C * ref) :=
  let '(s3, h) := mk_node s2 lvl [E t; E e] in
  Some (s3, cadd c2 code args (eref h), eref h).

(** the unbounded counterpart of [join2] *)
Definition ujoin2 (u1 : option (snap * C * ref)) (urun2 : snap -> C -> option (snap * C * ref))
  (ufin : snap -> C -> ref -> ref -> option (snap * C * ref)) : option (snap * C * ref) :=
  match u1 with
  | None => None
  | Some (s1, c1, t) =>
    match urun2 s1 c1 with
    | None => None
    | Some (s2, c2, e) => ufin s2 c2 t e
    end
  end.

Lemma apply_not_U : forall n s c f,
  apply_not C cget cadd (S n) s c f =
  match f with
  | RT _ =>
    match view s f with
    | Some (VT b) =>
      match term_of s (negb b) with Some t => Some (s, c, RT t) | None => None end
    | _ => None
    end
  | RN id =>
    match find_node s id with
    | None => None
    | Some nd =>
      match cget c code_not [f] with
      | Some h => Some (s, c, h)
      | None =>
        match nchildren nd with
        | [ft; fe] =>
          ujoin2 (apply_not C cget cadd n s c (eref ft))
                 (fun s1 c1 => apply_not C cget cadd n s1 c1 (eref fe))
                 (ufinish (nstored nd) code_not [f])
        | _ => None
        end
      end
    end
  end.
Proof. reflexivity. Qed.

Lemma apply_bin_U : forall n s c op f g,
  apply_bin gt C cget cadd (S n) s c op f g =
  match terminal_bin gt s op f g with
  | TFail => None
  | TDone h => Some (s, c, h)
  | TNot r => apply_not C cget cadd (S n) s c r
  | TBin o a b =>
    match cget c (op_code o) [a; b] with
    | Some h => Some (s, c, h)
    | None =>
      match inner s f, inner s g with
      | Some fnode, Some gnode =>
        let lvl := Nat.min (nstored fnode) (nstored gnode) in
        match cof2 f fnode lvl, cof2 g gnode lvl with
        | Some (ft, fe), Some (gt', ge) =>
          ujoin2 (apply_bin gt C cget cadd n s c op ft gt')
                 (fun s1 c1 => apply_bin gt C cget cadd n s1 c1 op fe ge)
                 (ufinish lvl (op_code o) [a; b])
        | _, _ => None
        end
      | _, _ => None
      end
    end
  end.
Proof. reflexivity. Qed.

Lemma apply_ite_U : forall n s c f g h,
  apply_ite gt C cget cadd (S n) s c f g h =
    if ref_eqb g h then Some (s, c, g)
    else if ref_eqb f g then apply_bin gt C cget cadd (S n) s c OOr f h
    else if ref_eqb f h then apply_bin gt C cget cadd (S n) s c OAnd f g
    else
      match view s f with
      | None => None
      | Some (VT b) => Some (s, c, if b then g else h)
      | Some VI =>
        match view s g, view s h with
        | Some (VT true), Some VI => apply_bin gt C cget cadd (S n) s c OOr f h
        | Some (VT false), Some VI => apply_bin gt C cget cadd (S n) s c OImpStrict f h
        | Some VI, Some (VT true) => apply_bin gt C cget cadd (S n) s c OImp f g
        | Some VI, Some (VT false) => apply_bin gt C cget cadd (S n) s c OAnd f g
        | Some (VT false), Some (VT _) => apply_not C cget cadd (S n) s c f
        | Some (VT true), Some (VT _) => Some (s, c, f)
        | Some VI, Some VI =>
          match cget c code_ite [f; g; h] with
          | Some r => Some (s, c, r)
          | None =>
            match inner s f, inner s g, inner s h with
            | Some fnode, Some gnode, Some hnode =>
              let lvl := Nat.min (Nat.min (nstored fnode) (nstored gnode)) (nstored hnode) in
              match cof2 f fnode lvl, cof2 g gnode lvl, cof2 h hnode lvl with
              | Some (ft, fe), Some (gt', ge), Some (ht, he) =>
                ujoin2 (apply_ite gt C cget cadd n s c ft gt' ht)
                       (fun s1 c1 => apply_ite gt C cget cadd n s1 c1 fe ge he)
                       (ufinish lvl code_ite [f; g; h])
              | _, _, _ => None
              end
            | _, _, _ => None
            end
          end
        | _, _ => None
        end
      end.
Proof. reflexivity. Qed.

Section Cap.
Variable cap : nat.
Variable par : nat -> bool.

Lemma apply_not_c_S : forall n s c f,
  apply_not_c C cget cadd cap par (S n) s c f =
  match f with
  | RT _ =>
    match view s f with
    | Some (VT b) =>
      match term_of s (negb b) with Some t => ROk s c (RT t) | None => RStuck end
    | _ => RStuck
    end
  | RN id =>
    match find_node s id with
    | None => RStuck
    | Some nd =>
      match cget c code_not [f] with
      | Some h => ROk s c h
      | None =>
        match nchildren nd with
        | [ft; fe] =>
          join2 (par n) (apply_not_c C cget cadd cap par n s c (eref ft))
                (fun s1 c1 => apply_not_c C cget cadd cap par n s1 c1 (eref fe))
                (finish C cadd cap (nstored nd) code_not [f])
        | _ => RStuck
        end
      end
    end
  end.
Proof. reflexivity. Qed.

Lemma apply_bin_c_S : forall n s c op f g,
  apply_bin_c gt C cget cadd cap par (S n) s c op f g =
  match terminal_bin gt s op f g with
  | TFail => RStuck
  | TDone h => ROk s c h
  | TNot r => apply_not_c C cget cadd cap par (S n) s c r
  | TBin o a b =>
    match cget c (op_code o) [a; b] with
    | Some h => ROk s c h
    | None =>
      match inner s f, inner s g with
      | Some fnode, Some gnode =>
        let lvl := Nat.min (nstored fnode) (nstored gnode) in
        match cof2 f fnode lvl, cof2 g gnode lvl with
        | Some (ft, fe), Some (gt', ge) =>
          join2 (par n) (apply_bin_c gt C cget cadd cap par n s c op ft gt')
                (fun s1 c1 => apply_bin_c gt C cget cadd cap par n s1 c1 op fe ge)
                (finish C cadd cap lvl (op_code o) [a; b])
        | _, _ => RStuck
        end
      | _, _ => RStuck
      end
    end
  end.
Proof. reflexivity. Qed.

Lemma apply_ite_c_S : forall n s c f g h,
  apply_ite_c gt C cget cadd cap par (S n) s c f g h =
    if ref_eqb g h then ROk s c g
    else if ref_eqb f g then apply_bin_c gt C cget cadd cap par (S n) s c OOr f h
    else if ref_eqb f h then apply_bin_c gt C cget cadd cap par (S n) s c OAnd f g
    else
      match view s f with
      | None => RStuck
      | Some (VT b) => ROk s c (if b then g else h)
      | Some VI =>
        match view s g, view s h with
        | Some (VT true), Some VI => apply_bin_c gt C cget cadd cap par (S n) s c OOr f h
        | Some (VT false), Some VI => apply_bin_c gt C cget cadd cap par (S n) s c OImpStrict f h
        | Some VI, Some (VT true) => apply_bin_c gt C cget cadd cap par (S n) s c OImp f g
        | Some VI, Some (VT false) => apply_bin_c gt C cget cadd cap par (S n) s c OAnd f g
        | Some (VT false), Some (VT _) => apply_not_c C cget cadd cap par (S n) s c f
        | Some (VT true), Some (VT _) => ROk s c f
        | Some VI, Some VI =>
          match cget c code_ite [f; g; h] with
          | Some r => ROk s c r
          | None =>
            match inner s f, inner s g, inner s h with
            | Some fnode, Some gnode, Some hnode =>
              let lvl := Nat.min (Nat.min (nstored fnode) (nstored gnode)) (nstored hnode) in
              match cof2 f fnode lvl, cof2 g gnode lvl, cof2 h hnode lvl with
              | Some (ft, fe), Some (gt', ge), Some (ht, he) =>
                join2 (par n) (apply_ite_c gt C cget cadd cap par n s c ft gt' ht)
                      (fun s1 c1 => apply_ite_c gt C cget cadd cap par n s1 c1 fe ge he)
                      (finish C cadd cap lvl code_ite [f; g; h])
              | _, _, _ => RStuck
              end
            | _, _, _ => RStuck
            end
          end
        | _, _ => RStuck
        end
      end.
Proof. reflexivity. Qed.

(** ** A: what a bounded result says about the unbounded run *)

Definition refines (s : snap) (rb : res C) (ru : option (snap * C * ref)) : Prop :=
  match rb with
  | ROk s' c' r =>
      ru = Some (s', c', r) /\ node_count s <= node_count s' <= Nat.max cap (node_count s)
  | ROom s' c' => node_count s <= node_count s' /\ cap <= node_count s'
  | RStuck => True
  end.

Lemma refines_here : forall s c r, refines s (ROk s c r) (Some (s, c, r)).
Proof. intros. simpl. split; [reflexivity | lia]. Qed.

Lemma finish_refines : forall lvl code args s2 c2 t e,
  refines s2 (finish C cadd cap lvl code args s2 c2 t e) (ufinish lvl code args s2 c2 t e).
Proof.
  intros lvl code args s2 c2 t e. unfold finish, ufinish.
  destruct (mk_node_cap cap s2 lvl [E t; E e]) as [[s3 h]|] eqn:Em.
  - destruct (mk_node_cap_some cap s2 lvl _ _ Em) as [Hm Hc]. rewrite Hm. simpl in *. auto.
  - simpl. split; [lia | apply (mk_node_cap_none cap s2 lvl _ Em)].
Qed.

Lemma join2_refines : forall p s r1 u1 run2 urun2 fin ufin,
  refines s r1 u1 ->
  (forall s1 c1, refines s1 (run2 s1 c1) (urun2 s1 c1)) ->
  (forall s2 c2 t e, refines s2 (fin s2 c2 t e) (ufin s2 c2 t e)) ->
  refines s (join2 p r1 run2 fin) (ujoin2 u1 urun2 ufin).
Proof.
  intros p s r1 u1 run2 urun2 fin ufin H1 H2 H3. unfold join2, ujoin2.
  destruct r1 as [s1 c1 t|s1 c1|]; simpl in H1; [| |exact I].
  - destruct H1 as [-> Hc1]. specialize (H2 s1 c1).
    destruct (run2 s1 c1) as [s2 c2 e|s2 c2|]; simpl in H2; [| |exact I].
    + destruct H2 as [-> Hc2]. specialize (H3 s2 c2 t e).
      destruct (fin s2 c2 t e) as [s3 c3 r|s3 c3|]; simpl in *; [| |exact I].
      * destruct H3 as [-> Hc3]. split; [reflexivity | lia].
      * lia.
    + simpl. lia.
  - destruct p; [|simpl; exact H1]. specialize (H2 s1 c1).
    destruct (run2 s1 c1) as [s2 c2 e|s2 c2|]; simpl in *; [lia | lia | exact I].
Qed.

Theorem apply_not_refines : forall fuel s c f,
  refines s (apply_not_c C cget cadd cap par fuel s c f) (apply_not C cget cadd fuel s c f).
Proof.
  induction fuel as [|n IH]; intros s c f; [exact I|].
  rewrite apply_not_c_S, apply_not_U. destruct f as [t|id].
  - destruct (view s (RT t)) as [[|b]|]; try exact I.
    destruct (term_of s (negb b)); [apply refines_here | exact I].
  - destruct (find_node s id) as [nd|]; [|exact I].
    destruct (cget c code_not [RN id]); [apply refines_here|].
    destruct (nchildren nd) as [|ft [|fe [|x r]]]; try exact I.
    apply join2_refines; [apply IH | intros; apply IH | intros; apply finish_refines].
Qed.

Theorem apply_bin_refines : forall fuel s c op f g,
  refines s (apply_bin_c gt C cget cadd cap par fuel s c op f g)
            (apply_bin gt C cget cadd fuel s c op f g).
Proof.
  induction fuel as [|n IH]; intros s c op f g; [exact I|].
  rewrite apply_bin_c_S, apply_bin_U.
  destruct (terminal_bin gt s op f g) as [r|r|o a b|]; [apply refines_here | apply apply_not_refines | | exact I].
  destruct (cget c (op_code o) [a; b]); [apply refines_here|].
  destruct (inner s f) as [fnode|]; [|exact I]. destruct (inner s g) as [gnode|]; [|exact I].
  cbv zeta.
  destruct (cof2 f fnode _) as [[ft fe]|]; [|exact I]. destruct (cof2 g gnode _) as [[gt' ge]|]; [|exact I].
  apply join2_refines; [apply IH | intros; apply IH | intros; apply finish_refines].
Qed.

Theorem apply_ite_refines : forall fuel s c f g h,
  refines s (apply_ite_c gt C cget cadd cap par fuel s c f g h)
            (apply_ite gt C cget cadd fuel s c f g h).
Proof.
  induction fuel as [|n IH]; intros s c f g h; [exact I|].
  rewrite apply_ite_c_S, apply_ite_U.
  destruct (ref_eqb g h); [apply refines_here|].
  destruct (ref_eqb f g); [apply apply_bin_refines|].
  destruct (ref_eqb f h); [apply apply_bin_refines|].
  destruct (view s f) as [[|bf]|]; [| apply refines_here | exact I].
  destruct (view s g) as [[|[]]|]; destruct (view s h) as [[|[]]|];
    try exact I; try apply apply_bin_refines; try apply apply_not_refines; try apply refines_here.
  destruct (cget c code_ite [f; g; h]); [apply refines_here|].
  destruct (inner s f) as [fnode|]; [|exact I]. destruct (inner s g) as [gnode|]; [|exact I].
  destruct (inner s h) as [hnode|]; [|exact I]. cbv zeta.
  destruct (cof2 f fnode _) as [[ft fe]|]; [|exact I]. destruct (cof2 g gnode _) as [[gt' ge]|]; [|exact I].
  destruct (cof2 h hnode _) as [[ht he]|]; [|exact I].
  apply join2_refines; [apply IH | intros; apply IH | intros; apply finish_refines].
Qed.

(** ** B: what an unbounded result says about the bounded run *)

Definition fits (s : snap) (ru : option (snap * C * ref)) (rb : res C) : Prop :=
  match ru with
  | Some (s', c', r) =>
      node_count s <= node_count s' /\
      (node_count s' <= Nat.max cap (node_count s) -> rb = ROk s' c' r)
  | None => True
  end.

Lemma fits_here : forall s c r, fits s (Some (s, c, r)) (ROk s c r).
Proof. intros. simpl. split; [lia | reflexivity]. Qed.

Lemma finish_fits : forall lvl code args s2 c2 t e,
  fits s2 (ufinish lvl code args s2 c2 t e) (finish C cadd cap lvl code args s2 c2 t e).
Proof.
  intros lvl code args s2 c2 t e. unfold finish, ufinish.
  destruct (mk_node s2 lvl [E t; E e]) as [s3 h] eqn:Em.
  destruct (mk_node_cap_fits cap s2 lvl _ s3 h Em) as [Hc Hf]. unfold fits.
  split; [exact Hc|]. intros Hfit. rewrite (Hf Hfit). reflexivity.
Qed.

Lemma join2_fits : forall p s r1 u1 run2 urun2 fin ufin,
  fits s u1 r1 ->
  (forall s1 c1, fits s1 (urun2 s1 c1) (run2 s1 c1)) ->
  (forall s2 c2 t e, fits s2 (ufin s2 c2 t e) (fin s2 c2 t e)) ->
  fits s (ujoin2 u1 urun2 ufin) (join2 p r1 run2 fin).
Proof.
  intros p s r1 u1 run2 urun2 fin ufin H1 H2 H3. unfold ujoin2.
  destruct u1 as [[[s1 c1] t]|]; [|exact I]. simpl in H1. destruct H1 as [Hc1 Hf1].
  specialize (H2 s1 c1). destruct (urun2 s1 c1) as [[[s2 c2] e]|]; [|exact I].
  simpl in H2. destruct H2 as [Hc2 Hf2].
  specialize (H3 s2 c2 t e). destruct (ufin s2 c2 t e) as [[[s3 c3] r]|]; [|exact I].
  simpl in H3. destruct H3 as [Hc3 Hf3]. simpl.
  split; [lia|]. intros Hfit.
  unfold join2. rewrite Hf1 by lia. rewrite Hf2 by lia. apply Hf3. lia.
Qed.

Theorem apply_not_fits : forall fuel s c f,
  fits s (apply_not C cget cadd fuel s c f) (apply_not_c C cget cadd cap par fuel s c f).
Proof.
  induction fuel as [|n IH]; intros s c f; [exact I|].
  rewrite apply_not_c_S, apply_not_U. destruct f as [t|id].
  - destruct (view s (RT t)) as [[|b]|]; try exact I.
    destruct (term_of s (negb b)); [apply fits_here | exact I].
  - destruct (find_node s id) as [nd|]; [|exact I].
    destruct (cget c code_not [RN id]); [apply fits_here|].
    destruct (nchildren nd) as [|ft [|fe [|x r]]]; try exact I.
    apply join2_fits; [apply IH | intros; apply IH | intros; apply finish_fits].
Qed.

Theorem apply_bin_fits : forall fuel s c op f g,
  fits s (apply_bin gt C cget cadd fuel s c op f g)
         (apply_bin_c gt C cget cadd cap par fuel s c op f g).
Proof.
  induction fuel as [|n IH]; intros s c op f g; [exact I|].
  rewrite apply_bin_c_S, apply_bin_U.
  destruct (terminal_bin gt s op f g) as [r|r|o a b|]; [apply fits_here | apply apply_not_fits | | exact I].
  destruct (cget c (op_code o) [a; b]); [apply fits_here|].
  destruct (inner s f) as [fnode|]; [|exact I]. destruct (inner s g) as [gnode|]; [|exact I].
  cbv zeta.
  destruct (cof2 f fnode _) as [[ft fe]|]; [|exact I]. destruct (cof2 g gnode _) as [[gt' ge]|]; [|exact I].
  apply join2_fits; [apply IH | intros; apply IH | intros; apply finish_fits].
Qed.

Theorem apply_ite_fits : forall fuel s c f g h,
  fits s (apply_ite gt C cget cadd fuel s c f g h)
         (apply_ite_c gt C cget cadd cap par fuel s c f g h).
Proof.
  induction fuel as [|n IH]; intros s c f g h; [exact I|].
  rewrite apply_ite_c_S, apply_ite_U.
  destruct (ref_eqb g h); [apply fits_here|].
  destruct (ref_eqb f g); [apply apply_bin_fits|].
  destruct (ref_eqb f h); [apply apply_bin_fits|].
  destruct (view s f) as [[|bf]|]; [| apply fits_here | exact I].
  destruct (view s g) as [[|[]]|]; destruct (view s h) as [[|[]]|];
    try exact I; try apply apply_bin_fits; try apply apply_not_fits; try apply fits_here.
  destruct (cget c code_ite [f; g; h]); [apply fits_here|].
  destruct (inner s f) as [fnode|]; [|exact I]. destruct (inner s g) as [gnode|]; [|exact I].
  destruct (inner s h) as [hnode|]; [|exact I]. cbv zeta.
  destruct (cof2 f fnode _) as [[ft fe]|]; [|exact I]. destruct (cof2 g gnode _) as [[gt' ge]|]; [|exact I].
  destruct (cof2 h hnode _) as [[ht he]|]; [|exact I].
  apply join2_fits; [apply IH | intros; apply IH | intros; apply finish_fits].
Qed.

End Cap.
End Bounded.
