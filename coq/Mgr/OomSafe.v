(** * Out-of-memory behaviour of the BDD apply algorithms (Mgr/Oom.v), part 2

    Under the invariant of the C02 theorems ([BddOK], [CacheOK], operands are
    valid references, standard fuel):

    - [apply_*_c_safe]: the bounded algorithms never get stuck (no [unwrap]
      panics, the fuel suffices), and whatever they return - result or
      out-of-memory - the table they leave is a well-formed extension of the
      table they started from, with a correct cache;
    - [intact]: what "extension" means for the user: same handle list, every
      old reference still valid with the same meaning under every fuel, no
      node that was added is reachable from a handle, the reachable part is
      unchanged ([extends_intact]);
    - [oom_safe_*], [oom_no_panic_*], [oom_never_wrong_*], [oom_exact_*],
      [oom_retry_*], [oom_monotone_*]: the C14 statements. *)

From Coq Require Import List NArith PArith Bool Arith Lia FMapPositive.
From OxiVerif Require Import DD.Table DD.TableProofs DD.Canon DD.Sem DD.Build DD.BuildProofs
  DD.Apply DD.ApplyProofs DD.ApplyEvalProofs Mgr.Oom Mgr.OomProofs.
Import ListNotations.

(** ** What an extension preserves *)

Lemma handle_refs_ext : forall s s', extends s s' -> handle_refs s' = handle_refs s.
Proof. intros s s' X. unfold handle_refs. rewrite (ext_handles _ _ X). reflexivity. Qed.

Lemma reach_old : forall s s', WF s -> extends s s' ->
  forall r, reachable s' (handle_refs s') r -> ref_ok s r /\ reachable s (handle_refs s) r.
Proof.
  intros s s' H X r R. induction R as [r Hin|id nd e R IH E He].
  - rewrite (handle_refs_ext s s' X) in Hin. split; [|apply reach_root; exact Hin].
    unfold handle_refs in Hin. apply in_map_iff in Hin. destruct Hin as [h [<- Hh]].
    apply (wf_handles s H h Hh).
  - destruct IH as [[nd0 E0] R0].
    pose proof (ext_nodes _ _ X id nd0 E0) as E0'. rewrite E in E0'. inversion E0'; subst nd0.
    split; [apply (wf_child s H id nd e E0 He) | apply (reach_child s _ id nd e R0 E0 He)].
Qed.

Lemma reach_new : forall s s', extends s s' ->
  forall r, reachable s (handle_refs s) r -> reachable s' (handle_refs s') r.
Proof.
  intros s s' X r R. induction R as [r Hin|id nd e R IH E He].
  - apply reach_root. rewrite (handle_refs_ext s s' X). exact Hin.
  - apply (reach_child s' _ id nd e IH (ext_nodes _ _ X id nd E) He).
Qed.

(** the state [s'] left by an operation that started in [s] (in particular by
    one that failed) is intact for every owner of a handle *)
Record intact (s s' : snap) : Prop := mkIntact {
  (* the handle list is unchanged *)
  in_handles : s_handles s' = s_handles s;
  (* same variables and order, same terminals *)
  in_order : s_v2l s' = s_v2l s /\ s_l2v s' = s_l2v s /\ s_terms s' = s_terms s;
  (* every stored node is still stored, unchanged *)
  in_nodes : forall id nd, find_node s id = Some nd -> find_node s' id = Some nd;
  (* every valid reference stays valid and means the same function *)
  in_sem : forall r, ref_ok s r -> ref_ok s' r /\ forall k c0, semk s' k r c0 = semk s k r c0;
  (* every handle has the same value under every assignment *)
  in_handle_sem : forall h, In h (s_handles s) -> forall c0, sem_edge s' (snd h) c0 = sem_edge s (snd h) c0;
  (* the nodes that were added are garbage: unreachable from every handle *)
  in_garbage : forall id, find_node s id = None -> ~ reachable s' (handle_refs s') (RN id);
  (* the live part of the diagram is exactly what it was *)
  in_live : forall r, reachable s' (handle_refs s') r <-> reachable s (handle_refs s) r
}.

Theorem extends_intact : forall s s', BddOK s -> extends s s' -> intact s s'.
Proof.
  intros s s' B X. pose proof (bo_wf s B) as H. constructor.
  - apply (ext_handles _ _ X).
  - split; [apply (ext_v2l _ _ X)|]. split; [apply (ext_l2v _ _ X) | apply (ext_terms _ _ X)].
  - apply (ext_nodes _ _ X).
  - intros r Hr. split; [apply (ext_ref_ok _ _ _ X Hr)|].
    intros k c0. apply (semk_extends s s' H X k r c0 Hr).
  - intros h Hh c0. unfold sem_edge. rewrite (ext_kind _ _ X), (bo_kind s B), (ext_nlevels _ _ X).
    apply (semk_extends s s' H X). apply (wf_handles s H h Hh).
  - intros id En R. destruct (reach_old s s' H X _ R) as [[nd E] _]. congruence.
  - intros r. split; [intros R; apply (reach_old s s' H X _ R) | apply (reach_new s s' X)].
Qed.

Section Safe.
Variable gt : ref -> ref -> bool.
Variable C : Type.
Variable cget : C -> N -> list ref -> option ref.
Variable cadd : C -> N -> list ref -> ref -> C.
Hypothesis Hlossy : lossy cget cadd.
Variable cap : nat.
Variable par : nat -> bool.

Definition res_safe (s : snap) (r : res C) : Prop :=
  match r with
  | ROk s' c' _ => BddOK s' /\ extends s s' /\ CacheOK cget s' c'
  | ROom s' c' => BddOK s' /\ extends s s' /\ CacheOK cget s' c'
  | RStuck => False
  end.

(** the part of [res_safe] that is proved by walking through the algorithm
    (the [ROk] case follows from the refinement and the C02 theorems) *)
Definition fail_safe (s : snap) (r : res C) : Prop :=
  match r with
  | ROk _ _ _ => True
  | ROom s' c' => BddOK s' /\ extends s s' /\ CacheOK cget s' c'
  | RStuck => False
  end.

Lemma res_fail_safe : forall s r, res_safe s r -> fail_safe s r.
Proof. intros s [s' c' r|s' c'|]; simpl; auto. Qed.

Lemma join2_safe : forall p s r1 run2 fin,
  res_safe s r1 ->
  (forall s1 c1, BddOK s1 -> extends s s1 -> CacheOK cget s1 c1 -> res_safe s1 (run2 s1 c1)) ->
  (forall s2 c2 t e, fin s2 c2 t e = ROom s2 c2 \/ exists s3 c3 r, fin s2 c2 t e = ROk s3 c3 r) ->
  fail_safe s (join2 p r1 run2 fin).
Proof.
  intros p s r1 run2 fin H1 H2 H3. unfold join2.
  destruct r1 as [s1 c1 t|s1 c1|]; simpl in H1; [| |contradiction].
  - destruct H1 as [B1 [X1 O1]]. specialize (H2 s1 c1 B1 X1 O1).
    destruct (run2 s1 c1) as [s2 c2 e|s2 c2|]; simpl in H2; [| |contradiction].
    + destruct H2 as [B2 [X2 O2]].
      destruct (H3 s2 c2 t e) as [->|[s3 [c3 [r ->]]]]; simpl; [|exact I].
      split; [exact B2|]. split; [eapply extends_trans; eauto | exact O2].
    + destruct H2 as [B2 [X2 O2]]. simpl.
      split; [exact B2|]. split; [eapply extends_trans; eauto | exact O2].
  - destruct H1 as [B1 [X1 O1]]. destruct p; [|simpl; auto].
    specialize (H2 s1 c1 B1 X1 O1).
    destruct (run2 s1 c1) as [s2 c2 e|s2 c2|]; simpl in *; [| |contradiction];
      destruct H2 as [B2 [X2 O2]];
      (split; [exact B2|]; split; [eapply extends_trans; eauto | exact O2]).
Qed.

Lemma finish_shape : forall lvl code args s2 c2 t e,
  finish C cadd cap lvl code args s2 c2 t e = ROom s2 c2 \/
  exists s3 c3 r, finish C cadd cap lvl code args s2 c2 t e = ROk s3 c3 r.
Proof.
  intros. unfold finish. destruct (mk_node_cap cap s2 lvl [E t; E e]) as [[s3 h]|]; [right; eauto | left; reflexivity].
Qed.

(** ** [apply_not_c] *)

Lemma not_ok_safe : forall fuel s c f s' c' r,
  BddOK s -> CacheOK cget s c -> ref_ok s f -> nlevels s - rlevel s f < fuel ->
  apply_not_c C cget cadd cap par fuel s c f = ROk s' c' r ->
  BddOK s' /\ extends s s' /\ CacheOK cget s' c'.
Proof.
  intros fuel s c f s' c' r B O Hf Hfuel E.
  pose proof (apply_not_refines C cget cadd cap par fuel s c f) as R. rewrite E in R.
  destruct R as [Eu _]. destruct (den_exists s f B Hf) as [phi D].
  destruct (apply_not_ok C cget cadd Hlossy fuel s c f phi B O D Hfuel)
    as [s1 [c1 [r1 [E1 [B1 [X1 [O1 _]]]]]]].
  rewrite Eu in E1. inversion E1; subst. auto.
Qed.

Theorem apply_not_c_safe : forall fuel s c f,
  BddOK s -> CacheOK cget s c -> ref_ok s f -> nlevels s - rlevel s f < fuel ->
  res_safe s (apply_not_c C cget cadd cap par fuel s c f).
Proof.
  induction fuel as [|n IH]; intros s c f B O Hf Hfuel; [lia|].
  assert (W : fail_safe s (apply_not_c C cget cadd cap par (S n) s c f)).
  { pose proof (bo_wf s B) as H. rewrite apply_not_c_S. destruct f as [t|id].
    - destruct (view_total s (RT t) B Hf) as [v V]. rewrite V.
      destruct v as [|b]; [destruct (view_VI s _ V) as [i Hi]; discriminate|].
      destruct (term_of_total s (negb b) B) as [t' Et]. rewrite Et. exact I.
    - destruct Hf as [nd E]. rewrite E.
      rewrite (rlevel_node s id nd E) in Hfuel. pose proof (wf_level s H id nd E) as Hlv.
      destruct (cget c code_not [RN id]); [exact I|].
      destruct (bdd_children s id nd B E) as [a [b Ech]]. rewrite Ech.
      assert (Ha : nth_error (nchildren nd) 0 = Some a) by (rewrite Ech; reflexivity).
      assert (Hb : nth_error (nchildren nd) 1 = Some b) by (rewrite Ech; reflexivity).
      destruct (child_nth s H id nd 0 a E Ha) as [Oa La].
      destruct (child_nth s H id nd 1 b E Hb) as [Ob Lb].
      apply join2_safe.
      + apply IH; auto. lia.
      + intros s1 c1 B1 X1 O1. apply IH; auto; [apply (ext_ref_ok _ _ _ X1 Ob)|].
        rewrite (ext_nlevels _ _ X1), (ext_rlevel _ _ _ X1 Ob). lia.
      + intros. apply finish_shape. }
  destruct (apply_not_c C cget cadd cap par (S n) s c f) as [s' c' r|s' c'|] eqn:E; simpl in W |- *.
  - apply (not_ok_safe (S n) s c f s' c' r B O Hf Hfuel E).
  - exact W.
  - exact W.
Qed.

(** ** [apply_bin_c] *)

Lemma bin_ok_safe : forall op fuel s c f g s' c' r,
  BddOK s -> CacheOK cget s c -> ref_ok s f -> ref_ok s g ->
  nlevels s - Nat.min (rlevel s f) (rlevel s g) < fuel ->
  apply_bin_c gt C cget cadd cap par fuel s c op f g = ROk s' c' r ->
  BddOK s' /\ extends s s' /\ CacheOK cget s' c'.
Proof.
  intros op fuel s c f g s' c' r B O Hf Hg Hfuel E.
  pose proof (apply_bin_refines gt C cget cadd cap par fuel s c op f g) as R. rewrite E in R.
  destruct R as [Eu _]. destruct (den_exists s f B Hf) as [phi Df]. destruct (den_exists s g B Hg) as [psi Dg].
  destruct (apply_bin_ok gt C cget cadd Hlossy op fuel s c f g phi psi B O Df Dg Hfuel)
    as [s1 [c1 [r1 [E1 [B1 [X1 [O1 _]]]]]]].
  rewrite Eu in E1. inversion E1; subst. auto.
Qed.

Theorem apply_bin_c_safe : forall op fuel s c f g,
  BddOK s -> CacheOK cget s c -> ref_ok s f -> ref_ok s g ->
  nlevels s - Nat.min (rlevel s f) (rlevel s g) < fuel ->
  res_safe s (apply_bin_c gt C cget cadd cap par fuel s c op f g).
Proof.
  intros op. induction fuel as [|n IH]; intros s c f g B O Hf Hg Hfuel; [lia|].
  assert (W : fail_safe s (apply_bin_c gt C cget cadd cap par (S n) s c op f g)).
  { pose proof (bo_wf s B) as H. rewrite apply_bin_c_S.
    destruct (den_exists s f B Hf) as [phi Df]. destruct (den_exists s g B Hg) as [psi Dg].
    pose proof (terminal_bin_sound gt s op f g phi psi B Df Dg) as T.
    destruct (terminal_bin gt s op f g) as [r|r|o a b|]; [exact I | | |contradiction].
    - destruct T as [Hr _]. apply res_fail_safe. apply apply_not_c_safe; auto.
      + destruct Hr as [->| ->]; assumption.
      + destruct Hr as [->| ->]; lia.
    - destruct T as [-> [[idf ->] [[idg ->] _]]].
      destruct (proj1 Df) as [fnd Ef]. destruct (proj1 Dg) as [gnd Eg].
      rewrite (rlevel_node s idf fnd Ef), (rlevel_node s idg gnd Eg) in Hfuel.
      pose proof (wf_level s H idf fnd Ef) as Hlf. pose proof (wf_level s H idg gnd Eg) as Hlg.
      destruct (cget c (op_code op) [a; b]); [exact I|].
      simpl inner. rewrite Ef, Eg.
      rewrite (wf_stored s H idf fnd Ef), (wf_stored s H idg gnd Eg).
      set (lvl := Nat.min (nlevel fnd) (nlevel gnd)) in *. cbv zeta.
      destruct (cof2_ok s idf fnd phi lvl B Df Ef ltac:(lia)) as [ft [fe [Ecf [Dft [Dfe [Lft Lfe]]]]]].
      destruct (cof2_ok s idg gnd psi lvl B Dg Eg ltac:(lia)) as [gt' [ge [Ecg [Dgt [Dge [Lgt Lge]]]]]].
      rewrite Ecf, Ecg.
      apply join2_safe.
      + apply IH; auto; [apply (proj1 Dft) | apply (proj1 Dgt) | lia].
      + intros s1 c1 B1 X1 O1.
        apply IH; auto; [apply (ext_ref_ok _ _ _ X1 (proj1 Dfe)) | apply (ext_ref_ok _ _ _ X1 (proj1 Dge))|].
        rewrite (ext_nlevels _ _ X1), (ext_rlevel _ _ _ X1 (proj1 Dfe)), (ext_rlevel _ _ _ X1 (proj1 Dge)). lia.
      + intros. apply finish_shape. }
  destruct (apply_bin_c gt C cget cadd cap par (S n) s c op f g) as [s' c' r|s' c'|] eqn:E; simpl in W |- *.
  - apply (bin_ok_safe op (S n) s c f g s' c' r B O Hf Hg Hfuel E).
  - exact W.
  - exact W.
Qed.

(** ** [apply_ite_c] *)

Lemma ite_ok_safe : forall fuel s c f g h s' c' r,
  BddOK s -> CacheOK cget s c -> ref_ok s f -> ref_ok s g -> ref_ok s h ->
  nlevels s - Nat.min (Nat.min (rlevel s f) (rlevel s g)) (rlevel s h) < fuel ->
  apply_ite_c gt C cget cadd cap par fuel s c f g h = ROk s' c' r ->
  BddOK s' /\ extends s s' /\ CacheOK cget s' c'.
Proof.
  intros fuel s c f g h s' c' r B O Hf Hg Hh Hfuel E.
  pose proof (apply_ite_refines gt C cget cadd cap par fuel s c f g h) as R. rewrite E in R.
  destruct R as [Eu _]. destruct (den_exists s f B Hf) as [phi Df]. destruct (den_exists s g B Hg) as [psi Dg].
  destruct (den_exists s h B Hh) as [theta Dh].
  destruct (apply_ite_ok gt C cget cadd Hlossy fuel s c f g h phi psi theta B O Df Dg Dh Hfuel)
    as [s1 [c1 [r1 [E1 [B1 [X1 [O1 _]]]]]]].
  rewrite Eu in E1. inversion E1; subst. auto.
Qed.

Theorem apply_ite_c_safe : forall fuel s c f g h,
  BddOK s -> CacheOK cget s c -> ref_ok s f -> ref_ok s g -> ref_ok s h ->
  nlevels s - Nat.min (Nat.min (rlevel s f) (rlevel s g)) (rlevel s h) < fuel ->
  res_safe s (apply_ite_c gt C cget cadd cap par fuel s c f g h).
Proof.
  induction fuel as [|n IH]; intros s c f g h B O Hf Hg Hh Hfuel; [lia|].
  assert (W : fail_safe s (apply_ite_c gt C cget cadd cap par (S n) s c f g h)).
  { pose proof (bo_wf s B) as H. rewrite apply_ite_c_S.
    assert (Bin : forall o x y, ref_ok s x -> ref_ok s y ->
              nlevels s - Nat.min (rlevel s x) (rlevel s y) < S n ->
              fail_safe s (apply_bin_c gt C cget cadd cap par (S n) s c o x y))
      by (intros; apply res_fail_safe; apply apply_bin_c_safe; auto).
    destruct (ref_eqb g h); [exact I|].
    destruct (ref_eqb f g); [apply Bin; auto; lia|].
    destruct (ref_eqb f h); [apply Bin; auto; lia|].
    destruct (view_total s f B Hf) as [vf Vf].
    destruct (view_total s g B Hg) as [vg Vg].
    destruct (view_total s h B Hh) as [vh Vh].
    rewrite Vf. destruct vf as [|bf]; [|exact I].
    rewrite Vg, Vh. destruct vg as [|[]], vh as [|[]]; try exact I; try (apply Bin; auto; lia).
    - (* all three inner *)
      destruct (view_VI s f Vf) as [idf ->]. destruct (view_VI s g Vg) as [idg ->].
      destruct (view_VI s h Vh) as [idh ->].
      destruct (den_exists s _ B Hf) as [phi Df]. destruct (den_exists s _ B Hg) as [psi Dg].
      destruct (den_exists s _ B Hh) as [theta Dh].
      destruct Hf as [fnd Ef]. destruct Hg as [gnd Eg]. destruct Hh as [hnd Eh].
      rewrite (rlevel_node s idf fnd Ef), (rlevel_node s idg gnd Eg), (rlevel_node s idh hnd Eh) in Hfuel.
      pose proof (wf_level s H idf fnd Ef) as Hlf. pose proof (wf_level s H idg gnd Eg) as Hlg.
      pose proof (wf_level s H idh hnd Eh) as Hlh.
      destruct (cget c code_ite [RN idf; RN idg; RN idh]); [exact I|].
      simpl inner. rewrite Ef, Eg, Eh.
      rewrite (wf_stored s H idf fnd Ef), (wf_stored s H idg gnd Eg), (wf_stored s H idh hnd Eh).
      set (lvl := Nat.min (Nat.min (nlevel fnd) (nlevel gnd)) (nlevel hnd)) in *. cbv zeta.
      destruct (cof2_ok s idf fnd phi lvl B Df Ef ltac:(lia)) as [ft [fe [Ecf [Dft [Dfe [Lft Lfe]]]]]].
      destruct (cof2_ok s idg gnd psi lvl B Dg Eg ltac:(lia)) as [gt' [ge [Ecg [Dgt [Dge [Lgt Lge]]]]]].
      destruct (cof2_ok s idh hnd theta lvl B Dh Eh ltac:(lia)) as [ht [he [Ech [Dht [Dhe [Lht Lhe]]]]]].
      rewrite Ecf, Ecg, Ech.
      apply join2_safe.
      + apply IH; auto; [apply (proj1 Dft) | apply (proj1 Dgt) | apply (proj1 Dht) | lia].
      + intros s1 c1 B1 X1 O1.
        apply IH; auto; [apply (ext_ref_ok _ _ _ X1 (proj1 Dfe)) | apply (ext_ref_ok _ _ _ X1 (proj1 Dge))
                        | apply (ext_ref_ok _ _ _ X1 (proj1 Dhe))|].
        rewrite (ext_nlevels _ _ X1), (ext_rlevel _ _ _ X1 (proj1 Dfe)),
                (ext_rlevel _ _ _ X1 (proj1 Dge)), (ext_rlevel _ _ _ X1 (proj1 Dhe)). lia.
      + intros. apply finish_shape.
    - (* g = false, h = true: not f *)
      apply res_fail_safe. apply apply_not_c_safe; auto. lia.
    - (* g = false, h = false (excluded by g <> h in a well-formed table; the code calls not f) *)
      apply res_fail_safe. apply apply_not_c_safe; auto. lia. }
  destruct (apply_ite_c gt C cget cadd cap par (S n) s c f g h) as [s' c' r|s' c'|] eqn:E; simpl in W |- *.
  - apply (ite_ok_safe (S n) s c f g h s' c' r B O Hf Hg Hh Hfuel E).
  - exact W.
  - exact W.
Qed.

End Safe.

Arguments res_safe {C}.

(** ** The C14 statements *)

Section Top.
Variable gt : ref -> ref -> bool.
Variable C : Type.
Variable cget : C -> N -> list ref -> option ref.
Variable cadd : C -> N -> list ref -> ref -> C.
Hypothesis Hlossy : lossy cget cadd.

(** *** the state after a failure *)

Definition failed_ok (cap : nat) (s : snap) (s' : snap) (c' : C) : Prop :=
  BddOK s' /\ CacheOK cget s' c' /\ extends s s' /\ intact s s' /\
  node_count s <= node_count s' /\ cap <= node_count s'.

Lemma failed_ok_intro : forall cap s s' c' ru, BddOK s ->
  res_safe cget s (ROom s' c') -> refines C cap s (ROom s' c') ru -> failed_ok cap s s' c'.
Proof.
  intros cap s s' c' ru B [B' [X O']] [Hc Hcap].
  split; [exact B'|]. split; [exact O'|]. split; [exact X|].
  split; [apply (extends_intact s s' B X) | auto].
Qed.

Theorem oom_safe_not : forall cap par fuel s c f s' c',
  BddOK s -> CacheOK cget s c -> ref_ok s f -> FUEL s <= fuel ->
  apply_not_c C cget cadd cap par fuel s c f = ROom s' c' ->
  failed_ok cap s s' c'.
Proof.
  intros cap par fuel s c f s' c' B O Hf Hfuel E. unfold FUEL in Hfuel.
  pose proof (apply_not_c_safe C cget cadd Hlossy cap par fuel s c f B O Hf ltac:(lia)) as S.
  pose proof (apply_not_refines C cget cadd cap par fuel s c f) as R.
  rewrite E in S, R. eapply failed_ok_intro; eauto.
Qed.

Theorem oom_safe_bin : forall cap par op fuel s c f g s' c',
  BddOK s -> CacheOK cget s c -> ref_ok s f -> ref_ok s g -> FUEL s <= fuel ->
  apply_bin_c gt C cget cadd cap par fuel s c op f g = ROom s' c' ->
  failed_ok cap s s' c'.
Proof.
  intros cap par op fuel s c f g s' c' B O Hf Hg Hfuel E. unfold FUEL in Hfuel.
  pose proof (apply_bin_c_safe gt C cget cadd Hlossy cap par op fuel s c f g B O Hf Hg ltac:(lia)) as S.
  pose proof (apply_bin_refines gt C cget cadd cap par fuel s c op f g) as R.
  rewrite E in S, R. eapply failed_ok_intro; eauto.
Qed.

Theorem oom_safe_ite : forall cap par fuel s c f g h s' c',
  BddOK s -> CacheOK cget s c -> ref_ok s f -> ref_ok s g -> ref_ok s h -> FUEL s <= fuel ->
  apply_ite_c gt C cget cadd cap par fuel s c f g h = ROom s' c' ->
  failed_ok cap s s' c'.
Proof.
  intros cap par fuel s c f g h s' c' B O Hf Hg Hh Hfuel E. unfold FUEL in Hfuel.
  pose proof (apply_ite_c_safe gt C cget cadd Hlossy cap par fuel s c f g h B O Hf Hg Hh ltac:(lia)) as S.
  pose proof (apply_ite_refines gt C cget cadd cap par fuel s c f g h) as R.
  rewrite E in S, R. eapply failed_ok_intro; eauto.
Qed.

(** *** no panic, no divergence: the only outcomes are a result or out-of-memory *)

Theorem oom_no_panic_not : forall cap par fuel s c f,
  BddOK s -> CacheOK cget s c -> ref_ok s f -> FUEL s <= fuel ->
  apply_not_c C cget cadd cap par fuel s c f <> RStuck.
Proof.
  intros cap par fuel s c f B O Hf Hfuel E. unfold FUEL in Hfuel.
  pose proof (apply_not_c_safe C cget cadd Hlossy cap par fuel s c f B O Hf ltac:(lia)) as S.
  rewrite E in S. exact S.
Qed.

Theorem oom_no_panic_bin : forall cap par op fuel s c f g,
  BddOK s -> CacheOK cget s c -> ref_ok s f -> ref_ok s g -> FUEL s <= fuel ->
  apply_bin_c gt C cget cadd cap par fuel s c op f g <> RStuck.
Proof.
  intros cap par op fuel s c f g B O Hf Hg Hfuel E. unfold FUEL in Hfuel.
  pose proof (apply_bin_c_safe gt C cget cadd Hlossy cap par op fuel s c f g B O Hf Hg ltac:(lia)) as S.
  rewrite E in S. exact S.
Qed.

Theorem oom_no_panic_ite : forall cap par fuel s c f g h,
  BddOK s -> CacheOK cget s c -> ref_ok s f -> ref_ok s g -> ref_ok s h -> FUEL s <= fuel ->
  apply_ite_c gt C cget cadd cap par fuel s c f g h <> RStuck.
Proof.
  intros cap par fuel s c f g h B O Hf Hg Hh Hfuel E. unfold FUEL in Hfuel.
  pose proof (apply_ite_c_safe gt C cget cadd Hlossy cap par fuel s c f g h B O Hf Hg Hh ltac:(lia)) as S.
  rewrite E in S. exact S.
Qed.

(** *** a result is never wrong: it is literally the result of the unbounded run *)

Theorem oom_never_wrong_not : forall cap par fuel s c f s' c' r,
  apply_not_c C cget cadd cap par fuel s c f = ROk s' c' r ->
  apply_not C cget cadd fuel s c f = Some (s', c', r).
Proof.
  intros cap par fuel s c f s' c' r E.
  pose proof (apply_not_refines C cget cadd cap par fuel s c f) as R. rewrite E in R. apply R.
Qed.

Theorem oom_never_wrong_bin : forall cap par op fuel s c f g s' c' r,
  apply_bin_c gt C cget cadd cap par fuel s c op f g = ROk s' c' r ->
  apply_bin gt C cget cadd fuel s c op f g = Some (s', c', r).
Proof.
  intros cap par op fuel s c f g s' c' r E.
  pose proof (apply_bin_refines gt C cget cadd cap par fuel s c op f g) as R. rewrite E in R. apply R.
Qed.

Theorem oom_never_wrong_ite : forall cap par fuel s c f g h s' c' r,
  apply_ite_c gt C cget cadd cap par fuel s c f g h = ROk s' c' r ->
  apply_ite gt C cget cadd fuel s c f g h = Some (s', c', r).
Proof.
  intros cap par fuel s c f g h s' c' r E.
  pose proof (apply_ite_refines gt C cget cadd cap par fuel s c f g h) as R. rewrite E in R. apply R.
Qed.

(** ... hence the pointwise connective of the operands (C02), in a table in
    which everything that existed before is intact *)

Theorem oom_never_wrong_not_sem : forall cap par fuel s c f s' c' r,
  BddOK s -> CacheOK cget s c -> ref_ok s f -> FUEL s <= fuel ->
  apply_not_c C cget cadd cap par fuel s c f = ROk s' c' r ->
  BddOK s' /\ CacheOK cget s' c' /\ intact s s' /\ ref_ok s' r /\
  forall c0, bchoice c0 -> exists x, bvalue s f c0 x /\ bvalue s' r c0 (negb x).
Proof.
  intros cap par fuel s c f s' c' r B O Hf Hfuel E.
  apply oom_never_wrong_not in E.
  destruct (apply_not_sound C cget cadd Hlossy fuel s c f B O Hf Hfuel)
    as [s1 [c1 [r1 [E1 [B1 [X1 [O1 [R1 V1]]]]]]]].
  rewrite E in E1. inversion E1; subst s1 c1 r1.
  split; [exact B1|]. split; [exact O1|]. split; [apply (extends_intact s s' B X1)|]. auto.
Qed.

Theorem oom_never_wrong_bin_sem : forall cap par op fuel s c f g s' c' r,
  BddOK s -> CacheOK cget s c -> ref_ok s f -> ref_ok s g -> FUEL s <= fuel ->
  apply_bin_c gt C cget cadd cap par fuel s c op f g = ROk s' c' r ->
  BddOK s' /\ CacheOK cget s' c' /\ intact s s' /\ ref_ok s' r /\
  forall c0, bchoice c0 -> exists x y,
    bvalue s f c0 x /\ bvalue s g c0 y /\ bvalue s' r c0 (eval_bop op x y).
Proof.
  intros cap par op fuel s c f g s' c' r B O Hf Hg Hfuel E.
  apply oom_never_wrong_bin in E.
  destruct (apply_bin_sound gt C cget cadd Hlossy op fuel s c f g B O Hf Hg Hfuel)
    as [s1 [c1 [r1 [E1 [B1 [X1 [O1 [R1 V1]]]]]]]].
  rewrite E in E1. inversion E1; subst s1 c1 r1.
  split; [exact B1|]. split; [exact O1|]. split; [apply (extends_intact s s' B X1)|]. auto.
Qed.

Theorem oom_never_wrong_ite_sem : forall cap par fuel s c f g h s' c' r,
  BddOK s -> CacheOK cget s c -> ref_ok s f -> ref_ok s g -> ref_ok s h -> FUEL s <= fuel ->
  apply_ite_c gt C cget cadd cap par fuel s c f g h = ROk s' c' r ->
  BddOK s' /\ CacheOK cget s' c' /\ intact s s' /\ ref_ok s' r /\
  forall c0, bchoice c0 -> exists x y z,
    bvalue s f c0 x /\ bvalue s g c0 y /\ bvalue s h c0 z /\ bvalue s' r c0 (if x then y else z).
Proof.
  intros cap par fuel s c f g h s' c' r B O Hf Hg Hh Hfuel E.
  apply oom_never_wrong_ite in E.
  destruct (apply_ite_sound gt C cget cadd Hlossy fuel s c f g h B O Hf Hg Hh Hfuel)
    as [s1 [c1 [r1 [E1 [B1 [X1 [O1 [R1 V1]]]]]]]].
  rewrite E in E1. inversion E1; subst s1 c1 r1.
  split; [exact B1|]. split; [exact O1|]. split; [apply (extends_intact s s' B X1)|]. auto.
Qed.

(** *** retry: when the table the unbounded run produces fits, the bounded run
    succeeds with exactly that result (in any table, e.g. the one left by
    dropping handles and collecting after a failure) *)

Theorem oom_retry_not : forall cap par fuel s c f su cu ru,
  apply_not C cget cadd fuel s c f = Some (su, cu, ru) -> node_count su <= cap ->
  apply_not_c C cget cadd cap par fuel s c f = ROk su cu ru.
Proof.
  intros cap par fuel s c f su cu ru E Hfit.
  pose proof (apply_not_fits C cget cadd cap par fuel s c f) as F. rewrite E in F. apply F. lia.
Qed.

Theorem oom_retry_bin : forall cap par op fuel s c f g su cu ru,
  apply_bin gt C cget cadd fuel s c op f g = Some (su, cu, ru) -> node_count su <= cap ->
  apply_bin_c gt C cget cadd cap par fuel s c op f g = ROk su cu ru.
Proof.
  intros cap par op fuel s c f g su cu ru E Hfit.
  pose proof (apply_bin_fits gt C cget cadd cap par fuel s c op f g) as F. rewrite E in F. apply F. lia.
Qed.

Theorem oom_retry_ite : forall cap par fuel s c f g h su cu ru,
  apply_ite gt C cget cadd fuel s c f g h = Some (su, cu, ru) -> node_count su <= cap ->
  apply_ite_c gt C cget cadd cap par fuel s c f g h = ROk su cu ru.
Proof.
  intros cap par fuel s c f g h su cu ru E Hfit.
  pose proof (apply_ite_fits gt C cget cadd cap par fuel s c f g h) as F. rewrite E in F. apply F. lia.
Qed.

(** *** monotone in the capacity, independent of the recursor *)

Theorem oom_monotone_not : forall cap cap' par par' fuel s c f s' c' r, cap <= cap' ->
  apply_not_c C cget cadd cap par fuel s c f = ROk s' c' r ->
  apply_not_c C cget cadd cap' par' fuel s c f = ROk s' c' r.
Proof.
  intros cap cap' par par' fuel s c f s' c' r Hle E.
  pose proof (apply_not_refines C cget cadd cap par fuel s c f) as R. rewrite E in R.
  destruct R as [Eu Hc].
  pose proof (apply_not_fits C cget cadd cap' par' fuel s c f) as F. rewrite Eu in F. apply F. lia.
Qed.

Theorem oom_monotone_bin : forall cap cap' par par' op fuel s c f g s' c' r, cap <= cap' ->
  apply_bin_c gt C cget cadd cap par fuel s c op f g = ROk s' c' r ->
  apply_bin_c gt C cget cadd cap' par' fuel s c op f g = ROk s' c' r.
Proof.
  intros cap cap' par par' op fuel s c f g s' c' r Hle E.
  pose proof (apply_bin_refines gt C cget cadd cap par fuel s c op f g) as R. rewrite E in R.
  destruct R as [Eu Hc].
  pose proof (apply_bin_fits gt C cget cadd cap' par' fuel s c op f g) as F. rewrite Eu in F. apply F. lia.
Qed.

Theorem oom_monotone_ite : forall cap cap' par par' fuel s c f g h s' c' r, cap <= cap' ->
  apply_ite_c gt C cget cadd cap par fuel s c f g h = ROk s' c' r ->
  apply_ite_c gt C cget cadd cap' par' fuel s c f g h = ROk s' c' r.
Proof.
  intros cap cap' par par' fuel s c f g h s' c' r Hle E.
  pose proof (apply_ite_refines gt C cget cadd cap par fuel s c f g h) as R. rewrite E in R.
  destruct R as [Eu Hc].
  pose proof (apply_ite_fits gt C cget cadd cap' par' fuel s c f g h) as F. rewrite Eu in F. apply F. lia.
Qed.

(** *** exactness: the operation fails if and only if it needs more nodes
    than the capacity allows; otherwise it returns the correct result *)

(** the outcome of a bounded run, given the table [su] the unbounded run produces *)
Definition exact_outcome (cap : nat) (s : snap) (rb : res C) (su : snap) (cu : C) (ru : ref) : Prop :=
  (node_count su <= Nat.max cap (node_count s) -> rb = ROk su cu ru) /\
  (Nat.max cap (node_count s) < node_count su -> exists s' c', rb = ROom s' c' /\ failed_ok cap s s' c').

Lemma exact_intro : forall cap s rb su cu ru, BddOK s ->
  res_safe cget s rb -> refines C cap s rb (Some (su, cu, ru)) -> fits C cap s (Some (su, cu, ru)) rb ->
  exact_outcome cap s rb su cu ru.
Proof.
  intros cap s rb su cu ru B S R F. split; [apply F|].
  intros Hbig. destruct rb as [s' c' r|s' c'|]; [| |contradiction].
  - exfalso. destruct R as [Eu Hc]. inversion Eu; subst. lia.
  - exists s', c'. split; [reflexivity|]. eapply failed_ok_intro; eauto.
Qed.

Theorem oom_exact_not : forall cap par fuel s c f,
  BddOK s -> CacheOK cget s c -> ref_ok s f -> FUEL s <= fuel ->
  exists su cu ru, apply_not C cget cadd fuel s c f = Some (su, cu, ru) /\
    (forall c0, bchoice c0 -> exists x, bvalue s f c0 x /\ bvalue su ru c0 (negb x)) /\
    exact_outcome cap s (apply_not_c C cget cadd cap par fuel s c f) su cu ru.
Proof.
  intros cap par fuel s c f B O Hf Hfuel.
  destruct (apply_not_sound C cget cadd Hlossy fuel s c f B O Hf Hfuel)
    as [su [cu [ru [Eu [_ [_ [_ [_ V]]]]]]]].
  exists su, cu, ru. split; [exact Eu|]. split; [exact V|]. unfold FUEL in Hfuel.
  apply exact_intro; [exact B | apply (apply_not_c_safe C cget cadd Hlossy); auto; lia | |].
  - rewrite <- Eu. apply apply_not_refines.
  - rewrite <- Eu. apply apply_not_fits.
Qed.

Theorem oom_exact_bin : forall cap par op fuel s c f g,
  BddOK s -> CacheOK cget s c -> ref_ok s f -> ref_ok s g -> FUEL s <= fuel ->
  exists su cu ru, apply_bin gt C cget cadd fuel s c op f g = Some (su, cu, ru) /\
    (forall c0, bchoice c0 -> exists x y,
       bvalue s f c0 x /\ bvalue s g c0 y /\ bvalue su ru c0 (eval_bop op x y)) /\
    exact_outcome cap s (apply_bin_c gt C cget cadd cap par fuel s c op f g) su cu ru.
Proof.
  intros cap par op fuel s c f g B O Hf Hg Hfuel.
  destruct (apply_bin_sound gt C cget cadd Hlossy op fuel s c f g B O Hf Hg Hfuel)
    as [su [cu [ru [Eu [_ [_ [_ [_ V]]]]]]]].
  exists su, cu, ru. split; [exact Eu|]. split; [exact V|]. unfold FUEL in Hfuel.
  apply exact_intro; [exact B | apply (apply_bin_c_safe gt C cget cadd Hlossy); auto; lia | |].
  - rewrite <- Eu. apply apply_bin_refines.
  - rewrite <- Eu. apply apply_bin_fits.
Qed.

Theorem oom_exact_ite : forall cap par fuel s c f g h,
  BddOK s -> CacheOK cget s c -> ref_ok s f -> ref_ok s g -> ref_ok s h -> FUEL s <= fuel ->
  exists su cu ru, apply_ite gt C cget cadd fuel s c f g h = Some (su, cu, ru) /\
    (forall c0, bchoice c0 -> exists x y z,
       bvalue s f c0 x /\ bvalue s g c0 y /\ bvalue s h c0 z /\ bvalue su ru c0 (if x then y else z)) /\
    exact_outcome cap s (apply_ite_c gt C cget cadd cap par fuel s c f g h) su cu ru.
Proof.
  intros cap par fuel s c f g h B O Hf Hg Hh Hfuel.
  destruct (apply_ite_sound gt C cget cadd Hlossy fuel s c f g h B O Hf Hg Hh Hfuel)
    as [su [cu [ru [Eu [_ [_ [_ [_ V]]]]]]]].
  exists su, cu, ru. split; [exact Eu|]. split; [exact V|]. unfold FUEL in Hfuel.
  apply exact_intro; [exact B | apply (apply_ite_c_safe gt C cget cadd Hlossy); auto; lia | |].
  - rewrite <- Eu. apply apply_ite_refines.
  - rewrite <- Eu. apply apply_ite_fits.
Qed.

(** *** whether an operation fails does not depend on the recursor (nor, for
    the code, on the interleaving of the parallel branches): it is decided by
    whether the table of the unbounded run fits *)

Lemma exact_code : forall cap s rb rb' su cu ru,
  exact_outcome cap s rb su cu ru -> exact_outcome cap s rb' su cu ru -> res_code rb = res_code rb'.
Proof.
  intros cap s rb rb' su cu ru [A1 B1] [A2 B2].
  destruct (le_lt_dec (node_count su) (Nat.max cap (node_count s))) as [Hfit|Hbig].
  - rewrite (A1 Hfit), (A2 Hfit). reflexivity.
  - destruct (B1 Hbig) as [s1 [c1 [-> _]]]. destruct (B2 Hbig) as [s2 [c2 [-> _]]]. reflexivity.
Qed.

Theorem oom_outcome_recursor_indep_not : forall cap par par' fuel s c f,
  BddOK s -> CacheOK cget s c -> ref_ok s f -> FUEL s <= fuel ->
  res_code (apply_not_c C cget cadd cap par fuel s c f) =
  res_code (apply_not_c C cget cadd cap par' fuel s c f).
Proof.
  intros cap par par' fuel s c f B O Hf Hfuel.
  destruct (oom_exact_not cap par fuel s c f B O Hf Hfuel) as [su [cu [ru [E [_ X]]]]].
  destruct (oom_exact_not cap par' fuel s c f B O Hf Hfuel) as [su' [cu' [ru' [E' [_ X']]]]].
  rewrite E in E'. inversion E'; subst. eapply exact_code; eauto.
Qed.

Theorem oom_outcome_recursor_indep_bin : forall cap par par' op fuel s c f g,
  BddOK s -> CacheOK cget s c -> ref_ok s f -> ref_ok s g -> FUEL s <= fuel ->
  res_code (apply_bin_c gt C cget cadd cap par fuel s c op f g) =
  res_code (apply_bin_c gt C cget cadd cap par' fuel s c op f g).
Proof.
  intros cap par par' op fuel s c f g B O Hf Hg Hfuel.
  destruct (oom_exact_bin cap par op fuel s c f g B O Hf Hg Hfuel) as [su [cu [ru [E [_ X]]]]].
  destruct (oom_exact_bin cap par' op fuel s c f g B O Hf Hg Hfuel) as [su' [cu' [ru' [E' [_ X']]]]].
  rewrite E in E'. inversion E'; subst. eapply exact_code; eauto.
Qed.

Theorem oom_outcome_recursor_indep_ite : forall cap par par' fuel s c f g h,
  BddOK s -> CacheOK cget s c -> ref_ok s f -> ref_ok s g -> ref_ok s h -> FUEL s <= fuel ->
  res_code (apply_ite_c gt C cget cadd cap par fuel s c f g h) =
  res_code (apply_ite_c gt C cget cadd cap par' fuel s c f g h).
Proof.
  intros cap par par' fuel s c f g h B O Hf Hg Hh Hfuel.
  destruct (oom_exact_ite cap par fuel s c f g h B O Hf Hg Hh Hfuel) as [su [cu [ru [E [_ X]]]]].
  destruct (oom_exact_ite cap par' fuel s c f g h B O Hf Hg Hh Hfuel) as [su' [cu' [ru' [E' [_ X']]]]].
  rewrite E in E'. inversion E'; subst. eapply exact_code; eauto.
Qed.

End Top.

(** ** Variable creation ([var_edge] / [not_var_edge]): one insertion, no
    recursion.  On failure no table is returned at all: the manager is
    untouched. *)

Theorem oom_var_exact : forall cap s v neg, BddOK s -> v < nlevels s ->
  exists s' r, mk_var s v neg = Some (s', r) /\ BddOK s' /\ extends s s' /\ ref_ok s' r /\
    (forall a, ApplyEvalProofs.bfun_of s' r a = xorb neg (var_s v a)) /\
    (node_count s' <= Nat.max cap (node_count s) -> mk_var_cap cap s v neg = Some (Some (s', r))) /\
    (Nat.max cap (node_count s) < node_count s' ->
       mk_var_cap cap s v neg = Some None /\ cap <= node_count s).
Proof.
  intros cap s v neg B Hv.
  destruct (ApplyEvalProofs.mk_var_bfun s v neg B Hv) as [s' [r [Ev [B' [X [R V]]]]]].
  exists s', r. split; [exact Ev|]. split; [exact B'|]. split; [exact X|]. split; [exact R|].
  split; [exact V|].
  unfold mk_var in Ev. unfold mk_var_cap.
  destruct (nth_error (s_v2l s) v) as [lvl|]; [|discriminate].
  destruct (term_of s true) as [t1|]; [|discriminate].
  destruct (term_of s false) as [t0|]; [|discriminate].
  set (ch := if neg then [E (RT t0); E (RT t1)] else [E (RT t1); E (RT t0)]) in *.
  destruct (get_or_insert s lvl ch) as [s1 e] eqn:Eg. inversion Ev; subst s1 r.
  destruct (get_or_insert_cap_fits cap s lvl ch s' e Eg) as [Hc Hf]. split.
  - intros Hfit. rewrite (Hf Hfit). reflexivity.
  - intros Hbig. destruct (get_or_insert_cap cap s lvl ch) as [[s2 e2]|] eqn:Ec.
    + exfalso. destruct (get_or_insert_cap_some cap s lvl ch _ Ec) as [Hx Hb].
      rewrite Eg in Hx. inversion Hx; subst. simpl in Hb. lia.
    + split; [reflexivity|]. apply (get_or_insert_cap_none cap s lvl ch Ec).
Qed.

Theorem oom_var_never_wrong : forall cap s v neg s' r,
  mk_var_cap cap s v neg = Some (Some (s', r)) -> mk_var s v neg = Some (s', r).
Proof.
  intros cap s v neg s' r. unfold mk_var_cap, mk_var.
  destruct (nth_error (s_v2l s) v) as [lvl|]; [|discriminate].
  destruct (term_of s true) as [t1|]; [|discriminate].
  destruct (term_of s false) as [t0|]; [|discriminate].
  set (ch := if neg then [E (RT t0); E (RT t1)] else [E (RT t1); E (RT t0)]).
  destruct (get_or_insert_cap cap s lvl ch) as [[s2 e2]|] eqn:Ec; [|discriminate].
  intros Heq. inversion Heq; subst.
  destruct (get_or_insert_cap_some cap s lvl ch _ Ec) as [-> _]. reflexivity.
Qed.

(** what [intact] says, spelled out *)
Theorem intact_elim : forall s s', intact s s' ->
  s_handles s' = s_handles s /\
  s_v2l s' = s_v2l s /\ s_l2v s' = s_l2v s /\ s_terms s' = s_terms s /\
  (forall id nd, find_node s id = Some nd -> find_node s' id = Some nd) /\
  (forall r, ref_ok s r -> ref_ok s' r /\ forall k c0, semk s' k r c0 = semk s k r c0) /\
  (forall h, In h (s_handles s) -> forall c0, sem_edge s' (snd h) c0 = sem_edge s (snd h) c0) /\
  (forall id, find_node s id = None -> ~ reachable s' (handle_refs s') (RN id)) /\
  (forall r, reachable s' (handle_refs s') r <-> reachable s (handle_refs s) r).
Proof.
  intros s s' [A [B1 [B2 B3]] C0 D E0 F G]. repeat (split; [assumption|]). assumption.
Qed.
