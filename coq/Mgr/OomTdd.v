(** * The TDD apply algorithms on a node store of bounded capacity (C14, package C14z)

    Executable definitions only (proofs: Mgr/OomTddProofs.v, OomTddSafe.v,
    OomTddThms.v).  The algorithms of DD/ApplyTdd.v ([td_apply_not],
    [td_apply_bin], [td_apply_ite], [td_var]) once more, now in the error monad of
    the code ([AllocResult<Edge>]) with the combinators of Mgr/OomGen.v.  Mirrors
    oxidd-rules-tdd/src/apply_rec.rs ([apply_not], [apply_bin::<OP>],
    [apply_ite_rec], [var_edge]) and oxidd-rules-tdd/src/lib.rs ([reduce],
    [terminal_bin]):

    - the TDD rule set has NO recursor: every expansion is the sequential code
        [let t = EdgeDropGuard::new(m, rec(f0, ..)?);
         let u = EdgeDropGuard::new(m, rec(f1, ..)?);
         let e = EdgeDropGuard::new(m, rec(f2, ..)?);
         let h = reduce(m, level, t, u, e, op)?;  cache.add(..);  Ok(h)]
      = three nested [gbind]s (a failing call returns at its [?]: the later calls
      are not started, the guards drop the edges of the earlier ones, the nodes
      they created stay stored as garbage, the cache keeps what they added)
      followed by [gfin] ([td_seq3_c]);
    - [reduce] = [mk_node_cap] of Mgr/Oom.v on the three children (all three
      equal: no allocation, cannot fail; otherwise
      [LevelViewSet::get_or_insert]: a unique-table hit never fails, a NEW node
      fails iff [cap] nodes are stored);
    - the three terminals are static ([get_terminal(..).unwrap()] never
      allocates): ONE budget, the inner-node store;
    - [apply_bin] calls [apply_not] for an [Operation::Not] of [terminal_bin];
      [apply_ite_rec] calls [apply_bin::<Or/And/Imp/ImpStrict>] and [apply_not]
      in its short-cuts ([return apply_..(..)]: the callee's result, failure
      included, is the result).

    [GStuck] = fuel exhausted or one of the code's [unwrap]s would panic (what
    [None] is in DD/ApplyTdd.v; excluded by the theorems).  Reference counts are
    not part of the model (as in Mgr/Oom.v). *)

From Coq Require Import List NArith PArith Bool Arith FMapPositive.
From OxiVerif Require Import DD.Table DD.Build DD.Apply DD.Tdd DD.ApplyTdd Mgr.Oom.
From OxiVerif Require Import Mgr.OomGen.
Import ListNotations.

Section Bounded.
(** the (unobservable) edge order and the apply cache, as in DD/ApplyTdd.v *)
Variable gt : ref -> ref -> bool.
Variable C : Type.
Variable cget : C -> N -> list ref -> option ref.
Variable cadd : C -> N -> list ref -> ref -> C.
(** capacity of the inner-node store *)
Variable cap : nat.

Definition tres_c : Type := gres C ref.

(** [let h = reduce(manager, level, t, u, e, op)?; apply_cache().add(op, args, h); Ok(h)] *)
Definition td_fin_c (lvl : nat) (code : N) (args : list ref)
    (s3 : snap) (c3 : C) (t u e : ref) : tres_c :=
  gfin s3 c3 (mk_node_cap cap s3 lvl [E t; E u; E e])
       (fun h => cadd c3 code args (eref h)) (fun h => eref h).

(** the expansion shared by the three algorithms: three recursive calls, each
    followed by [?], then [reduce(..)?] and the cache insertion *)
Definition td_seq3_c (rec0 rec1 rec2 : snap -> C -> tres_c)
    (lvl : nat) (code : N) (args : list ref) (s : snap) (c : C) : tres_c :=
  gbind (rec0 s c) (fun s1 c1 t =>
  gbind (rec1 s1 c1) (fun s2 c2 u =>
  gbind (rec2 s2 c2) (fun s3 c3 e =>
  td_fin_c lvl code args s3 c3 t u e))).

(** [apply_not] *)
Fixpoint td_apply_not_c (fuel : nat) (s : snap) (c : C) (f : ref) : tres_c :=
  match fuel with
  | O => GStuck
  | S n =>
    match td_view s f with
    | None => GStuck
    | Some (TVT v) =>
      (* [return Ok(manager.get_terminal(!*t).unwrap())] *)
      match term3 s (k_not v) with Some t => GOk s c (RT t) | None => GStuck end
    | Some (TVI nd) =>
      match cget c tcode_not [f] with
      | Some h => GOk s c h
      | None =>
        match children3 nd with
        | None => GStuck
        | Some (f0, f1, f2) =>
          td_seq3_c (fun s' c' => td_apply_not_c n s' c' f0)
                    (fun s' c' => td_apply_not_c n s' c' f1)
                    (fun s' c' => td_apply_not_c n s' c' f2)
                    (nstored nd) tcode_not [f] s c
        end
      end
    end
  end.

(** [apply_bin::<M, OP>] *)
Fixpoint td_apply_bin_c (fuel : nat) (s : snap) (c : C) (op : binop) (f g : ref) : tres_c :=
  match fuel with
  | O => GStuck
  | S n =>
    match td_view s f, td_view s g with
    | Some vf, Some vg =>
      match td_tb gt s op f g vf vg with
      | DFail => GStuck
      | DDone h => GOk s c h
      | DNot r => td_apply_not_c fuel s c r        (* [return apply_not(manager, f)] *)
      | DBin o a b =>
        match cget c (top_code o) [a; b] with
        | Some h => GOk s c h
        | None =>
          match lmin (tlevel vf) (tlevel vg) with
          | None => GStuck           (* both terminals: [unwrap_inner] would panic *)
          | Some lvl =>
            match td_cof f vf lvl, td_cof g vg lvl with
            | Some (f0, f1, f2), Some (g0, g1, g2) =>
              td_seq3_c (fun s' c' => td_apply_bin_c n s' c' op f0 g0)
                        (fun s' c' => td_apply_bin_c n s' c' op f1 g1)
                        (fun s' c' => td_apply_bin_c n s' c' op f2 g2)
                        lvl (top_code o) [a; b] s c
            | _, _ => GStuck
            end
          end
        end
      end
    | _, _ => GStuck
    end
  end.

(** [apply_ite_rec] *)
Fixpoint td_apply_ite_c (fuel : nat) (s : snap) (c : C) (f g h : ref) : tres_c :=
  match fuel with
  | O => GStuck
  | S n =>
    if ref_eqb g h then GOk s c g
    else if ref_eqb f g then td_apply_bin_c fuel s c Or f h
    else if ref_eqb f h then td_apply_bin_c fuel s c And f g
    else
      match td_view s f, td_view s g, td_view s h with
      | Some vf, Some vg, Some vh =>
        match td_ite_sc s f g h vf vg vh with
        | IFail => GStuck
        | IDone r => GOk s c r
        | IBin op a b => td_apply_bin_c fuel s c op a b
        | INot a => td_apply_not_c fuel s c a
        | IRec =>
          match cget c tcode_ite [f; g; h] with
          | Some r => GOk s c r
          | None =>
            match lmin (lmin (tlevel vf) (tlevel vg)) (tlevel vh) with
            | None => GStuck
            | Some lvl =>
              match td_cof f vf lvl, td_cof g vg lvl, td_cof h vh lvl with
              | Some (f0, f1, f2), Some (g0, g1, g2), Some (h0, h1, h2) =>
                td_seq3_c (fun s' c' => td_apply_ite_c n s' c' f0 g0 h0)
                          (fun s' c' => td_apply_ite_c n s' c' f1 g1 h1)
                          (fun s' c' => td_apply_ite_c n s' c' f2 g2 h2)
                          lvl tcode_ite [f; g; h] s c
              | _, _, _ => GStuck
              end
            end
          end
        end
      | _, _, _ => GStuck
      end
  end.

End Bounded.

(** [var_edge]: the outer [None] = an [unwrap] panics / the variable does not
    exist, the inner [None] = [Err(OutOfMemory)] of [LevelView::get_or_insert]
    (no table is returned: the manager is untouched) *)
Definition td_var_cap (cap : nat) (s : snap) (v : nat) : option (option (snap * ref)) :=
  match nth_error (s_v2l s) v, term3 s TT, term3 s TU, term3 s TF with
  | Some lvl, Some t2, Some t1, Some t0 =>
    match get_or_insert_cap cap s lvl [E (RT t2); E (RT t1); E (RT t0)] with
    | Some (s', e) => Some (Some (s', eref e))
    | None => Some None
    end
  | _, _, _, _ => None
  end.

(** ** One call type for the three entry points ([TVLFunction::not_edge],
    [and_edge] .. [imp_strict_edge], [ite_edge]) *)

Inductive tcall :=
| TCNot (f : ref)
| TCBin (op : binop) (f g : ref)
| TCIte (f g h : ref).

(** the bounded run *)
Definition trun_c (gt : ref -> ref -> bool) (C : Type)
    (cget : C -> N -> list ref -> option ref) (cadd : C -> N -> list ref -> ref -> C)
    (cap : nat) (fuel : nat) (s : snap) (c : C) (k : tcall) : gres C ref :=
  match k with
  | TCNot f => td_apply_not_c C cget cadd cap fuel s c f
  | TCBin op f g => td_apply_bin_c gt C cget cadd cap fuel s c op f g
  | TCIte f g h => td_apply_ite_c gt C cget cadd cap fuel s c f g h
  end.

(** the unbounded run (DD/ApplyTdd.v) *)
Definition trun_u (gt : ref -> ref -> bool) (C : Type)
    (cget : C -> N -> list ref -> option ref) (cadd : C -> N -> list ref -> ref -> C)
    (fuel : nat) (s : snap) (c : C) (k : tcall) : option (snap * C * ref) :=
  match k with
  | TCNot f => td_apply_not C cget cadd fuel s c f
  | TCBin op f g => td_apply_bin gt C cget cadd fuel s c op f g
  | TCIte f g h => td_apply_ite gt C cget cadd fuel s c f g h
  end.

(** the operands of a call *)
Definition tcall_args (k : tcall) : list ref :=
  match k with
  | TCNot f => [f]
  | TCBin _ f g => [f; g]
  | TCIte f g h => [f; g; h]
  end.

(** the hypothesis of the theorems on a call, as a checker for real snapshots:
    every operand is a valid reference *)
Definition tcall_ok_b (s : snap) (k : tcall) : bool :=
  forallb (ref_ok_b s) (tcall_args k).

(** ** The instances the correspondence run evaluates on snapshots of the real
    manager: no apply cache, standard fuel (as [not_nc] / [bin_nc] / [ite_nc] of
    Mgr/Oom.v; [gt_none] of Mgr/Oom.v: operand pairs are never swapped, which
    without a cache is unobservable) *)

Definition tnot_nc (cap : nat) (s : snap) (f : ref) : gres unit ref :=
  td_apply_not_c unit nc_get nc_add cap (S (nlevels s)) s tt f.
Definition tbin_nc (cap : nat) (s : snap) (op : binop) (f g : ref) : gres unit ref :=
  td_apply_bin_c gt_none unit nc_get nc_add cap (S (nlevels s)) s tt op f g.
Definition tite_nc (cap : nat) (s : snap) (f g h : ref) : gres unit ref :=
  td_apply_ite_c gt_none unit nc_get nc_add cap (S (nlevels s)) s tt f g h.

Definition trun_nc (cap : nat) (s : snap) (k : tcall) : gres unit ref :=
  trun_c gt_none unit nc_get nc_add cap (S (nlevels s)) s tt k.
Definition trun_unc (s : snap) (k : tcall) : option (snap * unit * ref) :=
  trun_u gt_none unit nc_get nc_add (S (nlevels s)) s tt k.
