(** * The hypotheses of the C14 theorems for TDDs are satisfiable and every outcome occurs

    A concrete three-valued table ([ext3]: 3 levels, 5 nodes, 4 handles, exact
    reference counts; nodes 1 / 2 / 3 = the variables x2 / x1 / x0, node 4 =
    (x2, U, F) at level 1, node 5 = (node 4, x1, x2) at level 0) satisfies [TdOK];
    on it the bounded algorithms of Mgr/OomTdd.v really return out-of-memory for
    small capacities - with a table that differs from the initial one (garbage
    left behind by the sub-calls that had succeeded) - and the result for larger
    ones; the cache of a failed run keeps what the successful sub-calls added;
    [tdd_exact] instantiated for ALL capacities. *)

From Coq Require Import List NArith PArith Bool Arith Lia FMapPositive.
From OxiVerif Require Import DD.Table DD.TableProofs DD.Build DD.BuildProofs
  DD.Apply DD.ApplyProofs DD.Tdd DD.TddTables DD.ApplyTdd DD.ApplyTddBase DD.ApplyTddProofs
  DD.ApplyTddIte DD.ApplyTddTop DD.ApplyTddExamples Mgr.Oom.
From OxiVerif Require Import Mgr.OomGen Mgr.OomGenProofs Mgr.OomTdd Mgr.OomTddProofs Mgr.OomTddSafe
  Mgr.OomTddThms.
Import ListNotations.

(** terminals: id 0 = False, 1 = Unknown, 2 = True *)
Definition ext3 : snap :=
  mkSnap KTdd
    (PositiveMap.add 5%positive (mkNode 0 [E (RN 4); E (RN 2); E (RN 1)] 0 1)
    (PositiveMap.add 4%positive (mkNode 1 [E (RN 1); E (RT 1); E (RT 0)] 1 2)
    (PositiveMap.add 3%positive (mkNode 0 [E (RT 2); E (RT 1); E (RT 0)] 0 1)
    (PositiveMap.add 2%positive (mkNode 1 [E (RT 2); E (RT 1); E (RT 0)] 1 1)
    (PositiveMap.add 1%positive (mkNode 2 [E (RT 2); E (RT 1); E (RT 0)] 2 3)
       (PositiveMap.empty node))))))
    [(0, 0); (1, 1); (2, 2)]%N
    [0; 1; 2] [0; 1; 2]
    [(0%N, E (RN 5)); (1%N, E (RN 3)); (2%N, E (RN 4)); (3%N, E (RN 1))].

Example ext3_ok : TdOK ext3 /\ rc_exact_b ext3 [] = true /\ node_count ext3 = 5.
Proof.
  split; [apply td_ok_b_spec; vm_compute; reflexivity|]. split; vm_compute; reflexivity.
Qed.

Example ext3_cache_ok : TCacheOK ac_get ext3 [] /\ TCacheOK nc_get ext3 tt.
Proof. split; [apply tac_empty_ok | apply tnc_ok]. Qed.

(** the example calls satisfy the hypothesis of the theorems *)
Example ext3_calls_ok :
  tcall_ok ext3 (TCNot (RN 5)) /\ (forall op, tcall_ok ext3 (TCBin op (RN 5) (RN 4))) /\
  tcall_ok ext3 (TCIte (RN 5) (RN 3) (RN 4)).
Proof.
  split; [|split; [intros op|]]; apply tcall_ok_b_spec; vm_compute; reflexivity.
Qed.

(** outcome code (0 = result, 1 = out of memory, 2 = stuck), stored nodes afterwards, result *)
Definition tout {C} (r : gres C ref) := (gres_code r, option_map node_count (gres_snap r), gres_val r).

(** not (node 5) needs four new nodes: with a full store it fails at once, with
    one / two / three free slots it fails after having created that many nodes,
    with four it succeeds *)
Example ext3_not :
  map (fun cap => tout (tnot_nc cap ext3 (RN 5))) [0; 5; 6; 7; 8; 9; 10] =
  [(1, Some 5, None); (1, Some 5, None); (1, Some 6, None); (1, Some 7, None); (1, Some 8, None);
   (0, Some 9, Some (RN 9)); (0, Some 9, Some (RN 9))].
Proof. vm_compute. reflexivity. Qed.

(** the number of new nodes (node 5) op (node 4) needs, per operator: the run
    fails exactly below 5 + need slots and leaves [cap] nodes then *)
Definition ext3_need (op : binop) : nat :=
  match op with And | Or | ImpStrict => 3 | Nor => 6 | _ => 5 end.

Example ext3_bin : forall op,
  map (fun cap => tout (tbin_nc cap ext3 op (RN 5) (RN 4))) [0; 5; 6; 7; 8; 9; 10; 11; 12] =
  map (fun cap => if Nat.ltb cap (5 + ext3_need op)
                  then (1, Some (Nat.max cap 5), None)
                  else (0, Some (5 + ext3_need op), Some (RN (Pos.of_nat (5 + ext3_need op)))))
      [0; 5; 6; 7; 8; 9; 10; 11; 12].
Proof. intros []; vm_compute; reflexivity. Qed.

(** if node 5 then x0 else node 4: four new nodes; if node 5 then node 4 else x1:
    one new node (all sub-results exist) *)
Example ext3_ite :
  map (fun cap => tout (tite_nc cap ext3 (RN 5) (RN 3) (RN 4))) [0; 5; 6; 7; 8; 9; 10] =
  [(1, Some 5, None); (1, Some 5, None); (1, Some 6, None); (1, Some 7, None); (1, Some 8, None);
   (0, Some 9, Some (RN 9)); (0, Some 9, Some (RN 9))] /\
  map (fun cap => tout (tite_nc cap ext3 (RN 5) (RN 4) (RN 2))) [5; 6] =
  [(1, Some 5, None); (0, Some 6, Some (RN 6))].
Proof. vm_compute. split; reflexivity. Qed.

(** an operation whose result exists needs no slot: it succeeds with a full
    store, whatever the capacity *)
Example ext3_no_alloc : forall cap,
  tbin_nc cap ext3 And (RN 5) (RN 5) = GOk ext3 tt (RN 5) /\
  tbin_nc cap ext3 Or (RN 4) (RT 0) = GOk ext3 tt (RN 4) /\
  tite_nc cap ext3 (RN 3) (RT 2) (RT 0) = GOk ext3 tt (RN 3) /\
  tite_nc cap ext3 (RN 5) (RN 1) (RN 1) = GOk ext3 tt (RN 1).
Proof.
  intros cap.
  (* the capacity is not consulted: no [get_or_insert] of a new node is reached *)
  assert (M : forall k r, trun_nc 0 ext3 k = GOk ext3 tt r -> trun_nc cap ext3 k = GOk ext3 tt r).
  { intros k r E. unfold trun_nc in *.
    apply (tdd_monotone gt_none unit nc_get nc_add 0 cap _ ext3 tt k ext3 tt r (Nat.le_0_l cap) E). }
  split; [apply (M (TCBin And (RN 5) (RN 5))); vm_compute; reflexivity|].
  split; [apply (M (TCBin Or (RN 4) (RT 0))); vm_compute; reflexivity|].
  split; [apply (M (TCIte (RN 3) (RT 2) (RT 0))); vm_compute; reflexivity|].
  apply (M (TCIte (RN 5) (RN 1) (RN 1))); vm_compute; reflexivity.
Qed.

(** the three nodes left behind by the failed negation with capacity 8: the table
    is still a well-formed TDD table, the handles are the same, every old node is
    unchanged (that no handle reaches a new node: [intact_t], below) *)
Example ext3_not_garbage :
  match tnot_nc 8 ext3 (RN 5) with
  | GOom s' _ =>
      s_handles s' = s_handles ext3 /\ td_ok_b s' = true /\ node_count s' = 8 /\
      forallb (fun p => match find_node s' (fst p) with
                        | Some nd => same_node nd (snd p) | None => false end)
              (PositiveMap.elements (s_nodes ext3)) = true
  | _ => False
  end.
Proof. vm_compute. repeat split; reflexivity. Qed.

(** with a real cache (association list, edge order by id): the failed run keeps
    the entries of the sub-calls that had succeeded; the failing call adds none *)
Definition tcache_of (r : gres acache ref) : option acache :=
  match r with GOk _ c _ | GOom _ c => Some c | GStuck => None end.

Example ext3_cache_kept :
  let run cap := td_apply_not_c acache ac_get ac_add cap 4 ext3 [] (RN 5) in
  (gres_code (run 5), tcache_of (run 5)) = (1, Some []) /\
  (gres_code (run 7), option_map (@length _) (tcache_of (run 7))) = (1, Some 2) /\
  (gres_code (run 9), option_map (@length _) (tcache_of (run 9))) = (0, Some 4) /\
  (* ... and they are correct entries: the state after the failure satisfies the invariant *)
  match run 7 with
  | GOom s' c' => TdOK s' /\ TCacheOK ac_get s' c' /\ intact_t ext3 s'
  | _ => False
  end.
Proof.
  split; [vm_compute; reflexivity|]. split; [vm_compute; reflexivity|]. split; [vm_compute; reflexivity|].
  cbv zeta.
  destruct (td_apply_not_c acache ac_get ac_add 7 4 ext3 [] (RN 5)) as [s' c' r|s' c'|] eqn:E;
    [vm_compute in E; discriminate | | vm_compute in E; discriminate].
  destruct (tdd_safe tgt_id acache ac_get ac_add ac_lossy 7 4 ext3 [] (TCNot (RN 5)) s' c')
    as [B' [O' [_ [I' _]]]]; auto.
  - apply ext3_ok.
  - apply ext3_cache_ok.
  - apply ext3_calls_ok.
Qed.

(** variable creation: the node of x0 exists (no slot needed); a fresh manager
    (no node) fails when it has no slot *)
Example ext3_var :
  (match td_var_cap 0 ext3 0 with Some (Some (s', r)) => Some (node_count s', r) | _ => None end)
    = Some (5, RN 3) /\
  td_var_cap 0 tex0 0 = Some None /\
  (match td_var_cap 1 tex0 0 with Some (Some (s', r)) => Some (node_count s', r) | _ => None end)
    = Some (1, RN 2) /\
  td_var_cap 1 tex0 2 = None.
Proof. vm_compute. repeat split; reflexivity. Qed.

(** the instance of the theorems: whatever the capacity, the run on [ext3] is
    exactly "result iff it fits" *)
Example ext3_exact : forall cap,
  exists su cu ru, trun_unc ext3 (TCBin Xor (RN 5) (RN 4)) = Some (su, cu, ru) /\
    node_count su = 10 /\
    tcall_spec ext3 (TCBin Xor (RN 5) (RN 4)) su ru /\
    (node_count su <= Nat.max cap (node_count ext3) ->
       tbin_nc cap ext3 Xor (RN 5) (RN 4) = GOk su cu ru) /\
    (Nat.max cap (node_count ext3) < node_count su ->
       exists s' c', tbin_nc cap ext3 Xor (RN 5) (RN 4) = GOom s' c' /\
         TdOK s' /\ TCacheOK nc_get s' c' /\ extends ext3 s' /\ intact_t ext3 s' /\
         node_count ext3 <= node_count s' /\ cap <= node_count s').
Proof.
  intros cap.
  destruct (tdd_exact gt_none unit nc_get nc_add nc_lossy cap 4 ext3 tt (TCBin Xor (RN 5) (RN 4)))
    as [su [cu [ru [E [V [A B]]]]]].
  - apply ext3_ok.
  - apply ext3_cache_ok.
  - apply ext3_calls_ok.
  - vm_compute. lia.
  - exists su, cu, ru. split; [exact E|]. split; [|split; [exact V|split; [exact A | exact B]]].
    vm_compute in E. inversion E; subst su. vm_compute. reflexivity.
Qed.

(** ... hence: out-of-memory exactly below 10 slots, with the manager intact *)
Example ext3_exact_consequence : forall cap,
  (10 <= cap -> gres_code (tbin_nc cap ext3 Xor (RN 5) (RN 4)) = 0) /\
  (cap < 10 -> exists s' c', tbin_nc cap ext3 Xor (RN 5) (RN 4) = GOom s' c' /\
                TdOK s' /\ intact_t ext3 s' /\ cap <= node_count s').
Proof.
  intros cap. destruct (ext3_exact cap) as [su [cu [ru [_ [Hn [_ [A B]]]]]]].
  assert (Hc : node_count ext3 = 5) by (vm_compute; reflexivity). split.
  - intros Hcap. rewrite A by lia. reflexivity.
  - intros Hcap. destruct B as [s' [c' [E [B' [_ [_ [I' [_ Hfull]]]]]]]]; [lia|].
    exists s', c'. auto.
Qed.

(** the same for negation and if-then-else: Err iff cap < 9 *)
Example ext3_exact_not_ite : forall cap,
  (gres_code (tnot_nc cap ext3 (RN 5)) = if Nat.ltb cap 9 then 1 else 0) /\
  (gres_code (tite_nc cap ext3 (RN 5) (RN 3) (RN 4)) = if Nat.ltb cap 9 then 1 else 0).
Proof.
  intros cap.
  assert (Hc : node_count ext3 = 5) by (vm_compute; reflexivity).
  assert (G : forall k, tcall_ok ext3 k ->
            (exists su cu ru, trun_unc ext3 k = Some (su, cu, ru) /\ node_count su = 9) ->
            gres_code (trun_nc cap ext3 k) = if Nat.ltb cap 9 then 1 else 0).
  { intros k Hk [su0 [cu0 [ru0 [E0 Hn]]]].
    destruct (tdd_exact gt_none unit nc_get nc_add nc_lossy cap 4 ext3 tt k)
      as [su [cu [ru [E [_ [A B]]]]]];
      [apply ext3_ok | apply ext3_cache_ok | exact Hk | vm_compute; lia |].
    unfold trun_unc in E0. change (S (nlevels ext3)) with 4 in E0. rewrite E0 in E.
    inversion E; subst su cu ru. unfold trun_nc. change (S (nlevels ext3)) with 4.
    destruct (Nat.ltb_spec cap 9) as [Hlt|Hge].
    - destruct B as [s' [c' [-> _]]]; [lia | reflexivity].
    - rewrite A by lia. reflexivity. }
  split.
  - apply (G (TCNot (RN 5))); [apply ext3_calls_ok|].
    eexists _, _, _. split; [vm_compute; reflexivity | vm_compute; reflexivity].
  - apply (G (TCIte (RN 5) (RN 3) (RN 4))); [apply ext3_calls_ok|].
    eexists _, _, _. split; [vm_compute; reflexivity | vm_compute; reflexivity].
Qed.
