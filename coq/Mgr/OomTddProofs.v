(** * Out-of-memory behaviour of the TDD apply algorithms (Mgr/OomTdd.v), part 1

    Facts that need no invariant (every table, cache, fuel, capacity, operand
    order): [td_apply_*_sim] - when the bounded algorithm returns [GOk s' c' r]
    the unbounded algorithm of DD/ApplyTdd.v returns literally [Some (s', c', r)]
    and at most [cap] nodes are stored unless nothing was inserted; when it
    returns [GOom s' c'] no node has disappeared and the store is full; when the
    unbounded algorithm returns a table that fits, the bounded one returns
    exactly that result.  The invariant-dependent part is in Mgr/OomTddSafe.v. *)

From Coq Require Import List NArith PArith Bool Arith Lia FMapPositive.
From OxiVerif Require Import DD.Table DD.TableProofs DD.Build DD.BuildProofs
  DD.Apply DD.Tdd DD.ApplyTdd DD.ApplyTddBase DD.ApplyTddProofs DD.ApplyTddIte Mgr.Oom Mgr.OomProofs.
From OxiVerif Require Import Mgr.OomGen Mgr.OomGenProofs Mgr.OomBcddProofs Mgr.OomTdd.
Import ListNotations.

(** the shape of the unbounded expansion: three calls, [mk_node], cache insertion *)
Definition td_seq3_u {C : Type} (cadd : C -> N -> list ref -> ref -> C)
    (rec0 rec1 rec2 : snap -> C -> option (snap * C * ref))
    (lvl : nat) (code : N) (args : list ref) (s : snap) (c : C) : option (snap * C * ref) :=
  ubind (rec0 s c) (fun s1 c1 t =>
  ubind (rec1 s1 c1) (fun s2 c2 u =>
  ubind (rec2 s2 c2) (fun s3 c3 e =>
  ufin (mk_node s3 lvl [E t; E u; E e]) (fun h => cadd c3 code args (eref h)) (fun h => eref h)))).

Section Sim.
Variable gt : ref -> ref -> bool.
Variable C : Type.
Variable cget : C -> N -> list ref -> option ref.
Variable cadd : C -> N -> list ref -> ref -> C.
Variable cap : nat.

Notation SIM := (sim C no_m2 cap 1).

(** ** Unfolding lemmas: the unbounded algorithms are the bounded ones with
    [ubind] / [ufin] in place of [gbind] / [gfin] *)

Lemma td_apply_not_U : forall n s c f,
  td_apply_not C cget cadd (S n) s c f =
  match td_view s f with
  | None => None
  | Some (TVT v) =>
    match term3 s (k_not v) with Some t => Some (s, c, RT t) | None => None end
  | Some (TVI nd) =>
    match cget c tcode_not [f] with
    | Some h => Some (s, c, h)
    | None =>
      match children3 nd with
      | None => None
      | Some (f0, f1, f2) =>
        td_seq3_u cadd (fun s' c' => td_apply_not C cget cadd n s' c' f0)
                       (fun s' c' => td_apply_not C cget cadd n s' c' f1)
                       (fun s' c' => td_apply_not C cget cadd n s' c' f2)
                       (nstored nd) tcode_not [f] s c
      end
    end
  end.
Proof. reflexivity. Qed.

Lemma td_apply_not_c_S : forall n s c f,
  td_apply_not_c C cget cadd cap (S n) s c f =
  match td_view s f with
  | None => GStuck
  | Some (TVT v) =>
    match term3 s (k_not v) with Some t => GOk s c (RT t) | None => GStuck end
  | Some (TVI nd) =>
    match cget c tcode_not [f] with
    | Some h => GOk s c h
    | None =>
      match children3 nd with
      | None => GStuck
      | Some (f0, f1, f2) =>
        td_seq3_c C cadd cap (fun s' c' => td_apply_not_c C cget cadd cap n s' c' f0)
                             (fun s' c' => td_apply_not_c C cget cadd cap n s' c' f1)
                             (fun s' c' => td_apply_not_c C cget cadd cap n s' c' f2)
                             (nstored nd) tcode_not [f] s c
      end
    end
  end.
Proof. reflexivity. Qed.

Lemma td_apply_bin_U : forall n s c op f g,
  td_apply_bin gt C cget cadd (S n) s c op f g =
  match td_view s f, td_view s g with
  | Some vf, Some vg =>
    match td_tb gt s op f g vf vg with
    | DFail => None
    | DDone h => Some (s, c, h)
    | DNot r => td_apply_not C cget cadd (S n) s c r
    | DBin o a b =>
      match cget c (top_code o) [a; b] with
      | Some h => Some (s, c, h)
      | None =>
        match lmin (tlevel vf) (tlevel vg) with
        | None => None
        | Some lvl =>
          match td_cof f vf lvl, td_cof g vg lvl with
          | Some (f0, f1, f2), Some (g0, g1, g2) =>
            td_seq3_u cadd (fun s' c' => td_apply_bin gt C cget cadd n s' c' op f0 g0)
                           (fun s' c' => td_apply_bin gt C cget cadd n s' c' op f1 g1)
                           (fun s' c' => td_apply_bin gt C cget cadd n s' c' op f2 g2)
                           lvl (top_code o) [a; b] s c
          | _, _ => None
          end
        end
      end
    end
  | _, _ => None
  end.
Proof. reflexivity. Qed.

Lemma td_apply_bin_c_S : forall n s c op f g,
  td_apply_bin_c gt C cget cadd cap (S n) s c op f g =
  match td_view s f, td_view s g with
  | Some vf, Some vg =>
    match td_tb gt s op f g vf vg with
    | DFail => GStuck
    | DDone h => GOk s c h
    | DNot r => td_apply_not_c C cget cadd cap (S n) s c r
    | DBin o a b =>
      match cget c (top_code o) [a; b] with
      | Some h => GOk s c h
      | None =>
        match lmin (tlevel vf) (tlevel vg) with
        | None => GStuck
        | Some lvl =>
          match td_cof f vf lvl, td_cof g vg lvl with
          | Some (f0, f1, f2), Some (g0, g1, g2) =>
            td_seq3_c C cadd cap (fun s' c' => td_apply_bin_c gt C cget cadd cap n s' c' op f0 g0)
                                 (fun s' c' => td_apply_bin_c gt C cget cadd cap n s' c' op f1 g1)
                                 (fun s' c' => td_apply_bin_c gt C cget cadd cap n s' c' op f2 g2)
                                 lvl (top_code o) [a; b] s c
          | _, _ => GStuck
          end
        end
      end
    end
  | _, _ => GStuck
  end.
Proof. reflexivity. Qed.

Lemma td_apply_ite_U : forall n s c f g h,
  td_apply_ite gt C cget cadd (S n) s c f g h =
    if ref_eqb g h then Some (s, c, g)
    else if ref_eqb f g then td_apply_bin gt C cget cadd (S n) s c Or f h
    else if ref_eqb f h then td_apply_bin gt C cget cadd (S n) s c And f g
    else
      match td_view s f, td_view s g, td_view s h with
      | Some vf, Some vg, Some vh =>
        match td_ite_sc s f g h vf vg vh with
        | IFail => None
        | IDone r => Some (s, c, r)
        | IBin op a b => td_apply_bin gt C cget cadd (S n) s c op a b
        | INot a => td_apply_not C cget cadd (S n) s c a
        | IRec =>
          match cget c tcode_ite [f; g; h] with
          | Some r => Some (s, c, r)
          | None =>
            match lmin (lmin (tlevel vf) (tlevel vg)) (tlevel vh) with
            | None => None
            | Some lvl =>
              match td_cof f vf lvl, td_cof g vg lvl, td_cof h vh lvl with
              | Some (f0, f1, f2), Some (g0, g1, g2), Some (h0, h1, h2) =>
                td_seq3_u cadd (fun s' c' => td_apply_ite gt C cget cadd n s' c' f0 g0 h0)
                               (fun s' c' => td_apply_ite gt C cget cadd n s' c' f1 g1 h1)
                               (fun s' c' => td_apply_ite gt C cget cadd n s' c' f2 g2 h2)
                               lvl tcode_ite [f; g; h] s c
              | _, _, _ => None
              end
            end
          end
        end
      | _, _, _ => None
      end.
Proof. reflexivity. Qed.

Lemma td_apply_ite_c_S : forall n s c f g h,
  td_apply_ite_c gt C cget cadd cap (S n) s c f g h =
    if ref_eqb g h then GOk s c g
    else if ref_eqb f g then td_apply_bin_c gt C cget cadd cap (S n) s c Or f h
    else if ref_eqb f h then td_apply_bin_c gt C cget cadd cap (S n) s c And f g
    else
      match td_view s f, td_view s g, td_view s h with
      | Some vf, Some vg, Some vh =>
        match td_ite_sc s f g h vf vg vh with
        | IFail => GStuck
        | IDone r => GOk s c r
        | IBin op a b => td_apply_bin_c gt C cget cadd cap (S n) s c op a b
        | INot a => td_apply_not_c C cget cadd cap (S n) s c a
        | IRec =>
          match cget c tcode_ite [f; g; h] with
          | Some r => GOk s c r
          | None =>
            match lmin (lmin (tlevel vf) (tlevel vg)) (tlevel vh) with
            | None => GStuck
            | Some lvl =>
              match td_cof f vf lvl, td_cof g vg lvl, td_cof h vh lvl with
              | Some (f0, f1, f2), Some (g0, g1, g2), Some (h0, h1, h2) =>
                td_seq3_c C cadd cap (fun s' c' => td_apply_ite_c gt C cget cadd cap n s' c' f0 g0 h0)
                                     (fun s' c' => td_apply_ite_c gt C cget cadd cap n s' c' f1 g1 h1)
                                     (fun s' c' => td_apply_ite_c gt C cget cadd cap n s' c' f2 g2 h2)
                                     lvl tcode_ite [f; g; h] s c
              | _, _, _ => GStuck
              end
            end
          end
        end
      | _, _, _ => GStuck
      end.
Proof. reflexivity. Qed.

(** ** The walks *)

(** [reduce(..)?] + cache insertion *)
Lemma td_fin_sim : forall lvl code args s3 c3 t u e,
  SIM s3 (td_fin_c C cadd cap lvl code args s3 c3 t u e)
         (ufin (mk_node s3 lvl [E t; E u; E e]) (fun h => cadd c3 code args (eref h)) (fun h => eref h)).
Proof.
  intros. unfold td_fin_c. apply gfin_sim. apply mk_node_leaf. exact no_m2_terms.
Qed.

(** the expansion: three sequential calls *)
Lemma td_seq3_sim : forall (rec0 rec1 rec2 : snap -> C -> tres_c C) u0 u1 u2,
  (forall s c, SIM s (rec0 s c) (u0 s c)) ->
  (forall s c, SIM s (rec1 s c) (u1 s c)) ->
  (forall s c, SIM s (rec2 s c) (u2 s c)) ->
  forall lvl code args s c,
    SIM s (td_seq3_c C cadd cap rec0 rec1 rec2 lvl code args s c)
          (td_seq3_u cadd u0 u1 u2 lvl code args s c).
Proof.
  intros rec0 rec1 rec2 u0 u1 u2 H0 H1 H2 lvl code args s c.
  unfold td_seq3_c, td_seq3_u.
  apply gbind_sim; [apply H0|]. intros s1 c1 t.
  apply gbind_sim; [apply H1|]. intros s2 c2 u.
  apply gbind_sim; [apply H2|]. intros s3 c3 e.
  apply td_fin_sim.
Qed.

Theorem td_apply_not_sim : forall fuel s c f,
  SIM s (td_apply_not_c C cget cadd cap fuel s c f) (td_apply_not C cget cadd fuel s c f).
Proof.
  induction fuel as [|n IH]; intros s c f; [apply sim_stuck|].
  rewrite td_apply_not_c_S, td_apply_not_U.
  destruct (td_view s f) as [[nd|v]|]; [| | apply sim_stuck].
  - destruct (cget c tcode_not [f]); [apply sim_here|].
    destruct (children3 nd) as [[[f0 f1] f2]|]; [|apply sim_stuck].
    apply td_seq3_sim; intros; apply IH.
  - destruct (term3 s (k_not v)); [apply sim_here | apply sim_stuck].
Qed.

Theorem td_apply_bin_sim : forall fuel s c op f g,
  SIM s (td_apply_bin_c gt C cget cadd cap fuel s c op f g) (td_apply_bin gt C cget cadd fuel s c op f g).
Proof.
  induction fuel as [|n IH]; intros s c op f g; [apply sim_stuck|].
  rewrite td_apply_bin_c_S, td_apply_bin_U.
  destruct (td_view s f) as [vf|]; [|apply sim_stuck].
  destruct (td_view s g) as [vg|]; [|apply sim_stuck].
  destruct (td_tb gt s op f g vf vg) as [r|r|o a b|];
    [apply sim_here | apply td_apply_not_sim | | apply sim_stuck].
  destruct (cget c (top_code o) [a; b]); [apply sim_here|].
  destruct (lmin (tlevel vf) (tlevel vg)) as [lvl|]; [|apply sim_stuck].
  destruct (td_cof f vf lvl) as [[[f0 f1] f2]|]; [|apply sim_stuck].
  destruct (td_cof g vg lvl) as [[[g0 g1] g2]|]; [|apply sim_stuck].
  apply td_seq3_sim; intros; apply IH.
Qed.

Theorem td_apply_ite_sim : forall fuel s c f g h,
  SIM s (td_apply_ite_c gt C cget cadd cap fuel s c f g h) (td_apply_ite gt C cget cadd fuel s c f g h).
Proof.
  induction fuel as [|n IH]; intros s c f g h; [apply sim_stuck|].
  rewrite td_apply_ite_c_S, td_apply_ite_U.
  destruct (ref_eqb g h); [apply sim_here|].
  destruct (ref_eqb f g); [apply td_apply_bin_sim|].
  destruct (ref_eqb f h); [apply td_apply_bin_sim|].
  destruct (td_view s f) as [vf|]; [|apply sim_stuck].
  destruct (td_view s g) as [vg|]; [|apply sim_stuck].
  destruct (td_view s h) as [vh|]; [|apply sim_stuck].
  destruct (td_ite_sc s f g h vf vg vh) as [r|op a b|a| |];
    [apply sim_here | apply td_apply_bin_sim | apply td_apply_not_sim | | apply sim_stuck].
  destruct (cget c tcode_ite [f; g; h]); [apply sim_here|].
  destruct (lmin (lmin (tlevel vf) (tlevel vg)) (tlevel vh)) as [lvl|]; [|apply sim_stuck].
  destruct (td_cof f vf lvl) as [[[f0 f1] f2]|]; [|apply sim_stuck].
  destruct (td_cof g vg lvl) as [[[g0 g1] g2]|]; [|apply sim_stuck].
  destruct (td_cof h vh lvl) as [[[h0 h1] h2]|]; [|apply sim_stuck].
  apply td_seq3_sim; intros; apply IH.
Qed.

(** the three entry points at once *)
Theorem trun_sim : forall fuel s c k,
  SIM s (trun_c gt C cget cadd cap fuel s c k) (trun_u gt C cget cadd fuel s c k).
Proof.
  intros fuel s c [f|op f g|f g h]; simpl;
    [apply td_apply_not_sim | apply td_apply_bin_sim | apply td_apply_ite_sim].
Qed.

End Sim.

(** ** Variable creation *)

Lemma td_var_cap_sim : forall cap s v,
  match td_var s v with
  | Some u => exists o, td_var_cap cap s v = Some o /\ leaf_rel no_m2 cap 1 s o u
  | None => td_var_cap cap s v = None
  end.
Proof.
  intros cap s v. unfold td_var, td_var_cap.
  destruct (nth_error (s_v2l s) v) as [lvl|]; [|reflexivity].
  destruct (term3 s TT) as [t2|]; [|reflexivity].
  destruct (term3 s TU) as [t1|]; [|reflexivity].
  destruct (term3 s TF) as [t0|]; [|reflexivity].
  pose proof (goi_leaf no_m2 no_m2_terms cap 1 s lvl [E (RT t2); E (RT t1); E (RT t0)]) as L.
  pose proof (leaf_map no_m2 cap 1 edge ref s _ _ (fun e => eref e) L) as L'.
  destruct (get_or_insert s lvl [E (RT t2); E (RT t1); E (RT t0)]) as [s' r] eqn:Eg.
  destruct (get_or_insert_cap cap s lvl [E (RT t2); E (RT t1); E (RT t0)]) as [[s2 r2]|];
    eexists; split; try reflexivity; exact L'.
Qed.
