(** * Out-of-memory behaviour of the TDD apply algorithms (Mgr/OomTdd.v), part 2

    Under the invariant of the C11 theorems for TDD tables ([TdOK], [TCacheOK],
    operands are valid references, fuel above the height):
    [td_apply_*_c_safe] - the bounded algorithms never get stuck, and whatever
    they return - result or out-of-memory - the table they leave is a well-formed
    TDD table extending the one they started from, with a correct cache.

    Method (as Mgr/OomBcddSafe.v): the [GOk] case is NOT re-proved - it follows
    from the refinement ([td_apply_*_sim]) and the theorems about the unbounded
    algorithms ([td_apply_not_ok], [td_apply_bin_ok], [td_apply_ite_ok]); the
    failure case is a walk through the bounded algorithm that only needs the
    preconditions of the sub-calls (references valid, fuel). *)

From Coq Require Import List NArith PArith Bool Arith Lia FMapPositive.
From OxiVerif Require Import DD.Table DD.TableProofs DD.Canon DD.Build DD.BuildProofs
  DD.Apply DD.ApplyProofs DD.Tdd DD.TddTables DD.ApplyTdd DD.ApplyTddBase DD.ApplyTddProofs DD.ApplyTddIte
  Mgr.Oom Mgr.OomProofs.
From OxiVerif Require Import Mgr.OomGen Mgr.OomGenProofs Mgr.OomBcddProofs Mgr.OomTdd Mgr.OomTddProofs.
Import ListNotations.

Section Safe.
Variable gt : ref -> ref -> bool.
Variable C : Type.
Variable cget : C -> N -> list ref -> option ref.
Variable cadd : C -> N -> list ref -> ref -> C.
Hypothesis Hlossy : lossy cget cadd.
Variable cap : nat.

(** the invariant of the manager: table and cache *)
Definition TInvC (s : snap) (c : C) : Prop := TdOK s /\ TCacheOK cget s c.
(** the result is a valid reference *)
Definition Qref (s : snap) (r : ref) : Prop := ref_ok s r.

Notation RS := (res_safe TInvC extends Qref).
Notation FS := (fail_safe TInvC extends).

(** ** the expansion: three sequential calls, [reduce], cache insertion *)

Lemma td_seq3_c_fs : forall (rec0 rec1 rec2 : snap -> C -> tres_c C) lvl code args s c,
  RS s (rec0 s c) ->
  (forall s1 c1, TInvC s1 c1 -> extends s s1 -> RS s1 (rec1 s1 c1)) ->
  (forall s2 c2, TInvC s2 c2 -> extends s s2 -> RS s2 (rec2 s2 c2)) ->
  FS s (td_seq3_c C cadd cap rec0 rec1 rec2 lvl code args s c).
Proof.
  intros rec0 rec1 rec2 lvl code args s c H0 H1 H2. unfold td_seq3_c.
  apply (gbind_safe C TInvC extends extends_trans ref ref Qref s _ _ H0).
  intros s1 c1 t I1 X1 _.
  apply (gbind_safe C TInvC extends extends_trans ref ref Qref s1 _ _ (H1 s1 c1 I1 X1)).
  intros s2 c2 u I2 X2 _.
  assert (X02 : extends s s2) by (eapply extends_trans; eauto).
  apply (gbind_safe C TInvC extends extends_trans ref ref Qref s2 _ _ (H2 s2 c2 I2 X02)).
  intros s3 c3 e I3 X3 _.
  unfold td_fin_c. apply gfin_safe; [exact I3 | apply extends_refl].
Qed.

(** ** [td_apply_not_c] *)

Lemma tnot_ok_safe : forall fuel s c f s' c' r,
  TdOK s -> TCacheOK cget s c -> ref_ok s f -> nlevels s - rlevel s f < fuel ->
  td_apply_not_c C cget cadd cap fuel s c f = GOk s' c' r ->
  TInvC s' c' /\ extends s s' /\ Qref s' r.
Proof.
  intros fuel s c f s' c' r B O Hf Hfuel E.
  pose proof (sim_never_wrong C no_m2 cap 1 ref _ _ _ _ _ _ (td_apply_not_sim C cget cadd cap fuel s c f) E) as Eu.
  destruct (dent_exists s f B Hf) as [phi Df].
  destruct (td_apply_not_ok C cget cadd Hlossy fuel s c f phi B O Df Hfuel)
    as [s1 [c1 [r1 [E1 [B1 [X1 [O1 [D1 _]]]]]]]].
  rewrite Eu in E1. inversion E1; subst. split; [split; assumption|]. split; [exact X1 | apply (proj1 D1)].
Qed.

Theorem td_apply_not_c_safe : forall fuel s c f,
  TdOK s -> TCacheOK cget s c -> ref_ok s f -> nlevels s - rlevel s f < fuel ->
  RS s (td_apply_not_c C cget cadd cap fuel s c f).
Proof.
  induction fuel as [|n IH]; intros s c f B O Hf Hfuel; [lia|].
  apply safe_intro; [|intros s' c' r E; apply (tnot_ok_safe (S n) s c f s' c' r B O Hf Hfuel E)].
  pose proof (to_wf s B) as H.
  rewrite td_apply_not_c_S.
  destruct (td_view_total s f B Hf) as [x V]. rewrite V. destruct x as [nd|v].
  2:{ destruct (term3_total s (k_not v) B) as [t' Et]. rewrite Et. exact I. }
  destruct (td_view_TVI s f nd V) as [id [-> E]].
  rewrite (rlevel_node s id nd E) in Hfuel. pose proof (wf_level s H id nd E) as Hlv.
  destruct (cget c tcode_not [RN id]); [exact I|].
  destruct (dent_exists s (RN id) B Hf) as [phi D].
  assert (Hle : nlevel nd <= rlevel s (RN id)) by (rewrite (rlevel_node s id nd E); lia).
  destruct (td_cof_ok s (RN id) (TVI nd) phi (nlevel nd) B D V Hle Hlv)
    as [f0 [f1 [f2 [Ecf [D0 [D1 [D2 [L0 [L1 L2]]]]]]]]].
  simpl td_cof in Ecf. rewrite (wf_stored s H id nd E), Nat.eqb_refl in Ecf. rewrite Ecf.
  apply td_seq3_c_fs.
  - apply IH; auto; [apply (proj1 D0) | lia].
  - intros s1 c1 [B1 O1] X1. apply IH; auto; [apply (ext_ref_ok _ _ _ X1 (proj1 D1))|].
    rewrite (ext_nlevels _ _ X1), (ext_rlevel _ _ _ X1 (proj1 D1)). lia.
  - intros s2 c2 [B2 O2] X2. apply IH; auto; [apply (ext_ref_ok _ _ _ X2 (proj1 D2))|].
    rewrite (ext_nlevels _ _ X2), (ext_rlevel _ _ _ X2 (proj1 D2)). lia.
Qed.

(** ** [td_apply_bin_c] *)

Lemma tbin_ok_safe : forall op fuel s c f g s' c' r,
  TdOK s -> TCacheOK cget s c -> ref_ok s f -> ref_ok s g ->
  nlevels s - Nat.min (rlevel s f) (rlevel s g) < fuel ->
  td_apply_bin_c gt C cget cadd cap fuel s c op f g = GOk s' c' r ->
  TInvC s' c' /\ extends s s' /\ Qref s' r.
Proof.
  intros op fuel s c f g s' c' r B O Hf Hg Hfuel E.
  pose proof (sim_never_wrong C no_m2 cap 1 ref _ _ _ _ _ _ (td_apply_bin_sim gt C cget cadd cap fuel s c op f g) E) as Eu.
  destruct (dent_exists s f B Hf) as [phi Df]. destruct (dent_exists s g B Hg) as [psi Dg].
  destruct (td_apply_bin_ok gt C cget cadd Hlossy op fuel s c f g phi psi B O Df Dg Hfuel)
    as [s1 [c1 [r1 [E1 [B1 [X1 [O1 [D1 _]]]]]]]].
  rewrite Eu in E1. inversion E1; subst. split; [split; assumption|]. split; [exact X1 | apply (proj1 D1)].
Qed.

Theorem td_apply_bin_c_safe : forall op fuel s c f g,
  TdOK s -> TCacheOK cget s c -> ref_ok s f -> ref_ok s g ->
  nlevels s - Nat.min (rlevel s f) (rlevel s g) < fuel ->
  RS s (td_apply_bin_c gt C cget cadd cap fuel s c op f g).
Proof.
  intros op. induction fuel as [|n IH]; intros s c f g B O Hf Hg Hfuel; [lia|].
  apply safe_intro; [|intros s' c' r E; apply (tbin_ok_safe op (S n) s c f g s' c' r B O Hf Hg Hfuel E)].
  pose proof (to_wf s B) as H.
  rewrite td_apply_bin_c_S.
  destruct (dent_exists s f B Hf) as [phi Df]. destruct (dent_exists s g B Hg) as [psi Dg].
  destruct (td_view_total s f B Hf) as [vf Vf]. destruct (td_view_total s g B Hg) as [vg Vg].
  rewrite Vf, Vg.
  pose proof (td_tb_sound gt s op f g vf vg phi psi B Df Dg Vf Vg) as T.
  destruct (td_tb gt s op f g vf vg) as [r|r|o a b|] eqn:Etb; simpl in T; [exact I| | |contradiction].
  - (* [return apply_not(manager, f)] *)
    eapply res_fail_safe. destruct T as [[-> _]|[-> _]]; apply td_apply_not_c_safe; auto; lia.
  - destruct T as [-> [Hin [Hne Hab]]].
    destruct (cget c (top_code op) [a; b]); [exact I|].
    destruct (lmin_level s f g vf vg H Vf Vg Hin) as [El Hlvl]. rewrite El.
    set (lvl := Nat.min (rlevel s f) (rlevel s g)) in *.
    destruct (td_cof_ok s f vf phi lvl B Df Vf ltac:(lia) Hlvl)
      as [f0 [f1 [f2 [Ecf [Df0 [Df1 [Df2 [Lf0 [Lf1 Lf2]]]]]]]]].
    destruct (td_cof_ok s g vg psi lvl B Dg Vg ltac:(lia) Hlvl)
      as [g0 [g1 [g2 [Ecg [Dg0 [Dg1 [Dg2 [Lg0 [Lg1 Lg2]]]]]]]]].
    rewrite Ecf, Ecg.
    apply td_seq3_c_fs.
    + apply IH; auto; [apply (proj1 Df0) | apply (proj1 Dg0) | lia].
    + intros s1 c1 [B1 O1] X1.
      apply IH; auto; [apply (ext_ref_ok _ _ _ X1 (proj1 Df1)) | apply (ext_ref_ok _ _ _ X1 (proj1 Dg1))|].
      rewrite (ext_nlevels _ _ X1), (ext_rlevel _ _ _ X1 (proj1 Df1)), (ext_rlevel _ _ _ X1 (proj1 Dg1)). lia.
    + intros s2 c2 [B2 O2] X2.
      apply IH; auto; [apply (ext_ref_ok _ _ _ X2 (proj1 Df2)) | apply (ext_ref_ok _ _ _ X2 (proj1 Dg2))|].
      rewrite (ext_nlevels _ _ X2), (ext_rlevel _ _ _ X2 (proj1 Df2)), (ext_rlevel _ _ _ X2 (proj1 Dg2)). lia.
Qed.

(** ** [td_apply_ite_c] *)

Lemma tite_ok_safe : forall fuel s c f g h s' c' r,
  TdOK s -> TCacheOK cget s c -> ref_ok s f -> ref_ok s g -> ref_ok s h ->
  nlevels s - Nat.min (Nat.min (rlevel s f) (rlevel s g)) (rlevel s h) < fuel ->
  td_apply_ite_c gt C cget cadd cap fuel s c f g h = GOk s' c' r ->
  TInvC s' c' /\ extends s s' /\ Qref s' r.
Proof.
  intros fuel s c f g h s' c' r B O Hf Hg Hh Hfuel E.
  pose proof (sim_never_wrong C no_m2 cap 1 ref _ _ _ _ _ _ (td_apply_ite_sim gt C cget cadd cap fuel s c f g h) E) as Eu.
  destruct (dent_exists s f B Hf) as [phi Df]. destruct (dent_exists s g B Hg) as [psi Dg].
  destruct (dent_exists s h B Hh) as [theta Dh].
  destruct (td_apply_ite_ok gt C cget cadd Hlossy fuel s c f g h phi psi theta B O Df Dg Dh Hfuel)
    as [s1 [c1 [r1 [E1 [B1 [X1 [O1 [D1 _]]]]]]]].
  rewrite Eu in E1. inversion E1; subst. split; [split; assumption|]. split; [exact X1 | apply (proj1 D1)].
Qed.

Theorem td_apply_ite_c_safe : forall fuel s c f g h,
  TdOK s -> TCacheOK cget s c -> ref_ok s f -> ref_ok s g -> ref_ok s h ->
  nlevels s - Nat.min (Nat.min (rlevel s f) (rlevel s g)) (rlevel s h) < fuel ->
  RS s (td_apply_ite_c gt C cget cadd cap fuel s c f g h).
Proof.
  induction fuel as [|n IH]; intros s c f g h B O Hf Hg Hh Hfuel; [lia|].
  apply safe_intro; [|intros s' c' r E; apply (tite_ok_safe (S n) s c f g h s' c' r B O Hf Hg Hh Hfuel E)].
  pose proof (to_wf s B) as H.
  rewrite td_apply_ite_c_S.
  assert (Bin : forall o x y, ref_ok s x -> ref_ok s y ->
            nlevels s - Nat.min (rlevel s x) (rlevel s y) < S n ->
            FS s (td_apply_bin_c gt C cget cadd cap (S n) s c o x y))
    by (intros; eapply res_fail_safe; apply td_apply_bin_c_safe; auto).
  assert (Hfg : nlevels s - Nat.min (rlevel s f) (rlevel s g) < S n) by lia.
  assert (Hfh : nlevels s - Nat.min (rlevel s f) (rlevel s h) < S n) by lia.
  destruct (ref_eqb g h) eqn:Egh; [exact I|].
  destruct (ref_eqb f g) eqn:Efg; [apply Bin; auto|].
  destruct (ref_eqb f h) eqn:Efh; [apply Bin; auto|].
  destruct (dent_exists s f B Hf) as [phi Df]. destruct (dent_exists s g B Hg) as [psi Dg].
  destruct (dent_exists s h B Hh) as [theta Dh].
  destruct (td_view_total s f B Hf) as [vf Vf]. destruct (td_view_total s g B Hg) as [vg Vg].
  destruct (td_view_total s h B Hh) as [vh Vh].
  rewrite Vf, Vg, Vh.
  assert (Nq : forall x y, ref_eqb x y = false -> x <> y).
  { intros x y E ->. assert (X : ref_eqb y y = true) by (apply ref_eqb_eq; reflexivity). congruence. }
  pose proof (td_ite_sc_sound s f g h vf vg vh phi psi theta B Df Dg Dh Vf Vg Vh
                (Nq _ _ Egh) (Nq _ _ Efg) (Nq _ _ Efh)) as T.
  destruct (td_ite_sc s f g h vf vg vh) as [r|op a b|a| |] eqn:Esc; simpl in T; [exact I| | | |contradiction].
  - destruct T as [[-> [-> _]]|[-> [-> _]]]; apply Bin; auto.
  - destruct T as [-> _]. eapply res_fail_safe. apply td_apply_not_c_safe; auto. lia.
  - (* no short-cut *)
    destruct (cget c tcode_ite [f; g; h]); [exact I|].
    destruct (lmin3_level s f g h vf vg vh H Vf Vg Vh T) as [El Hlvl]. rewrite El.
    set (lvl := Nat.min (Nat.min (rlevel s f) (rlevel s g)) (rlevel s h)) in *.
    destruct (td_cof_ok s f vf phi lvl B Df Vf ltac:(lia) Hlvl)
      as [f0 [f1 [f2 [Ecf [Df0 [Df1 [Df2 [Lf0 [Lf1 Lf2]]]]]]]]].
    destruct (td_cof_ok s g vg psi lvl B Dg Vg ltac:(lia) Hlvl)
      as [g0 [g1 [g2 [Ecg [Dg0 [Dg1 [Dg2 [Lg0 [Lg1 Lg2]]]]]]]]].
    destruct (td_cof_ok s h vh theta lvl B Dh Vh ltac:(lia) Hlvl)
      as [h0 [h1 [h2 [Ech [Dh0 [Dh1 [Dh2 [Lh0 [Lh1 Lh2]]]]]]]]].
    rewrite Ecf, Ecg, Ech.
    apply td_seq3_c_fs.
    + apply IH; auto; [apply (proj1 Df0) | apply (proj1 Dg0) | apply (proj1 Dh0) | lia].
    + intros s1 c1 [B1 O1] X1.
      apply IH; auto; [apply (ext_ref_ok _ _ _ X1 (proj1 Df1)) | apply (ext_ref_ok _ _ _ X1 (proj1 Dg1))
                      | apply (ext_ref_ok _ _ _ X1 (proj1 Dh1))|].
      rewrite (ext_nlevels _ _ X1), (ext_rlevel _ _ _ X1 (proj1 Df1)),
              (ext_rlevel _ _ _ X1 (proj1 Dg1)), (ext_rlevel _ _ _ X1 (proj1 Dh1)). lia.
    + intros s2 c2 [B2 O2] X2.
      apply IH; auto; [apply (ext_ref_ok _ _ _ X2 (proj1 Df2)) | apply (ext_ref_ok _ _ _ X2 (proj1 Dg2))
                      | apply (ext_ref_ok _ _ _ X2 (proj1 Dh2))|].
      rewrite (ext_nlevels _ _ X2), (ext_rlevel _ _ _ X2 (proj1 Df2)),
              (ext_rlevel _ _ _ X2 (proj1 Dg2)), (ext_rlevel _ _ _ X2 (proj1 Dh2)). lia.
Qed.

End Safe.
