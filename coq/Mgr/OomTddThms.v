(** * Out-of-memory behaviour of the TDD apply algorithms (Mgr/OomTdd.v), part 3:
      the C14 statements

    For the three entry points of the TDD rule set at once ([tcall]: not, the
    eight binary operators, if-then-else; [trun_c] = the bounded run in the error
    monad of the code, [trun_u] = the unbounded run of DD/ApplyTdd.v) and for
    [td_var_cap]:

    - [tdd_never_wrong], [tdd_retry], [tdd_monotone]: no hypothesis (every table,
      cache, fuel, capacity, operand order);
    - under the invariant ([TdOK], [TCacheOK] for a [lossy] cache, operands valid,
      fuel >= levels + 1): [tdd_never_wrong_sem] (a result is the FIXED
      three-valued table applied to the operands, in a table in which everything
      that existed is intact), [tdd_safe] (the state after [Err(OutOfMemory)]),
      [tdd_intact_meaning] ([intact_t] spelled out), [tdd_no_panic], [tdd_exact]
      (the run fails iff the table of the unbounded run does not fit);
    - [tdd_var_exact], [tdd_var_never_wrong]: variable creation (one insertion;
      on failure the manager is untouched). *)

From Coq Require Import List NArith PArith Bool Arith Lia FMapPositive.
From OxiVerif Require Import DD.Table DD.TableProofs DD.Canon DD.Build DD.BuildProofs
  DD.Apply DD.ApplyProofs DD.Tdd DD.TddTables DD.ApplyTdd DD.ApplyTddBase DD.ApplyTddProofs DD.ApplyTddIte
  DD.ApplyTddTop Mgr.Oom Mgr.OomProofs.
From OxiVerif Require Import Mgr.OomGen Mgr.OomGenProofs Mgr.OomBcddProofs
  Mgr.OomTdd Mgr.OomTddProofs Mgr.OomTddSafe.
Import ListNotations.

(** ** What an extension preserves (three-valued diagrams) *)

Record intact_t (s s' : snap) : Prop := mkIntactT {
  (* handles, order, stored nodes unchanged; added nodes unreachable; live part unchanged *)
  it_base : intact0 s s';
  (* the same three terminals *)
  it_terms : s_terms s' = s_terms s;
  (* every valid reference stays valid and has the same value under every fuel
     and every choice of children *)
  it_sem : forall r, ref_ok s r -> ref_ok s' r /\ forall k c0, semk s' k r c0 = semk s k r c0;
  (* ... hence the same three-valued function of the variables *)
  it_tfun : forall r, ref_ok s r -> forall av, tfun_of s' r av = tfun_of s r av;
  (* every handle has the same value under every assignment *)
  it_handle_sem : forall h, In h (s_handles s) ->
             forall c0, sem_edge s' (snd h) c0 = sem_edge s (snd h) c0
}.

Lemma tfun_of_extends : forall s s' r av, WF s -> extends s s' -> ref_ok s r ->
  tfun_of s' r av = tfun_of s r av.
Proof.
  intros s s' r av H X Hr. unfold tfun_of, FUEL.
  rewrite (ext_nlevels _ _ X), (semk_extends s s' H X _ _ _ Hr).
  replace (chc (lvl_asg s' av)) with (chc (lvl_asg s av)); [reflexivity|].
  unfold chc, lvl_asg. rewrite (ext_l2v _ _ X). reflexivity.
Qed.

Theorem extends_intact_t : forall s s', TdOK s -> extends s s' -> intact_t s s'.
Proof.
  intros s s' B X. pose proof (to_wf s B) as H. constructor.
  - apply (next_intact0 s s' H (next_of_extends s s' X)).
  - apply (ext_terms _ _ X).
  - intros r Hr. split; [apply (ext_ref_ok _ _ _ X Hr)|].
    intros k c0. apply (semk_extends s s' H X k r c0 Hr).
  - intros r Hr av. apply (tfun_of_extends s s' r av H X Hr).
  - intros h Hh c0. unfold sem_edge. rewrite (ext_kind _ _ X), (to_kind s B), (ext_nlevels _ _ X).
    cbv beta iota zeta. apply (semk_extends s s' H X). apply (proj1 (wf_handles s H h Hh)).
Qed.

Theorem intact_t_elim : forall s s', intact_t s s' ->
  s_handles s' = s_handles s /\
  s_v2l s' = s_v2l s /\ s_l2v s' = s_l2v s /\ s_terms s' = s_terms s /\
  (forall id nd, find_node s id = Some nd -> find_node s' id = Some nd) /\
  (forall r, ref_ok s r -> ref_ok s' r /\ forall k c0, semk s' k r c0 = semk s k r c0) /\
  (forall r, ref_ok s r -> forall av, tfun_of s' r av = tfun_of s r av) /\
  (forall h, In h (s_handles s) -> forall c0, sem_edge s' (snd h) c0 = sem_edge s (snd h) c0) /\
  (forall id, find_node s id = None -> ~ reachable s' (handle_refs s') (RN id)) /\
  (forall r, reachable s' (handle_refs s') r <-> reachable s (handle_refs s) r).
Proof.
  intros s s' [[A [B1 B2] C0 F G] T D D' E0]. repeat (split; [assumption|]). assumption.
Qed.

(** ** The hypotheses and the specification of a call *)

(** the operands are valid references *)
Definition tcall_ok (s : snap) (k : tcall) : Prop :=
  match k with
  | TCNot f => ref_ok s f
  | TCBin _ f g => ref_ok s f /\ ref_ok s g
  | TCIte f g h => ref_ok s f /\ ref_ok s g /\ ref_ok s h
  end.

Lemma tcall_ok_b_spec : forall s k, tcall_ok_b s k = true <-> tcall_ok s k.
Proof.
  intros s [f|op f g|f g h]; unfold tcall_ok_b, tcall_ok; simpl;
    rewrite ?andb_true_iff, ?ref_ok_b_spec; tauto.
Qed.

(** the result [r] (in table [s']) of the call [k] (operands in table [s]): under
    every three-valued assignment - by level through the interpreter [semk]
    ([tvalue]) and by variable ([tfun_of]) - its value is the FIXED table of
    DD/Tdd.v ([k_not], [table op], [ite3]) applied to the operands' values *)
Definition tcall_spec (s : snap) (k : tcall) (s' : snap) (r : ref) : Prop :=
  match k with
  | TCNot f =>
    (forall a : assignment, exists x,
       tvalue s f (chc a) x /\ tvalue s' r (chc a) (k_not x)) /\
    (forall av, tfun_of s' r av = k_not (tfun_of s f av))
  | TCBin op f g =>
    (forall a : assignment, exists x y,
       tvalue s f (chc a) x /\ tvalue s g (chc a) y /\ tvalue s' r (chc a) (table op x y)) /\
    (forall av, tfun_of s' r av = table op (tfun_of s f av) (tfun_of s g av))
  | TCIte f g h =>
    (forall a : assignment, exists x y z,
       tvalue s f (chc a) x /\ tvalue s g (chc a) y /\ tvalue s h (chc a) z /\
       tvalue s' r (chc a) (ite3 x y z)) /\
    (forall av, tfun_of s' r av = ite3 (tfun_of s f av) (tfun_of s g av) (tfun_of s h av))
  end.

(** the state after a failure *)
Definition tfailed_ok {C : Type} (cget : C -> N -> list ref -> option ref)
    (cap : nat) (s s' : snap) (c' : C) : Prop :=
  TdOK s' /\ TCacheOK cget s' c' /\ extends s s' /\ intact_t s s' /\
  node_count s <= node_count s' /\ cap <= node_count s'.

Section Top.
Variable gt : ref -> ref -> bool.
Variable C : Type.
Variable cget : C -> N -> list ref -> option ref.
Variable cadd : C -> N -> list ref -> ref -> C.
Hypothesis Hlossy : lossy cget cadd.

Notation INVC := (TInvC C cget).

(** the unbounded run (C11s theorems) for the three entry points at once *)
Lemma trun_u_ok : forall fuel s c k,
  TdOK s -> TCacheOK cget s c -> tcall_ok s k -> S (nlevels s) <= fuel ->
  exists su cu ru, trun_u gt C cget cadd fuel s c k = Some (su, cu, ru) /\
    TdOK su /\ extends s su /\ TCacheOK cget su cu /\ ref_ok su ru /\ tcall_spec s k su ru.
Proof.
  intros fuel s c k B O Hk Hfuel. destruct k as [f|op f g|f g h]; simpl in Hk |- *.
  - destruct (dent_exists s f B Hk) as [phi Df].
    destruct (td_apply_not_ok C cget cadd Hlossy fuel s c f phi B O Df ltac:(lia))
      as [s' [c' [r [E [B' [X [O' [D' _]]]]]]]].
    exists s', c', r. repeat (split; [assumption|]). split; [apply (proj1 D')|]. split.
    + intros a. exists (phi a). split; [apply (proj2 Df a) | apply (proj2 D' a)].
    + intros av. rewrite (tfun_of_ext s s' r _ av B' X D'), (tfun_of_den s f phi Df). reflexivity.
  - destruct Hk as [Hf Hg].
    destruct (dent_exists s f B Hf) as [phi Df]. destruct (dent_exists s g B Hg) as [psi Dg].
    destruct (td_apply_bin_ok gt C cget cadd Hlossy op fuel s c f g phi psi B O Df Dg ltac:(lia))
      as [s' [c' [r [E [B' [X [O' [D' _]]]]]]]].
    exists s', c', r. repeat (split; [assumption|]). split; [apply (proj1 D')|]. split.
    + intros a. exists (phi a), (psi a).
      split; [apply (proj2 Df a)|]. split; [apply (proj2 Dg a) | apply (proj2 D' a)].
    + intros av. rewrite (tfun_of_ext s s' r _ av B' X D'), (tfun_of_den s f phi Df),
        (tfun_of_den s g psi Dg). reflexivity.
  - destruct Hk as [Hf [Hg Hh]].
    destruct (dent_exists s f B Hf) as [phi Df]. destruct (dent_exists s g B Hg) as [psi Dg].
    destruct (dent_exists s h B Hh) as [theta Dh].
    destruct (td_apply_ite_ok gt C cget cadd Hlossy fuel s c f g h phi psi theta B O Df Dg Dh ltac:(lia))
      as [s' [c' [r [E [B' [X [O' [D' _]]]]]]]].
    exists s', c', r. repeat (split; [assumption|]). split; [apply (proj1 D')|]. split.
    + intros a. exists (phi a), (psi a), (theta a).
      split; [apply (proj2 Df a)|]. split; [apply (proj2 Dg a)|].
      split; [apply (proj2 Dh a) | apply (proj2 D' a)].
    + intros av. rewrite (tfun_of_ext s s' r _ av B' X D'), (tfun_of_den s f phi Df),
        (tfun_of_den s g psi Dg), (tfun_of_den s h theta Dh). reflexivity.
Qed.

(** the safe-run fact for the three entry points at once *)
Lemma trun_rs : forall cap fuel s c k,
  TdOK s -> TCacheOK cget s c -> tcall_ok s k -> S (nlevels s) <= fuel ->
  res_safe INVC extends Qref s (trun_c gt C cget cadd cap fuel s c k).
Proof.
  intros cap fuel s c k B O Hk Hfuel. destruct k as [f|op f g|f g h]; simpl in Hk |- *.
  - apply (td_apply_not_c_safe C cget cadd Hlossy); auto. lia.
  - destruct Hk. apply (td_apply_bin_c_safe gt C cget cadd Hlossy); auto. lia.
  - destruct Hk as [Hf [Hg Hh]]. apply (td_apply_ite_c_safe gt C cget cadd Hlossy); auto. lia.
Qed.

Lemma tfailed_of_state : forall cap s s' c', TdOK s ->
  failed_state C no_m2 cap 1 INVC extends s s' c' -> tfailed_ok cget cap s s' c'.
Proof.
  intros cap s s' c' B [[B' O'] [X [G F]]]. simpl in G, F. unfold no_m2 in *.
  split; [exact B'|]. split; [exact O'|]. split; [exact X|].
  split; [apply (extends_intact_t s s' B X)|]. lia.
Qed.

End Top.

(** ** The statements *)

(** *** never a wrong edge: a result is literally the result of the unbounded run *)
Theorem tdd_never_wrong : forall gt C cget cadd cap fuel s (c : C) k s' c' r,
  trun_c gt C cget cadd cap fuel s c k = GOk s' c' r ->
  trun_u gt C cget cadd fuel s c k = Some (s', c', r).
Proof.
  intros gt C cget cadd cap fuel s c k s' c' r E.
  apply (sim_never_wrong C no_m2 cap 1 ref _ _ _ _ _ _ (trun_sim gt C cget cadd cap fuel s c k) E).
Qed.

(** *** retry: when the table of the unbounded run fits, the bounded run
    succeeds with exactly that result *)
Theorem tdd_retry : forall gt C cget cadd cap fuel s (c : C) k su cu ru,
  trun_u gt C cget cadd fuel s c k = Some (su, cu, ru) -> node_count su <= cap ->
  trun_c gt C cget cadd cap fuel s c k = GOk su cu ru.
Proof.
  intros gt C cget cadd cap fuel s c k su cu ru E Hfit.
  pose proof (trun_sim gt C cget cadd cap fuel s c k) as M. rewrite E in M.
  destruct M as [_ [G F]]. simpl in G. apply F. simpl. unfold no_m2 in *. lia.
Qed.

(** *** monotone in the capacity *)
Theorem tdd_monotone : forall gt C cget cadd cap cap' fuel s (c : C) k s' c' r, cap <= cap' ->
  trun_c gt C cget cadd cap fuel s c k = GOk s' c' r ->
  trun_c gt C cget cadd cap' fuel s c k = GOk s' c' r.
Proof.
  intros gt C cget cadd cap cap' fuel s c k s' c' r Hle E.
  apply (sim_monotone C ref no_m2 cap 1 cap' 1 s _ _ _ s' c' r Hle (le_n 1)
           (trun_sim gt C cget cadd cap fuel s c k) (trun_sim gt C cget cadd cap' fuel s c k) E).
Qed.

(** *** a result is the fixed table applied to the operands, in a table in which
    everything that existed before is intact *)
Theorem tdd_never_wrong_sem : forall gt C cget cadd, lossy cget cadd ->
  forall cap fuel s (c : C) k s' c' r,
  TdOK s -> TCacheOK cget s c -> tcall_ok s k -> S (nlevels s) <= fuel ->
  trun_c gt C cget cadd cap fuel s c k = GOk s' c' r ->
  TdOK s' /\ TCacheOK cget s' c' /\ intact_t s s' /\ ref_ok s' r /\ tcall_spec s k s' r.
Proof.
  intros gt C cget cadd Hlossy cap fuel s c k s' c' r B O Hk Hfuel E.
  apply tdd_never_wrong in E.
  destruct (trun_u_ok gt C cget cadd Hlossy fuel s c k B O Hk Hfuel)
    as [s1 [c1 [r1 [E1 [B1 [X1 [O1 [R1 V1]]]]]]]].
  rewrite E in E1. inversion E1; subst s1 c1 r1.
  split; [exact B1|]. split; [exact O1|]. split; [apply (extends_intact_t s s' B X1)|]. auto.
Qed.

(** *** the state after a failure *)
Theorem tdd_safe : forall gt C cget cadd, lossy cget cadd ->
  forall cap fuel s (c : C) k s' c',
  TdOK s -> TCacheOK cget s c -> tcall_ok s k -> S (nlevels s) <= fuel ->
  trun_c gt C cget cadd cap fuel s c k = GOom s' c' ->
  TdOK s' /\ TCacheOK cget s' c' /\ extends s s' /\ intact_t s s' /\
  node_count s <= node_count s' /\ cap <= node_count s'.
Proof.
  intros gt C cget cadd Hlossy cap fuel s c k s' c' B O Hk Hfuel E.
  pose proof (trun_rs gt C cget cadd Hlossy cap fuel s c k B O Hk Hfuel) as S.
  pose proof (trun_sim gt C cget cadd cap fuel s c k) as M.
  rewrite E in S, M. apply (tfailed_of_state C cget cap s s' c' B).
  apply (failed_intro C no_m2 cap 1 (TInvC C cget) extends ref Qref s s' c' _ S M).
Qed.

(** *** what "intact" means for the owner of a handle *)
Theorem tdd_intact_meaning : forall s s', intact_t s s' ->
  s_handles s' = s_handles s /\
  s_v2l s' = s_v2l s /\ s_l2v s' = s_l2v s /\ s_terms s' = s_terms s /\
  (forall id nd, find_node s id = Some nd -> find_node s' id = Some nd) /\
  (forall r, ref_ok s r -> ref_ok s' r /\ forall k c0, semk s' k r c0 = semk s k r c0) /\
  (forall r, ref_ok s r -> forall av, tfun_of s' r av = tfun_of s r av) /\
  (forall h, In h (s_handles s) -> forall c0, sem_edge s' (snd h) c0 = sem_edge s (snd h) c0) /\
  (forall id, find_node s id = None -> ~ reachable s' (handle_refs s') (RN id)) /\
  (forall r, reachable s' (handle_refs s') r <-> reachable s (handle_refs s) r).
Proof. exact intact_t_elim. Qed.

(** *** no panic, no divergence *)
Theorem tdd_no_panic : forall gt C cget cadd, lossy cget cadd ->
  forall cap fuel s (c : C) k,
  TdOK s -> TCacheOK cget s c -> tcall_ok s k -> S (nlevels s) <= fuel ->
  trun_c gt C cget cadd cap fuel s c k <> GStuck.
Proof.
  intros gt C cget cadd Hlossy cap fuel s c k B O Hk Hfuel E.
  pose proof (trun_rs gt C cget cadd Hlossy cap fuel s c k B O Hk Hfuel) as S. rewrite E in S. exact S.
Qed.

(** *** exactness: the bounded run delivers the result of the unbounded run
    exactly when its table fits, and fails - leaving a safe table, store full -
    otherwise *)
Theorem tdd_exact : forall gt C cget cadd, lossy cget cadd ->
  forall cap fuel s (c : C) k,
  TdOK s -> TCacheOK cget s c -> tcall_ok s k -> S (nlevels s) <= fuel ->
  exists su cu ru, trun_u gt C cget cadd fuel s c k = Some (su, cu, ru) /\
    tcall_spec s k su ru /\
    (node_count su <= Nat.max cap (node_count s) ->
       trun_c gt C cget cadd cap fuel s c k = GOk su cu ru) /\
    (Nat.max cap (node_count s) < node_count su ->
       exists s' c', trun_c gt C cget cadd cap fuel s c k = GOom s' c' /\
         TdOK s' /\ TCacheOK cget s' c' /\ extends s s' /\ intact_t s s' /\
         node_count s <= node_count s' /\ cap <= node_count s').
Proof.
  intros gt C cget cadd Hlossy cap fuel s c k B O Hk Hfuel.
  destruct (trun_u_ok gt C cget cadd Hlossy fuel s c k B O Hk Hfuel)
    as [su [cu [ru [Eu [_ [_ [_ [_ V]]]]]]]].
  exists su, cu, ru. split; [exact Eu|]. split; [exact V|].
  pose proof (trun_rs gt C cget cadd Hlossy cap fuel s c k B O Hk Hfuel) as S.
  pose proof (trun_sim gt C cget cadd cap fuel s c k) as M. rewrite Eu in M.
  destruct (exact_intro C no_m2 cap 1 (TInvC C cget) extends ref Qref s _ su cu ru S M) as [A1 A2].
  destruct M as [_ F]. simpl in F. destruct F as [G _]. unfold no_m2 in *. split.
  - intros Hfit. apply A1. simpl. unfold no_m2. lia.
  - intros Hbig. destruct (A2 (or_introl Hbig)) as [s' [c' [E Fs]]].
    exists s', c'. split; [exact E | apply (tfailed_of_state C cget cap s s' c' B Fs)].
Qed.

(** ** Variable creation: one insertion.  On failure no table is returned: the
    manager is untouched. *)

Theorem tdd_var_exact : forall cap s v, TdOK s -> v < nlevels s ->
  exists s' r, td_var s v = Some (s', r) /\ TdOK s' /\ extends s s' /\ intact_t s s' /\ ref_ok s' r /\
    (forall av, tfun_of s' r av = av v) /\
    (node_count s' <= Nat.max cap (node_count s) -> td_var_cap cap s v = Some (Some (s', r))) /\
    (Nat.max cap (node_count s) < node_count s' ->
       td_var_cap cap s v = Some None /\ cap <= node_count s).
Proof.
  intros cap s v B Hv.
  destruct (td_var_tfun s v B Hv) as [s' [r [Ev [B' [X [R V]]]]]].
  exists s', r. split; [exact Ev|]. split; [exact B'|]. split; [exact X|].
  split; [apply (extends_intact_t s s' B X)|]. split; [exact R|]. split; [exact V|].
  pose proof (td_var_cap_sim cap s v) as M. rewrite Ev in M.
  destruct M as [o [Eo [G L]]]. simpl in G, L. unfold no_m2 in *. split.
  - intros Hfit. destruct o as [x|]; [destruct L as [-> _]; exact Eo|].
    exfalso. destruct L as [_ N]. apply N. lia.
  - intros Hbig. destruct o as [x|]; [exfalso; destruct L as [_ W]; lia|].
    split; [exact Eo|]. destruct L as [[F|F] _]; lia.
Qed.

Theorem tdd_var_never_wrong : forall cap s v s' r,
  td_var_cap cap s v = Some (Some (s', r)) -> td_var s v = Some (s', r).
Proof.
  intros cap s v s' r E. pose proof (td_var_cap_sim cap s v) as M.
  destruct (td_var s v) as [u|]; [|congruence].
  destruct M as [o [Eo [_ L]]]. rewrite E in Eo. inversion Eo; subst o. destruct L as [-> _]. reflexivity.
Qed.

(** a variable that does not exist / a missing terminal: the code panics in
    both models alike; out of memory is never reported for it *)
Theorem tdd_var_stuck_iff : forall cap s v, td_var_cap cap s v = None <-> td_var s v = None.
Proof.
  intros cap s v. pose proof (td_var_cap_sim cap s v) as M.
  destruct (td_var s v) as [u|]; [|tauto].
  destruct M as [o [Eo _]]. rewrite Eo. split; discriminate.
Qed.

(** ** The instances the correspondence run evaluates (no cache, standard fuel):
    the hypotheses are the two checkers the driver evaluates on every snapshot *)

Lemma trun_nc_eq : forall cap s,
  (forall f, trun_nc cap s (TCNot f) = tnot_nc cap s f) /\
  (forall op f g, trun_nc cap s (TCBin op f g) = tbin_nc cap s op f g) /\
  (forall f g h, trun_nc cap s (TCIte f g h) = tite_nc cap s f g h).
Proof. intros. repeat split. Qed.

Theorem tdd_nc_exact : forall cap s k, td_ok_b s = true -> tcall_ok_b s k = true ->
  trun_nc cap s k <> GStuck /\
  exists su cu ru, trun_unc s k = Some (su, cu, ru) /\
    td_ok_b su = true /\ tcall_spec s k su ru /\
    (node_count su <= Nat.max cap (node_count s) -> trun_nc cap s k = GOk su cu ru) /\
    (Nat.max cap (node_count s) < node_count su ->
       exists s' c', trun_nc cap s k = GOom s' c' /\
         td_ok_b s' = true /\ extends s s' /\ intact_t s s' /\
         node_count s <= node_count s' /\ cap <= node_count s').
Proof.
  intros cap s k Hb Hk. apply td_ok_b_spec in Hb. apply tcall_ok_b_spec in Hk.
  split; [apply (tdd_no_panic gt_none unit nc_get nc_add nc_lossy cap _ s tt k Hb (tnc_ok s tt) Hk (le_n _))|].
  destruct (tdd_exact gt_none unit nc_get nc_add nc_lossy cap _ s tt k Hb (tnc_ok s tt) Hk (le_n _))
    as [su [cu [ru [E [V [A B]]]]]].
  exists su, cu, ru. split; [exact E|].
  destruct (trun_u_ok gt_none unit nc_get nc_add nc_lossy _ s tt k Hb (tnc_ok s tt) Hk (le_n _))
    as [s1 [c1 [r1 [E1 [B1 _]]]]].
  unfold trun_unc in E. rewrite E in E1. inversion E1; subst s1 c1 r1.
  split; [apply td_ok_b_spec; exact B1|]. split; [exact V|]. split; [exact A|].
  intros Hbig. destruct (B Hbig) as [s' [c' [E' [B' [_ [X' [I' [G' F']]]]]]]].
  exists s', c'. split; [exact E'|]. split; [apply td_ok_b_spec; exact B'|]. auto.
Qed.
