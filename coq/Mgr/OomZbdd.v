(** * The ZBDD apply algorithms on a node store of bounded capacity (C14y)

    Executable definitions only (proofs: Mgr/OomZbddProofs.v, Mgr/OomZbddSafe.v).
    The algorithms of DD/ZbddOps.v ([zapply] = [apply_union] / [apply_intsec] /
    [apply_diff], [zsingleton], [zmake_node]) and DD/ZbddBool.v ([zapply_not],
    [zsymm] = [apply_symm_diff], [zapply_ite], [zapply_op] = the eight operators
    of [BooleanFunction for ZBDDFunction]) once more, now in the error monad of
    the code ([AllocResult<Edge>], Mgr/OomGen.v), exactly as Mgr/Oom.v does for
    DD/Apply.v:

    - [zmk_node_cap] mirrors [reduce] / [reduce_borrowed] of
      oxidd-rules-zbdd/src/lib.rs: hi = Empty: no allocation, cannot fail;
      otherwise [LevelView::get_or_insert] = [get_or_insert_cap] of Mgr/Oom.v (a
      unique-table hit never fails, a NEW node fails with [OutOfMemory] iff
      [cap] nodes are stored);
    - the recursion patterns of oxidd-rules-zbdd/src/apply_rec.rs:
      one operand above the other: [let lo = apply_op(.., flo, g)?;
      reduce_borrowed(level, hi, lo)] ([gbind] + [gfin]: a plain [?], no
      recursor involved) or the tail call [apply_op(.., flo, g)];
      same level: [let (hi, lo) = rec.binary(apply_op, (fhi, ghi), (flo, glo))?;
      reduce(level, hi, lo)] ([gjoin2]: sequential recursor = return at the
      first failing [?]; parallel recursor = the sibling still runs and its edge
      is dropped); [apply_ite] additionally [rec.ternary] and
      [rec.binary_ternary(apply_intsec / apply_diff, .., apply_ite, ..)] (one
      [gjoin2] whose first branch is a different algorithm);
      every result [h] of the match is followed by [?], then the cache insertion;
    - [nand] / [nor] / [equiv]: [let x = op(..)?; not(x)] ([gbind]).

    [par n] = the recursor in use at remaining depth [n] as in Mgr/Oom.v.
    Reference counts are not part of the model; the tautology chain is looked up
    in the table as in DD/ZbddBool.v (it is never created by these algorithms). *)

From Coq Require Import List NArith PArith Bool Arith FMapPositive.
From OxiVerif Require Import DD.Table DD.Sem DD.Build DD.Apply DD.FamSpec DD.ZbddOps DD.ZbddBool Mgr.Oom.
From OxiVerif Require Import Mgr.OomGen.
Import ListNotations.

(** [reduce] / [reduce_borrowed] of lib.rs; [None] = [Err(OutOfMemory)] *)
Definition zmk_node_cap (cap : nat) (s : snap) (lvl : nat) (hi lo : ref) : option (snap * ref) :=
  if is_empty_b s hi then Some (s, lo)
  else
    match get_or_insert_cap cap s lvl [E hi; E lo] with
    | Some (s', e) => Some (s', eref e)
    | None => None
    end.

Section Bounded.
(** the (unobservable) edge order, the cache, as in DD/ZbddOps.v *)
Variable gt : ref -> ref -> bool.
Variable C : Type.
Variable cget : C -> N -> list ref -> list nat -> option ref.
Variable cadd : C -> N -> list ref -> list nat -> ref -> C.
(** capacity of the inner-node store *)
Variable cap : nat.
(** recursor in use at remaining depth [n] *)
Variable par : nat -> bool.

Definition zres_c : Type := gres C ref.

(** [reduce(level, hi, lo)?] / [reduce_borrowed(level, hi, lo)?] with the cache [c1] unchanged *)
Definition zfin_c (s1 : snap) (c1 : C) (lvl : nat) (hi lo : ref) : zres_c :=
  gfin s1 c1 (zmk_node_cap cap s1 lvl hi lo) (fun _ => c1) (fun h => h).

(** [apply_union], [apply_intsec], [apply_diff] *)
Fixpoint zapply_c (fuel : nat) (s : snap) (c : C) (op : zop) (f g : ref) : zres_c :=
  match fuel with
  | O => GStuck
  | S n =>
    match zterminal s op f g with
    | ZTFail => GStuck
    | ZTDone r => GOk s c r
    | ZTGo =>
      let '(f, g) := if zcommutes op && gt f g then (g, f) else (f, g) in
      match cget c (zop_code op) [f; g] [] with
      | Some h => GOk s c h
      | None =>
        match zget s f, zget s g with
        | Some fnode, Some gnode =>
          let res :=
            match lcmp (vlevel fnode) (vlevel gnode) with
            | Lt =>
              match zkids fnode, vlevel fnode with
              | Some (fhi, flo), Some flevel =>
                match op with
                | ZUnion | ZDiff =>
                  (* let lo = apply_op(manager, rec, flo, g)?; reduce_borrowed(flevel, hi, lo) *)
                  gbind (zapply_c n s c op flo g) (fun s1 c1 lo => zfin_c s1 c1 flevel fhi lo)
                | ZIntsec => zapply_c n s c op flo g
                end
              | _, _ => GStuck
              end
            | Eq =>
              match zkids fnode, zkids gnode, vlevel fnode with
              | Some (fhi, flo), Some (ghi, glo), Some flevel =>
                (* let (hi, lo) = rec.binary(apply_op, (fhi, ghi), (flo, glo))?; reduce(flevel, hi, lo) *)
                gjoin2 (par n) (zapply_c n s c op fhi ghi) (fun s1 c1 => zapply_c n s1 c1 op flo glo)
                  (fun s2 c2 hi lo => zfin_c s2 c2 flevel hi lo)
              | _, _, _ => GStuck
              end
            | Gt =>
              match zkids gnode, vlevel gnode with
              | Some (ghi, glo), Some glevel =>
                match op with
                | ZUnion =>
                  gbind (zapply_c n s c op f glo) (fun s1 c1 lo => zfin_c s1 c1 glevel ghi lo)
                | ZIntsec | ZDiff => zapply_c n s c op f glo
                end
              | _, _ => GStuck
              end
            end in
          (* }?; apply_cache().add(..); Ok(h) *)
          gbind res (fun s' c' h => GOk s' (cadd c' (zop_code op) [f; g] [] h) h)
        | _, _ => GStuck
        end
      end
    end
  end.

(** [apply_not] = [apply_diff(tautology(0), f)] *)
Definition zapply_not_c (fuel : nat) (s : snap) (c : C) (f : ref) : zres_c :=
  match ztaut s 0 with
  | Some t => zapply_c fuel s c ZDiff t f
  | None => GStuck
  end.

(** [apply_symm_diff] *)
Fixpoint zsymm_c (fuel : nat) (s : snap) (c : C) (f g : ref) : zres_c :=
  match fuel with
  | O => GStuck
  | S n =>
    match zempty s with
    | None => GStuck
    | Some empty =>
      if ref_eqb f g then GOk s c empty
      else if ref_eqb f empty then GOk s c g
      else if ref_eqb g empty then GOk s c f
      else
        let '(f, g) := if gt f g then (g, f) else (f, g) in
        match cget c zcode_symm [f; g] [] with
        | Some h => GOk s c h
        | None =>
          match zget s f, zget s g with
          | Some fnode, Some gnode =>
            let res :=
              match lcmp (vlevel fnode) (vlevel gnode) with
              | Lt =>
                match zkids fnode, vlevel fnode with
                | Some (fhi, flo), Some flevel =>
                  gbind (zsymm_c n s c flo g) (fun s1 c1 lo => zfin_c s1 c1 flevel fhi lo)
                | _, _ => GStuck
                end
              | Eq =>
                match zkids fnode, zkids gnode, vlevel fnode with
                | Some (fhi, flo), Some (ghi, glo), Some flevel =>
                  gjoin2 (par n) (zsymm_c n s c fhi ghi) (fun s1 c1 => zsymm_c n s1 c1 flo glo)
                    (fun s2 c2 hi lo => zfin_c s2 c2 flevel hi lo)
                | _, _, _ => GStuck
                end
              | Gt =>
                match zkids gnode, vlevel gnode with
                | Some (ghi, glo), Some glevel =>
                  gbind (zsymm_c n s c f glo) (fun s1 c1 lo => zfin_c s1 c1 glevel ghi lo)
                | _, _ => GStuck
                end
              end in
            gbind res (fun s' c' h => GOk s' (cadd c' zcode_symm [f; g] [] h) h)
          | _, _ => GStuck
          end
        end
    end
  end.

(** [apply_ite]; the nested calls of [apply_union] / [apply_intsec] /
    [apply_diff] get the fuel of the enclosing call as in DD/ZbddBool.v *)
Fixpoint zapply_ite_c (fuel : nat) (s : snap) (c : C) (f g h : ref) : zres_c :=
  match fuel with
  | O => GStuck
  | S n =>
    if ref_eqb g h then GOk s c g
    else if ref_eqb f g then zapply_c fuel s c ZUnion f h
    else if ref_eqb f h then zapply_c fuel s c ZIntsec f g
    else
      match zget s f with
      | None => GStuck
      | Some fnode =>
        if is_empty_b s f then GOk s c h
        else
          match zget s g with
          | None => GStuck
          | Some gnode =>
            if is_empty_b s g then zapply_c fuel s c ZDiff h f
            else
              match zget s h with
              | None => GStuck
              | Some hnode =>
                if is_empty_b s h then zapply_c fuel s c ZIntsec f g
                else
                  let flevel := vlevel fnode in
                  let glevel := vlevel gnode in
                  let hlevel := vlevel hnode in
                  let ghlevel := lmin glevel hlevel in
                  let level := lmin flevel ghlevel in
                  match ztaut_opt s level with
                  | None => GStuck
                  | Some taut =>
                    if ref_eqb f taut then GOk s c g
                    else if ref_eqb g taut then zapply_c fuel s c ZUnion f h
                    else
                      match cget c zcode_ite [f; g; h] [] with
                      | Some r => GOk s c r
                      | None =>
                        let res :=
                          match lcmp flevel ghlevel with
                          | Gt =>
                            match lcmp glevel hlevel with
                            | Lt =>
                              match zkids gnode with
                              | Some (_, glo) => zapply_ite_c n s c f glo h
                              | None => GStuck
                              end
                            | cmp =>
                              match zkids hnode, level with
                              | Some (hhi, hlo), Some lv =>
                                let g' :=
                                  match cmp with
                                  | Eq => match zkids gnode with Some (_, glo) => Some glo | None => None end
                                  | _ => Some g
                                  end in
                                match g' with
                                | None => GStuck
                                | Some g' =>
                                  (* let lo = apply_ite(.., f, g, hlo)?; reduce_borrowed(level, hi, lo) *)
                                  gbind (zapply_ite_c n s c f g' hlo) (fun s1 c1 lo => zfin_c s1 c1 lv hhi lo)
                                end
                              | _, _ => GStuck
                              end
                            end
                          | Lt =>
                            match zkids fnode with
                            | Some (_, flo) => zapply_ite_c n s c flo g h
                            | None => GStuck
                            end
                          | Eq =>
                            match zkids fnode, level with
                            | Some (fhi, flo), Some lv =>
                              (* let (hi, lo) = if .. { rec.binary_ternary(..) } else if .. { rec.binary_ternary(..) }
                                 else { rec.ternary(..) }?; reduce(level, hi, lo) *)
                              let fin := fun s2 c2 hi lo => zfin_c s2 c2 lv hi lo in
                              match lcmp hlevel flevel with
                              | Gt =>
                                match zkids gnode with
                                | Some (ghi, glo) =>
                                  gjoin2 (par n) (zapply_c fuel s c ZIntsec fhi ghi)
                                         (fun s1 c1 => zapply_ite_c n s1 c1 flo glo h) fin
                                | None => GStuck
                                end
                              | _ =>
                                match lcmp glevel flevel with
                                | Gt =>
                                  match zkids hnode with
                                  | Some (hhi, hlo) =>
                                    gjoin2 (par n) (zapply_c fuel s c ZDiff hhi fhi)
                                           (fun s1 c1 => zapply_ite_c n s1 c1 flo g hlo) fin
                                  | None => GStuck
                                  end
                                | _ =>
                                  match zkids gnode, zkids hnode with
                                  | Some (ghi, glo), Some (hhi, hlo) =>
                                    gjoin2 (par n) (zapply_ite_c n s c fhi ghi hhi)
                                           (fun s1 c1 => zapply_ite_c n s1 c1 flo glo hlo) fin
                                  | _, _ => GStuck
                                  end
                                end
                              end
                            | _, _ => GStuck
                            end
                          end in
                        gbind res (fun s' c' r => GOk s' (cadd c' zcode_ite [f; g; h] [] r) r)
                      end
                  end
              end
          end
      end
  end.

(** the entry points of [BooleanFunction for ZBDDFunction] *)
Definition zapply_op_c (fuel : nat) (s : snap) (c : C) (op : bop) (f g : ref) : zres_c :=
  match op with
  | OAnd => zapply_c fuel s c ZIntsec f g
  | OOr => zapply_c fuel s c ZUnion f g
  | ONand => gbind (zapply_c fuel s c ZIntsec f g) (fun s1 c1 r => zapply_not_c fuel s1 c1 r)
  | ONor => gbind (zapply_c fuel s c ZUnion f g) (fun s1 c1 r => zapply_not_c fuel s1 c1 r)
  | OXor => zsymm_c fuel s c f g
  | OEquiv => gbind (zsymm_c fuel s c f g) (fun s1 c1 r => zapply_not_c fuel s1 c1 r)
  | OImp =>
    match ztaut s 0 with
    | Some t => zapply_ite_c fuel s c f g t
    | None => GStuck
    end
  | OImpStrict => zapply_c fuel s c ZDiff g f
  end.

End Bounded.

(** [singleton_edge]: [get_or_insert] directly; the outer [None] = an [unwrap]
    panics, the inner [None] = [Err(OutOfMemory)] (the manager is untouched) *)
Definition zsingleton_cap (cap : nat) (s : snap) (var : nat) : option (option (snap * ref)) :=
  match zbase s, zempty s, nth_error (s_v2l s) var with
  | Some hi, Some lo, Some lvl =>
    match get_or_insert_cap cap s lvl [E hi; E lo] with
    | Some (s', e) => Some (Some (s', eref e))
    | None => Some None
    end
  | _, _, _ => None
  end.

(** [make_node] *)
Definition zmake_node_cap (cap : nat) (s : snap) (var hi lo : ref) : option (option (snap * ref)) :=
  match zget s var with
  | Some (ZI nd) => Some (zmk_node_cap cap s (nstored nd) hi lo)
  | _ => None
  end.

(** ** The instances the correspondence run evaluates on snapshots of the real
    manager: no apply cache, standard fuel *)

Definition zgt_none : ref -> ref -> bool := fun _ _ => false.

Definition zset_nc (cap : nat) (p : bool) (s : snap) (op : zop) (f g : ref) : gres unit ref :=
  zapply_c zgt_none unit znc_get znc_add cap (fun _ => p) (S (nlevels s)) s tt op f g.
Definition znot_nc (cap : nat) (p : bool) (s : snap) (f : ref) : gres unit ref :=
  zapply_not_c zgt_none unit znc_get znc_add cap (fun _ => p) (S (nlevels s)) s tt f.
Definition zop_nc (cap : nat) (p : bool) (s : snap) (op : bop) (f g : ref) : gres unit ref :=
  zapply_op_c zgt_none unit znc_get znc_add cap (fun _ => p) (S (nlevels s)) s tt op f g.
Definition zite_nc (cap : nat) (p : bool) (s : snap) (f g h : ref) : gres unit ref :=
  zapply_ite_c zgt_none unit znc_get znc_add cap (fun _ => p) (S (nlevels s)) s tt f g h.
