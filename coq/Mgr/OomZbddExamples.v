(** * The hypotheses of the C14 theorems for ZBDDs are satisfiable and every outcome occurs

    The four-level table [ex_z4] of DD/ZbddExamples.v (7 nodes: the tautology
    chain 4, 5, 6, 7 and the family nodes 1, 2, 3; handle = node 3) satisfies
    [ZbddOK] and [ZChainOK]; on it the bounded algorithms of Mgr/OomZbdd.v really
    return out-of-memory for small capacities - with garbage left behind - and
    the result for larger ones; the two recursors differ in what they leave in
    the cache. *)

From Coq Require Import List NArith PArith Bool Arith Lia FMapPositive.
From OxiVerif Require Import DD.Table DD.TableProofs DD.Sem DD.Build DD.BuildProofs DD.Apply
  DD.FamSpec DD.ZbddOps DD.ZbddOpsProofs DD.ZbddSoundProofs DD.ZbddExamples DD.ZbddBool DD.ZbddBoolProofs DD.ZbddBoolExamples
  Mgr.Oom.
From OxiVerif Require Import Mgr.OomGen Mgr.OomGenProofs Mgr.OomZbdd Mgr.OomZbddProofs Mgr.OomZbddSafe
  Mgr.OomZbddThms.
Import ListNotations.

Example ex_z4_state : ZbddOK ex_z4 /\ ZChainOK ex_z4 /\ ZCacheOKB unit znc_get ex_z4 tt /\
  ZCacheOKB zacache zac_get ex_z4 [] /\ node_count ex_z4 = 7.
Proof.
  split; [apply ex_z4_ok|]. split; [apply ex_z4_chain|]. split; [apply znc_okB|].
  split; [apply zac_empty_okB | vm_compute; reflexivity].
Qed.

Example ex_z4_refs_ok : forall i, In i [1; 2; 3; 4; 5; 6; 7]%positive -> ref_ok ex_z4 (RN i).
Proof.
  intros i Hi. simpl in Hi.
  repeat (destruct Hi as [<-|Hi]; [eexists; vm_compute; reflexivity|]). destruct Hi.
Qed.

(** outcome code (0 = result, 1 = out of memory, 2 = stuck), stored nodes afterwards, result *)
Definition zout {C} (r : gres C ref) := (gres_code r, option_map node_count (gres_snap r), gres_val r).

(** not (node 3) = taut(0) \ node 3 needs six new nodes: every smaller number of
    free slots fails after having created that many nodes *)
Example ex_z4_not_c : forall p,
  map (fun cap => zout (znot_nc cap p ex_z4 (RN 3))) [0; 7; 8; 9; 10; 11; 12; 13; 14] =
  [(1, Some 7, None); (1, Some 7, None); (1, Some 8, None); (1, Some 9, None); (1, Some 10, None);
   (1, Some 11, None); (1, Some 12, None); (0, Some 13, Some (RN 13)); (0, Some 13, Some (RN 13))].
Proof. intros []; vm_compute; reflexivity. Qed.

(** xor (symmetric difference, five nodes), imp (= ite(f, g, taut(0)), four nodes),
    equiv (= not after xor: seven nodes; failures in the second phase keep the
    nodes of the first) *)
Example ex_z4_ops_c : forall p,
  map (fun cap => zout (zop_nc cap p ex_z4 OXor (RN 3) (RN 6))) [7; 8; 11; 12] =
    [(1, Some 7, None); (1, Some 8, None); (1, Some 11, None); (0, Some 12, Some (RN 12))] /\
  map (fun cap => zout (zop_nc cap p ex_z4 OImp (RN 3) (RN 2))) [7; 8; 10; 11] =
    [(1, Some 7, None); (1, Some 8, None); (1, Some 10, None); (0, Some 11, Some (RN 11))] /\
  map (fun cap => zout (zop_nc cap p ex_z4 OEquiv (RN 3) (RN 6))) [7; 12; 13; 14] =
    [(1, Some 7, None); (1, Some 12, None); (1, Some 13, None); (0, Some 14, Some (RN 14))].
Proof. intros []; vm_compute; repeat split; reflexivity. Qed.

(** set difference taut(0) \ node 1; a union whose result exists needs no slot;
    ite(node 3, taut(1), node 2) = node 2 likewise *)
Example ex_z4_set_c : forall p,
  map (fun cap => zout (zset_nc cap p ex_z4 ZDiff (RN 7) (RN 1))) [0; 7; 8; 10; 11] =
    [(1, Some 7, None); (1, Some 7, None); (1, Some 8, None); (1, Some 10, None); (0, Some 11, Some (RN 11))] /\
  zout (zset_nc 0 p ex_z4 ZUnion (RN 3) (RN 1)) = (0, Some 7, Some (RN 3)) /\
  zout (zite_nc 0 p ex_z4 (RN 3) (RN 6) (RN 2)) = (0, Some 7, Some (RN 2)).
Proof. intros []; vm_compute; repeat split; reflexivity. Qed.

(** the nodes left behind by the failed negation with capacity 10 are not
    referenced by the handle, every old node is unchanged, the table is still a
    well-formed ZBDD table with its tautology chain *)
Example ex_z4_not_garbage :
  match znot_nc 10 false ex_z4 (RN 3) with
  | GOom s' _ =>
      s_handles s' = s_handles ex_z4 /\ zbdd_ok_b s' = true /\ zchain_ok_b s' = true /\ node_count s' = 10 /\
      forallb (fun p => match find_node s' (fst p) with
                        | Some nd => same_node nd (snd p) | None => false end)
              (PositiveMap.elements (s_nodes ex_z4)) = true
  | _ => False
  end.
Proof. vm_compute. repeat split; reflexivity. Qed.

(** [singleton_edge]: variable 3 (level 3) has no node {3} yet; variable 1 (level 2) has (node 1) *)
Example ex_z4_singleton :
  zsingleton_cap 7 ex_z4 3 = Some None /\
  (match zsingleton_cap 8 ex_z4 3 with Some (Some (s', r)) => Some (node_count s', r) | _ => None end) = Some (8, RN 8) /\
  (match zsingleton_cap 0 ex_z4 1 with Some (Some (s', r)) => Some (node_count s', r) | _ => None end) = Some (7, RN 1).
Proof. vm_compute. repeat split; reflexivity. Qed.

(** the sequential recursor stops at the first failing branch, the parallel one
    still runs the sibling: node 3 -> node 2 with a full store fails in the first
    branch of [binary_ternary]; under the parallel recursor the ite branch has run
    and left the entries of its (node-free) unions in the cache of the failed run *)
Definition zcache_of (r : gres zacache ref) : option zacache :=
  match r with GOk _ c _ | GOom _ c => Some c | GStuck => None end.

Example ex_z4_recursors :
  let run p := zapply_op_c zgt_id zacache zac_get zac_add 7 (fun _ => p) 5 ex_z4 [] OImp (RN 3) (RN 2) in
  (gres_code (run false), zcache_of (run false)) = (1, Some []) /\
  (gres_code (run true), option_map (@length _) (zcache_of (run true))) = (1, Some 4).
Proof. vm_compute. split; reflexivity. Qed.

(** the instance of the theorems: whatever the capacity and the recursor, the run
    on [ex_z4] is exactly "result iff it fits" *)
Example ex_z4_exact : forall cap p,
  exists su cu ru, zapply_not zgt_none unit znc_get znc_add 5 ex_z4 tt (RN 3) = Some (su, cu, ru) /\
    node_count su = 13 /\
    zexact unit znc_get cap ex_z4 (znot_nc cap p ex_z4 (RN 3)) su cu ru.
Proof.
  intros cap p.
  destruct (zoom_exact_not zgt_none unit znc_get znc_add znc_lossy cap (fun _ => p) 5 ex_z4 tt (RN 3))
    as [su [cu [ru [E [_ X]]]]].
  - apply ex_z4_ok.
  - apply ex_z4_chain.
  - apply znc_okB.
  - apply ex_z4_refs_ok. simpl. tauto.
  - vm_compute. lia.
  - exists su, cu, ru. split; [exact E|]. split; [|exact X].
    vm_compute in E. inversion E; subst su. vm_compute. reflexivity.
Qed.

(** ... hence: out-of-memory exactly below 13 slots, with the manager intact *)
Example ex_z4_exact_consequence : forall cap p,
  (13 <= cap -> gres_code (znot_nc cap p ex_z4 (RN 3)) = 0) /\
  (cap < 13 -> exists s' c', znot_nc cap p ex_z4 (RN 3) = GOom s' c' /\
                 zfailed_ok unit znc_get cap ex_z4 s' c').
Proof.
  intros cap p. destruct (ex_z4_exact cap p) as [su [cu [ru [_ [Hn [A B]]]]]].
  assert (Hc : node_count ex_z4 = 7) by (vm_compute; reflexivity). split.
  - intros Hcap. rewrite A by lia. reflexivity.
  - intros Hcap. apply B. lia.
Qed.
