(** * Out-of-memory behaviour of the ZBDD apply algorithms (Mgr/OomZbdd.v), part 1

    Facts that need no invariant (every table, cache, fuel, capacity, recursor,
    operand order): [z*_sim] - when the bounded algorithm returns [GOk s' c' r]
    the unbounded algorithm of DD/ZbddOps.v / DD/ZbddBool.v returns literally
    [Some (s', c', r)] and at most [cap] nodes are stored unless nothing was
    inserted; when it returns [GOom s' c'] no node has disappeared and the store
    is full; when the unbounded algorithm returns a table that fits, the bounded
    one returns exactly that result.  The invariant-dependent part is in
    Mgr/OomZbddSafe.v. *)

From Coq Require Import List NArith PArith Bool Arith Lia FMapPositive.
From OxiVerif Require Import DD.Table DD.TableProofs DD.Sem DD.Build DD.BuildProofs
  DD.Apply DD.FamSpec DD.ZbddOps DD.ZbddBool Mgr.Oom Mgr.OomProofs.
From OxiVerif Require Import Mgr.OomGen Mgr.OomGenProofs Mgr.OomBcddProofs Mgr.OomZbdd.
Import ListNotations.

(** two recursive results as a pair of edges, then [reduce] (the shape of the
    [Eq] arm of [zapply_ite]) *)
Definition ujoin2p {C : Type} (u1 : option (snap * C * ref)) (urun2 : snap -> C -> option (snap * C * ref))
  : option (snap * C * ref * ref) :=
  match u1 with
  | None => None
  | Some (s1, c1, hi) =>
    match urun2 s1 c1 with
    | None => None
    | Some (s2, c2, lo) => Some (s2, c2, hi, lo)
    end
  end.

Definition upair_fin {C R : Type} (x : option (snap * C * ref * ref))
  (k : snap -> C -> ref -> ref -> option (snap * C * R)) : option (snap * C * R) :=
  match x with
  | None => None
  | Some (s2, c2, hi, lo) => k s2 c2 hi lo
  end.

Lemma upair_fuse : forall C R (u1 : option (snap * C * ref)) urun2 (k : snap -> C -> ref -> ref -> option (snap * C * R)),
  upair_fin (ujoin2p u1 urun2) k = ujoin2 u1 urun2 k.
Proof.
  intros C R u1 urun2 k. unfold upair_fin, ujoin2p, ujoin2.
  destruct u1 as [[[s1 c1] hi]|]; [|reflexivity].
  destruct (urun2 s1 c1) as [[[s2 c2] lo]|]; reflexivity.
Qed.

Section Sim.
Variable gt : ref -> ref -> bool.
Variable C : Type.
Variable cget : C -> N -> list ref -> list nat -> option ref.
Variable cadd : C -> N -> list ref -> list nat -> ref -> C.
Variable cap : nat.
Variable par : nat -> bool.

Notation SIM := (sim C no_m2 cap 1).

Lemma zmk_node_leaf : forall s lvl hi lo,
  leaf_rel no_m2 cap 1 s (zmk_node_cap cap s lvl hi lo) (zmk_node s lvl hi lo).
Proof.
  intros s lvl hi lo. unfold zmk_node_cap, zmk_node.
  destruct (is_empty_b s hi); [apply leaf_same|].
  apply (leaf_map no_m2 cap 1 edge ref s _ _ (fun e => eref e)).
  apply goi_leaf. exact no_m2_terms.
Qed.

(** the unbounded counterpart of [zfin_c] *)
Definition zufin (s1 : snap) (c1 : C) (lvl : nat) (hi lo : ref) : option (snap * C * ref) :=
  ufin (zmk_node s1 lvl hi lo) (fun _ => c1) (fun h => h).

Lemma zfin_sim : forall s1 c1 lvl hi lo, SIM s1 (zfin_c C cap s1 c1 lvl hi lo) (zufin s1 c1 lvl hi lo).
Proof. intros. apply gfin_sim. apply zmk_node_leaf. Qed.

(** ** Unfolding lemmas *)

Lemma zapply_U : forall n s c op f g,
  zapply gt C cget cadd (S n) s c op f g =
    match zterminal s op f g with
    | ZTFail => None
    | ZTDone r => Some (s, c, r)
    | ZTGo =>
      let '(f, g) := if zcommutes op && gt f g then (g, f) else (f, g) in
      match cget c (zop_code op) [f; g] [] with
      | Some h => Some (s, c, h)
      | None =>
        match zget s f, zget s g with
        | Some fnode, Some gnode =>
          let res :=
            match lcmp (vlevel fnode) (vlevel gnode) with
            | Lt =>
              match zkids fnode, vlevel fnode with
              | Some (fhi, flo), Some flevel =>
                match op with
                | ZUnion | ZDiff =>
                  ubind (zapply gt C cget cadd n s c op flo g) (fun s1 c1 lo => zufin s1 c1 flevel fhi lo)
                | ZIntsec => zapply gt C cget cadd n s c op flo g
                end
              | _, _ => None
              end
            | Eq =>
              match zkids fnode, zkids gnode, vlevel fnode with
              | Some (fhi, flo), Some (ghi, glo), Some flevel =>
                ujoin2 (zapply gt C cget cadd n s c op fhi ghi) (fun s1 c1 => zapply gt C cget cadd n s1 c1 op flo glo)
                  (fun s2 c2 hi lo => zufin s2 c2 flevel hi lo)
              | _, _, _ => None
              end
            | Gt =>
              match zkids gnode, vlevel gnode with
              | Some (ghi, glo), Some glevel =>
                match op with
                | ZUnion =>
                  ubind (zapply gt C cget cadd n s c op f glo) (fun s1 c1 lo => zufin s1 c1 glevel ghi lo)
                | ZIntsec | ZDiff => zapply gt C cget cadd n s c op f glo
                end
              | _, _ => None
              end
            end in
          ubind res (fun s' c' h => Some (s', cadd c' (zop_code op) [f; g] [] h, h))
        | _, _ => None
        end
      end
    end.
Proof. reflexivity. Qed.

Lemma zapply_c_S : forall n s c op f g,
  zapply_c gt C cget cadd cap par (S n) s c op f g =
    match zterminal s op f g with
    | ZTFail => GStuck
    | ZTDone r => GOk s c r
    | ZTGo =>
      let '(f, g) := if zcommutes op && gt f g then (g, f) else (f, g) in
      match cget c (zop_code op) [f; g] [] with
      | Some h => GOk s c h
      | None =>
        match zget s f, zget s g with
        | Some fnode, Some gnode =>
          let res :=
            match lcmp (vlevel fnode) (vlevel gnode) with
            | Lt =>
              match zkids fnode, vlevel fnode with
              | Some (fhi, flo), Some flevel =>
                match op with
                | ZUnion | ZDiff =>
                  gbind (zapply_c gt C cget cadd cap par n s c op flo g) (fun s1 c1 lo => zfin_c C cap s1 c1 flevel fhi lo)
                | ZIntsec => zapply_c gt C cget cadd cap par n s c op flo g
                end
              | _, _ => GStuck
              end
            | Eq =>
              match zkids fnode, zkids gnode, vlevel fnode with
              | Some (fhi, flo), Some (ghi, glo), Some flevel =>
                gjoin2 (par n) (zapply_c gt C cget cadd cap par n s c op fhi ghi)
                  (fun s1 c1 => zapply_c gt C cget cadd cap par n s1 c1 op flo glo)
                  (fun s2 c2 hi lo => zfin_c C cap s2 c2 flevel hi lo)
              | _, _, _ => GStuck
              end
            | Gt =>
              match zkids gnode, vlevel gnode with
              | Some (ghi, glo), Some glevel =>
                match op with
                | ZUnion =>
                  gbind (zapply_c gt C cget cadd cap par n s c op f glo) (fun s1 c1 lo => zfin_c C cap s1 c1 glevel ghi lo)
                | ZIntsec | ZDiff => zapply_c gt C cget cadd cap par n s c op f glo
                end
              | _, _ => GStuck
              end
            end in
          gbind res (fun s' c' h => GOk s' (cadd c' (zop_code op) [f; g] [] h) h)
        | _, _ => GStuck
        end
      end
    end.
Proof. reflexivity. Qed.

Lemma zsymm_U : forall n s c f g,
  zsymm gt C cget cadd (S n) s c f g =
    match zempty s with
    | None => None
    | Some empty =>
      if ref_eqb f g then Some (s, c, empty)
      else if ref_eqb f empty then Some (s, c, g)
      else if ref_eqb g empty then Some (s, c, f)
      else
        let '(f, g) := if gt f g then (g, f) else (f, g) in
        match cget c zcode_symm [f; g] [] with
        | Some h => Some (s, c, h)
        | None =>
          match zget s f, zget s g with
          | Some fnode, Some gnode =>
            let res :=
              match lcmp (vlevel fnode) (vlevel gnode) with
              | Lt =>
                match zkids fnode, vlevel fnode with
                | Some (fhi, flo), Some flevel =>
                  ubind (zsymm gt C cget cadd n s c flo g) (fun s1 c1 lo => zufin s1 c1 flevel fhi lo)
                | _, _ => None
                end
              | Eq =>
                match zkids fnode, zkids gnode, vlevel fnode with
                | Some (fhi, flo), Some (ghi, glo), Some flevel =>
                  ujoin2 (zsymm gt C cget cadd n s c fhi ghi) (fun s1 c1 => zsymm gt C cget cadd n s1 c1 flo glo)
                    (fun s2 c2 hi lo => zufin s2 c2 flevel hi lo)
                | _, _, _ => None
                end
              | Gt =>
                match zkids gnode, vlevel gnode with
                | Some (ghi, glo), Some glevel =>
                  ubind (zsymm gt C cget cadd n s c f glo) (fun s1 c1 lo => zufin s1 c1 glevel ghi lo)
                | _, _ => None
                end
              end in
            ubind res (fun s' c' h => Some (s', cadd c' zcode_symm [f; g] [] h, h))
          | _, _ => None
          end
        end
    end.
Proof. reflexivity. Qed.

Lemma zsymm_c_S : forall n s c f g,
  zsymm_c gt C cget cadd cap par (S n) s c f g =
    match zempty s with
    | None => GStuck
    | Some empty =>
      if ref_eqb f g then GOk s c empty
      else if ref_eqb f empty then GOk s c g
      else if ref_eqb g empty then GOk s c f
      else
        let '(f, g) := if gt f g then (g, f) else (f, g) in
        match cget c zcode_symm [f; g] [] with
        | Some h => GOk s c h
        | None =>
          match zget s f, zget s g with
          | Some fnode, Some gnode =>
            let res :=
              match lcmp (vlevel fnode) (vlevel gnode) with
              | Lt =>
                match zkids fnode, vlevel fnode with
                | Some (fhi, flo), Some flevel =>
                  gbind (zsymm_c gt C cget cadd cap par n s c flo g) (fun s1 c1 lo => zfin_c C cap s1 c1 flevel fhi lo)
                | _, _ => GStuck
                end
              | Eq =>
                match zkids fnode, zkids gnode, vlevel fnode with
                | Some (fhi, flo), Some (ghi, glo), Some flevel =>
                  gjoin2 (par n) (zsymm_c gt C cget cadd cap par n s c fhi ghi)
                    (fun s1 c1 => zsymm_c gt C cget cadd cap par n s1 c1 flo glo)
                    (fun s2 c2 hi lo => zfin_c C cap s2 c2 flevel hi lo)
                | _, _, _ => GStuck
                end
              | Gt =>
                match zkids gnode, vlevel gnode with
                | Some (ghi, glo), Some glevel =>
                  gbind (zsymm_c gt C cget cadd cap par n s c f glo) (fun s1 c1 lo => zfin_c C cap s1 c1 glevel ghi lo)
                | _, _ => GStuck
                end
              end in
            gbind res (fun s' c' h => GOk s' (cadd c' zcode_symm [f; g] [] h) h)
          | _, _ => GStuck
          end
        end
    end.
Proof. reflexivity. Qed.

(** the part of [apply_ite] after the terminal cases and the cache lookup *)
Definition zite_rec_u (ITE : snap -> C -> ref -> ref -> ref -> option (snap * C * ref))
    (APP : snap -> C -> zop -> ref -> ref -> option (snap * C * ref))
    (s : snap) (c : C) (f g h : ref) (fnode gnode hnode : zview) : option (snap * C * ref) :=
  let flevel := vlevel fnode in
  let glevel := vlevel gnode in
  let hlevel := vlevel hnode in
  let ghlevel := lmin glevel hlevel in
  let level := lmin flevel ghlevel in
  match lcmp flevel ghlevel with
  | Gt =>
    match lcmp glevel hlevel with
    | Lt =>
      match zkids gnode with
      | Some (_, glo) => ITE s c f glo h
      | None => None
      end
    | cmp =>
      match zkids hnode, level with
      | Some (hhi, hlo), Some lv =>
        let g' :=
          match cmp with
          | Eq => match zkids gnode with Some (_, glo) => Some glo | None => None end
          | _ => Some g
          end in
        match g' with
        | None => None
        | Some g' => ubind (ITE s c f g' hlo) (fun s1 c1 lo => zufin s1 c1 lv hhi lo)
        end
      | _, _ => None
      end
    end
  | Lt =>
    match zkids fnode with
    | Some (_, flo) => ITE s c flo g h
    | None => None
    end
  | Eq =>
    match zkids fnode, level with
    | Some (fhi, flo), Some lv =>
      upair_fin
        (match lcmp hlevel flevel with
         | Gt =>
           match zkids gnode with
           | Some (ghi, glo) => ujoin2p (APP s c ZIntsec fhi ghi) (fun s1 c1 => ITE s1 c1 flo glo h)
           | None => None
           end
         | _ =>
           match lcmp glevel flevel with
           | Gt =>
             match zkids hnode with
             | Some (hhi, hlo) => ujoin2p (APP s c ZDiff hhi fhi) (fun s1 c1 => ITE s1 c1 flo g hlo)
             | None => None
             end
           | _ =>
             match zkids gnode, zkids hnode with
             | Some (ghi, glo), Some (hhi, hlo) =>
               ujoin2p (ITE s c fhi ghi hhi) (fun s1 c1 => ITE s1 c1 flo glo hlo)
             | _, _ => None
             end
           end
         end)
        (fun s2 c2 hi lo => zufin s2 c2 lv hi lo)
    | _, _ => None
    end
  end.

Definition zite_rec_c (p : bool) (ITE : snap -> C -> ref -> ref -> ref -> zres_c C)
    (APP : snap -> C -> zop -> ref -> ref -> zres_c C)
    (s : snap) (c : C) (f g h : ref) (fnode gnode hnode : zview) : zres_c C :=
  let flevel := vlevel fnode in
  let glevel := vlevel gnode in
  let hlevel := vlevel hnode in
  let ghlevel := lmin glevel hlevel in
  let level := lmin flevel ghlevel in
  match lcmp flevel ghlevel with
  | Gt =>
    match lcmp glevel hlevel with
    | Lt =>
      match zkids gnode with
      | Some (_, glo) => ITE s c f glo h
      | None => GStuck
      end
    | cmp =>
      match zkids hnode, level with
      | Some (hhi, hlo), Some lv =>
        let g' :=
          match cmp with
          | Eq => match zkids gnode with Some (_, glo) => Some glo | None => None end
          | _ => Some g
          end in
        match g' with
        | None => GStuck
        | Some g' => gbind (ITE s c f g' hlo) (fun s1 c1 lo => zfin_c C cap s1 c1 lv hhi lo)
        end
      | _, _ => GStuck
      end
    end
  | Lt =>
    match zkids fnode with
    | Some (_, flo) => ITE s c flo g h
    | None => GStuck
    end
  | Eq =>
    match zkids fnode, level with
    | Some (fhi, flo), Some lv =>
      let fin := fun s2 c2 hi lo => zfin_c C cap s2 c2 lv hi lo in
      match lcmp hlevel flevel with
      | Gt =>
        match zkids gnode with
        | Some (ghi, glo) => gjoin2 p (APP s c ZIntsec fhi ghi) (fun s1 c1 => ITE s1 c1 flo glo h) fin
        | None => GStuck
        end
      | _ =>
        match lcmp glevel flevel with
        | Gt =>
          match zkids hnode with
          | Some (hhi, hlo) => gjoin2 p (APP s c ZDiff hhi fhi) (fun s1 c1 => ITE s1 c1 flo g hlo) fin
          | None => GStuck
          end
        | _ =>
          match zkids gnode, zkids hnode with
          | Some (ghi, glo), Some (hhi, hlo) =>
            gjoin2 p (ITE s c fhi ghi hhi) (fun s1 c1 => ITE s1 c1 flo glo hlo) fin
          | _, _ => GStuck
          end
        end
      end
    | _, _ => GStuck
    end
  end.

Lemma zapply_ite_U : forall n s c f g h,
  zapply_ite gt C cget cadd (S n) s c f g h =
    if ref_eqb g h then Some (s, c, g)
    else if ref_eqb f g then zapply gt C cget cadd (S n) s c ZUnion f h
    else if ref_eqb f h then zapply gt C cget cadd (S n) s c ZIntsec f g
    else
      match zget s f with
      | None => None
      | Some fnode =>
        if is_empty_b s f then Some (s, c, h)
        else
          match zget s g with
          | None => None
          | Some gnode =>
            if is_empty_b s g then zapply gt C cget cadd (S n) s c ZDiff h f
            else
              match zget s h with
              | None => None
              | Some hnode =>
                if is_empty_b s h then zapply gt C cget cadd (S n) s c ZIntsec f g
                else
                  match ztaut_opt s (lmin (vlevel fnode) (lmin (vlevel gnode) (vlevel hnode))) with
                  | None => None
                  | Some taut =>
                    if ref_eqb f taut then Some (s, c, g)
                    else if ref_eqb g taut then zapply gt C cget cadd (S n) s c ZUnion f h
                    else
                      match cget c zcode_ite [f; g; h] [] with
                      | Some r => Some (s, c, r)
                      | None =>
                        ubind (zite_rec_u (zapply_ite gt C cget cadd n) (zapply gt C cget cadd (S n))
                                 s c f g h fnode gnode hnode)
                              (fun s' c' r => Some (s', cadd c' zcode_ite [f; g; h] [] r, r))
                      end
                  end
              end
          end
      end.
Proof. reflexivity. Qed.

Lemma zapply_ite_c_S : forall n s c f g h,
  zapply_ite_c gt C cget cadd cap par (S n) s c f g h =
    if ref_eqb g h then GOk s c g
    else if ref_eqb f g then zapply_c gt C cget cadd cap par (S n) s c ZUnion f h
    else if ref_eqb f h then zapply_c gt C cget cadd cap par (S n) s c ZIntsec f g
    else
      match zget s f with
      | None => GStuck
      | Some fnode =>
        if is_empty_b s f then GOk s c h
        else
          match zget s g with
          | None => GStuck
          | Some gnode =>
            if is_empty_b s g then zapply_c gt C cget cadd cap par (S n) s c ZDiff h f
            else
              match zget s h with
              | None => GStuck
              | Some hnode =>
                if is_empty_b s h then zapply_c gt C cget cadd cap par (S n) s c ZIntsec f g
                else
                  match ztaut_opt s (lmin (vlevel fnode) (lmin (vlevel gnode) (vlevel hnode))) with
                  | None => GStuck
                  | Some taut =>
                    if ref_eqb f taut then GOk s c g
                    else if ref_eqb g taut then zapply_c gt C cget cadd cap par (S n) s c ZUnion f h
                    else
                      match cget c zcode_ite [f; g; h] [] with
                      | Some r => GOk s c r
                      | None =>
                        gbind (zite_rec_c (par n) (zapply_ite_c gt C cget cadd cap par n)
                                 (zapply_c gt C cget cadd cap par (S n)) s c f g h fnode gnode hnode)
                              (fun s' c' r => GOk s' (cadd c' zcode_ite [f; g; h] [] r) r)
                      end
                  end
              end
          end
      end.
Proof. reflexivity. Qed.

(** ** The walks *)

Theorem zapply_sim : forall fuel s c op f g,
  SIM s (zapply_c gt C cget cadd cap par fuel s c op f g) (zapply gt C cget cadd fuel s c op f g).
Proof.
  induction fuel as [|n IH]; intros s c op f g; [apply sim_stuck|].
  rewrite zapply_c_S, zapply_U.
  destruct (zterminal s op f g) as [|r|]; [apply sim_stuck | apply sim_here |].
  destruct (if zcommutes op && gt f g then (g, f) else (f, g)) as [f' g'].
  destruct (cget c (zop_code op) [f'; g'] []); [apply sim_here|].
  destruct (zget s f') as [fnode|]; [|apply sim_stuck].
  destruct (zget s g') as [gnode|]; [|apply sim_stuck].
  cbv zeta. apply gbind_sim; [|intros; apply sim_here].
  destruct (lcmp (vlevel fnode) (vlevel gnode)).
  - destruct (zkids fnode) as [[fhi flo]|]; [|apply sim_stuck].
    destruct (zkids gnode) as [[ghi glo]|]; [|apply sim_stuck].
    destruct (vlevel fnode) as [flevel|]; [|apply sim_stuck].
    apply gjoin2_sim; [apply IH | intros; apply IH | intros; apply zfin_sim].
  - destruct (zkids fnode) as [[fhi flo]|]; [|apply sim_stuck].
    destruct (vlevel fnode) as [flevel|]; [|apply sim_stuck].
    destruct op; [|apply IH|]; (apply gbind_sim; [apply IH | intros; apply zfin_sim]).
  - destruct (zkids gnode) as [[ghi glo]|]; [|apply sim_stuck].
    destruct (vlevel gnode) as [glevel|]; [|apply sim_stuck].
    destruct op; [|apply IH|apply IH]. apply gbind_sim; [apply IH | intros; apply zfin_sim].
Qed.

Theorem zapply_not_sim : forall fuel s c f,
  SIM s (zapply_not_c gt C cget cadd cap par fuel s c f) (zapply_not gt C cget cadd fuel s c f).
Proof.
  intros. unfold zapply_not_c, zapply_not. destruct (ztaut s 0); [apply zapply_sim | apply sim_stuck].
Qed.

Theorem zsymm_sim : forall fuel s c f g,
  SIM s (zsymm_c gt C cget cadd cap par fuel s c f g) (zsymm gt C cget cadd fuel s c f g).
Proof.
  induction fuel as [|n IH]; intros s c f g; [apply sim_stuck|].
  rewrite zsymm_c_S, zsymm_U.
  destruct (zempty s) as [empty|]; [|apply sim_stuck].
  destruct (ref_eqb f g); [apply sim_here|].
  destruct (ref_eqb f empty); [apply sim_here|].
  destruct (ref_eqb g empty); [apply sim_here|].
  destruct (if gt f g then (g, f) else (f, g)) as [f' g'].
  destruct (cget c zcode_symm [f'; g'] []); [apply sim_here|].
  destruct (zget s f') as [fnode|]; [|apply sim_stuck].
  destruct (zget s g') as [gnode|]; [|apply sim_stuck].
  cbv zeta. apply gbind_sim; [|intros; apply sim_here].
  destruct (lcmp (vlevel fnode) (vlevel gnode)).
  - destruct (zkids fnode) as [[fhi flo]|]; [|apply sim_stuck].
    destruct (zkids gnode) as [[ghi glo]|]; [|apply sim_stuck].
    destruct (vlevel fnode) as [flevel|]; [|apply sim_stuck].
    apply gjoin2_sim; [apply IH | intros; apply IH | intros; apply zfin_sim].
  - destruct (zkids fnode) as [[fhi flo]|]; [|apply sim_stuck].
    destruct (vlevel fnode) as [flevel|]; [|apply sim_stuck].
    apply gbind_sim; [apply IH | intros; apply zfin_sim].
  - destruct (zkids gnode) as [[ghi glo]|]; [|apply sim_stuck].
    destruct (vlevel gnode) as [glevel|]; [|apply sim_stuck].
    apply gbind_sim; [apply IH | intros; apply zfin_sim].
Qed.

Lemma zite_rec_sim : forall p (ITE : snap -> C -> ref -> ref -> ref -> zres_c C) uITE
    (APP : snap -> C -> zop -> ref -> ref -> zres_c C) uAPP,
  (forall s c f g h, SIM s (ITE s c f g h) (uITE s c f g h)) ->
  (forall s c o f g, SIM s (APP s c o f g) (uAPP s c o f g)) ->
  forall s c f g h fnode gnode hnode,
    SIM s (zite_rec_c p ITE APP s c f g h fnode gnode hnode) (zite_rec_u uITE uAPP s c f g h fnode gnode hnode).
Proof.
  intros p ITE uITE APP uAPP HI HA s c f g h fnode gnode hnode. unfold zite_rec_c, zite_rec_u. cbv zeta.
  destruct (lcmp (vlevel fnode) (lmin (vlevel gnode) (vlevel hnode))).
  - (* Eq *)
    destruct (zkids fnode) as [[fhi flo]|]; [|apply sim_stuck].
    destruct (lmin (vlevel fnode) (lmin (vlevel gnode) (vlevel hnode))) as [lv|]; [|apply sim_stuck].
    assert (J : forall r1 u1 (run2 : snap -> C -> zres_c C) urun2,
              SIM s r1 u1 -> (forall s1 c1, SIM s1 (run2 s1 c1) (urun2 s1 c1)) ->
              SIM s (gjoin2 p r1 run2 (fun s2 c2 hi lo => zfin_c C cap s2 c2 lv hi lo))
                    (upair_fin (ujoin2p u1 urun2) (fun s2 c2 hi lo => zufin s2 c2 lv hi lo))).
    { intros r1 u1 run2 urun2 H1 H2. rewrite upair_fuse.
      apply gjoin2_sim; [exact H1 | exact H2 | intros; apply zfin_sim]. }
    destruct (lcmp (vlevel hnode) (vlevel fnode)).
    + destruct (lcmp (vlevel gnode) (vlevel fnode)).
      * destruct (zkids gnode) as [[ghi glo]|]; [|apply sim_stuck].
        destruct (zkids hnode) as [[hhi hlo]|]; [|apply sim_stuck]. apply J; intros; apply HI.
      * destruct (zkids gnode) as [[ghi glo]|]; [|apply sim_stuck].
        destruct (zkids hnode) as [[hhi hlo]|]; [|apply sim_stuck]. apply J; intros; apply HI.
      * destruct (zkids hnode) as [[hhi hlo]|]; [|apply sim_stuck]. apply J; [apply HA | intros; apply HI].
    + destruct (lcmp (vlevel gnode) (vlevel fnode)).
      * destruct (zkids gnode) as [[ghi glo]|]; [|apply sim_stuck].
        destruct (zkids hnode) as [[hhi hlo]|]; [|apply sim_stuck]. apply J; intros; apply HI.
      * destruct (zkids gnode) as [[ghi glo]|]; [|apply sim_stuck].
        destruct (zkids hnode) as [[hhi hlo]|]; [|apply sim_stuck]. apply J; intros; apply HI.
      * destruct (zkids hnode) as [[hhi hlo]|]; [|apply sim_stuck]. apply J; [apply HA | intros; apply HI].
    + destruct (zkids gnode) as [[ghi glo]|]; [|apply sim_stuck]. apply J; [apply HA | intros; apply HI].
  - (* Lt *)
    destruct (zkids fnode) as [[fhi flo]|]; [apply HI | apply sim_stuck].
  - (* Gt *)
    destruct (lcmp (vlevel gnode) (vlevel hnode)).
    + destruct (zkids hnode) as [[hhi hlo]|]; [|apply sim_stuck].
      destruct (lmin (vlevel fnode) (lmin (vlevel gnode) (vlevel hnode))) as [lv|]; [|apply sim_stuck].
      destruct (zkids gnode) as [[ghi glo]|]; [|apply sim_stuck].
      apply gbind_sim; [apply HI | intros; apply zfin_sim].
    + destruct (zkids gnode) as [[ghi glo]|]; [apply HI | apply sim_stuck].
    + destruct (zkids hnode) as [[hhi hlo]|]; [|apply sim_stuck].
      destruct (lmin (vlevel fnode) (lmin (vlevel gnode) (vlevel hnode))) as [lv|]; [|apply sim_stuck].
      apply gbind_sim; [apply HI | intros; apply zfin_sim].
Qed.

Theorem zapply_ite_sim : forall fuel s c f g h,
  SIM s (zapply_ite_c gt C cget cadd cap par fuel s c f g h) (zapply_ite gt C cget cadd fuel s c f g h).
Proof.
  induction fuel as [|n IH]; intros s c f g h; [apply sim_stuck|].
  rewrite zapply_ite_c_S, zapply_ite_U.
  destruct (ref_eqb g h); [apply sim_here|].
  destruct (ref_eqb f g); [apply zapply_sim|].
  destruct (ref_eqb f h); [apply zapply_sim|].
  destruct (zget s f) as [fnode|]; [|apply sim_stuck].
  destruct (is_empty_b s f); [apply sim_here|].
  destruct (zget s g) as [gnode|]; [|apply sim_stuck].
  destruct (is_empty_b s g); [apply zapply_sim|].
  destruct (zget s h) as [hnode|]; [|apply sim_stuck].
  destruct (is_empty_b s h); [apply zapply_sim|].
  destruct (ztaut_opt s _) as [taut|]; [|apply sim_stuck].
  destruct (ref_eqb f taut); [apply sim_here|].
  destruct (ref_eqb g taut); [apply zapply_sim|].
  destruct (cget c zcode_ite [f; g; h] []); [apply sim_here|].
  apply gbind_sim; [|intros; apply sim_here].
  apply zite_rec_sim; [intros; apply IH | intros; apply zapply_sim].
Qed.

Theorem zapply_op_sim : forall op fuel s c f g,
  SIM s (zapply_op_c gt C cget cadd cap par fuel s c op f g) (zapply_op gt C cget cadd fuel s c op f g).
Proof.
  intros op fuel s c f g.
  assert (TN : forall r u, SIM s r u ->
            SIM s (gbind r (fun s1 c1 x => zapply_not_c gt C cget cadd cap par fuel s1 c1 x))
                  (match u with Some (s1, c1, x) => zapply_not gt C cget cadd fuel s1 c1 x | None => None end)).
  { intros r u H. apply (gbind_sim C no_m2 cap 1 ref ref s r u _
                          (fun s1 c1 x => zapply_not gt C cget cadd fuel s1 c1 x) H).
    intros; apply zapply_not_sim. }
  destruct op; unfold zapply_op_c, zapply_op;
    try apply zapply_sim; try apply zsymm_sim; try (apply TN; first [apply zapply_sim | apply zsymm_sim]).
  destruct (ztaut s 0); [apply zapply_ite_sim | apply sim_stuck].
Qed.

End Sim.

(** ** [singleton_edge], [make_node] *)

Lemma zsingleton_cap_sim : forall cap s var,
  match zsingleton s var with
  | Some u => exists o, zsingleton_cap cap s var = Some o /\ leaf_rel no_m2 cap 1 s o u
  | None => zsingleton_cap cap s var = None
  end.
Proof.
  intros cap s var. unfold zsingleton, zsingleton_cap.
  destruct (zbase s) as [hi|]; [|reflexivity].
  destruct (zempty s) as [lo|]; [|reflexivity].
  destruct (nth_error (s_v2l s) var) as [lvl|]; [|reflexivity].
  pose proof (goi_leaf no_m2 no_m2_terms cap 1 s lvl [E hi; E lo]) as L.
  pose proof (leaf_map no_m2 cap 1 edge ref s _ _ (fun e => eref e) L) as L'.
  destruct (get_or_insert s lvl [E hi; E lo]) as [s' e] eqn:Eg.
  destruct (get_or_insert_cap cap s lvl [E hi; E lo]) as [[s2 e2]|]; eexists; split; try reflexivity; exact L'.
Qed.

Lemma zmake_node_cap_sim : forall cap s var hi lo,
  match zmake_node s var hi lo with
  | Some u => exists o, zmake_node_cap cap s var hi lo = Some o /\ leaf_rel no_m2 cap 1 s o u
  | None => zmake_node_cap cap s var hi lo = None
  end.
Proof.
  intros cap s var hi lo. unfold zmake_node, zmake_node_cap.
  destruct (zget s var) as [[v|nd]|]; try reflexivity.
  eexists. split; [reflexivity | apply zmk_node_leaf].
Qed.
