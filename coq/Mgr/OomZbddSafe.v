(** * Out-of-memory behaviour of the ZBDD apply algorithms (Mgr/OomZbdd.v), part 2

    Under the invariant of the C02 / C09 theorems for ZBDDs ([ZbddOK], the
    tautology chain [ZChainOK], [ZCacheOKB], operands are valid references,
    standard fuel): [z*_c_safe] - the bounded algorithms never get stuck, and
    whatever they return - result or out-of-memory - the table they leave is a
    well-formed ZBDD table (with its tautology chain) extending the one they
    started from, with a correct cache.  The C14 statements are in
    Mgr/OomZbddThms.v. *)

From Coq Require Import List NArith PArith Bool Arith Lia FMapPositive.
From OxiVerif Require Import DD.Table DD.TableProofs DD.Canon DD.Sem DD.Build DD.BuildProofs
  DD.Apply DD.FamSpec DD.ZbddOps DD.ZbddOpsProofs DD.ZbddBool DD.ZbddBoolProofs DD.ZbddXorProofs DD.ZbddIteProofs
  Mgr.Oom Mgr.OomProofs.
From OxiVerif Require Import Mgr.OomGen Mgr.OomGenProofs Mgr.OomBcddProofs Mgr.OomZbdd Mgr.OomZbddProofs.
Import ListNotations.

(** ** Structure of the operands *)

Lemma znode_struct : forall s id nd, ZbddOK s -> find_node s id = Some nd ->
  nstored nd = nlevel nd /\ nlevel nd < nlevels s /\ rlevel s (RN id) = nlevel nd /\
  exists hi lo, nchildren nd = [hi; lo] /\ ref_ok s (eref hi) /\ ref_ok s (eref lo) /\
    nlevel nd < rlevel s (eref hi) /\ nlevel nd < rlevel s (eref lo).
Proof.
  intros s id nd B En.
  assert (O : ref_ok s (RN id)) by (exists nd; exact En).
  destruct (zden_exists s (RN id) B O) as [P D].
  destruct (znode_facts s id nd P B D En) as (S1 & L1 & R1 & hi & lo & PA & PB & Ec & DA & DB & LA & LB & _).
  split; [exact S1|]. split; [exact L1|]. split; [exact R1|].
  exists hi, lo. split; [exact Ec|]. split; [apply (zden_ok _ _ _ DA)|]. split; [apply (zden_ok _ _ _ DB)|]. auto.
Qed.

(** the three-way level comparison of two distinct, non-Empty operands *)
Lemma zlevels_struct : forall s f g vf vg, ZbddOK s -> f <> g ->
  (forall t, f = RT t -> term_val s t = Some 1%N) -> (forall t, g = RT t -> term_val s t = Some 1%N) ->
  zget s f = Some vf -> zget s g = Some vg ->
  match lcmp (vlevel vf) (vlevel vg) with
  | Eq => exists fhi flo ghi glo L,
      zkids vf = Some (fhi, flo) /\ zkids vg = Some (ghi, glo) /\ vlevel vf = Some L /\
      L < nlevels s /\ rlevel s f = L /\ rlevel s g = L /\
      ref_ok s fhi /\ ref_ok s flo /\ ref_ok s ghi /\ ref_ok s glo /\
      L < rlevel s fhi /\ L < rlevel s flo /\ L < rlevel s ghi /\ L < rlevel s glo
  | Lt => exists fhi flo L,
      zkids vf = Some (fhi, flo) /\ vlevel vf = Some L /\ L < nlevels s /\ rlevel s f = L /\ L < rlevel s g /\
      ref_ok s fhi /\ ref_ok s flo /\ L < rlevel s fhi /\ L < rlevel s flo
  | Gt => exists ghi glo L,
      zkids vg = Some (ghi, glo) /\ vlevel vg = Some L /\ L < nlevels s /\ rlevel s g = L /\ L < rlevel s f /\
      ref_ok s ghi /\ ref_ok s glo /\ L < rlevel s ghi /\ L < rlevel s glo
  end.
Proof.
  intros s f g vf vg B Hne Hf1 Hg1 Evf Evg. pose proof (zo_wf s B) as H.
  pose proof (lcmp_cases s f g vf vg B Evf Evg) as Hl.
  destruct (lcmp (vlevel vf) (vlevel vg)).
  - destruct Hl as [(idf & ndf & idg & ndg & -> & -> & Enf & Eng & -> & -> & Hlev)|(tf & tg & -> & ->)].
    2:{ exfalso. apply Hne. f_equal. apply (term_val_inj s tf tg 1%N H (Hf1 tf eq_refl) (Hg1 tg eq_refl)). }
    destruct (znode_struct s idf ndf B Enf) as (Sf & Lf & Rf & fhi & flo & Ecf & Ofh & Ofl & LA & LB).
    destruct (znode_struct s idg ndg B Eng) as (Sg & Lg & Rg & ghi & glo & Ecg & Ogh & Ogl & LA' & LB').
    exists (eref fhi), (eref flo), (eref ghi), (eref glo), (nlevel ndf).
    simpl zkids. simpl vlevel. rewrite Ecf, Ecg, Sf. rewrite Rf, Rg.
    repeat (split; [first [reflexivity | assumption | lia]|]). lia.
  - destruct Hl as (idf & ndf & -> & Enf & -> & Hlt).
    destruct (znode_struct s idf ndf B Enf) as (Sf & Lf & Rf & fhi & flo & Ecf & Ofh & Ofl & LA & LB).
    exists (eref fhi), (eref flo), (nlevel ndf). simpl zkids. simpl vlevel. rewrite Ecf, Sf, Rf.
    repeat (split; [first [reflexivity | assumption | lia]|]). lia.
  - destruct Hl as (idg & ndg & -> & Eng & -> & Hlt).
    destruct (znode_struct s idg ndg B Eng) as (Sg & Lg & Rg & ghi & glo & Ecg & Ogh & Ogl & LA' & LB').
    exists (eref ghi), (eref glo), (nlevel ndg). simpl zkids. simpl vlevel. rewrite Ecg, Sg, Rg.
    repeat (split; [first [reflexivity | assumption | lia]|]). lia.
Qed.

Section Safe.
Variable gt : ref -> ref -> bool.
Variable C : Type.
Variable cget : C -> N -> list ref -> list nat -> option ref.
Variable cadd : C -> N -> list ref -> list nat -> ref -> C.
Hypothesis Hlossy : zlossy C cget cadd.
Variable cap : nat.
Variable par : nat -> bool.

Notation ZCacheOKB := (ZCacheOKB C cget).

Definition ZInv (s : snap) (c : C) : Prop := ZbddOK s /\ ZChainOK s /\ ZCacheOKB s c.
Definition Qref (s : snap) (r : ref) : Prop := ref_ok s r.

Notation RS := (res_safe ZInv extends Qref).
Notation FS := (fail_safe ZInv extends).

(** a result followed by the cache insertion *)
Lemma gbind_ok_fs : forall s (r : zres_c C) (kc : C -> ref -> C),
  FS s r -> FS s (gbind r (fun s' c' h => GOk s' (kc c' h) h)).
Proof. intros s [s' c' x|s' c'|] kc H; simpl in *; auto. Qed.

(** [reduce(..)?] never panics; on failure the table is the one it was given *)
Lemma zfin_c_fs : forall s c lvl hi lo, ZInv s c -> FS s (zfin_c C cap s c lvl hi lo).
Proof. intros. apply gfin_safe; [assumption | apply extends_refl]. Qed.

(** what a result of the unbounded algorithms guarantees *)
Lemma zresultB_inv : forall s res R s' c' r, ZbddOK s -> ZChainOK s ->
  zresult_okB C cget s res R -> res = Some (s', c', r) ->
  ZInv s' c' /\ extends s s' /\ Qref s' r.
Proof.
  intros s res R s' c' r B Hch (s1 & c1 & r1 & E & B1 & X1 & O1 & D1) Eq. rewrite E in Eq. inversion Eq; subst.
  split; [|split; [exact X1 | apply (zden_ok _ _ _ D1)]].
  split; [exact B1|]. split; [apply (zchain_extends s s' B B1 X1 Hch) | exact O1].
Qed.

(** ** [zapply_c]: union, intersection, difference *)

Theorem zapply_c_safe : forall op fuel s c f g,
  ZbddOK s -> ZChainOK s -> ZCacheOKB s c -> ref_ok s f -> ref_ok s g ->
  nlevels s - Nat.min (rlevel s f) (rlevel s g) < fuel ->
  RS s (zapply_c gt C cget cadd cap par fuel s c op f g).
Proof.
  intros op. induction fuel as [|n IH]; intros s c f g B Hch O Of Og Hfuel; [lia|].
  destruct (zden_exists s f B Of) as [P DF]. destruct (zden_exists s g B Og) as [Q DG].
  apply safe_intro.
  2:{ intros s' c' r E.
      pose proof (sim_never_wrong C no_m2 cap 1 ref _ _ _ _ _ _ (zapply_sim gt C cget cadd cap par (S n) s c op f g) E) as Eu.
      apply (zresultB_inv s _ (pbin op P Q) s' c' r B Hch
               (zapply_okB gt C cget cadd Hlossy op (S n) s c f g P Q B O DF DG Hfuel) Eu). }
  rewrite zapply_c_S.
  pose proof (zterminal_ok s op f g P Q B DF DG) as Ht.
  destruct (zterminal s op f g) as [|r|]; [destruct Ht | exact I |].
  destruct Ht as [Hne [Hf1 Hg1]].
  assert (Hsw : exists f' g',
            (if zcommutes op && gt f g then (g, f) else (f, g)) = (f', g') /\
            ref_ok s f' /\ ref_ok s g' /\ f' <> g' /\
            (forall t, f' = RT t -> term_val s t = Some 1%N) /\
            (forall t, g' = RT t -> term_val s t = Some 1%N) /\
            Nat.min (rlevel s f') (rlevel s g') = Nat.min (rlevel s f) (rlevel s g)).
  { destruct (zcommutes op && gt f g).
    - exists g, f. repeat (split; [first [reflexivity | assumption | congruence]|]). apply Nat.min_comm.
    - exists f, g. repeat (split; [first [reflexivity | assumption]|]). reflexivity. }
  destruct Hsw as (f' & g' & Esw & Of' & Og' & Hne' & Hf1' & Hg1' & Hmin).
  rewrite Esw. rewrite <- Hmin in Hfuel. clear Esw Hmin Hne Hf1 Hg1 DF DG P Q.
  pose proof (zo_wf s B) as H.
  destruct (cget c (zop_code op) [f'; g'] []); [exact I|].
  destruct (zget_total s f' Of') as [vf Evf]. destruct (zget_total s g' Og') as [vg Evg].
  rewrite Evf, Evg. cbv zeta. apply gbind_ok_fs.
  pose proof (zlevels_struct s f' g' vf vg B Hne' Hf1' Hg1' Evf Evg) as Hl.
  pose proof (rlevel_le s H f') as Lf'. pose proof (rlevel_le s H g') as Lg'.
  assert (Rec : forall s1 c1 x y, ZInv s1 c1 -> extends s s1 -> ref_ok s x -> ref_ok s y ->
            nlevels s - Nat.min (rlevel s x) (rlevel s y) < n ->
            RS s1 (zapply_c gt C cget cadd cap par n s1 c1 op x y)).
  { intros s1 c1 x y [B1 [Hch1 O1]] X1 Ox Oy Hn.
    apply IH; auto; [apply (ext_ref_ok _ _ _ X1 Ox) | apply (ext_ref_ok _ _ _ X1 Oy)|].
    rewrite (ext_nlevels _ _ X1), (ext_rlevel _ _ _ X1 Ox), (ext_rlevel _ _ _ X1 Oy). exact Hn. }
  assert (I0 : ZInv s c) by (split; [exact B | split; assumption]).
  destruct (lcmp (vlevel vf) (vlevel vg)).
  - destruct Hl as (fhi & flo & ghi & glo & L & -> & -> & -> & HL & Rf & Rg & Ofh & Ofl & Ogh & Ogl & L1 & L2 & L3 & L4).
    apply (gjoin2_safe C ZInv extends extends_trans ref ref ref Qref Qref).
    + apply (Rec s c fhi ghi I0 (extends_refl s) Ofh Ogh). lia.
    + intros s1 c1 I1 X1. apply (Rec s1 c1 flo glo I1 X1 Ofl Ogl). lia.
    + intros s2 c2 hi lo I2 X2. apply zfin_c_fs. exact I2.
  - destruct Hl as (fhi & flo & L & -> & -> & HL & Rf & Lg & Ofh & Ofl & L1 & L2).
    assert (R1 : RS s (zapply_c gt C cget cadd cap par n s c op flo g'))
      by (apply (Rec s c flo g' I0 (extends_refl s) Ofl Og'); lia).
    destruct op; [|apply (res_fail_safe C ZInv extends ref Qref); exact R1|];
      (apply (gbind_safe C ZInv extends extends_trans ref ref Qref); [exact R1|];
       intros s1 c1 x I1 X1 _; apply zfin_c_fs; exact I1).
  - destruct Hl as (ghi & glo & L & -> & -> & HL & Rg & Lf & Ogh & Ogl & L1 & L2).
    assert (R1 : RS s (zapply_c gt C cget cadd cap par n s c op f' glo))
      by (apply (Rec s c f' glo I0 (extends_refl s) Of' Ogl); lia).
    destruct op; [|apply (res_fail_safe C ZInv extends ref Qref); exact R1
                  |apply (res_fail_safe C ZInv extends ref Qref); exact R1].
    apply (gbind_safe C ZInv extends extends_trans ref ref Qref); [exact R1|].
    intros s1 c1 x I1 X1 _. apply zfin_c_fs. exact I1.
Qed.

(** ** [zapply_not_c] *)

Theorem zapply_not_c_safe : forall fuel s c f,
  ZbddOK s -> ZChainOK s -> ZCacheOKB s c -> ref_ok s f -> nlevels s < fuel ->
  RS s (zapply_not_c gt C cget cadd cap par fuel s c f).
Proof.
  intros fuel s c f B Hch O Of Hfuel. unfold zapply_not_c.
  destruct (ztaut_total s 0 Hch) as [t Et]. rewrite Et.
  pose proof (ztaut_den s 0 t B Et) as Dt.
  apply zapply_c_safe; auto; [apply (zden_ok _ _ _ Dt) | lia].
Qed.

(** ** [zsymm_c] *)

Theorem zsymm_c_safe : forall fuel s c f g,
  ZbddOK s -> ZChainOK s -> ZCacheOKB s c -> ref_ok s f -> ref_ok s g ->
  nlevels s - Nat.min (rlevel s f) (rlevel s g) < fuel ->
  RS s (zsymm_c gt C cget cadd cap par fuel s c f g).
Proof.
  induction fuel as [|n IH]; intros s c f g B Hch O Of Og Hfuel; [lia|].
  destruct (zden_exists s f B Of) as [P DF]. destruct (zden_exists s g B Og) as [Q DG].
  apply safe_intro.
  2:{ intros s' c' r E.
      pose proof (sim_never_wrong C no_m2 cap 1 ref _ _ _ _ _ _ (zsymm_sim gt C cget cadd cap par (S n) s c f g) E) as Eu.
      apply (zresultB_inv s _ (pxor P Q) s' c' r B Hch
               (zsymm_ok gt C cget cadd Hlossy (S n) s c f g P Q B O DF DG Hfuel) Eu). }
  clear DF DG P Q.
  rewrite zsymm_c_S.
  destruct (zempty_spec s B) as [te [Ee Et]]. rewrite Ee.
  pose proof (zo_wf s B) as H.
  destruct (ref_eqb f g) eqn:E1; [exact I|].
  destruct (ref_eqb f (RT te)) eqn:E2; [exact I|].
  destruct (ref_eqb g (RT te)) eqn:E3; [exact I|].
  apply ref_eqb_false in E1. apply ref_eqb_false in E2. apply ref_eqb_false in E3.
  assert (Hf1 : forall t, f = RT t -> term_val s t = Some 1%N)
    by (intros t ->; apply (not_empty_base s te t B Et Of E2)).
  assert (Hg1 : forall t, g = RT t -> term_val s t = Some 1%N)
    by (intros t ->; apply (not_empty_base s te t B Et Og E3)).
  assert (Hsw : exists f' g',
            (if gt f g then (g, f) else (f, g)) = (f', g') /\
            ref_ok s f' /\ ref_ok s g' /\ f' <> g' /\
            (forall t, f' = RT t -> term_val s t = Some 1%N) /\
            (forall t, g' = RT t -> term_val s t = Some 1%N) /\
            Nat.min (rlevel s f') (rlevel s g') = Nat.min (rlevel s f) (rlevel s g)).
  { destruct (gt f g).
    - exists g, f. repeat (split; [first [reflexivity | assumption | congruence]|]). apply Nat.min_comm.
    - exists f, g. repeat (split; [first [reflexivity | assumption]|]). reflexivity. }
  destruct Hsw as (f' & g' & Esw & Of' & Og' & Hne' & Hf1' & Hg1' & Hmin).
  rewrite Esw. rewrite <- Hmin in Hfuel. clear Esw Hmin E1 E2 E3 Hf1 Hg1.
  destruct (cget c zcode_symm [f'; g'] []); [exact I|].
  destruct (zget_total s f' Of') as [vf Evf]. destruct (zget_total s g' Og') as [vg Evg].
  rewrite Evf, Evg. cbv zeta. apply gbind_ok_fs.
  pose proof (zlevels_struct s f' g' vf vg B Hne' Hf1' Hg1' Evf Evg) as Hl.
  pose proof (rlevel_le s H f') as Lf'. pose proof (rlevel_le s H g') as Lg'.
  assert (Rec : forall s1 c1 x y, ZInv s1 c1 -> extends s s1 -> ref_ok s x -> ref_ok s y ->
            nlevels s - Nat.min (rlevel s x) (rlevel s y) < n ->
            RS s1 (zsymm_c gt C cget cadd cap par n s1 c1 x y)).
  { intros s1 c1 x y [B1 [Hch1 O1]] X1 Ox Oy Hn.
    apply IH; auto; [apply (ext_ref_ok _ _ _ X1 Ox) | apply (ext_ref_ok _ _ _ X1 Oy)|].
    rewrite (ext_nlevels _ _ X1), (ext_rlevel _ _ _ X1 Ox), (ext_rlevel _ _ _ X1 Oy). exact Hn. }
  assert (I0 : ZInv s c) by (split; [exact B | split; assumption]).
  destruct (lcmp (vlevel vf) (vlevel vg)).
  - destruct Hl as (fhi & flo & ghi & glo & L & -> & -> & -> & HL & Rf & Rg & Ofh & Ofl & Ogh & Ogl & L1 & L2 & L3 & L4).
    apply (gjoin2_safe C ZInv extends extends_trans ref ref ref Qref Qref).
    + apply (Rec s c fhi ghi I0 (extends_refl s) Ofh Ogh). lia.
    + intros s1 c1 I1 X1. apply (Rec s1 c1 flo glo I1 X1 Ofl Ogl). lia.
    + intros s2 c2 hi lo I2 X2. apply zfin_c_fs. exact I2.
  - destruct Hl as (fhi & flo & L & -> & -> & HL & Rf & Lg & Ofh & Ofl & L1 & L2).
    apply (gbind_safe C ZInv extends extends_trans ref ref Qref).
    + apply (Rec s c flo g' I0 (extends_refl s) Ofl Og'). lia.
    + intros s1 c1 x I1 X1 _. apply zfin_c_fs. exact I1.
  - destruct Hl as (ghi & glo & L & -> & -> & HL & Rg & Lf & Ogh & Ogl & L1 & L2).
    apply (gbind_safe C ZInv extends extends_trans ref ref Qref).
    + apply (Rec s c f' glo I0 (extends_refl s) Of' Ogl). lia.
    + intros s1 c1 x I1 X1 _. apply zfin_c_fs. exact I1.
Qed.


(** ** [zapply_ite_c] *)

(** the shape of an operand that sits at a real level *)
Lemma ztop_struct : forall s r, ZbddOK s -> ref_ok s r -> rlevel s r < nlevels s ->
  exists nd hi lo, zget s r = Some (ZI nd) /\ zkids (ZI nd) = Some (hi, lo) /\
    ref_ok s hi /\ ref_ok s lo /\ rlevel s r < rlevel s hi /\ rlevel s r < rlevel s lo.
Proof.
  intros s r B O Hl. destruct (rlevel_lt_node s r O Hl) as (id & nd & -> & En).
  destruct (znode_struct s id nd B En) as (Sf & Lf & Rf & hi & lo & Ec & Oh & Ol & LA & LB).
  exists nd, (eref hi), (eref lo).
  split; [simpl; rewrite En; reflexivity|]. split; [simpl; rewrite Ec; reflexivity|].
  rewrite Rf. auto.
Qed.

Lemma zite_rec_c_fs : forall n p (ITE : snap -> C -> ref -> ref -> ref -> zres_c C)
    (APP : snap -> C -> zop -> ref -> ref -> zres_c C),
  (forall s c f g h, ZbddOK s -> ZChainOK s -> ZCacheOKB s c -> ref_ok s f -> ref_ok s g -> ref_ok s h ->
     nlevels s - Nat.min (rlevel s f) (Nat.min (rlevel s g) (rlevel s h)) < n -> RS s (ITE s c f g h)) ->
  (forall s c o f g, ZbddOK s -> ZChainOK s -> ZCacheOKB s c -> ref_ok s f -> ref_ok s g ->
     nlevels s - Nat.min (rlevel s f) (rlevel s g) < S n -> RS s (APP s c o f g)) ->
  forall s c f g h vf vg vh,
    ZbddOK s -> ZChainOK s -> ZCacheOKB s c -> ref_ok s f -> ref_ok s g -> ref_ok s h ->
    zget s f = Some vf -> zget s g = Some vg -> zget s h = Some vh ->
    g <> h -> is_empty_b s g = false -> is_empty_b s h = false ->
    nlevels s - Nat.min (rlevel s f) (Nat.min (rlevel s g) (rlevel s h)) < S n ->
    FS s (zite_rec_c C cap p ITE APP s c f g h vf vg vh).
Proof.
  intros n p ITE APP HI HA s c f g h vf vg vh B Hch O Of Og Oh Evf Evg Evh Hgh Eg Eh Hfuel.
  pose proof (zo_wf s B) as H.
  pose proof (rlevel_le s H f) as LeF. pose proof (rlevel_le s H g) as LeG. pose proof (rlevel_le s H h) as LeH.
  assert (I0 : ZInv s c) by (split; [exact B | split; assumption]).
  (* recursive calls on the current table and on a later one *)
  assert (Rec : forall s1 c1 x y z, ZInv s1 c1 -> extends s s1 -> ref_ok s x -> ref_ok s y -> ref_ok s z ->
            nlevels s - Nat.min (rlevel s x) (Nat.min (rlevel s y) (rlevel s z)) < n ->
            RS s1 (ITE s1 c1 x y z)).
  { intros s1 c1 x y z [B1 [Hch1 O1]] X1 Ox Oy Oz Hn.
    apply HI; auto; [apply (ext_ref_ok _ _ _ X1 Ox) | apply (ext_ref_ok _ _ _ X1 Oy) | apply (ext_ref_ok _ _ _ X1 Oz)|].
    rewrite (ext_nlevels _ _ X1), (ext_rlevel _ _ _ X1 Ox), (ext_rlevel _ _ _ X1 Oy), (ext_rlevel _ _ _ X1 Oz).
    exact Hn. }
  assert (Fin : forall lv s2 c2 (hi lo : ref), ZInv s2 c2 -> extends s s2 -> FS s2 (zfin_c C cap s2 c2 lv hi lo))
    by (intros; apply zfin_c_fs; assumption).
  unfold zite_rec_c. cbv zeta.
  set (N := nlevels s) in *.
  destruct (vlevel_rlevel s f vf H Evf) as [VF OF]. destruct (vlevel_rlevel s g vg H Evg) as [VG OG].
  destruct (vlevel_rlevel s h vh H Evh) as [VH OH]. fold N in VF, VG, VH, OF, OG, OH.
  destruct (lmin_olev N (vlevel vg) (vlevel vh) OG OH) as [VGH OGH].
  destruct (lmin_olev N (vlevel vf) _ OF OGH) as [VL OL].
  rewrite VGH in VL. rewrite VF, VG, VH in *.
  set (F := rlevel s f) in *. set (G := rlevel s g) in *. set (Hh := rlevel s h) in *.
  set (GH := lmin (vlevel vg) (vlevel vh)) in *.
  set (LV := lmin (vlevel vf) GH) in *.
  set (Lv := Nat.min F (Nat.min G Hh)) in *.
  rewrite (lcmp_olev N (vlevel vf) GH OF OGH), VF, VGH.
  rewrite (lcmp_olev N (vlevel vg) (vlevel vh) OG OH), VG, VH.
  rewrite (lcmp_olev N (vlevel vh) (vlevel vf) OH OF), VH, VF.
  rewrite (lcmp_olev N (vlevel vg) (vlevel vf) OG OF), VG, VF.
  assert (HfuelN : N - Lv < S n) by exact Hfuel.
  destruct (Nat.compare_spec F (Nat.min G Hh)) as [HFc|HFc|HFc].
  - (* Equal: f at the top level, together with g or h or both *)
    assert (HFN : F < N).
    { destruct (Nat.eq_dec F N) as [HN|HN]; [|lia]. exfalso.
      assert (HG : G = N) by lia. assert (HH : Hh = N) by lia.
      destruct g as [tg|idg];
        [|destruct Og as [nd En]; unfold G in HG; rewrite (rlevel_node s idg nd En) in HG;
          pose proof (wf_level s H idg nd En); unfold N in *; lia].
      destruct h as [th|idh];
        [|destruct Oh as [nd En]; unfold Hh in HH; rewrite (rlevel_node s idh nd En) in HH;
          pose proof (wf_level s H idh nd En); unfold N in *; lia].
      apply Hgh. f_equal.
      destruct (zterm_cases s tg B Og) as [Etg|Etg];
        [unfold is_empty_b, is_term_with in Eg; rewrite Etg in Eg; discriminate|].
      destruct (zterm_cases s th B Oh) as [Eth|Eth];
        [unfold is_empty_b, is_term_with in Eh; rewrite Eth in Eh; discriminate|].
      apply (term_val_inj s tg th 1%N H Etg Eth). }
    assert (ELv : Lv = F) by (unfold Lv; lia).
    rewrite (olev_some N LV) by (rewrite VL; lia). rewrite VL, ELv.
    destruct (ztop_struct s f B Of HFN) as (ndf & fhi & flo & Zf & Kf & Ofh & Ofl & LA & LB).
    fold F in LA, LB.
    assert (Evf' : vf = ZI ndf) by congruence. subst vf. rewrite Kf.
    pose proof (rlevel_le s H fhi). pose proof (rlevel_le s H flo).
    destruct (Nat.compare_spec Hh F) as [HHc|HHc|HHc].
    + (* hlevel = flevel *)
      destruct (ztop_struct s h B Oh ltac:(fold Hh; fold N; lia)) as (ndh & hhi & hlo & Zh & Kh & Ohh & Ohl & LA'' & LB'').
      fold Hh in LA'', LB''.
      assert (Evh' : vh = ZI ndh) by congruence. subst vh. rewrite Kh.
      pose proof (rlevel_le s H hhi). pose proof (rlevel_le s H hlo).
      destruct (Nat.compare_spec G F) as [HGc|HGc|HGc]; [| lia |].
      * (* all three *)
        destruct (ztop_struct s g B Og ltac:(fold G; fold N; lia)) as (ndg & ghi & glo & Zg & Kg & Ogh & Ogl & LA' & LB').
        fold G in LA', LB'.
        assert (Evg' : vg = ZI ndg) by congruence. subst vg. rewrite Kg.
        pose proof (rlevel_le s H ghi). pose proof (rlevel_le s H glo).
        apply (gjoin2_safe C ZInv extends extends_trans ref ref ref Qref Qref).
        -- apply (Rec s c fhi ghi hhi I0 (extends_refl s) Ofh Ogh Ohh). fold N. lia.
        -- intros s1 c1 I1 X1. apply (Rec s1 c1 flo glo hlo I1 X1 Ofl Ogl Ohl). fold N. lia.
        -- intros s2 c2 hi lo I2 X2. apply Fin; assumption.
      * (* glevel > flevel: f and h on top *)
        apply (gjoin2_safe C ZInv extends extends_trans ref ref ref Qref Qref).
        -- apply HA; auto. fold N. lia.
        -- intros s1 c1 I1 X1. apply (Rec s1 c1 flo g hlo I1 X1 Ofl Og Ohl). fold N. fold G. lia.
        -- intros s2 c2 hi lo I2 X2. apply Fin; assumption.
    + lia.
    + (* hlevel > flevel: f and g on top *)
      assert (HGF : G = F) by lia.
      destruct (ztop_struct s g B Og ltac:(fold G; fold N; lia)) as (ndg & ghi & glo & Zg & Kg & Ogh & Ogl & LA' & LB').
      fold G in LA', LB'.
      assert (Evg' : vg = ZI ndg) by congruence. subst vg. rewrite Kg.
      pose proof (rlevel_le s H ghi). pose proof (rlevel_le s H glo).
      apply (gjoin2_safe C ZInv extends extends_trans ref ref ref Qref Qref).
      * apply HA; auto. fold N. lia.
      * intros s1 c1 I1 X1. apply (Rec s1 c1 flo glo h I1 X1 Ofl Ogl Oh). fold N. fold Hh. lia.
      * intros s2 c2 hi lo I2 X2. apply Fin; assumption.
  - (* Less: f alone on top *)
    assert (HFN : F < N) by lia.
    destruct (ztop_struct s f B Of HFN) as (ndf & fhi & flo & Zf & Kf & Ofh & Ofl & LA & LB).
    fold F in LA, LB.
    assert (Evf' : vf = ZI ndf) by congruence. subst vf. rewrite Kf.
    pose proof (rlevel_le s H flo).
    apply (res_fail_safe C ZInv extends ref Qref).
    apply (Rec s c flo g h I0 (extends_refl s) Ofl Og Oh). fold N. fold G. fold Hh. lia.
  - (* Greater: g or h (or both) above f *)
    destruct (Nat.compare_spec G Hh) as [HGc|HGc|HGc].
    + (* glevel = hlevel *)
      assert (HN : Hh < N) by lia.
      assert (ELv : Lv = Hh) by (unfold Lv; lia).
      rewrite (olev_some N LV) by (rewrite VL; lia). rewrite VL, ELv.
      destruct (ztop_struct s h B Oh HN) as (ndh & hhi & hlo & Zh & Kh & Ohh & Ohl & LA'' & LB'').
      fold Hh in LA'', LB''.
      assert (Evh' : vh = ZI ndh) by congruence. subst vh. rewrite Kh.
      destruct (ztop_struct s g B Og ltac:(fold G; fold N; lia)) as (ndg & ghi & glo & Zg & Kg & Ogh & Ogl & LA' & LB').
      fold G in LA', LB'.
      assert (Evg' : vg = ZI ndg) by congruence. subst vg. rewrite Kg.
      pose proof (rlevel_le s H glo). pose proof (rlevel_le s H hlo).
      apply (gbind_safe C ZInv extends extends_trans ref ref Qref).
      * apply (Rec s c f glo hlo I0 (extends_refl s) Of Ogl Ohl). fold N. fold F. lia.
      * intros s1 c1 x I1 X1 _. apply Fin; assumption.
    + (* glevel < hlevel: g alone on top *)
      destruct (ztop_struct s g B Og ltac:(fold G; fold N; lia)) as (ndg & ghi & glo & Zg & Kg & Ogh & Ogl & LA' & LB').
      fold G in LA', LB'.
      assert (Evg' : vg = ZI ndg) by congruence. subst vg. rewrite Kg.
      pose proof (rlevel_le s H glo).
      apply (res_fail_safe C ZInv extends ref Qref).
      apply (Rec s c f glo h I0 (extends_refl s) Of Ogl Oh). fold N. fold F. fold Hh. lia.
    + (* hlevel < glevel: h alone on top *)
      assert (HN : Hh < N) by lia.
      assert (ELv : Lv = Hh) by (unfold Lv; lia).
      rewrite (olev_some N LV) by (rewrite VL; lia). rewrite VL, ELv.
      destruct (ztop_struct s h B Oh HN) as (ndh & hhi & hlo & Zh & Kh & Ohh & Ohl & LA'' & LB'').
      fold Hh in LA'', LB''.
      assert (Evh' : vh = ZI ndh) by congruence. subst vh. rewrite Kh.
      pose proof (rlevel_le s H hlo).
      apply (gbind_safe C ZInv extends extends_trans ref ref Qref).
      * apply (Rec s c f g hlo I0 (extends_refl s) Of Og Ohl). fold N. fold F. fold G. lia.
      * intros s1 c1 x I1 X1 _. apply Fin; assumption.
Qed.

Theorem zapply_ite_c_safe : forall fuel s c f g h,
  ZbddOK s -> ZChainOK s -> ZCacheOKB s c -> ref_ok s f -> ref_ok s g -> ref_ok s h ->
  nlevels s - Nat.min (rlevel s f) (Nat.min (rlevel s g) (rlevel s h)) < fuel ->
  RS s (zapply_ite_c gt C cget cadd cap par fuel s c f g h).
Proof.
  induction fuel as [|n IH]; intros s c f g h B Hch O Of Og Oh Hfuel; [lia|].
  destruct (zden_exists s f B Of) as [P DF]. destruct (zden_exists s g B Og) as [Q DG].
  destruct (zden_exists s h B Oh) as [R DH].
  apply safe_intro.
  2:{ intros s' c' r E.
      pose proof (sim_never_wrong C no_m2 cap 1 ref _ _ _ _ _ _ (zapply_ite_sim gt C cget cadd cap par (S n) s c f g h) E) as Eu.
      apply (zresultB_inv s _ (pite P Q R) s' c' r B Hch
               (zapply_ite_ok gt C cget cadd Hlossy (S n) s c f g h P Q R B Hch O DF DG DH Hfuel) Eu). }
  clear DF DG DH P Q R.
  rewrite zapply_ite_c_S.
  pose proof (zo_wf s B) as H.
  pose proof (rlevel_le s H f) as LeF. pose proof (rlevel_le s H g) as LeG. pose proof (rlevel_le s H h) as LeH.
  assert (App : forall o x y, ref_ok s x -> ref_ok s y ->
            nlevels s - Nat.min (rlevel s x) (rlevel s y) < S n ->
            FS s (zapply_c gt C cget cadd cap par (S n) s c o x y))
    by (intros; apply (res_fail_safe C ZInv extends ref Qref); apply zapply_c_safe; auto).
  destruct (ref_eqb g h) eqn:E1; [exact I|].
  destruct (ref_eqb f g) eqn:E2; [apply App; auto; lia|].
  destruct (ref_eqb f h) eqn:E3; [apply App; auto; lia|].
  apply ref_eqb_false in E1.
  destruct (zget_total s f Of) as [vf Evf]. rewrite Evf.
  destruct (is_empty_b s f) eqn:Ef; [exact I|].
  destruct (zget_total s g Og) as [vg Evg]. rewrite Evg.
  destruct (is_empty_b s g) eqn:Eg; [apply App; auto; lia|].
  destruct (zget_total s h Oh) as [vh Evh]. rewrite Evh.
  destruct (is_empty_b s h) eqn:Eh; [apply App; auto; lia|].
  rewrite ztaut_opt_olev.
  destruct (ztaut_total s (olev (nlevels s) (lmin (vlevel vf) (lmin (vlevel vg) (vlevel vh)))) Hch) as [ta Eta].
  rewrite Eta.
  destruct (ref_eqb f ta); [exact I|].
  destruct (ref_eqb g ta); [apply App; auto; lia|].
  destruct (cget c zcode_ite [f; g; h] []); [exact I|].
  apply gbind_ok_fs.
  apply (zite_rec_c_fs n (par n)); auto.
  intros s0 c0 o x y B0 Hch0 O0 Ox Oy Hn. apply zapply_c_safe; auto.
Qed.

(** ** [zapply_op_c]: the eight operators *)

Lemma then_not_c_safe : forall fuel s r, ZbddOK s -> nlevels s < fuel -> RS s r ->
  RS s (gbind r (fun s1 c1 x => zapply_not_c gt C cget cadd cap par fuel s1 c1 x)).
Proof.
  intros fuel s r B Hfuel R1. destruct r as [s1 c1 x|s1 c1|]; simpl in *; [| exact R1 | exact R1].
  destruct R1 as [[B1 [Hch1 O1]] [X1 Q1]].
  pose proof (zapply_not_c_safe fuel s1 c1 x B1 Hch1 O1 Q1 ltac:(rewrite (ext_nlevels _ _ X1); exact Hfuel)) as R2.
  destruct (zapply_not_c gt C cget cadd cap par fuel s1 c1 x) as [s2 c2 y|s2 c2|]; simpl in *; [| |exact R2].
  - destruct R2 as [I2 [X2 Q2]]. split; [exact I2|]. split; [apply (extends_trans _ _ _ X1 X2) | exact Q2].
  - destruct R2 as [I2 X2]. split; [exact I2 | apply (extends_trans _ _ _ X1 X2)].
Qed.

Theorem zapply_op_c_safe : forall op fuel s c f g,
  ZbddOK s -> ZChainOK s -> ZCacheOKB s c -> ref_ok s f -> ref_ok s g -> nlevels s < fuel ->
  RS s (zapply_op_c gt C cget cadd cap par fuel s c op f g).
Proof.
  intros op fuel s c f g B Hch O Of Og Hfuel. pose proof (zo_wf s B) as H.
  pose proof (rlevel_le s H f) as LeF. pose proof (rlevel_le s H g) as LeG.
  destruct op; unfold zapply_op_c.
  - apply zapply_c_safe; auto; lia.
  - apply zapply_c_safe; auto; lia.
  - apply zsymm_c_safe; auto; lia.
  - apply then_not_c_safe; auto. apply zsymm_c_safe; auto; lia.
  - apply then_not_c_safe; auto. apply zapply_c_safe; auto; lia.
  - apply then_not_c_safe; auto. apply zapply_c_safe; auto; lia.
  - destruct (ztaut_total s 0 Hch) as [t Et]. rewrite Et.
    pose proof (ztaut_den s 0 t B Et) as Dt.
    apply zapply_ite_c_safe; auto; [apply (zden_ok _ _ _ Dt) | lia].
  - apply zapply_c_safe; auto; lia.
Qed.

End Safe.
