(** * Out-of-memory behaviour of the ZBDD apply algorithms (Mgr/OomZbdd.v), part 3

    The C14 statements for ZBDDs: [zoom_never_wrong_*], [zoom_safe_*],
    [zoom_no_panic_*], [zoom_exact_*], [zoom_outcome_recursor_indep_*],
    [zoom_retry_*], [zoom_monotone_*] for the set operations ([zapply_c]: union,
    intersection, difference), negation ([zapply_not_c]), the eight Boolean
    operators ([zapply_op_c]), if-then-else ([zapply_ite_c]) and
    [singleton_edge]; [intact_z]: what "extension" means for the owner of a
    handle (zero-suppressed semantics: [semz]). *)

From Coq Require Import List NArith PArith Bool Arith Lia FMapPositive.
From OxiVerif Require Import DD.Table DD.TableProofs DD.Canon DD.Sem DD.Build DD.BuildProofs DD.PickInsert
  DD.Apply DD.FamSpec DD.FamSpecProofs DD.ZbddOps DD.ZbddOpsProofs DD.ZbddSoundProofs
  DD.ZbddBool DD.ZbddBoolProofs DD.ZbddXorProofs DD.ZbddIteProofs DD.ZbddEvalProofs
  Mgr.Oom Mgr.OomProofs.
From OxiVerif Require Import Mgr.OomGen Mgr.OomGenProofs Mgr.OomBcddProofs Mgr.OomZbdd Mgr.OomZbddProofs
  Mgr.OomZbddSafe.
Import ListNotations.

(** ** What an extension preserves (zero-suppressed semantics) *)

Record intact_z (s s' : snap) : Prop := mkIntactZ {
  (* handles, order, stored nodes unchanged; added nodes unreachable; live part unchanged *)
  iz_base : intact0 s s';
  (* same terminals *)
  iz_terms : s_terms s' = s_terms s;
  (* every valid reference stays valid and means the same family / function *)
  iz_sem : forall r, ref_ok s r ->
             ref_ok s' r /\ forall k lvl c0, semz s' k lvl r c0 = semz s k lvl r c0;
  (* every handle has the same value under every assignment *)
  iz_handle_sem : forall h, In h (s_handles s) ->
             forall c0, sem_edge s' (snd h) c0 = sem_edge s (snd h) c0
}.

Theorem extends_intact_z : forall s s', ZbddOK s -> extends s s' -> intact_z s s'.
Proof.
  intros s s' B X. pose proof (zo_wf s B) as H. constructor.
  - apply (next_intact0 s s' H (next_of_extends s s' X)).
  - apply (ext_terms _ _ X).
  - intros r Hr. split; [apply (ext_ref_ok _ _ _ X Hr)|].
    intros k lvl c0. apply (semz_extends s s' H X k lvl r c0 Hr).
  - intros h Hh c0. unfold sem_edge. rewrite (ext_kind _ _ X), (zo_kind s B), (ext_nlevels _ _ X).
    f_equal. apply (semz_extends s s' H X). apply (wf_handles s H h Hh).
Qed.

Theorem intact_z_elim : forall s s', intact_z s s' ->
  s_handles s' = s_handles s /\
  s_v2l s' = s_v2l s /\ s_l2v s' = s_l2v s /\ s_terms s' = s_terms s /\
  (forall id nd, find_node s id = Some nd -> find_node s' id = Some nd) /\
  (forall r, ref_ok s r -> ref_ok s' r /\ forall k lvl c0, semz s' k lvl r c0 = semz s k lvl r c0) /\
  (forall h, In h (s_handles s) -> forall c0, sem_edge s' (snd h) c0 = sem_edge s (snd h) c0) /\
  (forall id, find_node s id = None -> ~ reachable s' (handle_refs s') (RN id)) /\
  (forall r, reachable s' (handle_refs s') r <-> reachable s (handle_refs s) r).
Proof.
  intros s s' [[A [B1 B2] C0 F G] T D E0]. repeat (split; [assumption|]). assumption.
Qed.

Definition ZFUEL (s : snap) : nat := S (nlevels s).

Section Top.
Variable gt : ref -> ref -> bool.
Variable C : Type.
Variable cget : C -> N -> list ref -> list nat -> option ref.
Variable cadd : C -> N -> list ref -> list nat -> ref -> C.
Hypothesis Hlossy : zlossy C cget cadd.

Notation ZCacheOKB := (ZCacheOKB C cget).
Notation ZINV := (ZInv C cget).
Notation SIM cap := (sim C no_m2 cap 1).
Notation RS := (res_safe (ZInv C cget) extends Qref).

(** the state after a failure *)
Definition zfailed_ok (cap : nat) (s s' : snap) (c' : C) : Prop :=
  ZbddOK s' /\ ZChainOK s' /\ ZCacheOKB s' c' /\ extends s s' /\ intact_z s s' /\
  node_count s <= node_count s' /\ cap <= node_count s'.

Lemma zfailed_of_state : forall cap s s' c', ZbddOK s ->
  failed_state C no_m2 cap 1 ZINV extends s s' c' -> zfailed_ok cap s s' c'.
Proof.
  intros cap s s' c' B [[B' [Hch' O']] [X [G F]]]. simpl in G, F. unfold no_m2 in *.
  split; [exact B'|]. split; [exact Hch'|]. split; [exact O'|]. split; [exact X|].
  split; [apply (extends_intact_z s s' B X)|]. lia.
Qed.

(** the outcome of a bounded run, given the table [su] of the unbounded run *)
Definition zexact (cap : nat) (s : snap) (rb : gres C ref) (su : snap) (cu : C) (ru : ref) : Prop :=
  (node_count su <= Nat.max cap (node_count s) -> rb = GOk su cu ru) /\
  (Nat.max cap (node_count s) < node_count su -> exists s' c', rb = GOom s' c' /\ zfailed_ok cap s s' c').

Lemma zexact_intro : forall cap s rb su cu ru, ZbddOK s ->
  RS s rb -> SIM cap s rb (Some (su, cu, ru)) -> zexact cap s rb su cu ru.
Proof.
  intros cap s rb su cu ru B S M.
  destruct (exact_intro C no_m2 cap 1 ZINV extends ref Qref s rb su cu ru S M) as [A1 A2].
  destruct M as [_ F]. simpl in F. destruct F as [G _]. unfold no_m2 in *. split.
  - intros Hfit. apply A1. simpl. unfold no_m2. lia.
  - intros Hbig. destruct (A2 (or_introl Hbig)) as [s' [c' [E Fs]]].
    exists s', c'. split; [exact E | apply (zfailed_of_state cap s s' c' B Fs)].
Qed.

Lemma zexact_code : forall cap s rb rb' su cu ru,
  zexact cap s rb su cu ru -> zexact cap s rb' su cu ru -> gres_code rb = gres_code rb'.
Proof.
  intros cap s rb rb' su cu ru [A1 B1] [A2 B2].
  destruct (le_lt_dec (node_count su) (Nat.max cap (node_count s))) as [Hfit|Hbig].
  - rewrite (A1 Hfit), (A2 Hfit). reflexivity.
  - destruct (B1 Hbig) as [s1 [c1 [-> _]]]. destruct (B2 Hbig) as [s2 [c2 [-> _]]]. reflexivity.
Qed.

(** generic consequences of [sim] in the form used below *)
Lemma zsim_safe : forall cap s (rb : gres C ref) ru s' c', ZbddOK s ->
  RS s rb -> SIM cap s rb ru -> rb = GOom s' c' -> zfailed_ok cap s s' c'.
Proof.
  intros cap s rb ru s' c' B S M E. subst rb. apply (zfailed_of_state cap s s' c' B).
  apply (failed_intro C no_m2 cap 1 ZINV extends ref Qref s s' c' ru S M).
Qed.

Lemma zsim_retry : forall cap s (rb : gres C ref) su cu ru,
  SIM cap s rb (Some (su, cu, ru)) -> node_count su <= cap -> rb = GOk su cu ru.
Proof.
  intros cap s rb su cu ru [_ [G F]] Hfit. simpl in G. apply F. simpl. unfold no_m2 in *. lia.
Qed.

Lemma zsim_mono : forall cap cap' s (rb rb' : gres C ref) ru s' c' r, cap <= cap' ->
  SIM cap s rb ru -> SIM cap' s rb' ru -> rb = GOk s' c' r -> rb' = GOk s' c' r.
Proof.
  intros cap cap' s rb rb' ru s' c' r Hle M M' E.
  apply (sim_monotone C ref no_m2 cap 1 cap' 1 s rb rb' ru s' c' r Hle (le_n 1) M M' E).
Qed.

(** the safe-run facts with the standard fuel *)

Lemma zset_rs : forall cap par op fuel s c f g,
  ZbddOK s -> ZChainOK s -> ZCacheOKB s c -> ref_ok s f -> ref_ok s g -> ZFUEL s <= fuel ->
  RS s (zapply_c gt C cget cadd cap par fuel s c op f g).
Proof.
  intros cap par op fuel s c f g B Hch O Of Og Hfuel. unfold ZFUEL in Hfuel.
  apply (zapply_c_safe gt C cget cadd Hlossy); auto. lia.
Qed.

Lemma znot_rs : forall cap par fuel s c f,
  ZbddOK s -> ZChainOK s -> ZCacheOKB s c -> ref_ok s f -> ZFUEL s <= fuel ->
  RS s (zapply_not_c gt C cget cadd cap par fuel s c f).
Proof.
  intros cap par fuel s c f B Hch O Of Hfuel. unfold ZFUEL in Hfuel.
  apply (zapply_not_c_safe gt C cget cadd Hlossy); auto.
Qed.

Lemma zop_rs : forall cap par op fuel s c f g,
  ZbddOK s -> ZChainOK s -> ZCacheOKB s c -> ref_ok s f -> ref_ok s g -> ZFUEL s <= fuel ->
  RS s (zapply_op_c gt C cget cadd cap par fuel s c op f g).
Proof.
  intros cap par op fuel s c f g B Hch O Of Og Hfuel. unfold ZFUEL in Hfuel.
  apply (zapply_op_c_safe gt C cget cadd Hlossy); auto.
Qed.

Lemma zite_rs : forall cap par fuel s c f g h,
  ZbddOK s -> ZChainOK s -> ZCacheOKB s c -> ref_ok s f -> ref_ok s g -> ref_ok s h -> ZFUEL s <= fuel ->
  RS s (zapply_ite_c gt C cget cadd cap par fuel s c f g h).
Proof.
  intros cap par fuel s c f g h B Hch O Of Og Oh Hfuel. unfold ZFUEL in Hfuel.
  apply (zapply_ite_c_safe gt C cget cadd Hlossy); auto. lia.
Qed.

(** *** never a wrong edge: a result is literally the result of the unbounded run *)

Theorem zoom_never_wrong_set : forall cap par op fuel s c f g s' c' r,
  zapply_c gt C cget cadd cap par fuel s c op f g = GOk s' c' r ->
  zapply gt C cget cadd fuel s c op f g = Some (s', c', r).
Proof.
  intros cap par op fuel s c f g s' c' r E.
  apply (sim_never_wrong C no_m2 cap 1 ref _ _ _ _ _ _ (zapply_sim gt C cget cadd cap par fuel s c op f g) E).
Qed.

Theorem zoom_never_wrong_not : forall cap par fuel s c f s' c' r,
  zapply_not_c gt C cget cadd cap par fuel s c f = GOk s' c' r ->
  zapply_not gt C cget cadd fuel s c f = Some (s', c', r).
Proof.
  intros cap par fuel s c f s' c' r E.
  apply (sim_never_wrong C no_m2 cap 1 ref _ _ _ _ _ _ (zapply_not_sim gt C cget cadd cap par fuel s c f) E).
Qed.

Theorem zoom_never_wrong_op : forall cap par op fuel s c f g s' c' r,
  zapply_op_c gt C cget cadd cap par fuel s c op f g = GOk s' c' r ->
  zapply_op gt C cget cadd fuel s c op f g = Some (s', c', r).
Proof.
  intros cap par op fuel s c f g s' c' r E.
  apply (sim_never_wrong C no_m2 cap 1 ref _ _ _ _ _ _ (zapply_op_sim gt C cget cadd cap par op fuel s c f g) E).
Qed.

Theorem zoom_never_wrong_ite : forall cap par fuel s c f g h s' c' r,
  zapply_ite_c gt C cget cadd cap par fuel s c f g h = GOk s' c' r ->
  zapply_ite gt C cget cadd fuel s c f g h = Some (s', c', r).
Proof.
  intros cap par fuel s c f g h s' c' r E.
  apply (sim_never_wrong C no_m2 cap 1 ref _ _ _ _ _ _ (zapply_ite_sim gt C cget cadd cap par fuel s c f g h) E).
Qed.

(** ... hence (C09 / C02) the set operation resp. the pointwise connective of
    the operands, in a table in which everything that existed before is intact *)

Theorem zoom_never_wrong_set_sem : forall cap par op fuel s c f g s' c' r,
  ZbddOK s -> ZChainOK s -> ZCacheOKB s c -> ref_ok s f -> ref_ok s g -> ZFUEL s <= fuel ->
  zapply_c gt C cget cadd cap par fuel s c op f g = GOk s' c' r ->
  ZbddOK s' /\ ZChainOK s' /\ ZCacheOKB s' c' /\ intact_z s s' /\ ref_ok s' r /\
  exists F G R, fam_of s f = Some F /\ fam_of s g = Some G /\ fam_of s' r = Some R /\ feq R (f_bin op F G).
Proof.
  intros cap par op fuel s c f g s' c' r B Hch O Of Og Hfuel E.
  pose proof (zset_rs cap par op fuel s c f g B Hch O Of Og Hfuel) as S. rewrite E in S.
  destruct S as [[B' [Hch' O']] [X R']].
  apply zoom_never_wrong_set in E.
  destruct (zapply_sound gt C cget cadd Hlossy op fuel s c f g B (zcacheokb_ok C cget s c O) Of Og Hfuel)
    as (s1 & c1 & r1 & F & G & R & E1 & _ & _ & _ & _ & EF & EG & ER & Hq).
  rewrite E in E1. inversion E1; subst s1 c1 r1.
  split; [exact B'|]. split; [exact Hch'|]. split; [exact O'|].
  split; [apply (extends_intact_z s s' B X)|]. split; [exact R'|].
  exists F, G, R. auto.
Qed.

Theorem zoom_never_wrong_not_sem : forall cap par fuel s c f s' c' r,
  ZbddOK s -> ZChainOK s -> ZCacheOKB s c -> ref_ok s f -> ZFUEL s <= fuel ->
  zapply_not_c gt C cget cadd cap par fuel s c f = GOk s' c' r ->
  ZbddOK s' /\ ZChainOK s' /\ ZCacheOKB s' c' /\ intact_z s s' /\ ref_ok s' r /\
  forall c0, choice_ok s c0 ->
    exists bf, zview_of s f c0 = Some bf /\ zview_of s' r c0 = Some (negb bf).
Proof.
  intros cap par fuel s c f s' c' r B Hch O Of Hfuel E.
  apply zoom_never_wrong_not in E.
  destruct (zapply_not_sound gt C cget cadd Hlossy fuel s c f B Hch O Of Hfuel)
    as (s1 & c1 & r1 & E1 & (B1 & Hch1 & X1 & O1 & R1) & V1).
  rewrite E in E1. inversion E1; subst s1 c1 r1.
  split; [exact B1|]. split; [exact Hch1|]. split; [exact O1|].
  split; [apply (extends_intact_z s s' B X1)|]. auto.
Qed.

Theorem zoom_never_wrong_op_sem : forall cap par op fuel s c f g s' c' r,
  ZbddOK s -> ZChainOK s -> ZCacheOKB s c -> ref_ok s f -> ref_ok s g -> ZFUEL s <= fuel ->
  zapply_op_c gt C cget cadd cap par fuel s c op f g = GOk s' c' r ->
  ZbddOK s' /\ ZChainOK s' /\ ZCacheOKB s' c' /\ intact_z s s' /\ ref_ok s' r /\
  forall c0, choice_ok s c0 ->
    exists bf bg, zview_of s f c0 = Some bf /\ zview_of s g c0 = Some bg /\
      zview_of s' r c0 = Some (eval_bop op bf bg).
Proof.
  intros cap par op fuel s c f g s' c' r B Hch O Of Og Hfuel E.
  apply zoom_never_wrong_op in E.
  destruct (zapply_op_sound gt C cget cadd Hlossy op fuel s c f g B Hch O Of Og Hfuel)
    as (s1 & c1 & r1 & E1 & (B1 & Hch1 & X1 & O1 & R1) & V1).
  rewrite E in E1. inversion E1; subst s1 c1 r1.
  split; [exact B1|]. split; [exact Hch1|]. split; [exact O1|].
  split; [apply (extends_intact_z s s' B X1)|]. auto.
Qed.

Theorem zoom_never_wrong_ite_sem : forall cap par fuel s c f g h s' c' r,
  ZbddOK s -> ZChainOK s -> ZCacheOKB s c -> ref_ok s f -> ref_ok s g -> ref_ok s h -> ZFUEL s <= fuel ->
  zapply_ite_c gt C cget cadd cap par fuel s c f g h = GOk s' c' r ->
  ZbddOK s' /\ ZChainOK s' /\ ZCacheOKB s' c' /\ intact_z s s' /\ ref_ok s' r /\
  forall c0, choice_ok s c0 ->
    exists bf bg bh, zview_of s f c0 = Some bf /\ zview_of s g c0 = Some bg /\ zview_of s h c0 = Some bh /\
      zview_of s' r c0 = Some (if bf then bg else bh).
Proof.
  intros cap par fuel s c f g h s' c' r B Hch O Of Og Oh Hfuel E.
  apply zoom_never_wrong_ite in E.
  destruct (zapply_ite_sound gt C cget cadd Hlossy fuel s c f g h B Hch O Of Og Oh Hfuel)
    as (s1 & c1 & r1 & E1 & (B1 & Hch1 & X1 & O1 & R1) & V1).
  rewrite E in E1. inversion E1; subst s1 c1 r1.
  split; [exact B1|]. split; [exact Hch1|]. split; [exact O1|].
  split; [apply (extends_intact_z s s' B X1)|]. auto.
Qed.

(** *** the state after a failure *)

Theorem zoom_safe_set : forall cap par op fuel s c f g s' c',
  ZbddOK s -> ZChainOK s -> ZCacheOKB s c -> ref_ok s f -> ref_ok s g -> ZFUEL s <= fuel ->
  zapply_c gt C cget cadd cap par fuel s c op f g = GOom s' c' -> zfailed_ok cap s s' c'.
Proof.
  intros cap par op fuel s c f g s' c' B Hch O Of Og Hfuel E.
  apply (zsim_safe cap s _ _ s' c' B (zset_rs cap par op fuel s c f g B Hch O Of Og Hfuel)
           (zapply_sim gt C cget cadd cap par fuel s c op f g) E).
Qed.

Theorem zoom_safe_not : forall cap par fuel s c f s' c',
  ZbddOK s -> ZChainOK s -> ZCacheOKB s c -> ref_ok s f -> ZFUEL s <= fuel ->
  zapply_not_c gt C cget cadd cap par fuel s c f = GOom s' c' -> zfailed_ok cap s s' c'.
Proof.
  intros cap par fuel s c f s' c' B Hch O Of Hfuel E.
  apply (zsim_safe cap s _ _ s' c' B (znot_rs cap par fuel s c f B Hch O Of Hfuel)
           (zapply_not_sim gt C cget cadd cap par fuel s c f) E).
Qed.

Theorem zoom_safe_op : forall cap par op fuel s c f g s' c',
  ZbddOK s -> ZChainOK s -> ZCacheOKB s c -> ref_ok s f -> ref_ok s g -> ZFUEL s <= fuel ->
  zapply_op_c gt C cget cadd cap par fuel s c op f g = GOom s' c' -> zfailed_ok cap s s' c'.
Proof.
  intros cap par op fuel s c f g s' c' B Hch O Of Og Hfuel E.
  apply (zsim_safe cap s _ _ s' c' B (zop_rs cap par op fuel s c f g B Hch O Of Og Hfuel)
           (zapply_op_sim gt C cget cadd cap par op fuel s c f g) E).
Qed.

Theorem zoom_safe_ite : forall cap par fuel s c f g h s' c',
  ZbddOK s -> ZChainOK s -> ZCacheOKB s c -> ref_ok s f -> ref_ok s g -> ref_ok s h -> ZFUEL s <= fuel ->
  zapply_ite_c gt C cget cadd cap par fuel s c f g h = GOom s' c' -> zfailed_ok cap s s' c'.
Proof.
  intros cap par fuel s c f g h s' c' B Hch O Of Og Oh Hfuel E.
  apply (zsim_safe cap s _ _ s' c' B (zite_rs cap par fuel s c f g h B Hch O Of Og Oh Hfuel)
           (zapply_ite_sim gt C cget cadd cap par fuel s c f g h) E).
Qed.

(** *** no panic, no divergence *)

Theorem zoom_no_panic_set : forall cap par op fuel s c f g,
  ZbddOK s -> ZChainOK s -> ZCacheOKB s c -> ref_ok s f -> ref_ok s g -> ZFUEL s <= fuel ->
  zapply_c gt C cget cadd cap par fuel s c op f g <> GStuck.
Proof.
  intros cap par op fuel s c f g B Hch O Of Og Hfuel E.
  pose proof (zset_rs cap par op fuel s c f g B Hch O Of Og Hfuel) as S. rewrite E in S. exact S.
Qed.

Theorem zoom_no_panic_not : forall cap par fuel s c f,
  ZbddOK s -> ZChainOK s -> ZCacheOKB s c -> ref_ok s f -> ZFUEL s <= fuel ->
  zapply_not_c gt C cget cadd cap par fuel s c f <> GStuck.
Proof.
  intros cap par fuel s c f B Hch O Of Hfuel E.
  pose proof (znot_rs cap par fuel s c f B Hch O Of Hfuel) as S. rewrite E in S. exact S.
Qed.

Theorem zoom_no_panic_op : forall cap par op fuel s c f g,
  ZbddOK s -> ZChainOK s -> ZCacheOKB s c -> ref_ok s f -> ref_ok s g -> ZFUEL s <= fuel ->
  zapply_op_c gt C cget cadd cap par fuel s c op f g <> GStuck.
Proof.
  intros cap par op fuel s c f g B Hch O Of Og Hfuel E.
  pose proof (zop_rs cap par op fuel s c f g B Hch O Of Og Hfuel) as S. rewrite E in S. exact S.
Qed.

Theorem zoom_no_panic_ite : forall cap par fuel s c f g h,
  ZbddOK s -> ZChainOK s -> ZCacheOKB s c -> ref_ok s f -> ref_ok s g -> ref_ok s h -> ZFUEL s <= fuel ->
  zapply_ite_c gt C cget cadd cap par fuel s c f g h <> GStuck.
Proof.
  intros cap par fuel s c f g h B Hch O Of Og Oh Hfuel E.
  pose proof (zite_rs cap par fuel s c f g h B Hch O Of Og Oh Hfuel) as S. rewrite E in S. exact S.
Qed.

(** *** retry: when the table of the unbounded run fits, the bounded run
    succeeds with exactly that result *)

Theorem zoom_retry_set : forall cap par op fuel s c f g su cu ru,
  zapply gt C cget cadd fuel s c op f g = Some (su, cu, ru) -> node_count su <= cap ->
  zapply_c gt C cget cadd cap par fuel s c op f g = GOk su cu ru.
Proof.
  intros cap par op fuel s c f g su cu ru E Hfit. apply (zsim_retry cap s _ su cu ru); [|exact Hfit].
  rewrite <- E. apply zapply_sim.
Qed.

Theorem zoom_retry_not : forall cap par fuel s c f su cu ru,
  zapply_not gt C cget cadd fuel s c f = Some (su, cu, ru) -> node_count su <= cap ->
  zapply_not_c gt C cget cadd cap par fuel s c f = GOk su cu ru.
Proof.
  intros cap par fuel s c f su cu ru E Hfit. apply (zsim_retry cap s _ su cu ru); [|exact Hfit].
  rewrite <- E. apply zapply_not_sim.
Qed.

Theorem zoom_retry_op : forall cap par op fuel s c f g su cu ru,
  zapply_op gt C cget cadd fuel s c op f g = Some (su, cu, ru) -> node_count su <= cap ->
  zapply_op_c gt C cget cadd cap par fuel s c op f g = GOk su cu ru.
Proof.
  intros cap par op fuel s c f g su cu ru E Hfit. apply (zsim_retry cap s _ su cu ru); [|exact Hfit].
  rewrite <- E. apply zapply_op_sim.
Qed.

Theorem zoom_retry_ite : forall cap par fuel s c f g h su cu ru,
  zapply_ite gt C cget cadd fuel s c f g h = Some (su, cu, ru) -> node_count su <= cap ->
  zapply_ite_c gt C cget cadd cap par fuel s c f g h = GOk su cu ru.
Proof.
  intros cap par fuel s c f g h su cu ru E Hfit. apply (zsim_retry cap s _ su cu ru); [|exact Hfit].
  rewrite <- E. apply zapply_ite_sim.
Qed.

(** *** monotone in the capacity, independent of the recursor *)

Theorem zoom_monotone_set : forall cap cap' par par' op fuel s c f g s' c' r, cap <= cap' ->
  zapply_c gt C cget cadd cap par fuel s c op f g = GOk s' c' r ->
  zapply_c gt C cget cadd cap' par' fuel s c op f g = GOk s' c' r.
Proof.
  intros cap cap' par par' op fuel s c f g s' c' r Hle E.
  apply (zsim_mono cap cap' s _ _ _ s' c' r Hle (zapply_sim gt C cget cadd cap par fuel s c op f g)
           (zapply_sim gt C cget cadd cap' par' fuel s c op f g) E).
Qed.

Theorem zoom_monotone_not : forall cap cap' par par' fuel s c f s' c' r, cap <= cap' ->
  zapply_not_c gt C cget cadd cap par fuel s c f = GOk s' c' r ->
  zapply_not_c gt C cget cadd cap' par' fuel s c f = GOk s' c' r.
Proof.
  intros cap cap' par par' fuel s c f s' c' r Hle E.
  apply (zsim_mono cap cap' s _ _ _ s' c' r Hle (zapply_not_sim gt C cget cadd cap par fuel s c f)
           (zapply_not_sim gt C cget cadd cap' par' fuel s c f) E).
Qed.

Theorem zoom_monotone_op : forall cap cap' par par' op fuel s c f g s' c' r, cap <= cap' ->
  zapply_op_c gt C cget cadd cap par fuel s c op f g = GOk s' c' r ->
  zapply_op_c gt C cget cadd cap' par' fuel s c op f g = GOk s' c' r.
Proof.
  intros cap cap' par par' op fuel s c f g s' c' r Hle E.
  apply (zsim_mono cap cap' s _ _ _ s' c' r Hle (zapply_op_sim gt C cget cadd cap par op fuel s c f g)
           (zapply_op_sim gt C cget cadd cap' par' op fuel s c f g) E).
Qed.

Theorem zoom_monotone_ite : forall cap cap' par par' fuel s c f g h s' c' r, cap <= cap' ->
  zapply_ite_c gt C cget cadd cap par fuel s c f g h = GOk s' c' r ->
  zapply_ite_c gt C cget cadd cap' par' fuel s c f g h = GOk s' c' r.
Proof.
  intros cap cap' par par' fuel s c f g h s' c' r Hle E.
  apply (zsim_mono cap cap' s _ _ _ s' c' r Hle (zapply_ite_sim gt C cget cadd cap par fuel s c f g h)
           (zapply_ite_sim gt C cget cadd cap' par' fuel s c f g h) E).
Qed.

(** *** exactness: the operation fails if and only if it needs more nodes than
    the capacity allows; otherwise it returns the correct result *)

Theorem zoom_exact_set : forall cap par op fuel s c f g,
  ZbddOK s -> ZChainOK s -> ZCacheOKB s c -> ref_ok s f -> ref_ok s g -> ZFUEL s <= fuel ->
  exists su cu ru, zapply gt C cget cadd fuel s c op f g = Some (su, cu, ru) /\
    (exists F G R, fam_of s f = Some F /\ fam_of s g = Some G /\ fam_of su ru = Some R /\ feq R (f_bin op F G)) /\
    zexact cap s (zapply_c gt C cget cadd cap par fuel s c op f g) su cu ru.
Proof.
  intros cap par op fuel s c f g B Hch O Of Og Hfuel.
  destruct (zapply_sound gt C cget cadd Hlossy op fuel s c f g B (zcacheokb_ok C cget s c O) Of Og Hfuel)
    as (su & cu & ru & F & G & R & Eu & _ & _ & _ & _ & EF & EG & ER & Hq).
  exists su, cu, ru. split; [exact Eu|]. split; [exists F, G, R; auto|].
  apply zexact_intro; [exact B | apply zset_rs; auto |]. rewrite <- Eu. apply zapply_sim.
Qed.

Theorem zoom_exact_not : forall cap par fuel s c f,
  ZbddOK s -> ZChainOK s -> ZCacheOKB s c -> ref_ok s f -> ZFUEL s <= fuel ->
  exists su cu ru, zapply_not gt C cget cadd fuel s c f = Some (su, cu, ru) /\
    (forall c0, choice_ok s c0 ->
       exists bf, zview_of s f c0 = Some bf /\ zview_of su ru c0 = Some (negb bf)) /\
    zexact cap s (zapply_not_c gt C cget cadd cap par fuel s c f) su cu ru.
Proof.
  intros cap par fuel s c f B Hch O Of Hfuel.
  destruct (zapply_not_sound gt C cget cadd Hlossy fuel s c f B Hch O Of Hfuel)
    as (su & cu & ru & Eu & _ & V).
  exists su, cu, ru. split; [exact Eu|]. split; [exact V|].
  apply zexact_intro; [exact B | apply znot_rs; auto |]. rewrite <- Eu. apply zapply_not_sim.
Qed.

Theorem zoom_exact_op : forall cap par op fuel s c f g,
  ZbddOK s -> ZChainOK s -> ZCacheOKB s c -> ref_ok s f -> ref_ok s g -> ZFUEL s <= fuel ->
  exists su cu ru, zapply_op gt C cget cadd fuel s c op f g = Some (su, cu, ru) /\
    (forall c0, choice_ok s c0 ->
       exists bf bg, zview_of s f c0 = Some bf /\ zview_of s g c0 = Some bg /\
         zview_of su ru c0 = Some (eval_bop op bf bg)) /\
    zexact cap s (zapply_op_c gt C cget cadd cap par fuel s c op f g) su cu ru.
Proof.
  intros cap par op fuel s c f g B Hch O Of Og Hfuel.
  destruct (zapply_op_sound gt C cget cadd Hlossy op fuel s c f g B Hch O Of Og Hfuel)
    as (su & cu & ru & Eu & _ & V).
  exists su, cu, ru. split; [exact Eu|]. split; [exact V|].
  apply zexact_intro; [exact B | apply zop_rs; auto |]. rewrite <- Eu. apply zapply_op_sim.
Qed.

Theorem zoom_exact_ite : forall cap par fuel s c f g h,
  ZbddOK s -> ZChainOK s -> ZCacheOKB s c -> ref_ok s f -> ref_ok s g -> ref_ok s h -> ZFUEL s <= fuel ->
  exists su cu ru, zapply_ite gt C cget cadd fuel s c f g h = Some (su, cu, ru) /\
    (forall c0, choice_ok s c0 ->
       exists bf bg bh, zview_of s f c0 = Some bf /\ zview_of s g c0 = Some bg /\ zview_of s h c0 = Some bh /\
         zview_of su ru c0 = Some (if bf then bg else bh)) /\
    zexact cap s (zapply_ite_c gt C cget cadd cap par fuel s c f g h) su cu ru.
Proof.
  intros cap par fuel s c f g h B Hch O Of Og Oh Hfuel.
  destruct (zapply_ite_sound gt C cget cadd Hlossy fuel s c f g h B Hch O Of Og Oh Hfuel)
    as (su & cu & ru & Eu & _ & V).
  exists su, cu, ru. split; [exact Eu|]. split; [exact V|].
  apply zexact_intro; [exact B | apply zite_rs; auto |]. rewrite <- Eu. apply zapply_ite_sim.
Qed.

(** failing or not does not depend on the recursor *)

Theorem zoom_outcome_recursor_indep_set : forall cap par par' op fuel s c f g,
  ZbddOK s -> ZChainOK s -> ZCacheOKB s c -> ref_ok s f -> ref_ok s g -> ZFUEL s <= fuel ->
  gres_code (zapply_c gt C cget cadd cap par fuel s c op f g) =
  gres_code (zapply_c gt C cget cadd cap par' fuel s c op f g).
Proof.
  intros cap par par' op fuel s c f g B Hch O Of Og Hfuel.
  destruct (zoom_exact_set cap par op fuel s c f g B Hch O Of Og Hfuel) as [su [cu [ru [E [_ X]]]]].
  destruct (zoom_exact_set cap par' op fuel s c f g B Hch O Of Og Hfuel) as [su' [cu' [ru' [E' [_ X']]]]].
  rewrite E in E'. inversion E'; subst su' cu' ru'. exact (zexact_code cap s _ _ su cu ru X X').
Qed.

Theorem zoom_outcome_recursor_indep_not : forall cap par par' fuel s c f,
  ZbddOK s -> ZChainOK s -> ZCacheOKB s c -> ref_ok s f -> ZFUEL s <= fuel ->
  gres_code (zapply_not_c gt C cget cadd cap par fuel s c f) =
  gres_code (zapply_not_c gt C cget cadd cap par' fuel s c f).
Proof.
  intros cap par par' fuel s c f B Hch O Of Hfuel.
  destruct (zoom_exact_not cap par fuel s c f B Hch O Of Hfuel) as [su [cu [ru [E [_ X]]]]].
  destruct (zoom_exact_not cap par' fuel s c f B Hch O Of Hfuel) as [su' [cu' [ru' [E' [_ X']]]]].
  rewrite E in E'. inversion E'; subst su' cu' ru'. exact (zexact_code cap s _ _ su cu ru X X').
Qed.

Theorem zoom_outcome_recursor_indep_op : forall cap par par' op fuel s c f g,
  ZbddOK s -> ZChainOK s -> ZCacheOKB s c -> ref_ok s f -> ref_ok s g -> ZFUEL s <= fuel ->
  gres_code (zapply_op_c gt C cget cadd cap par fuel s c op f g) =
  gres_code (zapply_op_c gt C cget cadd cap par' fuel s c op f g).
Proof.
  intros cap par par' op fuel s c f g B Hch O Of Og Hfuel.
  destruct (zoom_exact_op cap par op fuel s c f g B Hch O Of Og Hfuel) as [su [cu [ru [E [_ X]]]]].
  destruct (zoom_exact_op cap par' op fuel s c f g B Hch O Of Og Hfuel) as [su' [cu' [ru' [E' [_ X']]]]].
  rewrite E in E'. inversion E'; subst su' cu' ru'. exact (zexact_code cap s _ _ su cu ru X X').
Qed.

Theorem zoom_outcome_recursor_indep_ite : forall cap par par' fuel s c f g h,
  ZbddOK s -> ZChainOK s -> ZCacheOKB s c -> ref_ok s f -> ref_ok s g -> ref_ok s h -> ZFUEL s <= fuel ->
  gres_code (zapply_ite_c gt C cget cadd cap par fuel s c f g h) =
  gres_code (zapply_ite_c gt C cget cadd cap par' fuel s c f g h).
Proof.
  intros cap par par' fuel s c f g h B Hch O Of Og Oh Hfuel.
  destruct (zoom_exact_ite cap par fuel s c f g h B Hch O Of Og Oh Hfuel) as [su [cu [ru [E [_ X]]]]].
  destruct (zoom_exact_ite cap par' fuel s c f g h B Hch O Of Og Oh Hfuel) as [su' [cu' [ru' [E' [_ X']]]]].
  rewrite E in E'. inversion E'; subst su' cu' ru'. exact (zexact_code cap s _ _ su cu ru X X').
Qed.

End Top.

(** ** [singleton_edge]: one insertion.  On failure no table is returned: the
    manager is untouched. *)

Theorem zoom_singleton_exact : forall cap s var, ZbddOK s -> var < length (s_v2l s) ->
  exists vl s' r R, nth_error (s_v2l s) var = Some vl /\ zsingleton s var = Some (s', r) /\
    ZbddOK s' /\ extends s s' /\ ref_ok s' r /\ fam_of s' r = Some R /\ feq R (f_singleton vl) /\
    (node_count s' <= Nat.max cap (node_count s) -> zsingleton_cap cap s var = Some (Some (s', r))) /\
    (Nat.max cap (node_count s) < node_count s' ->
       zsingleton_cap cap s var = Some None /\ cap <= node_count s).
Proof.
  intros cap s var B Hv.
  destruct (zsingleton_sound s var B Hv) as (vl & s' & r & R & Ev & Es & B' & X & Or & ER & Hq).
  exists vl, s', r, R. repeat (split; [assumption|]).
  pose proof (zsingleton_cap_sim cap s var) as M. rewrite Es in M.
  destruct M as [o [Eo [G L]]]. simpl in G, L. unfold no_m2 in *. split.
  - intros Hfit. destruct o as [x|]; [destruct L as [-> _]; exact Eo|].
    exfalso. destruct L as [_ N]. apply N. lia.
  - intros Hbig. destruct o as [x|]; [exfalso; destruct L as [_ W]; lia|].
    split; [exact Eo|]. destruct L as [[F|F] _]; lia.
Qed.

Theorem zoom_singleton_never_wrong : forall cap s var s' r,
  zsingleton_cap cap s var = Some (Some (s', r)) -> zsingleton s var = Some (s', r).
Proof.
  intros cap s var s' r E. pose proof (zsingleton_cap_sim cap s var) as M.
  destruct (zsingleton s var) as [u|]; [|congruence].
  destruct M as [o [Eo [_ L]]]. rewrite E in Eo. inversion Eo; subst o. destruct L as [-> _]. reflexivity.
Qed.
