(** * The remaining ZBDD operations on a node store of bounded capacity (C14z)

    Executable definitions only (proofs: Mgr/OomZbddVProofs.v, Mgr/OomZbddVSafe.v,
    Mgr/OomZbddVThms.v).  Mgr/OomZbdd.v restates union / intersection /
    difference / not / the eight operators / ite in the error monad of the code
    ([AllocResult<Edge>], Mgr/OomGen.v); this file does the same for the
    operations of oxidd-rules-zbdd/src/apply_rec.rs that were covered by the
    capacity sweep only:

    - [zsubset_c] = [subset::<VAL>] (subset0 / subset1 / change; unbounded model
      [zsubset] of DD/ZbddOps.v): the three outcomes that allocate nothing, the
      two [reduce(..)] / [reduce_borrowed(..)] of [change] whose result IS the
      return value (no cache insertion on those paths), and above the variable's
      level [let (hi, lo) = rec.subset(..)?; let h = reduce(..)?; cache.add; Ok(h)]
      ([gjoin2] + [gfin] whose cache function is the insertion);
      [zsubset_top_c] = [subset0_edge] / [subset1_edge] / [change_edge]
      ([var_to_level] panics for an unknown variable: [GStuck]);
    - [zdc_wrap_c] = the don't-care loops of [var_edge] and [restrict_base]
      ([res = get_or_insert(l, [res, res])?] for l = level + cnt - 1 down to
      level; unbounded [zdc_wrap] of DD/ZbddBool.v): a failure in the middle
      returns the table WITH the nodes created so far;
    - [zvar_c] = [var_edge]: [get_or_insert(level, [taut(level + 1), Empty])?],
      then the loop; [znot_var_c] = the default [not_var_edge] of oxidd-core
      ([not_edge_owned(var_edge(var)?)]): the negation runs on the table the
      variable left, with its own recursor [pin];
    - [zrestrict_base_c] = the nested [restrict_base]
      ([let mut res = restrict_base(..)?], then the loop);
      [zrestrict_c] = [restrict] ([let child = restrict(..)?; reduce1(..)] as
      [gbind] + [gfin] with the cache unchanged; both operands at [level]:
      [rec.binary_with_level(..)?], [reduce(..)?], cache insertion);
      [zrestrict_edge_c] = [restrict_edge].

    Node creation is [get_or_insert_cap] of Mgr/Oom.v resp. [zmk_node_cap] of
    Mgr/OomZbdd.v everywhere.  The cache-less helpers ([zdc_wrap_c], [zvar_c],
    [zrestrict_base_c]) thread the cache through unchanged so that all
    functions share the result type [gres C ref].

    The unbounded models are convertible to the same terms with [ubind] /
    [ujoin2] / [ufin] in place of [gbind] / [gjoin2] / [gfin]
    (Mgr/OomZbddVProofs.v).  Like DD/ZbddBool.v the restrict cache entry is
    keyed by [[f; vars] []]; the code additionally keys it by the number of
    levels (a later fix, relevant after [add_vars] only - it plays no role for
    the behaviour under a node budget). *)

From Coq Require Import List NArith PArith Bool Arith FMapPositive.
From OxiVerif Require Import DD.Table DD.Sem DD.Build DD.Apply DD.FamSpec DD.ZbddOps DD.ZbddBool Mgr.Oom.
From OxiVerif Require Import Mgr.OomGen Mgr.OomZbdd.
Import ListNotations.

(** [LevelView::get_or_insert(level, InnerNode::new(level, [hi, lo]))] without
    the zero-suppression test of [reduce]; [None] = [Err(OutOfMemory)] *)
Definition zgoi_cap (cap : nat) (s : snap) (lvl : nat) (hi lo : ref) : option (snap * ref) :=
  match get_or_insert_cap cap s lvl [E hi; E lo] with
  | Some (s', e) => Some (s', eref e)
  | None => None
  end.

Section BoundedV.
Variable gt : ref -> ref -> bool.
Variable C : Type.
Variable cget : C -> N -> list ref -> list nat -> option ref.
Variable cadd : C -> N -> list ref -> list nat -> ref -> C.
(** capacity of the inner-node store *)
Variable cap : nat.
(** recursor in use at remaining depth [n]: of the operation itself, of a
    nested algorithm ([apply_not] inside [not_var_edge]) *)
Variable par : nat -> bool.
Variable pin : nat -> bool.

(** ** subset0 / subset1 / change *)

(** the last arm of the match in [subset::<VAL>] *)
Definition zsubset_below_c (s : snap) (c : C) (op : zsub) (f : ref) (vl : nat) : zres_c C :=
  match op with
  | ZSubset0 => GOk s c f
  | ZSubset1 => match zempty s with Some e => GOk s c e | None => GStuck end
  | ZChange =>
    (* reduce(manager, var_level, f, Empty, Change) is the return value *)
    match zempty s with Some e => zfin_c C cap s c vl f e | None => GStuck end
  end.

(** [subset::<VAL>] *)
Fixpoint zsubset_c (fuel : nat) (s : snap) (c : C) (op : zsub) (f : ref) (var vl : nat) : zres_c C :=
  match fuel with
  | O => GStuck
  | S n =>
    match zget s f with
    | None => GStuck
    | Some (ZT _) => zsubset_below_c s c op f vl
    | Some (ZI nd) =>
      match Nat.compare (nstored nd) vl with
      | Lt =>
        match cget c (zsub_code op) [f] [var] with
        | Some h => GOk s c h
        | None =>
          match nchildren nd with
          | [fhi; flo] =>
            (* let (hi, lo) = rec.subset(subset, (fhi, ..), (flo, ..))?;
               let h = reduce(level, hi, lo)?; cache.add(..); Ok(h) *)
            gjoin2 (par n) (zsubset_c n s c op (eref fhi) var vl)
              (fun s1 c1 => zsubset_c n s1 c1 op (eref flo) var vl)
              (fun s2 c2 hi lo =>
                 gfin s2 c2 (zmk_node_cap cap s2 (nstored nd) hi lo)
                      (fun h => cadd c2 (zsub_code op) [f] [var] h) (fun h => h))
          | _ => GStuck
          end
        end
      | Eq =>
        match nchildren nd with
        | [fhi; flo] =>
          match op with
          | ZChange => zfin_c C cap s c (nstored nd) (eref flo) (eref fhi)
          | ZSubset0 => GOk s c (eref flo)
          | ZSubset1 => GOk s c (eref fhi)
          end
        | _ => GStuck
        end
      | Gt => zsubset_below_c s c op f vl
      end
    end
  end.

(** [subset0_edge] / [subset1_edge] / [change_edge] *)
Definition zsubset_top_c (fuel : nat) (s : snap) (c : C) (op : zsub) (f : ref) (var : nat) : zres_c C :=
  match nth_error (s_v2l s) var with
  | Some vl => zsubset_c fuel s c op f var vl
  | None => GStuck
  end.

(** ** The don't-care loop *)

(** [for l in (level..level + cnt).rev() { res = get_or_insert(l, [res, res])? }] *)
Fixpoint zdc_wrap_c (level cnt : nat) (s : snap) (c : C) (e : ref) : zres_c C :=
  match cnt with
  | O => GOk s c e
  | S k =>
    gbind (gfin s c (zgoi_cap cap s (level + k) e e) (fun _ => c) (fun h => h))
      (fun s' c' e' => zdc_wrap_c level k s' c' e')
  end.

(** ** [var_edge], [not_var_edge] *)

Definition zvar_c (s : snap) (c : C) (var : nat) : zres_c C :=
  match nth_error (s_v2l s) var, zempty s with
  | Some level, Some lo =>
    match ztaut s (S level) with
    | Some hi =>
      gbind (gfin s c (zgoi_cap cap s level hi lo) (fun _ => c) (fun h => h))
        (fun s1 c1 e => zdc_wrap_c 0 level s1 c1 e)
    | None => GStuck
    end
  | _, _ => GStuck
  end.

(** [not_edge_owned(manager, var_edge(manager, var)?)] *)
Definition znot_var_c (fuel : nat) (s : snap) (c : C) (var : nat) : zres_c C :=
  gbind (zvar_c s c var) (fun s1 c1 e => zapply_not_c gt C cget cadd cap pin fuel s1 c1 e).

(** ** [restrict] *)

(** the nested [restrict_base(vars, level)] *)
Fixpoint zrestrict_base_c (fuel : nat) (s : snap) (c : C) (vars : ref) (level : nat) : zres_c C :=
  match fuel with
  | O => GStuck
  | S n =>
    match zget s vars with
    | None => GStuck
    | Some (ZT _) =>
      match ztaut s level with Some t => GOk s c t | None => GStuck end
    | Some (ZI nd) =>
      match nchildren nd with
      | [hi; lo] =>
        if negb (ref_eqb (eref hi) (eref lo)) then
          match zempty s with Some e => GOk s c e | None => GStuck end
        else
          let node_level := nstored nd in
          (* let mut res = restrict_base(manager, hi, node_level + 1)?; *)
          gbind (zrestrict_base_c n s c (eref hi) (S node_level))
            (fun s1 c1 res =>
               if Nat.ltb level node_level && negb (is_empty_b s1 res)
               then zdc_wrap_c level (node_level - level) s1 c1 res
               else GOk s1 c1 res)
      | _ => GStuck
      end
    end
  end.

(** [restrict(f, vars, level)]; the nested [restrict_base] gets the fuel of the
    enclosing call as in DD/ZbddBool.v *)
Fixpoint zrestrict_c (fuel : nat) (s : snap) (c : C) (f vars : ref) (level : nat) : zres_c C :=
  match fuel with
  | O => GStuck
  | S n =>
    match zget s f with
    | None => GStuck
    | Some (ZT v) =>
      if N.eqb v 0 then GOk s c f
      else zrestrict_base_c fuel s c vars level
    | Some (ZI fnd) =>
      match zget s vars, nchildren fnd with
      | Some vnode, [fhi; flo] =>
        let flevel := nstored fnd in
        match lcmp (vlevel vnode) (Some level) with
        | Eq =>
          match zkids vnode with
          | None => GStuck
          | Some (vhi, vlo) =>
            if negb (ref_eqb vhi vlo) then
              if negb (Nat.eqb flevel level) then
                match zempty s with Some e => GOk s c e | None => GStuck end
              else
                (* let child = restrict(.., fhi, vhi, level + 1)?; reduce1(level, child) *)
                gbind (zrestrict_c n s c (eref fhi) vhi (S level))
                  (fun s1 c1 child => zfin_c C cap s1 c1 level child child)
            else if negb (Nat.eqb flevel level) then zrestrict_c n s c f vhi (S level)
            else
              (* key = (Restrict, [f, vars], [num_levels]) as in DD/ZbddBool.v (/repo f8637cd) *)
              match cget c zcode_restrict [f; vars] [nlevels s] with
              | Some r => GOk s c r
              | None =>
                (* let (hi, lo) = rec.binary_with_level(restrict, (fhi, vhi, level + 1), (flo, vhi, level + 1))?;
                   let res = reduce(level, hi, lo)?; cache.add(..); Ok(res) *)
                gjoin2 (par n) (zrestrict_c n s c (eref fhi) vhi (S level))
                  (fun s1 c1 => zrestrict_c n s1 c1 (eref flo) vhi (S level))
                  (fun s2 c2 hi lo =>
                     gfin s2 c2 (zmk_node_cap cap s2 level hi lo)
                          (fun r => cadd c2 zcode_restrict [f; vars] [nlevels s] r) (fun r => r))
              end
          end
        | _ =>
          (* vlevel != level: select LO branch *)
          let sel := if Nat.eqb flevel level then eref flo else f in
          gbind (zrestrict_c n s c sel vars (S level))
            (fun s1 c1 child => zfin_c C cap s1 c1 level child child)
        end
      | _, _ => GStuck
      end
    end
  end.

(** [restrict_edge] *)
Definition zrestrict_edge_c (fuel : nat) (s : snap) (c : C) (f vars : ref) : zres_c C :=
  zrestrict_c fuel s c f vars 0.

End BoundedV.

(** ** One call type for the four families *)

Inductive zvcall : Type :=
| ZVSubset (op : zsub) (f : ref) (var : nat)
| ZVRestrict (f vars : ref)
| ZVVar (var : nat)
| ZVNotVar (var : nat).

(** the bounded run *)
Definition zvrun_c (gt : ref -> ref -> bool) (C : Type)
    (cget : C -> N -> list ref -> list nat -> option ref) (cadd : C -> N -> list ref -> list nat -> ref -> C)
    (cap : nat) (par pin : nat -> bool) (fuel : nat) (s : snap) (c : C) (k : zvcall) : gres C ref :=
  match k with
  | ZVSubset op f var => zsubset_top_c C cget cadd cap par fuel s c op f var
  | ZVRestrict f vars => zrestrict_edge_c C cget cadd cap par fuel s c f vars
  | ZVVar var => zvar_c C cap s c var
  | ZVNotVar var => znot_var_c gt C cget cadd cap pin fuel s c var
  end.

(** [var_edge] has no cache: the unbounded [zvar] with the cache unchanged *)
Definition zvar_u (C : Type) (s : snap) (c : C) (var : nat) : option (snap * C * ref) :=
  match zvar s var with
  | Some (s', r) => Some (s', c, r)
  | None => None
  end.

(** the unbounded run: the entry points of DD/ZbddOps.v / DD/ZbddBool.v *)
Definition zvrun_u (gt : ref -> ref -> bool) (C : Type)
    (cget : C -> N -> list ref -> list nat -> option ref) (cadd : C -> N -> list ref -> list nat -> ref -> C)
    (fuel : nat) (s : snap) (c : C) (k : zvcall) : option (snap * C * ref) :=
  match k with
  | ZVSubset op f var => zsubset_top C cget cadd fuel s c op f var
  | ZVRestrict f vars => zrestrict_edge C cget cadd fuel s c f vars
  | ZVVar var => zvar_u C s c var
  | ZVNotVar var => znot_var gt C cget cadd fuel s c var
  end.

(** the part of the hypotheses of the theorems that depends on the call, as a
    checker for real snapshots (operands valid, variable known, [vars] is a cube) *)
Definition zref_ok_b (s : snap) (r : ref) : bool :=
  match zget s r with Some _ => true | None => false end.

Definition zvcall_ok_b (s : snap) (k : zvcall) : bool :=
  match k with
  | ZVSubset _ f var => zref_ok_b s f && Nat.ltb var (length (s_v2l s))
  | ZVRestrict f vars =>
    zref_ok_b s f && match zcube_lits (S (nlevels s)) s vars 0 with Some _ => true | None => false end
  | ZVVar var | ZVNotVar var => Nat.ltb var (length (s_v2l s))
  end.

(** ** The instances the correspondence run evaluates on snapshots of the real
    manager: no apply cache, standard fuel (as [zset_nc] of Mgr/OomZbdd.v) *)

Definition zv_run_nc (cap : nat) (p : bool) (s : snap) (k : zvcall) : gres unit ref :=
  zvrun_c zgt_none unit znc_get znc_add cap (fun _ => p) (fun _ => p) (S (nlevels s)) s tt k.

Definition zv_subset_nc (cap : nat) (p : bool) (s : snap) (op : zsub) (f : ref) (var : nat) : gres unit ref :=
  zsubset_top_c unit znc_get znc_add cap (fun _ => p) (S (nlevels s)) s tt op f var.
Definition zv_restrict_nc (cap : nat) (p : bool) (s : snap) (f vars : ref) : gres unit ref :=
  zrestrict_edge_c unit znc_get znc_add cap (fun _ => p) (S (nlevels s)) s tt f vars.
Definition zv_var_nc (cap : nat) (s : snap) (var : nat) : gres unit ref :=
  zvar_c unit cap s tt var.
Definition zv_notvar_nc (cap : nat) (p : bool) (s : snap) (var : nat) : gres unit ref :=
  znot_var_c zgt_none unit znc_get znc_add cap (fun _ => p) (S (nlevels s)) s tt var.
