(** * The hypotheses of the C14 theorems for subset / change / var / not_var / restrict
    of the ZBDD rule set are satisfiable and every outcome occurs

    On the four-level table [ex_z4] of DD/ZbddExamples.v (7 nodes: the tautology
    chain 4, 5, 6, 7 and the family nodes 1, 2, 3; order var -> level [1; 2; 0; 3])
    the bounded algorithms of Mgr/OomZbddV.v really return out-of-memory for
    small capacities - immediately, or after having created nodes that stay
    behind as garbage (in particular in the middle of the don't-care loops of
    [var_edge] and [restrict_base]) - and the result for larger ones.

    - change(node 3, variable 3): level 3 lies below the whole operand: four
      new nodes (the Lt arm twice, the "variable above the operand" arm);
    - var(3): the node at level 3 and three don't-care nodes above it;
    - not_var(1): the variable (three nodes), then the negation (two more);
    - restrict(Base, node 4): node 4 (the chain edge of level 3) read as a cube
      is "levels 0, 1, 2 false": [restrict_base] creates three don't-care
      nodes in its loop; restrict(node 3, node 5): two nodes by [reduce1]. *)

From Coq Require Import List NArith PArith Bool Arith Lia FMapPositive.
From OxiVerif Require Import DD.Table DD.TableProofs DD.Sem DD.Build DD.BuildProofs DD.Apply
  DD.FamSpec DD.ZbddOps DD.ZbddOpsProofs DD.ZbddSoundProofs DD.ZbddExamples DD.ZbddBool DD.ZbddBoolProofs
  DD.ZbddBoolExamples DD.ZbddEvalProofs DD.ZbddRestrictTop
  Mgr.Oom.
From OxiVerif Require Import Mgr.OomGen Mgr.OomGenProofs Mgr.OomZbdd Mgr.OomZbddProofs Mgr.OomZbddSafe
  Mgr.OomZbddThms Mgr.OomZbddExamples Mgr.OomZbddV Mgr.OomZbddVProofs Mgr.OomZbddVSafe Mgr.OomZbddVThms.
Import ListNotations.

(** the example calls *)
Definition ex_zv_change : zvcall := ZVSubset ZChange (RN 3) 3.
Definition ex_zv_var : zvcall := ZVVar 3.
Definition ex_zv_notvar : zvcall := ZVNotVar 1.
Definition ex_zv_restrict_base : zvcall := ZVRestrict (RT 1%N) (RN 4).
Definition ex_zv_restrict : zvcall := ZVRestrict (RN 3) (RN 5).

(** the call hypotheses hold ([INV] = [ex_z4_state] of Mgr/OomZbddExamples.v) *)
Example ex_zv_calls_ok : forall k,
  In k [ex_zv_change; ZVSubset ZSubset0 (RN 3) 1; ZVSubset ZSubset1 (RN 3) 1; ex_zv_var; ex_zv_notvar;
        ex_zv_restrict_base; ex_zv_restrict] -> zvcall_ok ex_z4 k.
Proof.
  intros k Hk. apply zvcall_ok_b_spec. simpl in Hk.
  repeat (destruct Hk as [<-|Hk]; [vm_compute; reflexivity|]). destruct Hk.
Qed.

(** the cubes as the code reads them *)
Example ex_zv_cubes :
  zcube_lits 5 ex_z4 (RN 4) 0 = Some [(0, false); (1, false); (2, false)] /\
  zcube_lits 5 ex_z4 (RN 5) 0 = Some [(0, false); (1, false)].
Proof. vm_compute. split; reflexivity. Qed.

(** change: nothing fits / garbage (1, 2, 3 nodes) / result; subset0 and
    subset1 of variable 1 (level 2): one node resp. the existing child *)
Example ex_zv_subset_c : forall p,
  map (fun cap => zout (zv_subset_nc cap p ex_z4 ZChange (RN 3) 3)) [0; 7; 8; 9; 10; 11; 12] =
    [(1, Some 7, None); (1, Some 7, None); (1, Some 8, None); (1, Some 9, None); (1, Some 10, None);
     (0, Some 11, Some (RN 11)); (0, Some 11, Some (RN 11))] /\
  map (fun cap => zout (zv_subset_nc cap p ex_z4 ZSubset0 (RN 3) 1)) [7; 8] =
    [(1, Some 7, None); (0, Some 8, Some (RN 8))] /\
  map (fun cap => zout (zv_subset_nc cap p ex_z4 ZSubset1 (RN 3) 1)) [0; 7] =
    [(1, Some 7, None); (1, Some 7, None)] /\
  zout (zv_subset_nc 0 p ex_z4 ZSubset1 (RN 3) 2) = (0, Some 7, Some (RN 1)).
Proof. intros []; vm_compute; repeat split; reflexivity. Qed.

(** var(3): the first insertion fails / the loop fails after 0, 1, 2 of its three
    insertions / result; var(2) (level 0): no loop *)
Example ex_zv_var_c :
  map (fun cap => zout (zv_var_nc cap ex_z4 3)) [0; 7; 8; 9; 10; 11; 12] =
    [(1, Some 7, None); (1, Some 7, None); (1, Some 8, None); (1, Some 9, None); (1, Some 10, None);
     (0, Some 11, Some (RN 11)); (0, Some 11, Some (RN 11))] /\
  map (fun cap => zout (zv_var_nc cap ex_z4 2)) [7; 8] = [(1, Some 7, None); (0, Some 8, Some (RN 8))].
Proof. vm_compute. split; reflexivity. Qed.

(** not_var(1): failures of the negation keep the nodes of the variable *)
Example ex_zv_notvar_c : forall p,
  map (fun cap => zout (zv_notvar_nc cap p ex_z4 1)) [7; 8; 9; 10; 11; 12] =
    [(1, Some 7, None); (1, Some 8, None); (1, Some 9, None); (1, Some 10, None); (1, Some 11, None);
     (0, Some 12, Some (RN 12))].
Proof. intros []; vm_compute; reflexivity. Qed.

(** restrict: the loop of [restrict_base] (three nodes), [reduce1] twice *)
Example ex_zv_restrict_c : forall p,
  map (fun cap => zout (zv_restrict_nc cap p ex_z4 (RT 1%N) (RN 4))) [0; 7; 8; 9; 10; 11] =
    [(1, Some 7, None); (1, Some 7, None); (1, Some 8, None); (1, Some 9, None);
     (0, Some 10, Some (RN 10)); (0, Some 10, Some (RN 10))] /\
  map (fun cap => zout (zv_restrict_nc cap p ex_z4 (RN 3) (RN 5))) [0; 7; 8; 9; 10] =
    [(1, Some 7, None); (1, Some 7, None); (1, Some 8, None); (0, Some 9, Some (RN 9)); (0, Some 9, Some (RN 9))].
Proof. intros []; vm_compute; split; reflexivity. Qed.

(** the nodes left behind by a failed run are not referenced by the handle,
    every old node is unchanged, the table is still a well-formed ZBDD table
    with its tautology chain *)
Definition zv_garbage_ok (n : nat) (r : gres unit ref) : Prop :=
  match r with
  | GOom s' _ =>
      s_handles s' = s_handles ex_z4 /\ zbdd_ok_b s' = true /\ zchain_ok_b s' = true /\ node_count s' = n /\
      forallb (fun p => match find_node s' (fst p) with
                        | Some nd => same_node nd (snd p) | None => false end)
              (PositiveMap.elements (s_nodes ex_z4)) = true
  | _ => False
  end.

Example ex_zv_garbage :
  zv_garbage_ok 9 (zv_subset_nc 9 false ex_z4 ZChange (RN 3) 3) /\
  zv_garbage_ok 10 (zv_subset_nc 10 true ex_z4 ZChange (RN 3) 3) /\
  zv_garbage_ok 9 (zv_var_nc 9 ex_z4 3) /\
  zv_garbage_ok 10 (zv_var_nc 10 ex_z4 3) /\
  zv_garbage_ok 11 (zv_notvar_nc 11 false ex_z4 1) /\
  zv_garbage_ok 9 (zv_restrict_nc 9 false ex_z4 (RT 1%N) (RN 4)) /\
  zv_garbage_ok 8 (zv_restrict_nc 8 true ex_z4 (RN 3) (RN 5)).
Proof. vm_compute. repeat split; reflexivity. Qed.

(** the meaning of the results (capacity large enough): change(node 3, 3) adds
    level 3 to every member; var(3) / not_var(1); node 3 with the levels 0 and 1 false
    (= "level 2 true, level 3 false"); Base with the levels 0, 1, 2 false (= "level 3 false") *)
Example ex_zv_results :
  (match zv_subset_nc 11 false ex_z4 ZChange (RN 3) 3 with
   | GOk s r _ => fam_of s (RN 3) | _ => None end) = Some [[0; 2]; [1]; [2]] /\
  (match zv_subset_nc 11 false ex_z4 ZChange (RN 3) 3 with
   | GOk s _ r => fam_of s r | _ => None end) = Some [[0; 2; 3]; [1; 3]; [2; 3]] /\
  (match zv_var_nc 11 ex_z4 3 with
   | GOk s _ r => ex_tt s r | _ => [] end) = ex_bits [8; 9; 10; 11; 12; 13; 14; 15] /\
  (match zv_notvar_nc 12 false ex_z4 1 with
   | GOk s _ r => ex_tt s r | _ => [] end) = ex_bits [0; 1; 2; 3; 8; 9; 10; 11] /\
  (match zv_restrict_nc 9 false ex_z4 (RN 3) (RN 5) with
   | GOk s _ r => ex_tt s r | _ => [] end) = ex_bits [4; 5; 6; 7] /\
  (match zv_restrict_nc 10 false ex_z4 (RT 1%N) (RN 4) with
   | GOk s _ r => ex_tt s r | _ => [] end) = ex_bits [0; 1; 2; 3; 4; 5; 6; 7].
Proof. vm_compute. repeat split; reflexivity. Qed.

(** the instance of the theorems: whatever the capacity and the recursors, the
    run on [ex_z4] is exactly "result iff it fits" *)
Lemma ex_zv_exact_gen : forall k n, In k [ex_zv_change; ex_zv_var; ex_zv_notvar; ex_zv_restrict_base; ex_zv_restrict] ->
  option_map (fun x => node_count (fst (fst x))) (zvrun_u zgt_none unit znc_get znc_add 5 ex_z4 tt k) = Some n ->
  forall cap p,
  exists su cu ru, zvrun_u zgt_none unit znc_get znc_add 5 ex_z4 tt k = Some (su, cu, ru) /\
    node_count su = n /\ zvcall_spec ex_z4 k su ru /\
    zexact unit znc_get cap ex_z4 (zv_run_nc cap p ex_z4 k) su cu ru.
Proof.
  intros k n Hk Hn cap p.
  destruct (zv_exact zgt_none unit znc_get znc_add znc_lossy cap (fun _ => p) (fun _ => p) 5 ex_z4 tt k)
    as [su [cu [ru [E [Sp X]]]]].
  - apply ex_z4_ok.
  - apply ex_z4_chain.
  - apply znc_okB.
  - apply ex_zv_calls_ok. simpl in Hk |- *. tauto.
  - vm_compute. lia.
  - exists su, cu, ru. split; [exact E|]. split; [|split; [exact Sp | exact X]].
    rewrite E in Hn. simpl in Hn. inversion Hn. reflexivity.
Qed.

Example ex_zv_exact : forall cap p,
  (exists su cu ru, zvrun_u zgt_none unit znc_get znc_add 5 ex_z4 tt ex_zv_change = Some (su, cu, ru) /\
     node_count su = 11 /\ zvcall_spec ex_z4 ex_zv_change su ru /\
     zexact unit znc_get cap ex_z4 (zv_subset_nc cap p ex_z4 ZChange (RN 3) 3) su cu ru) /\
  (exists su cu ru, zvrun_u zgt_none unit znc_get znc_add 5 ex_z4 tt ex_zv_var = Some (su, cu, ru) /\
     node_count su = 11 /\ zvcall_spec ex_z4 ex_zv_var su ru /\
     zexact unit znc_get cap ex_z4 (zv_var_nc cap ex_z4 3) su cu ru) /\
  (exists su cu ru, zvrun_u zgt_none unit znc_get znc_add 5 ex_z4 tt ex_zv_notvar = Some (su, cu, ru) /\
     node_count su = 12 /\ zvcall_spec ex_z4 ex_zv_notvar su ru /\
     zexact unit znc_get cap ex_z4 (zv_notvar_nc cap p ex_z4 1) su cu ru) /\
  (exists su cu ru, zvrun_u zgt_none unit znc_get znc_add 5 ex_z4 tt ex_zv_restrict_base = Some (su, cu, ru) /\
     node_count su = 10 /\ zvcall_spec ex_z4 ex_zv_restrict_base su ru /\
     zexact unit znc_get cap ex_z4 (zv_restrict_nc cap p ex_z4 (RT 1%N) (RN 4)) su cu ru) /\
  (exists su cu ru, zvrun_u zgt_none unit znc_get znc_add 5 ex_z4 tt ex_zv_restrict = Some (su, cu, ru) /\
     node_count su = 9 /\ zvcall_spec ex_z4 ex_zv_restrict su ru /\
     zexact unit znc_get cap ex_z4 (zv_restrict_nc cap p ex_z4 (RN 3) (RN 5)) su cu ru).
Proof.
  intros cap p.
  split; [exact (ex_zv_exact_gen ex_zv_change 11 ltac:(simpl; tauto) ltac:(vm_compute; reflexivity) cap p)|].
  split; [exact (ex_zv_exact_gen ex_zv_var 11 ltac:(simpl; tauto) ltac:(vm_compute; reflexivity) cap p)|].
  split; [exact (ex_zv_exact_gen ex_zv_notvar 12 ltac:(simpl; tauto) ltac:(vm_compute; reflexivity) cap p)|].
  split; [exact (ex_zv_exact_gen ex_zv_restrict_base 10 ltac:(simpl; tauto) ltac:(vm_compute; reflexivity) cap p)|].
  exact (ex_zv_exact_gen ex_zv_restrict 9 ltac:(simpl; tauto) ltac:(vm_compute; reflexivity) cap p).
Qed.

(** ... hence: out-of-memory exactly below 11 slots (change, var) resp. 10
    (restrict of Base), with the manager intact *)
Example ex_zv_exact_consequence : forall cap p,
  (11 <= cap -> gres_code (zv_subset_nc cap p ex_z4 ZChange (RN 3) 3) = 0 /\ gres_code (zv_var_nc cap ex_z4 3) = 0) /\
  (cap < 11 ->
     (exists s' c', zv_subset_nc cap p ex_z4 ZChange (RN 3) 3 = GOom s' c' /\
        zfailed_ok unit znc_get cap ex_z4 s' c') /\
     (exists s' c', zv_var_nc cap ex_z4 3 = GOom s' c' /\ zfailed_ok unit znc_get cap ex_z4 s' c')) /\
  (10 <= cap -> gres_code (zv_restrict_nc cap p ex_z4 (RT 1%N) (RN 4)) = 0) /\
  (cap < 10 -> exists s' c', zv_restrict_nc cap p ex_z4 (RT 1%N) (RN 4) = GOom s' c' /\
     zfailed_ok unit znc_get cap ex_z4 s' c').
Proof.
  intros cap p.
  destruct (ex_zv_exact cap p) as [(s1 & c1 & r1 & _ & N1 & _ & A1 & B1) [(s2 & c2 & r2 & _ & N2 & _ & A2 & B2)
    [_ [(s4 & c4 & r4 & _ & N4 & _ & A4 & B4) _]]]].
  assert (Hc : node_count ex_z4 = 7) by (vm_compute; reflexivity).
  split; [intros Hcap; rewrite A1, A2 by lia; split; reflexivity|].
  split; [intros Hcap; split; [apply B1 | apply B2]; lia|].
  split; [intros Hcap; rewrite A4 by lia; reflexivity|].
  intros Hcap. apply B4. lia.
Qed.
