(** * Out-of-memory behaviour of subset0 / subset1 / change / var / not_var / restrict
    of the ZBDD rule set (Mgr/OomZbddV.v), part 1

    Facts that need no invariant (every table, cache, fuel, capacity, recursor):
    [z*_sim] - when the bounded algorithm returns [GOk s' c' r] the unbounded
    algorithm of DD/ZbddOps.v / DD/ZbddBool.v returns literally [Some (s', c', r)]
    and at most [cap] nodes are stored unless nothing was inserted; when it
    returns [GOom s' c'] no node has disappeared and the store is full; when the
    unbounded algorithm returns a table that fits, the bounded one returns
    exactly that result.  The unbounded functions are shown to be the same terms
    with [ubind] / [ujoin2] / [ufin] ([*_U] lemmas: [reflexivity] for the
    algorithms with a cache, a destruct of the (pair-valued) cache-less helpers
    [zdc_wrap], [zvar], [zrestrict_base] for the others). *)

From Coq Require Import List NArith PArith Bool Arith Lia FMapPositive.
From OxiVerif Require Import DD.Table DD.TableProofs DD.Sem DD.Build DD.BuildProofs
  DD.Apply DD.FamSpec DD.ZbddOps DD.ZbddBool Mgr.Oom Mgr.OomProofs.
From OxiVerif Require Import Mgr.OomGen Mgr.OomGenProofs Mgr.OomBcddProofs Mgr.OomZbdd Mgr.OomZbddProofs
  Mgr.OomZbddV.
Import ListNotations.

(** the cache-less helpers of DD/ZbddBool.v with the cache threaded through *)
Definition zpair_u {C : Type} (c : C) (x : snap * ref) : option (snap * C * ref) :=
  let '(s', r) := x in Some (s', c, r).

Definition zopt_u {C : Type} (c : C) (x : option (snap * ref)) : option (snap * C * ref) :=
  match x with Some (s', r) => Some (s', c, r) | None => None end.

Section Sim.
Variable gt : ref -> ref -> bool.
Variable C : Type.
Variable cget : C -> N -> list ref -> list nat -> option ref.
Variable cadd : C -> N -> list ref -> list nat -> ref -> C.
Variable cap : nat.
Variable par : nat -> bool.
Variable pin : nat -> bool.

Notation SIM := (sim C no_m2 cap 1).

(** ** Leaves *)

Lemma zgoi_leaf : forall s lvl hi lo,
  leaf_rel no_m2 cap 1 s (zgoi_cap cap s lvl hi lo)
    (let '(s', e) := get_or_insert s lvl [E hi; E lo] in (s', eref e)).
Proof.
  intros s lvl hi lo. unfold zgoi_cap.
  apply (leaf_map no_m2 cap 1 edge ref s _ _ (fun e => eref e)).
  apply goi_leaf. exact no_m2_terms.
Qed.

(** [reduce(..)?] whose result is cached *)
Lemma zfin_add_sim : forall s2 c2 lvl hi lo (kc : ref -> C),
  SIM s2 (gfin s2 c2 (zmk_node_cap cap s2 lvl hi lo) kc (fun h => h))
         (ufin (zmk_node s2 lvl hi lo) kc (fun h => h)).
Proof. intros. apply gfin_sim. apply zmk_node_leaf. Qed.

(** ** subset0 / subset1 / change *)

Lemma zsubset_below_U : forall s c op f vl,
  zsubset_below C s c op f vl =
    match op with
    | ZSubset0 => Some (s, c, f)
    | ZSubset1 => match zempty s with Some e => Some (s, c, e) | None => None end
    | ZChange => match zempty s with Some e => zufin C s c vl f e | None => None end
    end.
Proof. reflexivity. Qed.

Lemma zsubset_below_sim : forall s c op f vl,
  SIM s (zsubset_below_c C cap s c op f vl) (zsubset_below C s c op f vl).
Proof.
  intros s c op f vl. rewrite zsubset_below_U. unfold zsubset_below_c.
  destruct op.
  - apply sim_here.
  - destruct (zempty s); [apply sim_here | apply sim_stuck].
  - destruct (zempty s); [apply zfin_sim | apply sim_stuck].
Qed.

Lemma zsubset_U : forall n s c op f var vl,
  zsubset C cget cadd (S n) s c op f var vl =
    match zget s f with
    | None => None
    | Some (ZT _) => zsubset_below C s c op f vl
    | Some (ZI nd) =>
      match Nat.compare (nstored nd) vl with
      | Lt =>
        match cget c (zsub_code op) [f] [var] with
        | Some h => Some (s, c, h)
        | None =>
          match nchildren nd with
          | [fhi; flo] =>
            ujoin2 (zsubset C cget cadd n s c op (eref fhi) var vl)
              (fun s1 c1 => zsubset C cget cadd n s1 c1 op (eref flo) var vl)
              (fun s2 c2 hi lo =>
                 ufin (zmk_node s2 (nstored nd) hi lo)
                      (fun h => cadd c2 (zsub_code op) [f] [var] h) (fun h => h))
          | _ => None
          end
        end
      | Eq =>
        match nchildren nd with
        | [fhi; flo] =>
          match op with
          | ZChange => zufin C s c (nstored nd) (eref flo) (eref fhi)
          | ZSubset0 => Some (s, c, eref flo)
          | ZSubset1 => Some (s, c, eref fhi)
          end
        | _ => None
        end
      | Gt => zsubset_below C s c op f vl
      end
    end.
Proof. reflexivity. Qed.

Lemma zsubset_c_S : forall n s c op f var vl,
  zsubset_c C cget cadd cap par (S n) s c op f var vl =
    match zget s f with
    | None => GStuck
    | Some (ZT _) => zsubset_below_c C cap s c op f vl
    | Some (ZI nd) =>
      match Nat.compare (nstored nd) vl with
      | Lt =>
        match cget c (zsub_code op) [f] [var] with
        | Some h => GOk s c h
        | None =>
          match nchildren nd with
          | [fhi; flo] =>
            gjoin2 (par n) (zsubset_c C cget cadd cap par n s c op (eref fhi) var vl)
              (fun s1 c1 => zsubset_c C cget cadd cap par n s1 c1 op (eref flo) var vl)
              (fun s2 c2 hi lo =>
                 gfin s2 c2 (zmk_node_cap cap s2 (nstored nd) hi lo)
                      (fun h => cadd c2 (zsub_code op) [f] [var] h) (fun h => h))
          | _ => GStuck
          end
        end
      | Eq =>
        match nchildren nd with
        | [fhi; flo] =>
          match op with
          | ZChange => zfin_c C cap s c (nstored nd) (eref flo) (eref fhi)
          | ZSubset0 => GOk s c (eref flo)
          | ZSubset1 => GOk s c (eref fhi)
          end
        | _ => GStuck
        end
      | Gt => zsubset_below_c C cap s c op f vl
      end
    end.
Proof. reflexivity. Qed.

Theorem zsubset_sim : forall fuel s c op f var vl,
  SIM s (zsubset_c C cget cadd cap par fuel s c op f var vl) (zsubset C cget cadd fuel s c op f var vl).
Proof.
  induction fuel as [|n IH]; intros s c op f var vl; [apply sim_stuck|].
  rewrite zsubset_c_S, zsubset_U.
  destruct (zget s f) as [[v|nd]|]; [apply zsubset_below_sim | | apply sim_stuck].
  destruct (Nat.compare (nstored nd) vl).
  - destruct (nchildren nd) as [|fhi [|flo [|x rest]]]; try apply sim_stuck.
    destruct op; [apply sim_here | apply sim_here | apply zfin_sim].
  - destruct (cget c (zsub_code op) [f] [var]); [apply sim_here|].
    destruct (nchildren nd) as [|fhi [|flo [|x rest]]]; try apply sim_stuck.
    apply gjoin2_sim; [apply IH | intros; apply IH | intros; apply zfin_add_sim].
  - apply zsubset_below_sim.
Qed.

Theorem zsubset_top_sim : forall fuel s c op f var,
  SIM s (zsubset_top_c C cget cadd cap par fuel s c op f var) (zsubset_top C cget cadd fuel s c op f var).
Proof.
  intros. unfold zsubset_top_c, zsubset_top.
  destruct (nth_error (s_v2l s) var); [apply zsubset_sim | apply sim_stuck].
Qed.

(** ** The don't-care loop *)

(** [zdc_wrap] in the shape of the bounded loop *)
Lemma zdc_wrap_U : forall cnt level s (c : C) e,
  zpair_u c (zdc_wrap level cnt s e) =
    match cnt with
    | O => Some (s, c, e)
    | S k =>
      ubind (ufin (let '(s', e') := get_or_insert s (level + k) [E e; E e] in (s', eref e'))
                  (fun _ => c) (fun h => h))
        (fun s' c' e' => zpair_u c' (zdc_wrap level k s' e'))
    end.
Proof.
  intros [|k] level s c e; [reflexivity|]. simpl zdc_wrap.
  destruct (get_or_insert s (level + k) [E e; E e]) as [s' e']. reflexivity.
Qed.

Theorem zdc_wrap_sim : forall cnt level s c e,
  SIM s (zdc_wrap_c C cap level cnt s c e) (zpair_u c (zdc_wrap level cnt s e)).
Proof.
  induction cnt as [|k IH]; intros level s c e; rewrite zdc_wrap_U; [apply sim_here|].
  simpl zdc_wrap_c. apply gbind_sim.
  - apply gfin_sim. apply zgoi_leaf.
  - intros s1 c1 x. apply IH.
Qed.

(** ** [var_edge], [not_var_edge] *)

Lemma zvar_U : forall s (c : C) var,
  zvar_u C s c var =
    match nth_error (s_v2l s) var, zempty s with
    | Some level, Some lo =>
      match ztaut s (S level) with
      | Some hi =>
        ubind (ufin (let '(s', e) := get_or_insert s level [E hi; E lo] in (s', eref e))
                    (fun _ => c) (fun h => h))
          (fun s1 c1 e => zpair_u c1 (zdc_wrap 0 level s1 e))
      | None => None
      end
    | _, _ => None
    end.
Proof.
  intros s c var. unfold zvar_u, zvar.
  destruct (nth_error (s_v2l s) var) as [level|]; [|reflexivity].
  destruct (zempty s) as [lo|]; [|reflexivity].
  destruct (ztaut s (S level)) as [hi|]; [|reflexivity].
  destruct (get_or_insert s level [E hi; E lo]) as [s1 e]. simpl.
  destruct (zdc_wrap 0 level s1 (eref e)) as [s2 r]. reflexivity.
Qed.

Theorem zvar_sim : forall s c var, SIM s (zvar_c C cap s c var) (zvar_u C s c var).
Proof.
  intros s c var. rewrite zvar_U. unfold zvar_c.
  destruct (nth_error (s_v2l s) var) as [level|]; [|apply sim_stuck].
  destruct (zempty s) as [lo|]; [|apply sim_stuck].
  destruct (ztaut s (S level)) as [hi|]; [|apply sim_stuck].
  apply gbind_sim.
  - apply gfin_sim. apply zgoi_leaf.
  - intros s1 c1 x. apply zdc_wrap_sim.
Qed.

Lemma znot_var_U : forall fuel s c var,
  znot_var gt C cget cadd fuel s c var =
    ubind (zvar_u C s c var) (fun s1 c1 e => zapply_not gt C cget cadd fuel s1 c1 e).
Proof.
  intros fuel s c var. unfold znot_var, zvar_u. destruct (zvar s var) as [[s1 e]|]; reflexivity.
Qed.

Theorem znot_var_sim : forall fuel s c var,
  SIM s (znot_var_c gt C cget cadd cap pin fuel s c var) (znot_var gt C cget cadd fuel s c var).
Proof.
  intros fuel s c var. rewrite znot_var_U. unfold znot_var_c.
  apply gbind_sim; [apply zvar_sim | intros; apply zapply_not_sim].
Qed.

(** ** [restrict_base] *)

Lemma zrestrict_base_U : forall n s (c : C) vars level,
  zopt_u c (zrestrict_base (S n) s vars level) =
    match zget s vars with
    | None => None
    | Some (ZT _) =>
      match ztaut s level with Some t => Some (s, c, t) | None => None end
    | Some (ZI nd) =>
      match nchildren nd with
      | [hi; lo] =>
        if negb (ref_eqb (eref hi) (eref lo)) then
          match zempty s with Some e => Some (s, c, e) | None => None end
        else
          ubind (zopt_u c (zrestrict_base n s (eref hi) (S (nstored nd))))
            (fun s1 c1 res =>
               if Nat.ltb level (nstored nd) && negb (is_empty_b s1 res)
               then zpair_u c1 (zdc_wrap level (nstored nd - level) s1 res)
               else Some (s1, c1, res))
      | _ => None
      end
    end.
Proof.
  intros n s c vars level. simpl zrestrict_base.
  destruct (zget s vars) as [[v|nd]|]; [|  |reflexivity].
  - destruct (ztaut s level); reflexivity.
  - destruct (nchildren nd) as [|hi [|lo [|x rest]]]; try reflexivity.
    destruct (negb (ref_eqb (eref hi) (eref lo))); [destruct (zempty s); reflexivity|].
    destruct (zrestrict_base n s (eref hi) (S (nstored nd))) as [[s1 res]|]; [|reflexivity].
    simpl. destruct (Nat.ltb level (nstored nd) && negb (is_empty_b s1 res)); [|reflexivity].
    destruct (zdc_wrap level (nstored nd - level) s1 res) as [s2 r]. reflexivity.
Qed.

Lemma zrestrict_base_c_S : forall n s c vars level,
  zrestrict_base_c C cap (S n) s c vars level =
    match zget s vars with
    | None => GStuck
    | Some (ZT _) =>
      match ztaut s level with Some t => GOk s c t | None => GStuck end
    | Some (ZI nd) =>
      match nchildren nd with
      | [hi; lo] =>
        if negb (ref_eqb (eref hi) (eref lo)) then
          match zempty s with Some e => GOk s c e | None => GStuck end
        else
          gbind (zrestrict_base_c C cap n s c (eref hi) (S (nstored nd)))
            (fun s1 c1 res =>
               if Nat.ltb level (nstored nd) && negb (is_empty_b s1 res)
               then zdc_wrap_c C cap level (nstored nd - level) s1 c1 res
               else GOk s1 c1 res)
      | _ => GStuck
      end
    end.
Proof. reflexivity. Qed.

Theorem zrestrict_base_sim : forall fuel s c vars level,
  SIM s (zrestrict_base_c C cap fuel s c vars level) (zopt_u c (zrestrict_base fuel s vars level)).
Proof.
  induction fuel as [|n IH]; intros s c vars level; [apply sim_stuck|].
  rewrite zrestrict_base_c_S, zrestrict_base_U.
  destruct (zget s vars) as [[v|nd]|]; [| |apply sim_stuck].
  - destruct (ztaut s level); [apply sim_here | apply sim_stuck].
  - destruct (nchildren nd) as [|hi [|lo [|x rest]]]; try apply sim_stuck.
    destruct (negb (ref_eqb (eref hi) (eref lo))).
    + destruct (zempty s); [apply sim_here | apply sim_stuck].
    + apply gbind_sim; [apply IH|]. intros s1 c1 res.
      destruct (Nat.ltb level (nstored nd) && negb (is_empty_b s1 res)); [apply zdc_wrap_sim | apply sim_here].
Qed.

(** ** [restrict] *)

Lemma zrestrict_U : forall n s c f vars level,
  zrestrict C cget cadd (S n) s c f vars level =
    match zget s f with
    | None => None
    | Some (ZT v) =>
      if N.eqb v 0 then Some (s, c, f)
      else zopt_u c (zrestrict_base (S n) s vars level)
    | Some (ZI fnd) =>
      match zget s vars, nchildren fnd with
      | Some vnode, [fhi; flo] =>
        let flevel := nstored fnd in
        match lcmp (vlevel vnode) (Some level) with
        | Eq =>
          match zkids vnode with
          | None => None
          | Some (vhi, vlo) =>
            if negb (ref_eqb vhi vlo) then
              if negb (Nat.eqb flevel level) then
                match zempty s with Some e => Some (s, c, e) | None => None end
              else
                ubind (zrestrict C cget cadd n s c (eref fhi) vhi (S level))
                  (fun s1 c1 child => zufin C s1 c1 level child child)
            else if negb (Nat.eqb flevel level) then zrestrict C cget cadd n s c f vhi (S level)
            else
              match cget c zcode_restrict [f; vars] [nlevels s] with
              | Some r => Some (s, c, r)
              | None =>
                ujoin2 (zrestrict C cget cadd n s c (eref fhi) vhi (S level))
                  (fun s1 c1 => zrestrict C cget cadd n s1 c1 (eref flo) vhi (S level))
                  (fun s2 c2 hi lo =>
                     ufin (zmk_node s2 level hi lo)
                          (fun r => cadd c2 zcode_restrict [f; vars] [nlevels s] r) (fun r => r))
              end
          end
        | _ =>
          let sel := if Nat.eqb flevel level then eref flo else f in
          ubind (zrestrict C cget cadd n s c sel vars (S level))
            (fun s1 c1 child => zufin C s1 c1 level child child)
        end
      | _, _ => None
      end
    end.
Proof. reflexivity. Qed.

Lemma zrestrict_c_S : forall n s c f vars level,
  zrestrict_c C cget cadd cap par (S n) s c f vars level =
    match zget s f with
    | None => GStuck
    | Some (ZT v) =>
      if N.eqb v 0 then GOk s c f
      else zrestrict_base_c C cap (S n) s c vars level
    | Some (ZI fnd) =>
      match zget s vars, nchildren fnd with
      | Some vnode, [fhi; flo] =>
        let flevel := nstored fnd in
        match lcmp (vlevel vnode) (Some level) with
        | Eq =>
          match zkids vnode with
          | None => GStuck
          | Some (vhi, vlo) =>
            if negb (ref_eqb vhi vlo) then
              if negb (Nat.eqb flevel level) then
                match zempty s with Some e => GOk s c e | None => GStuck end
              else
                gbind (zrestrict_c C cget cadd cap par n s c (eref fhi) vhi (S level))
                  (fun s1 c1 child => zfin_c C cap s1 c1 level child child)
            else if negb (Nat.eqb flevel level) then zrestrict_c C cget cadd cap par n s c f vhi (S level)
            else
              match cget c zcode_restrict [f; vars] [nlevels s] with
              | Some r => GOk s c r
              | None =>
                gjoin2 (par n) (zrestrict_c C cget cadd cap par n s c (eref fhi) vhi (S level))
                  (fun s1 c1 => zrestrict_c C cget cadd cap par n s1 c1 (eref flo) vhi (S level))
                  (fun s2 c2 hi lo =>
                     gfin s2 c2 (zmk_node_cap cap s2 level hi lo)
                          (fun r => cadd c2 zcode_restrict [f; vars] [nlevels s] r) (fun r => r))
              end
          end
        | _ =>
          let sel := if Nat.eqb flevel level then eref flo else f in
          gbind (zrestrict_c C cget cadd cap par n s c sel vars (S level))
            (fun s1 c1 child => zfin_c C cap s1 c1 level child child)
        end
      | _, _ => GStuck
      end
    end.
Proof. reflexivity. Qed.

Theorem zrestrict_sim : forall fuel s c f vars level,
  SIM s (zrestrict_c C cget cadd cap par fuel s c f vars level) (zrestrict C cget cadd fuel s c f vars level).
Proof.
  induction fuel as [|n IH]; intros s c f vars level; [apply sim_stuck|].
  rewrite zrestrict_c_S, zrestrict_U.
  destruct (zget s f) as [[v|fnd]|]; [| |apply sim_stuck].
  - destruct (N.eqb v 0); [apply sim_here | apply zrestrict_base_sim].
  - destruct (zget s vars) as [vnode|]; [|apply sim_stuck].
    destruct (nchildren fnd) as [|fhi [|flo [|x rest]]]; try apply sim_stuck.
    cbv zeta.
    assert (LO : SIM s
              (gbind (zrestrict_c C cget cadd cap par n s c
                        (if Nat.eqb (nstored fnd) level then eref flo else f) vars (S level))
                 (fun s1 c1 child => zfin_c C cap s1 c1 level child child))
              (ubind (zrestrict C cget cadd n s c
                        (if Nat.eqb (nstored fnd) level then eref flo else f) vars (S level))
                 (fun s1 c1 child => zufin C s1 c1 level child child)))
      by (apply gbind_sim; [apply IH | intros; apply zfin_sim]).
    destruct (lcmp (vlevel vnode) (Some level)); [|exact LO|exact LO].
    destruct (zkids vnode) as [[vhi vlo]|]; [|apply sim_stuck].
    destruct (negb (ref_eqb vhi vlo)).
    + destruct (negb (Nat.eqb (nstored fnd) level)).
      * destruct (zempty s); [apply sim_here | apply sim_stuck].
      * apply gbind_sim; [apply IH | intros; apply zfin_sim].
    + destruct (negb (Nat.eqb (nstored fnd) level)); [apply IH|].
      destruct (cget c zcode_restrict [f; vars] [nlevels s]); [apply sim_here|].
      apply gjoin2_sim; [apply IH | intros; apply IH | intros; apply zfin_add_sim].
Qed.

Theorem zrestrict_edge_sim : forall fuel s c f vars,
  SIM s (zrestrict_edge_c C cget cadd cap par fuel s c f vars) (zrestrict_edge C cget cadd fuel s c f vars).
Proof. intros. apply zrestrict_sim. Qed.

(** ** The four families at once *)

Theorem zvrun_sim : forall fuel s c k,
  SIM s (zvrun_c gt C cget cadd cap par pin fuel s c k) (zvrun_u gt C cget cadd fuel s c k).
Proof.
  intros fuel s c [op f var|f vars|var|var]; simpl.
  - apply zsubset_top_sim.
  - apply zrestrict_edge_sim.
  - apply zvar_sim.
  - apply znot_var_sim.
Qed.

End Sim.
