(** * Out-of-memory behaviour of subset0 / subset1 / change / var / not_var / restrict
    of the ZBDD rule set (Mgr/OomZbddV.v), part 2

    Under the invariant of the C02 / C04 / C09 theorems for ZBDDs ([ZbddOK], the
    tautology chain [ZChainOK], [ZCacheOKB]; operands valid, the variable
    known, [vars] a cube; standard fuel): [z*_c_safe] - the bounded algorithms
    never get stuck, and whatever they return - result or out-of-memory - the
    table they leave is a well-formed ZBDD table (with its tautology chain)
    extending the one they started from, with a correct cache.  In particular
    the tables left by a failure in the middle of a don't-care loop
    ([zdc_wrap_c_fs]: every prefix of the loop keeps the invariant).

    As in Mgr/OomZbddSafe.v only the failure paths are walked ([fail_safe]:
    sub-call preconditions); the [GOk] case is the refinement [z*_sim] plus the
    theorem of the unbounded model ([zsubset_ok], [zvar_ok], [znot_var_ok],
    [zrestrict_base_ok], [zrestrict_ok]). *)

From Coq Require Import List NArith PArith Bool Arith Lia FMapPositive.
From OxiVerif Require Import DD.Table DD.TableProofs DD.Canon DD.Sem DD.Build DD.BuildProofs
  DD.Apply DD.FamSpec DD.FamSpecProofs DD.ZbddOps DD.ZbddOpsProofs DD.ZbddSubsetProofs DD.ZbddSoundProofs
  DD.ZbddVars DD.ZbddVarsProofs DD.ZbddBool DD.ZbddBoolProofs DD.ZbddXorProofs DD.ZbddIteProofs
  DD.ZbddEvalProofs DD.ZbddRestrictProofs DD.ZbddRestrictTop
  Mgr.Oom Mgr.OomProofs.
From OxiVerif Require Import Mgr.OomGen Mgr.OomGenProofs Mgr.OomBcddProofs Mgr.OomZbdd Mgr.OomZbddProofs
  Mgr.OomZbddSafe Mgr.OomZbddV Mgr.OomZbddVProofs.
Import ListNotations.

(** ** One insertion, structurally *)

(** [get_or_insert(lvl, [hi, lo])] with a non-Empty [hi]: the node it returns *)
Lemma zgoi_struct : forall s lvl hi lo s' e,
  ZbddOK s -> lvl < nlevels s -> ref_ok s hi -> ref_ok s lo ->
  lvl < rlevel s hi -> lvl < rlevel s lo -> is_empty_b s hi = false ->
  get_or_insert s lvl [E hi; E lo] = (s', e) ->
  ZbddOK s' /\ extends s s' /\ ref_ok s' (eref e) /\ rlevel s' (eref e) = lvl /\
  is_empty_b s' (eref e) = false.
Proof.
  intros s lvl hi lo s' e B Hl Oh Ol Lh Ll Hne Eg.
  destruct (zden_exists s hi B Oh) as [PA DA]. destruct (zden_exists s lo B Ol) as [PB DB].
  assert (Em : zmk_node s lvl hi lo = (s', eref e)) by (unfold zmk_node; rewrite Hne, Eg; reflexivity).
  destruct (zmk_node_ok s lvl hi lo PA PB s' (eref e) B Hl DA DB Lh Ll Em) as (B' & X & D & _).
  split; [exact B'|]. split; [exact X|]. split; [apply (zden_ok _ _ _ D)|].
  unfold get_or_insert in Eg. destruct (find_dup s lvl [E hi; E lo]) as [id|] eqn:Ed.
  - inversion Eg; subst s' e. simpl eref. destruct (find_dup_some s lvl _ id Ed) as [nd [E0 [El _]]].
    split; [rewrite (rlevel_node s id nd E0); exact El | reflexivity].
  - injection Eg as Hs He. subst s' e. simpl eref. split; [|reflexivity].
    rewrite (rlevel_node _ _ _ (ins_find_new s lvl [E hi; E lo])). reflexivity.
Qed.

(** ** subset0 / subset1 / change under the full cache invariant
    (as [zsubset_okB] of Mgr/HistoryZBase.v, restated here to keep the imports small) *)

Section SubsetB.
Variable C : Type.
Variable cget : C -> N -> list ref -> list nat -> option ref.
Variable cadd : C -> N -> list ref -> list nat -> ref -> C.
Hypothesis Hlossy : zlossy C cget cadd.

Lemma zv_subset_served : forall op var vl fuel s c f s' c' r,
  zsubset C cget cadd fuel s c op f var vl = Some (s', c', r) ->
  served_by C cget c c' (fun k => k = zsub_code op).
Proof.
  intros op var vl. induction fuel as [|n IH]; intros s c f s' c' r E; [discriminate|].
  rewrite (zsubset_S C cget cadd) in E.
  destruct (zget s f) as [[v|nd]|]; [| |discriminate].
  - unfold zsubset_below in E. destruct op, (zempty s); try discriminate;
      try (inversion E; subst; apply served_refl).
    destruct (zmk_node s vl f r0). inversion E; subst. apply served_refl.
  - destruct (Nat.compare (nstored nd) vl).
    + destruct (nchildren nd) as [|fhi [|flo [|x rest]]]; try discriminate.
      destruct op; try (inversion E; subst; apply served_refl).
      destruct (zmk_node s (nstored nd) (eref flo) (eref fhi)). inversion E; subst. apply served_refl.
    + destruct (cget c (zsub_code op) [f] [var]); [inversion E; subst; apply served_refl|].
      destruct (nchildren nd) as [|fhi [|flo [|x rest]]]; try discriminate.
      destruct (zsubset C cget cadd n s c op (eref fhi) var vl) as [[[s1 c1] hi]|] eqn:E1; [|discriminate].
      destruct (zsubset C cget cadd n s1 c1 op (eref flo) var vl) as [[[s2 c2] lo]|] eqn:E2; [|discriminate].
      destruct (zmk_node s2 (nstored nd) hi lo) as [s3 h]. inversion E; subst.
      apply (served_trans C cget c c1); [apply (IH _ _ _ _ _ _ E1)|].
      apply (served_trans C cget c1 c2); [apply (IH _ _ _ _ _ _ E2)|].
      apply (served_add C cget cadd Hlossy). reflexivity.
    + unfold zsubset_below in E. destruct op, (zempty s); try discriminate;
        try (inversion E; subst; apply served_refl).
      destruct (zmk_node s vl f r0). inversion E; subst. apply served_refl.
Qed.

Theorem zv_subset_okB : forall op var vl fuel s c f P,
  ZbddOK s -> ZCacheOKB C cget s c -> ZDen s f P -> nth_error (s_v2l s) var = Some vl ->
  nlevels s - rlevel s f < fuel ->
  zresult_okB C cget s (zsubset C cget cadd fuel s c op f var vl) (psub op vl P).
Proof.
  intros op var vl fuel s c f P B O DF Ev Hf.
  destruct (zsubset_ok C cget cadd Hlossy op var vl fuel s c f P B (zcacheokb_ok C cget s c O) DF Ev Hf)
    as (s' & c' & r & E & B' & X & O' & D).
  exists s', c', r. split; [exact E|]. split; [exact B'|]. split; [exact X|]. split; [|exact D].
  intros code args nums x Ex.
  destruct (zv_subset_served op var vl fuel s c f s' c' r E _ _ _ _ Ex) as [E0| ->].
  - apply (zcacheokb_extends C cget s s' c B X O _ _ _ _ E0).
  - split; [apply (O' _ _ _ _ Ex)|]. apply zentry_x_other; destruct op; discriminate.
Qed.

End SubsetB.

Section Safe.
Variable gt : ref -> ref -> bool.
Variable C : Type.
Variable cget : C -> N -> list ref -> list nat -> option ref.
Variable cadd : C -> N -> list ref -> list nat -> ref -> C.
Hypothesis Hlossy : zlossy C cget cadd.
Variable cap : nat.
Variable par : nat -> bool.
Variable pin : nat -> bool.

Notation ZCacheOKB := (ZCacheOKB C cget).
Notation ZINV := (ZInv C cget).
Notation RS := (res_safe (ZInv C cget) extends Qref).
Notation RSQ Q := (res_safe (ZInv C cget) extends Q).
Notation FS := (fail_safe (ZInv C cget) extends).

(** the invariant in an extension *)
Lemma zinv_extends : forall s s' c, ZbddOK s' -> extends s s' -> ZINV s c -> ZINV s' c.
Proof.
  intros s s' c B' X [B [Hch O]]. split; [exact B'|].
  split; [apply (zchain_extends s s' B B' X Hch) | apply (zcacheokb_extends C cget s s' c B X O)].
Qed.

(** [reduce(..)?; cache.add(..)]: on failure the table is the one it was given *)
Lemma zfin_add_fs : forall s c lvl hi lo (kc : ref -> C), ZINV s c ->
  FS s (gfin s c (zmk_node_cap cap s lvl hi lo) kc (fun h => h)).
Proof. intros. apply gfin_safe; [assumption | apply extends_refl]. Qed.

(** one [get_or_insert(..)?] of the loops: what the next iteration needs *)
Definition Qdc (L : nat) (s : snap) (r : ref) : Prop :=
  ref_ok s r /\ is_empty_b s r = false /\ rlevel s r = L.

Lemma zgoi_step_rs : forall s c lvl hi lo, ZINV s c ->
  lvl < nlevels s -> ref_ok s hi -> ref_ok s lo ->
  lvl < rlevel s hi -> lvl < rlevel s lo -> is_empty_b s hi = false ->
  RSQ (Qdc lvl) s (gfin s c (zgoi_cap cap s lvl hi lo) (fun _ => c) (fun h => h)).
Proof.
  intros s c lvl hi lo I0 Hl Oh Ol Lh Ll Hne. unfold zgoi_cap.
  destruct (get_or_insert_cap cap s lvl [E hi; E lo]) as [[s' e]|] eqn:Ec; simpl.
  - destruct (get_or_insert_cap_some cap s lvl _ _ Ec) as [Eg _].
    destruct I0 as [B [Hch O]].
    destruct (zgoi_struct s lvl hi lo s' e B Hl Oh Ol Lh Ll Hne Eg) as (B' & X & Or & Lr & Er).
    split; [apply (zinv_extends s s' c B' X); split; [exact B | split; assumption]|].
    split; [exact X|]. split; [exact Or|]. split; assumption.
  - split; [exact I0 | apply extends_refl].
Qed.

(** ** The don't-care loop: every prefix keeps the invariant *)

Lemma zdc_wrap_c_fs : forall cnt lvl s c e, ZINV s c ->
  ref_ok s e -> is_empty_b s e = false -> lvl + cnt <= rlevel s e ->
  FS s (zdc_wrap_c C cap lvl cnt s c e).
Proof.
  induction cnt as [|k IH]; intros lvl s c e I0 Oe Ee Le; [exact I|].
  simpl zdc_wrap_c.
  assert (B : ZbddOK s) by apply I0. pose proof (rlevel_le s (zo_wf s B) e) as Hle.
  apply (gbind_safe C ZINV extends extends_trans ref ref (Qdc (lvl + k))).
  - apply zgoi_step_rs; auto; lia.
  - intros s1 c1 x I1 X1 (Ox & Ex & Lx). apply IH; auto. lia.
Qed.

(** ** subset0 / subset1 / change *)

Lemma zsubset_below_c_fs : forall s c op f vl, ZINV s c -> FS s (zsubset_below_c C cap s c op f vl).
Proof.
  intros s c op f vl I0. assert (B : ZbddOK s) by apply I0.
  destruct (zempty_spec s B) as [te [Ee _]]. unfold zsubset_below_c. rewrite Ee.
  destruct op; [exact I | exact I | apply zfin_c_fs; exact I0].
Qed.

Theorem zsubset_c_safe : forall op var vl fuel s c f,
  ZbddOK s -> ZChainOK s -> ZCacheOKB s c -> ref_ok s f -> nth_error (s_v2l s) var = Some vl ->
  nlevels s - rlevel s f < fuel ->
  RS s (zsubset_c C cget cadd cap par fuel s c op f var vl).
Proof.
  intros op var vl. induction fuel as [|n IH]; intros s c f B Hch O Of Ev Hfuel; [lia|].
  destruct (zden_exists s f B Of) as [P DF].
  apply safe_intro.
  2:{ intros s' c' r E.
      pose proof (sim_never_wrong C no_m2 cap 1 ref _ _ _ _ _ _
                    (zsubset_sim C cget cadd cap par (S n) s c op f var vl) E) as Eu.
      apply (zresultB_inv C cget s _ (psub op vl P) s' c' r B Hch
               (zv_subset_okB C cget cadd Hlossy op var vl (S n) s c f P B O DF Ev Hfuel) Eu). }
  clear DF P.
  assert (I0 : ZINV s c) by (split; [exact B | split; assumption]).
  pose proof (zo_wf s B) as H.
  rewrite zsubset_c_S.
  destruct f as [t|id].
  - destruct Of as [v Et]. simpl zget. rewrite Et. apply zsubset_below_c_fs. exact I0.
  - destruct Of as [nd En]. simpl zget. rewrite En.
    destruct (znode_struct s id nd B En) as (Sf & Lf & Rf & fhi & flo & Ec & Ofh & Ofl & LA & LB).
    rewrite Ec. rewrite Rf in Hfuel.
    destruct (Nat.compare (nstored nd) vl).
    + destruct op; [exact I | exact I | apply zfin_c_fs; exact I0].
    + destruct (cget c (zsub_code op) [RN id] [var]); [exact I|].
      pose proof (rlevel_le s H (eref fhi)). pose proof (rlevel_le s H (eref flo)).
      apply (gjoin2_safe C ZINV extends extends_trans ref ref ref Qref Qref).
      * apply IH; auto. lia.
      * intros s1 c1 [B1 [Hch1 O1]] X1. apply IH; auto.
        -- apply (ext_ref_ok _ _ _ X1 Ofl).
        -- rewrite (ext_v2l _ _ X1). exact Ev.
        -- rewrite (ext_nlevels _ _ X1), (ext_rlevel _ _ _ X1 Ofl). lia.
      * intros s2 c2 hi lo I2 X2. apply zfin_add_fs. exact I2.
    + apply zsubset_below_c_fs. exact I0.
Qed.

Theorem zsubset_top_c_safe : forall op fuel s c f var,
  ZbddOK s -> ZChainOK s -> ZCacheOKB s c -> ref_ok s f -> var < length (s_v2l s) ->
  nlevels s < fuel ->
  RS s (zsubset_top_c C cget cadd cap par fuel s c op f var).
Proof.
  intros op fuel s c f var B Hch O Of Hv Hfuel. unfold zsubset_top_c.
  destruct (nth_error (s_v2l s) var) as [vl|] eqn:Ev; [|apply nth_error_None in Ev; lia].
  apply zsubset_c_safe; auto. lia.
Qed.

(** ** [var_edge] *)

Theorem zvar_c_safe : forall s c var,
  ZbddOK s -> ZChainOK s -> ZCacheOKB s c -> var < length (s_v2l s) ->
  RS s (zvar_c C cap s c var).
Proof.
  intros s c var B Hch O Hv.
  assert (I0 : ZINV s c) by (split; [exact B | split; assumption]).
  apply safe_intro.
  2:{ intros s' c' r E.
      pose proof (sim_never_wrong C no_m2 cap 1 ref _ _ _ _ _ _ (zvar_sim C cap s c var) E) as Eu.
      destruct (zvar_ok s var B Hch Hv) as (L & s1 & r1 & _ & Ez & B1 & X1 & D1).
      unfold zvar_u in Eu. rewrite Ez in Eu. inversion Eu; subst s1 c' r1.
      split; [apply (zinv_extends s s' c B1 X1 I0)|]. split; [exact X1 | apply (zden_ok _ _ _ D1)]. }
  pose proof (zo_wf s B) as H.
  unfold zvar_c.
  destruct (nth_error (s_v2l s) var) as [L|] eqn:Ev; [|apply nth_error_None in Ev; lia].
  pose proof (v2l_range s var L H Ev) as HL.
  destruct (zempty_spec s B) as [te [Ee Ete]]. rewrite Ee.
  destruct (ztaut_total s (S L) Hch) as [hi Ehi]. rewrite Ehi.
  pose proof (ztaut_den s (S L) hi B Ehi) as Dhi. rewrite Nat.min_l in Dhi by lia.
  assert (Hne : is_empty_b s hi = false).
  { apply (nonempty_not_empty s hi _ [] B Dhi). split; [exact I | constructor]. }
  assert (Lh : L < rlevel s hi).
  { apply (zden_level s hi _ (S L) B Dhi); [lia|]. intros S [Hi _]. exact Hi. }
  apply (gbind_safe C ZINV extends extends_trans ref ref (Qdc L)).
  - apply zgoi_step_rs; auto; [apply (zden_ok _ _ _ Dhi) | exists 0%N; exact Ete].
  - intros s1 c1 x I1 X1 (Ox & Ex & Lx). apply zdc_wrap_c_fs; auto. lia.
Qed.

(** ** [not_var_edge] *)

Theorem znot_var_c_safe : forall fuel s c var,
  ZbddOK s -> ZChainOK s -> ZCacheOKB s c -> var < length (s_v2l s) -> nlevels s < fuel ->
  RS s (znot_var_c gt C cget cadd cap pin fuel s c var).
Proof.
  intros fuel s c var B Hch O Hv Hfuel. unfold znot_var_c.
  apply (then_not_c_safe gt C cget cadd Hlossy cap pin); auto.
  apply zvar_c_safe; auto.
Qed.

(** ** [restrict_base] *)

(** the result of [restrict_base(vars, lvl)] lies at or below [lvl] *)
Definition Qlev (lvl : nat) (s : snap) (r : ref) : Prop := ref_ok s r /\ lvl <= rlevel s r.

Theorem zrestrict_base_c_safe : forall fuel s c vars lvl M,
  ZbddOK s -> ZChainOK s -> ZCacheOKB s c -> ZCube s M lvl vars -> lvl <= nlevels s ->
  nlevels s - lvl < fuel ->
  RSQ (Qlev lvl) s (zrestrict_base_c C cap fuel s c vars lvl).
Proof.
  induction fuel as [|n IH]; intros s c vars lvl M B Hch O Hc Hl Hfuel; [lia|].
  assert (I0 : ZINV s c) by (split; [exact B | split; assumption]).
  apply safe_intro.
  2:{ intros s' c' r E.
      pose proof (sim_never_wrong C no_m2 cap 1 ref _ _ _ _ _ _
                    (zrestrict_base_sim C cap (S n) s c vars lvl) E) as Eu.
      destruct (zrestrict_base_ok (S n) s vars lvl M B Hch Hc Hl Hfuel) as (s1 & r1 & Ez & B1 & X1 & D1).
      rewrite Ez in Eu. simpl in Eu. inversion Eu; subst s1 c' r1.
      split; [apply (zinv_extends s s' c B1 X1 I0)|]. split; [exact X1|].
      split; [apply (zden_ok _ _ _ D1)|].
      apply (zden_level s' r _ lvl B1 D1); [rewrite (ext_nlevels _ _ X1); exact Hl|].
      intros S [Hi _]. exact Hi. }
  pose proof (zo_wf s B) as H.
  rewrite zrestrict_base_c_S.
  destruct Hc as [lvl t Et Hneg | lvl id nd hi En Ec Hle Hneg Hm Hc' | lvl id nd hi lo En Ec Hne He Hle Hneg Hm Hc'].
  - simpl zget. rewrite Et. destruct (ztaut_total s lvl Hch) as [ta Eta]. rewrite Eta. exact I.
  - pose proof (wf_level s H id nd En) as HL.
    simpl zget. rewrite En, Ec. simpl eref. rewrite (proj2 (ref_eqb_eq hi hi) eq_refl). simpl negb. cbv iota.
    rewrite (wf_stored s H id nd En).
    apply (gbind_safe C ZINV extends extends_trans ref ref (Qlev (S (nlevel nd)))).
    + apply (IH s c hi (S (nlevel nd)) M); auto; lia.
    + intros s1 c1 res I1 X1 [Ores Lres].
      destruct (Nat.ltb lvl (nlevel nd) && negb (is_empty_b s1 res)) eqn:Econd; [|exact I].
      apply andb_true_iff in Econd. destruct Econd as [Hlt Hne]. apply Nat.ltb_lt in Hlt.
      apply negb_true_iff in Hne.
      apply zdc_wrap_c_fs; auto. lia.
  - simpl zget. rewrite En, Ec. simpl eref.
    destruct (ref_eqb hi lo) eqn:Er; [apply ref_eqb_eq in Er; contradiction|]. simpl negb. cbv iota.
    destruct (zempty_spec s B) as [te [Ee Ete]]. rewrite Ee. exact I.
Qed.

(** ** [restrict] *)

Theorem zrestrict_c_safe : forall fuel s c f vars lvl M,
  ZbddOK s -> ZChainOK s -> ZCacheOKB s c -> ref_ok s f -> ZCube s M lvl vars ->
  lvl <= rlevel s f -> nlevels s - lvl < fuel ->
  RS s (zrestrict_c C cget cadd cap par fuel s c f vars lvl).
Proof.
  induction fuel as [|n IH]; intros s c f vars lvl M B Hch O Of Hc Hlf Hfuel; [lia|].
  assert (I0 : ZINV s c) by (split; [exact B | split; assumption]).
  destruct (zden_exists s f B Of) as [P DF].
  apply safe_intro.
  2:{ intros s' c' r E.
      pose proof (sim_never_wrong C no_m2 cap 1 ref _ _ _ _ _ _
                    (zrestrict_sim C cget cadd cap par (S n) s c f vars lvl) E) as Eu.
      apply (zresultB_inv C cget s _ (prestr (nlevels s) M lvl P) s' c' r B Hch
               (zrestrict_ok C cget cadd Hlossy (S n) s c f vars lvl P M B Hch O DF Hc Hlf Hfuel) Eu). }
  clear DF P.
  pose proof (zo_wf s B) as H.
  rewrite zrestrict_c_S.
  destruct f as [t|idf].
  - (* terminal operand *)
    destruct Of as [v Ev]. simpl zget. rewrite Ev.
    destruct (N.eqb v 0); [exact I|].
    simpl in Hlf.
    apply (res_fail_safe C ZINV extends ref (Qlev lvl)).
    apply (zrestrict_base_c_safe (S n) s c vars lvl M); auto.
  - (* inner operand *)
    destruct Of as [fnd Enf]. simpl zget. rewrite Enf.
    destruct (znode_struct s idf fnd B Enf) as (Sf & Lf & Rf & fhi & flo & Ecf & Ofh & Ofl & LA & LB).
    rewrite Rf in Hlf. rewrite Ecf, Sf.
    assert (Hl : lvl < nlevels s) by lia.
    assert (Of : ref_ok s (RN idf)) by (exists fnd; exact Enf).
    (* a recursive call followed by [reduce1] *)
    assert (Rec1 : forall x vars', ref_ok s x -> ZCube s M (S lvl) vars' -> S lvl <= rlevel s x ->
              FS s (gbind (zrestrict_c C cget cadd cap par n s c x vars' (S lvl))
                      (fun s1 c1 child => zfin_c C cap s1 c1 lvl child child))).
    { intros x vars' Ox Hc' Lx.
      apply (gbind_safe C ZINV extends extends_trans ref ref Qref).
      - apply (IH s c x vars' (S lvl) M); auto. lia.
      - intros s1 c1 child I1 X1 _. apply zfin_c_fs. exact I1. }
    destruct (zcube_cases s M lvl vars B Hc Hl)
      as [(vnode & Ev & Hcmp & Hm & Hc')|(vnode & vhi & vlo & Ev & Hcmp & Ekv & Hc' & Hcase)];
      rewrite Ev; cbv zeta.
    + (* negative literal at lvl: LO branch *)
      assert (Hgoal : FS s
                (gbind (zrestrict_c C cget cadd cap par n s c
                          (if Nat.eqb (nlevel fnd) lvl then eref flo else RN idf) vars (S lvl))
                   (fun s1 c1 child => zfin_c C cap s1 c1 lvl child child))).
      { destruct (Nat.eqb_spec (nlevel fnd) lvl) as [Heq|Hneq].
        - apply Rec1; auto. lia.
        - apply Rec1; auto. rewrite Rf. lia. }
      destruct (lcmp (vlevel vnode) (Some lvl)); [contradiction | exact Hgoal | exact Hgoal].
    + rewrite Hcmp, Ekv.
      destruct Hcase as [[Er Hm]|[Er Hm]]; rewrite Er; simpl negb; cbv iota.
      * (* no literal at lvl *)
        destruct (Nat.eqb_spec (nlevel fnd) lvl) as [Heq|Hneq]; simpl negb; cbv iota.
        -- destruct (cget c zcode_restrict [RN idf; vars] [nlevels s]); [exact I|].
           pose proof (rlevel_le s H (eref fhi)). pose proof (rlevel_le s H (eref flo)).
           apply (gjoin2_safe C ZINV extends extends_trans ref ref ref Qref Qref).
           ++ apply (IH s c (eref fhi) vhi (S lvl) M); auto; lia.
           ++ intros s1 c1 [B1 [Hch1 O1]] X1.
              apply (IH s1 c1 (eref flo) vhi (S lvl) M); auto.
              ** apply (ext_ref_ok _ _ _ X1 Ofl).
              ** apply (zcube_extends s s1 M _ _ X1 Hc').
              ** rewrite (ext_rlevel _ _ _ X1 Ofl). lia.
              ** rewrite (ext_nlevels _ _ X1). lia.
           ++ intros s2 c2 hi lo I2 X2. apply zfin_add_fs. exact I2.
        -- apply (res_fail_safe C ZINV extends ref Qref).
           apply (IH s c (RN idf) vhi (S lvl) M); auto; [rewrite Rf; lia | lia].
      * (* positive literal at lvl: HI branch *)
        destruct (Nat.eqb_spec (nlevel fnd) lvl) as [Heq|Hneq]; simpl negb; cbv iota.
        -- apply Rec1; auto. lia.
        -- destruct (zempty_spec s B) as [te [Ee Ete]]. rewrite Ee. exact I.
Qed.

Theorem zrestrict_edge_c_safe : forall fuel s c f vars M,
  ZbddOK s -> ZChainOK s -> ZCacheOKB s c -> ref_ok s f -> ZCube s M 0 vars -> nlevels s < fuel ->
  RS s (zrestrict_edge_c C cget cadd cap par fuel s c f vars).
Proof.
  intros fuel s c f vars M B Hch O Of Hc Hfuel. unfold zrestrict_edge_c.
  apply (zrestrict_c_safe fuel s c f vars 0 M); auto; lia.
Qed.

End Safe.

(** ** The hypotheses on the call, the semantic statement of its result *)

(** operands valid, variable known, [vars] a conjunction of literals *)
Definition zvcall_ok (s : snap) (k : zvcall) : Prop :=
  match k with
  | ZVSubset _ f var => ref_ok s f /\ var < length (s_v2l s)
  | ZVRestrict f vars => ref_ok s f /\ exists lits, zcube_lits (S (nlevels s)) s vars 0 = Some lits
  | ZVVar var | ZVNotVar var => var < length (s_v2l s)
  end.

(** what the result [r] (in the table [s']) of the call [k] started in [s] means:
    - subset0 / subset1 / change: the family of [r] is the documented set
      expression [f_sub] (DD/FamSpec.v) of the family of the operand (C09);
    - restrict: the Boolean function of [r] is the cofactor of the function of
      [f] w.r.t. the literals of the cube (C04);
    - var / not_var: the Boolean view of [r] is "the variable's level is true"
      resp. its negation (C02) *)
Definition zvcall_spec (s : snap) (k : zvcall) (s' : snap) (r : ref) : Prop :=
  match k with
  | ZVSubset op f var =>
    exists vl F R, nth_error (s_v2l s) var = Some vl /\
      fam_of s f = Some F /\ fam_of s' r = Some R /\ feq R (f_sub op vl F)
  | ZVRestrict f vars =>
    forall lits, zcube_lits (S (nlevels s)) s vars 0 = Some lits ->
      (forall c0, choice_ok s c0 -> zview_of s' r c0 = zview_of s f (covr (lits_map lits) c0)) /\
      (forall a, zbfun_of s' r a = restrict_s (lits_vars s lits) (zbfun_of s f) a)
  | ZVVar var =>
    exists L, nth_error (s_v2l s) var = Some L /\
      forall c0, choice_ok s c0 -> zview_of s' r c0 = Some (Nat.eqb (c0 L) 0)
  | ZVNotVar var =>
    exists L, nth_error (s_v2l s) var = Some L /\
      forall c0, choice_ok s c0 -> zview_of s' r c0 = Some (negb (Nat.eqb (c0 L) 0))
  end.

Lemma zref_ok_b_spec : forall s r, zref_ok_b s r = true <-> ref_ok s r.
Proof.
  intros s [t|id]; unfold zref_ok_b; simpl.
  - destruct (term_val s t) as [v|]; split; try discriminate; eauto. intros [v Hv]. discriminate.
  - destruct (find_node s id) as [nd|]; split; try discriminate; eauto. intros [v Hv]. discriminate.
Qed.

Theorem zvcall_ok_b_spec : forall s k, zvcall_ok_b s k = true <-> zvcall_ok s k.
Proof.
  intros s [op f var|f vars|var|var]; unfold zvcall_ok_b, zvcall_ok.
  - rewrite andb_true_iff, zref_ok_b_spec, Nat.ltb_lt. reflexivity.
  - rewrite andb_true_iff, zref_ok_b_spec.
    destruct (zcube_lits (S (nlevels s)) s vars 0) as [lits|].
    + split; intros [A _]; (split; [exact A|]); [exists lits; reflexivity | reflexivity].
    + split; intros [A Bx]; [discriminate | destruct Bx as [l Hl]; discriminate].
  - apply Nat.ltb_lt.
  - apply Nat.ltb_lt.
Qed.
