(** * Out-of-memory behaviour of subset0 / subset1 / change / var / not_var / restrict
    of the ZBDD rule set (Mgr/OomZbddV.v), part 3

    The C14 statements, for all four families at once (the call [k : zvcall],
    the bounded run [zvrun_c], the unbounded run [zvrun_u] = the entry points of
    DD/ZbddOps.v / DD/ZbddBool.v): [zv_never_wrong], [zv_retry], [zv_monotone]
    (no hypothesis), [zv_never_wrong_sem], [zv_safe], [zv_no_panic], [zv_exact],
    [zv_outcome_recursor_indep] (invariant of the [zoom_*] statements of
    Mgr/OomZbddThms.v: [ZbddOK], [ZChainOK], [ZCacheOKB]; [zvcall_ok]; fuel
    [ZFUEL s <= fuel]); the failed state is [zfailed_ok], exactness [zexact] of
    Mgr/OomZbddThms.v.  The per-family instances are at the end. *)

From Coq Require Import List NArith PArith Bool Arith Lia FMapPositive.
From OxiVerif Require Import DD.Table DD.TableExtra DD.TableProofs DD.Canon DD.Sem DD.Build DD.BuildProofs DD.PickInsert
  DD.Apply DD.ApplyProofs DD.ApplyEvalProofs DD.FamSpec DD.FamSpecProofs DD.ZbddOps DD.ZbddOpsProofs
  DD.ZbddSubsetProofs DD.ZbddSoundProofs DD.ZbddVars DD.ZbddVarsProofs
  DD.ZbddBool DD.ZbddBoolProofs DD.ZbddXorProofs DD.ZbddIteProofs DD.ZbddEvalProofs
  DD.ZbddRestrictProofs DD.ZbddRestrictTop
  Mgr.Oom Mgr.OomProofs.
From OxiVerif Require Import Mgr.OomGen Mgr.OomGenProofs Mgr.OomBcddProofs Mgr.OomZbdd Mgr.OomZbddProofs
  Mgr.OomZbddSafe Mgr.OomZbddThms Mgr.OomZbddV Mgr.OomZbddVProofs Mgr.OomZbddVSafe.
Import ListNotations.

Section Top.
Variable gt : ref -> ref -> bool.
Variable C : Type.
Variable cget : C -> N -> list ref -> list nat -> option ref.
Variable cadd : C -> N -> list ref -> list nat -> ref -> C.

Notation ZCacheOKB := (ZCacheOKB C cget).
Notation SIM cap := (sim C no_m2 cap 1).
Notation RS := (res_safe (ZInv C cget) extends Qref).
Notation RUNC cap par pin := (zvrun_c gt C cget cadd cap par pin).
Notation RUNU := (zvrun_u gt C cget cadd).

(** ** Without hypotheses *)

(** never a wrong edge: a result is literally the result of the unbounded run *)
Theorem zv_never_wrong : forall cap par pin fuel s c k s' c' r,
  RUNC cap par pin fuel s c k = GOk s' c' r -> RUNU fuel s c k = Some (s', c', r).
Proof.
  intros cap par pin fuel s c k s' c' r E.
  apply (sim_never_wrong C no_m2 cap 1 ref _ _ _ _ _ _ (zvrun_sim gt C cget cadd cap par pin fuel s c k) E).
Qed.

(** retry: when the table of the unbounded run fits, the bounded run succeeds
    with exactly that result *)
Theorem zv_retry : forall cap par pin fuel s c k su cu ru,
  RUNU fuel s c k = Some (su, cu, ru) -> node_count su <= cap ->
  RUNC cap par pin fuel s c k = GOk su cu ru.
Proof.
  intros cap par pin fuel s c k su cu ru E Hfit. apply (zsim_retry C cap s _ su cu ru); [|exact Hfit].
  rewrite <- E. apply zvrun_sim.
Qed.

(** monotone in the capacity, whatever the recursors *)
Theorem zv_monotone : forall cap cap' par par' pin pin' fuel s c k s' c' r, cap <= cap' ->
  RUNC cap par pin fuel s c k = GOk s' c' r -> RUNC cap' par' pin' fuel s c k = GOk s' c' r.
Proof.
  intros cap cap' par par' pin pin' fuel s c k s' c' r Hle E.
  apply (zsim_mono C cap cap' s _ _ _ s' c' r Hle (zvrun_sim gt C cget cadd cap par pin fuel s c k)
           (zvrun_sim gt C cget cadd cap' par' pin' fuel s c k) E).
Qed.

(** ** Under the invariant *)

Hypothesis Hlossy : zlossy C cget cadd.

(** never stuck; the state after a result and after a failure *)
Lemma zvrun_rs : forall cap par pin fuel s c k,
  ZbddOK s -> ZChainOK s -> ZCacheOKB s c -> zvcall_ok s k -> ZFUEL s <= fuel ->
  RS s (RUNC cap par pin fuel s c k).
Proof.
  intros cap par pin fuel s c k B Hch O Hk Hfuel. unfold ZFUEL in Hfuel.
  destruct k as [op f var|f vars|var|var]; cbn [zvcall_ok zvrun_c zvrun_u zvcall_spec] in Hk |- *.
  - destruct Hk as [Of Hv]. apply (zsubset_top_c_safe C cget cadd Hlossy); auto.
  - destruct Hk as [Of [lits El]].
    destruct (zcube_lits_cube s B _ vars 0 lits El ltac:(lia)) as (_ & _ & Hc).
    apply (zrestrict_edge_c_safe C cget cadd Hlossy cap par fuel s c f vars (lits_map lits)); auto.
  - apply (zvar_c_safe C cget); auto.
  - apply (znot_var_c_safe gt C cget cadd Hlossy); auto.
Qed.

(** the unbounded run returns, and its result means what C02 / C04 / C09 say *)
Lemma zvrun_sound : forall fuel s c k,
  ZbddOK s -> ZChainOK s -> ZCacheOKB s c -> zvcall_ok s k -> ZFUEL s <= fuel ->
  exists su cu ru, RUNU fuel s c k = Some (su, cu, ru) /\ zvcall_spec s k su ru.
Proof.
  intros fuel s c k B Hch O Hk Hfuel. unfold ZFUEL in Hfuel.
  pose proof (zo_wf s B) as H. pose proof (zo_kind s B) as Hkd.
  destruct k as [op f var|f vars|var|var]; cbn [zvcall_ok zvrun_c zvrun_u zvcall_spec] in Hk |- *.
  - destruct Hk as [Of Hv].
    destruct (zsubset_sound C cget cadd Hlossy op fuel s c f var B (zcacheokb_ok C cget s c O) Of Hv Hfuel)
      as (vl & su & cu & ru & F & R & Ev & Eu & _ & _ & _ & _ & EF & ER & Hq).
    exists su, cu, ru. split; [exact Eu|]. exists vl, F, R. auto.
  - destruct Hk as [Of [lits El]].
    destruct (zcube_lits_cube s B _ vars 0 lits El ltac:(lia)) as (Hi & Hb & Hc).
    pose proof (incr_from_nodup _ _ Hi) as Hnd.
    destruct (zrestrict_edge_cube C cget cadd Hlossy fuel s c f vars (lits_map lits) B Hch O Of Hc Hfuel)
      as (su & cu & ru & Eu & St & Hv).
    exists su, cu, ru. split; [exact Eu|].
    intros lits' El'. rewrite El in El'. inversion El'; subst lits'. split; [exact Hv|].
    intros a. destruct St as (B' & _ & X & _ & _).
    rewrite restrict_s_apply. unfold zbfun_of at 1 2.
    rewrite (choice_of_ext s su a X), (Hv _ (choice_of_ok s a Hkd)).
    unfold zview_of.
    apply (f_equal (fun o : option bool => match o with Some true => true | _ => false end)).
    symmetry. apply (semz_ext_lt s H).
    intros l _. apply (choice_of_fold_upd s H lits a l Hb Hnd).
  - destruct (zvar_sound s var B Hch Hk) as (L & su & ru & Ev & Ez & _ & _ & _ & _ & Hv).
    exists su, c, ru. split; [unfold zvar_u; rewrite Ez; reflexivity|]. exists L. auto.
  - destruct (znot_var_sound gt C cget cadd Hlossy fuel s c var B Hch O Hk Hfuel)
      as (L & su & cu & ru & Ev & Eu & _ & Hv).
    exists su, cu, ru. split; [exact Eu|]. exists L. auto.
Qed.

(** a result is the correct one, in a table in which everything that existed
    before is intact *)
Theorem zv_never_wrong_sem : forall cap par pin fuel s c k s' c' r,
  ZbddOK s -> ZChainOK s -> ZCacheOKB s c -> zvcall_ok s k -> ZFUEL s <= fuel ->
  RUNC cap par pin fuel s c k = GOk s' c' r ->
  ZbddOK s' /\ ZChainOK s' /\ ZCacheOKB s' c' /\ intact_z s s' /\ ref_ok s' r /\ zvcall_spec s k s' r.
Proof.
  intros cap par pin fuel s c k s' c' r B Hch O Hk Hfuel E.
  pose proof (zvrun_rs cap par pin fuel s c k B Hch O Hk Hfuel) as S. rewrite E in S.
  destruct S as [[B' [Hch' O']] [X R']].
  apply zv_never_wrong in E.
  destruct (zvrun_sound fuel s c k B Hch O Hk Hfuel) as (su & cu & ru & Eu & Sp).
  rewrite E in Eu. inversion Eu; subst su cu ru.
  split; [exact B'|]. split; [exact Hch'|]. split; [exact O'|].
  split; [apply (extends_intact_z s s' B X)|]. split; [exact R' | exact Sp].
Qed.

(** the state after a failure *)
Theorem zv_safe : forall cap par pin fuel s c k s' c',
  ZbddOK s -> ZChainOK s -> ZCacheOKB s c -> zvcall_ok s k -> ZFUEL s <= fuel ->
  RUNC cap par pin fuel s c k = GOom s' c' -> zfailed_ok C cget cap s s' c'.
Proof.
  intros cap par pin fuel s c k s' c' B Hch O Hk Hfuel E.
  apply (zsim_safe C cget cap s _ _ s' c' B (zvrun_rs cap par pin fuel s c k B Hch O Hk Hfuel)
           (zvrun_sim gt C cget cadd cap par pin fuel s c k) E).
Qed.

(** no panic, no divergence *)
Theorem zv_no_panic : forall cap par pin fuel s c k,
  ZbddOK s -> ZChainOK s -> ZCacheOKB s c -> zvcall_ok s k -> ZFUEL s <= fuel ->
  RUNC cap par pin fuel s c k <> GStuck.
Proof.
  intros cap par pin fuel s c k B Hch O Hk Hfuel E.
  pose proof (zvrun_rs cap par pin fuel s c k B Hch O Hk Hfuel) as S. rewrite E in S. exact S.
Qed.

(** exactness: the operation fails if and only if it needs more nodes than the
    capacity allows; otherwise it returns the correct result *)
Theorem zv_exact : forall cap par pin fuel s c k,
  ZbddOK s -> ZChainOK s -> ZCacheOKB s c -> zvcall_ok s k -> ZFUEL s <= fuel ->
  exists su cu ru, RUNU fuel s c k = Some (su, cu, ru) /\ zvcall_spec s k su ru /\
    zexact C cget cap s (RUNC cap par pin fuel s c k) su cu ru.
Proof.
  intros cap par pin fuel s c k B Hch O Hk Hfuel.
  destruct (zvrun_sound fuel s c k B Hch O Hk Hfuel) as (su & cu & ru & Eu & Sp).
  exists su, cu, ru. split; [exact Eu|]. split; [exact Sp|].
  apply zexact_intro; [exact B | apply zvrun_rs; auto |]. rewrite <- Eu. apply zvrun_sim.
Qed.

(** failing or not does not depend on the recursors *)
Theorem zv_outcome_recursor_indep : forall cap par par' pin pin' fuel s c k,
  ZbddOK s -> ZChainOK s -> ZCacheOKB s c -> zvcall_ok s k -> ZFUEL s <= fuel ->
  gres_code (RUNC cap par pin fuel s c k) = gres_code (RUNC cap par' pin' fuel s c k).
Proof.
  intros cap par par' pin pin' fuel s c k B Hch O Hk Hfuel.
  destruct (zv_exact cap par pin fuel s c k B Hch O Hk Hfuel) as [su [cu [ru [E [_ X]]]]].
  destruct (zv_exact cap par' pin' fuel s c k B Hch O Hk Hfuel) as [su' [cu' [ru' [E' [_ X']]]]].
  rewrite E in E'. inversion E'; subst su' cu' ru'. exact (zexact_code C cget cap s _ _ su cu ru X X').
Qed.

(** ** What the general statements say for each family (spelled out) *)

(** subset0 / subset1 / change: [f_sub] of the operand's family, or the store is full *)
Theorem zv_exact_subset : forall cap par op fuel s c f var,
  ZbddOK s -> ZChainOK s -> ZCacheOKB s c -> ref_ok s f -> var < length (s_v2l s) -> ZFUEL s <= fuel ->
  exists su cu ru, zsubset_top C cget cadd fuel s c op f var = Some (su, cu, ru) /\
    (exists vl F R, nth_error (s_v2l s) var = Some vl /\
       fam_of s f = Some F /\ fam_of su ru = Some R /\ feq R (f_sub op vl F)) /\
    zexact C cget cap s (zsubset_top_c C cget cadd cap par fuel s c op f var) su cu ru.
Proof.
  intros cap par op fuel s c f var B Hch O Of Hv Hfuel.
  exact (zv_exact cap par (fun _ => false) fuel s c (ZVSubset op f var) B Hch O (conj Of Hv) Hfuel).
Qed.

(** restrict: the cofactor w.r.t. the cube, or the store is full *)
Theorem zv_exact_restrict : forall cap par fuel s c f vars lits,
  ZbddOK s -> ZChainOK s -> ZCacheOKB s c -> ref_ok s f ->
  zcube_lits (S (nlevels s)) s vars 0 = Some lits -> ZFUEL s <= fuel ->
  exists su cu ru, zrestrict_edge C cget cadd fuel s c f vars = Some (su, cu, ru) /\
    (forall a, zbfun_of su ru a = restrict_s (lits_vars s lits) (zbfun_of s f) a) /\
    zexact C cget cap s (zrestrict_edge_c C cget cadd cap par fuel s c f vars) su cu ru.
Proof.
  intros cap par fuel s c f vars lits B Hch O Of El Hfuel.
  destruct (zv_exact cap par (fun _ => false) fuel s c (ZVRestrict f vars) B Hch O
              (conj Of (ex_intro _ lits El)) Hfuel) as (su & cu & ru & Eu & Sp & X).
  exists su, cu, ru. split; [exact Eu|]. split; [apply (Sp lits El) | exact X].
Qed.

(** var_edge: the variable, or the store is full (with the don't-care nodes
    created so far left behind) *)
Theorem zv_exact_var : forall cap s c var,
  ZbddOK s -> ZChainOK s -> ZCacheOKB s c -> var < length (s_v2l s) ->
  exists L su ru, nth_error (s_v2l s) var = Some L /\ zvar s var = Some (su, ru) /\
    (forall c0, choice_ok s c0 -> zview_of su ru c0 = Some (Nat.eqb (c0 L) 0)) /\
    zexact C cget cap s (zvar_c C cap s c var) su c ru.
Proof.
  intros cap s c var B Hch O Hv.
  destruct (zv_exact cap (fun _ => false) (fun _ => false) (ZFUEL s) s c (ZVVar var) B Hch O Hv (le_n _))
    as (su & cu & ru & Eu & (L & Ev & Sp) & X).
  simpl in Eu, X. unfold zvar_u in Eu. destruct (zvar s var) as [[s1 r1]|]; [|discriminate].
  inversion Eu; subst s1 cu r1.
  exists L, su, ru. split; [exact Ev|]. split; [reflexivity|]. split; [exact Sp | exact X].
Qed.

(** not_var_edge *)
Theorem zv_exact_notvar : forall cap pin fuel s c var,
  ZbddOK s -> ZChainOK s -> ZCacheOKB s c -> var < length (s_v2l s) -> ZFUEL s <= fuel ->
  exists L su cu ru, nth_error (s_v2l s) var = Some L /\
    znot_var gt C cget cadd fuel s c var = Some (su, cu, ru) /\
    (forall c0, choice_ok s c0 -> zview_of su ru c0 = Some (negb (Nat.eqb (c0 L) 0))) /\
    zexact C cget cap s (znot_var_c gt C cget cadd cap pin fuel s c var) su cu ru.
Proof.
  intros cap pin fuel s c var B Hch O Hv Hfuel.
  destruct (zv_exact cap (fun _ => false) pin fuel s c (ZVNotVar var) B Hch O Hv Hfuel)
    as (su & cu & ru & Eu & (L & Ev & Sp) & X).
  exists L, su, cu, ru. auto.
Qed.

End Top.

(** the checker of the call hypotheses decides them *)
Theorem zv_call_ok_decided : forall s k, zvcall_ok_b s k = true <-> zvcall_ok s k.
Proof. exact zvcall_ok_b_spec. Qed.

(** the no-cache instances the correspondence run evaluates are instances of [zvrun_c] *)
Theorem zv_nc_instances : forall cap p s,
  (forall op f var, zv_subset_nc cap p s op f var = zv_run_nc cap p s (ZVSubset op f var)) /\
  (forall f vars, zv_restrict_nc cap p s f vars = zv_run_nc cap p s (ZVRestrict f vars)) /\
  (forall var, zv_var_nc cap s var = zv_run_nc cap p s (ZVVar var)) /\
  (forall var, zv_notvar_nc cap p s var = zv_run_nc cap p s (ZVNotVar var)).
Proof. intros. repeat split. Qed.
