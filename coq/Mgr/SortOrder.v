(** * C08, part A — executable model of the pure list algorithms behind
    [set_var_order] (crates/oxidd-reorder/src/set_var_order/mod.rs).

    Executable definitions only; the proofs are in Mgr/SortOrderProofs.v.

    - [sort_order]          mirrors  [fn sort_order]
    - [seg_new]/[add_split]/[min_index]
                            naive list model of the interface of [MinSegTree]
                            (segtree.rs): a [list Z] holding the projected
                            array ([MinSegTree::proj]).  The real segment tree
                            is tied to this interface by differential testing.
    - [bubble_sort]         mirrors  [fn bubble_sort]
    - [cb_init]/[cb_take]/[cb_finish]
                            the task state machine of [fn concurrent_bubble_sort]

    Levels, positions and indices are [nat] (they are list indices); the
    segment tree holds [Z] (the code uses [i32]). *)

From Coq Require Import List Arith ZArith Bool.
Import ListNotations.

(** ** list helpers *)

(** [l[i] := x] (no-op when [i] is out of range) *)
Fixpoint lset {A} (l : list A) (i : nat) (x : A) : list A :=
  match l, i with
  | [], _ => []
  | _ :: r, O => x :: r
  | a :: r, S k => a :: lset r k x
  end.

(** exchange positions [i] and [i+1] ([slice::swap(i, i + 1)]); no-op when
    [i+1] is out of range *)
Fixpoint swap_adj {A} (i : nat) (l : list A) : list A :=
  match i, l with
  | O, a :: b :: r => b :: a :: r
  | S k, a :: r => a :: swap_adj k r
  | _, _ => l
  end.

(** apply a list of adjacent transpositions from left to right *)
Definition replay {A} (swaps : list nat) (l : list A) : list A :=
  fold_left (fun acc i => swap_adj i acc) swaps l.

(** ** [MinSegTree], abstractly *)

Definition seg := list Z.

(** [MinSegTree::new(0..len)] *)
Definition seg_new (len : nat) : seg := map Z.of_nat (seq 0 len).

(** [add_split(i, left, right)]: add [left] to all elements at indices [< i]
    and [right] to all elements at indices [>= i] *)
Fixpoint add_split (t : seg) (i : nat) (left right : Z) : seg :=
  match t with
  | [] => []
  | x :: r =>
    match i with
    | O => (x + right)%Z :: add_split r O left right
    | S k => (x + left)%Z :: add_split r k left right
    end
  end.

(** [min_index()]: index of the minimal element with the lowest index (the
    descent takes the left child on [l.min <= r.min]) *)
Fixpoint min_index_aux (l : list Z) (i : nat) (best : Z) (besti : nat) : nat :=
  match l with
  | [] => besti
  | x :: r =>
    if (x <? best)%Z then min_index_aux r (S i) x i
    else min_index_aux r (S i) best besti
  end.

Definition min_index (t : seg) : nat :=
  match t with
  | [] => O
  | x :: r => min_index_aux r 1 x O
  end.

(** ** [sort_order] *)

(** first loop: [target_order[level] = input_order_len; input_order_len += 1].
    [None] stands for [u32::MAX] *)
Fixpoint mark (tgt : list (option nat)) (order : list nat) (k : nat) : list (option nat) :=
  match order with
  | [] => tgt
  | l :: r => mark (lset tgt l (Some k)) r (S k)
  end.

(** second loop: unmentioned levels get the index of the first minimum of the
    segment tree, mentioned levels update the tree by
    [add_split(i + 1, 1, -1)] *)
Fixpoint seg_pass (t : seg) (tgt : list (option nat)) : list nat :=
  match tgt with
  | [] => []
  | None :: r => min_index t :: seg_pass t r
  | Some i :: r => i :: seg_pass (add_split t (S i) 1 (-1)) r
  end.

(** [for &i in &target_order { counts[i] += 1 }] *)
Fixpoint count_pass (counts : list nat) (ind : list nat) : list nat :=
  match ind with
  | [] => counts
  | i :: r => count_pass (lset counts i (S (nth i counts 0))) r
  end.

(** exclusive prefix sums: [let val_count = *c; *c = sum; sum += val_count] *)
Fixpoint accumulate (counts : list nat) (sum : nat) : list nat :=
  match counts with
  | [] => []
  | c :: r => sum :: accumulate r (sum + c)
  end.

(** [let c = &mut counts[*i]; *i = *c; *c += 1] *)
Fixpoint assign (counts : list nat) (ind : list nat) : list nat :=
  match ind with
  | [] => []
  | i :: r => let c := nth i counts 0 in c :: assign (lset counts i (S c)) r
  end.

(** the position indicators after the second loop *)
Definition indicators (num_levels : nat) (input_order : list nat) : list nat :=
  seg_pass (seg_new (S (length input_order)))
           (mark (repeat None num_levels) input_order 0).

Definition sort_order (num_levels : nat) (input_order : list nat) : list nat :=
  let tgt0 := mark (repeat None num_levels) input_order 0 in
  let m := length input_order in
  if Nat.eqb m num_levels then
    (* the order is total: the position indicators are the positions *)
    map (fun o => match o with Some i => i | None => O end) tgt0
  else
    let ind := seg_pass (seg_new (S m)) tgt0 in
    let counts := count_pass (repeat 0 (S m)) ind in
    assign (accumulate counts 0) ind.

(** the inputs on which the Rust function does not panic: every level in
    range (index check) and none twice ([assert_eq!(.., u32::MAX)]) *)
Fixpoint nodup_b (l : list nat) : bool :=
  match l with
  | [] => true
  | x :: r => negb (existsb (Nat.eqb x) r) && nodup_b r
  end.

Definition order_ok_b (num_levels : nat) (input_order : list nat) : bool :=
  forallb (fun l => Nat.ltb l num_levels) input_order && nodup_b input_order.

(** [None] = the implementation panics *)
Definition sort_order_checked (num_levels : nat) (input_order : list nat) : option (list nat) :=
  if order_ok_b num_levels input_order then Some (sort_order num_levels input_order) else None.

(** number of inversions of a list: pairs of positions [i < j] with
    [l[j] < l[i]] = number of adjacent swaps any bubble sort performs *)
Fixpoint count_lt (x : nat) (l : list nat) : nat :=
  match l with
  | [] => O
  | y :: r => (if Nat.ltb y x then 1 else 0) + count_lt x r
  end.

Fixpoint inv (l : list nat) : nat :=
  match l with
  | [] => O
  | x :: r => count_lt x r + inv r
  end.

(** ** [bubble_sort] *)

(** the [for i in 1..n] loop from [i] on ([cnt = n - i] iterations left);
    [swaps] collects the arguments of the [swap] callback in call order
    (reversed, newest first) *)
Fixpoint bubble_pass (cnt i : nat) (s : list nat) (new_n : nat) (swaps : list nat)
  : list nat * nat * list nat :=
  match cnt with
  | O => (s, new_n, swaps)
  | S c =>
    if Nat.ltb (nth i s 0) (nth (i - 1) s 0)
    then bubble_pass c (S i) (swap_adj (i - 1) s) i ((i - 1) :: swaps)
    else bubble_pass c (S i) s new_n swaps
  end.

(** the [while n > 1] loop; [new_n < n], so [fuel = seq.len()] suffices *)
Fixpoint bubble_loop (fuel n : nat) (s : list nat) (swaps : list nat) : list nat * list nat :=
  match fuel with
  | O => (s, swaps)
  | S f =>
    if Nat.ltb 1 n then
      let '(s', new_n, swaps') := bubble_pass (n - 1) 1 s 0 swaps in
      bubble_loop f new_n s' swaps'
    else (s, swaps)
  end.

(** sorted sequence and the swap indices in the order of the callback calls *)
Definition bubble_sort (s : list nat) : list nat * list nat :=
  let '(s', swaps) := bubble_loop (length s) (length s) s [] in (s', rev swaps).

(** ** [concurrent_bubble_sort]: the shared state and the worker actions *)

Record cb_state := mkCb {
  cb_seq : list nat;
  cb_blocked : list bool;          (* [FixedBitSet] of length [seq.len()] *)
  cb_tasks : list nat;             (* [Vec] used as a stack: head = last pushed *)
  cb_inflight : list nat;          (* index each worker inside the inner loop is
                                      swapping; [in_progress] = its length *)
}.

(** the initial scan: [while i + 1 < n { if seq[i] > seq[i+1] {..; i += 2} else {i += 1} }] *)
Fixpoint cb_scan (fuel i : nat) (s : list nat) (blocked : list bool) (tasks : list nat)
  : list bool * list nat :=
  match fuel with
  | O => (blocked, tasks)
  | S f =>
    if Nat.ltb (S i) (length s) then
      if Nat.ltb (nth (S i) s 0) (nth i s 0)
      then cb_scan f (S (S i)) s (lset (lset blocked i true) (S i) true) (i :: tasks)
      else cb_scan f (S i) s blocked tasks
    else (blocked, tasks)
  end.

Definition cb_init (s : list nat) : cb_state :=
  let '(b, t) := cb_scan (length s) 0 s (repeat false (length s)) [] in
  mkCb s b t [].

(** remove the first occurrence *)
Fixpoint remove1 (x : nat) (l : list nat) : list nat :=
  match l with
  | [] => []
  | y :: r => if Nat.eqb x y then r else y :: remove1 x r
  end.

(** a waiting worker pops a task: [if let Some(i) = state.tasks.pop() { state.in_progress += 1; break i }] *)
Definition cb_take (st : cb_state) : option cb_state :=
  match cb_tasks st with
  | [] => None
  | i :: r => Some (mkCb (cb_seq st) (cb_blocked st) r (i :: cb_inflight st))
  end.

(** the critical section after [swap(manager, i)] returned: exchange
    [seq[i], seq[i+1]], update [blocked], decide how the worker continues *)
Definition cb_finish (st : cb_state) (i : nat) : cb_state :=
  let s := swap_adj i (cb_seq st) in
  let b0 := cb_blocked st in
  let infl := remove1 i (cb_inflight st) in
  let swap_before :=
    Nat.ltb 0 i && Nat.ltb (nth i s 0) (nth (i - 1) s 0) && negb (nth (i - 1) b0 false) in
  let b1 := if swap_before then lset b0 (i - 1) true else lset b0 i false in
  if Nat.ltb (i + 2) (length s) && Nat.ltb (nth (i + 2) s 0) (nth (i + 1) s 0)
     && negb (nth (i + 2) b1 false)
  then
    let b2 := lset b1 (i + 2) true in
    if swap_before
    then (* tasks.push(i + 1); i -= 1 *)
      mkCb s b2 ((i + 1) :: cb_tasks st) ((i - 1) :: infl)
    else (* i += 1; continue *)
      mkCb s b2 (cb_tasks st) ((i + 1) :: infl)
  else
    let b2 := lset b1 (i + 1) false in
    if swap_before
    then (* i -= 1 *)
      mkCb s b2 (cb_tasks st) ((i - 1) :: infl)
    else
      match cb_tasks st with
      | new_i :: r => (* i = new_i; continue *)
        mkCb s b2 r (new_i :: infl)
      | [] => (* in_progress -= 1; break / return *)
        mkCb s b2 [] infl
      end.

(** a schedule: [None] = some waiting worker takes a task, [Some i] = the
    worker swapping at [i] finishes; [None] result = the action is not enabled *)
Fixpoint cb_run (sched : list (option nat)) (st : cb_state) : option cb_state :=
  match sched with
  | [] => Some st
  | None :: r => match cb_take st with Some st' => cb_run r st' | None => None end
  | Some i :: r =>
    if existsb (Nat.eqb i) (cb_inflight st) then cb_run r (cb_finish st i) else None
  end.

(** deterministic single-worker schedule (for testing): take, then finish
    whatever is in flight until nothing is left *)
Fixpoint cb_run_seq (fuel : nat) (st : cb_state) (swaps : list nat) : cb_state * list nat :=
  match fuel with
  | O => (st, swaps)
  | S f =>
    match cb_inflight st with
    | i :: _ => cb_run_seq f (cb_finish st i) (i :: swaps)
    | [] =>
      match cb_take st with
      | Some st' => cb_run_seq f st' swaps
      | None => (st, swaps)
      end
    end
  end.
