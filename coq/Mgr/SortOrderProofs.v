(** C08, part A — proofs about Mgr/SortOrder.v *)
From Coq Require Import List Arith ZArith Bool Lia Permutation.
From OxiVerif Require Import Mgr.SortOrder.
Import ListNotations.

(** * finite sums over [0, n) *)

Definition b2n (b : bool) : nat := if b then 1 else 0.

Fixpoint sumn (n : nat) (f : nat -> nat) : nat :=
  match n with O => 0 | S k => sumn k f + f k end.

Lemma sumn_ext n f g : (forall i, i < n -> f i = g i) -> sumn n f = sumn n g.
Proof.
  induction n as [|n IH]; intros H; simpl; [reflexivity|].
  rewrite IH, H; auto.
Qed.

Lemma sumn_le n f g : (forall i, i < n -> f i <= g i) -> sumn n f <= sumn n g.
Proof.
  induction n as [|n IH]; intros H; simpl; [lia|].
  pose proof (H n ltac:(lia)). assert (sumn n f <= sumn n g) by (apply IH; auto). lia.
Qed.

Lemma sumn_lt n f g k :
  k < n -> (forall i, i < n -> f i <= g i) -> f k < g k -> sumn n f < sumn n g.
Proof.
  induction n as [|n IH]; intros Hk H Hlt; [lia|]. simpl.
  assert (Hle : sumn n f <= sumn n g) by (apply sumn_le; auto).
  pose proof (H n ltac:(lia)).
  destruct (Nat.eq_dec k n) as [->|Hne]; [lia|].
  assert (sumn n f < sumn n g) by (apply IH; auto; lia). lia.
Qed.

Lemma sumn_add n f g : sumn n (fun i => f i + g i) = sumn n f + sumn n g.
Proof. induction n as [|n IH]; simpl; [reflexivity|]. rewrite IH. lia. Qed.

Lemma sumn_zero n f : (forall i, i < n -> f i = 0) -> sumn n f = 0.
Proof.
  induction n as [|n IH]; intros H; simpl; [reflexivity|]. rewrite IH, H; auto.
Qed.

Lemma sumn_swap n m (f : nat -> nat -> nat) :
  sumn n (fun i => sumn m (fun j => f i j)) = sumn m (fun j => sumn n (fun i => f i j)).
Proof.
  induction n as [|n IH]; simpl.
  - symmetry. apply sumn_zero. reflexivity.
  - rewrite IH, <- sumn_add. reflexivity.
Qed.

Lemma sumn_single n k f :
  k < n -> (forall i, i < n -> i <> k -> f i = 0) -> sumn n f = f k.
Proof.
  induction n as [|n IH]; intros Hk H; [lia|]. simpl.
  destruct (Nat.eq_dec k n) as [->|Hne].
  - rewrite sumn_zero; [reflexivity|]. intros i Hi. apply H; lia.
  - rewrite IH by (try lia; intros; apply H; lia). rewrite (H n); lia.
Qed.

Lemma sumn_b2n_le n P : sumn n (fun i => b2n (P i)) <= n.
Proof. induction n as [|n IH]; simpl; [lia|]. destruct (P n); simpl; lia. Qed.

Lemma sumn_S_first n f : sumn (S n) f = f 0 + sumn n (fun i => f (S i)).
Proof.
  induction n as [|n IH]; [simpl; lia|].
  change (sumn (S (S n)) f) with (sumn (S n) f + f (S n)). rewrite IH. simpl. lia.
Qed.

Lemma sumn_restrict n j f : j <= n -> sumn n (fun k => b2n (k <? j) * f k) = sumn j f.
Proof.
  induction n as [|n IH]; intros Hj.
  - assert (j = 0) by lia. subst. reflexivity.
  - simpl. destruct (Nat.eq_dec j (S n)) as [->|Hne].
    + simpl. replace (n <? S n) with true by (symmetry; apply Nat.ltb_lt; lia). simpl.
      f_equal; [|lia]. apply sumn_ext. intros i Hi.
      replace (i <? S n) with true by (symmetry; apply Nat.ltb_lt; lia). simpl. lia.
    + rewrite IH by lia. replace (n <? j) with false by (symmetry; apply Nat.ltb_ge; lia).
      simpl. lia.
Qed.

Lemma sumn_ltb m g : g <= m -> sumn m (fun i => b2n (i <? g)) = g.
Proof.
  intros H. rewrite (sumn_ext m _ (fun i => b2n (i <? g) * 1)) by (intros; lia).
  rewrite sumn_restrict by assumption.
  clear H. induction g as [|g IH]; simpl; lia.
Qed.

Lemma sumn_all m P : (forall i, i < m -> P i = true) -> sumn m (fun i => b2n (P i)) = m.
Proof.
  induction m as [|m IH]; intros H; simpl; [reflexivity|].
  rewrite IH, H by auto. simpl. lia.
Qed.

(** a strictly increasing sequence crosses a threshold once *)
Lemma incr_threshold m (w : nat -> nat) x :
  (forall i j, i < j < m -> w i < w j) ->
  forall i, i < m -> (w i <? x) = (i <? sumn m (fun k => b2n (w k <? x))).
Proof.
  induction m as [|m IH]; intros Hw i Hi; [lia|]. simpl.
  destruct (Nat.ltb_spec (w m) x) as [Hlt|Hge]; simpl.
  - rewrite sumn_all.
    + replace (i <? m + 1) with true by (symmetry; apply Nat.ltb_lt; lia).
      apply Nat.ltb_lt. destruct (Nat.eq_dec i m) as [->|]; [assumption|].
      pose proof (Hw i m ltac:(lia)). lia.
    + intros k Hk. apply Nat.ltb_lt. pose proof (Hw k m ltac:(lia)). lia.
  - rewrite Nat.add_0_r. destruct (Nat.eq_dec i m) as [->|Hne].
    + pose proof (sumn_b2n_le m (fun k => w k <? x)).
      replace (m <? _) with false by (symmetry; apply Nat.ltb_ge; assumption).
      apply Nat.ltb_ge. assumption.
    + apply IH; [|lia]. intros a b Hab. apply Hw. lia.
Qed.
(** * list helpers *)

Lemma lset_length {A} (l : list A) i x : length (lset l i x) = length l.
Proof. revert i; induction l as [|a r IH]; intros [|i]; simpl; auto. Qed.

Lemma nth_lset {A} (l : list A) i j x d :
  nth j (lset l i x) d = if (j =? i) && (i <? length l) then x else nth j l d.
Proof.
  revert i j; induction l as [|a r IH]; intros [|i] [|j]; simpl; auto.
  - destruct (j =? i); reflexivity.
  - rewrite IH. reflexivity.
Qed.

Lemma nth_lset_same {A} (l : list A) i x d : i < length l -> nth i (lset l i x) d = x.
Proof.
  intros H. rewrite nth_lset, Nat.eqb_refl. apply Nat.ltb_lt in H. rewrite H. reflexivity.
Qed.

Lemma nth_lset_other {A} (l : list A) i j x d : j <> i -> nth j (lset l i x) d = nth j l d.
Proof. intros H. rewrite nth_lset. apply Nat.eqb_neq in H. rewrite H. reflexivity. Qed.

Lemma list_ext {A} (l1 l2 : list A) d :
  length l1 = length l2 -> (forall i, i < length l1 -> nth i l1 d = nth i l2 d) -> l1 = l2.
Proof.
  intros Hl H. apply (nth_ext _ _ d d); auto.
Qed.

Lemma nth_map_seq {A} (f : nat -> A) a n i d : i < n -> nth i (map f (seq a n)) d = f (a + i).
Proof.
  intros H. rewrite (nth_indep _ d (f 0)) by (rewrite map_length, seq_length; assumption).
  rewrite (map_nth f (seq a n) 0 i), seq_nth by assumption. reflexivity.
Qed.

(** * position of a level in the request *)

Fixpoint index_of (x : nat) (l : list nat) : option nat :=
  match l with
  | [] => None
  | y :: r => if x =? y then Some 0 else option_map S (index_of x r)
  end.

Lemma index_of_nth x l i : index_of x l = Some i -> nth_error l i = Some x.
Proof.
  revert i; induction l as [|y r IH]; intros i; simpl; [discriminate|].
  destruct (Nat.eqb_spec x y) as [->|Hne].
  - intros [= <-]. reflexivity.
  - destruct (index_of x r) as [k|]; simpl; [|discriminate].
    intros [= <-]. simpl. auto.
Qed.

Lemma index_of_none x l : index_of x l = None <-> ~ In x l.
Proof.
  induction l as [|y r IH]; simpl; [tauto|].
  destruct (Nat.eqb_spec x y) as [->|Hne].
  - split; [discriminate|]. intros H. exfalso. auto.
  - destruct (index_of x r) as [k|]; simpl.
    + split; [discriminate|]. intros H. exfalso. apply H. right.
      destruct (in_dec Nat.eq_dec x r) as [|Hn]; [assumption|]. apply IH in Hn. discriminate.
    + split; [|reflexivity]. intros _ [H|H]; [congruence|]. apply IH in H; auto.
Qed.

Lemma nth_index_of x l i : NoDup l -> nth_error l i = Some x -> index_of x l = Some i.
Proof.
  revert i; induction l as [|y r IH]; intros [|i] Hnd H; simpl in *; try discriminate.
  - injection H as ->. rewrite Nat.eqb_refl. reflexivity.
  - inversion Hnd as [|? ? Hni Hnd']; subst.
    destruct (Nat.eqb_spec x y) as [->|Hne].
    + exfalso. apply Hni. eapply nth_error_In; eauto.
    + rewrite (IH i); auto.
Qed.

Lemma index_of_lt x l i : index_of x l = Some i -> i < length l.
Proof. intros H. apply index_of_nth in H. apply nth_error_Some. congruence. Qed.

(** * the first loop of [sort_order] *)

Lemma mark_length tgt order k : length (mark tgt order k) = length tgt.
Proof.
  revert tgt k; induction order as [|a r IH]; intros; simpl; [reflexivity|].
  rewrite IH, lset_length. reflexivity.
Qed.

Lemma mark_nth tgt order k l :
  NoDup order -> Forall (fun x => x < length tgt) order ->
  nth l (mark tgt order k) None =
  match index_of l order with Some i => Some (k + i) | None => nth l tgt None end.
Proof.
  revert tgt k; induction order as [|a r IH]; intros tgt k Hnd Hr; simpl; [reflexivity|].
  inversion Hnd as [|? ? Hni Hnd']; subst. inversion Hr as [|? ? Ha Hr']; subst.
  rewrite IH by (try rewrite lset_length; assumption).
  destruct (Nat.eqb_spec l a) as [->|Hne].
  - apply index_of_none in Hni. rewrite Hni. rewrite nth_lset_same by assumption.
    f_equal. lia.
  - destruct (index_of l r) as [i|]; simpl; [f_equal; lia|].
    apply nth_lset_other. assumption.
Qed.

Lemma mark_spec n order :
  NoDup order -> Forall (fun x => x < n) order ->
  mark (repeat None n) order 0 = map (fun l => index_of l order) (seq 0 n).
Proof.
  intros Hnd Hr. apply (list_ext _ _ None).
  - rewrite mark_length, repeat_length, map_length, seq_length. reflexivity.
  - rewrite mark_length, repeat_length. intros i Hi.
    rewrite mark_nth, nth_map_seq; auto.
    + simpl. destruct (index_of i order); [reflexivity|]. apply nth_repeat.
    + rewrite repeat_length. assumption.
Qed.

(** * the segment-tree interface *)

Lemma add_split_length t i a b : length (add_split t i a b) = length t.
Proof. revert i; induction t as [|x r IH]; intros [|i]; simpl; auto. Qed.

Lemma add_split_nth t i a b g :
  g < length t ->
  nth g (add_split t i a b) 0%Z = (nth g t 0 + if (g <? i)%nat then a else b)%Z.
Proof.
  revert i g; induction t as [|x r IH]; intros i g Hg; simpl in Hg; [lia|].
  destruct i as [|i], g as [|g]; simpl; try reflexivity.
  - rewrite IH by lia. reflexivity.
  - rewrite IH by lia. reflexivity.
Qed.

Lemma min_index_aux_spec l : forall i best besti r,
  r = min_index_aux l i best besti ->
  besti < i ->
  (r = besti /\ (forall g, g < length l -> (best <= nth g l 0)%Z))
  \/ (exists g, r = i + g /\ g < length l /\ (nth g l 0 < best)%Z
        /\ (forall g', g' < length l -> (nth g l 0 <= nth g' l 0)%Z)
        /\ (forall g', g' < g -> (nth g l 0 < nth g' l 0)%Z)).
Proof.
  induction l as [|x l IH]; intros i best besti r Hr Hb; simpl in Hr.
  - left. split; [assumption|]. simpl. intros; lia.
  - destruct (Z.ltb_spec x best) as [Hlt|Hge].
    + destruct (IH (S i) x i r Hr ltac:(lia)) as [[-> Hall]|(g & -> & Hg & Hlt' & Hmin & Hfirst)].
      * right. exists 0. simpl. repeat split; try lia.
        intros [|g'] Hg'; [lia|]. apply Hall. lia.
      * right. exists (S g). simpl. repeat split; try lia.
        -- intros [|g'] Hg'; [lia|]. apply Hmin. lia.
        -- intros [|g'] Hg'; [lia|]. apply Hfirst. lia.
    + destruct (IH (S i) best besti r Hr ltac:(lia)) as [[-> Hall]|(g & -> & Hg & Hlt' & Hmin & Hfirst)].
      * left. split; [reflexivity|]. intros [|g'] Hg'; simpl; [lia|]. apply Hall. simpl in Hg'. lia.
      * right. exists (S g). simpl. repeat split; try lia.
        -- intros [|g'] Hg'; [lia|]. apply Hmin. lia.
        -- intros [|g'] Hg'; [lia|]. apply Hfirst. lia.
Qed.

Lemma min_index_spec t :
  t <> [] ->
  let r := min_index t in
  r < length t
  /\ (forall g, g < length t -> (nth r t 0 <= nth g t 0)%Z)
  /\ (forall g, g < r -> (nth r t 0 < nth g t 0)%Z).
Proof.
  destruct t as [|x l]; [congruence|]. intros _. simpl.
  destruct (min_index_aux_spec l 1 x 0 _ eq_refl ltac:(lia))
    as [[-> Hall]|(g & -> & Hg & Hlt & Hmin & Hfirst)].
  - repeat split; try lia. intros [|g] Hg; [lia|]. apply Hall. lia.
  - simpl. repeat split; try lia.
    + intros [|g'] Hg'; [lia|]. apply Hmin. lia.
    + intros [|g'] Hg'; [lia|]. apply Hfirst. lia.
Qed.
(** * the second loop: closed form of the tree contents *)

Fixpoint sumz (n : nat) (f : nat -> Z) : Z :=
  match n with O => 0%Z | S k => (sumz k f + f k)%Z end.

(** position indicator of a mentioned level *)
Definition ind (order : list nat) (l : nat) : option nat := index_of l order.

(** contribution of level [k] to the tree entry of gap [g]:
    [add_split(i + 1, 1, -1)] for a mentioned level with indicator [i] *)
Definition delta (order : list nat) (k g : nat) : Z :=
  match ind order k with
  | Some i => if g <=? i then 1%Z else (-1)%Z
  | None => 0%Z
  end.

(** entry [g] of the tree when the loop reaches level [j] *)
Definition segv (order : list nat) (j g : nat) : Z :=
  (Z.of_nat g + sumz j (fun k => delta order k g))%Z.

Definition segl (order : list nat) (j : nat) : seg :=
  map (segv order j) (seq 0 (S (length order))).

(** position indicator of every level after the second loop *)
Definition pind (order : list nat) (j : nat) : nat :=
  match ind order j with
  | Some i => i
  | None => min_index (segl order j)
  end.

Lemma segl_length order j : length (segl order j) = S (length order).
Proof. unfold segl. rewrite map_length, seq_length. reflexivity. Qed.

Lemma segl_nth order j g : g < S (length order) -> nth g (segl order j) 0%Z = segv order j g.
Proof. intros H. unfold segl. rewrite nth_map_seq by assumption. reflexivity. Qed.

Lemma seg_new_segl order : seg_new (S (length order)) = segl order 0.
Proof.
  unfold seg_new, segl. apply map_ext. intros g. unfold segv. simpl. lia.
Qed.

Lemma segl_step_some order j i :
  ind order j = Some i -> add_split (segl order j) (S i) 1 (-1) = segl order (S j).
Proof.
  intros E. apply (list_ext _ _ 0%Z).
  - rewrite add_split_length, !segl_length. reflexivity.
  - rewrite add_split_length, segl_length. intros g Hg.
    rewrite add_split_nth by (rewrite segl_length; assumption).
    rewrite !segl_nth by assumption. unfold segv. simpl sumz.
    unfold delta at 3. rewrite E.
    change (g <? S i) with (g <=? i). destruct (g <=? i); lia.
Qed.

Lemma segl_step_none order j : ind order j = None -> segl order (S j) = segl order j.
Proof.
  intros E. unfold segl. apply map_ext. intros g. unfold segv. simpl sumz.
  unfold delta at 2. rewrite E. lia.
Qed.

Lemma seg_pass_spec order cnt : forall j,
  seg_pass (segl order j) (map (ind order) (seq j cnt)) = map (pind order) (seq j cnt).
Proof.
  induction cnt as [|cnt IH]; intros j; [reflexivity|].
  cbn [seq map]. unfold pind at 1. destruct (ind order j) as [i|] eqn:E; cbn [seg_pass].
  - rewrite (segl_step_some _ _ _ E), IH. reflexivity.
  - f_equal. rewrite <- (segl_step_none _ _ E). apply IH.
Qed.

Lemma indicators_spec n order :
  NoDup order -> Forall (fun x => x < n) order ->
  indicators n order = map (pind order) (seq 0 n).
Proof.
  intros Hnd Hr. unfold indicators. rewrite mark_spec by assumption.
  rewrite seg_new_segl. apply seg_pass_spec.
Qed.

Lemma ind_lt order l i : ind order l = Some i -> i < length order.
Proof. apply index_of_lt. Qed.

Lemma pind_le order l : pind order l <= length order.
Proof.
  unfold pind. destruct (ind order l) as [i|] eqn:E.
  - apply ind_lt in E. lia.
  - pose proof (min_index_spec (segl order l)) as H. rewrite segl_length in H.
    destruct H as [H _]; [|lia]. unfold segl. simpl. discriminate.
Qed.

(** * the counting pass = stable rank *)

Fixpoint occ (v : nat) (l : list nat) : nat :=
  match l with
  | [] => 0
  | y :: r => b2n (y =? v) + occ v r
  end.

Lemma count_pass_length cs l : length (count_pass cs l) = length cs.
Proof.
  revert cs; induction l as [|i r IH]; intros; simpl; [reflexivity|].
  rewrite IH, lset_length. reflexivity.
Qed.

Lemma count_pass_nth cs l v :
  Forall (fun i => i < length cs) l ->
  nth v (count_pass cs l) 0 = nth v cs 0 + occ v l.
Proof.
  revert cs; induction l as [|i r IH]; intros cs H; simpl; [lia|].
  inversion H as [|? ? Hi Hr]; subst.
  rewrite IH by (rewrite lset_length; assumption).
  rewrite nth_lset. apply Nat.ltb_lt in Hi. rewrite Hi, andb_true_r.
  rewrite (Nat.eqb_sym i v).
  destruct (Nat.eqb_spec v i) as [->|]; simpl; lia.
Qed.

Lemma accumulate_length cs s : length (accumulate cs s) = length cs.
Proof. revert s; induction cs as [|c r IH]; intros; simpl; auto. Qed.

Lemma accumulate_nth cs : forall s v,
  v < length cs -> nth v (accumulate cs s) 0 = s + sumn v (fun w => nth w cs 0).
Proof.
  induction cs as [|c r IH]; intros s v Hv; simpl in Hv; [lia|].
  destruct v as [|v]; simpl accumulate; [simpl; lia|].
  cbn [nth]. rewrite IH by lia. rewrite sumn_S_first. cbn [nth]. lia.
Qed.

Lemma assign_length cs l : length (assign cs l) = length l.
Proof. revert cs; induction l as [|i r IH]; intros; simpl; auto. Qed.

Lemma assign_nth l : forall cs k,
  Forall (fun i => i < length cs) l -> k < length l ->
  nth k (assign cs l) 0 = nth (nth k l 0) cs 0 + occ (nth k l 0) (firstn k l).
Proof.
  induction l as [|i r IH]; intros cs k H Hk; simpl in Hk; [lia|].
  inversion H as [|? ? Hi Hr]; subst.
  destruct k as [|k]; simpl; [lia|].
  rewrite IH by (try rewrite lset_length; auto; lia).
  rewrite nth_lset. apply Nat.ltb_lt in Hi. rewrite Hi, andb_true_r.
  rewrite (Nat.eqb_sym (nth k r 0) i).
  destruct (Nat.eqb_spec i (nth k r 0)) as [->|]; simpl; lia.
Qed.

Lemma occ_map_seq (p : nat -> nat) v k : forall a,
  occ v (map p (seq a k)) = sumn k (fun i => b2n (p (a + i) =? v)).
Proof.
  induction k as [|k IH]; intros a; [reflexivity|].
  rewrite sumn_S_first. simpl map. simpl occ. rewrite IH, Nat.add_0_r. f_equal.
  apply sumn_ext. intros i _. replace (S a + i) with (a + S i) by lia. reflexivity.
Qed.

Lemma sumn_eqb_ltb x v : sumn v (fun w => b2n (x =? w)) = b2n (x <? v).
Proof.
  destruct (Nat.ltb_spec x v) as [H|H].
  - rewrite (sumn_single v x) by (auto; intros i _ Hi; apply Nat.eqb_neq in Hi;
      rewrite Nat.eqb_sym, Hi; reflexivity).
    rewrite Nat.eqb_refl. reflexivity.
  - apply sumn_zero. intros i Hi. replace (x =? i) with false; [reflexivity|].
    symmetry. apply Nat.eqb_neq. lia.
Qed.

Lemma firstn_seq_le k : forall a n, k <= n -> firstn k (seq a n) = seq a k.
Proof.
  induction k as [|k IH]; intros a n H; [reflexivity|].
  destruct n as [|n]; [lia|]. simpl. rewrite IH by lia. reflexivity.
Qed.

(** stable lexicographic comparison of two levels by (indicator, current level) *)
Definition lexltb (p : nat -> nat) (a b : nat) : bool :=
  (p a <? p b) || ((p a =? p b) && (a <? b)).

(** the unique position a stable counting sort assigns *)
Definition rank (p : nat -> nat) (n l : nat) : nat := sumn n (fun l' => b2n (lexltb p l' l)).

Lemma rank_spec (p : nat -> nat) n K :
  (forall l, l < n -> p l < K) ->
  let P := map p (seq 0 n) in
  assign (accumulate (count_pass (repeat 0 K) P) 0) P = map (rank p n) (seq 0 n).
Proof.
  intros Hp P.
  assert (HF : Forall (fun i => i < K) P).
  { apply Forall_forall. intros x Hx. apply in_map_iff in Hx. destruct Hx as (l & <- & Hl).
    apply in_seq in Hl. apply Hp. lia. }
  apply (list_ext _ _ 0).
  - unfold P. rewrite assign_length, !map_length. reflexivity.
  - rewrite assign_length. unfold P at 1. rewrite map_length, seq_length. intros l Hl.
    rewrite assign_nth.
    2:{ rewrite accumulate_length, count_pass_length, repeat_length. assumption. }
    2:{ unfold P. rewrite map_length, seq_length. assumption. }
    rewrite (nth_map_seq (rank p n)) by assumption. simpl.
    assert (HPl : nth l P 0 = p l).
    { unfold P. rewrite nth_map_seq by assumption. reflexivity. }
    rewrite HPl.
    rewrite accumulate_nth.
    2:{ rewrite count_pass_length, repeat_length. apply Hp. assumption. }
    rewrite (sumn_ext (p l) _ (fun w => sumn n (fun i => b2n (p i =? w)))).
    2:{ intros w Hw. rewrite count_pass_nth by (rewrite repeat_length; assumption).
        rewrite nth_repeat. unfold P. rewrite occ_map_seq. reflexivity. }
    rewrite sumn_swap.
    rewrite (sumn_ext n _ (fun i => b2n (p i <? p l))) by (intros; apply sumn_eqb_ltb).
    unfold P. rewrite firstn_map, firstn_seq_le by lia. rewrite occ_map_seq.
    rewrite <- (sumn_restrict n l) by lia.
    unfold rank. simpl. rewrite <- sumn_add. apply sumn_ext. intros i Hi.
    unfold lexltb.
    destruct (Nat.ltb_spec (p i) (p l)), (Nat.eqb_spec (p i) (p l)), (i <? l); simpl; lia.
Qed.
Lemma lexltb_irrefl p a : lexltb p a a = false.
Proof. unfold lexltb. rewrite !Nat.ltb_irrefl, andb_false_r. reflexivity. Qed.

Lemma lexltb_iff p a b :
  lexltb p a b = true <-> p a < p b \/ (p a = p b /\ a < b).
Proof.
  unfold lexltb. rewrite orb_true_iff, andb_true_iff, !Nat.ltb_lt, Nat.eqb_eq. tauto.
Qed.

Lemma lexltb_trans p a b c : lexltb p a b = true -> lexltb p b c = true -> lexltb p a c = true.
Proof. rewrite !lexltb_iff. lia. Qed.

Lemma lexltb_total p a b : a <> b -> lexltb p a b = true \/ lexltb p b a = true.
Proof. rewrite !lexltb_iff. lia. Qed.

Lemma rank_lt p n a b : a < n -> lexltb p a b = true -> rank p n a < rank p n b.
Proof.
  intros Ha H. unfold rank. apply (sumn_lt n _ _ a); [assumption| |].
  - intros i _. destruct (lexltb p i a) eqn:E; simpl; [|lia].
    rewrite (lexltb_trans _ _ _ _ E H). simpl. lia.
  - rewrite lexltb_irrefl, H. simpl. lia.
Qed.

Lemma rank_iso p n a b :
  a < n -> b < n -> (rank p n a < rank p n b <-> lexltb p a b = true).
Proof.
  intros Ha Hb. split; [|apply rank_lt; assumption].
  intros H. destruct (Nat.eq_dec a b) as [->|Hne]; [lia|].
  destruct (lexltb_total p a b Hne) as [|H']; [assumption|].
  apply (rank_lt p n) in H'; [lia|assumption].
Qed.

Lemma rank_bound p n a : a < n -> rank p n a < n.
Proof.
  intros Ha. unfold rank.
  assert (H : sumn n (fun l' => b2n (lexltb p l' a)) < sumn n (fun _ => 1)).
  { apply (sumn_lt n _ _ a); [assumption| |].
    - intros i _. destruct (lexltb p i a); simpl; lia.
    - rewrite lexltb_irrefl. simpl. lia. }
  pose proof (sumn_all n (fun _ => true) ltac:(reflexivity)) as E. simpl in E.
  rewrite E in H. exact H.
Qed.

(** * [sort_order]: what the result looks like *)

Definition valid_order (n : nat) (order : list nat) : Prop :=
  NoDup order /\ Forall (fun x => x < n) order.

Lemma ind_some_iff order l i :
  NoDup order -> (ind order l = Some i <-> nth_error order i = Some l).
Proof.
  intros Hnd. unfold ind. split; [apply index_of_nth|apply nth_index_of; assumption].
Qed.

Lemma total_order_ind n order l :
  valid_order n order -> length order = n -> l < n -> exists i, ind order l = Some i.
Proof.
  intros [Hnd Hr] Hlen Hl.
  assert (Hin : In l order).
  { apply (NoDup_length_incl Hnd (l' := seq 0 n)).
    - rewrite seq_length. lia.
    - intros x Hx. rewrite Forall_forall in Hr. apply in_seq. specialize (Hr x Hx). lia.
    - apply in_seq. lia. }
  unfold ind. destruct (index_of l order) as [i|] eqn:E; [eauto|].
  apply index_of_none in E. contradiction.
Qed.

Lemma pind_inj_mentioned order a b i :
  NoDup order -> ind order a = Some i -> pind order b = i -> ind order b <> None -> a = b.
Proof.
  intros Hnd Ha Hb Hn. unfold pind in Hb. destruct (ind order b) as [k|] eqn:E; [|congruence].
  subst k. apply ind_some_iff in Ha, E; try assumption. congruence.
Qed.

(** closed form of the result *)
Definition pos (n : nat) (order : list nat) (l : nat) : nat :=
  if length order =? n then pind order l else rank (pind order) n l.

Lemma sort_order_closed n order :
  valid_order n order -> sort_order n order = map (pos n order) (seq 0 n).
Proof.
  intros Hv. pose proof Hv as [Hnd Hr]. unfold sort_order, pos.
  rewrite mark_spec by assumption.
  destruct (Nat.eqb_spec (length order) n) as [Hlen|Hlen].
  - rewrite map_map. apply map_ext_in. intros l Hl. apply in_seq in Hl.
    destruct (total_order_ind n order l Hv Hlen ltac:(lia)) as [i E].
    unfold pind. fold (ind order l). rewrite E. reflexivity.
  - change (map (fun l => index_of l order) (seq 0 n)) with (map (ind order) (seq 0 n)).
    rewrite seg_new_segl, seg_pass_spec.
    apply (rank_spec (pind order) n (S (length order))).
    intros l _. pose proof (pind_le order l). lia.
Qed.

Lemma sort_order_length n order : valid_order n order -> length (sort_order n order) = n.
Proof. intros H. rewrite sort_order_closed, map_length, seq_length; auto. Qed.

Lemma sort_order_nth n order l :
  valid_order n order -> l < n -> nth l (sort_order n order) 0 = pos n order l.
Proof. intros H Hl. rewrite sort_order_closed, nth_map_seq; auto. Qed.

Lemma pos_iso n order a b :
  valid_order n order -> a < n -> b < n ->
  (pos n order a < pos n order b <-> lexltb (pind order) a b = true).
Proof.
  intros Hv Ha Hb. unfold pos. destruct (Nat.eqb_spec (length order) n) as [Hlen|Hlen].
  - rewrite lexltb_iff. split; [tauto|]. intros [H|[H1 H2]]; [assumption|]. exfalso.
    destruct (total_order_ind n order a Hv Hlen Ha) as [i Ea].
    destruct (total_order_ind n order b Hv Hlen Hb) as [k Eb].
    assert (a = b); [|lia].
    apply (pind_inj_mentioned order a b i); try apply Hv; try congruence.
    rewrite <- H1. unfold pind. rewrite Ea. reflexivity.
  - apply rank_iso; assumption.
Qed.

Lemma pos_bound n order a : valid_order n order -> a < n -> pos n order a < n.
Proof.
  intros Hv Ha. unfold pos. destruct (Nat.eqb_spec (length order) n) as [Hlen|Hlen].
  - destruct (total_order_ind n order a Hv Hlen Ha) as [i E].
    unfold pind. rewrite E. apply ind_lt in E. lia.
  - apply rank_bound. assumption.
Qed.

Lemma pos_inj n order a b :
  valid_order n order -> a < n -> b < n -> pos n order a = pos n order b -> a = b.
Proof.
  intros Hv Ha Hb H. destruct (Nat.eq_dec a b) as [|Hne]; [assumption|]. exfalso.
  destruct (lexltb_total (pind order) a b Hne) as [L|L];
    apply (pos_iso n order) in L; auto; lia.
Qed.

(** * Theorem: the result is a permutation of [0, n) *)

Lemma NoDup_map_inj_in {A B} (f : A -> B) l :
  (forall a b, In a l -> In b l -> f a = f b -> a = b) -> NoDup l -> NoDup (map f l).
Proof.
  induction l as [|x r IH]; intros Hinj Hnd; simpl; [constructor|].
  inversion Hnd as [|? ? Hni Hnd']; subst. constructor.
  - intros Hin. apply in_map_iff in Hin. destruct Hin as (y & Hy & Hin).
    assert (y = x) by (apply Hinj; simpl; auto). subst. contradiction.
  - apply IH; [|assumption]. intros a b Ha Hb. apply Hinj; simpl; auto.
Qed.

Theorem sort_order_perm n order :
  valid_order n order -> Permutation (sort_order n order) (seq 0 n).
Proof.
  intros Hv. apply NoDup_Permutation_bis.
  - rewrite sort_order_closed by assumption.
    apply NoDup_map_inj_in; [|apply seq_NoDup].
    intros a b Ha Hb. apply in_seq in Ha, Hb. apply pos_inj; auto; lia.
  - rewrite sort_order_length, seq_length; auto.
  - intros x Hx. rewrite sort_order_closed in Hx by assumption.
    apply in_map_iff in Hx. destruct Hx as (l & <- & Hl). apply in_seq in Hl.
    apply in_seq. pose proof (pos_bound n order l Hv ltac:(lia)). lia.
Qed.

(** * Theorem: mentioned levels end up in the requested relative order *)

(** [t] (current level |-> target level) places the levels of [order] in the
    order of the list *)
Definition respects (order t : list nat) : Prop :=
  forall i j, i < j < length order ->
    nth (nth i order 0) t 0 < nth (nth j order 0) t 0.

Lemma order_nth_lt n order i : valid_order n order -> i < length order -> nth i order 0 < n.
Proof.
  intros [_ Hr] Hi. rewrite Forall_forall in Hr. apply Hr. apply nth_In. assumption.
Qed.

Lemma ind_order_nth n order i :
  valid_order n order -> i < length order -> ind order (nth i order 0) = Some i.
Proof.
  intros [Hnd _] Hi. apply ind_some_iff; [assumption|]. apply nth_error_nth'. assumption.
Qed.

Lemma pind_order_nth n order i :
  valid_order n order -> i < length order -> pind order (nth i order 0) = i.
Proof. intros Hv Hi. unfold pind. rewrite (ind_order_nth n) by assumption. reflexivity. Qed.

Theorem sort_order_respects n order :
  valid_order n order -> respects order (sort_order n order).
Proof.
  intros Hv i j Hij.
  pose proof (order_nth_lt n order i Hv ltac:(lia)) as Hi.
  pose proof (order_nth_lt n order j Hv ltac:(lia)) as Hj.
  rewrite !sort_order_nth by assumption.
  apply pos_iso; try assumption. apply lexltb_iff. left.
  rewrite !(pind_order_nth n) by (auto; lia). lia.
Qed.
(** * inversions as a double sum *)

Definition invf (n : nat) (t : nat -> nat) : nat :=
  sumn n (fun i => sumn n (fun j => b2n ((i <? j) && (t j <? t i)))).

Lemma count_lt_sum x l : count_lt x l = sumn (length l) (fun j => b2n (nth j l 0 <? x)).
Proof.
  induction l as [|y r IH]; [reflexivity|].
  cbn [length]. rewrite sumn_S_first. simpl. rewrite IH. reflexivity.
Qed.

Lemma inv_invf l : inv l = invf (length l) (fun i => nth i l 0).
Proof.
  induction l as [|x r IH]; [reflexivity|].
  cbn [length inv]. unfold invf. rewrite sumn_S_first. f_equal.
  - rewrite sumn_S_first. rewrite count_lt_sum. simpl. reflexivity.
  - rewrite IH. unfold invf. apply sumn_ext. intros i _.
    rewrite sumn_S_first. simpl. reflexivity.
Qed.

Lemma invf_ext n t t' : (forall i, i < n -> t i = t' i) -> invf n t = invf n t'.
Proof.
  intros H. unfold invf. apply sumn_ext. intros i Hi. apply sumn_ext. intros j Hj.
  rewrite !H by assumption. reflexivity.
Qed.

(** * double sums *)

Definition sumn2 (n : nat) (f : nat -> nat -> nat) : nat :=
  sumn n (fun i => sumn n (fun j => f i j)).

Lemma sumn2_ext n f g : (forall i j, i < n -> j < n -> f i j = g i j) -> sumn2 n f = sumn2 n g.
Proof. intros H. apply sumn_ext. intros i Hi. apply sumn_ext. intros j Hj. auto. Qed.

Lemma sumn2_add n f g : sumn2 n (fun i j => f i j + g i j) = sumn2 n f + sumn2 n g.
Proof.
  unfold sumn2. rewrite <- sumn_add. apply sumn_ext. intros i _. apply sumn_add.
Qed.

Lemma sumn2_swap n f : sumn2 n f = sumn2 n (fun i j => f j i).
Proof. unfold sumn2. apply sumn_swap. Qed.

Lemma sumn_mul_l n c f : sumn n (fun i => c * f i) = c * sumn n f.
Proof. induction n as [|n IH]; simpl; [lia|]. rewrite IH. lia. Qed.

(** * splitting the inversions by mentioned / unmentioned levels *)

Section Split.
Variable order : list nat.
Variable n : nat.

Definition isM (l : nat) : bool := match ind order l with Some _ => true | None => false end.
Definition mM (l : nat) : nat := b2n (isM l).
Definition mU (l : nat) : nat := b2n (negb (isM l)).

Definition G (t : nat -> nat) (a b : nat) : nat := b2n ((a <? b) && (t b <? t a)).

(** inversions between two mentioned / two unmentioned levels *)
Definition Smm (t : nat -> nat) : nat := sumn2 n (fun a b => mM a * mM b * G t a b).
Definition Suu (t : nat -> nat) : nat := sumn2 n (fun a b => mU a * mU b * G t a b).
(** inversions of level [j] with the mentioned levels *)
Definition Cmu (t : nat -> nat) (j : nat) : nat := sumn n (fun k => mM k * (G t k j + G t j k)).

Lemma invf_split t : invf n t = Smm t + Suu t + sumn n (fun j => mU j * Cmu t j).
Proof.
  change (invf n t) with (sumn2 n (G t)).
  rewrite (sumn2_ext n (G t)
    (fun a b => (mM a * mM b * G t a b + mU a * mU b * G t a b)
                + (mM a * mU b * G t a b + mU a * mM b * G t a b))).
  2:{ intros a b _ _. unfold mM, mU. destruct (isM a), (isM b); simpl; lia. }
  rewrite sumn2_add, sumn2_add. fold (Smm t) (Suu t). f_equal.
  rewrite sumn2_add. rewrite (sumn2_swap n (fun a b => mM a * mU b * G t a b)).
  rewrite <- sumn2_add. unfold sumn2. apply sumn_ext. intros j _.
  unfold Cmu. rewrite <- sumn_mul_l. apply sumn_ext. intros k _. lia.
Qed.

End Split.
(** * the cost of a gap *)

(** number of inversions between the unmentioned level [j] and the mentioned
    levels when [j] is put into gap [g], i.e. directly above the mentioned
    level with position indicator [g] (below all of them for [g = m]) *)
Definition cost (n : nat) (order : list nat) (j g : nat) : nat :=
  sumn n (fun k =>
    match ind order k with
    | Some i => b2n ((k <? j) && (g <=? i)) + b2n ((j <? k) && (i <? g))
    | None => 0
    end).

(** ** Z-valued sums *)

Lemma sumz_ext n f g : (forall i, i < n -> f i = g i) -> sumz n f = sumz n g.
Proof. induction n as [|n IH]; intros H; simpl; [reflexivity|]. rewrite IH, H; auto. Qed.

Lemma sumz_add n f g : sumz n (fun i => (f i + g i)%Z) = (sumz n f + sumz n g)%Z.
Proof. induction n as [|n IH]; simpl; [reflexivity|]. rewrite IH. lia. Qed.

Lemma sumz_sub n f g : sumz n (fun i => (f i - g i)%Z) = (sumz n f - sumz n g)%Z.
Proof. induction n as [|n IH]; simpl; [reflexivity|]. rewrite IH. lia. Qed.

Lemma sumz_of_nat n f : Z.of_nat (sumn n f) = sumz n (fun i => Z.of_nat (f i)).
Proof. induction n as [|n IH]; simpl; [reflexivity|]. rewrite <- IH. lia. Qed.

Lemma sumz_restrict n j f :
  j <= n -> sumz n (fun k => if k <? j then f k else 0%Z) = sumz j f.
Proof.
  induction n as [|n IH]; intros Hj.
  - assert (j = 0) by lia. subst. reflexivity.
  - simpl. destruct (Nat.eq_dec j (S n)) as [->|Hne].
    + simpl. replace (n <? S n) with true by (symmetry; apply Nat.ltb_lt; lia).
      f_equal. apply sumz_ext. intros i Hi.
      replace (i <? S n) with true by (symmetry; apply Nat.ltb_lt; lia). reflexivity.
    + rewrite IH by lia. replace (n <? j) with false by (symmetry; apply Nat.ltb_ge; lia). lia.
Qed.

Lemma sumz_nonneg_mono f j j' :
  (forall k, (0 <= f k)%Z) -> j <= j' -> (sumz j f <= sumz j' f)%Z.
Proof.
  intros Hf H. induction H as [|j' H IH]; [lia|]. simpl. specialize (Hf j'). lia.
Qed.

(** ** summing over the mentioned levels = summing over the request *)

Section Cost.
Variable n : nat.
Variable order : list nat.
Hypothesis Hv : valid_order n order.
Notation m := (length order).

Lemma ind_as_sum (F : nat -> nat) k :
  match ind order k with Some i => F i | None => 0 end
  = sumn m (fun i => b2n (nth i order 0 =? k) * F i).
Proof.
  destruct Hv as [Hnd Hr]. destruct (ind order k) as [i0|] eqn:E.
  - pose proof (ind_lt _ _ _ E) as Hi0.
    rewrite (sumn_single m i0); [| assumption |].
    + apply ind_some_iff in E; [|assumption]. apply (nth_error_nth _ _ 0) in E.
      rewrite E, Nat.eqb_refl. simpl. lia.
    + intros i Hi Hne. destruct (Nat.eqb_spec (nth i order 0) k) as [Hk|]; [|reflexivity].
      exfalso. apply Hne.
      assert (E' : ind order k = Some i).
      { apply ind_some_iff; [assumption|]. rewrite <- Hk. apply nth_error_nth'. assumption. }
      congruence.
  - symmetry. apply sumn_zero. intros i Hi.
    destruct (Nat.eqb_spec (nth i order 0) k) as [Hk|]; [|reflexivity]. exfalso.
    apply index_of_none in E. apply E. rewrite <- Hk. apply nth_In. assumption.
Qed.

Lemma sum_mentioned (F : nat -> nat) :
  sumn n (fun k => match ind order k with Some i => F i | None => 0 end) = sumn m F.
Proof.
  rewrite (sumn_ext n _ (fun k => sumn m (fun i => b2n (nth i order 0 =? k) * F i)))
    by (intros; apply ind_as_sum).
  rewrite sumn_swap. apply sumn_ext. intros i Hi.
  rewrite (sumn_single n (nth i order 0)).
  - rewrite Nat.eqb_refl. simpl. lia.
  - apply (order_nth_lt n); assumption.
  - intros k _ Hne. destruct (Nat.eqb_spec (nth i order 0) k); [congruence|reflexivity].
Qed.

(** the tree entry is the cost *)
Lemma cost_segv j g :
  ind order j = None -> j <= n -> g <= m ->
  Z.of_nat (cost n order j g) = segv order j g.
Proof.
  intros Ej Hj Hg.
  set (a := fun k => match ind order k with Some i => b2n ((k <? j) && (g <=? i)) | None => 0 end).
  set (b := fun k => match ind order k with Some i => b2n ((j <? k) && (i <? g)) | None => 0 end).
  set (b' := fun k => match ind order k with Some i => b2n ((k <? j) && (i <? g)) | None => 0 end).
  assert (Hcost : cost n order j g = sumn n a + sumn n b).
  { unfold cost. rewrite <- sumn_add. apply sumn_ext. intros k _. unfold a, b.
    destruct (ind order k); reflexivity. }
  assert (Hbb : sumn n b + sumn n b' = g).
  { rewrite <- sumn_add.
    transitivity (sumn m (fun i => b2n (i <? g))); [|apply sumn_ltb; assumption].
    rewrite <- (sum_mentioned (fun i => b2n (i <? g))).
    apply sumn_ext. intros k _. unfold b, b'. destruct (ind order k) as [i|] eqn:E; [|reflexivity].
    assert (k <> j) by congruence.
    destruct (Nat.ltb_spec j k), (Nat.ltb_spec k j), (i <? g); simpl; lia. }
  assert (Hd : (sumz n (fun k => Z.of_nat (a k)) - sumz n (fun k => Z.of_nat (b' k)))%Z
               = sumz j (fun k => delta order k g)).
  { rewrite <- sumz_sub. rewrite <- (sumz_restrict n j) by assumption.
    apply sumz_ext. intros k _. unfold a, b', delta.
    destruct (ind order k) as [i|]; [|destruct (k <? j); reflexivity].
    destruct (k <? j); simpl; [|reflexivity].
    destruct (Nat.leb_spec g i), (Nat.ltb_spec i g); simpl; lia. }
  unfold segv. rewrite <- Hd, <- !sumz_of_nat. lia.
Qed.

(** the indicator of an unmentioned level is a cost-minimal gap ... *)
Lemma pind_min j g :
  ind order j = None -> j <= n -> g <= m ->
  cost n order j (pind order j) <= cost n order j g.
Proof.
  intros Ej Hj Hg.
  pose proof (pind_le order j) as Hp.
  apply Nat2Z.inj_le. rewrite !cost_segv by assumption.
  unfold pind. rewrite Ej.
  destruct (min_index_spec (segl order j)) as (H1 & H2 & _).
  { unfold segl. simpl. discriminate. }
  rewrite segl_length in H1, H2.
  specialize (H2 g ltac:(lia)). rewrite !segl_nth in H2 by lia. exact H2.
Qed.

(** ... and the top-most one *)
Lemma pind_first j g :
  ind order j = None -> j <= n -> g < pind order j ->
  cost n order j (pind order j) < cost n order j g.
Proof.
  intros Ej Hj Hg.
  pose proof (pind_le order j) as Hp.
  apply Nat2Z.inj_lt. rewrite !cost_segv by (auto; lia).
  unfold pind in *. rewrite Ej in *.
  destruct (min_index_spec (segl order j)) as (H1 & _ & H3).
  { unfold segl. simpl. discriminate. }
  rewrite segl_length in H1.
  specialize (H3 g Hg). rewrite !segl_nth in H3 by lia. exact H3.
Qed.

(** ** the minimal gaps of unmentioned levels are monotone *)

Lemma delta_antitone k g1 g2 : g1 <= g2 -> (delta order k g2 <= delta order k g1)%Z.
Proof.
  intros H. unfold delta. destruct (ind order k) as [i|]; [|lia].
  destruct (Nat.leb_spec g1 i), (Nat.leb_spec g2 i); lia.
Qed.

Lemma segv_diff_antitone j j' g1 g2 :
  j <= j' -> g1 <= g2 ->
  (segv order j' g2 - segv order j g2 <= segv order j' g1 - segv order j g1)%Z.
Proof.
  intros Hj Hg. unfold segv.
  pose proof (sumz_nonneg_mono (fun k => (delta order k g1 - delta order k g2)%Z) j j'
                ltac:(intros k; pose proof (delta_antitone k g1 g2 Hg); lia) Hj) as H.
  rewrite !sumz_sub in H. lia.
Qed.

Lemma pind_mono a b :
  ind order a = None -> ind order b = None -> a <= b -> pind order a <= pind order b.
Proof.
  intros Ea Eb Hab.
  destruct (Nat.le_gt_cases (pind order a) (pind order b)) as [|Hlt]; [assumption|exfalso].
  pose proof (pind_le order a) as Hpa.
  pose proof (segv_diff_antitone a b (pind order b) (pind order a) Hab ltac:(lia)) as Hd.
  unfold pind in *. rewrite Ea, Eb in *.
  destruct (min_index_spec (segl order a)) as (A1 & _ & A3); [unfold segl; simpl; discriminate|].
  destruct (min_index_spec (segl order b)) as (B1 & B2 & _); [unfold segl; simpl; discriminate|].
  rewrite segl_length in *.
  specialize (A3 _ Hlt). specialize (B2 (min_index (segl order a)) ltac:(lia)).
  rewrite !segl_nth in A3, B2 by lia. lia.
Qed.

End Cost.
(** * Theorem: the completion minimises the number of inversions *)

Section Optimal.
Variable n : nat.
Variable order : list nat.
Hypothesis Hv : valid_order n order.
Notation m := (length order).
Notation p := (pind order).

Lemma isM_false l : isM order l = false <-> ind order l = None.
Proof. unfold isM. destruct (ind order l); split; congruence. Qed.

Lemma pind_mentioned l i : ind order l = Some i -> p l = i.
Proof. intros E. unfold pind. rewrite E. reflexivity. Qed.

Lemma pos_ltb a b : a < n -> b < n -> (pos n order a <? pos n order b) = lexltb p a b.
Proof.
  intros Ha Hb. pose proof (pos_iso n order a b Hv Ha Hb) as H.
  destruct (Nat.ltb_spec (pos n order a) (pos n order b)) as [L|L].
  - symmetry. apply H. assumption.
  - destruct (lexltb p a b); [|reflexivity]. exfalso.
    pose proof (proj2 H eq_refl). lia.
Qed.

Lemma invf_pos : invf n (pos n order) = invf n p.
Proof.
  unfold invf. apply sumn_ext. intros a Ha. apply sumn_ext. intros b Hb.
  rewrite pos_ltb by assumption. unfold lexltb.
  destruct (Nat.ltb_spec a b), (Nat.ltb_spec (p b) (p a)), (Nat.eqb_spec (p b) (p a)),
    (Nat.ltb_spec b a); simpl; try reflexivity; lia.
Qed.

Lemma Suu_p : Suu order n p = 0.
Proof.
  unfold Suu, sumn2. apply sumn_zero. intros a Ha. apply sumn_zero. intros b Hb.
  unfold mU. destruct (isM order a) eqn:Ea; [reflexivity|].
  destruct (isM order b) eqn:Eb; [simpl; lia|].
  apply isM_false in Ea, Eb. unfold G.
  destruct (Nat.ltb_spec a b) as [Hab|]; [|reflexivity].
  pose proof (pind_mono order a b Ea Eb ltac:(lia)).
  replace (p b <? p a) with false by (symmetry; apply Nat.ltb_ge; assumption).
  reflexivity.
Qed.

Lemma Cmu_p_le j : ind order j = None -> Cmu order n p j <= cost n order j (p j).
Proof.
  intros Ej. unfold Cmu, cost. apply sumn_le. intros k Hk.
  unfold mM, isM. destruct (ind order k) as [i|] eqn:Ek; [|simpl; lia].
  unfold G. rewrite (pind_mentioned k i Ek).
  destruct (Nat.ltb_spec k j), (Nat.ltb_spec j k), (Nat.ltb_spec (p j) i),
    (Nat.leb_spec (p j) i), (Nat.ltb_spec i (p j)); simpl; lia.
Qed.

(** the same, with equality (not needed for optimality): an unmentioned level
    is never placed by the counting pass on the wrong side of the mentioned
    level that shares its indicator *)
Lemma cost_gap_step j g k :
  ind order j = None -> j < n -> ind order k = Some g -> k < j ->
  cost n order j g = S (cost n order j (S g)).
Proof.
  intros Ej Hj Ek Hkj. unfold cost.
  assert (Hk : k < n) by lia.
  assert (Hsplit : forall f, sumn n f = f k + sumn n (fun x => if x =? k then 0 else f x)).
  { intros f. clear - Hk. induction n as [|n' IH]; [lia|]. simpl.
    destruct (Nat.eq_dec k n') as [->|Hne].
    - rewrite Nat.eqb_refl. rewrite (sumn_ext n' (fun x => if x =? n' then 0 else f x) f).
      + lia.
      + intros i Hi. destruct (Nat.eqb_spec i n'); [lia|reflexivity].
    - rewrite (IH ltac:(lia)). destruct (Nat.eqb_spec n' k); [lia|]. lia. }
  rewrite (Hsplit (fun k0 => match ind order k0 with
                             | Some i => b2n ((k0 <? j) && (g <=? i)) + b2n ((j <? k0) && (i <? g))
                             | None => 0 end)).
  rewrite (Hsplit (fun k0 => match ind order k0 with
                             | Some i => b2n ((k0 <? j) && (S g <=? i)) + b2n ((j <? k0) && (i <? S g))
                             | None => 0 end)).
  rewrite Ek.
  replace (k <? j) with true by (symmetry; apply Nat.ltb_lt; assumption).
  replace (j <? k) with false by (symmetry; apply Nat.ltb_ge; lia).
  rewrite Nat.leb_refl. replace (S g <=? g) with false by (symmetry; apply Nat.leb_gt; lia).
  cbn [andb b2n].
  match goal with |- _ + ?A = S (_ + ?B) => assert (HAB : A = B); [|rewrite HAB; lia] end.
  apply sumn_ext. intros x Hx.
  destruct (Nat.eqb_spec x k) as [|Hne]; [reflexivity|].
  destruct (ind order x) as [i|] eqn:Ex; [|reflexivity].
  assert (i <> g).
  { intros ->. apply Hne. destruct Hv as [Hnd _].
    apply ind_some_iff in Ex, Ek; try assumption. congruence. }
  destruct (Nat.leb_spec g i), (Nat.leb_spec (S g) i), (Nat.ltb_spec i g), (Nat.ltb_spec i (S g));
    try lia; reflexivity.
Qed.

Lemma pind_no_tie j k :
  ind order j = None -> j < n -> ind order k = Some (p j) -> j < k.
Proof.
  intros Ej Hj Ek.
  assert (k <> j) by congruence.
  destruct (Nat.lt_ge_cases j k) as [|Hle]; [assumption|exfalso].
  pose proof (cost_gap_step j (p j) k Ej Hj Ek ltac:(lia)) as H1.
  pose proof (ind_lt _ _ _ Ek) as Hlt.
  pose proof (pind_min n order Hv j (S (p j)) Ej ltac:(lia) ltac:(lia)). lia.
Qed.

Lemma Cmu_p_eq j : ind order j = None -> j < n -> Cmu order n p j = cost n order j (p j).
Proof.
  intros Ej Hj. unfold Cmu, cost. apply sumn_ext. intros k Hk.
  unfold mM, isM. destruct (ind order k) as [i|] eqn:Ek; [|simpl; lia].
  unfold G. rewrite (pind_mentioned k i Ek).
  destruct (Nat.eq_dec i (p j)) as [->|Hne].
  - pose proof (pind_no_tie j k Ej Hj Ek).
    replace (k <? j) with false by (symmetry; apply Nat.ltb_ge; lia). simpl. lia.
  - destruct (Nat.ltb_spec k j), (Nat.ltb_spec j k), (Nat.ltb_spec (p j) i),
      (Nat.leb_spec (p j) i), (Nat.ltb_spec i (p j)); simpl; lia.
Qed.

(** ** any other admissible target order *)

Variable u : list nat.
Hypothesis Hu : Permutation u (seq 0 n).
Hypothesis Hresp : respects order u.
Notation uf := (fun i => nth i u 0).

Lemma u_length : length u = n.
Proof. rewrite (Permutation_length Hu). apply seq_length. Qed.

Lemma u_inj a b : a < n -> b < n -> nth a u 0 = nth b u 0 -> a = b.
Proof.
  intros Ha Hb H. assert (Hnd : NoDup u).
  { apply (Permutation_NoDup (Permutation_sym Hu)). apply seq_NoDup. }
  rewrite NoDup_nth in Hnd. apply Hnd; rewrite ?u_length; eauto.
Qed.

Lemma u_mm a b i k :
  ind order a = Some i -> ind order b = Some k -> (nth b u 0 <? nth a u 0) = (k <? i).
Proof.
  intros Ea Eb. destruct Hv as [Hnd _].
  pose proof (ind_lt _ _ _ Ea) as Hi. pose proof (ind_lt _ _ _ Eb) as Hk.
  apply ind_some_iff in Ea, Eb; try assumption.
  apply (nth_error_nth _ _ 0) in Ea, Eb.
  destruct (Nat.ltb_spec k i) as [L|L].
  - apply Nat.ltb_lt. pose proof (Hresp k i ltac:(lia)) as H. rewrite Ea, Eb in H. exact H.
  - apply Nat.ltb_ge. destruct (Nat.eq_dec i k) as [->|Hne].
    + assert (a = b) by congruence. subst. lia.
    + pose proof (Hresp i k ltac:(lia)) as H. rewrite Ea, Eb in H. lia.
Qed.

Lemma Smm_u : Smm order n uf = Smm order n p.
Proof.
  unfold Smm. apply sumn2_ext. intros a b Ha Hb.
  unfold mM, isM. destruct (ind order a) as [i|] eqn:Ea; [|reflexivity].
  destruct (ind order b) as [k|] eqn:Eb; [|simpl; lia].
  unfold G. rewrite (u_mm a b i k Ea Eb), (pind_mentioned a i Ea), (pind_mentioned b k Eb).
  reflexivity.
Qed.

(** the gap [u] puts level [j] into *)
Definition gap_of (j : nat) : nat := sumn m (fun i => b2n (nth (nth i order 0) u 0 <? nth j u 0)).

Lemma gap_of_le j : gap_of j <= m.
Proof. apply sumn_b2n_le. Qed.

Lemma Cmu_u j : j < n -> ind order j = None -> Cmu order n uf j = cost n order j (gap_of j).
Proof.
  intros Hj Ej. unfold Cmu, cost. apply sumn_ext. intros k Hk.
  unfold mM, isM. destruct (ind order k) as [i|] eqn:Ek; [|simpl; lia].
  assert (Hne : k <> j) by congruence.
  pose proof (ind_lt _ _ _ Ek) as Hi.
  assert (Hki : nth i order 0 = k).
  { destruct Hv as [Hnd _]. apply ind_some_iff in Ek; [|assumption].
    apply (nth_error_nth _ _ 0) in Ek. exact Ek. }
  pose proof (incr_threshold m (fun i => nth (nth i order 0) u 0) (nth j u 0)
                ltac:(intros a b Hab; apply Hresp; lia) i Hi) as Hthr.
  simpl in Hthr. rewrite Hki in Hthr. fold (gap_of j) in Hthr.
  assert (Hneq : nth k u 0 <> nth j u 0).
  { intros E. apply Hne. apply u_inj; assumption. }
  unfold G.
  assert (H1 : (nth k u 0 <? nth j u 0) = (i <? gap_of j)) by exact Hthr.
  assert (H2 : (nth j u 0 <? nth k u 0) = (gap_of j <=? i)).
  { destruct (Nat.ltb_spec i (gap_of j)) as [L|L].
    - apply Nat.ltb_lt in H1. rewrite (proj2 (Nat.leb_gt _ _) L). apply Nat.ltb_ge. lia.
    - apply Nat.ltb_ge in H1. rewrite (proj2 (Nat.leb_le _ _) L). apply Nat.ltb_lt. lia. }
  rewrite H1, H2. simpl. lia.
Qed.

Lemma min_inversions_main : inv (sort_order n order) <= inv u.
Proof.
  rewrite (inv_invf (sort_order n order)), (inv_invf u), sort_order_length, u_length by assumption.
  rewrite (invf_ext n _ (pos n order)) by (intros; apply sort_order_nth; assumption).
  rewrite invf_pos. rewrite !(invf_split order n). rewrite Suu_p, Smm_u.
  assert (sumn n (fun j => mU order j * Cmu order n p j)
          <= sumn n (fun j => mU order j * Cmu order n uf j)); [|lia].
  apply sumn_le. intros j Hj. unfold mU. destruct (isM order j) eqn:Ej; simpl; [lia|].
  apply isM_false in Ej. rewrite !Nat.add_0_r.
  rewrite (Cmu_u j Hj Ej).
  etransitivity; [apply Cmu_p_le; assumption|].
  apply pind_min; auto; [lia|apply gap_of_le].
Qed.

End Optimal.

Theorem sort_order_min_inversions n order u :
  valid_order n order -> Permutation u (seq 0 n) -> respects order u ->
  inv (sort_order n order) <= inv u.
Proof. intros. apply min_inversions_main; assumption. Qed.
(** * Top-most optimal gap, and the specification as a whole *)

(** number of mentioned levels that [t] places above level [j]: the gap of [j] *)
Definition gap_in (order t : list nat) (j : nat) : nat :=
  sumn (length order) (fun i => b2n (nth (nth i order 0) t 0 <? nth j t 0)).

(** meaning of [cost]: in every admissible target order the unmentioned level
    [j] has exactly [cost j (gap of j)] inversions with mentioned levels *)
Theorem cost_meaning n order u j :
  valid_order n order -> Permutation u (seq 0 n) -> respects order u ->
  j < n -> ~ In j order ->
  sumn n (fun k => if existsb (Nat.eqb k) order
                   then b2n ((k <? j) && (nth j u 0 <? nth k u 0))
                        + b2n ((j <? k) && (nth k u 0 <? nth j u 0))
                   else 0)
  = cost n order j (gap_in order u j).
Proof.
  intros Hv Hu Hr Hj Hn. apply index_of_none in Hn.
  change (gap_in order u j) with (gap_of order u j).
  rewrite <- (Cmu_u n order Hv u Hu Hr j Hj Hn). unfold Cmu. apply sumn_ext. intros k Hk.
  unfold mM, isM, G.
  destruct (existsb (Nat.eqb k) order) eqn:E.
  - apply existsb_exists in E. destruct E as (x & Hx & Hkx). apply Nat.eqb_eq in Hkx. subst x.
    destruct (ind order k) eqn:E'; [simpl; lia|]. apply index_of_none in E'. contradiction.
  - destruct (ind order k) as [i|] eqn:E'; [|reflexivity]. exfalso.
    apply index_of_nth in E'. apply nth_error_In in E'.
    assert (existsb (Nat.eqb k) order = true); [|congruence].
    apply existsb_exists. exists k. split; [assumption|apply Nat.eqb_refl].
Qed.

Section Topmost.
Variable n : nat.
Variable order : list nat.
Hypothesis Hv : valid_order n order.
Notation p := (pind order).

Lemma sort_order_gap j :
  j < n -> ind order j = None -> gap_in order (sort_order n order) j = p j.
Proof.
  intros Hj Ej. unfold gap_in.
  rewrite <- (sumn_ltb (length order) (p j) (pind_le order j)).
  apply sumn_ext. intros i Hi. f_equal.
  pose proof (order_nth_lt n order i Hv Hi) as Hk.
  pose proof (ind_order_nth n order i Hv Hi) as Ek.
  rewrite !sort_order_nth by assumption.
  rewrite pos_ltb by assumption. unfold lexltb.
  rewrite (pind_mentioned order _ _ Ek).
  destruct (Nat.eqb_spec i (p j)) as [->|Hne].
  - pose proof (pind_no_tie n order Hv j _ Ej Hj Ek).
    rewrite Nat.ltb_irrefl. simpl. apply Nat.ltb_ge. lia.
  - rewrite andb_false_l, orb_false_r. reflexivity.
Qed.

(** unmentioned levels keep their mutual order *)
Theorem sort_order_keeps_unmentioned a b :
  a < b < n -> ~ In a order -> ~ In b order ->
  nth a (sort_order n order) 0 < nth b (sort_order n order) 0.
Proof.
  intros Hab Ha Hb. apply index_of_none in Ha, Hb.
  rewrite !sort_order_nth by (auto; lia).
  apply pos_iso; try assumption; try lia. apply lexltb_iff.
  pose proof (pind_mono order a b Ha Hb ltac:(lia)). lia.
Qed.

(** every unmentioned level sits in the top-most cost-minimal gap *)
Theorem sort_order_topmost j g' :
  j < n -> ~ In j order -> g' <= length order ->
  let g := gap_in order (sort_order n order) j in
  cost n order j g <= cost n order j g' /\ (g' < g -> cost n order j g < cost n order j g').
Proof.
  intros Hj Hn Hg'. apply index_of_none in Hn. fold (ind order j) in Hn.
  cbv zeta. rewrite (sort_order_gap j Hj Hn). split.
  - apply (pind_min n); auto; lia.
  - intros H. apply (pind_first n); auto; lia.
Qed.

(** inversions of the result = inversions among mentioned levels (fixed by the
    request) + the minimal cost of every unmentioned level *)
Theorem sort_order_cost_eq :
  inv (sort_order n order)
  = Smm order n p + sumn n (fun j => mU order j * cost n order j (p j)).
Proof.
  rewrite (inv_invf (sort_order n order)), sort_order_length by assumption.
  rewrite (invf_ext n _ (pos n order)) by (intros; apply sort_order_nth; assumption).
  rewrite (invf_pos n order Hv), (invf_split order n), (Suu_p n order), Nat.add_0_r. f_equal.
  apply sumn_ext. intros j Hj. unfold mU. destruct (isM order j) eqn:Ej; [reflexivity|].
  apply isM_false in Ej. rewrite (Cmu_p_eq n order Hv j Ej Hj). reflexivity.
Qed.

End Topmost.

(** the naive specification of [sort_order] *)
Record sort_order_spec (n : nat) (order t : list nat) : Prop := {
  sos_perm : Permutation t (seq 0 n);
  sos_respects : respects order t;
  sos_min : forall u, Permutation u (seq 0 n) -> respects order u -> inv t <= inv u;
  sos_keep : forall a b, a < b < n -> ~ In a order -> ~ In b order -> nth a t 0 < nth b t 0;
  sos_topmost : forall j g', j < n -> ~ In j order -> g' < gap_in order t j ->
      cost n order j (gap_in order t j) < cost n order j g'
}.

Theorem sort_order_meets_spec n order :
  valid_order n order -> sort_order_spec n order (sort_order n order).
Proof.
  intros Hv. constructor.
  - apply sort_order_perm; assumption.
  - apply sort_order_respects; assumption.
  - intros. apply sort_order_min_inversions; assumption.
  - intros. apply sort_order_keeps_unmentioned; assumption.
  - intros j g' Hj Hn Hg'.
    assert (Hle : g' <= length order).
    { pose proof (sumn_b2n_le (length order)
        (fun i => nth (nth i order 0) (sort_order n order) 0 <? nth j (sort_order n order) 0)).
      unfold gap_in in Hg'. lia. }
    apply (sort_order_topmost n order Hv j g' Hj Hn Hle). assumption.
Qed.

Lemma order_ok_b_valid n order : order_ok_b n order = true <-> valid_order n order.
Proof.
  unfold order_ok_b, valid_order. rewrite andb_true_iff, forallb_forall, Forall_forall.
  assert (Hnd : nodup_b order = true <-> NoDup order).
  { induction order as [|x r IH]; simpl.
    - split; [constructor|reflexivity].
    - rewrite andb_true_iff, negb_true_iff, IH. split.
      + intros [H1 H2]. constructor; [|assumption]. intros Hin.
        assert (existsb (Nat.eqb x) r = true); [|congruence].
        apply existsb_exists. exists x. split; [assumption|apply Nat.eqb_refl].
      + intros H. inversion H as [|? ? Hni Hnd]; subst. split; [|assumption].
        destruct (existsb (Nat.eqb x) r) eqn:E; [|reflexivity]. exfalso.
        apply existsb_exists in E. destruct E as (y & Hy & Hxy). apply Nat.eqb_eq in Hxy.
        subst. contradiction. }
  rewrite Hnd. split.
  - intros [H1 H2]. split; [assumption|]. intros x Hx. apply Nat.ltb_lt. auto.
  - intros [H1 H2]. split; [|assumption]. intros x Hx. apply Nat.ltb_lt. auto.
Qed.

(** the Rust unit-test vectors ([test_sort_order]) *)
Example sort_order_ex1 : sort_order 4 [0;1;2;3] = [0;1;2;3]. Proof. vm_compute. reflexivity. Qed.
Example sort_order_ex2 : sort_order 4 [1;0;2;3] = [1;0;2;3]. Proof. vm_compute. reflexivity. Qed.
Example sort_order_ex3 : sort_order 4 [0;2;3;1] = [0;3;1;2]. Proof. vm_compute. reflexivity. Qed.
Example sort_order_ex4 : sort_order 3 [2;0] = [2;0;1]. Proof. vm_compute. reflexivity. Qed.
Example sort_order_ex5 : sort_order 10 [6;3;0;4;1;9] = [3;5;0;2;4;6;1;7;8;9].
Proof. vm_compute. reflexivity. Qed.
Example sort_order_ex6 : sort_order 8 [7;3;0;5;6;1] = [3;7;0;2;4;5;6;1].
Proof. vm_compute. reflexivity. Qed.
Example valid_order_ex : valid_order 10 [6;3;0;4;1;9].
Proof. apply order_ok_b_valid. vm_compute. reflexivity. Qed.
(** * [bubble_sort] *)

Lemma swap_adj_length {A} i (l : list A) : length (swap_adj i l) = length l.
Proof.
  revert l; induction i as [|i IH]; intros [|a r]; simpl; auto.
  destruct r; reflexivity.
Qed.

Lemma nth_swap_adj {A} i (l : list A) k d :
  S i < length l ->
  nth k (swap_adj i l) d =
  if k =? i then nth (S i) l d else if k =? S i then nth i l d else nth k l d.
Proof.
  revert l k; induction i as [|i IH]; intros l k H.
  - destruct l as [|a [|b r]]; simpl in H; try lia. destruct k as [|[|k]]; reflexivity.
  - destruct l as [|a r]; simpl in H; [lia|]. destruct k as [|k]; [reflexivity|].
    cbn [swap_adj nth]. rewrite IH by lia. reflexivity.
Qed.

Lemma swap_adj_perm {A} i (l : list A) : Permutation (swap_adj i l) l.
Proof.
  revert l; induction i as [|i IH]; intros [|a r]; simpl; auto.
  destruct r; [reflexivity|apply perm_swap].
Qed.

Lemma swap_adj_map {A B} (f : A -> B) i l : swap_adj i (map f l) = map f (swap_adj i l).
Proof.
  revert l; induction i as [|i IH]; intros [|a r]; simpl; auto.
  - destruct r; reflexivity.
  - f_equal. apply IH.
Qed.

Lemma replay_map {A B} (f : A -> B) sw l : replay sw (map f l) = map f (replay sw l).
Proof.
  revert l; induction sw as [|i r IH]; intros l; [reflexivity|].
  unfold replay in *. simpl. rewrite swap_adj_map. apply IH.
Qed.

Lemma replay_app {A} a b (l : list A) : replay (a ++ b) l = replay b (replay a l).
Proof. unfold replay. apply fold_left_app. Qed.

Lemma replay_length {A} sw (l : list A) : length (replay sw l) = length l.
Proof.
  revert l; induction sw as [|i r IH]; intros l; [reflexivity|].
  unfold replay in *. simpl. rewrite IH. apply swap_adj_length.
Qed.

Lemma replay_perm {A} sw (l : list A) : Permutation (replay sw l) l.
Proof.
  revert l; induction sw as [|i r IH]; intros l; [reflexivity|].
  unfold replay in *. simpl. rewrite IH. apply swap_adj_perm.
Qed.

Lemma count_lt_swap x i l : count_lt x (swap_adj i l) = count_lt x l.
Proof.
  revert l; induction i as [|i IH]; intros [|a r]; simpl; auto.
  destruct r; simpl; lia.
Qed.

(** exchanging an out-of-order adjacent pair removes exactly one inversion *)
Lemma inv_swap_adj i l :
  S i < length l -> nth (S i) l 0 < nth i l 0 -> inv l = S (inv (swap_adj i l)).
Proof.
  revert l; induction i as [|i IH]; intros l Hl Hlt.
  - destruct l as [|a [|b r]]; simpl in Hl; try lia. simpl in Hlt. simpl.
    replace (b <? a) with true by (symmetry; apply Nat.ltb_lt; assumption).
    replace (a <? b) with false by (symmetry; apply Nat.ltb_ge; lia). lia.
  - destruct l as [|a r]; simpl in Hl; [lia|]. cbn [swap_adj inv].
    rewrite count_lt_swap. cbn [nth] in Hlt. rewrite (IH r) by (assumption || lia). lia.
Qed.

(** every swap exchanges an adjacent pair that is strictly out of order at
    that moment (hence equal keys are never exchanged: stability) *)
Fixpoint valid_swaps (l : list nat) (sw : list nat) : Prop :=
  match sw with
  | [] => True
  | i :: r => S i < length l /\ nth (S i) l 0 < nth i l 0 /\ valid_swaps (swap_adj i l) r
  end.

Lemma valid_swaps_app l a b :
  valid_swaps l (a ++ b) <-> valid_swaps l a /\ valid_swaps (replay a l) b.
Proof.
  revert l; induction a as [|i r IH]; intros l; simpl; [tauto|].
  rewrite IH. unfold replay. simpl. tauto.
Qed.

Lemma valid_swaps_inv l sw : valid_swaps l sw -> inv l = length sw + inv (replay sw l).
Proof.
  revert l; induction sw as [|i r IH]; intros l H; [reflexivity|].
  destruct H as (H1 & H2 & H3). rewrite (inv_swap_adj i l H1 H2), (IH _ H3).
  unfold replay. simpl. lia.
Qed.

Definition sorted (l : list nat) : Prop :=
  forall a b, a < b < length l -> nth a l 0 <= nth b l 0.

Lemma sorted_inv l : sorted l -> inv l = 0.
Proof.
  intros H. rewrite inv_invf. unfold invf. apply sumn_zero. intros i Hi.
  apply sumn_zero. intros j Hj.
  destruct (Nat.ltb_spec i j) as [L|]; [|reflexivity].
  pose proof (H i j ltac:(lia)).
  replace (nth j l 0 <? nth i l 0) with false by (symmetry; apply Nat.ltb_ge; assumption).
  reflexivity.
Qed.

(** positions in [lo, hi) hold elements that dominate everything before them *)
Definition dom (s : list nat) (lo hi : nat) : Prop :=
  forall j, lo <= j < hi -> forall k, k < j -> nth k s 0 <= nth j s 0.

Lemma bubble_pass_spec s0 cnt : forall i s nn sw s' nn' sw' n,
  bubble_pass cnt i s nn sw = (s', nn', sw') ->
  1 <= i -> i + cnt = n -> n <= length s -> nn < i ->
  valid_swaps s0 (rev sw) -> replay (rev sw) s0 = s ->
  dom s nn i -> dom s n (length s) ->
  valid_swaps s0 (rev sw') /\ replay (rev sw') s0 = s' /\ length s' = length s
  /\ nn' < n /\ dom s' nn' (length s').
Proof.
  induction cnt as [|cnt IH]; intros i s nn sw s' nn' sw' n Hp Hi Hn Hlen Hnn Hval Hrep Hd1 Hd2.
  - simpl in Hp. injection Hp as <- <- <-. assert (i = n) by lia. subst i.
    repeat split; auto. intros j Hj k Hk.
    destruct (Nat.lt_ge_cases j n); [apply Hd1|apply Hd2]; lia.
  - simpl in Hp. destruct (Nat.ltb_spec (nth i s 0) (nth (i - 1) s 0)) as [Hlt|Hge].
    + assert (Hsi : S (i - 1) = i) by lia.
      assert (Hlen' : S (i - 1) < length s) by lia.
      apply (IH _ _ _ _ _ _ _ n) in Hp; try lia.
      * rewrite swap_adj_length in Hp. exact Hp.
      * rewrite swap_adj_length. lia.
      * simpl. apply valid_swaps_app. split; [assumption|]. rewrite Hrep. simpl.
        rewrite Hsi. repeat split; [lia|assumption].
      * simpl. rewrite replay_app, Hrep. reflexivity.
      * intros j Hj k Hk. assert (j = i) by lia. subst j.
        rewrite !nth_swap_adj by assumption. rewrite Hsi.
        replace (i =? i - 1) with false by (symmetry; apply Nat.eqb_neq; lia).
        rewrite Nat.eqb_refl.
        destruct (Nat.eqb_spec k (i - 1)); [lia|].
        replace (k =? i) with false by (symmetry; apply Nat.eqb_neq; lia).
        apply Hd1; lia.
      * rewrite swap_adj_length. intros j Hj k Hk.
        rewrite !nth_swap_adj by assumption. rewrite Hsi.
        replace (j =? i - 1) with false by (symmetry; apply Nat.eqb_neq; lia).
        replace (j =? i) with false by (symmetry; apply Nat.eqb_neq; lia).
        destruct (k =? i - 1); [apply Hd2; lia|]. destruct (k =? i); apply Hd2; lia.
    + apply (IH _ _ _ _ _ _ _ n) in Hp; try lia; auto.
      intros j Hj k Hk. destruct (Nat.eq_dec j i) as [->|]; [|apply Hd1; lia].
      destruct (Nat.eq_dec k (i - 1)) as [->|]; [assumption|].
      pose proof (Hd1 (i - 1) ltac:(lia) k ltac:(lia)). lia.
Qed.

Lemma bubble_loop_spec s0 fuel : forall n s sw s' sw',
  bubble_loop fuel n s sw = (s', sw') ->
  n <= fuel -> n <= length s ->
  valid_swaps s0 (rev sw) -> replay (rev sw) s0 = s -> dom s n (length s) ->
  valid_swaps s0 (rev sw') /\ replay (rev sw') s0 = s' /\ dom s' 1 (length s').
Proof.
  induction fuel as [|fuel IH]; intros n s sw s' sw' Hp Hf Hlen Hval Hrep Hd.
  - simpl in Hp. injection Hp as <- <-. repeat split; auto.
    intros j Hj. apply Hd. lia.
  - simpl in Hp. destruct (Nat.ltb_spec 1 n) as [Hn|Hn].
    + destruct (bubble_pass (n - 1) 1 s 0 sw) as [[s1 nn1] sw1] eqn:E.
      apply (bubble_pass_spec s0 _ _ _ _ _ _ _ _ n) in E; try lia; auto.
      * destruct E as (V & R & L & Hnn & D). apply IH in Hp; auto; lia.
      * intros j Hj k Hk. lia.
    + injection Hp as <- <-. repeat split; auto. intros j Hj. apply Hd. lia.
Qed.

Theorem bubble_sort_correct s :
  let '(s', sw) := bubble_sort s in
  sorted s' /\ Permutation s' s
  /\ valid_swaps s sw /\ replay sw s = s'
  /\ length sw = inv s.
Proof.
  unfold bubble_sort.
  destruct (bubble_loop (length s) (length s) s []) as [s' sw] eqn:E.
  apply (bubble_loop_spec s) in E; simpl; auto.
  2:{ intros j Hj. lia. }
  destruct E as (V & R & D).
  assert (Hs : sorted s').
  { intros a b Hab. apply D; lia. }
  repeat split; auto.
  - rewrite <- R. apply replay_perm.
  - pose proof (valid_swaps_inv s (rev sw) V) as H. rewrite R, (sorted_inv s' Hs) in H. lia.
Qed.

(** every reported index is in range *)
Lemma valid_swaps_range l sw : valid_swaps l sw -> Forall (fun i => S i < length l) sw.
Proof.
  revert l; induction sw as [|i r IH]; intros l H; constructor.
  - apply H.
  - destruct H as (_ & _ & H). apply IH in H. rewrite swap_adj_length in H. exact H.
Qed.

(** replaying the reported swaps on any list of payloads whose keys are [s]
    sorts the payloads by key (this is what the [swap] callback does to the
    levels) *)
Theorem bubble_sort_replay {A} (key : A -> nat) (xs : list A) :
  let '(s', sw) := bubble_sort (map key xs) in
  map key (replay sw xs) = s' /\ Permutation (replay sw xs) xs.
Proof.
  pose proof (bubble_sort_correct (map key xs)) as H.
  destruct (bubble_sort (map key xs)) as [s' sw]. destruct H as (_ & _ & _ & R & _).
  split; [|apply replay_perm]. rewrite <- replay_map. exact R.
Qed.

Example bubble_sort_ex : bubble_sort [4;1;3;0;2] = ([0;1;2;3;4], [0;1;2;3;1;2;0]).
Proof. vm_compute. reflexivity. Qed.
Example bubble_sort_stable_ex : bubble_sort [0;0;1;1] = ([0;0;1;1], []).
Proof. vm_compute. reflexivity. Qed.
(** * [concurrent_bubble_sort]: invariants of the task state machine *)

(** the two indices a pending or running swap at [i] owns *)
Definition pairs (T : list nat) : list nat := flat_map (fun i => [i; S i]) T.

(** [T] = all pending ([tasks]) and running ([inflight]) swaps *)
Record inv_core (s : list nat) (b : list bool) (T : list nat) : Prop := {
  ic_len : length b = length s;
  (* no two pending/running swaps share an index *)
  ic_disj : NoDup (pairs T);
  (* exactly their indices are blocked *)
  ic_blocked : forall k, nth k b false = true <-> In k (pairs T);
  (* each of them is an adjacent pair that is strictly out of order *)
  ic_ooo : forall t, In t T -> S t < length s /\ nth (S t) s 0 < nth t s 0;
  (* every out-of-order adjacent pair touches a blocked index *)
  ic_cover : forall k, S k < length s -> nth (S k) s 0 < nth k s 0 ->
             nth k b false = true \/ nth (S k) b false = true
}.

Definition cb_inv (st : cb_state) : Prop :=
  inv_core (cb_seq st) (cb_blocked st) (cb_tasks st ++ cb_inflight st).

Lemma pairs_perm T T' : Permutation T T' -> Permutation (pairs T) (pairs T').
Proof.
  intros H. induction H; simpl; auto.
  - change (Permutation ([y; S y] ++ [x; S x] ++ pairs l) ([x; S x] ++ [y; S y] ++ pairs l)).
    rewrite !app_assoc. apply Permutation_app_tail. apply Permutation_app_comm.
  - eapply perm_trans; eassumption.
Qed.
Lemma inv_core_perm s b T T' : Permutation T T' -> inv_core s b T -> inv_core s b T'.
Proof.
  intros HP [H1 H2 H3 H4 H5]. pose proof (pairs_perm _ _ HP) as HPP. constructor; auto.
  - eapply Permutation_NoDup; eassumption.
  - intros k. rewrite H3. split; apply Permutation_in; [|apply Permutation_sym]; assumption.
  - intros t Ht. apply H4. eapply Permutation_in; [apply Permutation_sym|]; eassumption.
Qed.

(** the pieces of [cb_finish] *)
Definition fin_sb (s : list nat) (b0 : list bool) (i : nat) : bool :=
  (0 <? i) && (nth i s 0 <? nth (i - 1) s 0) && negb (nth (i - 1) b0 false).
Definition fin_b1 (s : list nat) (b0 : list bool) (i : nat) : list bool :=
  if fin_sb s b0 i then lset b0 (i - 1) true else lset b0 i false.
Definition fin_c2 (s : list nat) (b0 : list bool) (i : nat) : bool :=
  (i + 2 <? length s) && (nth (i + 2) s 0 <? nth (i + 1) s 0)
  && negb (nth (i + 2) (fin_b1 s b0 i) false).
Definition fin_b2 (s : list nat) (b0 : list bool) (i : nat) : list bool :=
  if fin_c2 s b0 i then lset (fin_b1 s b0 i) (i + 2) true
  else lset (fin_b1 s b0 i) (i + 1) false.
(** the swaps the finishing worker schedules *)
Definition fin_new (s : list nat) (b0 : list bool) (i : nat) : list nat :=
  (if fin_sb s b0 i then [i - 1] else []) ++ (if fin_c2 s b0 i then [i + 1] else []).

Lemma remove1_perm i l : In i l -> Permutation l (i :: remove1 i l).
Proof.
  induction l as [|y r IH]; simpl; [tauto|]. intros H.
  destruct (Nat.eqb_spec i y) as [->|Hne]; [reflexivity|].
  destruct H as [H|H]; [congruence|].
  eapply perm_trans; [apply perm_skip, IH, H|apply perm_swap].
Qed.

Lemma cb_finish_shape st i :
  let s := swap_adj i (cb_seq st) in
  let st' := cb_finish st i in
  cb_seq st' = s /\ cb_blocked st' = fin_b2 s (cb_blocked st) i
  /\ Permutation (cb_tasks st' ++ cb_inflight st')
                 (fin_new s (cb_blocked st) i ++ cb_tasks st ++ remove1 i (cb_inflight st)).
Proof.
  intros s st'. subst st'. unfold cb_finish. fold s.
  fold (fin_sb s (cb_blocked st) i). fold (fin_b1 s (cb_blocked st) i).
  fold (fin_c2 s (cb_blocked st) i). unfold fin_new, fin_b2.
  destruct (fin_c2 s (cb_blocked st) i), (fin_sb s (cb_blocked st) i); cbn [cb_seq cb_blocked cb_tasks cb_inflight app].
  - repeat split; auto.
    change (Permutation ((i + 1 :: cb_tasks st) ++ (i - 1) :: remove1 i (cb_inflight st))
                        (i - 1 :: (i + 1 :: cb_tasks st) ++ remove1 i (cb_inflight st))).
    apply Permutation_sym, Permutation_middle.
  - repeat split; auto. apply Permutation_sym, Permutation_middle.
  - repeat split; auto. apply Permutation_sym, Permutation_middle.
  - destruct (cb_tasks st) as [|t r]; cbn [cb_seq cb_blocked cb_tasks cb_inflight app].
    + repeat split; auto.
    + repeat split; auto. apply Permutation_sym, Permutation_middle.
Qed.
Lemma fin_b2_length s b0 i : length (fin_b2 s b0 i) = length b0.
Proof.
  unfold fin_b2, fin_b1. destruct (fin_c2 s b0 i), (fin_sb s b0 i); rewrite !lset_length; reflexivity.
Qed.

Lemma nth_lset_bool (l : list bool) i j x :
  i < length l -> nth j (lset l i x) false = if j =? i then x else nth j l false.
Proof.
  intros H. rewrite nth_lset. apply Nat.ltb_lt in H. rewrite H, andb_true_r. reflexivity.
Qed.

(** which indices are blocked after the critical section *)
Lemma fin_b2_nth s b0 i x :
  length b0 = length s -> S i < length s ->
  nth i b0 false = true -> nth (S i) b0 false = true ->
  nth x (fin_b2 s b0 i) false =
  (fin_sb s b0 i && ((x =? i - 1) || (x =? i)))
  || (fin_c2 s b0 i && ((x =? i + 1) || (x =? i + 2)))
  || (nth x b0 false && negb (x =? i) && negb (x =? i + 1)).
Proof.
  intros Hlen Hi Hbi Hbsi.
  assert (Hsb : fin_sb s b0 i = true -> 0 < i).
  { unfold fin_sb. rewrite !andb_true_iff, Nat.ltb_lt. tauto. }
  assert (Hc2 : fin_c2 s b0 i = true -> i + 2 < length s).
  { unfold fin_c2. rewrite !andb_true_iff, Nat.ltb_lt. tauto. }
  replace (S i) with (i + 1) in Hbsi by lia.
  unfold fin_b2, fin_b1.
  destruct (fin_sb s b0 i) eqn:Esb, (fin_c2 s b0 i) eqn:Ec2;
    try (specialize (Hsb eq_refl)); try (specialize (Hc2 eq_refl));
    rewrite !nth_lset_bool by (rewrite ?lset_length; lia);
    cbn [andb orb];
    repeat match goal with
           | |- context [Nat.eqb ?a ?b] => destruct (Nat.eqb_spec a b); try lia
           end;
    subst; cbn [andb orb negb]; rewrite ?Hbi, ?Hbsi, ?andb_true_r, ?andb_false_r, ?orb_false_r;
    try reflexivity.
Qed.
Lemma finish_core s0 b0 i T :
  inv_core s0 b0 (i :: T) ->
  let s := swap_adj i s0 in
  inv_core s (fin_b2 s b0 i) (fin_new s b0 i ++ T).
Proof.
  intros [Hlen Hdisj Hblk Hooo Hcov] s.
  destruct (Hooo i (in_eq _ _)) as [Hi Hlt].
  assert (Hslen : length s = length s0) by apply swap_adj_length.
  assert (Hs : forall k, nth k s 0 =
             if k =? i then nth (S i) s0 0 else if k =? S i then nth i s0 0 else nth k s0 0).
  { intros k. apply nth_swap_adj. assumption. }
  cbn [pairs flat_map app] in Hdisj, Hblk. fold (pairs T) in Hdisj, Hblk.
  inversion Hdisj as [|? ? Hni Hdisj1]; subst. inversion Hdisj1 as [|? ? Hnsi HdisjT]; subst.
  assert (HniT : ~ In i (pairs T)) by (intros H; apply Hni; right; assumption).
  clear Hni Hdisj1 Hdisj.
  assert (Hbi : nth i b0 false = true) by (apply Hblk; left; reflexivity).
  assert (Hbsi : nth (S i) b0 false = true) by (apply Hblk; right; left; reflexivity).
  assert (Hlen' : length b0 = length s) by lia.
  assert (Hi' : S i < length s) by lia.
  pose proof (fun x => fin_b2_nth s b0 i x Hlen' Hi' Hbi Hbsi) as Hb2.
  (* what the two tests tell *)
  assert (Hsb : fin_sb s b0 i = true ->
                0 < i /\ nth i s 0 < nth (i - 1) s 0 /\ ~ In (i - 1) (pairs T)).
  { unfold fin_sb. rewrite !andb_true_iff, !Nat.ltb_lt, negb_true_iff. intros [[H1 H2] H3].
    repeat split; auto. intros Hin.
    assert (nth (i - 1) b0 false = true) by (apply Hblk; right; right; assumption). congruence. }
  assert (Hsbf : fin_sb s b0 i = false ->
                 0 < i -> nth i s 0 < nth (i - 1) s 0 -> nth (i - 1) b0 false = true).
  { unfold fin_sb. intros H H1 H2. apply Nat.ltb_lt in H1, H2. rewrite H1, H2 in H. simpl in H.
    apply negb_false_iff in H. exact H. }
  assert (Hb1 : nth (i + 2) (fin_b1 s b0 i) false = nth (i + 2) b0 false).
  { unfold fin_b1. destruct (fin_sb s b0 i); apply nth_lset_other; lia. }
  assert (Hc2 : fin_c2 s b0 i = true ->
                i + 2 < length s /\ nth (i + 2) s 0 < nth (i + 1) s 0 /\ ~ In (i + 2) (pairs T)).
  { unfold fin_c2. rewrite Hb1, !andb_true_iff, !Nat.ltb_lt, negb_true_iff. intros [[H1 H2] H3].
    repeat split; auto. intros Hin.
    assert (nth (i + 2) b0 false = true) by (apply Hblk; right; right; assumption). congruence. }
  assert (Hc2f : fin_c2 s b0 i = false ->
                 i + 2 < length s -> nth (i + 2) s 0 < nth (i + 1) s 0 -> nth (i + 2) b0 false = true).
  { unfold fin_c2. rewrite Hb1. intros H H1 H2. apply Nat.ltb_lt in H1, H2.
    rewrite H1, H2 in H. simpl in H. apply negb_false_iff in H. exact H. }
  (* the new pending swaps and their indices *)
  assert (Hpairs : forall k, In k (pairs (fin_new s b0 i ++ T)) <->
            (fin_sb s b0 i = true /\ (k = i - 1 \/ k = i))
            \/ (fin_c2 s b0 i = true /\ (k = i + 1 \/ k = i + 2))
            \/ In k (pairs T)).
  { intros k. unfold fin_new, pairs. rewrite !flat_map_app, !in_app_iff. fold (pairs T).
    destruct (fin_sb s b0 i) eqn:E1, (fin_c2 s b0 i) eqn:E2; simpl;
      try (specialize (Hsb eq_refl)); intuition (try discriminate; try lia). }
  constructor.
  - rewrite fin_b2_length. lia.
  - unfold fin_new, pairs. rewrite !flat_map_app. fold (pairs T).
    destruct (fin_sb s b0 i) eqn:E1, (fin_c2 s b0 i) eqn:E2; simpl;
      try (destruct (Hsb eq_refl) as (S1 & S2 & S3)); try (destruct (Hc2 eq_refl) as (C1 & C2 & C3));
      try assumption.
    + replace (S (i - 1)) with i by lia. replace (S (i + 1)) with (i + 2) by lia.
      replace (i + 1) with (S i) by lia.
      repeat constructor; simpl; try assumption; intuition lia.
    + replace (S (i - 1)) with i by lia.
      repeat constructor; simpl; try assumption; intuition lia.
    + replace (S (i + 1)) with (i + 2) by lia. replace (i + 1) with (S i) by lia.
      repeat constructor; simpl; try assumption; intuition lia.
  - intros k. rewrite Hpairs, Hb2.
    rewrite !orb_true_iff, !andb_true_iff, !orb_true_iff, !negb_true_iff, !Nat.eqb_eq, !Nat.eqb_neq.
    rewrite Hblk. simpl. fold (pairs T). split.
    + intros [[H|H]|[[H1 H2] H3]]; [tauto|tauto|]. right; right.
      destruct H1 as [H1|[H1|H1]]; [lia|lia|assumption].
    + intros [H|[H|H]]; [tauto|tauto|]. right. repeat split; auto.
      * intros ->. contradiction.
      * intros ->. apply Hnsi. replace (S i) with (i + 1) by lia. assumption.
  - intros t Ht.
    assert (Hcases : (fin_sb s b0 i = true /\ t = i - 1) \/ (fin_c2 s b0 i = true /\ t = i + 1)
                     \/ In t T).
    { unfold fin_new in Ht. rewrite !in_app_iff in Ht.
      destruct (fin_sb s b0 i), (fin_c2 s b0 i); simpl in Ht; intuition. }
    destruct Hcases as [[E ->]|[[E ->]|HtT]].
    + destruct (Hsb E) as (S1 & S2 & _). replace (S (i - 1)) with i by lia. split; [lia|assumption].
    + destruct (Hc2 E) as (C1 & C2 & _). replace (S (i + 1)) with (i + 2) by lia.
      split; [lia|assumption].
    + destruct (Hooo t (in_cons _ _ _ HtT)) as [L1 L2].
      assert (Hin1 : In t (pairs T)).
      { unfold pairs. apply in_flat_map. exists t. simpl. auto. }
      assert (Hin2 : In (S t) (pairs T)).
      { unfold pairs. apply in_flat_map. exists t. simpl. auto. }
      assert (t <> i) by (intros ->; contradiction).
      assert (t <> S i) by (intros ->; contradiction).
      assert (S t <> i) by (intros E; rewrite E in Hin2; contradiction).
      assert (S t <> S i) by (intros E; rewrite E in Hin2; contradiction).
      split; [lia|]. rewrite !Hs.
      repeat match goal with
             | |- context [Nat.eqb ?a ?b] => destruct (Nat.eqb_spec a b); try lia
             end.
  - intros k Hk Hooo_k. rewrite !Hb2.
    destruct (Nat.eq_dec k i) as [->|Hki].
    { exfalso. rewrite !Hs in Hooo_k. rewrite Nat.eqb_refl in Hooo_k.
      replace (S i =? i) with false in Hooo_k by (symmetry; apply Nat.eqb_neq; lia).
      rewrite Nat.eqb_refl in Hooo_k. lia. }
    destruct (Nat.eq_dec (S k) i) as [Hski|Hski].
    { (* the pair above the swapped one *)
      assert (k = i - 1) by lia. subst k. replace (S (i - 1)) with i in * by lia.
      left. destruct (fin_sb s b0 i) eqn:E.
      - rewrite Nat.eqb_refl. reflexivity.
      - rewrite (Hsbf eq_refl ltac:(lia) Hooo_k).
        replace (i - 1 =? i) with false by (symmetry; apply Nat.eqb_neq; lia).
        replace (i - 1 =? i + 1) with false by (symmetry; apply Nat.eqb_neq; lia).
        simpl. rewrite orb_true_r. reflexivity. }
    destruct (Nat.eq_dec k (S i)) as [->|Hksi].
    { (* the pair below the swapped one *)
      right. replace (S (S i)) with (i + 2) in * by lia. replace (S i) with (i + 1) in Hooo_k by lia.
      destruct (fin_c2 s b0 i) eqn:E.
      - rewrite (Nat.eqb_refl (i + 2)). rewrite !orb_true_r. reflexivity.
      - rewrite (Hc2f eq_refl ltac:(lia) Hooo_k).
        replace (i + 2 =? i) with false by (symmetry; apply Nat.eqb_neq; lia).
        replace (i + 2 =? i + 1) with false by (symmetry; apply Nat.eqb_neq; lia).
        simpl. rewrite orb_true_r. reflexivity. }
    (* a pair not touching the swapped positions *)
    assert (Hold : nth (S k) s0 0 < nth k s0 0).
    { rewrite !Hs in Hooo_k.
      replace (k =? i) with false in Hooo_k by (symmetry; apply Nat.eqb_neq; lia).
      replace (k =? S i) with false in Hooo_k by (symmetry; apply Nat.eqb_neq; lia).
      replace (S k =? i) with false in Hooo_k by (symmetry; apply Nat.eqb_neq; lia).
      replace (S k =? S i) with false in Hooo_k by (symmetry; apply Nat.eqb_neq; lia).
      exact Hooo_k. }
    destruct (Hcov k ltac:(lia) Hold) as [H|H]; [left|right]; rewrite H.
    + replace (k =? i) with false by (symmetry; apply Nat.eqb_neq; lia).
      replace (k =? i + 1) with false by (symmetry; apply Nat.eqb_neq; lia).
      simpl. rewrite orb_true_r. reflexivity.
    + replace (S k =? i) with false by (symmetry; apply Nat.eqb_neq; lia).
      replace (S k =? i + 1) with false by (symmetry; apply Nat.eqb_neq; lia).
      simpl. rewrite orb_true_r. reflexivity.
Qed.
(** ** the initial scan *)

Lemma cb_scan_inv s fuel : forall i b tasks b' tasks',
  cb_scan fuel i s b tasks = (b', tasks') ->
  length s <= fuel + S i ->
  length b = length s ->
  NoDup (pairs tasks) ->
  (forall k, nth k b false = true <-> In k (pairs tasks)) ->
  (forall k, In k (pairs tasks) -> k < i) ->
  (forall t, In t tasks -> S t < length s /\ nth (S t) s 0 < nth t s 0) ->
  (forall k, k < i -> S k < length s -> nth (S k) s 0 < nth k s 0 ->
             nth k b false = true \/ nth (S k) b false = true) ->
  inv_core s b' tasks'.
Proof.
  induction fuel as [|fuel IH]; intros i b tasks b' tasks' Hscan Hf Hlen Hnd Hblk Hlt Hooo Hcov.
  - simpl in Hscan. injection Hscan as <- <-. constructor; auto.
    intros k Hk Hok. apply Hcov; auto; lia.
  - simpl in Hscan. destruct (Nat.ltb_spec (S i) (length s)) as [Hi|Hi].
    + destruct (Nat.ltb_spec (nth (S i) s 0) (nth i s 0)) as [Ho|Ho].
      * apply IH in Hscan; auto; try lia.
        -- rewrite !lset_length. assumption.
        -- simpl. fold (pairs tasks). constructor; [|constructor; [|assumption]].
           ++ simpl. intros [H|H]; [lia|]. apply Hlt in H. lia.
           ++ intros H. apply Hlt in H. lia.
        -- intros k. rewrite !nth_lset_bool by (rewrite ?lset_length; lia).
           simpl. fold (pairs tasks). rewrite <- Hblk.
           destruct (Nat.eqb_spec k (S i)), (Nat.eqb_spec k i); subst; intuition (try lia).
        -- simpl. fold (pairs tasks). intros k [<-|[<-|H]]; [lia|lia|]. apply Hlt in H. lia.
        -- intros t [<-|H]; auto.
        -- intros k Hk Hk' Hok. rewrite !nth_lset_bool by (rewrite ?lset_length; lia).
           destruct (Nat.eqb_spec k (S i)); [auto|]. destruct (Nat.eqb_spec k i); [auto|].
           destruct (Nat.eqb_spec (S k) (S i)); [lia|]. destruct (Nat.eqb_spec (S k) i); [auto|].
           apply Hcov; auto; lia.
      * apply IH in Hscan; auto; try lia.
        -- intros k Hk. apply Hlt in Hk. lia.
        -- intros k Hk Hk' Hok. destruct (Nat.eq_dec k i) as [->|]; [lia|]. apply Hcov; auto; lia.
    + injection Hscan as <- <-. constructor; auto. intros k Hk Hok. apply Hcov; auto; lia.
Qed.

Theorem cb_init_inv s : cb_inv (cb_init s) /\ cb_seq (cb_init s) = s /\ cb_inflight (cb_init s) = [].
Proof.
  unfold cb_init. destruct (cb_scan (length s) 0 s (repeat false (length s)) []) as [b t] eqn:E.
  unfold cb_inv. cbn [cb_seq cb_blocked cb_tasks cb_inflight]. rewrite app_nil_r.
  split; [|split; reflexivity]. apply (cb_scan_inv s) in E; auto; try lia.
  all: try (simpl; tauto).
  - apply repeat_length.
  - constructor.
  - intros k. simpl. rewrite nth_repeat. split; [discriminate|tauto].
Qed.

(** ** the worker actions preserve the invariant *)

Theorem cb_take_inv st st' : cb_inv st -> cb_take st = Some st' -> cb_inv st'.
Proof.
  unfold cb_inv, cb_take. intros H E. destruct (cb_tasks st) as [|i r] eqn:Et; [discriminate|].
  injection E as <-. cbn [cb_seq cb_blocked cb_tasks cb_inflight].
  eapply inv_core_perm; [|exact H]. simpl. apply Permutation_middle.
Qed.

Theorem cb_finish_inv st i : cb_inv st -> In i (cb_inflight st) -> cb_inv (cb_finish st i).
Proof.
  unfold cb_inv. intros H Hin.
  destruct (cb_finish_shape st i) as (E1 & E2 & E3). rewrite E1, E2.
  eapply inv_core_perm; [apply Permutation_sym, E3|].
  apply finish_core. eapply inv_core_perm; [|exact H].
  eapply perm_trans; [apply Permutation_app_head, (remove1_perm i), Hin|].
  apply Permutation_sym, Permutation_middle.
Qed.

(** states reachable from the initial scan by any interleaving of worker actions *)
Inductive cb_reach (s0 : list nat) : cb_state -> Prop :=
| cbr_init : cb_reach s0 (cb_init s0)
| cbr_take st st' : cb_reach s0 st -> cb_take st = Some st' -> cb_reach s0 st'
| cbr_finish st i : cb_reach s0 st -> In i (cb_inflight st) -> cb_reach s0 (cb_finish st i).

Lemma cb_reach_inv s0 st : cb_reach s0 st -> cb_inv st /\ Permutation (cb_seq st) s0.
Proof.
  induction 1 as [|st st' _ [IH1 IH2] E|st i _ [IH1 IH2] Hin].
  - destruct (cb_init_inv s0) as (H1 & H2 & _). rewrite H2. split; [assumption|reflexivity].
  - split; [eapply cb_take_inv; eassumption|].
    unfold cb_take in E. destruct (cb_tasks st); [discriminate|]. injection E as <-. assumption.
  - split; [apply cb_finish_inv; assumption|].
    destruct (cb_finish_shape st i) as (E1 & _). rewrite E1.
    eapply perm_trans; [apply swap_adj_perm|assumption].
Qed.

Lemma NoDup_app_r {A} (a b : list A) : NoDup (a ++ b) -> NoDup b.
Proof. induction a as [|x a IH]; simpl; [auto|]. intros H. inversion H; auto. Qed.

(** two swaps in flight never share an index, and their indices are blocked *)
Theorem no_overlap s0 st :
  cb_reach s0 st ->
  NoDup (pairs (cb_inflight st))
  /\ forall i, In i (cb_inflight st) ->
       nth i (cb_blocked st) false = true /\ nth (S i) (cb_blocked st) false = true.
Proof.
  intros H. apply cb_reach_inv in H. destruct H as [[_ Hd Hb _ _] _].
  unfold pairs in *. rewrite flat_map_app in Hd. split.
  - eapply NoDup_app_r. exact Hd.
  - intros i Hi. split; apply Hb; apply in_flat_map; exists i;
      (split; [apply in_or_app; right; assumption|simpl; auto]).
Qed.

(** pairwise form of [no_overlap] *)
Corollary no_overlap_pairwise s0 st a b i j :
  cb_reach s0 st -> a <> b ->
  nth_error (cb_inflight st) a = Some i -> nth_error (cb_inflight st) b = Some j ->
  i <> j /\ i <> S j /\ S i <> j.
Proof.
  intros H Hab Ha Hb. apply no_overlap in H. destruct H as [Hnd _].
  assert (Hgen : forall l a b i j, NoDup (pairs l) -> a < b ->
            nth_error l a = Some i -> nth_error l b = Some j -> i <> j /\ i <> S j /\ S i <> j).
  { clear. induction l as [|x l IH]; intros a b i j Hnd Hab Ha Hb; [destruct a; discriminate|].
    simpl in Hnd. inversion Hnd as [|? ? N1 Hnd1]; subst. inversion Hnd1 as [|? ? N2 Hnd2]; subst.
    destruct b as [|b]; [lia|]. simpl in Hb. destruct a as [|a].
    - injection Ha as ->. apply nth_error_In in Hb.
      assert (In j (pairs l) /\ In (S j) (pairs l)) as [J1 J2].
      { split; apply in_flat_map; exists j; simpl; auto. }
      repeat split; intros E; subst; simpl in N1; tauto.
    - simpl in Ha. apply (IH a b); auto; lia. }
  destruct (Nat.lt_ge_cases a b).
  - eapply Hgen; eauto.
  - destruct (Hgen _ b a j i Hnd ltac:(lia) Hb Ha) as (H1 & H2 & H3). auto.
Qed.

(** every swap a worker performs exchanges an adjacent pair that is strictly
    out of order *)
Theorem cb_swap_valid s0 st i :
  cb_reach s0 st -> In i (cb_inflight st) ->
  S i < length (cb_seq st) /\ nth (S i) (cb_seq st) 0 < nth i (cb_seq st) 0.
Proof.
  intros H Hi. apply cb_reach_inv in H. destruct H as [[_ _ _ Ho _] _].
  apply Ho. apply in_or_app. right. assumption.
Qed.

Lemma adjacent_sorted l :
  (forall k, S k < length l -> nth k l 0 <= nth (S k) l 0) -> sorted l.
Proof.
  intros H a b [Hab Hb]. induction b as [|b IH]; [lia|].
  destruct (Nat.eq_dec a b) as [->|]; [apply H; assumption|].
  etransitivity; [apply IH; lia|apply H; assumption].
Qed.

(** partial correctness: when the task list is empty and nothing is in flight
    (the condition under which the workers return) the sequence is sorted *)
Theorem cb_done_sorted s0 st :
  cb_reach s0 st -> cb_tasks st = [] -> cb_inflight st = [] ->
  sorted (cb_seq st) /\ Permutation (cb_seq st) s0.
Proof.
  intros H Et Ei. apply cb_reach_inv in H. destruct H as [[_ _ Hb _ Hc] HP].
  split; [|assumption]. rewrite Et, Ei in Hb. simpl in Hb.
  apply adjacent_sorted. intros k Hk.
  destruct (Nat.le_gt_cases (nth k (cb_seq st) 0) (nth (S k) (cb_seq st) 0)) as [|Hlt]; [assumption|].
  destruct (Hc k Hk Hlt) as [E|E]; apply Hb in E; contradiction.
Qed.

(** the executable schedule runner only produces reachable states *)
Lemma cb_run_reach s0 sched : forall st st',
  cb_reach s0 st -> cb_run sched st = Some st' -> cb_reach s0 st'.
Proof.
  induction sched as [|[i|] r IH]; intros st st' H E; simpl in E.
  - injection E as <-. assumption.
  - destruct (existsb (Nat.eqb i) (cb_inflight st)) eqn:Ex; [|discriminate].
    apply IH in E; [assumption|]. apply cbr_finish; [assumption|].
    apply existsb_exists in Ex. destruct Ex as (x & Hx & Hix). apply Nat.eqb_eq in Hix.
    subst. assumption.
  - destruct (cb_take st) as [st1|] eqn:Et; [|discriminate].
    apply IH in E; [assumption|]. eapply cbr_take; eassumption.
Qed.

Example cb_run_seq_ex :
  fst (cb_run_seq 100 (cb_init [5;4;3;2;1;0]) []) = mkCb [0;1;2;3;4;5] (repeat false 6) [] [].
Proof. vm_compute. reflexivity. Qed.
