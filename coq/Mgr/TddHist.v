(** Mgr/TddHist.v — package TDDx: the TDD manager as a state machine over ALL client calls
    the generic checks (C01, C03, C05, C06, C20) issue on a TDD manager
    (harness kind [tdd] of harness/src/bin/h_dd.rs; generator lib/ddgen.py [tdd_case_history]).

    Executable definitions only (proofs: Mgr/TddHistProofs.v).

    State: the node table with the client's handles by slot number ([s_handles]) and the
    apply cache (abstract: any type with [cget] / [cadd]).  Configuration parameters
    (section variables, universally quantified in every theorem): operand order [gt] of
    [terminal_bin], the cache [C, cget, cadd] and its cleared state [cempty].

    | constructor            | Rust                                         | model reused |
    | [TConst d v]           | [TDDFunction::f/u/t]                         | [td_const] (DD/ApplyTdd.v) |
    | [TVar d v]             | [TDDFunction::var]                           | [td_var] |
    | [TNot], [TBin op], [TIte] | [apply_not], [apply_bin::<OP>], [apply_ite_rec] (oxidd-rules-tdd/src/apply_rec.rs) | [td_apply_not/bin/ite], fuel [S (nlevels s)] |
    | [TCof dt du de a]      | [TVLFunction::cofactors]                     | [td_cofactors]; a terminal operand assigns nothing |
    | [TClone], [TDrop]      | [Function::clone] / [drop]                   | [put] / [hdel] (DD/ConfigApply.v) |
    | [TGc]                  | [Manager::gc]; [pre_gc] clears the apply cache | [gc_model] (Mgr/History.v): marking from the handles, the rest removed; cache := [cempty] |
    | [TAddVars k]           | [Manager::add_vars]                          | [add_vars_model] (levels appended, cache kept) |

    Not modelled here: reference counters (the audits of DD/TddAudit.v apply per snapshot),
    reordering (C08: Mgr/LevelSwapT.v has the swap and set_var_order model for the TDD kind,
    it is not a constructor of this machine), out of memory (C14). *)
From Coq Require Import List NArith PArith Bool Arith FMapPositive.
From OxiVerif Require Import DD.Table DD.Build DD.Apply DD.ConfigApply DD.Tdd DD.ApplyTdd Mgr.History.
Import ListNotations.

Section TH.
Variable gt : ref -> ref -> bool.
Variable C : Type.
Variable cget : C -> N -> list ref -> option ref.
Variable cadd : C -> N -> list ref -> ref -> C.
Variable cempty : C.

Record tstate := mkT { t_s : snap; t_c : C }.

Inductive top :=
| TConst (d : N) (v : tri)
| TVar (d : N) (v : nat)
| TNot (d a : N)
| TBin (o : binop) (d a b : N)
| TIte (d a b c : N)
| TCof (dt du de a : N)
| TClone (d a : N)
| TDrop (a : N)
| TGc
| TAddVars (k : nat).

(** the reference a slot holds *)
Definition tslot (s : snap) (x : N) : option ref :=
  match hget (s_handles s) x with Some e => Some (eref e) | None => None end.

Definition tfuel (s : snap) : nat := S (nlevels s).

(** one client call; [None] = an empty operand slot / unknown variable (the harness never
    does that), or one of the algorithm's [unwrap]s would panic *)
Definition tstep (st : tstate) (o : top) : option tstate :=
  let s := t_s st in
  let c := t_c st in
  match o with
  | TConst d v =>
    match td_const s v with
    | Some r => Some (mkT (put s d r) c)
    | None => None
    end
  | TVar d v =>
    if Nat.ltb v (nlevels s) then
      match td_var s v with
      | Some (s', r) => Some (mkT (put s' d r) c)
      | None => None
      end
    else None
  | TNot d a =>
    match tslot s a with
    | Some f =>
      match td_apply_not C cget cadd (tfuel s) s c f with
      | Some (s', c', r) => Some (mkT (put s' d r) c')
      | None => None
      end
    | None => None
    end
  | TBin op d a b =>
    match tslot s a, tslot s b with
    | Some f, Some g =>
      match td_apply_bin gt C cget cadd (tfuel s) s c op f g with
      | Some (s', c', r) => Some (mkT (put s' d r) c')
      | None => None
      end
    | _, _ => None
    end
  | TIte d a b cc =>
    match tslot s a, tslot s b, tslot s cc with
    | Some f, Some g, Some h =>
      match td_apply_ite gt C cget cadd (tfuel s) s c f g h with
      | Some (s', c', r) => Some (mkT (put s' d r) c')
      | None => None
      end
    | _, _, _ => None
    end
  | TCof dt du de a =>
    match tslot s a with
    | Some f =>
      match td_cofactors s f with
      | Some (t, u, e) => Some (mkT (put (put (put s dt t) du u) de e) c)
      | None => Some st
      end
    | None => None
    end
  | TClone d a =>
    match tslot s a with
    | Some f => Some (mkT (put s d f) c)
    | None => None
    end
  | TDrop a => Some (mkT (set_handles s (hdel (s_handles s) a)) c)
  | TGc => Some (mkT (gc_model s) cempty)
  | TAddVars k => Some (mkT (add_vars_model s k) c)
  end.

Fixpoint trun (st : tstate) (ops : list top) : option tstate :=
  match ops with
  | [] => Some st
  | o :: r => match tstep st o with Some st' => trun st' r | None => None end
  end.

(** a fresh TDD manager with [n] variables: no node, the terminals False (id 0),
    Unknown (id 1), True (id 2), identity order, no handle, cleared cache *)
Definition tdd_empty (n : nat) : snap :=
  mkSnap KTdd (PositiveMap.empty node) [(0, 0); (1, 1); (2, 2)]%N (seq 0 n) (seq 0 n) [].

Definition tinit (n : nat) : tstate := mkT (tdd_empty n) cempty.

(** well-formed requests: operand slots occupied, variables in range *)
Definition occupied (s : snap) (x : N) : bool :=
  match hget (s_handles s) x with Some _ => true | None => false end.

Definition top_pre_b (st : tstate) (o : top) : bool :=
  let s := t_s st in
  match o with
  | TConst _ _ => true
  | TVar _ v => Nat.ltb v (nlevels s)
  | TNot _ a => occupied s a
  | TBin _ _ a b => occupied s a && occupied s b
  | TIte _ a b c => occupied s a && occupied s b && occupied s c
  | TCof _ _ _ a => occupied s a
  | TClone _ a => occupied s a
  | TDrop _ => true
  | TGc => true
  | TAddVars _ => true
  end.

(** the checker along a run *)
Fixpoint tops_pre_b (st : tstate) (ops : list top) : bool :=
  match ops with
  | [] => true
  | o :: r => top_pre_b st o && match tstep st o with Some st' => tops_pre_b st' r | None => false end
  end.

End TH.

(** * The instance the driver replays (ocaml/tddh.ml): unbounded association-list cache that
    starts empty, operands never swapped; the state is seeded with the lifted snapshot of the
    real manager taken before the call.  One function per call, under names of their own (the
    flat extraction of Extract/ExDD.v renames clashing identifiers). *)
Definition tddh_step (s : snap) (o : top) : option snap :=
  match tstep (fun _ _ => false) acache ac_get ac_add [] (mkT acache s []) o with
  | Some st => Some (t_s acache st)
  | None => None
  end.

Definition tddh_const (s : snap) (d : N) (v : tri) := tddh_step s (TConst d v).
Definition tddh_var (s : snap) (d : N) (v : nat) := tddh_step s (TVar d v).
Definition tddh_not (s : snap) (d a : N) := tddh_step s (TNot d a).
Definition tddh_bin (s : snap) (o : binop) (d a b : N) := tddh_step s (TBin o d a b).
Definition tddh_ite (s : snap) (d a b c : N) := tddh_step s (TIte d a b c).
Definition tddh_cof (s : snap) (dt du de a : N) := tddh_step s (TCof dt du de a).
Definition tddh_clone (s : snap) (d a : N) := tddh_step s (TClone d a).
Definition tddh_drop (s : snap) (a : N) := tddh_step s (TDrop a).
Definition tddh_gc (s : snap) := tddh_step s TGc.
Definition tddh_addvars (s : snap) (k : nat) := tddh_step s (TAddVars k).
