(** Mgr/TddHistExamples.v — package TDDx: the hypotheses of the TDD history theorems are
    satisfiable and the audits of DD/TddAudit.v accept / reject what they should.

    - [ex_t3]: a hand-written snapshot (2 variables, 3 nodes, 3 handles, exact counts):
      [td_audit_b], [no_dead_b] hold; its value tables; a wrong count, a node with three equal
      children and a missing terminal are rejected;
    - [ex_ops]: a 16-call history with every constructor of Mgr/TddHist.v, run under two
      configurations (A: unbounded association-list cache, operands swapped by node id;
      B: no cache, never swapped): every request is well-formed ([tops_pre_b]), the final
      tables are accepted by [td_wf3_b], the two runs are related by [tsim] (instance of
      [thist_config_independent]) and agree on every value table although the node ids differ. *)
From Coq Require Import List NArith PArith Bool Arith Lia FMapPositive.
From OxiVerif Require Import DD.Table DD.TableExtra DD.TableProofs DD.Build DD.Apply DD.ApplyProofs DD.ConfigApply
  DD.Tdd DD.ApplyTdd DD.ApplyTddBase DD.ApplyTddProofs DD.ApplyTddTop DD.TddAudit DD.TddAuditProofs
  Mgr.History Mgr.TddHist Mgr.TddHistProofs Mgr.TddHistSim.
Import ListNotations.

(** * A snapshot with reference counts *)

(** x1 = (T, U, F) at level 1 (node 1); g = (x1, U, x1) at level 0 (node 2); h = (F, x1, T) at
    level 0 (node 3); handles: slot 0 -> g, slot 1 -> x1, slot 5 -> g.
    counts: node 1: 1 handle + 2 (from g) + 1 (from h) = 4; node 2: 2 handles; node 3: 0 (dead) *)
Definition ex_t3_nodes (rc3 : N) : PositiveMap.t node :=
  PositiveMap.add 3%positive (mkNode 0 [E (RT 0); E (RN 1); E (RT 2)] 0 rc3)
    (PositiveMap.add 2%positive (mkNode 0 [E (RN 1); E (RT 1); E (RN 1)] 0 2)
       (PositiveMap.add 1%positive (mkNode 1 [E (RT 2); E (RT 1); E (RT 0)] 1 4) (PositiveMap.empty node))).

Definition ex_t3 : snap :=
  mkSnap KTdd (ex_t3_nodes 0) [(0, 0); (1, 1); (2, 2)]%N [0; 1] [0; 1]
         [(0%N, E (RN 2)); (1%N, E (RN 1)); (5%N, E (RN 2))].

Example ex_t3_audit : td_audit_b ex_t3 = true /\ td_ok_b ex_t3 = true /\ rc_exact_b ex_t3 [] = true.
Proof. vm_compute. auto. Qed.

(** node 3 is unreferenced: the state is not one right after a collection *)
Example ex_t3_dead : no_dead_b ex_t3 = false.
Proof. vm_compute. reflexivity. Qed.

Definition ex_t3_collected : snap := gc_model ex_t3.

(** ([gc_model] restricts the node map; it does not maintain the counters: node 1 keeps the
    count 4 although its parent 3 is gone, which [td_rc_b] notices) *)
Example ex_t3_collected_ok :
  td_wf3_b ex_t3_collected = true /\ td_rc_b ex_t3_collected = false /\ no_dead_b ex_t3_collected = true /\
  find_node ex_t3_collected 3 = None /\ s_handles ex_t3_collected = s_handles ex_t3.
Proof. vm_compute. auto. Qed.

(** a wrong count / three equal children / a missing terminal / an unordered child are rejected *)
Example ex_t3_rejects :
  td_rc_b (mkSnap KTdd (ex_t3_nodes 1) (s_terms ex_t3) [0; 1] [0; 1] (s_handles ex_t3)) = false /\
  td_wf3_b (mkSnap KTdd (PositiveMap.add 4%positive (mkNode 0 [E (RN 1); E (RN 1); E (RN 1)] 0 0) (ex_t3_nodes 0))
                   (s_terms ex_t3) [0; 1] [0; 1] (s_handles ex_t3)) = false /\
  td_wf3_b (mkSnap KTdd (ex_t3_nodes 0) [(0, 0); (2, 2)]%N [0; 1] [0; 1] (s_handles ex_t3)) = false /\
  td_wf3_b (mkSnap KTdd (PositiveMap.add 4%positive (mkNode 1 [E (RN 2); E (RT 1); E (RT 1)] 1 0) (ex_t3_nodes 0))
                   (s_terms ex_t3) [0; 1] [0; 1] (s_handles ex_t3)) = false.
Proof. vm_compute. auto. Qed.

(** value tables (index = digit 0 for variable 0, digit 1 for variable 1; 0 true, 1 unknown, 2 false):
    slots 0 and 5 hold the same edge and the same table, slot 1 another one *)
Example ex_t3_vtables :
  td_vtable ex_t3 (RN 2) = [Some TT; Some TU; Some TT; Some TU; Some TU; Some TU; Some TF; Some TU; Some TF] /\
  td_vtable ex_t3 (RN 1) = [Some TT; Some TT; Some TT; Some TU; Some TU; Some TU; Some TF; Some TF; Some TF].
Proof. vm_compute. auto. Qed.

(** * A history under two configurations *)

Definition gtA (a b : ref) : bool :=
  match a, b with
  | RN x, RN y => Pos.ltb y x
  | RN _, RT _ => true
  | RT x, RT y => N.ltb y x
  | RT _, RN _ => false
  end.
Definition gtB (_ _ : ref) : bool := false.

Definition ex_ops : list top :=
  [TVar 0 0; TVar 1 1; TConst 2 TU; TBin And 3 0 1; TIte 4 0 1 2; TNot 5 4; TBin Nand 6 1 0;
   TNot 7 3; TClone 8 6; TCof 9 10 11 4; TDrop 3; TGc; TAddVars 1; TVar 12 2; TBin Imp 13 12 5; TBin ImpStrict 14 5 12;
   TCof 15 16 17 2].

Definition ex_runA := trun gtA acache ac_get ac_add [] (tinit acache [] 2) ex_ops.
Definition ex_runB := trun gtB unit nc_get nc_add tt (tinit unit tt 2) ex_ops.

Example ex_ops_pre : tops_pre_b gtA acache ac_get ac_add [] (tinit acache [] 2) ex_ops = true.
Proof. vm_compute. reflexivity. Qed.

Definition ex_stA : tstate acache := match ex_runA with Some st => st | None => tinit acache [] 2 end.
Definition ex_stB : tstate unit := match ex_runB with Some st => st | None => tinit unit tt 2 end.

Example ex_runs_defined : ex_runA = Some ex_stA /\ ex_runB = Some ex_stB.
Proof. vm_compute. auto. Qed.

(** the checkers accept both final tables; they hold 3 variables and several nodes *)
Example ex_final_ok :
  td_wf3_b (t_s _ ex_stA) = true /\ td_wf3_b (t_s _ ex_stB) = true /\
  nlevels (t_s _ ex_stA) = 3 /\ 4 <= length (PositiveMap.elements (s_nodes (t_s _ ex_stA))).
Proof. vm_compute. repeat split; auto. lia. Qed.

(** instance of [thist_config_independent] *)
Example ex_sim : tsim acache unit ac_get nc_get ex_stA ex_stB.
Proof.
  destruct (thist_config_independent gtA gtB acache unit ac_get ac_add nc_get nc_add [] tt ac_lossy nc_lossy
              (fun _ _ => eq_refl) (fun _ _ => eq_refl) 2 ex_ops ex_ops_pre) as [a [b [X1 [X2 S]]]].
  assert (Ea : ex_stA = a).
  { unfold ex_stA, ex_runA.
    exact (f_equal (fun o => match o with Some st => st | None => tinit acache [] 2 end) X1). }
  assert (Eb : ex_stB = b).
  { unfold ex_stB, ex_runB.
    exact (f_equal (fun o => match o with Some st => st | None => tinit unit tt 2 end) X2). }
  rewrite Ea, Eb. exact S.
Qed.

(** the clone (slot 8) holds the edge of its source (slot 6); NAND (slot 6) and NOT AND (slot 7)
    are the same edge; slots 13 and 14 hold different functions; the cofactors of a terminal
    (slot 2) assigned nothing *)
Example ex_canon :
  hget (s_handles (t_s _ ex_stA)) 8 = hget (s_handles (t_s _ ex_stA)) 6 /\
  hget (s_handles (t_s _ ex_stA)) 7 = hget (s_handles (t_s _ ex_stA)) 6 /\
  hget (s_handles (t_s _ ex_stA)) 13 <> hget (s_handles (t_s _ ex_stA)) 14 /\
  hget (s_handles (t_s _ ex_stA)) 15 = None /\ hget (s_handles (t_s _ ex_stA)) 3 = None.
Proof. vm_compute. repeat split; auto. discriminate. Qed.

(** * Bundles for the property files *)

Example ex_t3_two_functions : td_ok_b ex_t3 = true /\ td_vtable ex_t3 (RN 2) <> td_vtable ex_t3 (RN 1).
Proof. split; [vm_compute; reflexivity | vm_compute; discriminate]. Qed.

Example ex_c01 :
  (td_ok_b ex_t3 = true /\ td_vtable ex_t3 (RN 2) <> td_vtable ex_t3 (RN 1)) /\
  hget (s_handles (t_s _ ex_stA)) 8 = hget (s_handles (t_s _ ex_stA)) 6 /\
  hget (s_handles (t_s _ ex_stA)) 7 = hget (s_handles (t_s _ ex_stA)) 6 /\
  hget (s_handles (t_s _ ex_stA)) 13 <> hget (s_handles (t_s _ ex_stA)) 14.
Proof.
  exact (conj ex_t3_two_functions (conj (proj1 ex_canon) (conj (proj1 (proj2 ex_canon)) (proj1 (proj2 (proj2 ex_canon)))))).
Qed.

(** the hypotheses of the step theorem hold in the state after the history *)
Example ex_inv : TInv acache ac_get ex_stA /\ TInv unit nc_get ex_stB.
Proof. exact (conj (proj1 ex_sim) (proj1 (proj2 ex_sim))). Qed.

(** every constructor occurs in the history *)
Example ex_ops_cover :
  existsb (fun o => match o with TConst _ _ => true | _ => false end) ex_ops
  && existsb (fun o => match o with TVar _ _ => true | _ => false end) ex_ops
  && existsb (fun o => match o with TNot _ _ => true | _ => false end) ex_ops
  && existsb (fun o => match o with TBin _ _ _ _ => true | _ => false end) ex_ops
  && existsb (fun o => match o with TIte _ _ _ _ => true | _ => false end) ex_ops
  && existsb (fun o => match o with TCof _ _ _ _ => true | _ => false end) ex_ops
  && existsb (fun o => match o with TClone _ _ => true | _ => false end) ex_ops
  && existsb (fun o => match o with TDrop _ => true | _ => false end) ex_ops
  && existsb (fun o => match o with TGc => true | _ => false end) ex_ops
  && existsb (fun o => match o with TAddVars _ => true | _ => false end) ex_ops = true.
Proof. vm_compute. reflexivity. Qed.
