(** Mgr/TddHistProofs.v — package TDDx: the invariant of the TDD manager state machine
    (Mgr/TddHist.v) and what every client call establishes.

    [TInv st] = [TdOK (t_s st)] (C03 for ternary nodes incl. "every handle refers to a stored
    node or terminal") /\ [TCacheOK] (every cache entry is a correct result).
    - [tdok_widen], [dent_widen], [tfun_of_widen], [tcacheok_widen]: transport when levels are
      appended / the handle list is replaced;
    - [td_collected_ok]: a collection ([collected], Mgr/OomGc.v) of a TdOK table;
    - [tstep_ok]: for every state with [TInv], every lossy cache, every [gt], every well-formed
      request: [tstep] is not [None], [TInv] again, [tframe] (every other slot keeps its edge;
      every edge held before is still valid and denotes the same function of the variables)
      and [tpost] (what the destination holds);
    - [trun_ok], [treach_inv], [thist_canonical], [thist_ok_b], [thist_gc_reachable].
    No axioms. *)
From Coq Require Import List NArith PArith Bool Arith Lia FMapPositive.
From OxiVerif Require Import DD.Table DD.TableExtra DD.TableProofs DD.Build DD.BuildProofs DD.Apply DD.ApplyProofs
  DD.ConfigApply DD.Tdd DD.ApplyTdd DD.ApplyTddBase DD.ApplyTddProofs DD.ApplyTddIte DD.ApplyTddTop
  DD.TddAudit DD.TddAuditProofs Mgr.History Mgr.HistoryBase Mgr.OomGc Mgr.HistoryGc Mgr.TddHist.
Import ListNotations.

(** * Transport: appending levels / replacing the handle list *)

Lemma term_val_widen : forall s k hs t, term_val (widen s k hs) t = term_val s t.
Proof. reflexivity. Qed.

Lemma tdok_widen : forall s k hs, TdOK s ->
  (forall h, In h hs -> ref_ok s (eref (snd h)) /\ etag (snd h) = false) ->
  TdOK (widen s k hs).
Proof.
  intros s k hs B Hh. constructor.
  - apply wf_widen; [apply (to_wf s B)|]. intros h Hin. destruct (Hh h Hin). split; auto.
  - exact (to_kind s B).
  - exact (to_codes s B).
  - exact (to_terms s B).
Qed.

Lemma dent_widen : forall s k hs r phi, TdOK s -> DenT s r phi -> DenT (widen s k hs) r phi.
Proof.
  intros s k hs r phi B [Hr D]. pose proof (to_wf s B) as H. split; [apply ref_ok_widen; exact Hr|].
  intros a. rewrite semk_widen, widen_nlevels, <- (D a).
  pose proof (rlevel_le s H r). apply (semk_fuel s H); [exact Hr | lia | lia].
Qed.

Lemma dent_widen_inv : forall s k hs r phi, TdOK s -> DenT (widen s k hs) r phi -> DenT s r phi.
Proof.
  intros s k hs r phi B [Hr D]. pose proof (to_wf s B) as H. apply ref_ok_widen in Hr. split; [exact Hr|].
  intros a. rewrite <- (D a), semk_widen, widen_nlevels.
  pose proof (rlevel_le s H r). apply (semk_fuel s H); [exact Hr | lia | lia].
Qed.

Lemma lvl_asg_widen : forall s k hs av l, l < nlevels s -> lvl_asg (widen s k hs) av l = lvl_asg s av l.
Proof.
  intros s k hs av l Hl. unfold lvl_asg. simpl. rewrite nth_error_app1 by exact Hl. reflexivity.
Qed.

(** the function of the VARIABLES is unchanged *)
Lemma tfun_of_widen : forall s k hs r av, TdOK s -> ref_ok s r ->
  tfun_of (widen s k hs) r av = tfun_of s r av.
Proof.
  intros s k hs r av B Hr. pose proof (to_wf s B) as H. destruct (dent_exists s r B Hr) as [phi D].
  rewrite (tfun_of_den s r phi D), (tfun_of_den _ r phi (dent_widen s k hs r phi B D)).
  apply tcode_inj. assert (X : Some (tcode (phi (lvl_asg (widen s k hs) av))) = Some (tcode (phi (lvl_asg s av)))).
  { rewrite <- !(proj2 D). apply (semk_ext_below s H). intros l Hl. unfold chc.
    rewrite (lvl_asg_widen s k hs av l Hl). reflexivity. }
  congruence.
Qed.

Lemma tentry_ok_widen : forall s k hs code args r, TdOK s ->
  tentry_ok s code args r -> tentry_ok (widen s k hs) code args r.
Proof.
  intros s k hs code args r B. unfold tentry_ok.
  destruct args as [|f [|g [|h [|x rest]]]]; auto.
  - intros Hx Hc. destruct (Hx Hc) as [phi [A D]]. exists phi. split; apply dent_widen; auto.
  - intros Hx o Hc. destruct (Hx o Hc) as [phi [psi [A [A' D]]]]. exists phi, psi.
    split; [|split]; apply dent_widen; auto.
  - intros Hx Hc. destruct (Hx Hc) as [phi [psi [theta [A [A' [A'' D]]]]]]. exists phi, psi, theta.
    split; [|split; [|split]]; apply dent_widen; auto.
Qed.

Lemma tcacheok_widen : forall C (cget : C -> N -> list ref -> option ref) s k hs c, TdOK s ->
  TCacheOK cget s c -> TCacheOK cget (widen s k hs) c.
Proof. intros C cget s k hs c B O code args r E. apply tentry_ok_widen; [exact B | apply (O code args r E)]. Qed.

(** the handle list after [put] *)
Lemma hset_handles_ok : forall s d r, TdOK s -> ref_ok s r ->
  forall h, In h (hset (s_handles s) d (E r)) -> ref_ok s (eref (snd h)) /\ etag (snd h) = false.
Proof.
  intros s d r B Hr h Hin. unfold hset in Hin. destruct Hin as [<-|Hin]; [split; [exact Hr | reflexivity]|].
  unfold hdel in Hin. apply filter_In in Hin. destruct Hin as [Hin _].
  destruct (wf_handles s (to_wf s B) h Hin) as [A T]. split; [exact A|]. apply T.
  rewrite (to_kind s B). discriminate.
Qed.

Lemma hdel_handles_ok : forall s a, TdOK s ->
  forall h, In h (hdel (s_handles s) a) -> ref_ok s (eref (snd h)) /\ etag (snd h) = false.
Proof.
  intros s a B h Hin. unfold hdel in Hin. apply filter_In in Hin. destruct Hin as [Hin _].
  destruct (wf_handles s (to_wf s B) h Hin) as [A T]. split; [exact A|]. apply T.
  rewrite (to_kind s B). discriminate.
Qed.

Lemma put_widen : forall s d r, put s d r = widen s 0 (hset (s_handles s) d (E r)).
Proof. intros. unfold put. apply widen_set_handles. Qed.

Lemma tdok_put : forall s d r, TdOK s -> ref_ok s r -> TdOK (put s d r).
Proof. intros s d r B Hr. rewrite put_widen. apply tdok_widen; [exact B | apply hset_handles_ok; assumption]. Qed.

Lemma hget_In : forall hs x e, hget hs x = Some e -> In (x, e) hs.
Proof.
  induction hs as [|[a e0] r IH]; intros x e; simpl; [discriminate|].
  destruct (N.eqb_spec a x) as [->|Hn]; [intros [= ->]; left; reflexivity | intros E; right; apply IH; exact E].
Qed.

Lemma tslot_ok : forall s x r, TdOK s -> tslot s x = Some r -> ref_ok s r.
Proof.
  intros s x r B. unfold tslot. destruct (hget (s_handles s) x) as [e|] eqn:Eh; [|discriminate].
  intros [= <-]. apply (wf_handles s (to_wf s B) (x, e)). apply hget_In. exact Eh.
Qed.

(** * A collection of a TdOK table *)

Section Collected.
Variables s sg : snap.
Hypothesis B : TdOK s.
Hypothesis Cg : collected s sg.

Let H : WF s := to_wf s B.

Lemma tco_old : forall id nd, find_node sg id = Some nd -> find_node s id = Some nd.
Proof. intros id nd Ef. apply (proj1 (co_nodes s sg Cg id nd) Ef). Qed.

Lemma tco_nlevels : nlevels sg = nlevels s.
Proof. unfold nlevels. rewrite (co_l2v s sg Cg). reflexivity. Qed.

Lemma tco_term_val : forall t, term_val sg t = term_val s t.
Proof. intros t. unfold term_val. rewrite (co_terms s sg Cg). reflexivity. Qed.

Lemma tco_keeps : forall r, ref_ok s r -> reachable s (handle_refs s) r -> ref_ok sg r.
Proof.
  intros [t|id] Hok R; simpl in *.
  - rewrite tco_term_val. exact Hok.
  - destruct Hok as [nd Ef]. exists nd. apply (co_nodes s sg Cg). auto.
Qed.

Lemma tco_rlevel : forall r, ref_ok sg r -> rlevel sg r = rlevel s r.
Proof.
  intros [t|id] Hok; simpl.
  - apply tco_nlevels.
  - destruct Hok as [nd Ef]. rewrite Ef, (tco_old id nd Ef). reflexivity.
Qed.

Lemma tco_wf : WF sg.
Proof.
  pose proof (to_kind s B) as Hk.
  constructor.
  - rewrite (co_v2l s sg Cg), (co_l2v s sg Cg). apply (wf_perm_len s H).
  - rewrite (co_v2l s sg Cg), (co_l2v s sg Cg). apply (wf_perm_v2l s H).
  - rewrite (co_v2l s sg Cg), (co_l2v s sg Cg). apply (wf_perm_l2v s H).
  - intros id nd Ef. rewrite (co_kind s sg Cg). apply (wf_arity s H id nd (tco_old id nd Ef)).
  - intros id nd Ef. apply (wf_stored s H id nd (tco_old id nd Ef)).
  - intros id nd Ef. rewrite tco_nlevels. apply (wf_level s H id nd (tco_old id nd Ef)).
  - intros id nd e Ef He. destruct (proj1 (co_nodes s sg Cg id nd) Ef) as [Es R].
    destruct (wf_child s H id nd e Es He) as [Ok Lv].
    assert (Okg : ref_ok sg (eref e)) by (apply tco_keeps; [exact Ok | apply (reach_child s _ id nd e R Es He)]).
    split; [exact Okg | rewrite (tco_rlevel _ Okg); exact Lv].
  - intros id nd Ef. pose proof (wf_reduced s H id nd (tco_old id nd Ef)) as R.
    unfold reduced in *. rewrite (co_kind s sg Cg). rewrite Hk in *. exact R.
  - intros Hkk id nd e Ef He. rewrite (co_kind s sg Cg) in Hkk.
    apply (wf_tags s H Hkk id nd e (tco_old id nd Ef) He).
  - intros i1 i2 n1 n2 E1 E2. apply (wf_unique s H i1 i2 n1 n2 (tco_old _ _ E1) (tco_old _ _ E2)).
  - rewrite (co_terms s sg Cg). apply (wf_term_ids s H).
  - rewrite (co_terms s sg Cg). apply (wf_term_vals s H).
  - intros h Hh. rewrite (co_handles s sg Cg) in Hh. destruct (wf_handles s H h Hh) as [Ok Tg].
    split; [|rewrite (co_kind s sg Cg); exact Tg].
    apply tco_keeps; [exact Ok|]. apply reach_root. unfold handle_refs. apply in_map_iff. exists h. auto.
Qed.

Lemma tco_sub : extends sg s.
Proof. constructor; try (symmetry; apply Cg). exact tco_old. Qed.

(** the collected table: TdOK again, a sub-table, every handle valid, every surviving
    reference denotes what it denoted, nothing unreachable is left *)
Theorem td_collected_ok :
  TdOK sg /\ extends sg s /\
  (forall h, In h (s_handles s) -> ref_ok sg (eref (snd h))) /\
  (forall r phi, ref_ok sg r -> (DenT sg r phi <-> DenT s r phi)) /\
  (forall r av, ref_ok sg r -> tfun_of sg r av = tfun_of s r av) /\
  (forall id nd, find_node sg id = Some nd -> reachable sg (handle_refs sg) (RN id)).
Proof.
  pose proof tco_wf as Hg. pose proof tco_sub as X.
  assert (Bg : TdOK sg).
  { constructor.
    - exact Hg.
    - rewrite (co_kind s sg Cg). apply (to_kind s B).
    - intros t c. rewrite tco_term_val. apply (to_codes s B).
    - intros v. destruct (to_terms s B v) as [t Et]. exists t. rewrite tco_term_val. exact Et. }
  assert (Sem : forall r, ref_ok sg r -> forall k c0, semk s k r c0 = semk sg k r c0).
  { intros r Hr k c0. apply (semk_extends sg s Hg X k r c0 Hr). }
  split; [exact Bg|]. split; [exact X|]. split; [|split; [|split]].
  - intros h Hh. rewrite <- (co_handles s sg Cg) in Hh. apply (wf_handles sg Hg h Hh).
  - intros r phi Hr. split.
    + apply (dent_extends sg s r phi Bg X).
    + intros [Hs D]. split; [exact Hr|]. intros a. rewrite tco_nlevels, <- (Sem r Hr). apply D.
  - intros r av Hr. unfold tfun_of, FUEL, lvl_asg. rewrite tco_nlevels, (co_l2v s sg Cg), <- (Sem r Hr). reflexivity.
  - intros id nd Ef. destruct (proj1 (co_nodes s sg Cg id nd) Ef) as [_ R].
    assert (Gen : forall r, reachable s (handle_refs s) r -> ref_ok s r -> reachable sg (handle_refs sg) r).
    { intros r R0. induction R0 as [r Hin|pid pnd e R0 IH Ep He]; intros Hok.
      - apply reach_root. unfold handle_refs in *. rewrite (co_handles s sg Cg). exact Hin.
      - assert (Hp : ref_ok s (RN pid)) by (exists pnd; exact Ep).
        apply (reach_child sg _ pid pnd e (IH Hp)); [|exact He].
        apply (co_nodes s sg Cg). auto. }
    apply Gen; [exact R | exists nd; apply (tco_old id nd Ef)].
Qed.

End Collected.

(** * The invariant and the step theorem *)

Lemma tfun_of_extends : forall s s' r av, TdOK s -> extends s s' -> ref_ok s r ->
  tfun_of s' r av = tfun_of s r av.
Proof.
  intros s s' r av B X Hr. destruct (dent_exists s r B Hr) as [phi D].
  rewrite (tfun_of_den s r phi D), (tfun_of_den s' r phi (dent_extends s s' r phi B X D)).
  f_equal. unfold lvl_asg. rewrite (ext_l2v _ _ X). reflexivity.
Qed.

Lemma extends_ref_ok : forall s s' r, extends s s' -> ref_ok s r -> ref_ok s' r.
Proof.
  intros s s' [t|id] X; simpl.
  - unfold term_val. rewrite (ext_terms _ _ X). auto.
  - intros [nd Ef]. exists nd. apply (ext_nodes _ _ X). exact Ef.
Qed.

Lemma tslot_put_same : forall s d r, tslot (put s d r) d = Some r.
Proof. intros. unfold tslot, put, set_handles. cbn [s_handles]. rewrite hget_hset_same. reflexivity. Qed.

Lemma tslot_put_other : forall s d r x, x <> d -> tslot (put s d r) x = tslot s x.
Proof. intros s d r x Hx. unfold tslot, put, set_handles. cbn [s_handles]. rewrite (hget_hset_other _ _ _ _ Hx). reflexivity. Qed.

Section Steps.
Variable gt : ref -> ref -> bool.
Variable C : Type.
Variable cget : C -> N -> list ref -> option ref.
Variable cadd : C -> N -> list ref -> ref -> C.
Variable cempty : C.
Hypothesis Hlossy : lossy cget cadd.
Hypothesis Hempty : forall k a, cget cempty k a = None.

Notation tstate := (tstate C).
Notation tstep := (tstep gt C cget cadd cempty).
Notation trun := (trun gt C cget cadd cempty).
Notation tinit := (tinit C cempty).

Definition TInv (st : tstate) : Prop := TdOK (t_s C st) /\ TCacheOK cget (t_s C st) (t_c C st).

Definition top_pre (st : tstate) (o : top) : Prop := top_pre_b C st o = true.

(** the slots a call assigns (or clears) *)
Definition tdsts (o : top) : list N :=
  match o with
  | TConst d _ | TVar d _ | TNot d _ | TBin _ d _ _ | TIte d _ _ _ | TClone d _ => [d]
  | TCof dt du de _ => [dt; du; de]
  | TDrop a => [a]
  | TGc | TAddVars _ => []
  end.

(** frame: every other slot keeps its edge; every reference a slot held is still valid and
    denotes the same three-valued function of the variables *)
Definition tframe (st : tstate) (o : top) (st' : tstate) : Prop :=
  (forall x, ~ In x (tdsts o) -> hget (s_handles (t_s C st')) x = hget (s_handles (t_s C st)) x) /\
  (forall x r, tslot (t_s C st) x = Some r ->
     ref_ok (t_s C st') r /\ forall av, tfun_of (t_s C st') r av = tfun_of (t_s C st) r av) /\
  (* the variable order changes only when variables are added *)
  match o with
  | TAddVars _ => True
  | _ => s_l2v (t_s C st') = s_l2v (t_s C st) /\ s_v2l (t_s C st') = s_v2l (t_s C st)
  end.

(** what the call establishes, in terms of the operands' FUNCTIONS at the time of the call *)
Definition tpost (st : tstate) (o : top) (st' : tstate) : Prop :=
  let s := t_s C st in
  let s' := t_s C st' in
  match o with
  | TConst d v => exists r, tslot s' d = Some r /\ forall av, tfun_of s' r av = v
  | TVar d v => exists r, tslot s' d = Some r /\ forall av, tfun_of s' r av = av v
  | TNot d a => forall f, tslot s a = Some f ->
      exists r, tslot s' d = Some r /\ forall av, tfun_of s' r av = k_not (tfun_of s f av)
  | TBin op d a b => forall f g, tslot s a = Some f -> tslot s b = Some g ->
      exists r, tslot s' d = Some r /\
                forall av, tfun_of s' r av = table op (tfun_of s f av) (tfun_of s g av)
  | TIte d a b c => forall f g h, tslot s a = Some f -> tslot s b = Some g -> tslot s c = Some h ->
      exists r, tslot s' d = Some r /\
                forall av, tfun_of s' r av = ite3 (tfun_of s f av) (tfun_of s g av) (tfun_of s h av)
  | TCof dt du de a => forall f, tslot s a = Some f ->
      match td_cofactors s f with
      | None => st' = st
      | Some (t, u, e) =>
        tslot s' de = Some e /\ (du <> de -> tslot s' du = Some u) /\
        (dt <> du -> dt <> de -> tslot s' dt = Some t)
      end
  | TClone d a => tslot s' d = tslot s a
  | TDrop a => tslot s' a = None
  | TGc => extends s' s /\ s_handles s' = s_handles s /\
           forall id nd, find_node s' id = Some nd -> reachable s' (handle_refs s') (RN id)
  | TAddVars k => nlevels s' = nlevels s + k /\ s_handles s' = s_handles s /\
                  s_l2v s' = s_l2v s ++ seq (nlevels s) k /\ s_v2l s' = s_v2l s ++ seq (nlevels s) k /\
                  s_nodes s' = s_nodes s
  end.

(** the common tail of the calls that store a result *)
Lemma step_put : forall s s' c' d r, TdOK s -> TdOK s' -> extends s s' -> TCacheOK cget s' c' -> ref_ok s' r ->
  TInv (mkT C (put s' d r) c') /\
  (forall x, x <> d -> hget (s_handles (put s' d r)) x = hget (s_handles s) x) /\
  (forall r0, ref_ok s r0 -> ref_ok (put s' d r) r0 /\ forall av, tfun_of (put s' d r) r0 av = tfun_of s r0 av) /\
  tslot (put s' d r) d = Some r /\
  (forall av, tfun_of (put s' d r) r av = tfun_of s' r av) /\
  (s_l2v (put s' d r) = s_l2v s /\ s_v2l (put s' d r) = s_v2l s).
Proof.
  intros s s' c' d r B B' X O Hr.
  split; [|split; [|split; [|split; [|split]]]].
  6: { split; [apply (ext_l2v _ _ X) | apply (ext_v2l _ _ X)]. }
  - split; simpl.
    + apply tdok_put; assumption.
    + rewrite put_widen. apply tcacheok_widen; assumption.
  - intros x Hx. unfold put, set_handles. cbn [s_handles]. rewrite (hget_hset_other _ _ _ _ Hx), (ext_handles _ _ X). reflexivity.
  - intros r0 H0. pose proof (extends_ref_ok s s' r0 X H0) as H0'. split.
    + rewrite put_widen. apply ref_ok_widen. exact H0'.
    + intros av. rewrite put_widen, (tfun_of_widen s' 0 _ r0 av B' H0'). apply tfun_of_extends; assumption.
  - apply tslot_put_same.
  - intros av. rewrite put_widen. apply tfun_of_widen; assumption.
Qed.

Lemma extends_refl : forall s, extends s s.
Proof. intros s. constructor; auto. Qed.

Lemma occupied_slot : forall s x, occupied s x = true -> exists r, tslot s x = Some r.
Proof.
  intros s x. unfold occupied, tslot. destruct (hget (s_handles s) x) as [e|]; [eauto | discriminate].
Qed.

Theorem tstep_ok : forall st o, TInv st -> top_pre st o ->
  exists st', tstep st o = Some st' /\ TInv st' /\ tframe st o st' /\ tpost st o st'.
Proof.
  intros [s c] o [B O] P. unfold top_pre in P. simpl in B, O, P. pose proof (to_wf s B) as H.
  destruct o as [d v|d v|d a|op d a b|d a b cc|dt du de a|d a|a| |k]; simpl in P; unfold tstep; simpl t_s; simpl t_c.
  - (* TConst *)
    destruct (td_const_ok s v B) as [t [Ec [D _]]]. rewrite Ec.
    destruct (step_put s s c d (RT t) B B (extends_refl s) O (proj1 D)) as [I [F1 [F2 [S1 [S2 Ord]]]]].
    eexists. split; [reflexivity|]. split; [exact I|]. split; [split; [|split]|].
    + intros x Hx. apply F1. intros ->. apply Hx. left. reflexivity.
    + intros x r Hs. apply F2. apply (tslot_ok s x r B Hs).
    + exact Ord.
    + exists (RT t). split; [exact S1|]. intros av. simpl t_s. rewrite S2, (tfun_of_den s _ _ D). reflexivity.
  - (* TVar *)
    rewrite P. apply Nat.ltb_lt in P.
    destruct (td_var_ok s v B P) as [lvl [s' [r [E1 [E2 [Ev [B' [X [D _]]]]]]]]]. rewrite Ev.
    pose proof (tcacheok_extends C cget s s' c B X O) as O'.
    destruct (step_put s s' c d r B B' X O' (proj1 D)) as [I [F1 [F2 [S1 [S2 Ord]]]]].
    eexists. split; [reflexivity|]. split; [exact I|]. split; [split; [|split]|].
    + intros x Hx. apply F1. intros ->. apply Hx. left. reflexivity.
    + intros x r0 Hs. apply F2. apply (tslot_ok s x r0 B Hs).
    + exact Ord.
    + exists r. split; [exact S1|]. intros av. simpl t_s. rewrite S2, (tfun_of_den s' _ _ D).
      unfold fn_var, lvl_asg. rewrite (ext_l2v _ _ X), E2. reflexivity.
  - (* TNot *)
    destruct (occupied_slot s a P) as [f Ef]. rewrite Ef. pose proof (tslot_ok s a f B Ef) as Hf.
    destruct (dent_exists s f B Hf) as [phi Df].
    destruct (td_apply_not_ok C cget cadd Hlossy (tfuel s) s c f phi B O Df ltac:(unfold tfuel; lia))
      as [s' [c' [r [Er [B' [X [O' [D _]]]]]]]]. rewrite Er.
    destruct (step_put s s' c' d r B B' X O' (proj1 D)) as [I [F1 [F2 [S1 [S2 Ord]]]]].
    eexists. split; [reflexivity|]. split; [exact I|]. split; [split; [|split]|].
    + intros x Hx. apply F1. intros ->. apply Hx. left. reflexivity.
    + intros x r0 Hs. apply F2. apply (tslot_ok s x r0 B Hs).
    + exact Ord.
    + intros f0 Ef0. simpl t_s in *. rewrite Ef in Ef0. injection Ef0 as <-.
      exists r. split; [exact S1|]. intros av. rewrite S2, (tfun_of_den s' _ _ D), (tfun_of_den s _ _ Df).
      unfold fn_not, lvl_asg. rewrite (ext_l2v _ _ X). reflexivity.
  - (* TBin *)
    apply andb_true_iff in P. destruct P as [Pa Pb].
    destruct (occupied_slot s a Pa) as [f Ef]. destruct (occupied_slot s b Pb) as [g Eg]. rewrite Ef, Eg.
    pose proof (tslot_ok s a f B Ef) as Hf. pose proof (tslot_ok s b g B Eg) as Hg.
    destruct (dent_exists s f B Hf) as [phi Df]. destruct (dent_exists s g B Hg) as [psi Dg].
    destruct (td_apply_bin_ok gt C cget cadd Hlossy op (tfuel s) s c f g phi psi B O Df Dg ltac:(unfold tfuel; lia))
      as [s' [c' [r [Er [B' [X [O' [D _]]]]]]]]. rewrite Er.
    destruct (step_put s s' c' d r B B' X O' (proj1 D)) as [I [F1 [F2 [S1 [S2 Ord]]]]].
    eexists. split; [reflexivity|]. split; [exact I|]. split; [split; [|split]|].
    + intros x Hx. apply F1. intros ->. apply Hx. left. reflexivity.
    + intros x r0 Hs. apply F2. apply (tslot_ok s x r0 B Hs).
    + exact Ord.
    + intros f0 g0 Ef0 Eg0. simpl t_s in *. rewrite Ef in Ef0. rewrite Eg in Eg0. injection Ef0 as <-. injection Eg0 as <-.
      exists r. split; [exact S1|]. intros av.
      rewrite S2, (tfun_of_den s' _ _ D), (tfun_of_den s _ _ Df), (tfun_of_den s _ _ Dg).
      unfold fn_bin, lvl_asg. rewrite (ext_l2v _ _ X). reflexivity.
  - (* TIte *)
    apply andb_true_iff in P. destruct P as [P Pc]. apply andb_true_iff in P. destruct P as [Pa Pb].
    destruct (occupied_slot s a Pa) as [f Ef]. destruct (occupied_slot s b Pb) as [g Eg].
    destruct (occupied_slot s cc Pc) as [h Eh]. rewrite Ef, Eg, Eh.
    pose proof (tslot_ok s a f B Ef) as Hf. pose proof (tslot_ok s b g B Eg) as Hg. pose proof (tslot_ok s cc h B Eh) as Hh.
    destruct (dent_exists s f B Hf) as [phi Df]. destruct (dent_exists s g B Hg) as [psi Dg].
    destruct (dent_exists s h B Hh) as [theta Dh].
    destruct (td_apply_ite_ok gt C cget cadd Hlossy (tfuel s) s c f g h phi psi theta B O Df Dg Dh ltac:(unfold tfuel; lia))
      as [s' [c' [r [Er [B' [X [O' [D _]]]]]]]]. rewrite Er.
    destruct (step_put s s' c' d r B B' X O' (proj1 D)) as [I [F1 [F2 [S1 [S2 Ord]]]]].
    eexists. split; [reflexivity|]. split; [exact I|]. split; [split; [|split]|].
    + intros x Hx. apply F1. intros ->. apply Hx. left. reflexivity.
    + intros x r0 Hs. apply F2. apply (tslot_ok s x r0 B Hs).
    + exact Ord.
    + intros f0 g0 h0 Ef0 Eg0 Eh0. simpl t_s in *. rewrite Ef in Ef0. rewrite Eg in Eg0. rewrite Eh in Eh0.
      injection Ef0 as <-. injection Eg0 as <-. injection Eh0 as <-.
      exists r. split; [exact S1|]. intros av.
      rewrite S2, (tfun_of_den s' _ _ D), (tfun_of_den s _ _ Df), (tfun_of_den s _ _ Dg), (tfun_of_den s _ _ Dh).
      unfold fn_ite, lvl_asg. rewrite (ext_l2v _ _ X). reflexivity.
  - (* TCof *)
    destruct (occupied_slot s a P) as [f Ef]. rewrite Ef. pose proof (tslot_ok s a f B Ef) as Hf.
    destruct (dent_exists s f B Hf) as [phi Df].
    pose proof (td_cofactors_ok s f phi B Df) as K. destruct f as [t0|id].
    + rewrite K. exists (mkT C s c). split; [reflexivity|]. split; [split; assumption|]. split; [split; [|split]|].
      * intros x _. reflexivity.
      * intros x r Hs. split; [apply (tslot_ok s x r B Hs) | reflexivity].
      * split; reflexivity.
      * intros f0 Ef0. simpl t_s in *. rewrite Ef in Ef0. injection Ef0 as <-. rewrite K. reflexivity.
    + destruct K as [nd [t [u [e [En [Ec [Dt [Du [De _]]]]]]]]]. rewrite Ec.
      destruct (step_put s s c dt t B B (extends_refl s) O (proj1 Dt)) as [[B1 O1] [F1 [G1 [S1 [_ Ord1]]]]]. simpl in B1, O1.
      (* [put] changes the handle list only: not [extends]; transport by hand *)
      set (s1 := put s dt t) in *. 
      assert (Hu1 : ref_ok s1 u) by (apply (G1 u (proj1 Du))).
      assert (B2 : TdOK (put s1 du u)) by (apply tdok_put; assumption).
      set (s2 := put s1 du u) in *.
      assert (He2 : ref_ok s2 e).
      { unfold s2. rewrite put_widen. apply ref_ok_widen. apply (G1 e (proj1 De)). }
      assert (B3 : TdOK (put s2 de e)) by (apply tdok_put; assumption).
      exists (mkT C (put s2 de e) c). split; [reflexivity|]. split; [|split; [split; [|split]|]].
      * split; simpl; [exact B3|]. unfold s2, s1. rewrite !put_widen.
        apply tcacheok_widen; [rewrite <- !put_widen; exact B2|].
        apply tcacheok_widen; [rewrite <- put_widen; exact B1|].
        apply tcacheok_widen; assumption.
      * intros x Hx. simpl in Hx. simpl t_s. unfold s2, s1, put, set_handles. cbn [s_handles].
        rewrite !hget_hset_other by (intros ->; tauto). reflexivity.
      * intros x r Hs. simpl t_s in *. pose proof (tslot_ok s x r B Hs) as Hr. split.
        -- unfold s2, s1. rewrite !put_widen. apply ref_ok_widen, ref_ok_widen, ref_ok_widen. exact Hr.
        -- intros av. unfold s2, s1. rewrite !put_widen.
           rewrite tfun_of_widen; [|rewrite <- !put_widen; exact B2 | apply ref_ok_widen, ref_ok_widen; exact Hr].
           rewrite tfun_of_widen; [|rewrite <- put_widen; exact B1 | apply ref_ok_widen; exact Hr].
           apply tfun_of_widen; assumption.
      * split; reflexivity.
      * intros f0 Ef0. simpl t_s in *. rewrite Ef in Ef0. injection Ef0 as <-. rewrite Ec.
        split; [apply tslot_put_same|]. split.
        -- intros N1. rewrite tslot_put_other by exact N1. apply tslot_put_same.
        -- intros N1 N2. rewrite tslot_put_other by exact N2. unfold s2. rewrite tslot_put_other by exact N1.
           apply tslot_put_same.
  - (* TClone *)
    destruct (occupied_slot s a P) as [f Ef]. rewrite Ef. pose proof (tslot_ok s a f B Ef) as Hf.
    destruct (step_put s s c d f B B (extends_refl s) O Hf) as [I [F1 [F2 [S1 [S2 Ord]]]]].
    eexists. split; [reflexivity|]. split; [exact I|]. split; [split; [|split]|].
    + intros x Hx. apply F1. intros ->. apply Hx. left. reflexivity.
    + intros x r0 Hs. apply F2. apply (tslot_ok s x r0 B Hs).
    + exact Ord.
    + unfold tpost. simpl t_s. rewrite S1, Ef. reflexivity.
  - (* TDrop *)
    eexists. split; [reflexivity|].
    assert (E0 : set_handles s (hdel (s_handles s) a) = widen s 0 (hdel (s_handles s) a)) by apply widen_set_handles.
    split; [|split; [split; [|split]|]].
    + split; simpl; rewrite E0; [apply tdok_widen; [exact B | apply hdel_handles_ok; exact B] | apply tcacheok_widen; assumption].
    + intros x Hx. simpl in *. apply hget_hdel_other. intros ->. apply Hx. left. reflexivity.
    + intros x r Hs. simpl t_s. pose proof (tslot_ok s x r B Hs) as Hr. rewrite E0. split.
      * apply ref_ok_widen. exact Hr.
      * intros av. apply tfun_of_widen; assumption.
    + split; reflexivity.
    + simpl. unfold tslot. simpl. rewrite hget_hdel_same. reflexivity.
  - (* TGc *)
    eexists. split; [reflexivity|].
    pose proof (gc_model_collected s H) as Cg.
    destruct (td_collected_ok s (gc_model s) B Cg) as [Bg [X [Hh [Dn [Tf Rch]]]]].
    split; [|split; [split; [|split]|]].
    + split; simpl; [exact Bg|]. intros code args r E. rewrite Hempty in E. discriminate.
    + intros x _. simpl. reflexivity.
    + intros x r Hs. simpl t_s. assert (Hr : ref_ok (gc_model s) r).
      { unfold tslot in Hs. simpl t_s in Hs. destruct (hget (s_handles s) x) as [e|] eqn:Eh; [|discriminate]. injection Hs as <-.
        apply (Hh (x, e)). apply hget_In. exact Eh. }
      split; [exact Hr|]. intros av. apply Tf. exact Hr.
    + split; [apply (co_l2v _ _ Cg) | apply (co_v2l _ _ Cg)].
    + simpl. split; [exact X|]. split; [apply (co_handles _ _ Cg) | exact Rch].
  - (* TAddVars *)
    eexists. split; [reflexivity|].
    assert (Hhs : forall h, In h (s_handles s) -> ref_ok s (eref (snd h)) /\ etag (snd h) = false).
    { intros h Hin. destruct (wf_handles s H h Hin) as [A T]. split; [exact A|]. apply T. rewrite (to_kind s B). discriminate. }
    split; [|split; [split; [|split]|]].
    + split; simpl; rewrite widen_add_vars; [apply tdok_widen; assumption | apply tcacheok_widen; assumption].
    + intros x _. reflexivity.
    + intros x r Hs. simpl t_s. pose proof (tslot_ok s x r B Hs) as Hr. rewrite widen_add_vars. split.
      * apply ref_ok_widen. exact Hr.
      * intros av. apply tfun_of_widen; assumption.
    + exact I.
    + simpl. split; [|split; [reflexivity | split; [reflexivity | split; reflexivity]]]. rewrite widen_add_vars. apply widen_nlevels.
Qed.

(** ** runs *)

Theorem trun_ok : forall ops st, TInv st -> tops_pre_b gt C cget cadd cempty st ops = true ->
  exists st', trun st ops = Some st' /\ TInv st'.
Proof.
  induction ops as [|o r IH]; intros st I P; simpl in *.
  - exists st. auto.
  - apply andb_true_iff in P. destruct P as [Po Pr].
    destruct (tstep_ok st o I Po) as [st1 [E1 [I1 _]]]. rewrite E1 in *. apply IH; assumption.
Qed.

(** a well-formed request is never refused: the run can only stop at a request whose
    precondition fails (an empty operand slot, an unknown variable) *)
Theorem trun_never_stuck : forall ops st, TInv st -> trun st ops = None ->
  exists pre o post st1, ops = pre ++ o :: post /\ trun st pre = Some st1 /\ TInv st1 /\
                         top_pre_b C st1 o = false.
Proof.
  induction ops as [|o r IH]; intros st I E; simpl in E; [discriminate|].
  destruct (top_pre_b C st o) eqn:Po.
  - destruct (tstep_ok st o I Po) as [st1 [E1 [I1 _]]]. rewrite E1 in E.
    destruct (IH st1 I1 E) as [pre [o' [post [st2 [Eo [Er [I2 P2]]]]]]].
    exists (o :: pre), o', post, st2. split; [rewrite Eo; reflexivity|]. split; [simpl; rewrite E1; exact Er | auto].
  - exists [], o, r, st. simpl. auto.
Qed.

(** states reachable from a fresh manager by well-formed requests *)
Inductive treach (n : nat) : tstate -> Prop :=
| treach_init : treach n (tinit n)
| treach_step : forall st o st', treach n st -> top_pre st o -> tstep st o = Some st' -> treach n st'.

Lemma nth_error_seq0 : forall n i, i < n -> nth_error (seq 0 n) i = Some i.
Proof.
  intros n i Hi. rewrite (nth_error_nth' (seq 0 n) 0) by (rewrite seq_length; exact Hi).
  rewrite seq_nth by exact Hi. reflexivity.
Qed.

Lemma tdd_empty_find : forall n id, find_node (tdd_empty n) id = None.
Proof. intros n id. unfold find_node. simpl. apply PositiveMap.gempty. Qed.

Lemma tdd_empty_ok : forall n, TdOK (tdd_empty n).
Proof.
  intros n.
  assert (Hinv : inv_on (seq 0 n) (seq 0 n)).
  { intros i Hi. rewrite seq_length in Hi. exists i. split; apply nth_error_seq0; exact Hi. }
  constructor.
  - constructor; simpl; try exact Hinv;
      try (intros; match goal with Ef : find_node (tdd_empty n) _ = Some _ |- _ =>
                     rewrite tdd_empty_find in Ef; discriminate end).
    + reflexivity.
    + repeat constructor; simpl; intuition discriminate.
    + repeat constructor; simpl; intuition discriminate.
    + intros h [].
  - reflexivity.
  - intros t c. unfold term_val. cbn [s_terms tdd_empty assoc_N].
    destruct (N.eqb 0 t); [intros [= <-]; lia|].
    destruct (N.eqb 1 t); [intros [= <-]; lia|].
    destruct (N.eqb 2 t); [intros [= <-]; lia | discriminate].
  - intros [| |]; [exists 0%N | exists 1%N | exists 2%N]; reflexivity.
Qed.

Theorem tinit_inv : forall n, TInv (tinit n).
Proof.
  intros n. split; simpl; [apply tdd_empty_ok|]. intros code args r E. rewrite Hempty in E. discriminate.
Qed.

Theorem treach_inv : forall n st, treach n st -> TInv st.
Proof.
  intros n st R. induction R as [|st o st' R IH P E]; [apply tinit_inv|].
  destruct (tstep_ok st o IH P) as [st1 [E1 [I1 _]]]. rewrite E in E1. injection E1 as <-. exact I1.
Qed.

(** C03 along histories: after ANY history the executable checkers accept the table *)
Theorem thist_ok_b : forall n st, treach n st ->
  td_ok_b (t_s C st) = true /\ td_wf3_b (t_s C st) = true /\ wf_full_b (t_s C st) = true.
Proof.
  intros n st R. destruct (treach_inv n st R) as [B _].
  pose proof (proj2 (td_ok_b_spec _) B) as Hb. split; [exact Hb|]. split.
  - rewrite td_wf3_b_ok_b. exact Hb.
  - apply td_ok_wf_full. exact Hb.
Qed.

(** C01 along histories: two slots hold the same edge IFF they denote the same three-valued
    function of the variables *)
Theorem tinv_canonical : forall st, TInv st ->
  forall x y ex ey, hget (s_handles (t_s C st)) x = Some ex -> hget (s_handles (t_s C st)) y = Some ey ->
  (ex = ey <-> forall av, tfun_of (t_s C st) (eref ex) av = tfun_of (t_s C st) (eref ey) av).
Proof.
  intros st [B _] x y ex ey Ex Ey.
  apply (td_canon_handles_tfun (t_s C st) B (x, ex) (y, ey)); apply hget_In; assumption.
Qed.

Theorem thist_canonical : forall n st, treach n st ->
  forall x y ex ey, hget (s_handles (t_s C st)) x = Some ex -> hget (s_handles (t_s C st)) y = Some ey ->
  (ex = ey <-> forall av, tfun_of (t_s C st) (eref ex) av = tfun_of (t_s C st) (eref ey) av).
Proof. intros n st R. apply tinv_canonical. apply (treach_inv n st R). Qed.

(** ... and IFF their finite value tables agree (what the driver compares) *)
Theorem thist_canonical_vtable : forall n st, treach n st ->
  forall x y ex ey, hget (s_handles (t_s C st)) x = Some ex -> hget (s_handles (t_s C st)) y = Some ey ->
  (ex = ey <-> td_vtable (t_s C st) (eref ex) = td_vtable (t_s C st) (eref ey)).
Proof.
  intros n st R x y ex ey Ex Ey. destruct (treach_inv n st R) as [B _].
  apply (td_canon_handles (t_s C st) B (x, ex) (y, ey)); apply hget_In; assumption.
Qed.

(** the result of a call is determined by the operands' functions: every slot that holds
    the destination's function holds the destination's edge *)
Theorem thist_result_unique : forall st o st', TInv st -> top_pre st o -> tstep st o = Some st' ->
  forall d y ed ey, hget (s_handles (t_s C st')) d = Some ed -> hget (s_handles (t_s C st')) y = Some ey ->
  (forall av, tfun_of (t_s C st') (eref ey) av = tfun_of (t_s C st') (eref ed) av) -> ey = ed.
Proof.
  intros st o st' I P E d y ed ey Ed Ey A.
  destruct (tstep_ok st o I P) as [st1 [E1 [I1 _]]]. rewrite E in E1. injection E1 as <-.
  apply (tinv_canonical st' I1 y d ey ed Ey Ed). exact A.
Qed.

(** C05 along histories: right after a collection every stored node is reachable from a
    handle (nothing unreferenced is left), no handle lost its node, every function is kept *)
Theorem thist_gc : forall st st', TInv st -> tstep st TGc = Some st' ->
  TInv st' /\ s_handles (t_s C st') = s_handles (t_s C st) /\
  (forall id nd, find_node (t_s C st') id = Some nd ->
     find_node (t_s C st) id = Some nd /\ reachable (t_s C st') (handle_refs (t_s C st')) (RN id)) /\
  (forall id nd, find_node (t_s C st) id = Some nd -> reachable (t_s C st) (handle_refs (t_s C st)) (RN id) ->
     find_node (t_s C st') id = Some nd) /\
  (forall x r, tslot (t_s C st) x = Some r ->
     ref_ok (t_s C st') r /\ forall av, tfun_of (t_s C st') r av = tfun_of (t_s C st) r av).
Proof.
  intros st st' I E. destruct (tstep_ok st TGc I eq_refl) as [st1 [E1 [I1 [[_ [F2 _]] Po]]]].
  rewrite E in E1. injection E1 as <-. destruct Po as [X [Hh R]].
  split; [exact I1|]. split; [exact Hh|]. split; [|split; [|exact F2]].
  - intros id nd Ef. split; [apply (ext_nodes _ _ X id nd Ef) | apply (R id nd Ef)].
  - intros id nd Ef Rc. injection E as <-. simpl.
    pose proof (gc_model_collected (t_s C st) (to_wf _ (proj1 I))) as Cg.
    apply (co_nodes _ _ Cg). auto.
Qed.

(** dropping every handle and collecting leaves an empty store *)
Theorem thist_dropall_gc : forall st st', TInv st -> s_handles (t_s C st) = [] -> tstep st TGc = Some st' ->
  forall id, find_node (t_s C st') id = None.
Proof.
  intros st st' I Hh E id. destruct (thist_gc st st' I E) as [_ [Hh' [A _]]].
  destruct (find_node (t_s C st') id) as [nd|] eqn:Ef; [|reflexivity]. exfalso.
  destruct (A id nd Ef) as [_ R]. unfold handle_refs in R. rewrite Hh', Hh in R. exact (reachable_nil _ _ R).
Qed.

End Steps.

(** * The replayed instance ([tddh_step] of Mgr/TddHist.v: empty association-list cache, operands
    never swapped, seeded with any TdOK table, e.g. the lifted snapshot of a real manager) *)
Theorem tddh_step_ok : forall s o, TdOK s -> top_pre_b acache (mkT acache s []) o = true ->
  exists st', tstep (fun _ _ => false) acache ac_get ac_add [] (mkT acache s []) o = Some st' /\
    tddh_step s o = Some (t_s acache st') /\ TInv acache ac_get st' /\
    tframe acache (mkT acache s []) o st' /\ tpost acache (mkT acache s []) o st'.
Proof.
  intros s o B P.
  assert (I : TInv acache ac_get (mkT acache s [])) by (split; [exact B | apply tac_empty_ok]).
  destruct (tstep_ok (fun _ _ => false) acache ac_get ac_add [] ac_lossy (fun _ _ => eq_refl) _ o I P)
    as [st' [E [I' [F Po]]]].
  exists st'. split; [exact E|]. split; [unfold tddh_step; rewrite E; reflexivity|]. auto.
Qed.

(** the model refuses a call only if its precondition fails (empty operand slot, unknown variable) *)
Theorem tddh_step_none : forall s o, TdOK s -> tddh_step s o = None -> top_pre_b acache (mkT acache s []) o = false.
Proof.
  intros s o B E. destruct (top_pre_b acache (mkT acache s []) o) eqn:P; [|reflexivity].
  destruct (tddh_step_ok s o B P) as [st' [_ [E' _]]]. congruence.
Qed.
