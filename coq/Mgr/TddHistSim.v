(** Mgr/TddHistSim.v — package TDDx: two TDD managers in ANY two configurations (operand
    order of [terminal_bin], apply-cache implementation incl. "none" / capacity 1 / a cache
    cleared before every call, its contents) fed the same client calls are observationally
    equal (C06: cache transparency; C20: build configurations; at the level of whole
    histories incl. collections and add_vars).

    [tsim st1 st2]: both invariants, the same variable order, and slot by slot: both empty or
    both occupied by references denoting the same three-valued function of the variables.
    [tsim_step], [tsim_run]: preserved by every well-formed call / call list from fresh
    managers; [tsim_observe]: same occupied slots, same value of every slot under every
    assignment, and "slot x == slot y" has the same answer on both sides.
    No axioms. *)
From Coq Require Import List NArith PArith Bool Arith Lia FMapPositive.
From OxiVerif Require Import DD.Table DD.TableExtra DD.TableProofs DD.Build DD.BuildProofs DD.Apply DD.ApplyProofs
  DD.Cache DD.CacheProofs DD.ConfigApply DD.Tdd DD.ApplyTdd DD.ApplyTddBase DD.ApplyTddProofs DD.ApplyTddIte DD.ApplyTddTop
  DD.TddAudit DD.TddAuditProofs Mgr.History Mgr.HistoryBase Mgr.OomGc Mgr.HistoryGc Mgr.TddHist Mgr.TddHistProofs.
Import ListNotations.

(** the level function of a reference, read off its function of the variables *)
Lemma den_var_asg : forall s r phi a, TdOK s -> DenT s r phi -> phi a = tfun_of s r (var_asg s a).
Proof.
  intros s r phi a B D. rewrite (tfun_of_den s r phi D). apply tcode_inj.
  assert (X : Some (tcode (phi a)) = Some (tcode (phi (lvl_asg s (var_asg s a))))).
  { rewrite <- (proj2 D a), <- (proj2 D (lvl_asg s (var_asg s a))).
    apply (semk_ext_below s (to_wf s B)). intros l Hl. unfold chc.
    rewrite (lvl_var_asg s a l (to_wf s B) Hl). reflexivity. }
  congruence.
Qed.

Lemma tfun_eq_den : forall s1 s2 r1 r2 phi, TdOK s1 -> TdOK s2 ->
  s_v2l s1 = s_v2l s2 -> DenT s1 r1 phi -> ref_ok s2 r2 ->
  (forall av, tfun_of s1 r1 av = tfun_of s2 r2 av) -> DenT s2 r2 phi.
Proof.
  intros s1 s2 r1 r2 phi B1 B2 Ev D1 H2 A. destruct (dent_exists s2 r2 B2 H2) as [phi2 D2].
  apply (dent_ext s2 r2 phi2 phi D2). intros a.
  rewrite (den_var_asg s2 r2 phi2 a B2 D2), (den_var_asg s1 r1 phi a B1 D1), A.
  unfold var_asg. rewrite Ev. reflexivity.
Qed.

Lemma den_tfun_eq : forall s1 s2 r1 r2 phi, s_l2v s1 = s_l2v s2 -> DenT s1 r1 phi -> DenT s2 r2 phi ->
  forall av, tfun_of s1 r1 av = tfun_of s2 r2 av.
Proof.
  intros s1 s2 r1 r2 phi El D1 D2 av. rewrite (tfun_of_den s1 r1 phi D1), (tfun_of_den s2 r2 phi D2).
  unfold lvl_asg. rewrite El. reflexivity.
Qed.

(** the root level is determined by the function *)
Lemma rlevel_den_eq : forall s1 s2 r1 r2 phi, TdOK s1 -> TdOK s2 -> nlevels s1 = nlevels s2 ->
  DenT s1 r1 phi -> DenT s2 r2 phi -> rlevel s1 r1 = rlevel s2 r2.
Proof.
  intros s1 s2 r1 r2 phi B1 B2 En D1 D2.
  pose proof (dent_indep s1 r1 phi (to_wf s1 B1) D1) as I1. pose proof (dent_indep s2 r2 phi (to_wf s2 B2) D2) as I2.
  pose proof (rlevel_le s1 (to_wf s1 B1) r1) as L1. pose proof (rlevel_le s2 (to_wf s2 B2) r2) as L2.
  pose proof (dent_level s1 r1 phi (rlevel s2 r2) B1 D1 ltac:(lia) I2).
  pose proof (dent_level s2 r2 phi (rlevel s1 r1) B2 D2 ltac:(lia) I1). lia.
Qed.

Section Sim.
Variables gt1 gt2 : ref -> ref -> bool.
Variables C1 C2 : Type.
Variable cget1 : C1 -> N -> list ref -> option ref.
Variable cadd1 : C1 -> N -> list ref -> ref -> C1.
Variable cget2 : C2 -> N -> list ref -> option ref.
Variable cadd2 : C2 -> N -> list ref -> ref -> C2.
Variable ce1 : C1.
Variable ce2 : C2.
Hypothesis L1 : lossy cget1 cadd1.
Hypothesis L2 : lossy cget2 cadd2.
Hypothesis E1 : forall k a, cget1 ce1 k a = None.
Hypothesis E2 : forall k a, cget2 ce2 k a = None.

Notation step1 := (tstep gt1 C1 cget1 cadd1 ce1).
Notation step2 := (tstep gt2 C2 cget2 cadd2 ce2).
Notation run1 := (trun gt1 C1 cget1 cadd1 ce1).
Notation run2 := (trun gt2 C2 cget2 cadd2 ce2).
Notation Inv1 := (TInv C1 cget1).
Notation Inv2 := (TInv C2 cget2).
Notation ok1 := (tstep_ok gt1 C1 cget1 cadd1 ce1 L1 E1).
Notation ok2 := (tstep_ok gt2 C2 cget2 cadd2 ce2 L2 E2).

Definition slot_rel (s1 s2 : snap) (x : N) : Prop :=
  match tslot s1 x, tslot s2 x with
  | Some r1, Some r2 => forall av, tfun_of s1 r1 av = tfun_of s2 r2 av
  | None, None => True
  | _, _ => False
  end.

Definition tsim (st1 : tstate C1) (st2 : tstate C2) : Prop :=
  Inv1 st1 /\ Inv2 st2 /\
  s_l2v (t_s C1 st1) = s_l2v (t_s C2 st2) /\ s_v2l (t_s C1 st1) = s_v2l (t_s C2 st2) /\
  forall x, slot_rel (t_s C1 st1) (t_s C2 st2) x.

Lemma tsim_nlevels : forall st1 st2, tsim st1 st2 -> nlevels (t_s C1 st1) = nlevels (t_s C2 st2).
Proof. intros st1 st2 [_ [_ [El _]]]. unfold nlevels. rewrite El. reflexivity. Qed.

Lemma tsim_occupied : forall st1 st2 x, tsim st1 st2 -> occupied (t_s C1 st1) x = occupied (t_s C2 st2) x.
Proof.
  intros st1 st2 x [_ [_ [_ [_ R]]]]. specialize (R x). unfold slot_rel, tslot in R. unfold occupied.
  destruct (hget (s_handles (t_s C1 st1)) x), (hget (s_handles (t_s C2 st2)) x); tauto.
Qed.

Lemma tsim_pre : forall st1 st2 o, tsim st1 st2 -> top_pre_b C2 st2 o = top_pre_b C1 st1 o.
Proof.
  intros st1 st2 o S. pose proof (tsim_nlevels st1 st2 S) as En.
  destruct o; simpl; rewrite <- ?En, <- ?(tsim_occupied st1 st2 _ S); reflexivity.
Qed.

(** slots that are not destinations stay related *)
Lemma frame_slot_rel : forall (st1 st1' : tstate C1) (st2 st2' : tstate C2) o x,
  tframe C1 st1 o st1' -> tframe C2 st2 o st2' -> ~ In x (tdsts o) ->
  slot_rel (t_s C1 st1) (t_s C2 st2) x -> slot_rel (t_s C1 st1') (t_s C2 st2') x.
Proof.
  intros st1 st1' st2 st2' o x [F1 [G1 _]] [F2 [G2 _]] Hx R. unfold slot_rel, tslot in *.
  rewrite (F1 x Hx), (F2 x Hx).
  destruct (hget (s_handles (t_s C1 st1)) x) as [e1|] eqn:H1, (hget (s_handles (t_s C2 st2)) x) as [e2|] eqn:H2; auto.
  intros av.
  assert (S1 : tslot (t_s C1 st1) x = Some (eref e1)) by (unfold tslot; rewrite H1; reflexivity).
  assert (S2 : tslot (t_s C2 st2) x = Some (eref e2)) by (unfold tslot; rewrite H2; reflexivity).
  rewrite (proj2 (G1 x _ S1) av), (proj2 (G2 x _ S2) av). apply R.
Qed.

Lemma slot_rel_some : forall s1 s2 x r1, slot_rel s1 s2 x -> tslot s1 x = Some r1 ->
  exists r2, tslot s2 x = Some r2 /\ forall av, tfun_of s1 r1 av = tfun_of s2 r2 av.
Proof.
  intros s1 s2 x r1 R S1. unfold slot_rel in R. rewrite S1 in R.
  destruct (tslot s2 x) as [r2|]; [exists r2; auto | destruct R].
Qed.

Lemma order_after : forall (st1 st1' : tstate C1) (st2 st2' : tstate C2) o,
  tsim st1 st2 -> tframe C1 st1 o st1' -> tframe C2 st2 o st2' ->
  tpost C1 st1 o st1' -> tpost C2 st2 o st2' ->
  s_l2v (t_s C1 st1') = s_l2v (t_s C2 st2') /\ s_v2l (t_s C1 st1') = s_v2l (t_s C2 st2').
Proof.
  intros st1 st1' st2 st2' o S [_ [_ O1]] [_ [_ O2]] P1 P2.
  pose proof (tsim_nlevels st1 st2 S) as En. destruct S as [_ [_ [El [Ev _]]]].
  assert (G : (s_l2v (t_s C1 st1') = s_l2v (t_s C1 st1) /\ s_v2l (t_s C1 st1') = s_v2l (t_s C1 st1)) ->
              (s_l2v (t_s C2 st2') = s_l2v (t_s C2 st2) /\ s_v2l (t_s C2 st2') = s_v2l (t_s C2 st2)) ->
              s_l2v (t_s C1 st1') = s_l2v (t_s C2 st2') /\ s_v2l (t_s C1 st1') = s_v2l (t_s C2 st2')).
  { intros [A1 A2] [A3 A4]. rewrite A1, A2, A3, A4. auto. }
  destruct o; try (apply G; assumption).
  simpl in P1, P2. destruct P1 as [_ [_ [A1 [A2 _]]]], P2 as [_ [_ [A3 [A4 _]]]].
  rewrite A1, A2, A3, A4, El, Ev, En. auto.
Qed.

Lemma sim_assemble : forall (st1 st1' : tstate C1) (st2 st2' : tstate C2) o,
  tsim st1 st2 -> Inv1 st1' -> Inv2 st2' ->
  tframe C1 st1 o st1' -> tframe C2 st2 o st2' -> tpost C1 st1 o st1' -> tpost C2 st2 o st2' ->
  (forall x, In x (tdsts o) -> slot_rel (t_s C1 st1') (t_s C2 st2') x) ->
  tsim st1' st2'.
Proof.
  intros st1 st1' st2 st2' o S I1 I2 F1 F2 P1 P2 D.
  destruct (order_after st1 st1' st2 st2' o S F1 F2 P1 P2) as [El Ev].
  split; [exact I1|]. split; [exact I2|]. split; [exact El|]. split; [exact Ev|].
  intros x. destruct (in_dec N.eq_dec x (tdsts o)) as [Hin|Hn]; [apply D; exact Hin|].
  apply (frame_slot_rel st1 st1' st2 st2' o x F1 F2 Hn). apply S.
Qed.

Lemma slot_rel_intro : forall s1 s2 x r1 r2, tslot s1 x = Some r1 -> tslot s2 x = Some r2 ->
  (forall av, tfun_of s1 r1 av = tfun_of s2 r2 av) -> slot_rel s1 s2 x.
Proof. intros s1 s2 x r1 r2 S1 S2 A. unfold slot_rel. rewrite S1, S2. exact A. Qed.

(** three [put]s in a row *)
Lemma tslot_put3 : forall s dt du de t u e x,
  tslot (put (put (put s dt t) du u) de e) x =
  if N.eqb x de then Some e else if N.eqb x du then Some u else if N.eqb x dt then Some t else tslot s x.
Proof.
  intros s dt du de t u e x.
  destruct (N.eqb_spec x de) as [->|N1]; [apply tslot_put_same|]. rewrite tslot_put_other by exact N1.
  destruct (N.eqb_spec x du) as [->|N2]; [apply tslot_put_same|]. rewrite tslot_put_other by exact N2.
  destruct (N.eqb_spec x dt) as [->|N3]; [apply tslot_put_same|]. apply tslot_put_other. exact N3.
Qed.

Lemma tfun_of_put3 : forall s dt du de t u e r av, TdOK s -> ref_ok s t -> ref_ok s u -> ref_ok s r ->
  tfun_of (put (put (put s dt t) du u) de e) r av = tfun_of s r av.
Proof.
  intros s dt du de t u e r av B Ht Hu Hr.
  assert (B1 : TdOK (put s dt t)) by (apply tdok_put; assumption).
  assert (Hu1 : ref_ok (put s dt t) u) by (rewrite put_widen; apply ref_ok_widen; exact Hu).
  assert (B2 : TdOK (put (put s dt t) du u)) by (apply tdok_put; assumption).
  rewrite (put_widen (put (put s dt t) du u)), tfun_of_widen;
    [|exact B2 | rewrite put_widen; apply ref_ok_widen; rewrite put_widen; apply ref_ok_widen; exact Hr].
  rewrite (put_widen (put s dt t)), tfun_of_widen; [|exact B1 | rewrite put_widen; apply ref_ok_widen; exact Hr].
  rewrite put_widen. apply tfun_of_widen; assumption.
Qed.

Theorem tsim_step : forall st1 st2 o, tsim st1 st2 -> top_pre_b C1 st1 o = true ->
  exists st1' st2', step1 st1 o = Some st1' /\ step2 st2 o = Some st2' /\ tsim st1' st2'.
Proof.
  intros st1 st2 o S P1. assert (P2 : top_pre_b C2 st2 o = true) by (rewrite (tsim_pre st1 st2 o S); exact P1).
  pose proof S as [I1 [I2 [El [Ev R]]]].
  destruct (ok1 st1 o I1 P1) as [st1' [X1 [I1' [F1 Po1]]]].
  destruct (ok2 st2 o I2 P2) as [st2' [X2 [I2' [F2 Po2]]]].
  exists st1', st2'. split; [exact X1|]. split; [exact X2|].
  destruct o as [d v|d v|d a|op d a b|d a b cc|dt du de a|d a|a| |k].
  - (* TConst *)
    apply (sim_assemble st1 st1' st2 st2' _ S I1' I2' F1 F2 Po1 Po2). intros x [<-|[]].
    destruct Po1 as [r1 [S1 A1]], Po2 as [r2 [S2 A2]]. apply (slot_rel_intro _ _ _ r1 r2 S1 S2).
    intros av. rewrite A1, A2. reflexivity.
  - (* TVar *)
    apply (sim_assemble st1 st1' st2 st2' _ S I1' I2' F1 F2 Po1 Po2). intros x [<-|[]].
    destruct Po1 as [r1 [S1 A1]], Po2 as [r2 [S2 A2]]. apply (slot_rel_intro _ _ _ r1 r2 S1 S2).
    intros av. rewrite A1, A2. reflexivity.
  - (* TNot *)
    apply (sim_assemble st1 st1' st2 st2' _ S I1' I2' F1 F2 Po1 Po2). intros x [<-|[]].
    simpl in P1. destruct (occupied_slot _ _ P1) as [f1 Sf1].
    destruct (slot_rel_some _ _ a f1 (R a) Sf1) as [f2 [Sf2 Af]].
    destruct (Po1 f1 Sf1) as [r1 [S1 A1]]. destruct (Po2 f2 Sf2) as [r2 [S2 A2]].
    apply (slot_rel_intro _ _ _ r1 r2 S1 S2). intros av. rewrite A1, A2, Af. reflexivity.
  - (* TBin *)
    apply (sim_assemble st1 st1' st2 st2' _ S I1' I2' F1 F2 Po1 Po2). intros x [<-|[]].
    simpl in P1. apply andb_true_iff in P1. destruct P1 as [Pa Pb].
    destruct (occupied_slot _ _ Pa) as [f1 Sf1]. destruct (occupied_slot _ _ Pb) as [g1 Sg1].
    destruct (slot_rel_some _ _ a f1 (R a) Sf1) as [f2 [Sf2 Af]].
    destruct (slot_rel_some _ _ b g1 (R b) Sg1) as [g2 [Sg2 Ag]].
    destruct (Po1 f1 g1 Sf1 Sg1) as [r1 [S1 A1]]. destruct (Po2 f2 g2 Sf2 Sg2) as [r2 [S2 A2]].
    apply (slot_rel_intro _ _ _ r1 r2 S1 S2). intros av. rewrite A1, A2, Af, Ag. reflexivity.
  - (* TIte *)
    apply (sim_assemble st1 st1' st2 st2' _ S I1' I2' F1 F2 Po1 Po2). intros x [<-|[]].
    simpl in P1. apply andb_true_iff in P1. destruct P1 as [P1 Pc]. apply andb_true_iff in P1. destruct P1 as [Pa Pb].
    destruct (occupied_slot _ _ Pa) as [f1 Sf1]. destruct (occupied_slot _ _ Pb) as [g1 Sg1].
    destruct (occupied_slot _ _ Pc) as [h1 Sh1].
    destruct (slot_rel_some _ _ a f1 (R a) Sf1) as [f2 [Sf2 Af]].
    destruct (slot_rel_some _ _ b g1 (R b) Sg1) as [g2 [Sg2 Ag]].
    destruct (slot_rel_some _ _ cc h1 (R cc) Sh1) as [h2 [Sh2 Ah]].
    destruct (Po1 f1 g1 h1 Sf1 Sg1 Sh1) as [r1 [S1 A1]]. destruct (Po2 f2 g2 h2 Sf2 Sg2 Sh2) as [r2 [S2 A2]].
    apply (slot_rel_intro _ _ _ r1 r2 S1 S2). intros av. rewrite A1, A2, Af, Ag, Ah. reflexivity.
  - (* TCof *)
    apply (sim_assemble st1 st1' st2 st2' _ S I1' I2' F1 F2 Po1 Po2). intros x Hx.
    simpl in P1. destruct (occupied_slot _ _ P1) as [f1 Sf1].
    destruct (slot_rel_some _ _ a f1 (R a) Sf1) as [f2 [Sf2 Af]].
    destruct st1 as [s1 c1], st2 as [s2 c2]. simpl t_s in *. destruct I1 as [B1 O1], I2 as [B2 O2]. simpl in B1, B2.
    pose proof (tslot_ok s1 a f1 B1 Sf1) as Hf1. pose proof (tslot_ok s2 a f2 B2 Sf2) as Hf2.
    destruct (dent_exists s1 f1 B1 Hf1) as [phi D1].
    pose proof (tfun_eq_den s1 s2 f1 f2 phi B1 B2 Ev D1 Hf2 Af) as D2.
    assert (En : nlevels s1 = nlevels s2) by (unfold nlevels; rewrite El; reflexivity).
    pose proof (rlevel_den_eq s1 s2 f1 f2 phi B1 B2 En D1 D2) as Er.
    pose proof (td_cofactors_ok s1 f1 phi B1 D1) as K1. pose proof (td_cofactors_ok s2 f2 phi B2 D2) as K2.
    unfold tstep in X1, X2. simpl t_s in X1, X2. simpl t_c in X1, X2. rewrite Sf1 in X1. rewrite Sf2 in X2.
    destruct f1 as [t1|id1], f2 as [t2|id2].
    + (* both terminals: nothing is assigned *)
      rewrite K1 in X1. rewrite K2 in X2. injection X1 as <-. injection X2 as <-. apply R.
    + exfalso. destruct K2 as [nd [_ [_ [_ [En2 _]]]]]. simpl in Er. rewrite En2 in Er.
      pose proof (wf_level s2 (to_wf s2 B2) id2 nd En2). lia.
    + exfalso. destruct K1 as [nd [_ [_ [_ [En1 _]]]]]. simpl in Er. rewrite En1 in Er.
      pose proof (wf_level s1 (to_wf s1 B1) id1 nd En1). lia.
    + destruct K1 as [n1 [t1 [u1 [e1 [En1 [Ec1 [Dt1 [Du1 [De1 _]]]]]]]]].
      destruct K2 as [n2 [t2 [u2 [e2 [En2 [Ec2 [Dt2 [Du2 [De2 _]]]]]]]]].
      rewrite Ec1 in X1. rewrite Ec2 in X2. injection X1 as <-. injection X2 as <-. simpl t_s.
      assert (Elv : nlevel n1 = nlevel n2) by (simpl in Er; rewrite En1, En2 in Er; exact Er).
      rewrite <- Elv in Dt2, Du2, De2.
      unfold slot_rel. rewrite !tslot_put3.
      destruct (N.eqb x de).
      { intros av. rewrite (tfun_of_put3 s1 _ _ _ _ _ _ e1 av B1 (proj1 Dt1) (proj1 Du1) (proj1 De1)),
                           (tfun_of_put3 s2 _ _ _ _ _ _ e2 av B2 (proj1 Dt2) (proj1 Du2) (proj1 De2)).
        apply (den_tfun_eq s1 s2 e1 e2 _ El De1 De2). }
      destruct (N.eqb x du).
      { intros av. rewrite (tfun_of_put3 s1 _ _ _ _ _ _ u1 av B1 (proj1 Dt1) (proj1 Du1) (proj1 Du1)),
                           (tfun_of_put3 s2 _ _ _ _ _ _ u2 av B2 (proj1 Dt2) (proj1 Du2) (proj1 Du2)).
        apply (den_tfun_eq s1 s2 u1 u2 _ El Du1 Du2). }
      destruct (N.eqb x dt).
      { intros av. rewrite (tfun_of_put3 s1 _ _ _ _ _ _ t1 av B1 (proj1 Dt1) (proj1 Du1) (proj1 Dt1)),
                           (tfun_of_put3 s2 _ _ _ _ _ _ t2 av B2 (proj1 Dt2) (proj1 Du2) (proj1 Dt2)).
        apply (den_tfun_eq s1 s2 t1 t2 _ El Dt1 Dt2). }
      pose proof (R x) as Rx. unfold slot_rel in Rx.
      destruct (tslot s1 x) as [r1|] eqn:S1, (tslot s2 x) as [r2|] eqn:S2; auto.
      intros av. rewrite (tfun_of_put3 s1 _ _ _ _ _ _ r1 av B1 (proj1 Dt1) (proj1 Du1) (tslot_ok s1 x r1 B1 S1)),
                         (tfun_of_put3 s2 _ _ _ _ _ _ r2 av B2 (proj1 Dt2) (proj1 Du2) (tslot_ok s2 x r2 B2 S2)).
      apply Rx.
  - (* TClone *)
    apply (sim_assemble st1 st1' st2 st2' _ S I1' I2' F1 F2 Po1 Po2). intros x [<-|[]].
    simpl in P1. destruct (occupied_slot _ _ P1) as [f1 Sf1].
    destruct (slot_rel_some _ _ a f1 (R a) Sf1) as [f2 [Sf2 Af]].
    simpl in Po1, Po2. rewrite Sf1 in Po1. rewrite Sf2 in Po2.
    apply (slot_rel_intro _ _ _ f1 f2 Po1 Po2). intros av.
    destruct F1 as [_ [G1 _]], F2 as [_ [G2 _]].
    rewrite (proj2 (G1 a f1 Sf1) av), (proj2 (G2 a f2 Sf2) av). apply Af.
  - (* TDrop *)
    apply (sim_assemble st1 st1' st2 st2' _ S I1' I2' F1 F2 Po1 Po2). intros x [<-|[]].
    simpl in Po1, Po2. unfold slot_rel. rewrite Po1, Po2. exact I.
  - apply (sim_assemble st1 st1' st2 st2' _ S I1' I2' F1 F2 Po1 Po2). intros x [].
  - apply (sim_assemble st1 st1' st2 st2' _ S I1' I2' F1 F2 Po1 Po2). intros x [].
Qed.

Theorem tsim_init : forall n, tsim (tinit C1 ce1 n) (tinit C2 ce2 n).
Proof.
  intros n. split; [apply (tinit_inv C1 cget1 ce1 E1)|]. split; [apply (tinit_inv C2 cget2 ce2 E2)|].
  split; [reflexivity|]. split; [reflexivity|]. intros x. exact I.
Qed.

(** the same call list: the first run gets through (all its requests are well-formed) iff the
    second does, and the final states are related *)
Theorem tsim_run : forall ops st1 st2, tsim st1 st2 ->
  tops_pre_b gt1 C1 cget1 cadd1 ce1 st1 ops = true ->
  exists st1' st2', run1 st1 ops = Some st1' /\ run2 st2 ops = Some st2' /\ tsim st1' st2' /\
                    tops_pre_b gt2 C2 cget2 cadd2 ce2 st2 ops = true.
Proof.
  induction ops as [|o r IH]; intros st1 st2 S P; simpl in *.
  - exists st1, st2. auto.
  - apply andb_true_iff in P. destruct P as [Po Pr].
    destruct (tsim_step st1 st2 o S Po) as [a1 [a2 [X1 [X2 S']]]]. rewrite X1 in *. rewrite X2.
    destruct (IH a1 a2 S' Pr) as [b1 [b2 [Y1 [Y2 [S'' Pr2]]]]].
    exists b1, b2. split; [exact Y1|]. split; [exact Y2|]. split; [exact S''|].
    rewrite (tsim_pre st1 st2 o S), Po. exact Pr2.
Qed.

(** what related states have in common, in observable terms: the same occupied slots, the
    same value of every slot under every three-valued assignment of the variables, the same
    value tables, and [slot x == slot y] answers the same *)
Theorem tsim_observe : forall st1 st2, tsim st1 st2 ->
  (forall x, occupied (t_s C1 st1) x = occupied (t_s C2 st2) x) /\
  (forall x r1 r2, tslot (t_s C1 st1) x = Some r1 -> tslot (t_s C2 st2) x = Some r2 ->
     (forall av, tfun_of (t_s C1 st1) r1 av = tfun_of (t_s C2 st2) r2 av) /\
     td_vtable (t_s C1 st1) r1 = td_vtable (t_s C2 st2) r2) /\
  (forall x y e1 e1' e2 e2',
     hget (s_handles (t_s C1 st1)) x = Some e1 -> hget (s_handles (t_s C1 st1)) y = Some e1' ->
     hget (s_handles (t_s C2 st2)) x = Some e2 -> hget (s_handles (t_s C2 st2)) y = Some e2' ->
     (e1 = e1' <-> e2 = e2')).
Proof.
  intros st1 st2 S. pose proof S as [I1 [I2 [El [Ev R]]]].
  assert (Fn : forall x r1 r2, tslot (t_s C1 st1) x = Some r1 -> tslot (t_s C2 st2) x = Some r2 ->
                forall av, tfun_of (t_s C1 st1) r1 av = tfun_of (t_s C2 st2) r2 av).
  { intros x r1 r2 S1 S2. pose proof (R x) as Rx. unfold slot_rel in Rx. rewrite S1, S2 in Rx. exact Rx. }
  split; [intros x; apply (tsim_occupied st1 st2 x S)|]. split.
  - intros x r1 r2 S1 S2. split; [apply (Fn x r1 r2 S1 S2)|].
    unfold td_vtable. assert (En : nlevels (t_s C1 st1) = nlevels (t_s C2 st2)) by (apply (tsim_nlevels st1 st2 S)).
    rewrite En. apply map_ext. intros av.
    rewrite (td_value_tfun _ r1 (proj1 I1) (tslot_ok _ x r1 (proj1 I1) S1)),
            (td_value_tfun _ r2 (proj1 I2) (tslot_ok _ x r2 (proj1 I2) S2)), (Fn x r1 r2 S1 S2). reflexivity.
  - intros x y e1 e1' e2 e2' H1 H1' H2 H2'.
    rewrite (tinv_canonical C1 cget1 st1 I1 x y e1 e1' H1 H1'), (tinv_canonical C2 cget2 st2 I2 x y e2 e2' H2 H2').
    assert (Sx1 : tslot (t_s C1 st1) x = Some (eref e1)) by (unfold tslot; rewrite H1; reflexivity).
    assert (Sy1 : tslot (t_s C1 st1) y = Some (eref e1')) by (unfold tslot; rewrite H1'; reflexivity).
    assert (Sx2 : tslot (t_s C2 st2) x = Some (eref e2)) by (unfold tslot; rewrite H2; reflexivity).
    assert (Sy2 : tslot (t_s C2 st2) y = Some (eref e2')) by (unfold tslot; rewrite H2'; reflexivity).
    split; intros A av.
    + rewrite <- (Fn x _ _ Sx1 Sx2 av), <- (Fn y _ _ Sy1 Sy2 av). apply A.
    + rewrite (Fn x _ _ Sx1 Sx2 av), (Fn y _ _ Sy1 Sy2 av). apply A.
Qed.

(** histories from fresh managers *)
Theorem thist_config_independent : forall n ops,
  tops_pre_b gt1 C1 cget1 cadd1 ce1 (tinit C1 ce1 n) ops = true ->
  exists st1 st2, run1 (tinit C1 ce1 n) ops = Some st1 /\ run2 (tinit C2 ce2 n) ops = Some st2 /\ tsim st1 st2.
Proof.
  intros n ops P. destruct (tsim_run ops _ _ (tsim_init n) P) as [a [b [X1 [X2 [S _]]]]]. exists a, b. auto.
Qed.

End Sim.

(** instance: the direct-mapped, lossy cache of oxidd-cache (DD/Cache.v) with ANY hash function,
    bucket count and capacity (1, 2, 16, 65536, ...; a collection resets it) against a manager
    without apply cache: the same histories get through and the final states are related *)
Theorem thist_dm_cache_transparent : forall (gt1 gt2 : ref -> ref -> bool) (hash : dm_key -> N) nb cap n ops,
  tops_pre_b gt1 dm_cache (dmr_get hash) (dmr_add hash) (dm_init nb cap) (tinit dm_cache (dm_init nb cap) n) ops = true ->
  exists st1 st2,
    trun gt1 dm_cache (dmr_get hash) (dmr_add hash) (dm_init nb cap) (tinit dm_cache (dm_init nb cap) n) ops = Some st1 /\
    trun gt2 unit nc_get nc_add tt (tinit unit tt n) ops = Some st2 /\
    tsim dm_cache unit (dmr_get hash) nc_get st1 st2.
Proof.
  intros gt1 gt2 hash nb cap n ops P.
  apply (thist_config_independent gt1 gt2 dm_cache unit (dmr_get hash) (dmr_add hash) nc_get nc_add
           (dm_init nb cap) tt (dmr_lossy hash) nc_lossy (dmr_get_init hash nb cap) (fun _ _ => eq_refl) n ops P).
Qed.
