(** * C05 — the reference-counted terminals of MTBDDs: the dynamic terminal manager
      (executable definitions only, no proofs)

    Mirrors /repo/crates/oxidd-manager-index/src/terminal_manager/dynamic.rs
    (`DynamicTerminalManager`) and the places of
    /repo/crates/oxidd-manager-index/src/manager.rs that call it:

      [tinit cap]            `with_capacity`: `cap` = min(TERMINALS, capacity) empty slots,
                             slot i holds `next_free = i + 1`, `state.next_free = 0`, the
                             unique table is empty.  The free chain (`state.next_free`, then
                             the `next_free` fields of the empty slots, end marker
                             `store.len()`) is the list [ts_free]: head = `state.next_free`,
                             [] = "`next_free == store.len()`".
      [tstep _ (TGet tid v)] `get_edge(terminal)` under the state mutex
                             (`Manager::get_terminal`; the MTBDD rules
                             crates/oxidd-rules-mtbdd/src/lib.rs call it for every computed
                             terminal value): `find_or_find_insert_slot(hash, value == terminal)`
                             = [tfind_val];
                             found:     `retain(id)` (count + 1), the id is returned;
                             not found: `id = next_free`; `id == store.len()` => `Err(OutOfMemory)`,
                                        nothing changes; otherwise the slot is popped from the
                                        free chain and written with `rc = 2` (= the unique
                                        table's reference + the returned edge: [trc] = 1) and
                                        the id is inserted into the unique table.
      [tstep _ (TIn (ARetain tid e))]   for a terminal edge: `Store::clone_edge` ->
                             `terminal_manager.retain(id)` (atomic count + 1) of an edge the
                             thread can borrow ([t_can_borrow_b]: some thread owns an edge to
                             the terminal, or it is a child edge of an inner node reachable
                             from an owned edge)
      [tstep _ (TIn (ARelease tid e))]  for a terminal edge: `Store::drop_edge` ->
                             `terminal_manager.release(id)` (atomic count - 1)
      [tstep _ (TIn (AMove ..))]        an owned edge value is handed to another thread
      [tstep _ (TIn (AGoi ..))]         `LevelViewSet::get_or_insert` as in Mgr/Conc.v; in addition
                             the caller hands over ONE OWNED EDGE PER CHILD, also for terminal
                             children ([t_take_toks]): if the node is found, `drop(node)` =
                             `drop_with(|e| store.drop_edge(e))` releases them ([t_dec_children]);
                             if it is new, they are moved into the node (they become parent
                             edges, counts unchanged)
      [tstep _ (TIn (AGcNode id))]      one iteration of `retain` in `LevelViewSet::gc` as in
                             Mgr/Conc.v; `free_slot` = `drop_with(drop_edge)` also releases the
                             terminal children of the freed node ([t_dec_children])
      [tstep _ (TIterItem tid x)]       one `next()` of `DynamicTerminalIterator` (the iterator holds
                             the state mutex): the next id of the unique table is `retain`ed
                             and yielded as an OWNED edge; [titer_ids] = the ids a complete
                             iteration yields, [tlen] = `len()` = `unique_table.len()`
      [tstep _ (TGcTerm x)]  one iteration of `unique_table.retain(..)` in
                             `DynamicTerminalManager::gc`: the entry is dropped iff
                             `rc.load(Acquire) == 1` (only the table's reference: [trc] = 0);
                             then the value is dropped and the slot is pushed onto the free
                             chain (`slot.next_free = next_free; next_free = id`)
      [tgc_in s ord]         `DynamicTerminalManager::gc`: the entries visited in the order [ord]
                             (the hash table's slot order, which the model does not fix:
                             theorems hold for every [ord] that covers the stored ids);
                             [tgc] = the order of the model's list; [tgc_count] = return value
      [tcollect]             `Manager::gc`: `for level in &self.unique_table { level.gc(store) }`
                             (top-down, [tcollect_inner] = `collect` of Mgr/ConcGc.v with the
                             terminal releases) and then `store.terminal_manager.gc()`.

    [trc] is the count WITHOUT the unique table's own reference (stored value - 1), like
    [crc] of Mgr/Conc.v.  A terminal value (`T: Eq + Hash`) is represented by a code in [N]
    (equality of codes = `Eq`); hashing is abstracted to "first entry with an equal value".
    One [tact] is one atomic action: `get_edge`, the iterator and `gc` run under the state
    mutex, retain/release are single atomic read-modify-write operations that may run in
    parallel with a collection.  Interleaving [TGcTerm] with every other action (also with
    [TGet], which the mutex excludes) only adds behaviours.

    Not in the model: the overflow guard of `retain` (abort above u32::MAX/2), memory
    ordering (Release on decrement / Acquire in gc), the apply cache (its entries are
    not counted and are cleared by `pre_gc`). *)

From Coq Require Import List NArith PArith Bool Arith.
From OxiVerif Require Import DD.Table Mgr.Conc Mgr.ConcGc.
Import ListNotations.

(** a stored terminal: value code and reference count (table's reference excluded) *)
Record tnode := mkT { tval : N; trc : N }.

(** the unique table of the terminal manager, id |-> node; the list order stands for the
    slot order of the hash table *)
Definition ttable := list (N * tnode).

(** [ts_c]: inner nodes and the owned INNER edges (Mgr/Conc.v); [ts_tt]: stored terminals;
    [ts_free]: the free chain; [ts_own]: multiset of the owned TERMINAL edges (thread, id) *)
Record tst := mkTst { ts_c : cst; ts_tt : ttable; ts_free : list N; ts_own : list (nat * N) }.

(** `with_capacity` *)
Definition tinit (cap : nat) : tst := mkTst cempty [] (map N.of_nat (seq 0 cap)) [].

Inductive tact :=
| TIn (a : act)
| TGet (tid : nat) (v : N)
| TIterItem (tid : nat) (x : N)
| TGcTerm (x : N).

Inductive tres :=
| TRnone
| TRnode (id : positive)
| TRterm (x : N)
| TRoom.

Definition tres_of (r : option positive) : tres :=
  match r with Some id => TRnode id | None => TRnone end.

(** `get_terminal(id)` *)
Fixpoint tfind (t : ttable) (x : N) : option tnode :=
  match t with
  | [] => None
  | (i, nd) :: r => if N.eqb i x then Some nd else tfind r x
  end.

(** `find_or_find_insert_slot(hash, |id| store[id].value == terminal)` *)
Fixpoint tfind_val (t : ttable) (v : N) : option N :=
  match t with
  | [] => None
  | (i, nd) :: r => if N.eqb (tval nd) v then Some i else tfind_val r v
  end.

(** atomic read-modify-write of the count of terminal [x] *)
Fixpoint t_upd (f : N -> N) (x : N) (t : ttable) : ttable :=
  match t with
  | [] => []
  | (i, nd) :: r =>
    if N.eqb i x then (i, mkT (tval nd) (f (trc nd))) :: r else (i, nd) :: t_upd f x r
  end.

Definition t_inc := t_upd N.succ.
Definition t_dec := t_upd N.pred.

(** `Store::drop_edge` on a terminal edge; inner edges are handled by Mgr/Conc.v *)
Definition t_dec_ref (t : ttable) (r : ref) : ttable :=
  match r with
  | RT x => t_dec x t
  | RN _ => t
  end.

(** the terminal part of `node.drop_with(|e| store.drop_edge(e))` *)
Fixpoint t_dec_children (t : ttable) (ch : list edge) : ttable :=
  match ch with
  | [] => t
  | e :: r => t_dec_children (t_dec_ref t (eref e)) r
  end.

(** removal of the entry of [x] from the unique table *)
Fixpoint tremove (x : N) (t : ttable) : ttable :=
  match t with
  | [] => []
  | (i, nd) :: r => if N.eqb i x then r else (i, nd) :: tremove x r
  end.

(** the static view that Mgr/Conc.v takes of the terminals: id |-> value code *)
Definition tterms (t : ttable) : list (N * N) := map (fun p => (fst p, tval (snd p))) t.

(** `len()` and the ids a complete iteration yields *)
Definition tlen (s : tst) : nat := length (ts_tt s).
Definition titer_ids (s : tst) : list N := map fst (ts_tt s).

(** ** counting *)

Definition t_points_to (x : N) (e : edge) : bool :=
  match eref e with
  | RT y => N.eqb y x
  | RN _ => false
  end.

(** number of edges of [ch] that point to the terminal [x] *)
Fixpoint tcnt (x : N) (ch : list edge) : nat :=
  match ch with
  | [] => 0
  | e :: r => (if t_points_to x e then 1 else 0) + tcnt x r
  end.

(** number of child edges of stored inner nodes that point to the terminal [x] *)
Fixpoint tparents (t : ctable) (x : N) : nat :=
  match t with
  | [] => 0
  | (_, nd) :: r => tcnt x (cch nd) + tparents r x
  end.

(** number of owned terminal edges (of any thread) that point to [x] *)
Fixpoint towners (own : list (nat * N)) (x : N) : nat :=
  match own with
  | [] => 0
  | o :: r => (if N.eqb (snd o) x then 1 else 0) + towners r x
  end.

(** ** ownership tokens of terminal edges *)

Definition ttok_eqb (a b : nat * N) : bool := Nat.eqb (fst a) (fst b) && N.eqb (snd a) (snd b).

Fixpoint t_take_tok (x : nat * N) (own : list (nat * N)) : option (list (nat * N)) :=
  match own with
  | [] => None
  | y :: r =>
    if ttok_eqb x y then Some r
    else match t_take_tok x r with Some r' => Some (y :: r') | None => None end
  end.

(** one token per TERMINAL child edge (the inner ones are taken by [take_toks] of Conc.v) *)
Fixpoint t_take_toks (tid : nat) (ch : list edge) (own : list (nat * N)) : option (list (nat * N)) :=
  match ch with
  | [] => Some own
  | e :: r =>
    match eref e with
    | RN _ => t_take_toks tid r own
    | RT x =>
      match t_take_tok (tid, x) own with
      | None => None
      | Some own' => t_take_toks tid r own'
      end
    end
  end.

Section Model.
Variable k : kind.
Variable nl : nat.                 (* number of levels *)

(** an edge to the terminal [x] can be borrowed: some thread owns one, or it is a child
    edge of an inner node reachable from an owned inner edge *)
Definition t_can_borrow_b (s : tst) (e : edge) (x : N) : bool :=
  existsb (fun o => N.eqb (snd o) x) (ts_own s) || can_borrow_b nl (ts_c s) e.

Definition with_c (s : tst) (c : cst) : tst := mkTst c (ts_tt s) (ts_free s) (ts_own s).

(** an action of Mgr/Conc.v that does not touch a terminal count *)
Definition inner_step (s : tst) (a : act) : option (tst * tres) :=
  match step k (tterms (ts_tt s)) nl (ts_c s) a with
  | Some (c', r) => Some (with_c s c', tres_of r)
  | None => None
  end.

(** one atomic action; [None] = not enabled *)
Definition tstep (s : tst) (a : tact) : option (tst * tres) :=
  match a with
  | TIn (AGoi tid lvl ch fresh) =>
    match step k (tterms (ts_tt s)) nl (ts_c s) (AGoi tid lvl ch fresh) with
    | None => None
    | Some (c', r) =>
      match t_take_toks tid ch (ts_own s) with
      | None => None
      | Some own' =>
        let tt' := match find_shape (cn (ts_c s)) lvl ch with
                   | Some _ => t_dec_children (ts_tt s) ch
                   | None => ts_tt s
                   end in
        Some (mkTst c' tt' (ts_free s) own', tres_of r)
      end
    end
  | TIn (ARetain tid e) =>
    match eref e with
    | RN _ => inner_step s (ARetain tid e)
    | RT x =>
      if t_can_borrow_b s e x
      then Some (mkTst (ts_c s) (t_inc x (ts_tt s)) (ts_free s) ((tid, x) :: ts_own s), TRnone)
      else None
    end
  | TIn (ARelease tid e) =>
    match eref e with
    | RN _ => inner_step s (ARelease tid e)
    | RT x =>
      match t_take_tok (tid, x) (ts_own s) with
      | None => None
      | Some own' => Some (mkTst (ts_c s) (t_dec x (ts_tt s)) (ts_free s) own', TRnone)
      end
    end
  | TIn (AMove tid tid' e) =>
    match eref e with
    | RN _ => inner_step s (AMove tid tid' e)
    | RT x =>
      match t_take_tok (tid, x) (ts_own s) with
      | None => None
      | Some own' => Some (mkTst (ts_c s) (ts_tt s) (ts_free s) ((tid', x) :: own'), TRnone)
      end
    end
  | TIn (ANot tid e) => inner_step s (ANot tid e)
  | TIn (AGcNode id) =>
    match step k (tterms (ts_tt s)) nl (ts_c s) (AGcNode id) with
    | None => None
    | Some (c', _) =>
      match cfind (cn (ts_c s)) id with
      | None => None
      | Some nd => Some (mkTst c' (t_dec_children (ts_tt s) (cch nd)) (ts_free s) (ts_own s), TRnone)
      end
    end
  | TGet tid v =>
    match tfind_val (ts_tt s) v with
    | Some x =>
      Some (mkTst (ts_c s) (t_inc x (ts_tt s)) (ts_free s) ((tid, x) :: ts_own s), TRterm x)
    | None =>
      match ts_free s with
      | [] => Some (s, TRoom)
      | x :: fr =>
        Some (mkTst (ts_c s) ((x, mkT v 1%N) :: ts_tt s) fr ((tid, x) :: ts_own s), TRterm x)
      end
    end
  | TIterItem tid x =>
    match tfind (ts_tt s) x with
    | None => None
    | Some _ =>
      Some (mkTst (ts_c s) (t_inc x (ts_tt s)) (ts_free s) ((tid, x) :: ts_own s), TRterm x)
    end
  | TGcTerm x =>
    match tfind (ts_tt s) x with
    | None => None
    | Some nd =>
      if N.eqb (trc nd) 0
      then Some (mkTst (ts_c s) (tremove x (ts_tt s)) (x :: ts_free s) (ts_own s), TRnone)
      else None
    end
  end.

(** a schedule = any list of actions of any threads and of the collector *)
Fixpoint trun (s : tst) (sched : list tact) : option tst :=
  match sched with
  | [] => Some s
  | a :: r =>
    match tstep s a with
    | None => None
    | Some (s', _) => trun s' r
    end
  end.

(** ** whole collections *)

(** one iteration of `retain` in `LevelViewSet::gc` (with the terminal releases) *)
Definition tgc_node_try (s : tst) (id : positive) : tst :=
  match tstep s (TIn (AGcNode id)) with
  | Some (s', _) => s'
  | None => s
  end.

Definition tgc_level (s : tst) (l : nat) : tst :=
  fold_left tgc_node_try (ids_at_level (cn (ts_c s)) l) s.

(** the loop over the levels in `Manager::gc` *)
Definition tcollect_inner (s : tst) : tst := fold_left tgc_level (seq 0 nl) s.

(** one iteration of `retain` in `DynamicTerminalManager::gc` *)
Definition tgc_term_try (s : tst) (x : N) : tst :=
  match tstep s (TGcTerm x) with
  | Some (s', _) => s'
  | None => s
  end.

(** `DynamicTerminalManager::gc`, entries visited in the order [ord] *)
Definition tgc_in (s : tst) (ord : list N) : tst := fold_left tgc_term_try ord s.

Definition tgc (s : tst) : tst := tgc_in s (map fst (ts_tt s)).

(** its return value: the number of collected terminals *)
Definition tgc_count (s : tst) : nat := length (ts_tt s) - length (ts_tt (tgc s)).

(** `Manager::gc` *)
Definition tcollect (s : tst) : tst := tgc (tcollect_inner s).

(** its return value: `collected += level.len()` before - after, per level, then
    `collected += store.terminal_manager.gc()` *)
Definition tcollect_count (s : tst) : nat :=
  (length (cn (ts_c s)) - length (cn (ts_c (tcollect_inner s)))) + tgc_count (tcollect_inner s).

(** histories: actions of the threads interleaved with whole collections *)
Inductive thact :=
| THAct (a : tact)
| THCollect.

Definition thstep (s : tst) (h : thact) : option tst :=
  match h with
  | THAct a => match tstep s a with Some (s', _) => Some s' | None => None end
  | THCollect => Some (tcollect s)
  end.

Fixpoint thrun (s : tst) (hist : list thact) : option tst :=
  match hist with
  | [] => Some s
  | h :: r => match thstep s h with Some s' => thrun s' r | None => None end
  end.

(** ** executable form of the terminal clauses of the invariant [MInv] of
       Mgr/TerminalsProofs.v (the inner-node clauses are [cinv_b] of Mgr/Conc.v) *)

Fixpoint nodup_N_b (l : list N) : bool :=
  match l with
  | [] => true
  | x :: r => negb (existsb (N.eqb x) r) && nodup_N_b r
  end.

Definition minv_b (cap : nat) (s : tst) : bool :=
  let c := N.of_nat cap in
  cinv_b k (tterms (ts_tt s)) nl (ts_c s)
  && nodup_N_b (map (fun p => tval (snd p)) (ts_tt s))
  && nodup_N_b (map fst (ts_tt s) ++ ts_free s)
  && forallb (fun x => N.ltb x c) (map fst (ts_tt s) ++ ts_free s)
  && Nat.eqb (length (ts_tt s) + length (ts_free s)) cap
  && forallb (fun o => match tfind (ts_tt s) (snd o) with Some _ => true | None => false end) (ts_own s)
  && forallb (fun o => match eref (snd o) with RN _ => true | RT _ => false end) (cown (ts_c s))
  && forallb (fun p => N.eqb (trc (snd p))
                             (N.of_nat (towners (ts_own s) (fst p) + tparents (cn (ts_c s)) (fst p))))
             (ts_tt s).

End Model.

(** ** replay on a lifted snapshot (driver ocaml/tmgr.ml)

    [lift_tt terms handles nodes]: the terminal table of a snapshot with the counts the
    invariant prescribes (handles + parent edges); [gc_survivors]: the ids that
    `DynamicTerminalManager::gc` keeps in a table; [get_outcome]: what `get_edge(v)` does
    with a table: [Some x] = the live terminal [x] is returned, [None] = a slot is taken
    from the free chain. *)

Definition lift_tt (terms : list (N * N)) (own : list (nat * N)) (t : ctable) : ttable :=
  map (fun p => (fst p, mkT (snd p) (N.of_nat (towners own (fst p) + tparents t (fst p))))) terms.

Definition lift_own (handles : list (nat * edge)) : list (nat * N) :=
  flat_map (fun h => match eref (snd h) with RT x => [(fst h, x)] | RN _ => [] end) handles.

Definition lift_cown (handles : list (nat * edge)) : list (nat * edge) :=
  filter (fun h => match eref (snd h) with RN _ => true | RT _ => false end) handles.

(** a free chain for a lifted table: the slots of [0, cap) that are not in use (the real
    chain's order is not observable; only its length and its disjointness from the ids
    matter for the replayed observables) *)
Definition free_of (cap : nat) (tt : ttable) : list N :=
  let ids := map fst tt in
  filter (fun x => negb (existsb (N.eqb x) ids)) (map N.of_nat (seq 0 cap)).

Definition lift_st (t : ctable) (terms : list (N * N)) (handles : list (nat * edge)) (cap : nat) : tst :=
  let own := lift_own handles in
  let tt := lift_tt terms own t in
  mkTst (mkCst t (lift_cown handles)) tt (free_of cap tt) own.

(** ids of the terminals / inner nodes that `Manager::gc` keeps *)
Definition collect_term_survivors (k : kind) (nl : nat) (s : tst) : list N :=
  map fst (ts_tt (tcollect k nl s)).
Definition collect_node_survivors (k : kind) (nl : nat) (s : tst) : list positive :=
  map fst (cn (ts_c (tcollect k nl s))).
Definition gc_survivors (k : kind) (nl : nat) (s : tst) : list N := map fst (ts_tt (tgc k nl s)).

Definition get_outcome (s : tst) (v : N) : option N := tfind_val (ts_tt s) v.
