(** * C05 — basic lemmas about the terminal table of Mgr/Terminals.v
      (lookup, count updates, removal, counting of parent edges and owner tokens) *)

From Coq Require Import List NArith PArith Bool Arith Lia Permutation.
From OxiVerif Require Import DD.Table Mgr.Conc Mgr.ConcBase Mgr.Terminals.
Import ListNotations.

Arguments N.add : simpl never.
Arguments N.sub : simpl never.
Arguments N.mul : simpl never.

(** ** lookup *)

Lemma tfind_In : forall t x nd, tfind t x = Some nd -> In (x, nd) t.
Proof.
  induction t as [|[i n] r IH]; intros x nd H; simpl in H; [discriminate|].
  destruct (N.eqb i x) eqn:E.
  - apply N.eqb_eq in E. subst. inversion H; subst. left. reflexivity.
  - right. apply IH. exact H.
Qed.

Lemma tfind_None_keys : forall t x, tfind t x = None <-> ~ In x (map fst t).
Proof.
  induction t as [|[i n] r IH]; intros x; simpl.
  - split; [intros _ []|reflexivity].
  - destruct (N.eqb i x) eqn:E.
    + apply N.eqb_eq in E. subst. split; [discriminate|]. intros H. exfalso. apply H. left. reflexivity.
    + apply N.eqb_neq in E. rewrite IH. split.
      * intros H [H1|H1]; [congruence | exact (H H1)].
      * intros H H1. apply H. right. exact H1.
Qed.

Lemma tfind_Some_keys : forall t x nd, tfind t x = Some nd -> In x (map fst t).
Proof. intros t x nd H. apply tfind_In in H. apply (in_map fst) in H. exact H. Qed.

Lemma keys_tfind_Some : forall t x, In x (map fst t) -> exists nd, tfind t x = Some nd.
Proof.
  intros t x H. destruct (tfind t x) as [nd|] eqn:F; [exists nd; reflexivity|].
  apply tfind_None_keys in F. contradiction.
Qed.

Lemma In_tfind : forall t x nd, NoDup (map fst t) -> In (x, nd) t -> tfind t x = Some nd.
Proof.
  induction t as [|[i n] r IH]; intros x nd Hnd Hin; simpl in *; [contradiction|].
  inversion Hnd as [|? ? Hni Hnd']; subst.
  destruct Hin as [Hin|Hin].
  - inversion Hin; subst. rewrite N.eqb_refl. reflexivity.
  - destruct (N.eqb i x) eqn:E.
    + apply N.eqb_eq in E. subst. exfalso. apply Hni. apply (in_map fst) in Hin. exact Hin.
    + apply IH; assumption.
Qed.

(** ** count updates *)

Lemma tfind_t_upd : forall f x t y,
  tfind (t_upd f x t) y =
  if N.eqb x y then match tfind t y with Some nd => Some (mkT (tval nd) (f (trc nd))) | None => None end
  else tfind t y.
Proof.
  induction t as [|[i n] r IH]; intros y; simpl.
  - destruct (N.eqb x y); reflexivity.
  - destruct (N.eqb i x) eqn:E; simpl.
    + apply N.eqb_eq in E. subst i. destruct (N.eqb x y) eqn:E2; reflexivity.
    + destruct (N.eqb i y) eqn:E2.
      * apply N.eqb_eq in E2. subst i. rewrite N.eqb_sym, E. reflexivity.
      * apply IH.
Qed.

Lemma keys_t_upd : forall f x t, map fst (t_upd f x t) = map fst t.
Proof.
  induction t as [|[i n] r IH]; simpl; [reflexivity|].
  destruct (N.eqb i x); simpl; [reflexivity|]. rewrite IH. reflexivity.
Qed.

Lemma vals_t_upd : forall f x t,
  map (fun p => tval (snd p)) (t_upd f x t) = map (fun p => tval (snd p)) t.
Proof.
  induction t as [|[i n] r IH]; simpl; [reflexivity|].
  destruct (N.eqb i x); simpl; [reflexivity|]. rewrite IH. reflexivity.
Qed.

Lemma tterms_t_upd : forall f x t, tterms (t_upd f x t) = tterms t.
Proof.
  unfold tterms. induction t as [|[i n] r IH]; simpl; [reflexivity|].
  destruct (N.eqb i x); simpl; [reflexivity|]. rewrite IH. reflexivity.
Qed.

Lemma length_t_upd : forall f x t, length (t_upd f x t) = length t.
Proof. intros. rewrite <- (map_length fst), keys_t_upd, map_length. reflexivity. Qed.

Lemma tfind_val_t_upd : forall f x t v, tfind_val (t_upd f x t) v = tfind_val t v.
Proof.
  induction t as [|[i n] r IH]; intros v; simpl; [reflexivity|].
  destruct (N.eqb i x); simpl; [reflexivity|]. rewrite IH. reflexivity.
Qed.

Lemma t_upd_upd_id : forall f g x t, (forall n, g (f n) = n) -> t_upd g x (t_upd f x t) = t.
Proof.
  intros f g x t Hfg. induction t as [|[i n] r IH]; simpl; [reflexivity|].
  destruct (N.eqb i x) eqn:E; simpl; rewrite E.
  - simpl. rewrite Hfg. destruct n; reflexivity.
  - rewrite IH. reflexivity.
Qed.

Lemma t_dec_inc : forall x t, t_dec x (t_inc x t) = t.
Proof. intros. apply t_upd_upd_id. intros n. apply N.pred_succ. Qed.

Lemma keys_t_dec_children : forall ch t, map fst (t_dec_children t ch) = map fst t.
Proof.
  induction ch as [|e r IH]; intros t; simpl; [reflexivity|].
  rewrite IH. destruct (eref e); simpl; [apply keys_t_upd|reflexivity].
Qed.

Lemma vals_t_dec_children : forall ch t,
  map (fun p => tval (snd p)) (t_dec_children t ch) = map (fun p => tval (snd p)) t.
Proof.
  induction ch as [|e r IH]; intros t; simpl; [reflexivity|].
  rewrite IH. destruct (eref e); simpl; [apply vals_t_upd|reflexivity].
Qed.

Lemma tterms_t_dec_children : forall ch t, tterms (t_dec_children t ch) = tterms t.
Proof.
  induction ch as [|e r IH]; intros t; simpl; [reflexivity|].
  rewrite IH. destruct (eref e); simpl; [apply tterms_t_upd|reflexivity].
Qed.

Lemma tfind_val_t_dec_children : forall ch t v, tfind_val (t_dec_children t ch) v = tfind_val t v.
Proof.
  induction ch as [|e r IH]; intros t v; simpl; [reflexivity|].
  rewrite IH. destruct (eref e); simpl; [apply tfind_val_t_upd|reflexivity].
Qed.

Lemma t_points_to_spec : forall x e, t_points_to x e = true <-> eref e = RT x.
Proof.
  intros x e. unfold t_points_to. destruct (eref e) as [y|j].
  - rewrite N.eqb_eq. split; [intros; subst; reflexivity | intros H; inversion H; reflexivity].
  - split; [discriminate | intros H; discriminate].
Qed.

(** the decrements of a child list, in one formula (saturating subtraction) *)
Lemma tfind_t_dec_children : forall ch t x,
  tfind (t_dec_children t ch) x =
  match tfind t x with
  | Some nd => Some (mkT (tval nd) (trc nd - N.of_nat (tcnt x ch)))
  | None => None
  end.
Proof.
  induction ch as [|e r IH]; intros t x; simpl.
  - destruct (tfind t x) as [[v c]|]; [|reflexivity]. simpl. f_equal. f_equal. lia.
  - rewrite IH. unfold t_points_to. destruct (eref e) as [y|j]; simpl.
    + unfold t_dec. rewrite tfind_t_upd. rewrite (N.eqb_sym y x).
      destruct (N.eqb x y) eqn:E.
      * destruct (tfind t x) as [[v c]|]; [|reflexivity]. simpl. f_equal. f_equal. lia.
      * destruct (tfind t x); reflexivity.
    + destruct (tfind t x); reflexivity.
Qed.

(** ** removal *)

Lemma tfind_tremove : forall x t y, NoDup (map fst t) ->
  tfind (tremove x t) y = if N.eqb x y then None else tfind t y.
Proof.
  induction t as [|[i n] r IH]; intros y Hnd; simpl.
  - destruct (N.eqb x y); reflexivity.
  - inversion Hnd as [|? ? Hni Hnd']; subst.
    destruct (N.eqb i x) eqn:E.
    + apply N.eqb_eq in E. subst i. destruct (N.eqb x y) eqn:E2.
      * apply N.eqb_eq in E2. subst y. apply tfind_None_keys. exact Hni.
      * reflexivity.
    + simpl. destruct (N.eqb i y) eqn:E2.
      * apply N.eqb_eq in E2. subst i. rewrite N.eqb_sym, E. reflexivity.
      * apply IH. exact Hnd'.
Qed.

Lemma tremove_keys_perm : forall x t nd, tfind t x = Some nd ->
  Permutation (map fst t) (x :: map fst (tremove x t)).
Proof.
  induction t as [|[i n] r IH]; intros nd F; simpl in *; [discriminate|].
  destruct (N.eqb i x) eqn:E.
  - apply N.eqb_eq in E. subst. apply Permutation_refl.
  - simpl. eapply perm_trans; [apply perm_skip; apply (IH nd F)|]. apply perm_swap.
Qed.

Lemma tremove_vals_incl : forall x t v,
  In v (map (fun p => tval (snd p)) (tremove x t)) -> In v (map (fun p => tval (snd p)) t).
Proof.
  induction t as [|[i n] r IH]; intros v H; simpl in *; [exact H|].
  destruct (N.eqb i x); [right; exact H|]. simpl in H. destruct H as [H|H]; [left; exact H|right; auto].
Qed.

Lemma tremove_vals_nodup : forall x t,
  NoDup (map (fun p => tval (snd p)) t) -> NoDup (map (fun p => tval (snd p)) (tremove x t)).
Proof.
  induction t as [|[i n] r IH]; intros H; simpl in *; [exact H|].
  inversion H as [|? ? Hni Hnd]; subst.
  destruct (N.eqb i x); [exact Hnd|]. simpl. constructor; [|apply IH; exact Hnd].
  intros Hin. apply Hni. apply (tremove_vals_incl x r _ Hin).
Qed.

Lemma length_tremove : forall x t nd, tfind t x = Some nd -> S (length (tremove x t)) = length t.
Proof.
  induction t as [|[i n] r IH]; intros nd F; simpl in *; [discriminate|].
  destruct (N.eqb i x); [reflexivity|]. simpl. rewrite (IH nd F). reflexivity.
Qed.

Lemma tremove_absent : forall x t, tfind t x = None -> tremove x t = t.
Proof.
  induction t as [|[i n] r IH]; intros F; simpl in *; [reflexivity|].
  destruct (N.eqb i x); [discriminate|]. rewrite (IH F). reflexivity.
Qed.

(** ** values *)

Lemma tfind_val_Some : forall t v x, tfind_val t v = Some x ->
  exists nd, In (x, nd) t /\ tval nd = v.
Proof.
  induction t as [|[i n] r IH]; intros v x H; simpl in H; [discriminate|].
  destruct (N.eqb (tval n) v) eqn:E.
  - apply N.eqb_eq in E. inversion H; subst. exists n. split; [left; reflexivity|reflexivity].
  - destruct (IH v x H) as [nd [Hin Hv]]. exists nd. split; [right; exact Hin|exact Hv].
Qed.

Lemma tfind_val_None : forall t v, tfind_val t v = None <-> ~ In v (map (fun p => tval (snd p)) t).
Proof.
  induction t as [|[i n] r IH]; intros v; simpl.
  - split; [intros _ []|reflexivity].
  - destruct (N.eqb (tval n) v) eqn:E.
    + apply N.eqb_eq in E. split; [discriminate|]. intros H. exfalso. apply H. left. exact E.
    + apply N.eqb_neq in E. rewrite IH. split.
      * intros H [H1|H1]; [contradiction | exact (H H1)].
      * intros H H1. apply H. right. exact H1.
Qed.

(** with pairwise distinct values the lookup by value finds THE entry with that value *)
Lemma tfind_val_complete : forall t v x nd,
  NoDup (map (fun p => tval (snd p)) t) -> In (x, nd) t -> tval nd = v -> tfind_val t v = Some x.
Proof.
  induction t as [|[i n] r IH]; intros v x nd Hnd Hin Hv; simpl in *; [contradiction|].
  inversion Hnd as [|? ? Hni Hnd']; subst.
  destruct Hin as [Hin|Hin].
  - inversion Hin; subst. rewrite N.eqb_refl. reflexivity.
  - destruct (N.eqb (tval n) (tval nd)) eqn:E.
    + apply N.eqb_eq in E. exfalso. apply Hni. rewrite E.
      apply (in_map (fun p => tval (snd p))) in Hin. exact Hin.
    + eapply IH; eauto.
Qed.

Lemma assoc_tterms : forall t x,
  assoc_N (tterms t) x = match tfind t x with Some nd => Some (tval nd) | None => None end.
Proof.
  unfold tterms. induction t as [|[i n] r IH]; intros x; simpl; [reflexivity|].
  destruct (N.eqb i x); [reflexivity|]. apply IH.
Qed.

(** ** counting child edges *)

Lemma tcnt_app : forall x a b, tcnt x (a ++ b) = tcnt x a + tcnt x b.
Proof. induction a as [|e r IH]; intros b; simpl; [reflexivity|]. rewrite IH. lia. Qed.

Lemma tcnt_zero_iff : forall x ch, tcnt x ch = 0 <-> forall e, In e ch -> eref e <> RT x.
Proof.
  induction ch as [|e r IH]; simpl.
  - split; [intros _ e []|reflexivity].
  - destruct (t_points_to x e) eqn:P.
    + split; [discriminate|]. intros H. exfalso. apply (H e (or_introl eq_refl)).
      apply t_points_to_spec. exact P.
    + simpl. rewrite IH. split.
      * intros H e' [He|He]; [subst e'|exact (H e' He)].
        intros Er. apply t_points_to_spec in Er. congruence.
      * intros H e' He. apply H. right. exact He.
Qed.

Lemma tcnt_pos_In : forall x ch, 0 < tcnt x ch -> exists e, In e ch /\ eref e = RT x.
Proof.
  induction ch as [|e r IH]; simpl; [lia|]. intros H.
  destruct (t_points_to x e) eqn:P.
  - exists e. split; [left; reflexivity|]. apply t_points_to_spec. exact P.
  - destruct (IH H) as [e' [He Er]]. exists e'. split; [right; exact He|exact Er].
Qed.

Lemma In_tcnt_pos : forall x ch e, In e ch -> eref e = RT x -> 0 < tcnt x ch.
Proof.
  intros x ch e He Er. destruct (tcnt x ch) eqn:C; [|lia].
  exfalso. apply (proj1 (tcnt_zero_iff x ch) C e He Er).
Qed.

Lemma tparents_zero_iff : forall t x,
  tparents t x = 0 <-> forall j nd e, In (j, nd) t -> In e (cch nd) -> eref e <> RT x.
Proof.
  induction t as [|[i n] r IH]; intros x; simpl.
  - split; [intros _ j nd e []|reflexivity].
  - split.
    + intros H j nd e [Hj|Hj] He.
      * inversion Hj; subst. apply (proj1 (tcnt_zero_iff x (cch nd))); [lia|exact He].
      * apply (proj1 (IH x)) with (j := j) (nd := nd); [lia|exact Hj|exact He].
    + intros H.
      assert (H1 : tcnt x (cch n) = 0).
      { apply tcnt_zero_iff. intros e He. apply (H i n e (or_introl eq_refl) He). }
      assert (H2 : tparents r x = 0).
      { apply IH. intros j nd e Hj He. apply (H j nd e (or_intror Hj) He). }
      lia.
Qed.

Lemma tparents_pos_In : forall t x, 0 < tparents t x ->
  exists j nd e, In (j, nd) t /\ In e (cch nd) /\ eref e = RT x.
Proof.
  induction t as [|[i n] r IH]; intros x H; simpl in H; [lia|].
  destruct (tcnt x (cch n)) eqn:C.
  - destruct (IH x) as [j [nd [e [Hj [He Er]]]]]; [lia|].
    exists j, nd, e. split; [right; exact Hj|split; assumption].
  - destruct (tcnt_pos_In x (cch n)) as [e [He Er]]; [lia|].
    exists i, n, e. split; [left; reflexivity|split; assumption].
Qed.

Lemma In_tparents_pos : forall t x j nd e, In (j, nd) t -> In e (cch nd) -> eref e = RT x ->
  0 < tparents t x.
Proof.
  intros t x j nd e Hj He Er. destruct (tparents t x) eqn:C; [|lia].
  exfalso. apply (proj1 (tparents_zero_iff t x) C j nd e Hj He Er).
Qed.

Lemma tparents_rc_upd : forall f id t x, tparents (rc_upd f id t) x = tparents t x.
Proof.
  induction t as [|[i n] r IH]; intros x; simpl; [reflexivity|].
  destruct (Pos.eqb i id); simpl; [reflexivity|]. rewrite IH. reflexivity.
Qed.

Lemma tparents_dec_children : forall ch t x, tparents (dec_children t ch) x = tparents t x.
Proof.
  induction ch as [|e r IH]; intros t x; simpl; [reflexivity|].
  rewrite IH. destruct (eref e); simpl; [reflexivity|]. apply tparents_rc_upd.
Qed.

Lemma tparents_cremove : forall id t nd x, cfind t id = Some nd ->
  tparents (cremove id t) x + tcnt x (cch nd) = tparents t x.
Proof.
  induction t as [|[i n] r IH]; intros nd x F; simpl in *; [discriminate|].
  destruct (Pos.eqb i id).
  - inversion F; subst. lia.
  - simpl. specialize (IH nd x F). lia.
Qed.

(** ** owner tokens *)

Lemma ttok_eqb_eq : forall a b, ttok_eqb a b = true <-> a = b.
Proof.
  intros [t1 x1] [t2 x2]. unfold ttok_eqb. simpl.
  rewrite andb_true_iff, Nat.eqb_eq, N.eqb_eq. split.
  - intros [H1 H2]. subst. reflexivity.
  - intros H. inversion H. auto.
Qed.

Lemma t_take_tok_owners : forall o own own' x, t_take_tok o own = Some own' ->
  towners own x = towners own' x + (if N.eqb (snd o) x then 1 else 0).
Proof.
  induction own as [|y r IH]; intros own' x H; simpl in H; [discriminate|].
  destruct (ttok_eqb o y) eqn:E.
  - apply ttok_eqb_eq in E. subst y. inversion H; subst. simpl. lia.
  - destruct (t_take_tok o r) as [r'|] eqn:T; [|discriminate]. inversion H; subst.
    simpl. rewrite (IH r' x eq_refl). lia.
Qed.

Lemma t_take_tok_In : forall o own own', t_take_tok o own = Some own' -> In o own.
Proof.
  induction own as [|y r IH]; intros own' H; simpl in H; [discriminate|].
  destruct (ttok_eqb o y) eqn:E.
  - apply ttok_eqb_eq in E. left. congruence.
  - destruct (t_take_tok o r) as [r'|] eqn:T; [|discriminate]. right. eapply IH. reflexivity.
Qed.

Lemma t_take_tok_incl : forall o own own' p, t_take_tok o own = Some own' -> In p own' -> In p own.
Proof.
  induction own as [|y r IH]; intros own' p H Hp; simpl in H; [discriminate|].
  destruct (ttok_eqb o y) eqn:E.
  - inversion H; subst. right. exact Hp.
  - destruct (t_take_tok o r) as [r'|] eqn:T; [|discriminate]. inversion H; subst.
    destruct Hp as [Hp|Hp]; [left; exact Hp|right; eapply IH; eauto].
Qed.

Lemma In_t_take_tok : forall o own, In o own -> exists own', t_take_tok o own = Some own'.
Proof.
  induction own as [|y r IH]; intros H; [destruct H|]. simpl.
  destruct (ttok_eqb o y) eqn:E; [eexists; reflexivity|].
  destruct H as [H|H]; [subst y; assert (X : ttok_eqb o o = true) by (apply ttok_eqb_eq; reflexivity); congruence|].
  destruct (IH H) as [r' Hr]. rewrite Hr. eexists; reflexivity.
Qed.

Lemma t_take_tok_other : forall o own own' p, t_take_tok o own = Some own' -> p <> o ->
  In p own -> In p own'.
Proof.
  induction own as [|y r IH]; intros own' p H Hne Hp; simpl in H; [discriminate|].
  destruct (ttok_eqb o y) eqn:E.
  - apply ttok_eqb_eq in E. subst y. inversion H; subst.
    destruct Hp as [Hp|Hp]; [congruence|exact Hp].
  - destruct (t_take_tok o r) as [r'|] eqn:T; [|discriminate]. inversion H; subst.
    destruct Hp as [Hp|Hp]; [left; exact Hp|right; eapply IH; eauto].
Qed.

Lemma t_take_toks_owners : forall tid ch own own' x, t_take_toks tid ch own = Some own' ->
  towners own x = towners own' x + tcnt x ch.
Proof.
  induction ch as [|e r IH]; intros own own' x H; simpl in H.
  - inversion H; subst. simpl. lia.
  - simpl. unfold t_points_to. destruct (eref e) as [y|j].
    + destruct (t_take_tok (tid, y) own) as [own1|] eqn:T; [|discriminate].
      rewrite (t_take_tok_owners _ _ _ x T). simpl. rewrite (IH own1 own' x H). lia.
    + rewrite (IH own own' x H). lia.
Qed.

Lemma t_take_toks_incl : forall tid ch own own' p, t_take_toks tid ch own = Some own' ->
  In p own' -> In p own.
Proof.
  induction ch as [|e r IH]; intros own own' p H Hp; simpl in H.
  - inversion H; subst. exact Hp.
  - destruct (eref e) as [y|j]; [|eapply IH; eauto].
    destruct (t_take_tok (tid, y) own) as [own1|] eqn:T; [|discriminate].
    eapply t_take_tok_incl; [exact T|]. eapply IH; eauto.
Qed.

Lemma t_take_toks_other : forall tid ch own own' p, t_take_toks tid ch own = Some own' ->
  fst p <> tid -> In p own -> In p own'.
Proof.
  induction ch as [|e r IH]; intros own own' p H Hne Hp; simpl in H.
  - inversion H; subst. exact Hp.
  - destruct (eref e) as [y|j]; [|eapply IH; eauto].
    destruct (t_take_tok (tid, y) own) as [own1|] eqn:T; [|discriminate].
    eapply IH; [exact H|exact Hne|]. eapply t_take_tok_other; [exact T| |exact Hp].
    intros Ep. subst p. apply Hne. reflexivity.
Qed.

Lemma towners_zero_iff : forall own x, towners own x = 0 <-> forall o, In o own -> snd o <> x.
Proof.
  induction own as [|y r IH]; intros x; simpl.
  - split; [intros _ o []|reflexivity].
  - destruct (N.eqb (snd y) x) eqn:E.
    + apply N.eqb_eq in E. split; [discriminate|]. intros H. exfalso. apply (H y (or_introl eq_refl) E).
    + apply N.eqb_neq in E. simpl. rewrite IH. split.
      * intros H o [Ho|Ho]; [subst; exact E|exact (H o Ho)].
      * intros H o Ho. apply H. right. exact Ho.
Qed.

Lemma towners_pos_In : forall own x, 0 < towners own x -> exists o, In o own /\ snd o = x.
Proof.
  induction own as [|y r IH]; intros x H; simpl in H; [lia|].
  destruct (N.eqb (snd y) x) eqn:E.
  - apply N.eqb_eq in E. exists y. split; [left; reflexivity|exact E].
  - destruct (IH x H) as [o [Ho Eo]]. exists o. split; [right; exact Ho|exact Eo].
Qed.

Lemma In_towners_pos : forall own x o, In o own -> snd o = x -> 0 < towners own x.
Proof.
  intros own x o Ho Eo. destruct (towners own x) eqn:C; [|lia].
  exfalso. apply (proj1 (towners_zero_iff own x) C o Ho Eo).
Qed.

Lemma towners_existsb : forall own x,
  existsb (fun o => N.eqb (snd o) x) own = true <-> 0 < towners own x.
Proof.
  intros own x. rewrite existsb_exists. split.
  - intros [o [Ho E]]. apply N.eqb_eq in E. eapply In_towners_pos; eauto.
  - intros H. destruct (towners_pos_In own x H) as [o [Ho E]]. exists o. split; [exact Ho|].
    apply N.eqb_eq. exact E.
Qed.
