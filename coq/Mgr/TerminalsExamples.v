(** * C05 — the dynamic terminal manager: a concrete history (non-vacuity of the theorems)

    MTBDD, 1 level, 3 terminal slots, threads 1 and 2:
    thread 1 creates the values 5 and 7 (slots 0, 1), thread 2 asks for 5 and gets slot 0,
    thread 1 builds the inner node (level 0, children t1 t0) from its two edges, creates 9
    (slot 2: the store is full), fails to create 11 (out of memory) and drops its edge to 9. *)

From Coq Require Import List NArith PArith Bool Arith.
From OxiVerif Require Import DD.Table Mgr.Conc Mgr.ConcGc Mgr.Terminals Mgr.TerminalsProofs
  Mgr.TerminalsThms Mgr.TerminalsGc.
Import ListNotations.

Definition xT (x : N) := mkEdge (RT x) false.
Definition xE (i : positive) := mkEdge (RN i) false.

Definition tex_sched : list tact :=
  [TGet 1 5; TGet 1 7; TGet 2 5; TIn (AGoi 1 0 [xT 1; xT 0] 1); TGet 1 9; TGet 1 11;
   TIn (ARelease 1 (xT 2))].

Definition tex_node : cnode := mkC 0 [xT 1; xT 0] 1.

Definition tex : tst :=
  mkTst (mkCst [(1%positive, tex_node)] [(1, xE 1)])
        [(2%N, mkT 9 0); (1%N, mkT 7 1); (0%N, mkT 5 2)] [] [(2, 0%N)].

Example tex_run : trun KMtbdd 1 (tinit 3) tex_sched = Some tex.
Proof. vm_compute. reflexivity. Qed.

(** the state is reachable, hence satisfies the invariant; the checker agrees *)
Example tex_inv : MInv KMtbdd 1 3 tex.
Proof. apply (treachable_inv KMtbdd 1 3 tex_sched). exact tex_run. Qed.

Example tex_inv_b : minv_b KMtbdd 1 3 tex = true.
Proof. vm_compute. reflexivity. Qed.

(** the store is full: a new value fails, a stored value is found (by any thread) *)
Example tex_oom : tstep KMtbdd 1 tex (TGet 3 11) = Some (tex, TRoom).
Proof. vm_compute. reflexivity. Qed.

Example tex_found : exists s', tstep KMtbdd 1 tex (TGet 3 7) = Some (s', TRterm 1).
Proof. eexists. vm_compute. reflexivity. Qed.

(** the collector may free t2 (count 0) and nothing else *)
Example tex_gc_enabled :
  tstep KMtbdd 1 tex (TGcTerm 0) = None /\ tstep KMtbdd 1 tex (TGcTerm 1) = None /\
  exists s', tstep KMtbdd 1 tex (TGcTerm 2) = Some (s', TRnone).
Proof. split; [|split]; try (vm_compute; reflexivity). eexists. vm_compute. reflexivity. Qed.

(** a thread can retain t1 (child of a node reachable from thread 1's handle), not t2 *)
Example tex_borrow :
  (exists s', tstep KMtbdd 1 tex (TIn (ARetain 3 (xT 1))) = Some (s', TRnone)) /\
  tstep KMtbdd 1 tex (TIn (ARetain 3 (xT 2))) = None.
Proof. split; [eexists|]; vm_compute; reflexivity. Qed.

(** `Manager::gc`: exactly t2 goes, its slot is on the free chain *)
Definition tex_after : tst :=
  mkTst (mkCst [(1%positive, tex_node)] [(1, xE 1)])
        [(1%N, mkT 7 1); (0%N, mkT 5 2)] [2%N] [(2, 0%N)].

Example tex_collect : tcollect KMtbdd 1 tex = tex_after /\ tgc_count KMtbdd 1 tex = 1.
Proof. split; vm_compute; reflexivity. Qed.

(** 9 is re-created in the collected slot as a new entry with count 1; then all handles are
    dropped (the inner node dies, its terminal children follow in the same collection):
    nothing is left and all three slots are free *)
Definition tex_hist : list thact :=
  map THAct tex_sched ++
  [THCollect; THAct (TGet 2 9); THAct (TIn (ARelease 2 (xT 0))); THAct (TIn (ARelease 1 (xE 1)));
   THAct (TIn (ARelease 2 (xT 2))); THCollect].

Example tex_all_dropped :
  thrun KMtbdd 1 (tinit 3) tex_hist = Some (mkTst cempty [] [0%N; 1%N; 2%N] []).
Proof. vm_compute. reflexivity. Qed.

Example tex_recreate : exists s',
  tstep KMtbdd 1 tex_after (TGet 2 9) = Some (s', TRterm 2) /\
  tfind (ts_tt s') 2 = Some (mkT 9 1).
Proof. eexists. split; vm_compute; reflexivity. Qed.

(** the iterator: three owned edges, dropping them restores the state *)
Example tex_iter :
  titer_ids tex = [2%N; 1%N; 0%N] /\ tlen tex = 3 /\
  trun KMtbdd 1 tex (iter_acts 4 (titer_ids tex) ++ drop_acts 4 (rev (titer_ids tex))) = Some tex.
Proof. split; [|split]; vm_compute; reflexivity. Qed.
