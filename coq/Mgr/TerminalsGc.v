(** * C05 — the dynamic terminal manager: whole collections

    [tgc_in] (`DynamicTerminalManager::gc`, any visiting order that covers the table) removes
    EXACTLY the terminals without owner and parent and keeps every other one unchanged
    ([tgc_in_spec], [tgc_exact]); its return value is the number of slots given back to the
    free chain ([tgc_count_free]).  [tcollect] (`Manager::gc`: inner levels top-down, then the
    terminals) is a schedule of collector actions ([tcollect_is_run]), its inner part is
    `collect` of Mgr/ConcGc.v ([tcollect_inner_c]); a terminal survives iff an owned terminal
    edge points to it or it is a child of an inner node reachable from an owned edge
    ([tcollect_exact]); all owner tokens are kept ([tcollect_keeps]); with all handles
    dropped nothing is left and all [cap] slots are on the free chain again
    ([tcollect_all_dropped]).  Histories ([thrun]) keep the invariant. *)

From Coq Require Import List NArith PArith Bool Arith Lia Permutation.
From OxiVerif Require Import DD.Table DD.TableProofs Mgr.Conc Mgr.ConcBase Mgr.ConcProofs Mgr.ConcSnap
  Mgr.ConcGc Mgr.ConcGcProofs Mgr.Terminals Mgr.TerminalsBase Mgr.TerminalsProofs Mgr.TerminalsThms.
Import ListNotations.

Arguments N.add : simpl never.
Arguments N.sub : simpl never.
Arguments N.mul : simpl never.

Section Gc.
Variable k : kind.
Variable nl : nat.
Variable cap : nat.

Notation MInv := (MInv k nl cap).
Notation tstep := (tstep k nl).
Notation trun := (trun k nl).
Notation tgc_term_try := (tgc_term_try k nl).
Notation tgc_in := (tgc_in k nl).
Notation tgc := (tgc k nl).
Notation tgc_node_try := (tgc_node_try k nl).
Notation tgc_level := (tgc_level k nl).
Notation tcollect_inner := (tcollect_inner k nl).
Notation tcollect := (tcollect k nl).

Definition is_tgc (a : tact) : Prop := (exists id, a = TIn (AGcNode id)) \/ (exists x, a = TGcTerm x).
Definition tgc_only (sched : list tact) : Prop := forall a, In a sched -> is_tgc a.

(** ** one iteration of the terminal manager's `retain` *)

Lemma tgc_term_try_cases : forall s x,
  (tgc_term_try s x = s /\ forall nd, tfind (ts_tt s) x = Some nd -> trc nd <> 0%N) \/
  (exists nd, tfind (ts_tt s) x = Some nd /\ trc nd = 0%N /\
              tstep s (TGcTerm x) = Some (tgc_term_try s x, TRnone) /\
              tgc_term_try s x = mkTst (ts_c s) (tremove x (ts_tt s)) (x :: ts_free s) (ts_own s)).
Proof.
  intros s x. unfold Terminals.tgc_term_try, Terminals.tstep.
  destruct (tfind (ts_tt s) x) as [nd|] eqn:F.
  - destruct (N.eqb_spec (trc nd) 0) as [Hz|Hnz].
    + right. exists nd. repeat split; auto.
    + left. split; [reflexivity|]. intros nd0 E. inversion E; subst. exact Hnz.
  - left. split; [reflexivity|discriminate].
Qed.

Lemma tgc_term_try_inv : forall s x, MInv s -> MInv (tgc_term_try s x).
Proof.
  intros s x H. destruct (tgc_term_try_cases s x) as [[E _]|[nd [_ [_ [Hs _]]]]]; [rewrite E; exact H|].
  eapply tstep_inv; eauto.
Qed.

Lemma tgc_term_try_frame : forall s x, ts_c (tgc_term_try s x) = ts_c s /\ ts_own (tgc_term_try s x) = ts_own s.
Proof.
  intros s x. destruct (tgc_term_try_cases s x) as [[E _]|[nd [_ [_ [_ E]]]]]; rewrite E; split; reflexivity.
Qed.

Lemma tgc_term_try_find : forall s x y nd, MInv s ->
  (tfind (ts_tt (tgc_term_try s x)) y = Some nd <->
   tfind (ts_tt s) y = Some nd /\ (trc nd <> 0%N \/ y <> x)).
Proof.
  intros s x y nd H. destruct (tgc_term_try_cases s x) as [[E Hnz]|[gn [F [Hz [_ E]]]]]; rewrite E; simpl.
  - split; [|tauto]. intros Fy. split; [exact Fy|].
    destruct (N.eq_dec y x) as [Eq|Ne]; [subst; left; apply Hnz; exact Fy|right; exact Ne].
  - rewrite (tfind_tremove x _ y (MInv_ids _ _ _ _ H)). destruct (N.eqb_spec x y) as [Eq|Ne].
    + subst y. split; [discriminate|]. intros [Fy [Hnz|Hne]]; [|congruence].
      rewrite F in Fy. inversion Fy; subst. contradiction.
    + split; [intros Fy; split; [exact Fy|right; congruence]|tauto].
Qed.

(** ** `DynamicTerminalManager::gc` *)

Lemma tgc_in_inv : forall ord s, MInv s -> MInv (tgc_in s ord).
Proof.
  induction ord as [|x r IH]; intros s H; simpl; [exact H|]. apply IH. apply tgc_term_try_inv. exact H.
Qed.

Lemma tgc_in_frame : forall ord s, ts_c (tgc_in s ord) = ts_c s /\ ts_own (tgc_in s ord) = ts_own s.
Proof.
  induction ord as [|x r IH]; intros s; simpl; [split; reflexivity|].
  destruct (IH (tgc_term_try s x)) as [H1 H2]. destruct (tgc_term_try_frame s x) as [H3 H4].
  split; congruence.
Qed.

Lemma tgc_in_find : forall ord s y nd, MInv s ->
  (tfind (ts_tt (tgc_in s ord)) y = Some nd <->
   tfind (ts_tt s) y = Some nd /\ (trc nd <> 0%N \/ ~ In y ord)).
Proof.
  induction ord as [|x r IH]; intros s y nd H; simpl.
  - split; [intros F; split; [exact F|right; intros []]|tauto].
  - rewrite (IH (tgc_term_try s x) y nd (tgc_term_try_inv s x H)).
    rewrite (tgc_term_try_find s x y nd H). split.
    + intros [[F [Hnz|Hne]] [Hnz2|Hni]]; split; auto. right. intros [E|Hin]; [congruence|contradiction].
    + intros [F [Hnz|Hni]]; [tauto|]. split; [split; [exact F|]|].
      * right. intros E. apply Hni. left. congruence.
      * right. intros Hin. apply Hni. right. exact Hin.
Qed.

(** 8. the terminal manager's collection, entries visited in ANY order that covers the
    table: a terminal is stored afterwards iff it was stored with a count <> 0, i.e. iff an
    owned edge or a stored inner node refers to it; survivors are unchanged (id, value,
    count); inner nodes and all owner tokens are untouched *)
Theorem tgc_in_spec : forall ord s, MInv s -> (forall x, In x (map fst (ts_tt s)) -> In x ord) ->
  MInv (tgc_in s ord) /\ ts_c (tgc_in s ord) = ts_c s /\ ts_own (tgc_in s ord) = ts_own s /\
  (forall x nd, tfind (ts_tt (tgc_in s ord)) x = Some nd <->
                tfind (ts_tt s) x = Some nd /\ trc nd <> 0%N) /\
  (forall x, (exists nd, tfind (ts_tt (tgc_in s ord)) x = Some nd) <->
             (exists nd, tfind (ts_tt s) x = Some nd) /\
             (0 < towners (ts_own s) x \/ 0 < tparents (cn (ts_c s)) x)).
Proof.
  intros ord s H Hcov. destruct (tgc_in_frame ord s) as [Hc Ho].
  assert (Hfind : forall x nd, tfind (ts_tt (tgc_in s ord)) x = Some nd <->
                               tfind (ts_tt s) x = Some nd /\ trc nd <> 0%N).
  { intros x nd. rewrite (tgc_in_find ord s x nd H). split; [|tauto].
    intros [F [Hnz|Hni]]; [tauto|]. exfalso. apply Hni. apply Hcov. eapply tfind_Some_keys; eauto. }
  split; [apply tgc_in_inv; exact H|]. split; [exact Hc|]. split; [exact Ho|]. split; [exact Hfind|].
  intros x. split.
  - intros [nd F]. apply Hfind in F. destruct F as [F Hnz]. split; [eauto|].
    pose proof (mi_rc _ _ _ s H x nd F). lia.
  - intros [[nd F] Hpos]. exists nd. apply Hfind. split; [exact F|].
    pose proof (mi_rc _ _ _ s H x nd F). lia.
Qed.

Theorem tgc_exact : forall s, MInv s ->
  MInv (tgc s) /\ ts_c (tgc s) = ts_c s /\ ts_own (tgc s) = ts_own s /\
  (forall x nd, tfind (ts_tt (tgc s)) x = Some nd <-> tfind (ts_tt s) x = Some nd /\ trc nd <> 0%N) /\
  (forall x, (exists nd, tfind (ts_tt (tgc s)) x = Some nd) <->
             (exists nd, tfind (ts_tt s) x = Some nd) /\
             (0 < towners (ts_own s) x \/ 0 < tparents (cn (ts_c s)) x)).
Proof. intros s H. apply tgc_in_spec; [exact H|auto]. Qed.

(** after it no terminal with count 0 is left, and a second collection does nothing *)
Theorem tgc_no_dead : forall s x nd, MInv s -> tfind (ts_tt (tgc s)) x = Some nd -> trc nd <> 0%N.
Proof. intros s x nd H F. apply (proj1 (proj2 (proj2 (proj2 (tgc_exact s H))))) in F. tauto. Qed.

Lemma tgc_in_fix : forall ord s, (forall x nd, tfind (ts_tt s) x = Some nd -> trc nd <> 0%N) ->
  tgc_in s ord = s.
Proof.
  induction ord as [|x r IH]; intros s Hnz; simpl; [reflexivity|].
  destruct (tgc_term_try_cases s x) as [[E _]|[nd [F [Hz _]]]]; [rewrite E; apply IH; exact Hnz|].
  exfalso. apply (Hnz x nd F Hz).
Qed.

Theorem tgc_idem : forall s, MInv s -> tgc (tgc s) = tgc s.
Proof. intros s H. apply tgc_in_fix. intros x nd F. eapply tgc_no_dead; eauto. Qed.

(** the return value of `gc` = the number of slots pushed onto the free chain *)
Theorem tgc_count_free : forall s, MInv s ->
  length (ts_tt s) = length (ts_tt (tgc s)) + tgc_count k nl s /\
  length (ts_free (tgc s)) = length (ts_free s) + tgc_count k nl s.
Proof.
  intros s H. pose proof (mi_cap _ _ _ s H) as H1.
  pose proof (mi_cap _ _ _ _ (proj1 (tgc_exact s H))) as H2. unfold tgc_count.
  assert (Hle : length (ts_tt (tgc s)) <= length (ts_tt s)).
  { rewrite <- (map_length fst (ts_tt (tgc s))), <- (map_length fst (ts_tt s)).
    apply NoDup_incl_length; [apply (MInv_ids _ _ _ _ (proj1 (tgc_exact s H)))|].
    intros x Hx. destruct (keys_tfind_Some _ _ Hx) as [nd F].
    apply (proj1 (proj2 (proj2 (proj2 (tgc_exact s H))))) in F. eapply tfind_Some_keys. apply F. }
  lia.
Qed.

(** ** the inner part of `Manager::gc` is `collect` of Mgr/ConcGc.v *)

Lemma gc_try_terms : forall t1 t2 c id, gc_try k t1 nl c id = gc_try k t2 nl c id.
Proof. intros. reflexivity. Qed.

Lemma tgc_node_try_cases : forall s id,
  (tgc_node_try s id = s /\ gc_try k (tterms (ts_tt s)) nl (ts_c s) id = ts_c s) \/
  (exists nd c', cfind (cn (ts_c s)) id = Some nd /\
     step k (tterms (ts_tt s)) nl (ts_c s) (AGcNode id) = Some (c', None) /\
     tstep s (TIn (AGcNode id)) = Some (tgc_node_try s id, TRnone) /\
     tgc_node_try s id = mkTst c' (t_dec_children (ts_tt s) (cch nd)) (ts_free s) (ts_own s) /\
     gc_try k (tterms (ts_tt s)) nl (ts_c s) id = c').
Proof.
  intros s id. unfold Terminals.tgc_node_try, Terminals.tstep, gc_try.
  destruct (step k (tterms (ts_tt s)) nl (ts_c s) (AGcNode id)) as [[c' r]|] eqn:Hs.
  - right. destruct (step_gc_cases _ _ _ _ _ _ _ Hs) as [nd [F _]]. rewrite F.
    assert (r = None).
    { simpl in Hs. rewrite F in Hs. destruct (N.eqb (crc nd) 0); inversion Hs; reflexivity. }
    subst r. exists nd, c'. repeat split; auto.
  - left. split; reflexivity.
Qed.

Lemma tgc_node_try_inv : forall s id, MInv s -> MInv (tgc_node_try s id).
Proof.
  intros s id H. destruct (tgc_node_try_cases s id) as [[E _]|[nd [c' [_ [_ [Hs _]]]]]]; [rewrite E; exact H|].
  eapply tstep_inv; eauto.
Qed.

Lemma tgc_node_try_proj : forall s id,
  ts_c (tgc_node_try s id) = gc_try k (tterms (ts_tt s)) nl (ts_c s) id /\
  tterms (ts_tt (tgc_node_try s id)) = tterms (ts_tt s) /\
  map fst (ts_tt (tgc_node_try s id)) = map fst (ts_tt s) /\
  ts_own (tgc_node_try s id) = ts_own s /\ ts_free (tgc_node_try s id) = ts_free s /\
  (forall x, option_map tval (tfind (ts_tt (tgc_node_try s id)) x) = option_map tval (tfind (ts_tt s) x)).
Proof.
  intros s id. destruct (tgc_node_try_cases s id) as [[E1 E2]|[nd [c' [_ [_ [_ [E1 E2]]]]]]]; rewrite E1, E2; simpl.
  - repeat split; reflexivity.
  - repeat split; auto using tterms_t_dec_children, keys_t_dec_children.
    intros x. rewrite tfind_t_dec_children. destruct (tfind (ts_tt s) x); reflexivity.
Qed.

Section Fold.
Variable T0 : list (N * N).

Lemma tgc_ids_proj : forall ids s, tterms (ts_tt s) = T0 ->
  ts_c (fold_left tgc_node_try ids s) = fold_left (gc_try k T0 nl) ids (ts_c s) /\
  tterms (ts_tt (fold_left tgc_node_try ids s)) = T0 /\
  map fst (ts_tt (fold_left tgc_node_try ids s)) = map fst (ts_tt s) /\
  ts_own (fold_left tgc_node_try ids s) = ts_own s /\ ts_free (fold_left tgc_node_try ids s) = ts_free s /\
  (forall x, option_map tval (tfind (ts_tt (fold_left tgc_node_try ids s)) x) = option_map tval (tfind (ts_tt s) x)).
Proof.
  induction ids as [|id r IH]; intros s HT; simpl.
  - repeat split; auto.
  - destruct (tgc_node_try_proj s id) as [P1 [P2 [P3 [P4 [P5 P6]]]]].
    destruct (IH (tgc_node_try s id)) as [Q1 [Q2 [Q3 [Q4 [Q5 Q6]]]]]; [congruence|].
    rewrite Q1, P1, HT. split; [reflexivity|]. split; [exact Q2|]. split; [congruence|]. split; [congruence|].
    split; [congruence|]. intros x. rewrite Q6. apply P6.
Qed.

Lemma tgc_levels_proj : forall ls s, tterms (ts_tt s) = T0 ->
  ts_c (fold_left tgc_level ls s) = fold_left (gc_level k T0 nl) ls (ts_c s) /\
  tterms (ts_tt (fold_left tgc_level ls s)) = T0 /\
  map fst (ts_tt (fold_left tgc_level ls s)) = map fst (ts_tt s) /\
  ts_own (fold_left tgc_level ls s) = ts_own s /\ ts_free (fold_left tgc_level ls s) = ts_free s /\
  (forall x, option_map tval (tfind (ts_tt (fold_left tgc_level ls s)) x) = option_map tval (tfind (ts_tt s) x)).
Proof.
  induction ls as [|l r IH]; intros s HT; simpl.
  - repeat split; auto.
  - pose proof (tgc_ids_proj (ids_at_level (cn (ts_c s)) l) s HT) as P.
    change (fold_left tgc_node_try (ids_at_level (cn (ts_c s)) l) s) with (tgc_level s l) in P.
    change (fold_left (gc_try k T0 nl) (ids_at_level (cn (ts_c s)) l) (ts_c s))
      with (gc_level k T0 nl (ts_c s) l) in P.
    destruct P as [P1 [P2 [P3 [P4 [P5 P6]]]]].
    destruct (IH (tgc_level s l) P2) as [Q1 [Q2 [Q3 [Q4 [Q5 Q6]]]]].
    rewrite Q1, P1. split; [reflexivity|]. split; [exact Q2|]. split; [congruence|].
    split; [congruence|]. split; [congruence|]. intros x. rewrite Q6. apply P6.
Qed.

End Fold.

(** 9. the sweep over the levels in `Manager::gc` acts on the inner nodes exactly like
    `collect` of Mgr/ConcGc.v; ids and values of the terminals, the free chain and all owner
    tokens are untouched (only terminal counts go down) *)
Theorem tcollect_inner_c : forall s,
  ts_c (tcollect_inner s) = collect k (tterms (ts_tt s)) nl (ts_c s) /\
  tterms (ts_tt (tcollect_inner s)) = tterms (ts_tt s) /\
  map fst (ts_tt (tcollect_inner s)) = map fst (ts_tt s) /\
  ts_own (tcollect_inner s) = ts_own s /\ ts_free (tcollect_inner s) = ts_free s /\
  (forall x, option_map tval (tfind (ts_tt (tcollect_inner s)) x) = option_map tval (tfind (ts_tt s) x)).
Proof. intros s. apply (tgc_levels_proj (tterms (ts_tt s)) (seq 0 nl) s eq_refl). Qed.

Lemma tgc_ids_inv : forall ids s, MInv s -> MInv (fold_left tgc_node_try ids s).
Proof.
  induction ids as [|id r IH]; intros s H; simpl; [exact H|]. apply IH. apply tgc_node_try_inv. exact H.
Qed.

Lemma tgc_levels_inv : forall ls s, MInv s -> MInv (fold_left tgc_level ls s).
Proof.
  induction ls as [|l r IH]; intros s H; simpl; [exact H|]. apply IH. apply tgc_ids_inv. exact H.
Qed.

Theorem tcollect_inner_inv : forall s, MInv s -> MInv (tcollect_inner s).
Proof. intros s H. apply tgc_levels_inv. exact H. Qed.

Theorem tcollect_inv : forall s, MInv s -> MInv (tcollect s).
Proof. intros s H. apply tgc_in_inv. apply tcollect_inner_inv. exact H. Qed.

(** ** `Manager::gc` is a schedule of collector actions *)

Lemma tgc_only_app : forall a b, tgc_only a -> tgc_only b -> tgc_only (a ++ b).
Proof. intros a b Ha Hb x Hx. apply in_app_or in Hx. destruct Hx; auto. Qed.

Lemma fold_try_run : forall (A : Type) (try_ : tst -> A -> tst) (acts : A -> tact),
  (forall s x, try_ s x = s \/ exists r, tstep s (acts x) = Some (try_ s x, r)) ->
  (forall x, is_tgc (acts x)) ->
  forall l s, exists sched, trun s sched = Some (fold_left try_ l s) /\ tgc_only sched.
Proof.
  intros A try_ acts Htry Hgc. induction l as [|x r IH]; intros s; simpl.
  - exists []. split; [reflexivity|intros a []].
  - destruct (IH (try_ s x)) as [sch [Hr Ho]].
    destruct (Htry s x) as [E|[res Hs]].
    + rewrite E in *. exists sch. auto.
    + exists (acts x :: sch). split; [simpl; rewrite Hs; exact Hr|].
      intros a [Ha|Ha]; [subst a; apply Hgc|apply Ho; exact Ha].
Qed.

Theorem tcollect_is_run : forall s,
  exists sched, trun s sched = Some (tcollect s) /\ tgc_only sched.
Proof.
  intros s.
  assert (Hlev : forall ls s0, exists sched, trun s0 sched = Some (fold_left tgc_level ls s0) /\ tgc_only sched).
  { induction ls as [|l r IH]; intros s0; simpl.
    - exists []. split; [reflexivity|intros a []].
    - destruct (fold_try_run positive tgc_node_try (fun id => TIn (AGcNode id))) with
        (l := ids_at_level (cn (ts_c s0)) l) (s := s0) as [s1 [R1 O1]].
      + intros s1 id. destruct (tgc_node_try_cases s1 id) as [[E _]|[nd [c' [_ [_ [Hs _]]]]]]; [left; exact E|right; eauto].
      + intros id. left. eauto.
      + destruct (IH (tgc_level s0 l)) as [s2 [R2 O2]].
        exists (s1 ++ s2). split; [|apply tgc_only_app; assumption].
        rewrite trun_app. unfold Terminals.tgc_level in R2 at 1. rewrite R1. exact R2. }
  destruct (Hlev (seq 0 nl) s) as [s1 [R1 O1]].
  destruct (fold_try_run N tgc_term_try TGcTerm) with
    (l := map fst (ts_tt (tcollect_inner s))) (s := tcollect_inner s) as [s2 [R2 O2]].
  - intros s0 x. destruct (tgc_term_try_cases s0 x) as [[E _]|[nd [_ [_ [Hs _]]]]]; [left; exact E|right; eauto].
  - intros x. right. eauto.
  - exists (s1 ++ s2). split; [|apply tgc_only_app; assumption].
    rewrite trun_app. unfold Terminals.tcollect_inner in R2 at 1. rewrite R1. exact R2.
Qed.

(** ** what `Manager::gc` keeps and frees *)

(** 10. a terminal is stored after the collection iff it was stored before and an owned
    terminal edge points to it or it is a child of an inner node that is reachable from an
    owned edge (= of a surviving inner node); survivors keep id and value *)
Theorem tcollect_exact : forall s x, MInv s ->
  ((exists nd', tfind (ts_tt (tcollect s)) x = Some nd') <->
   (exists nd, tfind (ts_tt s) x = Some nd) /\
   (0 < towners (ts_own s) x \/
    exists j nd e, cfind (cn (ts_c s)) j = Some nd /\ reach_own (ts_c s) j /\
                   In e (cch nd) /\ eref e = RT x)) /\
  (forall nd', tfind (ts_tt (tcollect s)) x = Some nd' ->
     exists nd, tfind (ts_tt s) x = Some nd /\ tval nd' = tval nd).
Proof.
  intros s x H.
  pose proof (tcollect_inner_inv s H) as H1.
  destruct (tcollect_inner_c s) as [Pc [_ [Pk [Po [_ Pv]]]]].
  destruct (tgc_exact _ H1) as [_ [_ [_ [Hf Hex]]]].
  pose proof (mi_c _ _ _ s H) as Hci.
  assert (Hst : (exists nd, tfind (ts_tt (tcollect_inner s)) x = Some nd) <->
                (exists nd, tfind (ts_tt s) x = Some nd)).
  { split; intros [nd F]; apply keys_tfind_Some; apply tfind_Some_keys in F; congruence. }
  assert (Hpar : 0 < tparents (cn (ts_c (tcollect_inner s))) x <->
                 exists j nd e, cfind (cn (ts_c s)) j = Some nd /\ reach_own (ts_c s) j /\
                                In e (cch nd) /\ eref e = RT x).
  { rewrite Pc. split.
    - intros Hp. destruct (tparents_pos_In _ _ Hp) as [j [nd' [e [Hj [He Er]]]]].
      assert (Fj : cfind (cn (collect k (tterms (ts_tt s)) nl (ts_c s))) j = Some nd').
      { apply In_cfind; [|exact Hj].
        apply (ti_nodup _ _ _ _ (ci_tbl _ _ _ _ (collect_inv k _ nl _ Hci))). }
      destruct (collect_exact k _ nl (ts_c s) j Hci) as [Hiff Hsh].
      destruct (proj1 Hiff (ex_intro _ nd' Fj)) as [_ Hre].
      destruct (Hsh nd' Fj) as [nd [F [_ Hch]]].
      exists j, nd, e. rewrite <- Hch. auto.
    - intros [j [nd [e [F [Hre [He Er]]]]]].
      destruct (collect_exact k _ nl (ts_c s) j Hci) as [Hiff Hsh].
      destruct (proj2 Hiff (conj (ex_intro _ nd F) Hre)) as [nd' Fj].
      destruct (Hsh nd' Fj) as [nd0 [F0 [_ Hch]]]. rewrite F in F0. inversion F0; subst nd0.
      eapply In_tparents_pos; [apply cfind_In; exact Fj|rewrite Hch; exact He|exact Er]. }
  split.
  - unfold Terminals.tcollect. rewrite (Hex x), Hst, Po, Hpar. tauto.
  - intros nd' F. unfold Terminals.tcollect in F. apply Hf in F. destruct F as [F _].
    pose proof (Pv x) as E. rewrite F in E. simpl in E.
    destruct (tfind (ts_tt s) x) as [nd|]; [|discriminate]. exists nd. split; [reflexivity|].
    simpl in E. congruence.
Qed.

(** all owner tokens (inner and terminal) survive, every owned terminal edge still points
    to a stored terminal with the same value, and the inner part is `collect` *)
Theorem tcollect_keeps : forall s, MInv s ->
  ts_own (tcollect s) = ts_own s /\ cown (ts_c (tcollect s)) = cown (ts_c s) /\
  ts_c (tcollect s) = collect k (tterms (ts_tt s)) nl (ts_c s) /\
  forall tid x nd, In (tid, x) (ts_own s) -> tfind (ts_tt s) x = Some nd ->
    exists nd', tfind (ts_tt (tcollect s)) x = Some nd' /\ tval nd' = tval nd.
Proof.
  intros s H. destruct (tcollect_inner_c s) as [Pc [_ [_ [Po _]]]].
  destruct (tgc_exact _ (tcollect_inner_inv s H)) as [_ [Gc [Go _]]].
  assert (E1 : ts_own (tcollect s) = ts_own s) by (unfold Terminals.tcollect; congruence).
  assert (E2 : ts_c (tcollect s) = collect k (tterms (ts_tt s)) nl (ts_c s)) by (unfold Terminals.tcollect; congruence).
  split; [exact E1|]. split; [|split; [exact E2|]].
  - rewrite E2. apply (collect_keeps k _ nl _ (mi_c _ _ _ s H)).
  - intros tid x nd Hin F.
    destruct (tcollect_exact s x H) as [Hiff Hval].
    destruct (proj2 Hiff) as [nd' F'].
    { split; [eauto|]. left. eapply In_towners_pos; eauto. }
    exists nd'. split; [exact F'|]. destruct (Hval nd' F') as [nd0 [F0 Hv]]. congruence.
Qed.

Lemma nodup_bounded_perm : forall (l : list N) n, NoDup l -> (forall x, In x l -> (x < N.of_nat n)%N) ->
  length l = n -> Permutation l (map N.of_nat (seq 0 n)).
Proof.
  intros l n Hnd Hb Hl. apply NoDup_Permutation_bis; [exact Hnd|rewrite map_length, seq_length; lia|].
  intros x Hx. apply in_map_iff. exists (N.to_nat x). split; [apply N2Nat.id|].
  apply in_seq. specialize (Hb x Hx). lia.
Qed.

(** 11. all handles dropped: after the collection no inner node and no terminal is left and
    the free chain holds all [cap] slots again (each exactly once) *)
Theorem tcollect_all_dropped : forall s, MInv s -> cown (ts_c s) = [] -> ts_own s = [] ->
  ts_c (tcollect s) = cempty /\ ts_tt (tcollect s) = [] /\ ts_own (tcollect s) = [] /\
  length (ts_free (tcollect s)) = cap /\
  Permutation (ts_free (tcollect s)) (ts_free (tinit cap)).
Proof.
  intros s H Hco Hto.
  destruct (tcollect_keeps s H) as [E1 [_ [E2 _]]].
  pose proof (tcollect_inv s H) as Hi.
  assert (Et : ts_tt (tcollect s) = []).
  { destruct (ts_tt (tcollect s)) as [|[x nd] r] eqn:E; [reflexivity|]. exfalso.
    assert (F : tfind (ts_tt (tcollect s)) x = Some nd) by (rewrite E; simpl; rewrite N.eqb_refl; reflexivity).
    destruct (proj1 (proj1 (tcollect_exact s x H)) (ex_intro _ nd F)) as [_ [Hp|[j [n [e [_ [[o [Ho _]] _]]]]]]].
    - rewrite Hto in Hp. simpl in Hp. lia.
    - rewrite Hco in Ho. destruct Ho. }
  split; [rewrite E2; apply (collect_all_dropped k _ nl _ (mi_c _ _ _ s H) Hco)|].
  split; [exact Et|]. split; [congruence|].
  pose proof (mi_cap _ _ _ _ Hi) as Hc. pose proof (mi_slots _ _ _ _ Hi) as Hs.
  pose proof (mi_bound _ _ _ _ Hi) as Hb. rewrite Et in Hc, Hs, Hb. simpl in Hc, Hs, Hb.
  split; [exact Hc|]. apply nodup_bounded_perm; assumption.
Qed.

(** the return value of `Manager::gc` = removed inner nodes + removed terminals *)
Theorem tcollect_count_spec : forall s,
  tcollect_count k nl s =
  (length (cn (ts_c s)) - length (cn (ts_c (tcollect s)))) +
  (length (ts_tt s) - length (ts_tt (tcollect s))).
Proof.
  intros s. unfold tcollect_count, tgc_count. fold (tcollect s).
  destruct (tcollect_inner_c s) as [_ [_ [Pk _]]].
  destruct (tgc_in_frame (map fst (ts_tt (tcollect_inner s))) (tcollect_inner s)) as [Gc _].
  fold (tgc (tcollect_inner s)) in Gc. fold (tcollect s) in Gc. rewrite Gc.
  rewrite <- (map_length fst (ts_tt (tcollect_inner s))), Pk, map_length. reflexivity.
Qed.

(** ** histories *)

Theorem thrun_inv : forall hist s s', MInv s -> thrun k nl s hist = Some s' -> MInv s'.
Proof.
  induction hist as [|h r IH]; intros s s' H Hr; simpl in Hr.
  - inversion Hr; subst. exact H.
  - destruct h as [a|]; simpl in Hr.
    + destruct (tstep s a) as [[s1 res]|] eqn:Hs; [|discriminate].
      apply (IH s1 s'); [eapply tstep_inv; eauto|exact Hr].
    + apply (IH (tcollect s) s'); [apply tcollect_inv; exact H|exact Hr].
Qed.

(** 12. from the fresh manager, under ANY history (actions of any threads interleaved with
    whole collections): hash consing, no slot lost, counts exact *)
Theorem thistory_inv : forall hist s, thrun k nl (tinit cap) hist = Some s -> MInv s.
Proof. intros hist s. apply thrun_inv. apply MInv_init. Qed.

End Gc.

(** ** the executable checker is sound *)

Lemma nodup_N_b_spec : forall l, nodup_N_b l = true <-> NoDup l.
Proof.
  induction l as [|x r IH]; simpl.
  - split; [constructor|reflexivity].
  - rewrite andb_true_iff, negb_true_iff, IH. split.
    + intros [Hn Hd]. constructor; [|exact Hd]. intros Hin.
      assert (E : existsb (N.eqb x) r = true) by (apply existsb_exists; exists x; split; [exact Hin|apply N.eqb_refl]).
      congruence.
    + intros Hd. inversion Hd as [|? ? Hni Hd']; subst. split; [|exact Hd'].
      destruct (existsb (N.eqb x) r) eqn:E; [|reflexivity]. exfalso.
      apply existsb_exists in E. destruct E as [y [Hy Ey]]. apply N.eqb_eq in Ey. subst y. contradiction.
Qed.

Theorem minv_b_sound : forall k nl cap s, minv_b k nl cap s = true -> MInv k nl cap s.
Proof.
  intros k nl cap s Hb. unfold minv_b in Hb. cbv zeta in Hb. rewrite !andb_true_iff in Hb.
  destruct Hb as [[[[[[[H1 H2] H3] H4] H5] H6] H7] H8].
  constructor.
  - apply cinv_b_spec. exact H1.
  - rewrite forallb_forall in H7. intros o Ho. specialize (H7 o Ho).
    destruct (eref (snd o)) as [x|id]; [discriminate|eauto].
  - apply nodup_N_b_spec. exact H2.
  - apply nodup_N_b_spec. exact H3.
  - rewrite forallb_forall in H4. intros x Hx. apply N.ltb_lt. apply H4. exact Hx.
  - apply Nat.eqb_eq. exact H5.
  - rewrite forallb_forall in H6. intros o Ho. specialize (H6 o Ho).
    destruct (tfind (ts_tt s) (snd o)) as [nd|]; [eauto|discriminate].
  - rewrite forallb_forall in H8. intros x nd F. apply tfind_In in F.
    specialize (H8 _ F). simpl in H8. apply N.eqb_eq. exact H8.
Qed.
