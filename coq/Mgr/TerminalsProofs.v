(** * C05 — the dynamic terminal manager: invariant and its preservation

    [MInv] = the invariant [CInv] of Mgr/ConcProofs.v for the inner nodes (w.r.t. the CURRENT
    terminal table) + values pairwise distinct (hash consing) + ids and free chain form a
    duplicate-free partition of the [cap] slots + every owned terminal edge points to a stored
    terminal + terminal counts EXACT = owner tokens + parent edges from stored inner nodes.
    Preserved by every enabled action ([tstep_inv]), hence by every schedule ([trun_inv]). *)

From Coq Require Import List NArith PArith Bool Arith Lia Permutation.
From OxiVerif Require Import DD.Table DD.TableProofs Mgr.Conc Mgr.ConcBase Mgr.ConcProofs Mgr.ConcGc
  Mgr.Terminals Mgr.TerminalsBase.
Import ListNotations.

Arguments N.add : simpl never.
Arguments N.sub : simpl never.
Arguments N.mul : simpl never.

Lemma forallb_ext_in : forall (A : Type) (f g : A -> bool) l,
  (forall x, In x l -> f x = g x) -> forallb f l = forallb g l.
Proof.
  intros A f g l H. induction l as [|x r IH]; simpl; [reflexivity|].
  rewrite (H x (or_introl eq_refl)), IH; [reflexivity|]. intros y Hy. apply H. right. exact Hy.
Qed.

Lemma nodup_app_l : forall (A : Type) (a b : list A), NoDup (a ++ b) -> NoDup a.
Proof.
  induction a as [|x r IH]; intros b H; [constructor|]. simpl in H.
  inversion H as [|? ? Hni Hnd]; subst. constructor; [|eapply IH; eauto].
  intros Hin. apply Hni. apply in_or_app. left. exact Hin.
Qed.

Section Proofs.
Variable k : kind.
Variable nl : nat.

(** ** [CInv] only looks at the terminals that are referenced *)

Lemma node_pre_b_terms_ext : forall terms terms' t lvl ch,
  (forall e x, In e ch -> eref e = RT x -> assoc_N terms' x = assoc_N terms x) ->
  node_pre_b k terms' nl t lvl ch = node_pre_b k terms nl t lvl ch.
Proof.
  intros terms terms' t lvl ch H. unfold node_pre_b.
  assert (H3 : forallb (fun e => cref_ok_b terms' t (eref e) && Nat.ltb lvl (crlevel nl t (eref e))) ch =
               forallb (fun e => cref_ok_b terms t (eref e) && Nat.ltb lvl (crlevel nl t (eref e))) ch).
  { apply forallb_ext_in. intros e He. f_equal. unfold cref_ok_b.
    destruct (eref e) as [x|id] eqn:Er; [|reflexivity]. rewrite (H e x He Er). reflexivity. }
  assert (H4 : creduced_b k terms' ch = creduced_b k terms ch).
  { unfold creduced_b. destruct k; try reflexivity.
    destruct ch as [|hi r]; [reflexivity|]. unfold cis_term_with.
    destruct (eref hi) as [x|id] eqn:Er; [|reflexivity].
    rewrite (H hi x (or_introl eq_refl) Er). reflexivity. }
  rewrite H3, H4. reflexivity.
Qed.

Lemma edge_ok_b_terms_ext : forall terms terms' t e,
  (forall x, eref e = RT x -> assoc_N terms' x = assoc_N terms x) ->
  edge_ok_b k terms' t e = edge_ok_b k terms t e.
Proof.
  intros terms terms' t e H. unfold edge_ok_b. f_equal. unfold cref_ok_b.
  destruct (eref e) as [x|id] eqn:Er; [|reflexivity]. rewrite (H x eq_refl). reflexivity.
Qed.

Lemma CInv_terms_ext : forall terms terms' s,
  (forall j nd e x, cfind (cn s) j = Some nd -> In e (cch nd) -> eref e = RT x ->
     assoc_N terms' x = assoc_N terms x) ->
  (forall o x, In o (cown s) -> eref (snd o) = RT x -> assoc_N terms' x = assoc_N terms x) ->
  CInv k terms nl s -> CInv k terms' nl s.
Proof.
  intros terms terms' s Hch Hown H. apply CInv_flat. apply CInv_flat in H.
  destruct H as [H1 [H2 [H3 [H4 H5]]]]. repeat split; auto.
  - intros id nd F. rewrite (node_pre_b_terms_ext terms terms'); [apply (H2 id nd F)|].
    intros e x He Er. apply (Hch id nd e x F He Er).
  - intros o Ho. rewrite (edge_ok_b_terms_ext terms terms'); [apply (H4 o Ho)|].
    intros x Er. apply (Hown o x Ho Er).
Qed.

(** ** the actions of Mgr/Conc.v never put a terminal edge into [cown] *)

Lemma take_toks_incl' : forall tid ch own own' o, take_toks tid ch own = Some own' ->
  In o own' -> In o own.
Proof. exact take_toks_incl. Qed.

Lemma step_cown_inner : forall terms c a c' r,
  (forall o, In o (cown c) -> exists id, eref (snd o) = RN id) ->
  step k terms nl c a = Some (c', r) ->
  forall o, In o (cown c') -> exists id, eref (snd o) = RN id.
Proof.
  intros terms c a c' r H Hs.
  destruct a as [tid lvl ch fr|tid e|tid e|tid tid' e|id|tid e]; simpl in Hs.
  - destruct (node_pre_b k terms nl (cn c) lvl ch); [|discriminate].
    destruct (take_toks tid ch (cown c)) as [own1|] eqn:Ht; [|discriminate].
    assert (H1 : forall o, In o own1 -> exists id, eref (snd o) = RN id).
    { intros o Ho. apply H. eapply take_toks_incl; eauto. }
    destruct (find_shape (cn c) lvl ch) as [id|].
    + inversion Hs; subst. simpl. intros o [Ho|Ho]; [subst o; simpl; eauto|auto].
    + destruct (cfind (cn c) fr); [discriminate|]. inversion Hs; subst. simpl.
      intros o [Ho|Ho]; [subst o; simpl; eauto|auto].
  - destruct (eref e) as [x|id] eqn:Er.
    + destruct (cref_ok_b terms (cn c) (RT x)); inversion Hs; subst; exact H.
    + destruct (can_borrow_b nl c e); [|discriminate]. inversion Hs; subst. simpl.
      intros o [Ho|Ho]; [subst o; simpl; eauto|auto].
  - destruct (eref e) as [x|id] eqn:Er.
    + destruct (cref_ok_b terms (cn c) (RT x)); inversion Hs; subst; exact H.
    + destruct (take_tok (tid, e) (cown c)) as [own'|] eqn:Ht; [|discriminate].
      inversion Hs; subst. simpl. intros o Ho. apply H. eapply take_tok_incl; eauto.
  - destruct (eref e) as [x|id] eqn:Er.
    + destruct (cref_ok_b terms (cn c) (RT x)); inversion Hs; subst; exact H.
    + destruct (take_tok (tid, e) (cown c)) as [own'|] eqn:Ht; [|discriminate].
      inversion Hs; subst. simpl. intros o [Ho|Ho]; [subst o; simpl; eauto|].
      apply H. eapply take_tok_incl; eauto.
  - destruct (cfind (cn c) id) as [nd|]; [|discriminate].
    destruct (N.eqb (crc nd) 0); [|discriminate]. inversion Hs; subst. exact H.
  - destruct (is_bcdd k); [|discriminate].
    destruct (eref e) as [x|id] eqn:Er.
    + destruct (cref_ok_b terms (cn c) (RT x)); inversion Hs; subst; exact H.
    + destruct (take_tok (tid, e) (cown c)) as [own'|] eqn:Ht; [|discriminate].
      inversion Hs; subst. simpl. intros o [Ho|Ho]; [subst o; simpl; eauto|].
      apply H. eapply take_tok_incl; eauto.
Qed.

(** the actions of Mgr/Conc.v other than [AGoi] and [AGcNode] leave the child lists alone *)
Lemma step_tparents_other : forall terms c a c' r x,
  step k terms nl c a = Some (c', r) ->
  (forall tid lvl ch fr, a <> AGoi tid lvl ch fr) -> (forall id, a <> AGcNode id) ->
  tparents (cn c') x = tparents (cn c) x.
Proof.
  intros terms c a c' r x Hs Hn1 Hn2.
  destruct a as [tid lvl ch fr|tid e|tid e|tid tid' e|id|tid e]; simpl in Hs.
  - exfalso. apply (Hn1 tid lvl ch fr). reflexivity.
  - destruct (eref e) as [y|id] eqn:Er.
    + destruct (cref_ok_b terms (cn c) (RT y)); inversion Hs; subst; reflexivity.
    + destruct (can_borrow_b nl c e); [|discriminate]. inversion Hs; subst. simpl.
      apply tparents_rc_upd.
  - destruct (eref e) as [y|id] eqn:Er.
    + destruct (cref_ok_b terms (cn c) (RT y)); inversion Hs; subst; reflexivity.
    + destruct (take_tok (tid, e) (cown c)) as [own'|]; [|discriminate].
      inversion Hs; subst. simpl. apply tparents_rc_upd.
  - destruct (eref e) as [y|id] eqn:Er.
    + destruct (cref_ok_b terms (cn c) (RT y)); inversion Hs; subst; reflexivity.
    + destruct (take_tok (tid, e) (cown c)) as [own'|]; [|discriminate].
      inversion Hs; subst. reflexivity.
  - exfalso. apply (Hn2 id). reflexivity.
  - destruct (is_bcdd k); [|discriminate].
    destruct (eref e) as [y|id] eqn:Er.
    + destruct (cref_ok_b terms (cn c) (RT y)); inversion Hs; subst; reflexivity.
    + destruct (take_tok (tid, e) (cown c)) as [own'|]; [|discriminate].
      inversion Hs; subst. reflexivity.
Qed.

Lemma step_goi_cases : forall terms c tid lvl ch fr c' r,
  step k terms nl c (AGoi tid lvl ch fr) = Some (c', r) ->
  node_pre_b k terms nl (cn c) lvl ch = true /\
  ((exists id, find_shape (cn c) lvl ch = Some id /\ cn c' = rc_inc id (dec_children (cn c) ch)) \/
   (find_shape (cn c) lvl ch = None /\ cn c' = (fr, mkC lvl ch 1%N) :: cn c)).
Proof.
  intros terms c tid lvl ch fr c' r Hs. simpl in Hs.
  destruct (node_pre_b k terms nl (cn c) lvl ch); [|discriminate]. split; [reflexivity|].
  destruct (take_toks tid ch (cown c)) as [own1|]; [|discriminate].
  destruct (find_shape (cn c) lvl ch) as [id|].
  - left. exists id. inversion Hs; subst. split; reflexivity.
  - right. destruct (cfind (cn c) fr); [discriminate|]. inversion Hs; subst. split; reflexivity.
Qed.

Lemma step_gc_cases : forall terms c id c' r,
  step k terms nl c (AGcNode id) = Some (c', r) ->
  exists nd, cfind (cn c) id = Some nd /\ crc nd = 0%N /\
             cn c' = dec_children (cremove id (cn c)) (cch nd) /\ cown c' = cown c.
Proof.
  intros terms c id c' r Hs. simpl in Hs.
  destruct (cfind (cn c) id) as [nd|]; [|discriminate].
  destruct (N.eqb_spec (crc nd) 0) as [Hz|_]; [|discriminate].
  inversion Hs; subst. exists nd. repeat split; auto.
Qed.

(** ** the invariant *)

Variable cap : nat.

Record MInv (s : tst) : Prop := mkMInv {
  (* the inner nodes: invariant of Mgr/ConcProofs.v w.r.t. the current terminal table
     (in particular: every terminal child edge of a stored node points to a stored terminal) *)
  mi_c : CInv k (tterms (ts_tt s)) nl (ts_c s);
  (* terminal edges are tracked in [ts_own], not in [cown] *)
  mi_cown : forall o, In o (cown (ts_c s)) -> exists id, eref (snd o) = RN id;
  (* hash consing: values pairwise distinct *)
  mi_vals : NoDup (map (fun p => tval (snd p)) (ts_tt s));
  (* ids pairwise distinct and disjoint from the (duplicate-free) free chain ... *)
  mi_slots : NoDup (map fst (ts_tt s) ++ ts_free s);
  (* ... all of them slots of the store ... *)
  mi_bound : forall x, In x (map fst (ts_tt s) ++ ts_free s) -> (x < N.of_nat cap)%N;
  (* ... and no slot is lost *)
  mi_cap : length (ts_tt s) + length (ts_free s) = cap;
  (* every owned terminal edge points to a stored terminal *)
  mi_own : forall o, In o (ts_own s) -> exists nd, tfind (ts_tt s) (snd o) = Some nd;
  (* reference counts are exact *)
  mi_rc : forall x nd, tfind (ts_tt s) x = Some nd ->
      trc nd = N.of_nat (towners (ts_own s) x + tparents (cn (ts_c s)) x)
}.

Lemma MInv_ids : forall s, MInv s -> NoDup (map fst (ts_tt s)).
Proof. intros s H. eapply nodup_app_l. apply (mi_slots s H). Qed.

Theorem MInv_init : MInv (tinit cap).
Proof.
  constructor; simpl.
  - apply CInv_empty.
  - intros o [].
  - constructor.
  - apply FinFun.Injective_map_NoDup; [|apply seq_NoDup].
    intros a b E. apply Nat2N.inj. exact E.
  - intros x Hx. apply in_map_iff in Hx. destruct Hx as [n [E Hn]]. apply in_seq in Hn. lia.
  - rewrite map_length, seq_length. reflexivity.
  - intros o [].
  - discriminate.
Qed.

(** a terminal child edge of a stored node points to a stored terminal *)
Lemma child_term_stored : forall s j nd e x, MInv s -> cfind (cn (ts_c s)) j = Some nd ->
  In e (cch nd) -> eref e = RT x -> exists tn, tfind (ts_tt s) x = Some tn.
Proof.
  intros s j nd e x H F He Er.
  pose proof (ti_pre _ _ _ _ (ci_tbl _ _ _ _ (mi_c s H)) j nd F) as Hp.
  unfold node_pre_b in Hp. rewrite !andb_true_iff in Hp. destruct Hp as [[[[_ _] H3] _] _].
  rewrite forallb_forall in H3. specialize (H3 e He). apply andb_true_iff in H3. destruct H3 as [Ho _].
  rewrite Er in Ho. simpl in Ho. rewrite assoc_tterms in Ho.
  destruct (tfind (ts_tt s) x) as [tn|]; [eauto|discriminate].
Qed.

Lemma pre_term_stored : forall s lvl ch e x,
  node_pre_b k (tterms (ts_tt s)) nl (cn (ts_c s)) lvl ch = true ->
  In e ch -> eref e = RT x -> exists tn, tfind (ts_tt s) x = Some tn.
Proof.
  intros s lvl ch e x Hp He Er.
  unfold node_pre_b in Hp. rewrite !andb_true_iff in Hp. destruct Hp as [[[[_ _] H3] _] _].
  rewrite forallb_forall in H3. specialize (H3 e He). apply andb_true_iff in H3. destruct H3 as [Ho _].
  rewrite Er in Ho. simpl in Ho. rewrite assoc_tterms in Ho.
  destruct (tfind (ts_tt s) x) as [tn|]; [eauto|discriminate].
Qed.

(** a stored terminal without owner and parent is referenced nowhere *)
Lemma rc_zero_unreferenced : forall s x nd, MInv s -> tfind (ts_tt s) x = Some nd -> trc nd = 0%N ->
  towners (ts_own s) x = 0 /\ tparents (cn (ts_c s)) x = 0.
Proof. intros s x nd H F Hz. pose proof (mi_rc s H x nd F). lia. Qed.

(** ** preservation, action by action *)

Lemma inv_same_table : forall s c' tt' own',
  MInv s ->
  CInv k (tterms (ts_tt s)) nl c' ->
  (forall o, In o (cown c') -> exists id, eref (snd o) = RN id) ->
  map fst tt' = map fst (ts_tt s) ->
  map (fun p => tval (snd p)) tt' = map (fun p => tval (snd p)) (ts_tt s) ->
  tterms tt' = tterms (ts_tt s) ->
  (forall o, In o own' -> exists nd, tfind (ts_tt s) (snd o) = Some nd) ->
  (forall x nd', tfind tt' x = Some nd' ->
     trc nd' = N.of_nat (towners own' x + tparents (cn c') x)) ->
  MInv (mkTst c' tt' (ts_free s) own').
Proof.
  intros s c' tt' own' H Hc Hco Hk Hv Ht Ho Hrc. constructor; simpl.
  - rewrite Ht. exact Hc.
  - exact Hco.
  - rewrite Hv. apply (mi_vals s H).
  - rewrite Hk. apply (mi_slots s H).
  - rewrite Hk. apply (mi_bound s H).
  - rewrite <- (map_length fst tt'), Hk, map_length. apply (mi_cap s H).
  - intros o Hin. destruct (Ho o Hin) as [nd F].
    apply tfind_Some_keys in F. rewrite <- Hk in F. apply keys_tfind_Some. exact F.
  - exact Hrc.
Qed.

Lemma inv_goi : forall s tid lvl ch fr c' r own', MInv s ->
  step k (tterms (ts_tt s)) nl (ts_c s) (AGoi tid lvl ch fr) = Some (c', r) ->
  t_take_toks tid ch (ts_own s) = Some own' ->
  MInv (mkTst c'
          (match find_shape (cn (ts_c s)) lvl ch with
           | Some _ => t_dec_children (ts_tt s) ch
           | None => ts_tt s
           end) (ts_free s) own').
Proof.
  intros s tid lvl ch fr c' r own' H Hs Ht.
  pose proof (step_inv k _ nl _ _ _ _ (mi_c s H) Hs) as Hc.
  pose proof (step_cown_inner _ _ _ _ _ (mi_cown s H) Hs) as Hco.
  assert (Ho : forall o, In o own' -> exists nd, tfind (ts_tt s) (snd o) = Some nd).
  { intros o Hin. apply (mi_own s H). eapply t_take_toks_incl; eauto. }
  destruct (step_goi_cases _ _ _ _ _ _ _ _ Hs) as [Hpre [[id [Hf Hcn]]|[Hf Hcn]]]; rewrite Hf.
  - apply inv_same_table; auto.
    + apply keys_t_dec_children.
    + apply vals_t_dec_children.
    + apply tterms_t_dec_children.
    + intros x nd' F. rewrite tfind_t_dec_children in F.
      destruct (tfind (ts_tt s) x) as [nd|] eqn:F0; [|discriminate]. inversion F; subst. simpl.
      rewrite Hcn. unfold rc_inc. rewrite tparents_rc_upd, tparents_dec_children.
      pose proof (mi_rc s H x nd F0) as Hr. pose proof (t_take_toks_owners _ _ _ _ x Ht). lia.
  - apply inv_same_table; auto.
    intros x nd F. rewrite Hcn. simpl.
    pose proof (mi_rc s H x nd F) as Hr. pose proof (t_take_toks_owners _ _ _ _ x Ht). lia.
Qed.

Lemma inv_gc_node : forall s id c' r nd, MInv s ->
  step k (tterms (ts_tt s)) nl (ts_c s) (AGcNode id) = Some (c', r) ->
  cfind (cn (ts_c s)) id = Some nd ->
  MInv (mkTst c' (t_dec_children (ts_tt s) (cch nd)) (ts_free s) (ts_own s)).
Proof.
  intros s id c' r nd H Hs F.
  pose proof (step_inv k _ nl _ _ _ _ (mi_c s H) Hs) as Hc.
  pose proof (step_cown_inner _ _ _ _ _ (mi_cown s H) Hs) as Hco.
  destruct (step_gc_cases _ _ _ _ _ Hs) as [nd0 [F0 [_ [Hcn _]]]].
  rewrite F in F0. inversion F0; subst nd0.
  apply inv_same_table; auto.
  - apply keys_t_dec_children.
  - apply vals_t_dec_children.
  - apply tterms_t_dec_children.
  - apply (mi_own s H).
  - intros x nd' Fx. rewrite tfind_t_dec_children in Fx.
    destruct (tfind (ts_tt s) x) as [tn|] eqn:Ft; [|discriminate]. inversion Fx; subst. simpl.
    rewrite Hcn, tparents_dec_children.
    pose proof (mi_rc s H x tn Ft) as Hr. pose proof (tparents_cremove id _ nd x F). lia.
Qed.

Lemma inv_inner_other : forall s a c' r, MInv s ->
  step k (tterms (ts_tt s)) nl (ts_c s) a = Some (c', r) ->
  (forall tid lvl ch fr, a <> AGoi tid lvl ch fr) -> (forall id, a <> AGcNode id) ->
  MInv (with_c s c').
Proof.
  intros s a c' r H Hs Hn1 Hn2. unfold with_c.
  apply inv_same_table; auto.
  - eapply step_inv; [apply (mi_c s H)|exact Hs].
  - eapply step_cown_inner; [apply (mi_cown s H)|exact Hs].
  - apply (mi_own s H).
  - intros x nd F. rewrite (step_tparents_other _ _ _ _ _ x Hs Hn1 Hn2). apply (mi_rc s H x nd F).
Qed.

Lemma inv_t_inc : forall s tid x nd, MInv s -> tfind (ts_tt s) x = Some nd ->
  MInv (mkTst (ts_c s) (t_inc x (ts_tt s)) (ts_free s) ((tid, x) :: ts_own s)).
Proof.
  intros s tid x nd H F. apply inv_same_table; auto.
  - apply (mi_c s H).
  - apply (mi_cown s H).
  - apply keys_t_upd.
  - apply vals_t_upd.
  - apply tterms_t_upd.
  - intros o [Ho|Ho]; [subst o; simpl; eauto|apply (mi_own s H o Ho)].
  - intros y nd' Fy. unfold t_inc in Fy. rewrite tfind_t_upd in Fy. simpl.
    destruct (N.eqb x y) eqn:E.
    + apply N.eqb_eq in E. subst y. rewrite F in Fy. inversion Fy; subst. simpl.
      pose proof (mi_rc s H x nd F). lia.
    + pose proof (mi_rc s H y nd' Fy). lia.
Qed.

Lemma inv_t_dec : forall s tid x own', MInv s -> t_take_tok (tid, x) (ts_own s) = Some own' ->
  MInv (mkTst (ts_c s) (t_dec x (ts_tt s)) (ts_free s) own').
Proof.
  intros s tid x own' H Ht. apply inv_same_table; auto.
  - apply (mi_c s H).
  - apply (mi_cown s H).
  - apply keys_t_upd.
  - apply vals_t_upd.
  - apply tterms_t_upd.
  - intros o Ho. apply (mi_own s H). eapply t_take_tok_incl; eauto.
  - intros y nd' Fy. unfold t_dec in Fy. rewrite tfind_t_upd in Fy.
    pose proof (t_take_tok_owners _ _ _ y Ht) as Hw. simpl in Hw.
    destruct (N.eqb x y) eqn:E.
    + destruct (tfind (ts_tt s) y) as [nd|] eqn:F; [|discriminate]. inversion Fy; subst. simpl.
      pose proof (mi_rc s H y nd F). lia.
    + pose proof (mi_rc s H y nd' Fy). lia.
Qed.

Lemma inv_t_move : forall s tid tid' x own', MInv s -> t_take_tok (tid, x) (ts_own s) = Some own' ->
  MInv (mkTst (ts_c s) (ts_tt s) (ts_free s) ((tid', x) :: own')).
Proof.
  intros s tid tid' x own' H Ht. apply inv_same_table; auto.
  - apply (mi_c s H).
  - apply (mi_cown s H).
  - intros o [Ho|Ho].
    + subst o. simpl. apply (mi_own s H (tid, x)). eapply t_take_tok_In; eauto.
    + apply (mi_own s H). eapply t_take_tok_incl; eauto.
  - intros y nd Fy. pose proof (t_take_tok_owners _ _ _ y Ht) as Hw. simpl in Hw. simpl.
    pose proof (mi_rc s H y nd Fy). lia.
Qed.

(** a new terminal: the inner invariant does not notice the additional table entry *)
Lemma inv_t_new : forall s tid v x fr, MInv s -> tfind_val (ts_tt s) v = None ->
  ts_free s = x :: fr ->
  MInv (mkTst (ts_c s) ((x, mkT v 1%N) :: ts_tt s) fr ((tid, x) :: ts_own s)).
Proof.
  intros s tid v x fr H Hv Hf.
  pose proof (mi_slots s H) as Hsl. rewrite Hf in Hsl.
  assert (Hx : ~ In x (map fst (ts_tt s)) /\ ~ In x fr /\ NoDup (map fst (ts_tt s) ++ fr)).
  { pose proof (NoDup_remove_1 _ _ _ Hsl) as H1. pose proof (NoDup_remove_2 _ _ _ Hsl) as H2.
    repeat split; auto; intros Hin; apply H2; apply in_or_app; auto. }
  destruct Hx as [Hx1 [Hx2 Hx3]].
  assert (Fx : tfind (ts_tt s) x = None) by (apply tfind_None_keys; exact Hx1).
  constructor; simpl.
  - eapply CInv_terms_ext; [| |apply (mi_c s H)].
    + intros j nd e y F He Er. destruct (child_term_stored s j nd e y H F He Er) as [tn Fy].
      simpl. destruct (N.eqb x y) eqn:E; [apply N.eqb_eq in E; congruence|reflexivity].
    + intros o y Ho Er. destruct (mi_cown s H o Ho) as [id Eo]. congruence.
  - apply (mi_cown s H).
  - constructor; [|apply (mi_vals s H)]. apply tfind_val_None. exact Hv.
  - constructor; [|exact Hx3]. intros Hin. apply in_app_or in Hin. tauto.
  - intros y [Hy|Hy]; apply (mi_bound s H); rewrite Hf; apply in_or_app.
    + right. left. exact Hy.
    + apply in_app_or in Hy. destruct Hy; [left|right; right]; assumption.
  - pose proof (mi_cap s H) as Hc. rewrite Hf in Hc. simpl in Hc. lia.
  - intros o [Ho|Ho].
    + subst o. simpl. rewrite N.eqb_refl. eauto.
    + destruct (mi_own s H o Ho) as [nd F]. destruct (N.eqb x (snd o)) eqn:E; [eauto|eauto].
  - intros y nd Fy. simpl in Fy. destruct (N.eqb x y) eqn:E.
    + apply N.eqb_eq in E. subst y. inversion Fy; subst. simpl.
      assert (H1 : towners (ts_own s) x = 0).
      { apply towners_zero_iff. intros o Ho Eo. destruct (mi_own s H o Ho) as [nd F]. congruence. }
      assert (H2 : tparents (cn (ts_c s)) x = 0).
      { apply tparents_zero_iff. intros j nd e Hj He Er.
        pose proof (In_cfind _ _ _ (ti_nodup _ _ _ _ (ci_tbl _ _ _ _ (mi_c s H))) Hj) as Fj.
        destruct (child_term_stored s j nd e x H Fj He Er) as [tn Ft]. congruence. }
      lia.
    + pose proof (mi_rc s H y nd Fy). lia.
Qed.

(** collecting a terminal with count 0 *)
Lemma inv_t_gc : forall s x nd, MInv s -> tfind (ts_tt s) x = Some nd -> trc nd = 0%N ->
  MInv (mkTst (ts_c s) (tremove x (ts_tt s)) (x :: ts_free s) (ts_own s)).
Proof.
  intros s x nd H F Hz.
  destruct (rc_zero_unreferenced s x nd H F Hz) as [Hw Hp].
  pose proof (MInv_ids s H) as Hids.
  pose proof (tremove_keys_perm x _ nd F) as Hperm.
  assert (Hperm2 : Permutation (map fst (ts_tt s) ++ ts_free s)
                               (map fst (tremove x (ts_tt s)) ++ x :: ts_free s)).
  { eapply perm_trans; [apply Permutation_app_tail; exact Hperm|]. simpl. apply Permutation_middle. }
  constructor; simpl.
  - eapply CInv_terms_ext; [| |apply (mi_c s H)].
    + intros j n e y Fj He Er. rewrite !assoc_tterms. rewrite (tfind_tremove x _ y Hids).
      destruct (N.eqb x y) eqn:E; [|reflexivity]. apply N.eqb_eq in E. subst y. exfalso.
      apply (proj1 (tparents_zero_iff _ x) Hp j n e (cfind_In _ _ _ Fj) He Er).
    + intros o y Ho Er. destruct (mi_cown s H o Ho) as [id Eo]. congruence.
  - apply (mi_cown s H).
  - apply tremove_vals_nodup. apply (mi_vals s H).
  - eapply Permutation_NoDup; [exact Hperm2|apply (mi_slots s H)].
  - intros y Hy. apply (mi_bound s H). eapply Permutation_in; [apply Permutation_sym; exact Hperm2|exact Hy].
  - pose proof (length_tremove x _ nd F). pose proof (mi_cap s H). lia.
  - intros o Ho. destruct (mi_own s H o Ho) as [tn Fo]. rewrite (tfind_tremove x _ _ Hids).
    destruct (N.eqb x (snd o)) eqn:E; [|eauto]. apply N.eqb_eq in E. exfalso.
    apply (proj1 (towners_zero_iff _ x) Hw o Ho). symmetry. exact E.
  - intros y tn Fy. rewrite (tfind_tremove x _ y Hids) in Fy.
    destruct (N.eqb x y); [discriminate|]. apply (mi_rc s H y tn Fy).
Qed.

(** ** 1. every enabled action preserves the invariant *)

Theorem tstep_inv : forall s a s' r, MInv s -> tstep k nl s a = Some (s', r) -> MInv s'.
Proof.
  intros s a s' r H Hs. destruct a as [a|tid v|tid x|x].
  - destruct a as [tid lvl ch fr|tid e|tid e|tid tid' e|id|tid e]; unfold tstep in Hs.
    + (* get_or_insert *)
      destruct (step k (tterms (ts_tt s)) nl (ts_c s) (AGoi tid lvl ch fr)) as [[c' r0]|] eqn:Hc; [|discriminate].
      destruct (t_take_toks tid ch (ts_own s)) as [own'|] eqn:Ht; [|discriminate].
      inversion Hs; subst. eapply inv_goi; eauto.
    + (* retain *)
      destruct (eref e) as [x|id] eqn:Er.
      * destruct (t_can_borrow_b nl s e x) eqn:Hb; [|discriminate]. inversion Hs; subst.
        unfold t_can_borrow_b in Hb. apply orb_true_iff in Hb. destruct Hb as [Hb|Hb].
        -- apply towners_existsb in Hb. destruct (towners_pos_In _ _ Hb) as [o [Ho Eo]].
           destruct (mi_own s H o Ho) as [nd F]. rewrite Eo in F. eapply inv_t_inc; eauto.
        -- pose proof (can_borrow_ok k _ nl _ e (mi_c s H) Hb) as Hok.
           unfold edge_ok_b in Hok. apply andb_true_iff in Hok. destruct Hok as [Hok _].
           rewrite Er in Hok. simpl in Hok. rewrite assoc_tterms in Hok.
           destruct (tfind (ts_tt s) x) as [nd|] eqn:F; [|discriminate]. eapply inv_t_inc; eauto.
      * unfold inner_step in Hs.
        destruct (step k (tterms (ts_tt s)) nl (ts_c s) (ARetain tid e)) as [[c' r0]|] eqn:Hc; [|discriminate].
        inversion Hs; subst. eapply inv_inner_other; eauto; intros; discriminate.
    + (* release *)
      destruct (eref e) as [x|id] eqn:Er.
      * destruct (t_take_tok (tid, x) (ts_own s)) as [own'|] eqn:Ht; [|discriminate].
        inversion Hs; subst. eapply inv_t_dec; eauto.
      * unfold inner_step in Hs.
        destruct (step k (tterms (ts_tt s)) nl (ts_c s) (ARelease tid e)) as [[c' r0]|] eqn:Hc; [|discriminate].
        inversion Hs; subst. eapply inv_inner_other; eauto; intros; discriminate.
    + (* move *)
      destruct (eref e) as [x|id] eqn:Er.
      * destruct (t_take_tok (tid, x) (ts_own s)) as [own'|] eqn:Ht; [|discriminate].
        inversion Hs; subst. eapply inv_t_move; eauto.
      * unfold inner_step in Hs.
        destruct (step k (tterms (ts_tt s)) nl (ts_c s) (AMove tid tid' e)) as [[c' r0]|] eqn:Hc; [|discriminate].
        inversion Hs; subst. eapply inv_inner_other; eauto; intros; discriminate.
    + (* gc of one inner node *)
      destruct (step k (tterms (ts_tt s)) nl (ts_c s) (AGcNode id)) as [[c' r0]|] eqn:Hc; [|discriminate].
      destruct (cfind (cn (ts_c s)) id) as [nd|] eqn:F; [|discriminate].
      inversion Hs; subst. eapply inv_gc_node; eauto.
    + (* tag flip *)
      unfold inner_step in Hs.
      destruct (step k (tterms (ts_tt s)) nl (ts_c s) (ANot tid e)) as [[c' r0]|] eqn:Hc; [|discriminate].
      inversion Hs; subst. eapply inv_inner_other; eauto; intros; discriminate.
  - (* get_edge *)
    unfold tstep in Hs. destruct (tfind_val (ts_tt s) v) as [x|] eqn:Fv.
    + inversion Hs; subst. destruct (tfind_val_Some _ _ _ Fv) as [nd [Hin _]].
      eapply inv_t_inc; [exact H|]. apply In_tfind; [apply MInv_ids; exact H|exact Hin].
    + destruct (ts_free s) as [|x fr] eqn:Hf.
      * inversion Hs; subst. exact H.
      * inversion Hs; subst. apply inv_t_new; auto.
  - (* iterator item *)
    unfold tstep in Hs. destruct (tfind (ts_tt s) x) as [nd|] eqn:F; [|discriminate].
    inversion Hs; subst. eapply inv_t_inc; eauto.
  - (* gc of one terminal *)
    unfold tstep in Hs. destruct (tfind (ts_tt s) x) as [nd|] eqn:F; [|discriminate].
    destruct (N.eqb_spec (trc nd) 0) as [Hz|_]; [|discriminate].
    inversion Hs; subst. eapply inv_t_gc; eauto.
Qed.

(** 2. any interleaving = any list of actions *)
Theorem trun_inv : forall sched s s', MInv s -> trun k nl s sched = Some s' -> MInv s'.
Proof.
  induction sched as [|a r IH]; intros s s' H Hr; simpl in Hr.
  - inversion Hr; subst. exact H.
  - destruct (tstep k nl s a) as [[s1 res]|] eqn:Hs; [|discriminate].
    apply (IH s1 s'); [eapply tstep_inv; eauto|exact Hr].
Qed.

Theorem treachable_inv : forall sched s, trun k nl (tinit cap) sched = Some s -> MInv s.
Proof. intros sched s. apply trun_inv. apply MInv_init. Qed.

End Proofs.
