(** * C05 — the dynamic terminal manager: what the operations guarantee

    For every state satisfying [MInv] (hence every state reachable from [tinit cap] under any
    interleaving):  the collector frees only unreferenced terminals and an owner's release
    never underflows ([tgc_term_safe], [t_release_safe], [t_borrow_live]);  no other action
    removes a terminal or changes its value ([tstep_keeps], [tstep_frame]);  `get_edge`
    returns THE terminal with the value and allocates only if there is none, it fails iff
    the value is absent and all [cap] slots are in use ([tget_result], [tget_agree],
    [tget_oom_iff]);  the same value yields the same id until that terminal is collected
    ([trun_get_stable], [trun_get_idle]);  after a collection a re-created value is a newly
    written entry with count 1 ([tget_after_gc_fresh]);  the iterator's retain and the
    consumer's `drop_edge` cancel ([titer_item_release], [titer_all_release],
    [titer_interleaved_release]). *)

From Coq Require Import List NArith PArith Bool Arith Lia Permutation.
From OxiVerif Require Import DD.Table DD.TableProofs Mgr.Conc Mgr.ConcBase Mgr.ConcProofs Mgr.ConcGc
  Mgr.Terminals Mgr.TerminalsBase Mgr.TerminalsProofs.
Import ListNotations.

Arguments N.add : simpl never.
Arguments N.sub : simpl never.
Arguments N.mul : simpl never.

Section Thms.
Variable k : kind.
Variable nl : nat.
Variable cap : nat.

Notation MInv := (MInv k nl cap).
Notation tstep := (tstep k nl).
Notation trun := (trun k nl).

(** the thread that performs an action ([None]: the collector) *)
Definition tact_tid (a : tact) : option nat :=
  match a with
  | TIn a => act_tid a
  | TGet tid _ | TIterItem tid _ => Some tid
  | TGcTerm _ => None
  end.

Lemma trun_cons : forall s a r,
  trun s (a :: r) = match tstep s a with Some (s', _) => trun s' r | None => None end.
Proof. reflexivity. Qed.

Lemma trun_app : forall a b s,
  trun s (a ++ b) = match trun s a with Some s1 => trun s1 b | None => None end.
Proof.
  induction a as [|x r IH]; intros b s; simpl; [reflexivity|].
  destruct (tstep s x) as [[s1 res]|]; [apply IH|reflexivity].
Qed.

(** lookup by value = lookup of THE entry with that value *)
Lemma tfind_val_iff : forall s v x, MInv s ->
  (tfind_val (ts_tt s) v = Some x <-> exists nd, tfind (ts_tt s) x = Some nd /\ tval nd = v).
Proof.
  intros s v x H. split.
  - intros F. destruct (tfind_val_Some _ _ _ F) as [nd [Hin Hv]]. exists nd. split; [|exact Hv].
    apply In_tfind; [apply (MInv_ids _ _ _ _ H)|exact Hin].
  - intros [nd [F Hv]]. eapply tfind_val_complete; [apply (mi_vals _ _ _ _ H)|apply tfind_In; exact F|exact Hv].
Qed.

(** hash consing: two stored terminals with the same value are the same terminal *)
Theorem terminals_canonical : forall s x y nx ny, MInv s ->
  tfind (ts_tt s) x = Some nx -> tfind (ts_tt s) y = Some ny -> tval nx = tval ny -> x = y.
Proof.
  intros s x y nx ny H Fx Fy E.
  assert (H1 : tfind_val (ts_tt s) (tval nx) = Some x) by (apply tfind_val_iff; eauto).
  assert (H2 : tfind_val (ts_tt s) (tval nx) = Some y) by (apply tfind_val_iff; eauto).
  congruence.
Qed.

(** ** the collector *)

(** 3. a terminal disappears only when neither an owned edge nor a stored node refers to it *)
Theorem tgc_term_safe : forall s x s' r, MInv s -> tstep s (TGcTerm x) = Some (s', r) ->
  towners (ts_own s) x = 0 /\ tparents (cn (ts_c s)) x = 0 /\
  (forall o, In o (ts_own s) -> snd o <> x) /\
  (forall j nd e, cfind (cn (ts_c s)) j = Some nd -> In e (cch nd) -> eref e <> RT x) /\
  tfind (ts_tt s') x = None /\ In x (ts_free s') /\
  ts_c s' = ts_c s /\ ts_own s' = ts_own s.
Proof.
  intros s x s' r H Hs. unfold Terminals.tstep in Hs.
  destruct (tfind (ts_tt s) x) as [nd|] eqn:F; [|discriminate].
  destruct (N.eqb_spec (trc nd) 0) as [Hz|_]; [|discriminate].
  inversion Hs; subst. simpl.
  destruct (rc_zero_unreferenced _ _ _ s x nd H F Hz) as [Hw Hp].
  repeat split; auto.
  - apply towners_zero_iff. exact Hw.
  - intros j n e Fj He. apply (proj1 (tparents_zero_iff _ x) Hp j n e (cfind_In _ _ _ Fj) He).
  - rewrite (tfind_tremove x _ x (MInv_ids _ _ _ _ H)). rewrite N.eqb_refl. reflexivity.
Qed.

(** count 0 <=> no owner and no parent; then the collector's action is enabled *)
Theorem tgc_term_enabled : forall s x nd, MInv s -> tfind (ts_tt s) x = Some nd ->
  (trc nd = 0%N <-> towners (ts_own s) x = 0 /\ tparents (cn (ts_c s)) x = 0) /\
  (trc nd = 0%N -> exists s', tstep s (TGcTerm x) = Some (s', TRnone)).
Proof.
  intros s x nd H F. pose proof (mi_rc _ _ _ s H x nd F) as Hr. split.
  - split; [intros Hz; lia|intros [H1 H2]; lia].
  - intros Hz. unfold Terminals.tstep. rewrite F, Hz. simpl. eexists; reflexivity.
Qed.

(** an owner's release finds a positive count (the saturating [N.pred] of [t_dec] is never
    hit; `debug_assert!(_old_rc > 1)` of `release` holds) *)
Theorem t_release_safe : forall s tid x b, MInv s -> In (tid, x) (ts_own s) ->
  exists nd s', tfind (ts_tt s) x = Some nd /\ trc nd <> 0%N /\
    tstep s (TIn (ARelease tid (mkEdge (RT x) b))) = Some (s', TRnone) /\
    tfind (ts_tt s') x = Some (mkT (tval nd) (N.pred (trc nd))).
Proof.
  intros s tid x b H Hin. destruct (mi_own _ _ _ s H _ Hin) as [nd F]. simpl in F.
  destruct (In_t_take_tok _ _ Hin) as [own' Ht].
  pose proof (mi_rc _ _ _ s H x nd F) as Hr. pose proof (In_towners_pos _ x _ Hin eq_refl) as Hp.
  exists nd. eexists. split; [exact F|]. split; [lia|].
  unfold Terminals.tstep. simpl. rewrite Ht. split; [reflexivity|]. simpl.
  unfold t_dec. rewrite tfind_t_upd, N.eqb_refl, F. reflexivity.
Qed.

Lemma borrow_b_inv : forall t f root e, borrow_b t f root e = true ->
  root = e \/ exists j nd, cfind t j = Some nd /\ In e (cch nd).
Proof.
  induction f as [|f IH]; intros root e Hb; simpl in Hb; apply orb_true_iff in Hb;
    destruct Hb as [Hb|Hb]; try (left; apply edge_eqb_eq; exact Hb); try discriminate.
  destruct (eref root) as [x|id]; [discriminate|].
  destruct (cfind t id) as [nd|] eqn:F; [|discriminate].
  apply existsb_exists in Hb. destruct Hb as [c [Hc Hbc]].
  destruct (IH c e Hbc) as [E|E]; [|right; exact E].
  subst c. right. exists id, nd. split; [exact F|exact Hc].
Qed.

(** an edge to a terminal that a thread can borrow (and then retain) has a positive count:
    the collector cannot free the terminal under the thread's feet *)
Theorem t_borrow_live : forall s e x, MInv s -> eref e = RT x -> t_can_borrow_b nl s e x = true ->
  exists nd, tfind (ts_tt s) x = Some nd /\ trc nd <> 0%N.
Proof.
  intros s e x H Er Hb. unfold t_can_borrow_b in Hb. apply orb_true_iff in Hb. destruct Hb as [Hb|Hb].
  - apply towners_existsb in Hb. destruct (towners_pos_In _ _ Hb) as [o [Ho Eo]].
    destruct (mi_own _ _ _ s H o Ho) as [nd F]. rewrite Eo in F. exists nd. split; [exact F|].
    pose proof (mi_rc _ _ _ s H x nd F). lia.
  - unfold can_borrow_b in Hb. apply existsb_exists in Hb. destruct Hb as [o [Ho Hbo]].
    destruct (borrow_b_inv _ _ _ _ Hbo) as [E|[j [nd [F He]]]].
    + destruct (mi_cown _ _ _ s H o Ho) as [id Eo]. rewrite E in Eo. congruence.
    + destruct (child_term_stored _ _ _ s j nd e x H F He Er) as [tn Ft].
      exists tn. split; [exact Ft|].
      pose proof (mi_rc _ _ _ s H x tn Ft). pose proof (In_tparents_pos _ x j nd e (cfind_In _ _ _ F) He Er). lia.
Qed.

(** ** frame *)

(** 4. only the collector's action on [x] itself removes the terminal [x]; no action
    changes the value of a stored terminal *)
Theorem tstep_keeps : forall s a s' r x nd, MInv s -> tstep s a = Some (s', r) ->
  a <> TGcTerm x -> tfind (ts_tt s) x = Some nd ->
  exists nd', tfind (ts_tt s') x = Some nd' /\ tval nd' = tval nd.
Proof.
  intros s a s' r x nd H Hs Hne F.
  assert (Hupd : forall f y, exists nd', tfind (t_upd f y (ts_tt s)) x = Some nd' /\ tval nd' = tval nd).
  { intros f y. rewrite tfind_t_upd, F. destruct (N.eqb y x); eexists; split; reflexivity. }
  assert (Hdec : forall ch, exists nd', tfind (t_dec_children (ts_tt s) ch) x = Some nd' /\ tval nd' = tval nd).
  { intros ch. rewrite tfind_t_dec_children, F. eexists; split; reflexivity. }
  assert (Hin : forall a0 c' r0, inner_step k nl s a0 = Some (c', r0) -> ts_tt c' = ts_tt s).
  { intros a0 c' r0 Hi. unfold inner_step in Hi.
    destruct (step k (tterms (ts_tt s)) nl (ts_c s) a0) as [[c1 r1]|]; [|discriminate].
    inversion Hi; subst. reflexivity. }
  destruct a as [a|tid v|tid y|y]; unfold Terminals.tstep in Hs.
  - destruct a as [tid lvl ch fr|tid e|tid e|tid tid' e|id|tid e].
    + destruct (step k (tterms (ts_tt s)) nl (ts_c s) (AGoi tid lvl ch fr)) as [[c' r0]|]; [|discriminate].
      destruct (t_take_toks tid ch (ts_own s)) as [own'|]; [|discriminate].
      inversion Hs; subst. simpl. destruct (find_shape (cn (ts_c s)) lvl ch); [apply Hdec|eauto].
    + destruct (eref e) as [y|id].
      * destruct (t_can_borrow_b nl s e y); [|discriminate]. inversion Hs; subst. apply Hupd.
      * rewrite (Hin _ _ _ Hs). eauto.
    + destruct (eref e) as [y|id].
      * destruct (t_take_tok (tid, y) (ts_own s)); [|discriminate]. inversion Hs; subst. apply Hupd.
      * rewrite (Hin _ _ _ Hs). eauto.
    + destruct (eref e) as [y|id].
      * destruct (t_take_tok (tid, y) (ts_own s)); [|discriminate]. inversion Hs; subst. simpl. eauto.
      * rewrite (Hin _ _ _ Hs). eauto.
    + destruct (step k (tterms (ts_tt s)) nl (ts_c s) (AGcNode id)) as [[c' r0]|]; [|discriminate].
      destruct (cfind (cn (ts_c s)) id) as [gn|]; [|discriminate]. inversion Hs; subst. apply Hdec.
    + rewrite (Hin _ _ _ Hs). eauto.
  - destruct (tfind_val (ts_tt s) v) as [y|].
    + inversion Hs; subst. apply Hupd.
    + destruct (ts_free s) as [|y fr] eqn:Hf.
      * inversion Hs; subst. eauto.
      * inversion Hs; subst. simpl.
        destruct (N.eqb y x) eqn:E; [|eauto]. apply N.eqb_eq in E. subst y. exfalso.
        pose proof (mi_slots _ _ _ s H) as Hsl. rewrite Hf in Hsl.
        apply (NoDup_remove_2 _ _ _ Hsl). apply in_or_app. left. eapply tfind_Some_keys; eauto.
  - destruct (tfind (ts_tt s) y); [|discriminate]. inversion Hs; subst. apply Hupd.
  - destruct (tfind (ts_tt s) y) as [yn|]; [|discriminate].
    destruct (N.eqb (trc yn) 0); [|discriminate]. inversion Hs; subst. simpl.
    rewrite (tfind_tremove y _ x (MInv_ids _ _ _ _ H)).
    destruct (N.eqb y x) eqn:E; [|eauto]. apply N.eqb_eq in E. subst y. congruence.
Qed.

(** no action at all removes (or alters the value of) a terminal that is in use *)
Theorem tstep_frame : forall s a s' r x nd, MInv s -> tstep s a = Some (s', r) ->
  tfind (ts_tt s) x = Some nd -> trc nd <> 0%N ->
  exists nd', tfind (ts_tt s') x = Some nd' /\ tval nd' = tval nd.
Proof.
  intros s a s' r x nd H Hs F Hnz. eapply tstep_keeps; eauto.
  intros E. subst a. unfold Terminals.tstep in Hs. rewrite F in Hs.
  destruct (N.eqb_spec (trc nd) 0); [contradiction|discriminate].
Qed.

(** an action of another thread (or of the collector) does not consume a thread's token *)
Lemma inner_step_own : forall s a s' r, inner_step k nl s a = Some (s', r) -> ts_own s' = ts_own s.
Proof.
  intros s a s' r Hi. unfold inner_step in Hi.
  destruct (step k (tterms (ts_tt s)) nl (ts_c s) a) as [[c1 r1]|]; [|discriminate].
  inversion Hi; subst. reflexivity.
Qed.

Theorem tstep_keeps_token : forall s a s' r tid x, tstep s a = Some (s', r) ->
  tact_tid a <> Some tid -> In (tid, x) (ts_own s) -> In (tid, x) (ts_own s').
Proof.
  intros s a s' r tid x Hs Hne Hin.
  assert (Hneq : forall t y, Some t <> Some tid -> (tid, x) <> (t, y)) by (intros t y N E; inversion E; congruence).
  destruct a as [a|t v|t y|y]; unfold Terminals.tstep in Hs; simpl in Hne.
  - destruct a as [t lvl ch fr|t e|t e|t t' e|id|t e]; simpl in Hne.
    + destruct (step k (tterms (ts_tt s)) nl (ts_c s) (AGoi t lvl ch fr)) as [[c' r0]|]; [|discriminate].
      destruct (t_take_toks t ch (ts_own s)) as [own'|] eqn:Ht; [|discriminate].
      inversion Hs; subst. simpl. eapply t_take_toks_other; [exact Ht| |exact Hin].
      simpl. intros E. apply Hne. congruence.
    + destruct (eref e) as [y|id].
      * destruct (t_can_borrow_b nl s e y); [|discriminate]. inversion Hs; subst. right. exact Hin.
      * rewrite (inner_step_own _ _ _ _ Hs). exact Hin.
    + destruct (eref e) as [y|id].
      * destruct (t_take_tok (t, y) (ts_own s)) as [own'|] eqn:Ht; [|discriminate].
        inversion Hs; subst. simpl. eapply t_take_tok_other; [exact Ht|apply Hneq; exact Hne|exact Hin].
      * rewrite (inner_step_own _ _ _ _ Hs). exact Hin.
    + destruct (eref e) as [y|id].
      * destruct (t_take_tok (t, y) (ts_own s)) as [own'|] eqn:Ht; [|discriminate].
        inversion Hs; subst. simpl. right.
        eapply t_take_tok_other; [exact Ht|apply Hneq; exact Hne|exact Hin].
      * rewrite (inner_step_own _ _ _ _ Hs). exact Hin.
    + destruct (step k (tterms (ts_tt s)) nl (ts_c s) (AGcNode id)) as [[c' r0]|]; [|discriminate].
      destruct (cfind (cn (ts_c s)) id); [|discriminate]. inversion Hs; subst. exact Hin.
    + rewrite (inner_step_own _ _ _ _ Hs). exact Hin.
  - destruct (tfind_val (ts_tt s) v).
    + inversion Hs; subst. right. exact Hin.
    + destruct (ts_free s); inversion Hs; subst; [exact Hin|right; exact Hin].
  - destruct (tfind (ts_tt s) y); [|discriminate]. inversion Hs; subst. right. exact Hin.
  - destruct (tfind (ts_tt s) y) as [yn|]; [|discriminate].
    destruct (N.eqb (trc yn) 0); inversion Hs; subst. exact Hin.
Qed.

(** ** `get_edge` *)

(** 5. the result of `get_edge` *)
Theorem tget_result : forall s tid v s' r, MInv s -> tstep s (TGet tid v) = Some (s', r) ->
  (r = TRoom /\ s' = s /\ tfind_val (ts_tt s) v = None /\ length (ts_tt s) = cap) \/
  (exists x, r = TRterm x /\ In (tid, x) (ts_own s') /\ ts_c s' = ts_c s /\
     ((exists nd, tfind (ts_tt s) x = Some nd /\ tval nd = v /\
                  tfind (ts_tt s') x = Some (mkT v (N.succ (trc nd))) /\ ts_free s' = ts_free s) \/
      (tfind_val (ts_tt s) v = None /\ tfind (ts_tt s) x = None /\
       ts_free s = x :: ts_free s' /\ ts_tt s' = (x, mkT v 1%N) :: ts_tt s))).
Proof.
  intros s tid v s' r H Hs. unfold Terminals.tstep in Hs.
  destruct (tfind_val (ts_tt s) v) as [x|] eqn:Fv.
  - right. exists x. inversion Hs; subst. simpl. split; [reflexivity|]. split; [left; reflexivity|].
    split; [reflexivity|]. left.
    destruct (proj1 (tfind_val_iff s v x H) Fv) as [nd [F Hv]]. exists nd.
    split; [exact F|]. split; [exact Hv|]. split; [|reflexivity].
    unfold t_inc. rewrite tfind_t_upd, N.eqb_refl, F, Hv. reflexivity.
  - destruct (ts_free s) as [|x fr] eqn:Hf.
    + left. injection Hs as E1 E2. subst s' r. repeat split; auto.
      pose proof (mi_cap _ _ _ s H) as Hc. rewrite Hf in Hc. simpl in Hc. lia.
    + right. exists x. inversion Hs; subst. simpl. split; [reflexivity|]. split; [left; reflexivity|].
      split; [reflexivity|]. right. repeat split; auto.
      apply tfind_None_keys. intros Hin.
      pose proof (mi_slots _ _ _ s H) as Hsl. rewrite Hf in Hsl.
      apply (NoDup_remove_2 _ _ _ Hsl). apply in_or_app. left. exact Hin.
Qed.

(** `get_edge` fails iff the value is not stored and every slot is in use: no slot is lost *)
Theorem tget_oom_iff : forall s tid v, MInv s ->
  (tstep s (TGet tid v) = Some (s, TRoom) <->
   tfind_val (ts_tt s) v = None /\ length (ts_tt s) = cap).
Proof.
  intros s tid v H. split.
  - intros Hs. destruct (tget_result s tid v s TRoom H Hs) as [[_ [_ [H1 H2]]]|[x [E _]]]; [auto|discriminate].
  - intros [Hv Hl]. unfold Terminals.tstep. rewrite Hv.
    pose proof (mi_cap _ _ _ s H) as Hc. destruct (ts_free s); [reflexivity|simpl in Hc; lia].
Qed.

(** if a terminal with the value is stored, every thread gets exactly its id *)
Theorem tget_agree : forall s x nd tid, MInv s -> tfind (ts_tt s) x = Some nd ->
  exists s', tstep s (TGet tid (tval nd)) = Some (s', TRterm x).
Proof.
  intros s x nd tid H F. unfold Terminals.tstep.
  rewrite (proj2 (tfind_val_iff s (tval nd) x H)); [|eauto]. eexists; reflexivity.
Qed.

(** different values get different terminals, equal values the same *)
Theorem tget_twice : forall s t1 t2 v1 v2 s1 s2 x1 x2, MInv s ->
  tstep s (TGet t1 v1) = Some (s1, TRterm x1) -> tstep s1 (TGet t2 v2) = Some (s2, TRterm x2) ->
  (x1 = x2 <-> v1 = v2).
Proof.
  intros s t1 t2 v1 v2 s1 s2 x1 x2 H H1 H2.
  pose proof (tstep_inv _ _ _ _ _ _ _ H H1) as Hi1.
  assert (F1 : exists n1, tfind (ts_tt s1) x1 = Some n1 /\ tval n1 = v1).
  { destruct (tget_result _ _ _ _ _ H H1) as [[E _]|[x [E [_ [_ [[nd [_ [Hv [F _]]]]|[_ [_ [_ Et]]]]]]]]]; [discriminate| |];
      inversion E; subst x.
    - eexists; split; [exact F|reflexivity].
    - rewrite Et. simpl. rewrite N.eqb_refl. eexists; split; reflexivity. }
  destruct F1 as [n1 [F1 Hv1]].
  split.
  - intros E. subst x2.
    destruct (tget_result _ _ _ _ _ Hi1 H2) as [[E _]|[x [E [_ [_ [[nd [F [Hv _]]]|[_ [Fn _]]]]]]]]; [discriminate| |];
      inversion E; subst x; congruence.
  - intros E. subst v2. destruct (tget_agree s1 x1 n1 t2 Hi1 F1) as [s' Hs']. rewrite Hv1 in Hs'. congruence.
Qed.

(** 6. canonicity over time: as long as the terminal is not collected, `get_edge` of its
    value returns its id -- whatever all threads do in between *)
Theorem trun_get_stable : forall sched s s' v x, MInv s -> tfind_val (ts_tt s) v = Some x ->
  trun s sched = Some s' -> ~ In (TGcTerm x) sched ->
  tfind_val (ts_tt s') v = Some x /\
  forall tid, exists s'', tstep s' (TGet tid v) = Some (s'', TRterm x).
Proof.
  induction sched as [|a rest IH]; intros s s' v x H Fv Hr Hni; simpl in Hr.
  - inversion Hr; subst. split; [exact Fv|]. intros tid. unfold Terminals.tstep. rewrite Fv. eexists; reflexivity.
  - destruct (tstep s a) as [[s1 res]|] eqn:Hs; [|discriminate].
    destruct (proj1 (tfind_val_iff s v x H) Fv) as [nd [F Hv]].
    assert (Hne : a <> TGcTerm x) by (intros E; apply Hni; left; exact E).
    destruct (tstep_keeps s a s1 res x nd H Hs Hne F) as [nd' [F' Hv']].
    pose proof (tstep_inv _ _ _ _ _ _ _ H Hs) as H1.
    apply (IH s1 s' v x H1); [|exact Hr|intros Hin; apply Hni; right; exact Hin].
    apply tfind_val_iff; [exact H1|]. exists nd'. split; [exact F'|congruence].
Qed.

(** ... in particular while some thread sits on an edge to it: the others and the collector
    can do what they want (the collector's action on it is never enabled) *)
Theorem trun_get_idle : forall sched s s' tid x nd, MInv s -> trun s sched = Some s' ->
  (forall a, In a sched -> tact_tid a <> Some tid) ->
  In (tid, x) (ts_own s) -> tfind (ts_tt s) x = Some nd ->
  In (tid, x) (ts_own s') /\
  (exists nd', tfind (ts_tt s') x = Some nd' /\ tval nd' = tval nd /\ trc nd' <> 0%N) /\
  forall t, exists s'', tstep s' (TGet t (tval nd)) = Some (s'', TRterm x).
Proof.
  induction sched as [|a rest IH]; intros s s' tid x nd H Hr Hidle Hin F; simpl in Hr.
  - inversion Hr; subst. split; [exact Hin|]. split.
    + exists nd. repeat split; auto. pose proof (mi_rc _ _ _ s' H x nd F).
      pose proof (In_towners_pos _ x _ Hin eq_refl). lia.
    + intros t. apply (tget_agree s' x nd t H F).
  - destruct (tstep s a) as [[s1 res]|] eqn:Hs; [|discriminate].
    assert (Hnz : trc nd <> 0%N).
    { pose proof (mi_rc _ _ _ s H x nd F). pose proof (In_towners_pos _ x _ Hin eq_refl). lia. }
    destruct (tstep_frame s a s1 res x nd H Hs F Hnz) as [nd1 [F1 Hv1]].
    pose proof (tstep_inv _ _ _ _ _ _ _ H Hs) as H1.
    assert (Hin1 : In (tid, x) (ts_own s1)).
    { eapply tstep_keeps_token; [exact Hs|apply Hidle; left; reflexivity|exact Hin]. }
    destruct (IH s1 s' tid x nd1 H1 Hr (fun a0 Ha => Hidle a0 (or_intror Ha)) Hin1 F1) as [G1 [[nd' [G2 [G3 G4]]] G5]].
    split; [exact G1|]. split.
    + exists nd'. repeat split; auto. congruence.
    + rewrite <- Hv1. exact G5.
Qed.

(** a value whose terminal was collected is re-created as a newly written entry with count 1
    (in the slot that the collection has just pushed onto the free chain) *)
Theorem tget_after_gc_fresh : forall s x nd s1 r1 tid, MInv s -> tfind (ts_tt s) x = Some nd ->
  tstep s (TGcTerm x) = Some (s1, r1) ->
  tfind_val (ts_tt s1) (tval nd) = None /\
  exists s2, tstep s1 (TGet tid (tval nd)) = Some (s2, TRterm x) /\
             ts_tt s2 = (x, mkT (tval nd) 1%N) :: ts_tt s1 /\ ts_free s2 = ts_free s.
Proof.
  intros s x nd s1 r1 tid H F Hs.
  pose proof (tstep_inv _ _ _ _ _ _ _ H Hs) as H1.
  unfold Terminals.tstep in Hs. rewrite F in Hs.
  destruct (N.eqb (trc nd) 0); [|discriminate]. inversion Hs; subst. simpl.
  assert (Hv : tfind_val (tremove x (ts_tt s)) (tval nd) = None).
  { destruct (tfind_val (tremove x (ts_tt s)) (tval nd)) as [y|] eqn:Fy; [|reflexivity]. exfalso.
    destruct (proj1 (tfind_val_iff _ _ _ H1) Fy) as [ny [Fy1 Hvy]]. simpl in Fy1.
    rewrite (tfind_tremove x _ y (MInv_ids _ _ _ _ H)) in Fy1.
    destruct (N.eqb x y) eqn:E; [discriminate|]. apply N.eqb_neq in E. apply E.
    apply (terminals_canonical s x y nd ny H F Fy1). symmetry. exact Hvy. }
  split; [exact Hv|]. unfold Terminals.tstep. simpl. rewrite Hv. eexists. split; [reflexivity|]. split; reflexivity.
Qed.

(** ** the iterator *)

Theorem titer_ids_spec : forall s, MInv s ->
  NoDup (titer_ids s) /\ length (titer_ids s) = tlen s /\
  forall x, In x (titer_ids s) <-> exists nd, tfind (ts_tt s) x = Some nd.
Proof.
  intros s H. unfold titer_ids, tlen. split; [apply (MInv_ids _ _ _ _ H)|]. split; [apply map_length|].
  intros x. split; [apply keys_tfind_Some|]. intros [nd F]. eapply tfind_Some_keys; eauto.
Qed.

(** 7. one `next()` followed by `drop_edge` of the yielded edge restores the state exactly *)
Theorem titer_item_release : forall s tid x s1 r b, tstep s (TIterItem tid x) = Some (s1, r) ->
  r = TRterm x /\ tstep s1 (TIn (ARelease tid (mkEdge (RT x) b))) = Some (s, TRnone).
Proof.
  intros s tid x s1 r b Hs. unfold Terminals.tstep in Hs.
  destruct (tfind (ts_tt s) x); [|discriminate]. inversion Hs; subst. split; [reflexivity|].
  unfold Terminals.tstep. simpl.
  assert (E : ttok_eqb (tid, x) (tid, x) = true) by (apply ttok_eqb_eq; reflexivity).
  rewrite E. rewrite t_dec_inc. destruct s; reflexivity.
Qed.

Lemma titer_item_enabled : forall s tid x nd, tfind (ts_tt s) x = Some nd ->
  exists s1, tstep s (TIterItem tid x) = Some (s1, TRterm x) /\
             forall y ny, tfind (ts_tt s) y = Some ny -> exists ny', tfind (ts_tt s1) y = Some ny'.
Proof.
  intros s tid x nd F. unfold Terminals.tstep. rewrite F. eexists. split; [reflexivity|].
  intros y ny Fy. simpl. unfold t_inc. rewrite tfind_t_upd, Fy. destruct (N.eqb x y); eauto.
Qed.

Definition iter_acts (tid : nat) (xs : list N) : list tact := map (TIterItem tid) xs.
Definition drop_acts (tid : nat) (xs : list N) : list tact :=
  map (fun x => TIn (ARelease tid (mkEdge (RT x) false))) xs.

(** a complete iteration (all yielded edges collected), then all of them dropped in reverse
    order: the state is exactly the one before *)
Theorem titer_all_release : forall xs s tid,
  (forall x, In x xs -> exists nd, tfind (ts_tt s) x = Some nd) ->
  trun s (iter_acts tid xs ++ drop_acts tid (rev xs)) = Some s.
Proof.
  induction xs as [|x r IH]; intros s tid Hst; [reflexivity|].
  destruct (Hst x (or_introl eq_refl)) as [nd F].
  destruct (titer_item_enabled s tid x nd F) as [s1 [Hs1 Hkeep]].
  destruct (titer_item_release s tid x s1 _ false Hs1) as [_ Hrel].
  change (iter_acts tid (x :: r)) with (TIterItem tid x :: iter_acts tid r).
  change (rev (x :: r)) with (rev r ++ [x]).
  unfold drop_acts at 1. rewrite map_app. fold (drop_acts tid (rev r)).
  rewrite <- app_comm_cons, trun_cons, Hs1, app_assoc, trun_app, IH.
  - cbn [map]. rewrite trun_cons, Hrel. reflexivity.
  - intros y Hy. destruct (Hst y (or_intror Hy)) as [ny Fy]. apply (Hkeep y ny Fy).
Qed.

(** the pattern of the snapshot code: `for t in m.terminals() { ..; m.drop_edge(t) }` *)
Theorem titer_interleaved_release : forall xs s tid,
  (forall x, In x xs -> exists nd, tfind (ts_tt s) x = Some nd) ->
  trun s (flat_map (fun x => [TIterItem tid x; TIn (ARelease tid (mkEdge (RT x) false))]) xs) = Some s.
Proof.
  induction xs as [|x r IH]; intros s tid Hst; [reflexivity|].
  destruct (Hst x (or_introl eq_refl)) as [nd F].
  destruct (titer_item_enabled s tid x nd F) as [s1 [Hs1 _]].
  destruct (titer_item_release s tid x s1 _ false Hs1) as [_ Hrel].
  cbn [flat_map app]. rewrite trun_cons, Hs1, trun_cons, Hrel.
  apply IH. intros y Hy. apply Hst. right. exact Hy.
Qed.

End Thms.
