(** C10, scalar level — model of the float terminal type [F64]
    (/repo/crates/oxidd-rules-mtbdd/src/terminal/f64.rs).

    [f64] is Flocq's [binary64]; the hardware operations [+ - * /] on [f64]
    are Flocq's [b64_plus/b64_minus/b64_mult/b64_div] with rounding to nearest
    even (this identification is the IEEE-754 conformance of the FPU; it is
    exercised by the correspondence run on bit patterns, not proved).  Values
    of the Rust type [F64] are represented by the 64-bit pattern
    [f64::to_bits] of the wrapped float, as a [Z] in [0, 2^64).

    Executable Gallina only; the theorems are in [Num/F64Proofs.v]. *)
From Coq Require Import ZArith Bool.
From Flocq Require Import IEEE754.BinarySingleNaN IEEE754.Binary IEEE754.Bits.
Local Open Scope Z_scope.

(** Rust: [f64::NAN.to_bits()], [(-0.0f64).to_bits()] *)
Definition f64_NAN_bits : Z := 0x7FF8000000000000.
Definition f64_NEG_ZERO_bits : Z := 0x8000000000000000.

(** Rust: the constants [f64::NAN] and [0.0] *)
Definition f64_canonical_nan : binary64 :=
  B754_nan 53 1024 false 2251799813685248 (eq_refl true).
Definition f64_pos_zero : binary64 := B754_zero 53 1024 false.

(** Rust: [impl From<f64> for F64]
    [if value.is_nan() { f64::NAN } else if value.to_bits() == (-0.0f64).to_bits() { 0.0 } else { value }] *)
Definition f64_norm (value : binary64) : binary64 :=
  if is_nan 53 1024 value then f64_canonical_nan
  else if bits_of_b64 value =? f64_NEG_ZERO_bits then f64_pos_zero
  else value.

(** [F64::from(f64::from_bits(x))], observed through [to_bits] *)
Definition f64_from_bits (x : Z) : Z := bits_of_b64 (f64_norm (b64_of_bits x)).

(** the patterns that occur as values of [F64]: fixpoints of the normalisation *)
Definition f64_normal (x : Z) : Prop := f64_from_bits x = x.
Definition f64_normalb (x : Z) : bool := f64_from_bits x =? x.

(** Rust: [NumberBase::zero/one/nan for F64]: [Self(0.)], [Self(1.)], [Self(f64::NAN)] *)
Definition f64_zero : Z := 0.
Definition f64_one : Z := 0x3FF0000000000000.
Definition f64_nan : Z := f64_NAN_bits.

(** Rust: [NumberBase::add] ... [div] for [F64]: [Self::from(self.0 + rhs.0)] ... *)
Definition f64_lift2 (op : binary64 -> binary64 -> binary64) (a b : Z) : Z :=
  bits_of_b64 (f64_norm (op (b64_of_bits a) (b64_of_bits b))).

Definition f64_add : Z -> Z -> Z := f64_lift2 (b64_plus mode_NE).
Definition f64_sub : Z -> Z -> Z := f64_lift2 (b64_minus mode_NE).
Definition f64_mul : Z -> Z -> Z := f64_lift2 (b64_mult mode_NE).
Definition f64_div : Z -> Z -> Z := f64_lift2 (b64_div mode_NE).

(** Rust: [impl PartialEq for F64]: [self.0.to_bits() == other.0.to_bits()] *)
Definition f64_eqb (a b : Z) : bool := a =? b.

(** Rust: [impl PartialOrd for F64]; [f64::partial_cmp] is the IEEE comparison
    ([None] when unordered, -0 = +0) = Flocq's [Bcompare] *)
Definition f64_partial_cmp (a b : Z) : option comparison :=
  if a =? f64_NAN_bits then
    if b =? f64_NAN_bits then Some Eq else None
  else b64_compare (b64_of_bits a) (b64_of_bits b).

(** Rust: default methods [NumberBase::is_zero/is_one/is_nan] *)
Definition f64_is_zero (a : Z) : bool := f64_eqb a f64_zero.
Definition f64_is_one (a : Z) : bool := f64_eqb a f64_one.
Definition f64_is_nan (a : Z) : bool := f64_eqb a f64_nan.

(** Rust: the (Terminal, Terminal) arm of [terminal_bin] for Min / Max,
    instantiated for [F64] *)
Definition f64_min (a b : Z) : Z :=
  match f64_partial_cmp a b with
  | Some Lt | Some Eq => a
  | Some Gt => b
  | None => f64_nan
  end.
Definition f64_max (a b : Z) : Z :=
  match f64_partial_cmp a b with
  | Some Gt | Some Eq => a
  | Some Lt => b
  | None => f64_nan
  end.
