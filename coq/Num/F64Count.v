(** * Model of the floating-point counting type [oxidd_core::util::num::F64]
      (/repo/crates/oxidd-core/src/util/num/mod.rs, [pub struct F64(pub f64)])

    Executable Gallina only (theorems: Num/F64CountProofs.v; the instance of
    the number interface of [sat_count] and the counting theorems:
    DD/SatCountF64.v, DD/SatF64Proofs.v).

    [f64] is Flocq's [binary64]; the hardware operations [+], [-], [*] are
    Flocq's [b64_plus], [b64_minus], [b64_mult] with rounding to nearest even
    (IEEE-754 conformance of the FPU: exercised by the correspondence run on
    bit patterns, not proved).  [f64::exp2] is only ever applied to
    integer-valued arguments ([rhs as f64] for a [u32] shift amount and its
    negation); it is modelled on the integers as the correctly rounded power
    of two: [2^k] for [-1074 <= k <= 1023], [+inf] above, [+0] below (the tie
    [2^-1075] goes to the even neighbour 0).  This is what libm computes for
    these arguments (assumption, exercised by the correspondence run).

    This type is different from the MTBDD terminal type [F64] of
    oxidd-rules-mtbdd (Num/F64.v): no normalisation of NaN / -0. *)
From Coq Require Import ZArith NArith Bool.
From Flocq Require Import Core.Core IEEE754.BinarySingleNaN IEEE754.Binary IEEE754.Bits.
Local Open Scope Z_scope.

Definition Hprec53 : Prec_gt_0 53 := eq_refl.
Definition Hmax1024 : Prec_lt_emax 53 1024 := eq_refl.

(** correctly rounded [m * 2^e] (round to nearest even, overflow to infinity) *)
Definition f64_norm_int (m e : Z) : binary64 :=
  binary_normalize 53 1024 Hprec53 Hmax1024 mode_NE m e false.

(** the integer [v] converted to [f64] ([v as f64]); exact below [2^53] *)
Definition f64_of_N (v : N) : binary64 := f64_norm_int (Z.of_N v) 0.

Definition f64c_pos_zero : binary64 := B754_zero 53 1024 false.
Definition f64c_pos_inf : binary64 := B754_infinity 53 1024 false.

(** [f64::exp2] on the integer-valued argument [k] *)
Definition f64_exp2i (k : Z) : binary64 :=
  if 1024 <=? k then f64c_pos_inf
  else if k <? -1075 then f64c_pos_zero
  else f64_norm_int 1 k.

(** [impl From<u32> for F64]: [Self(value as f64)] *)
Definition f64c_from_u32 (v : N) : binary64 := f64_of_N v.

(** [self.0 == 0.]: IEEE equality with zero holds exactly for [+0] and [-0] *)
Definition f64c_is_zero (x : binary64) : bool :=
  match x with B754_zero _ _ _ => true | _ => false end.

(** [impl Add for F64]: [F64(self.0 + rhs.0)] *)
Definition f64c_add (x y : binary64) : binary64 := b64_plus mode_NE x y.
(** [impl Sub for F64]: [F64(self.0 - rhs.0)] *)
Definition f64c_sub (x y : binary64) : binary64 := b64_minus mode_NE x y.

(** [impl Shl<u32> for F64]:
    [if self.0 == 0. { return self; } F64(self.0 * (rhs as f64).exp2())]
    (the early return is the fix of [0. * inf = NaN] for [rhs >= 1024]) *)
Definition f64c_shl (x : binary64) (k : N) : binary64 :=
  if f64c_is_zero x then x else b64_mult mode_NE x (f64_exp2i (Z.of_N k)).

(** [impl Shr<u32> for F64]: [F64(self.0 * (-(rhs as f64)).exp2())] *)
Definition f64c_shr (x : binary64) (k : N) : binary64 :=
  b64_mult mode_NE x (f64_exp2i (- Z.of_N k)).

(** *** The same operations on bit patterns ([f64::to_bits] / [from_bits]),
    for the correspondence driver *)
Definition f64c_bits_from_u32 (v : N) : Z := bits_of_b64 (f64c_from_u32 v).
Definition f64c_bits_add (a b : Z) : Z := bits_of_b64 (f64c_add (b64_of_bits a) (b64_of_bits b)).
Definition f64c_bits_sub (a b : Z) : Z := bits_of_b64 (f64c_sub (b64_of_bits a) (b64_of_bits b)).
Definition f64c_bits_shl (a : Z) (k : N) : Z := bits_of_b64 (f64c_shl (b64_of_bits a) k).
Definition f64c_bits_shr (a : Z) (k : N) : Z := bits_of_b64 (f64c_shr (b64_of_bits a) k).
Definition f64c_bits_is_nan (a : Z) : bool := is_nan 53 1024 (b64_of_bits a).
Definition f64c_bits_of_N (v : N) : Z := bits_of_b64 (f64_of_N v).
