(** * Theorems about the counting type [F64] (model: Num/F64Count.v)

    [dy c j] is the real number [c * 2^j]; [frep x c j]: the float [x] is
    finite, non-negative and holds exactly [c * 2^j].
    - exactness: sums ([frep_add], [frep_add_as]), scalings by powers of two
      ([frep_shl], [frep_shr], [frep_mult]) and conversions ([of_N_rep]) of
      values with at most 53 significant bits ([c <= 2^53], exponent
      [>= -1074]) are exact below [2^1024] and [+inf] from there on
      ([frep_add_ovf], [frep_shl_ovf], [of_N_ovf]); [shl_of_N]: [x << k] is the
      correctly rounded conversion of the exact integer product;
    - in general every operation is Flocq's correctly rounded result:
      [f64c_add_round], [f64c_shl_round], [f64c_shr_round], [f64_of_N_round]
      (and the overflow cases).
    Limits of the code that show in the statements: [exp2(k) = +inf] for
    [k >= 1024] and [exp2(-k) = 0] for [k >= 1075], so [x << k] is the rounded
    product only for [k <= 1023] or operands [>= 1] (what [sat_count] feeds it)
    and [x >> k] only for [k <= 1074].

    Flocq's theorems rest on the classical axioms of Coq's reals; [Print
    Assumptions] lists [ClassicalDedekindReals.sig_forall_dec],
    [ClassicalDedekindReals.sig_not_dec],
    [FunctionalExtensionality.functional_extensionality_dep],
    [Classical_Prop.classic]. *)
From Coq Require Import ZArith NArith Bool Lia Reals Lra.
From Flocq Require Import Core.Core IEEE754.BinarySingleNaN IEEE754.Binary IEEE754.Bits.
From OxiVerif Require Import Num.F64Count.
Local Open Scope Z_scope.

Notation fexp64 := (FLT_exp (-1074) 53).
Notation rnd64 := (round radix2 fexp64 ZnearestE).
Notation fin := (is_finite 53 1024).
Notation sgn := (Bsign 53 1024).
Notation b2r := (B2R 53 1024).

Lemma IZR_N_pow2 : forall k : N, IZR (Z.of_N (2 ^ k)) = bpow radix2 (Z.of_N k).
Proof.
  intros k. rewrite N2Z.inj_pow. change (Z.of_N 2) with (radix_val radix2).
  apply IZR_Zpower. lia.
Qed.

Lemma IZR_N_nonneg : forall c : N, (0 <= IZR (Z.of_N c))%R.
Proof. intros c. apply IZR_le. lia. Qed.

Lemma IZR_N_le_bpow : forall (c p : N), (c <= 2 ^ p)%N -> (IZR (Z.of_N c) <= bpow radix2 (Z.of_N p))%R.
Proof. intros c p H. rewrite <- IZR_N_pow2. apply IZR_le. lia. Qed.

Lemma IZR_N_lt_bpow : forall (c p : N), (c < 2 ^ p)%N -> (IZR (Z.of_N c) < bpow radix2 (Z.of_N p))%R.
Proof. intros c p H. rewrite <- IZR_N_pow2. apply IZR_lt. lia. Qed.

Lemma IZR_N_ge_bpow : forall (c p : N), (2 ^ p <= c)%N -> (bpow radix2 (Z.of_N p) <= IZR (Z.of_N c))%R.
Proof. intros c p H. rewrite <- IZR_N_pow2. apply IZR_le. lia. Qed.

(** [c * 2^j] as a real *)
Definition dy (c : N) (j : Z) : R := (IZR (Z.of_N c) * bpow radix2 j)%R.

Lemma dy_nonneg : forall c j, (0 <= dy c j)%R.
Proof. intros. unfold dy. apply Rmult_le_pos; [apply IZR_N_nonneg | apply bpow_ge_0]. Qed.

Lemma dy_pos : forall c j, c <> 0%N -> (0 < dy c j)%R.
Proof.
  intros c j H. unfold dy. apply Rmult_lt_0_compat; [|apply bpow_gt_0].
  apply IZR_lt. lia.
Qed.

Lemma dy_0 : forall j, dy 0 j = 0%R.
Proof. intros. unfold dy. simpl. ring. Qed.

Lemma dy_add : forall a b j, dy (a + b) j = (dy a j + dy b j)%R.
Proof. intros. unfold dy. rewrite N2Z.inj_add, plus_IZR. ring. Qed.

Lemma dy_mul : forall a b i j, dy (a * b) (i + j) = (dy a i * dy b j)%R.
Proof. intros. unfold dy. rewrite N2Z.inj_mul, mult_IZR, bpow_plus. ring. Qed.

Lemma dy_shift : forall c (i : N) j, dy (c * 2 ^ i) j = dy c (Z.of_N i + j).
Proof. intros. unfold dy. rewrite N2Z.inj_mul, mult_IZR, IZR_N_pow2, bpow_plus. ring. Qed.

Lemma dy_int : forall c, dy c 0 = IZR (Z.of_N c).
Proof. intros. unfold dy. simpl. ring. Qed.

(** bounds *)
Lemma dy_le_bpow : forall c (p : N) j, (c <= 2 ^ p)%N -> (dy c j <= bpow radix2 (Z.of_N p + j))%R.
Proof.
  intros c p j H. unfold dy. rewrite bpow_plus. apply Rmult_le_compat_r; [apply bpow_ge_0|].
  apply IZR_N_le_bpow. exact H.
Qed.

Lemma dy_ge_exp : forall c (p : N) j E, (c <= 2 ^ p)%N -> (bpow radix2 E <= dy c j)%R -> E <= Z.of_N p + j.
Proof.
  intros c p j E H Hb. apply (le_bpow radix2).
  eapply Rle_trans; [exact Hb | apply dy_le_bpow; exact H].
Qed.

(** every [c * 2^j] with [c <= 2^53] and [j >= -1074] is a binary64 number *)
Lemma dy_format : forall c j, (c <= 2 ^ 53)%N -> -1074 <= j -> generic_format radix2 fexp64 (dy c j).
Proof.
  intros c j Hc Hj. apply generic_format_FLT.
  destruct (N.eq_dec c (2 ^ 53)) as [->|Hne].
  - apply (FLT_spec radix2 (-1074) 53 _ (Float radix2 (2 ^ 52) (j + 1))).
    + unfold dy, F2R. simpl Fnum. simpl Fexp. rewrite bpow_plus.
      change (Z.of_N (2 ^ 53)) with (2 * 2 ^ 52). rewrite mult_IZR. change (bpow radix2 1) with 2%R. change (Z.pow_pos 2 52) with (2 ^ 52). ring.
    + simpl Fnum. change (Z.abs (2 ^ 52)) with (2 ^ 52). change (radix2 ^ 53) with (2 ^ 53). lia.
    + simpl Fexp. lia.
  - apply (FLT_spec radix2 (-1074) 53 _ (Float radix2 (Z.of_N c) j)).
    + reflexivity.
    + simpl Fnum. change (radix2 ^ 53) with (2 ^ 53).
      assert (c < 2 ^ 53)%N by lia. change (2 ^ 53)%N with 9007199254740992%N in *.
      change (2 ^ 53) with 9007199254740992. lia.
    + simpl Fexp. exact Hj.
Qed.

Lemma dy_round : forall c j, (c <= 2 ^ 53)%N -> -1074 <= j -> rnd64 (dy c j) = dy c j.
Proof. intros. apply round_generic; [apply valid_rnd_N | apply dy_format; assumption]. Qed.

(** ** exactly represented values *)

Definition frep (x : binary64) (c : N) (j : Z) : Prop :=
  fin x = true /\ sgn x = false /\ b2r x = dy c j.

Lemma frep_unique : forall x y c j, frep x c j -> frep y c j -> x = y.
Proof.
  intros x y c j (Fx & Sx & Vx) (Fy & Sy & Vy).
  apply B2R_Bsign_inj; congruence.
Qed.

Lemma frep_ext : forall x c j c' j', frep x c j -> dy c j = dy c' j' -> frep x c' j'.
Proof. intros x c j c' j' (F & S & V) E. repeat split; congruence. Qed.

Lemma frep_zero : forall x j, frep x 0 j -> x = f64c_pos_zero.
Proof.
  intros x j Hx. apply (frep_unique x f64c_pos_zero 0 j Hx).
  repeat split; try reflexivity. rewrite dy_0. reflexivity.
Qed.

Lemma frep_pos_zero : forall j, frep f64c_pos_zero 0 j.
Proof. intros. repeat split; try reflexivity. rewrite dy_0. reflexivity. Qed.

Lemma frep_is_zero : forall x c j, frep x c j -> f64c_is_zero x = (c =? 0)%N.
Proof.
  intros x c j (F & S & V). destruct (N.eqb_spec c 0) as [->|Hc].
  - rewrite dy_0 in V. destruct x; try discriminate; try reflexivity.
    exfalso. simpl in S. subst s.
    assert (0 < b2r (B754_finite 53 1024 false m e e0))%R by (apply F2R_gt_0; reflexivity). lra.
  - pose proof (dy_pos c j Hc) as P. destruct x; try discriminate; try reflexivity.
    simpl in V. lra.
Qed.

Lemma frep_lt_emax : forall x c j, frep x c j -> (dy c j < bpow radix2 1024)%R.
Proof.
  intros x c j (F & S & V). rewrite <- V.
  pose proof (abs_B2R_lt_emax 53 1024 x) as H. 
  apply Rle_lt_trans with (2 := H). apply RRle_abs.
Qed.

Lemma Rabs_dy : forall c j, Rabs (dy c j) = dy c j.
Proof. intros. apply Rabs_pos_eq. apply dy_nonneg. Qed.

Lemma inf_of_B2FF : forall x : binary64, B2FF 53 1024 x = F754_infinity false -> x = f64c_pos_inf.
Proof. intros x H. destruct x; try discriminate. simpl in H. inversion H. reflexivity. Qed.

(** ** addition *)

Lemma frep_add : forall x y a b j, frep x a j -> frep y b j -> (a + b <= 2 ^ 53)%N -> -1074 <= j ->
  (dy (a + b) j < bpow radix2 1024)%R -> frep (f64c_add x y) (a + b) j.
Proof.
  intros x y a b j (Fx & Sx & Vx) (Fy & Sy & Vy) Hc Hj Hlt.
  pose proof (Bplus_correct 53 1024 Hprec53 Hmax1024 binop_nan_pl64 mode_NE x y Fx Fy) as C.
  change (Bplus 53 1024 Hprec53 Hmax1024 binop_nan_pl64 mode_NE x y) with (f64c_add x y) in C.
  change (round radix2 (SpecFloat.fexp 53 1024) (round_mode mode_NE)) with rnd64 in C.
  rewrite Vx, Vy, <- dy_add, (dy_round _ _ Hc Hj), Rabs_dy, (Rlt_bool_true _ _ Hlt) in C.
  destruct C as (V & F & S). repeat split; try assumption.
  rewrite S, Sx, Sy. pose proof (dy_nonneg (a + b) j).
  destruct (Rcompare_spec (dy (a + b) j) 0); try reflexivity. lra.
Qed.

Lemma frep_add_ovf : forall x y a b j, frep x a j -> frep y b j -> (a + b <= 2 ^ 53)%N -> -1074 <= j ->
  (bpow radix2 1024 <= dy (a + b) j)%R -> f64c_add x y = f64c_pos_inf.
Proof.
  intros x y a b j (Fx & Sx & Vx) (Fy & Sy & Vy) Hc Hj Hge.
  pose proof (Bplus_correct 53 1024 Hprec53 Hmax1024 binop_nan_pl64 mode_NE x y Fx Fy) as C.
  change (Bplus 53 1024 Hprec53 Hmax1024 binop_nan_pl64 mode_NE x y) with (f64c_add x y) in C.
  change (round radix2 (SpecFloat.fexp 53 1024) (round_mode mode_NE)) with rnd64 in C.
  rewrite Vx, Vy, <- dy_add, (dy_round _ _ Hc Hj), Rabs_dy, (Rlt_bool_false _ _ Hge) in C.
  destruct C as (V & _). rewrite Sx in V. apply inf_of_B2FF. exact V.
Qed.

(** infinity absorbs non-negative operands *)
Lemma add_inf_l : forall y, fin y = true \/ y = f64c_pos_inf -> f64c_add f64c_pos_inf y = f64c_pos_inf.
Proof. intros y [F| ->]; [destruct y; try discriminate; reflexivity | reflexivity]. Qed.

Lemma add_inf_r : forall x, fin x = true \/ x = f64c_pos_inf -> f64c_add x f64c_pos_inf = f64c_pos_inf.
Proof. intros x [F| ->]; [destruct x; try discriminate; reflexivity | reflexivity]. Qed.

(** ** multiplication *)

Lemma frep_mult : forall x y a b i j, frep x a i -> frep y b j -> (a * b <= 2 ^ 53)%N -> -1074 <= i + j ->
  (dy (a * b) (i + j) < bpow radix2 1024)%R -> frep (b64_mult mode_NE x y) (a * b) (i + j).
Proof.
  intros x y a b i j (Fx & Sx & Vx) (Fy & Sy & Vy) Hc Hj Hlt.
  pose proof (Bmult_correct 53 1024 Hprec53 Hmax1024 binop_nan_pl64 mode_NE x y) as C.
  change (Bmult 53 1024 Hprec53 Hmax1024 binop_nan_pl64 mode_NE x y) with (b64_mult mode_NE x y) in C.
  change (round radix2 (SpecFloat.fexp 53 1024) (round_mode mode_NE)) with rnd64 in C.
  rewrite Vx, Vy, <- dy_mul, (dy_round _ _ Hc Hj), Rabs_dy, (Rlt_bool_true _ _ Hlt) in C.
  destruct C as (V & F & S). rewrite Fx, Fy in F. repeat split; try assumption.
  rewrite S, Sx, Sy; [reflexivity|].
  destruct (b64_mult mode_NE x y); try discriminate; reflexivity.
Qed.

Lemma frep_mult_ovf : forall x y a b i j, frep x a i -> frep y b j -> (a * b <= 2 ^ 53)%N -> -1074 <= i + j ->
  (bpow radix2 1024 <= dy (a * b) (i + j))%R -> b64_mult mode_NE x y = f64c_pos_inf.
Proof.
  intros x y a b i j (Fx & Sx & Vx) (Fy & Sy & Vy) Hc Hj Hge.
  pose proof (Bmult_correct 53 1024 Hprec53 Hmax1024 binop_nan_pl64 mode_NE x y) as C.
  change (Bmult 53 1024 Hprec53 Hmax1024 binop_nan_pl64 mode_NE x y) with (b64_mult mode_NE x y) in C.
  change (round radix2 (SpecFloat.fexp 53 1024) (round_mode mode_NE)) with rnd64 in C.
  rewrite Vx, Vy, <- dy_mul, (dy_round _ _ Hc Hj), Rabs_dy, (Rlt_bool_false _ _ Hge) in C.
  rewrite Sx, Sy in C. apply inf_of_B2FF. exact C.
Qed.

(** ** conversion of integers, powers of two *)

Lemma norm_int_fin : forall (c : N) j, (c <= 2 ^ 53)%N -> -1074 <= j -> (dy c j < bpow radix2 1024)%R ->
  frep (f64_norm_int (Z.of_N c) j) c j.
Proof.
  intros c j Hc Hj Hlt.
  pose proof (binary_normalize_correct 53 1024 Hprec53 Hmax1024 mode_NE (Z.of_N c) j false) as C.
  change (binary_normalize 53 1024 Hprec53 Hmax1024 mode_NE (Z.of_N c) j false) with (f64_norm_int (Z.of_N c) j) in C.
  change (round radix2 (SpecFloat.fexp 53 1024) (round_mode mode_NE)) with rnd64 in C.
  change (F2R {| Fnum := Z.of_N c; Fexp := j |}) with (dy c j) in C.
  rewrite (dy_round _ _ Hc Hj), Rabs_dy, (Rlt_bool_true _ _ Hlt) in C.
  destruct C as (V & F & S). repeat split; try assumption.
  rewrite S. pose proof (dy_nonneg c j). destruct (Rcompare_spec (dy c j) 0); try reflexivity. lra.
Qed.

Lemma norm_int_ovf : forall (c : N) j, (c <= 2 ^ 53)%N -> -1074 <= j -> (bpow radix2 1024 <= dy c j)%R ->
  f64_norm_int (Z.of_N c) j = f64c_pos_inf.
Proof.
  intros c j Hc Hj Hge.
  pose proof (binary_normalize_correct 53 1024 Hprec53 Hmax1024 mode_NE (Z.of_N c) j false) as C.
  change (binary_normalize 53 1024 Hprec53 Hmax1024 mode_NE (Z.of_N c) j false) with (f64_norm_int (Z.of_N c) j) in C.
  change (round radix2 (SpecFloat.fexp 53 1024) (round_mode mode_NE)) with rnd64 in C.
  change (F2R {| Fnum := Z.of_N c; Fexp := j |}) with (dy c j) in C.
  rewrite (dy_round _ _ Hc Hj), Rabs_dy, (Rlt_bool_false _ _ Hge) in C.
  apply inf_of_B2FF. rewrite C. rewrite Rlt_bool_false; [reflexivity | apply dy_nonneg].
Qed.

(** [f64::exp2] on integers *)
Lemma exp2i_rep : forall k, -1074 <= k <= 1023 -> frep (f64_exp2i k) 1 k.
Proof.
  intros k Hk. unfold f64_exp2i.
  destruct (Z.leb_spec 1024 k); [lia|]. destruct (Z.ltb_spec k (-1075)); [lia|].
  apply (norm_int_fin 1 k); [change (2 ^ 53)%N with 9007199254740992%N; lia | lia |].
  unfold dy. change (IZR (Z.of_N 1)) with 1%R. rewrite Rmult_1_l. apply bpow_lt. lia.
Qed.

Lemma exp2i_inf : forall k, 1024 <= k -> f64_exp2i k = f64c_pos_inf.
Proof. intros k Hk. unfold f64_exp2i. destruct (Z.leb_spec 1024 k); [reflexivity | lia]. Qed.

Lemma exp2i_zero : forall k, k <= -1075 -> f64_exp2i k = f64c_pos_zero.
Proof.
  intros k Hk. unfold f64_exp2i. destruct (Z.leb_spec 1024 k); [lia|].
  destruct (Z.ltb_spec k (-1075)); [reflexivity|]. replace k with (-1075) by lia. vm_compute. reflexivity.
Qed.

(** ** the two shifts *)

Lemma dy_one : forall c i j, dy (c * 1) (i + j) = dy c (i + j).
Proof. intros. rewrite N.mul_1_r. reflexivity. Qed.

(** [x << k] for [k <= 1023]: the exact product if it is below [2^1024] ... *)
Lemma frep_shl : forall x c j (k : N), frep x c j -> (c <= 2 ^ 53)%N -> -1074 <= j -> (k <= 1023)%N ->
  (dy c (j + Z.of_N k) < bpow radix2 1024)%R -> frep (f64c_shl x k) c (j + Z.of_N k).
Proof.
  intros x c j k Hx Hc Hj Hk Hlt. unfold f64c_shl. rewrite (frep_is_zero x c j Hx).
  destruct (N.eqb_spec c 0) as [->|Hnz].
  - apply (frep_ext x 0 j); [exact Hx | rewrite !dy_0; reflexivity].
  - rewrite <- (N.mul_1_r c) at 1.
    apply frep_mult; [exact Hx | apply exp2i_rep; lia | rewrite N.mul_1_r; exact Hc | lia |].
    rewrite N.mul_1_r. exact Hlt.
Qed.

(** ... and [+inf] otherwise (for [k >= 1024] the operand must be at least 1) *)
Lemma frep_shl_ovf : forall x c j (k : N), frep x c j -> (c <= 2 ^ 53)%N -> -1074 <= j -> c <> 0%N ->
  ((k <= 1023)%N -> (bpow radix2 1024 <= dy c (j + Z.of_N k))%R) ->
  ((1024 <= k)%N -> 0 <= j) ->
  f64c_shl x k = f64c_pos_inf.
Proof.
  intros x c j k Hx Hc Hj Hnz Hge Hbig. unfold f64c_shl. rewrite (frep_is_zero x c j Hx).
  destruct (N.eqb_spec c 0) as [|_]; [contradiction|].
  destruct (N.le_gt_cases k 1023) as [Hk|Hk].
  - apply (frep_mult_ovf x _ c 1 j (Z.of_N k) Hx); [apply exp2i_rep; lia | rewrite N.mul_1_r; exact Hc | lia |].
    rewrite N.mul_1_r. apply Hge. exact Hk.
  - rewrite exp2i_inf by lia. destruct Hx as (F & S & V).
    destruct x; try discriminate.
    + exfalso. simpl in V. pose proof (dy_pos c j Hnz). lra.
    + simpl in S. subst s. reflexivity.
Qed.

(** [x >> k] (for [k >= 1075] the factor [exp2(-k)] is 0) *)
Lemma frep_shr : forall x c j (k : N), frep x c j -> (c <= 2 ^ 53)%N -> (k <= 1074)%N -> -1074 <= j - Z.of_N k ->
  frep (f64c_shr x k) c (j - Z.of_N k).
Proof.
  intros x c j k Hx Hc Hk Hj. unfold f64c_shr.
  pose proof (frep_lt_emax x c j Hx) as Hlt.
  rewrite <- (N.mul_1_r c) at 1. replace (j - Z.of_N k) with (j + - Z.of_N k) by lia.
  apply frep_mult; [exact Hx | apply exp2i_rep; lia | rewrite N.mul_1_r; exact Hc | lia |].
  rewrite N.mul_1_r. eapply Rle_lt_trans; [|exact Hlt]. unfold dy.
  apply Rmult_le_compat_l; [apply IZR_N_nonneg|]. apply bpow_le. lia.
Qed.

(** ** [v as f64] *)

Lemma of_N_rep : forall c (j : N), (c <= 2 ^ 53)%N -> (c * 2 ^ j < 2 ^ 1024)%N ->
  frep (f64_of_N (c * 2 ^ j)) c (Z.of_N j).
Proof.
  intros c j Hc Hlt.
  assert (Hd : dy (c * 2 ^ j) 0 = dy c (Z.of_N j)) by (rewrite dy_shift; f_equal; lia).
  assert (Hb : (dy c (Z.of_N j) < bpow radix2 1024)%R).
  { rewrite <- Hd, dy_int. change 1024 with (Z.of_N 1024). apply IZR_N_lt_bpow. exact Hlt. }
  pose proof (binary_normalize_correct 53 1024 Hprec53 Hmax1024 mode_NE (Z.of_N (c * 2 ^ j)) 0 false) as C.
  change (binary_normalize 53 1024 Hprec53 Hmax1024 mode_NE (Z.of_N (c * 2 ^ j)) 0 false) with (f64_of_N (c * 2 ^ j)) in C.
  change (round radix2 (SpecFloat.fexp 53 1024) (round_mode mode_NE)) with rnd64 in C.
  change (F2R {| Fnum := Z.of_N (c * 2 ^ j); Fexp := 0 |}) with (dy (c * 2 ^ j) 0) in C.
  assert (Hj : -1074 <= Z.of_N j) by lia.
  rewrite Hd, (dy_round _ _ Hc Hj), Rabs_dy, (Rlt_bool_true _ _ Hb) in C.
  destruct C as (V & F & S). repeat split; try assumption.
  rewrite S. pose proof (dy_nonneg c (Z.of_N j)). destruct (Rcompare_spec (dy c (Z.of_N j)) 0); try reflexivity. lra.
Qed.

Lemma of_N_ovf : forall c (j : N), (c <= 2 ^ 53)%N -> (2 ^ 1024 <= c * 2 ^ j)%N ->
  f64_of_N (c * 2 ^ j) = f64c_pos_inf.
Proof.
  intros c j Hc Hge.
  assert (Hd : dy (c * 2 ^ j) 0 = dy c (Z.of_N j)) by (rewrite dy_shift; f_equal; lia).
  assert (Hb : (bpow radix2 1024 <= dy c (Z.of_N j))%R).
  { rewrite <- Hd, dy_int. change 1024 with (Z.of_N 1024). apply IZR_N_ge_bpow. exact Hge. }
  pose proof (binary_normalize_correct 53 1024 Hprec53 Hmax1024 mode_NE (Z.of_N (c * 2 ^ j)) 0 false) as C.
  change (binary_normalize 53 1024 Hprec53 Hmax1024 mode_NE (Z.of_N (c * 2 ^ j)) 0 false) with (f64_of_N (c * 2 ^ j)) in C.
  change (round radix2 (SpecFloat.fexp 53 1024) (round_mode mode_NE)) with rnd64 in C.
  change (F2R {| Fnum := Z.of_N (c * 2 ^ j); Fexp := 0 |}) with (dy (c * 2 ^ j) 0) in C.
  assert (Hj : -1074 <= Z.of_N j) by lia.
  rewrite Hd, (dy_round _ _ Hc Hj), Rabs_dy, (Rlt_bool_false _ _ Hb) in C.
  apply inf_of_B2FF. rewrite C. rewrite Rlt_bool_false; [reflexivity | apply dy_nonneg].
Qed.

Lemma of_N_small : forall v, (v <= 2 ^ 53)%N -> frep (f64_of_N v) v 0.
Proof.
  intros v Hv. pose proof (of_N_rep v 0 Hv) as H. rewrite N.pow_0_r, N.mul_1_r in H. apply H.
  eapply N.le_lt_trans; [exact Hv|]. apply N.pow_lt_mono_r; lia.
Qed.

(** addition when the sum has a short representation [c * 2^j'] *)
Lemma frep_add_as : forall x y a b j c j', frep x a j -> frep y b j -> dy (a + b) j = dy c j' ->
  (c <= 2 ^ 53)%N -> -1074 <= j' ->
  ((dy c j' < bpow radix2 1024)%R -> frep (f64c_add x y) c j') /\
  ((bpow radix2 1024 <= dy c j')%R -> f64c_add x y = f64c_pos_inf).
Proof.
  intros x y a b j c j' (Fx & Sx & Vx) (Fy & Sy & Vy) E Hc Hj.
  pose proof (Bplus_correct 53 1024 Hprec53 Hmax1024 binop_nan_pl64 mode_NE x y Fx Fy) as C.
  change (Bplus 53 1024 Hprec53 Hmax1024 binop_nan_pl64 mode_NE x y) with (f64c_add x y) in C.
  change (round radix2 (SpecFloat.fexp 53 1024) (round_mode mode_NE)) with rnd64 in C.
  rewrite Vx, Vy, <- dy_add, E, (dy_round _ _ Hc Hj), Rabs_dy in C. split.
  - intros Hlt. rewrite (Rlt_bool_true _ _ Hlt) in C.
    destruct C as (V & F & S). repeat split; try assumption.
    rewrite S, Sx, Sy. pose proof (dy_nonneg c j').
    destruct (Rcompare_spec (dy c j') 0); try reflexivity. lra.
  - intros Hge. rewrite (Rlt_bool_false _ _ Hge) in C.
    destruct C as (V & _). rewrite Sx in V. apply inf_of_B2FF. exact V.
Qed.

(** [+inf] times a positive number *)
Lemma mult_inf_pos : forall y c j, frep y c j -> c <> 0%N -> b64_mult mode_NE f64c_pos_inf y = f64c_pos_inf.
Proof.
  intros y c j (F & S & V) Hnz. pose proof (dy_pos c j Hnz) as P.
  destruct y; try discriminate.
  - exfalso. simpl in V. lra.
  - simpl in S. subst s. reflexivity.
Qed.

Lemma shr_inf : forall k : N, (k <= 1074)%N -> f64c_shr f64c_pos_inf k = f64c_pos_inf.
Proof.
  intros k Hk. unfold f64c_shr. apply (mult_inf_pos _ 1 (- Z.of_N k)); [apply exp2i_rep; lia | discriminate].
Qed.

Lemma shl_inf : forall k : N, f64c_shl f64c_pos_inf k = f64c_pos_inf.
Proof.
  intros k. unfold f64c_shl. simpl f64c_is_zero. cbv iota.
  destruct (N.le_gt_cases k 1023) as [Hk|Hk].
  - apply (mult_inf_pos _ 1 (Z.of_N k)); [apply exp2i_rep; lia | discriminate].
  - rewrite exp2i_inf by lia. reflexivity.
Qed.

Lemma dy_lt_N : forall c (m : N) (p : N), (dy c (Z.of_N m) < bpow radix2 (Z.of_N p))%R -> (c * 2 ^ m < 2 ^ p)%N.
Proof.
  intros c m p H. rewrite <- (Z.add_0_r (Z.of_N m)), <- dy_shift, dy_int, <- IZR_N_pow2 in H.
  apply lt_IZR in H. lia.
Qed.

(** a represented value is the conversion of the integer it denotes *)
Lemma rep_of_N : forall x c (m : N), frep x c (Z.of_N m) -> (c <= 2 ^ 53)%N -> x = f64_of_N (c * 2 ^ m).
Proof.
  intros x c m Hx Hc. apply (frep_unique _ _ c (Z.of_N m) Hx). apply of_N_rep; [exact Hc|].
  apply dy_lt_N. change (Z.of_N 1024) with 1024. apply (frep_lt_emax x). exact Hx.
Qed.

(** [x << k] of a represented value is the correctly rounded conversion of the
    exact integer product (for [k >= 1024]: of operands that are at least 1) *)
Lemma shl_of_N : forall x c j (k m : N), frep x c j -> (c <= 2 ^ 53)%N -> -1074 <= j ->
  j + Z.of_N k = Z.of_N m -> ((1024 <= k)%N -> 0 <= j) ->
  f64c_shl x k = f64_of_N (c * 2 ^ m).
Proof.
  intros x c j k m Hx Hc Hj Hm Hbig.
  destruct (N.eq_dec c 0) as [->|Hnz].
  - unfold f64c_shl. rewrite (frep_is_zero x 0 j Hx). simpl. rewrite (frep_zero x j Hx).
    symmetry. apply (frep_zero _ 0). apply of_N_small. change (2 ^ 53)%N with 9007199254740992%N. lia.
  - destruct (N.lt_ge_cases (c * 2 ^ m) (2 ^ 1024)) as [Hlt|Hge].
    + assert (Hk : (k <= 1023)%N).
      { destruct (N.le_gt_cases k 1023) as [|Hk]; [assumption|]. exfalso.
        specialize (Hbig ltac:(lia)). assert (1024 <= m)%N by lia.
        assert (2 ^ 1024 <= 2 ^ m)%N by (apply N.pow_le_mono_r; lia). nia. }
      apply (frep_unique _ _ c (Z.of_N m)); [|apply of_N_rep; assumption].
      rewrite <- Hm. apply frep_shl; try assumption. rewrite Hm.
      rewrite <- (Z.add_0_r (Z.of_N m)), <- dy_shift, dy_int. change 1024 with (Z.of_N 1024).
      apply IZR_N_lt_bpow. exact Hlt.
    + rewrite (of_N_ovf c m Hc Hge). apply (frep_shl_ovf x c j k Hx Hc Hj Hnz); [|exact Hbig].
      intros _. rewrite Hm, <- (Z.add_0_r (Z.of_N m)), <- dy_shift, dy_int. change 1024 with (Z.of_N 1024).
      apply IZR_N_ge_bpow. exact Hge.
Qed.

(** ** The operations in general: Flocq's correctly rounded results *)

Theorem f64c_add_round : forall x y, fin x = true -> fin y = true ->
  (Rabs (rnd64 (b2r x + b2r y)) < bpow radix2 1024)%R ->
  fin (f64c_add x y) = true /\ b2r (f64c_add x y) = rnd64 (b2r x + b2r y).
Proof.
  intros x y Fx Fy Hlt.
  pose proof (Bplus_correct 53 1024 Hprec53 Hmax1024 binop_nan_pl64 mode_NE x y Fx Fy) as C.
  change (Bplus 53 1024 Hprec53 Hmax1024 binop_nan_pl64 mode_NE x y) with (f64c_add x y) in C.
  change (round radix2 (SpecFloat.fexp 53 1024) (round_mode mode_NE)) with rnd64 in C.
  rewrite (Rlt_bool_true _ _ Hlt) in C. destruct C as (V & F & _). split; assumption.
Qed.

Theorem f64c_add_overflow : forall x y, fin x = true -> fin y = true ->
  (bpow radix2 1024 <= Rabs (rnd64 (b2r x + b2r y)))%R ->
  sgn x = sgn y /\ f64c_add x y = B754_infinity 53 1024 (sgn x).
Proof.
  intros x y Fx Fy Hge.
  pose proof (Bplus_correct 53 1024 Hprec53 Hmax1024 binop_nan_pl64 mode_NE x y Fx Fy) as C.
  change (Bplus 53 1024 Hprec53 Hmax1024 binop_nan_pl64 mode_NE x y) with (f64c_add x y) in C.
  change (round radix2 (SpecFloat.fexp 53 1024) (round_mode mode_NE)) with rnd64 in C.
  rewrite (Rlt_bool_false _ _ Hge) in C. destruct C as (V & S). split; [exact S|].
  destruct (f64c_add x y); try discriminate. simpl in V. inversion V. reflexivity.
Qed.

Lemma b2r_exp2i : forall k, -1074 <= k <= 1023 -> b2r (f64_exp2i k) = bpow radix2 k.
Proof. intros k Hk. destruct (exp2i_rep k Hk) as (_ & _ & V). rewrite V. unfold dy. simpl IZR. ring. Qed.

Theorem f64c_shl_round : forall x (k : N), fin x = true -> (k <= 1023)%N ->
  (Rabs (rnd64 (b2r x * bpow radix2 (Z.of_N k))) < bpow radix2 1024)%R ->
  fin (f64c_shl x k) = true /\ b2r (f64c_shl x k) = rnd64 (b2r x * bpow radix2 (Z.of_N k)).
Proof.
  intros x k Fx Hk Hlt. unfold f64c_shl. destruct (f64c_is_zero x) eqn:Z.
  - split; [exact Fx|]. destruct x; try discriminate. simpl. rewrite Rmult_0_l, round_0; [reflexivity | apply valid_rnd_N].
  - pose proof (Bmult_correct 53 1024 Hprec53 Hmax1024 binop_nan_pl64 mode_NE x (f64_exp2i (Z.of_N k))) as C.
    change (Bmult 53 1024 Hprec53 Hmax1024 binop_nan_pl64 mode_NE x (f64_exp2i (Z.of_N k)))
      with (b64_mult mode_NE x (f64_exp2i (Z.of_N k))) in C.
    change (round radix2 (SpecFloat.fexp 53 1024) (round_mode mode_NE)) with rnd64 in C.
    rewrite (b2r_exp2i (Z.of_N k)) in C by lia. rewrite (Rlt_bool_true _ _ Hlt) in C.
    destruct C as (V & F & _). destruct (exp2i_rep (Z.of_N k) ltac:(lia)) as (Fe & _).
    rewrite Fx, Fe in F. split; assumption.
Qed.

Theorem f64c_shr_round : forall x (k : N), fin x = true -> (k <= 1074)%N ->
  fin (f64c_shr x k) = true /\ b2r (f64c_shr x k) = rnd64 (b2r x * bpow radix2 (- Z.of_N k)).
Proof.
  intros x k Fx Hk. unfold f64c_shr.
  pose proof (Bmult_correct 53 1024 Hprec53 Hmax1024 binop_nan_pl64 mode_NE x (f64_exp2i (- Z.of_N k))) as C.
  change (Bmult 53 1024 Hprec53 Hmax1024 binop_nan_pl64 mode_NE x (f64_exp2i (- Z.of_N k)))
    with (b64_mult mode_NE x (f64_exp2i (- Z.of_N k))) in C.
  change (round radix2 (SpecFloat.fexp 53 1024) (round_mode mode_NE)) with rnd64 in C.
  rewrite (b2r_exp2i (- Z.of_N k)) in C by lia.
  assert (Hlt : (Rabs (rnd64 (b2r x * bpow radix2 (- Z.of_N k))) < bpow radix2 1024)%R).
  { apply Rle_lt_trans with (Rabs (b2r x)); [|apply abs_B2R_lt_emax].
    apply abs_round_le_generic; [apply (@FLT_exp_valid (-1074) 53 Hprec53) | apply valid_rnd_N | |].
    - apply generic_format_abs. apply (generic_format_B2R 53 1024).
    - rewrite Rabs_mult, (Rabs_pos_eq (bpow radix2 _)) by apply bpow_ge_0.
      rewrite <- (Rmult_1_r (Rabs (b2r x))) at 2. apply Rmult_le_compat_l; [apply Rabs_pos|].
      change 1%R with (bpow radix2 0). apply bpow_le. lia. }
  rewrite (Rlt_bool_true _ _ Hlt) in C.
  destruct C as (V & F & _). destruct (exp2i_rep (- Z.of_N k) ltac:(lia)) as (Fe & _).
  rewrite Fx, Fe in F. split; assumption.
Qed.

(** [v as f64] is the correctly rounded integer *)
Theorem f64_of_N_round : forall v, (Rabs (rnd64 (IZR (Z.of_N v))) < bpow radix2 1024)%R ->
  fin (f64_of_N v) = true /\ sgn (f64_of_N v) = false /\ b2r (f64_of_N v) = rnd64 (IZR (Z.of_N v)).
Proof.
  intros v Hlt.
  pose proof (binary_normalize_correct 53 1024 Hprec53 Hmax1024 mode_NE (Z.of_N v) 0 false) as C.
  change (binary_normalize 53 1024 Hprec53 Hmax1024 mode_NE (Z.of_N v) 0 false) with (f64_of_N v) in C.
  change (round radix2 (SpecFloat.fexp 53 1024) (round_mode mode_NE)) with rnd64 in C.
  change (F2R {| Fnum := Z.of_N v; Fexp := 0 |}) with (dy v 0) in C. rewrite dy_int in C.
  rewrite (Rlt_bool_true _ _ Hlt) in C. destruct C as (V & F & S). repeat split; try assumption.
  rewrite S. pose proof (IZR_N_nonneg v). destruct (Rcompare_spec (IZR (Z.of_N v)) 0); try reflexivity. lra.
Qed.

Theorem f64_of_N_overflow : forall v, (bpow radix2 1024 <= Rabs (rnd64 (IZR (Z.of_N v))))%R ->
  f64_of_N v = f64c_pos_inf.
Proof.
  intros v Hge.
  pose proof (binary_normalize_correct 53 1024 Hprec53 Hmax1024 mode_NE (Z.of_N v) 0 false) as C.
  change (binary_normalize 53 1024 Hprec53 Hmax1024 mode_NE (Z.of_N v) 0 false) with (f64_of_N v) in C.
  change (round radix2 (SpecFloat.fexp 53 1024) (round_mode mode_NE)) with rnd64 in C.
  change (F2R {| Fnum := Z.of_N v; Fexp := 0 |}) with (dy v 0) in C. rewrite dy_int in C.
  rewrite (Rlt_bool_false _ _ Hge) in C. apply inf_of_B2FF. rewrite C.
  rewrite Rlt_bool_false; [reflexivity | apply IZR_N_nonneg].
Qed.

(** exact conversions: every integer with at most 53 significant bits below [2^1024] *)
Theorem f64_of_N_exact : forall c j : N, (c <= 2 ^ 53)%N -> (c * 2 ^ j < 2 ^ 1024)%N ->
  fin (f64_of_N (c * 2 ^ j)) = true /\ b2r (f64_of_N (c * 2 ^ j)) = IZR (Z.of_N (c * 2 ^ j)).
Proof.
  intros c j Hc Hlt. destruct (of_N_rep c j Hc Hlt) as (F & _ & V). split; [exact F|].
  rewrite V, <- (Z.add_0_r (Z.of_N j)), <- dy_shift, dy_int. reflexivity.
Qed.

(** the conversion of [m * 2^e] does not depend on how the number is split
    into mantissa and exponent (the driver converts the oracle's pair [(m, e)]
    with [f64_norm_int]) *)
Theorem norm_int_shift : forall m e : N, f64_norm_int (Z.of_N m) (Z.of_N e) = f64_of_N (m * 2 ^ e).
Proof.
  intros m e.
  pose proof (binary_normalize_correct 53 1024 Hprec53 Hmax1024 mode_NE (Z.of_N m) (Z.of_N e) false) as C1.
  pose proof (binary_normalize_correct 53 1024 Hprec53 Hmax1024 mode_NE (Z.of_N (m * 2 ^ e)) 0 false) as C2.
  change (binary_normalize 53 1024 Hprec53 Hmax1024 mode_NE (Z.of_N m) (Z.of_N e) false)
    with (f64_norm_int (Z.of_N m) (Z.of_N e)) in C1.
  change (binary_normalize 53 1024 Hprec53 Hmax1024 mode_NE (Z.of_N (m * 2 ^ e)) 0 false) with (f64_of_N (m * 2 ^ e)) in C2.
  change (F2R {| Fnum := Z.of_N m; Fexp := Z.of_N e |}) with (dy m (Z.of_N e)) in C1.
  change (F2R {| Fnum := Z.of_N (m * 2 ^ e); Fexp := 0 |}) with (dy (m * 2 ^ e) 0) in C2.
  rewrite dy_shift, Z.add_0_r in C2.
  destruct (Rlt_bool _ _).
  - destruct C1 as (V1 & F1 & S1). destruct C2 as (V2 & F2 & S2).
    apply B2R_Bsign_inj; congruence.
  - apply B2FF_inj. congruence.
Qed.

(** ** Examples *)
Example ex_f64c_ops :
  f64c_bits_from_u32 1 = 0x3ff0000000000000 /\
  f64c_bits_shl (f64c_bits_from_u32 1) 1023 = 0x7fe0000000000000 /\
  f64c_bits_shl (f64c_bits_from_u32 1) 1024 = 0x7ff0000000000000 /\
  f64c_bits_shl 0 5000 = 0 /\
  f64c_bits_shr (f64c_bits_from_u32 1) 1074 = 1 /\
  f64c_bits_shr (f64c_bits_from_u32 1) 1075 = 0 /\
  f64c_bits_add (f64c_bits_from_u32 1) (f64c_bits_from_u32 2) = 0x4008000000000000 /\
  f64c_bits_add 0x4340000000000000 (f64c_bits_from_u32 1) = 0x4340000000000000 /\
  f64c_bits_sub (f64c_bits_from_u32 1) (f64c_bits_from_u32 2) = 0xbff0000000000000 /\
  f64c_bits_is_nan (f64c_bits_sub 0x7ff0000000000000 0x7ff0000000000000) = true /\
  f64c_bits_of_N (2 ^ 53 + 1) = 0x4340000000000000.
Proof. vm_compute. repeat split; reflexivity. Qed.

(** the two cases of an exact sum / an exact scaling in one statement *)
Theorem frep_add_cases : forall x y a b j, frep x a j -> frep y b j -> (a + b <= 2 ^ 53)%N -> (-1074 <= j)%Z ->
  ((dy (a + b) j < bpow radix2 1024)%R -> frep (f64c_add x y) (a + b) j) /\
  ((bpow radix2 1024 <= dy (a + b) j)%R -> f64c_add x y = f64c_pos_inf).
Proof.
  intros x y a b j Hx Hy Hc Hj. split; intros Hb.
  - apply frep_add; assumption.
  - apply (frep_add_ovf x y a b j); assumption.
Qed.

Theorem frep_shl_cases : forall x c j (k : N), frep x c j -> (c <= 2 ^ 53)%N -> (-1074 <= j)%Z -> (k <= 1023)%N ->
  ((dy c (j + Z.of_N k) < bpow radix2 1024)%R -> frep (f64c_shl x k) c (j + Z.of_N k)) /\
  (c <> 0%N -> (bpow radix2 1024 <= dy c (j + Z.of_N k))%R -> f64c_shl x k = f64c_pos_inf).
Proof.
  intros x c j k Hx Hc Hj Hk. split.
  - intros Hb. apply frep_shl; assumption.
  - intros Hnz Hb. apply (frep_shl_ovf x c j k Hx Hc Hj Hnz); [intros _; exact Hb | lia].
Qed.

Theorem f64c_sub_round : forall x y, fin x = true -> fin y = true ->
  (Rabs (rnd64 (b2r x - b2r y)) < bpow radix2 1024)%R ->
  fin (f64c_sub x y) = true /\ b2r (f64c_sub x y) = rnd64 (b2r x - b2r y).
Proof.
  intros x y Fx Fy Hlt.
  pose proof (Bminus_correct 53 1024 Hprec53 Hmax1024 binop_nan_pl64 mode_NE x y Fx Fy) as C.
  change (Bminus 53 1024 Hprec53 Hmax1024 binop_nan_pl64 mode_NE x y) with (f64c_sub x y) in C.
  change (round radix2 (SpecFloat.fexp 53 1024) (round_mode mode_NE)) with rnd64 in C.
  rewrite (Rlt_bool_true _ _ Hlt) in C. destruct C as (V & F & _). split; assumption.
Qed.

(** the hypotheses of the exactness lemmas are satisfiable: 5 + 3 = 8, 5 << 1020, 5 << 1022 = +inf, 6 >> 1 = 3 *)
Example ex_frep :
  frep (f64_of_N 5) 5 0 /\ frep (f64c_add (f64_of_N 5) (f64_of_N 3)) 8 0 /\
  frep (f64c_shl (f64_of_N 5) 1020) 5 1020 /\ f64c_shl (f64_of_N 5) 1022 = f64c_pos_inf /\
  frep (f64c_shr (f64_of_N 6) 1) 6 (-1) /\ f64c_shr (f64_of_N 6) 1 = f64_of_N 3.
Proof.
  assert (H5 : frep (f64_of_N 5) 5 0) by (apply of_N_small; discriminate).
  assert (H3 : frep (f64_of_N 3) 3 0) by (apply of_N_small; discriminate).
  assert (H6 : frep (f64_of_N 6) 6 0) by (apply of_N_small; discriminate).
  split; [exact H5|]. split; [|split; [|split; [|split]]].
  - apply (frep_add _ _ 5 3 0 H5 H3); [discriminate | lia |].
    rewrite dy_int. apply (IZR_N_lt_bpow 8 1024). reflexivity.
  - apply (frep_shl _ 5 0 1020 H5); [discriminate | lia | discriminate |].
    change (0 + Z.of_N 1020)%Z with (Z.of_N 1020 + 0)%Z. rewrite <- dy_shift, dy_int.
    apply (IZR_N_lt_bpow (5 * 2 ^ 1020) 1024). reflexivity.
  - vm_compute. reflexivity.
  - apply (frep_shr _ 6 0 1 H6); [discriminate | discriminate | lia].
  - apply (frep_unique _ _ 6 (-1)).
    + apply (frep_shr _ 6 0 1 H6); [discriminate | discriminate | lia].
    + apply (frep_ext _ 3 0 _ _ H3). unfold dy. simpl. lra.
Qed.
