(** C10, scalar level — theorems about the [F64] model of [Num/F64.v].

    The arithmetic is Flocq's [binary64] arithmetic by definition
    ([f64_ops_ieee]); proved here: the normalisation is idempotent, every
    result is normalised, the operations denote the correctly rounded exact
    results ([f64_*_round], from Flocq), and the short-cut laws that
    [terminal_bin] (oxidd-rules-mtbdd/src/lib.rs) uses hold on normalised
    values — or are refuted ([..._refuted]).

    Flocq's theorems (and the opaque proof terms inside its operations) rest
    on the classical axioms of Coq's real numbers; [Print Assumptions] lists
    [ClassicalDedekindReals.sig_forall_dec], [ClassicalDedekindReals.sig_not_dec],
    [FunctionalExtensionality.functional_extensionality_dep], [Classical_Prop.classic]. *)
From Coq Require Import ZArith Bool Lia Reals Lra SpecFloat.
From Flocq Require Import Core.Core IEEE754.BinarySingleNaN IEEE754.Binary IEEE754.Bits.
From OxiVerif Require Import Num.F64.
Local Open Scope Z_scope.

Module BSN := BinarySingleNaN.
Notation bsn := (BSN.binary_float 53 1024).

Lemma of_to_bits v : b64_of_bits (bits_of_b64 v) = v.
Proof. exact (binary_float_of_bits_of_binary_float 52 11 eq_refl eq_refl eq_refl v). Qed.
Lemma to_of_bits x : 0 <= x < 2 ^ 64 -> bits_of_b64 (b64_of_bits x) = x.
Proof. intros H. exact (bits_of_binary_float_of_bits 52 11 eq_refl eq_refl eq_refl x H). Qed.
Lemma to_bits_range v : 0 <= bits_of_b64 v < 2 ^ 64.
Proof. exact (bits_of_binary_float_range 52 11 eq_refl eq_refl v). Qed.

Lemma f64_norm_idem v : f64_norm (f64_norm v) = f64_norm v.
Proof.
  unfold f64_norm. destruct (is_nan 53 1024 v) eqn:N. reflexivity.
  destruct (bits_of_b64 v =? f64_NEG_ZERO_bits) eqn:Z. reflexivity.
  now rewrite N, Z.
Qed.

Theorem f64_normal_char x :
  f64_normal x <->
  (0 <= x < 2 ^ 64 /\ x <> f64_NEG_ZERO_bits /\
   (is_nan 53 1024 (b64_of_bits x) = true -> x = f64_NAN_bits)).
Proof.
  unfold f64_normal, f64_from_bits. split.
  - intros H. split; [|split].
    + rewrite <- H. apply to_bits_range.
    + intros ->. vm_compute in H. discriminate.
    + intros N. unfold f64_norm in H. rewrite N in H. now rewrite <- H.
  - intros (R & Z & N). unfold f64_norm.
    destruct (is_nan 53 1024 (b64_of_bits x)) eqn:E.
    + rewrite (N eq_refl). reflexivity.
    + rewrite to_of_bits by trivial.
      destruct (x =? f64_NEG_ZERO_bits) eqn:E2.
      * apply Z.eqb_eq in E2. contradiction.
      * now apply to_of_bits.
Qed.

Theorem f64_from_bits_idem x : f64_from_bits (f64_from_bits x) = f64_from_bits x.
Proof. unfold f64_from_bits. now rewrite of_to_bits, f64_norm_idem. Qed.

Lemma f64_norm_bits_normal v : f64_normal (bits_of_b64 (f64_norm v)).
Proof. unfold f64_normal, f64_from_bits. now rewrite of_to_bits, f64_norm_idem. Qed.

Theorem f64_from_bits_normal x : f64_normal (f64_from_bits x).
Proof. apply f64_norm_bits_normal. Qed.

(** results are always normalised *)
Theorem f64_add_normal a b : f64_normal (f64_add a b).
Proof. apply f64_norm_bits_normal. Qed.
Theorem f64_sub_normal a b : f64_normal (f64_sub a b).
Proof. apply f64_norm_bits_normal. Qed.
Theorem f64_mul_normal a b : f64_normal (f64_mul a b).
Proof. apply f64_norm_bits_normal. Qed.
Theorem f64_div_normal a b : f64_normal (f64_div a b).
Proof. apply f64_norm_bits_normal. Qed.

Theorem f64_normalb_spec x : f64_normalb x = true <-> f64_normal x.
Proof. apply Z.eqb_eq. Qed.

Theorem f64_consts_normal : f64_normal f64_zero /\ f64_normal f64_one /\ f64_normal f64_nan.
Proof. repeat split; vm_compute; reflexivity. Qed.

(** the two normalisation clauses, on bit patterns *)
Theorem f64_from_bits_negzero : f64_from_bits f64_NEG_ZERO_bits = f64_zero.
Proof. reflexivity. Qed.
Theorem f64_from_bits_nan x :
  is_nan 53 1024 (b64_of_bits x) = true -> f64_from_bits x = f64_NAN_bits.
Proof. intros H. unfold f64_from_bits, f64_norm. now rewrite H. Qed.
Theorem f64_from_bits_other x :
  0 <= x < 2 ^ 64 -> is_nan 53 1024 (b64_of_bits x) = false -> x <> f64_NEG_ZERO_bits ->
  f64_from_bits x = x.
Proof.
  intros R N Z. apply f64_normal_char. repeat split; try tauto. congruence.
Qed.

Theorem f64_is_zero_spec a : f64_is_zero a = true <-> a = f64_zero.
Proof. apply Z.eqb_eq. Qed.
Theorem f64_is_one_spec a : f64_is_one a = true <-> a = f64_one.
Proof. apply Z.eqb_eq. Qed.
Theorem f64_is_nan_spec a : f64_is_nan a = true <-> a = f64_nan.
Proof. apply Z.eqb_eq. Qed.
Theorem f64_eqb_spec a b : f64_eqb a b = true <-> a = b.
Proof. apply Z.eqb_eq. Qed.

Definition lift (r : bsn) : binary64 := BSN2B 53 1024 default_nan_pl64 r.

Lemma norm_BSN2B nan r : f64_norm (BSN2B 53 1024 nan r) = f64_norm (lift r).
Proof. destruct r; try reflexivity. Qed.

Lemma norm_lift_B2BSN v : f64_norm (lift (B2BSN 53 1024 v)) = f64_norm v.
Proof. destruct v; reflexivity. Qed.

Section Ops.
Context (Hp : Prec_gt_0 53) (He : Prec_lt_emax 53 1024).

Lemma bsn_plus_comm (x y : bsn) : BSN.Bplus mode_NE x y = BSN.Bplus mode_NE y x.
Proof.
  destruct x as [sx|sx| |sx mx ex Hx], y as [sy|sy| |sy my ey Hy]; simpl; trivial.
  - destruct sx, sy; reflexivity.
  - destruct sx, sy; reflexivity.
  - unfold BSN.Fplus_naive. rewrite (Z.min_comm ey ex), Z.add_comm. reflexivity.
Qed.

Lemma bsn_mult_comm (x y : bsn) : BSN.Bmult mode_NE x y = BSN.Bmult mode_NE y x.
Proof.
  destruct x as [sx|sx| |sx mx ex Hx], y as [sy|sy| |sy my ey Hy]; simpl; trivial;
    try (now rewrite xorb_comm).
  apply BSN.B2SF_inj. rewrite !BSN.B2SF_SF2B.
  rewrite xorb_comm, Pos.mul_comm, Z.add_comm. reflexivity.
Qed.

(** zero / one laws on the single-NaN level *)
Lemma bsn_plus_zero_l (y : bsn) :
  y <> BSN.B754_zero true -> BSN.Bplus mode_NE (BSN.B754_zero false) y = y.
Proof. destruct y as [[|]| | |]; simpl; trivial. congruence. Qed.

Lemma bsn_plus_zero_r (x : bsn) :
  x <> BSN.B754_zero true -> BSN.Bplus mode_NE x (BSN.B754_zero false) = x.
Proof. intros H. rewrite bsn_plus_comm. now apply bsn_plus_zero_l. Qed.

Lemma bsn_minus_zero_r (x : bsn) : BSN.Bminus mode_NE x (BSN.B754_zero false) = x.
Proof. destruct x as [[|]| | |]; reflexivity. Qed.

Definition is_one (o : bsn) : Prop :=
  BSN.B2R o = 1%R /\ BSN.is_finite o = true /\ BSN.Bsign o = false.

Lemma is_one_finite o : is_one o -> exists m e H, o = BSN.B754_finite false m e H.
Proof.
  intros (R & F & S). destruct o as [s|s| |s m e H]; try discriminate.
  - simpl in R. exfalso. lra.
  - simpl in S. subst s. eauto.
Qed.

Lemma round_B2R (x : bsn) :
  round radix2 (SpecFloat.fexp 53 1024) (round_mode mode_NE) (BSN.B2R x) = BSN.B2R x.
Proof. apply round_generic. apply valid_rnd_N. apply BSN.generic_format_B2R. Qed.

Lemma bsn_mult_one_r (x o : bsn) : is_one o -> BSN.Bmult mode_NE x o = x.
Proof.
  intros Ho. destruct (is_one_finite o Ho) as (m & e & H & ->).
  destruct Ho as (R & F & S).
  destruct x as [sx|sx| |sx mx ex Hx]; simpl; trivial;
    try (now rewrite xorb_false_r).
  set (x := BSN.B754_finite sx mx ex Hx). set (o := BSN.B754_finite false m e H) in *.
  change (BSN.SF2B _ _) with (BSN.Bmult mode_NE x o).
  generalize (BSN.Bmult_correct 53 1024 Hp He mode_NE x o).
  rewrite R, Rmult_1_r, round_B2R.
  rewrite Rlt_bool_true by apply BSN.abs_B2R_lt_emax.
  intros (H1 & H2 & H3).
  apply BSN.B2R_Bsign_inj; trivial.
  rewrite H3. simpl. apply xorb_false_r.
  destruct (BSN.Bmult mode_NE x o); try discriminate; reflexivity.
Qed.

Lemma bsn_mult_one_l (x o : bsn) : is_one o -> BSN.Bmult mode_NE o x = x.
Proof. intros. rewrite bsn_mult_comm. now apply bsn_mult_one_r. Qed.

Lemma bsn_div_one_r (x o : bsn) : is_one o -> BSN.Bdiv mode_NE x o = x.
Proof.
  intros Ho. destruct (is_one_finite o Ho) as (m & e & H & ->).
  destruct Ho as (R & F & S).
  destruct x as [sx|sx| |sx mx ex Hx]; simpl; trivial;
    try (now rewrite xorb_false_r).
  set (x := BSN.B754_finite sx mx ex Hx). set (o := BSN.B754_finite false m e H) in *.
  change (BSN.SF2B _ _) with (BSN.Bdiv mode_NE x o).
  assert (Hnz : BSN.B2R o <> 0%R) by (rewrite R; lra).
  generalize (BSN.Bdiv_correct 53 1024 Hp He mode_NE x o Hnz).
  rewrite R. unfold Rdiv. rewrite Rinv_1, Rmult_1_r, round_B2R.
  rewrite Rlt_bool_true by apply BSN.abs_B2R_lt_emax.
  intros (H1 & H2 & H3).
  apply BSN.B2R_Bsign_inj; trivial.
  rewrite H3. simpl. apply xorb_false_r.
  destruct (BSN.Bdiv mode_NE x o); try discriminate; reflexivity.
Qed.
End Ops.

(** ** constants *)
Lemma B2BSN_zero : B2BSN 53 1024 (b64_of_bits f64_zero) = BSN.B754_zero false.
Proof. reflexivity. Qed.
Lemma B2BSN_nan : B2BSN 53 1024 (b64_of_bits f64_nan) = BSN.B754_nan.
Proof. reflexivity. Qed.
Lemma one_is_one : is_one (B2BSN 53 1024 (b64_of_bits f64_one)).
Proof.
  unfold is_one. split; [|split].
  - rewrite <- BSN.SF2R_B2SF.
    replace (BSN.B2SF (B2BSN 53 1024 (b64_of_bits f64_one)))
      with (S754_finite false 4503599627370496 (-52)) by (vm_compute; reflexivity).
    unfold SF2R, F2R. simpl. lra.
  - vm_compute. reflexivity.
  - vm_compute. reflexivity.
Qed.

Lemma bits_lift_nan : bits_of_b64 (f64_norm (lift BSN.B754_nan)) = f64_nan.
Proof. reflexivity. Qed.

Lemma normal_roundtrip a :
  f64_normal a -> bits_of_b64 (f64_norm (lift (B2BSN 53 1024 (b64_of_bits a)))) = a.
Proof. intros H. rewrite norm_lift_B2BSN. exact H. Qed.

Lemma normal_not_negzero a :
  f64_normal a -> B2BSN 53 1024 (b64_of_bits a) <> BSN.B754_zero true.
Proof.
  intros H E. apply f64_normal_char in H. destruct H as (R & Z & _). apply Z.
  rewrite <- (to_of_bits a R).
  destruct (b64_of_bits a) as [[|]| | | ]; try discriminate. reflexivity.
Qed.

Ltac f64_unfold :=
  unfold f64_add, f64_sub, f64_mul, f64_div, f64_lift2,
    b64_plus, b64_minus, b64_mult, b64_div, Bplus, Bminus, Bmult, Bdiv;
  rewrite ?norm_BSN2B.

Theorem f64_add_zero_l t x : f64_is_zero t = true -> f64_normal x -> f64_add t x = x.
Proof.
  intros Ht Hx. apply Z.eqb_eq in Ht. subst t. f64_unfold.
  rewrite B2BSN_zero, bsn_plus_zero_l by now apply normal_not_negzero.
  now apply normal_roundtrip.
Qed.
Theorem f64_add_zero_r t x : f64_is_zero t = true -> f64_normal x -> f64_add x t = x.
Proof.
  intros Ht Hx. apply Z.eqb_eq in Ht. subst t. f64_unfold.
  rewrite B2BSN_zero, bsn_plus_zero_r by now apply normal_not_negzero.
  now apply normal_roundtrip.
Qed.
Theorem f64_sub_zero_r t x : f64_is_zero t = true -> f64_normal x -> f64_sub x t = x.
Proof.
  intros Ht Hx. apply Z.eqb_eq in Ht. subst t. f64_unfold.
  rewrite B2BSN_zero, bsn_minus_zero_r.
  now apply normal_roundtrip.
Qed.
Theorem f64_mul_one_l t x : f64_is_one t = true -> f64_normal x -> f64_mul t x = x.
Proof.
  intros Ht Hx. apply Z.eqb_eq in Ht. subst t. f64_unfold.
  rewrite bsn_mult_one_l by apply one_is_one.
  now apply normal_roundtrip.
Qed.
Theorem f64_mul_one_r t x : f64_is_one t = true -> f64_normal x -> f64_mul x t = x.
Proof.
  intros Ht Hx. apply Z.eqb_eq in Ht. subst t. f64_unfold.
  rewrite bsn_mult_one_r by apply one_is_one.
  now apply normal_roundtrip.
Qed.
Theorem f64_div_one_r t x : f64_is_one t = true -> f64_normal x -> f64_div x t = x.
Proof.
  intros Ht Hx. apply Z.eqb_eq in Ht. subst t. f64_unfold.
  rewrite bsn_div_one_r by apply one_is_one.
  now apply normal_roundtrip.
Qed.

Theorem f64_sub_zero_l_refuted :
  exists t x, f64_is_zero t = true /\ f64_normal x /\ f64_sub t x <> x.
Proof.
  exists f64_zero, 0x4008000000000000. split; [reflexivity|]. split.
  - vm_compute. reflexivity.
  - vm_compute. discriminate.
Qed.

Theorem f64_add_comm a b : f64_add a b = f64_add b a.
Proof. f64_unfold. now rewrite bsn_plus_comm. Qed.
Theorem f64_mul_comm a b : f64_mul a b = f64_mul b a.
Proof. f64_unfold. now rewrite bsn_mult_comm. Qed.

(** ** NaN absorbing *)
Section NanR.
Context (Hp : Prec_gt_0 53) (He : Prec_lt_emax 53 1024).
Lemma bsn_plus_nan_r (x : bsn) : BSN.Bplus mode_NE x BSN.B754_nan = BSN.B754_nan.
Proof. destruct x; reflexivity. Qed.
Lemma bsn_minus_nan_r (x : bsn) : BSN.Bminus mode_NE x BSN.B754_nan = BSN.B754_nan.
Proof. destruct x; reflexivity. Qed.
Lemma bsn_mult_nan_r (x : bsn) : BSN.Bmult mode_NE x BSN.B754_nan = BSN.B754_nan.
Proof. destruct x; reflexivity. Qed.
Lemma bsn_div_nan_r (x : bsn) : BSN.Bdiv mode_NE x BSN.B754_nan = BSN.B754_nan.
Proof. destruct x; reflexivity. Qed.
End NanR.

Lemma f64_cmp_nan_r x : x <> f64_nan -> f64_partial_cmp x f64_nan = None.
Proof.
  intros H. unfold f64_partial_cmp. apply Z.eqb_neq in H. fold f64_nan. rewrite H.
  unfold b64_compare, Bcompare, BSN.Bcompare. rewrite B2BSN_nan.
  destruct (B2BSN 53 1024 (b64_of_bits x)); reflexivity.
Qed.
Lemma f64_cmp_nan_l x : x <> f64_nan -> f64_partial_cmp f64_nan x = None.
Proof.
  intros H. unfold f64_partial_cmp. apply Z.eqb_neq in H. fold f64_nan.
  rewrite Z.eqb_refl, H. reflexivity.
Qed.
Lemma f64_cmp_nan_nan : f64_partial_cmp f64_nan f64_nan = Some Eq.
Proof. reflexivity. Qed.

Theorem f64_nan_absorbing t x :
  f64_is_nan t = true ->
  f64_add t x = f64_nan /\ f64_add x t = f64_nan /\
  f64_sub t x = f64_nan /\ f64_sub x t = f64_nan /\
  f64_mul t x = f64_nan /\ f64_mul x t = f64_nan /\
  f64_div t x = f64_nan /\ f64_div x t = f64_nan /\
  f64_min t x = f64_nan /\ f64_min x t = f64_nan /\
  f64_max t x = f64_nan /\ f64_max x t = f64_nan.
Proof.
  intros Ht. apply Z.eqb_eq in Ht. subst t.
  assert (M : forall a b, (a = f64_nan \/ b = f64_nan) ->
                          f64_min a b = f64_nan /\ f64_max a b = f64_nan).
  { intros a b H. unfold f64_min, f64_max.
    destruct (Z.eq_dec a f64_nan) as [->|Ha], (Z.eq_dec b f64_nan) as [->|Hb].
    - rewrite f64_cmp_nan_nan. split; reflexivity.
    - rewrite f64_cmp_nan_l by trivial. split; reflexivity.
    - rewrite f64_cmp_nan_r by trivial. split; reflexivity.
    - exfalso. tauto. }
  repeat split; try (apply M; auto; fail); f64_unfold; rewrite B2BSN_nan;
    rewrite ?bsn_plus_nan_r, ?bsn_minus_nan_r, ?bsn_mult_nan_r, ?bsn_div_nan_r;
    reflexivity.
Qed.

(** ** order *)
Lemma SFcompare_refl s : s <> S754_nan -> SFcompare s s = Some Eq.
Proof.
  destruct s as [b|b| |b m e]; try congruence; intros _; simpl; trivial.
  - destruct b; reflexivity.
  - destruct b; rewrite Z.compare_refl, Pos.compare_cont_refl; reflexivity.
Qed.

Lemma SFcompare_eq s1 s2 :
  SFcompare s1 s2 = Some Eq ->
  s1 = s2 \/ (exists b1 b2, s1 = S754_zero b1 /\ s2 = S754_zero b2).
Proof.
  destruct s1 as [b1|b1| |b1 m1 e1], s2 as [b2|b2| |b2 m2 e2]; simpl; intros H;
    try discriminate; try (right; eauto; fail);
    try (destruct b1; discriminate); try (destruct b2; discriminate).
  - left. destruct b1, b2; try discriminate; reflexivity.
  - left. destruct b1, b2; try discriminate;
      destruct (e1 ?= e2) eqn:E; try discriminate;
      apply Z.compare_eq in E; subst e2; injection H as H.
    + apply (f_equal CompOpp) in H. rewrite CompOpp_involutive in H. simpl in H.
      apply Pos.compare_eq in H. now subst.
    + apply Pos.compare_eq in H. now subst.
Qed.

Lemma SFcompare_none s1 s2 : SFcompare s1 s2 = None -> s1 = S754_nan \/ s2 = S754_nan.
Proof.
  destruct s1 as [b1|b1| |b1 m1 e1], s2 as [b2|b2| |b2 m2 e2]; simpl; intros H;
    try discriminate; auto.
Qed.

Lemma B2SF_nan_iff (v : binary64) :
  BSN.B2SF (B2BSN 53 1024 v) = S754_nan <-> is_nan 53 1024 v = true.
Proof. destruct v; simpl; split; intros; try discriminate; trivial. Qed.

Lemma normal_nan a : f64_normal a -> is_nan 53 1024 (b64_of_bits a) = true -> a = f64_nan.
Proof. intros H. apply f64_normal_char in H. tauto. Qed.

Lemma normal_nonnan a :
  f64_normal a -> a <> f64_nan -> BSN.B2SF (B2BSN 53 1024 (b64_of_bits a)) <> S754_nan.
Proof. intros H N E. apply N, normal_nan; trivial. now apply B2SF_nan_iff. Qed.

Lemma B2SF_B2BSN_inj (v w : binary64) :
  is_nan 53 1024 v = false ->
  BSN.B2SF (B2BSN 53 1024 v) = BSN.B2SF (B2BSN 53 1024 w) -> v = w.
Proof.
  intros N E. apply B2FF_inj.
  destruct v, w; simpl in *; try discriminate; inversion E; reflexivity.
Qed.

Lemma f64_cmp_unfold a b :
  a <> f64_nan ->
  f64_partial_cmp a b =
  SFcompare (BSN.B2SF (B2BSN 53 1024 (b64_of_bits a))) (BSN.B2SF (B2BSN 53 1024 (b64_of_bits b))).
Proof.
  intros H. unfold f64_partial_cmp. apply Z.eqb_neq in H. fold f64_nan. now rewrite H.
Qed.

Theorem f64_cmp_refl a : f64_normal a -> f64_partial_cmp a a = Some Eq.
Proof.
  intros H. destruct (Z.eq_dec a f64_nan) as [->|N]. reflexivity.
  rewrite f64_cmp_unfold by trivial. apply SFcompare_refl. now apply normal_nonnan.
Qed.

Theorem f64_cmp_eq_iff a b :
  f64_normal a -> f64_normal b -> (f64_partial_cmp a b = Some Eq <-> a = b).
Proof.
  intros Ha Hb. split; [|intros <-; now apply f64_cmp_refl].
  destruct (Z.eq_dec a f64_nan) as [->|N].
  - destruct (Z.eq_dec b f64_nan) as [->|Nb]; trivial.
    rewrite f64_cmp_nan_l by trivial. discriminate.
  - rewrite f64_cmp_unfold by trivial. intros E.
    assert (Ra : 0 <= a < 2 ^ 64) by (apply f64_normal_char in Ha; tauto).
    assert (Rb : 0 <= b < 2 ^ 64) by (apply f64_normal_char in Hb; tauto).
    rewrite <- (to_of_bits a Ra), <- (to_of_bits b Rb). f_equal.
    destruct (SFcompare_eq _ _ E) as [E'|(b1 & b2 & E1 & E2)].
    + apply B2SF_B2BSN_inj; trivial.
      destruct (is_nan 53 1024 (b64_of_bits a)) eqn:Na; trivial.
      exfalso. apply N. now apply normal_nan.
    + apply normal_not_negzero in Ha, Hb.
      destruct (b64_of_bits a) as [[|]| | |], (b64_of_bits b) as [[|]| | |];
        try discriminate; try reflexivity; exfalso; (now apply Ha) || (now apply Hb).
Qed.

Theorem f64_cmp_antisym a b :
  f64_partial_cmp b a = option_map CompOpp (f64_partial_cmp a b).
Proof.
  destruct (Z.eq_dec a f64_nan) as [->|Na], (Z.eq_dec b f64_nan) as [->|Nb].
  - reflexivity.
  - now rewrite f64_cmp_nan_l, f64_cmp_nan_r.
  - now rewrite f64_cmp_nan_l, f64_cmp_nan_r.
  - unfold f64_partial_cmp. apply Z.eqb_neq in Na, Nb. fold f64_nan. rewrite Na, Nb.
    unfold b64_compare. rewrite Bcompare_swap.
    destruct (Bcompare 53 1024 (b64_of_bits a) (b64_of_bits b)); reflexivity.
Qed.

Theorem f64_cmp_none_iff a b :
  f64_normal a -> f64_normal b ->
  (f64_partial_cmp a b = None <->
   ((a = f64_nan /\ b <> f64_nan) \/ (a <> f64_nan /\ b = f64_nan))).
Proof.
  intros Ha Hb.
  destruct (Z.eq_dec a f64_nan) as [->|Na], (Z.eq_dec b f64_nan) as [->|Nb].
  - rewrite f64_cmp_nan_nan. split. discriminate. intros [[_ H]|[H _]]; congruence.
  - rewrite f64_cmp_nan_l by trivial. tauto.
  - rewrite f64_cmp_nan_r by trivial. tauto.
  - split; [|tauto]. rewrite f64_cmp_unfold by trivial. intros E.
    exfalso. destruct (SFcompare_none _ _ E) as [E'|E'].
    + now apply (normal_nonnan a Ha Na).
    + now apply (normal_nonnan b Hb Nb).
Qed.

(** on finite values the order is the order of the real numbers they denote *)
Theorem f64_cmp_finite a b :
  is_finite 53 1024 (b64_of_bits a) = true -> is_finite 53 1024 (b64_of_bits b) = true ->
  a <> f64_nan ->
  f64_partial_cmp a b =
  Some (Rcompare (B2R 53 1024 (b64_of_bits a)) (B2R 53 1024 (b64_of_bits b))).
Proof.
  intros Fa Fb Na. unfold f64_partial_cmp. apply Z.eqb_neq in Na. fold f64_nan. rewrite Na.
  now apply Bcompare_correct.
Qed.

(** ** min / max *)
Theorem f64_min_idem a : f64_normal a -> f64_min a a = a.
Proof. intros H. unfold f64_min. now rewrite f64_cmp_refl. Qed.
Theorem f64_max_idem a : f64_normal a -> f64_max a a = a.
Proof. intros H. unfold f64_max. now rewrite f64_cmp_refl. Qed.

Theorem f64_min_comm a b : f64_normal a -> f64_normal b -> f64_min a b = f64_min b a.
Proof.
  intros Ha Hb. unfold f64_min. rewrite (f64_cmp_antisym a b).
  destruct (f64_partial_cmp a b) as [[| |]|] eqn:E; simpl; trivial.
  now apply f64_cmp_eq_iff in E.
Qed.
Theorem f64_max_comm a b : f64_normal a -> f64_normal b -> f64_max a b = f64_max b a.
Proof.
  intros Ha Hb. unfold f64_max. rewrite (f64_cmp_antisym a b).
  destruct (f64_partial_cmp a b) as [[| |]|] eqn:E; simpl; trivial.
  now apply f64_cmp_eq_iff in E.
Qed.

Lemma f64_nan_normal : f64_normal f64_nan.
Proof. vm_compute. reflexivity. Qed.
Theorem f64_min_normal a b : f64_normal a -> f64_normal b -> f64_normal (f64_min a b).
Proof.
  intros. unfold f64_min. destruct (f64_partial_cmp a b) as [[| |]|]; trivial.
  apply f64_nan_normal.
Qed.
Theorem f64_max_normal a b : f64_normal a -> f64_normal b -> f64_normal (f64_max a b).
Proof.
  intros. unfold f64_max. destruct (f64_partial_cmp a b) as [[| |]|]; trivial.
  apply f64_nan_normal.
Qed.

Theorem f64_max_as_min_refuted :
  exists a b, f64_normal a /\ f64_normal b /\ f64_max a b <> f64_min a b.
Proof.
  exists f64_one, 0x4000000000000000. split; [|split].
  - vm_compute. reflexivity.
  - vm_compute. reflexivity.
  - vm_compute. discriminate.
Qed.

(** ** the operations are the IEEE-754 operations followed by the normalisation *)
Theorem f64_ops_ieee a b :
  f64_add a b = bits_of_b64 (f64_norm (b64_plus mode_NE (b64_of_bits a) (b64_of_bits b))) /\
  f64_sub a b = bits_of_b64 (f64_norm (b64_minus mode_NE (b64_of_bits a) (b64_of_bits b))) /\
  f64_mul a b = bits_of_b64 (f64_norm (b64_mult mode_NE (b64_of_bits a) (b64_of_bits b))) /\
  f64_div a b = bits_of_b64 (f64_norm (b64_div mode_NE (b64_of_bits a) (b64_of_bits b))).
Proof. repeat split. Qed.

Lemma B2R_norm r : B2R 53 1024 (f64_norm r) = B2R 53 1024 r.
Proof.
  unfold f64_norm. destruct (is_nan 53 1024 r) eqn:N.
  - destruct r; try discriminate. reflexivity.
  - destruct (bits_of_b64 r =? f64_NEG_ZERO_bits) eqn:E; trivial.
    apply Z.eqb_eq in E. rewrite <- (of_to_bits r), E. reflexivity.
Qed.

Notation rnd x := (round radix2 (SpecFloat.fexp 53 1024) (round_mode mode_NE) x).
Notation R_of a := (B2R 53 1024 (b64_of_bits a)).

(** finite operands, no overflow: the result denotes the correctly rounded
    (to nearest, ties to even) exact result *)
Theorem f64_add_round a b :
  is_finite 53 1024 (b64_of_bits a) = true -> is_finite 53 1024 (b64_of_bits b) = true ->
  (Rabs (rnd (R_of a + R_of b)) < bpow radix2 1024)%R ->
  R_of (f64_add a b) = rnd (R_of a + R_of b).
Proof.
  intros Fa Fb Hov. unfold f64_add, f64_lift2, b64_plus. rewrite of_to_bits, B2R_norm.
  generalize (Bplus_correct 53 1024 eq_refl eq_refl binop_nan_pl64 mode_NE _ _ Fa Fb).
  rewrite Rlt_bool_true by exact Hov. intros (H & _). exact H.
Qed.
Theorem f64_sub_round a b :
  is_finite 53 1024 (b64_of_bits a) = true -> is_finite 53 1024 (b64_of_bits b) = true ->
  (Rabs (rnd (R_of a - R_of b)) < bpow radix2 1024)%R ->
  R_of (f64_sub a b) = rnd (R_of a - R_of b).
Proof.
  intros Fa Fb Hov. unfold f64_sub, f64_lift2, b64_minus. rewrite of_to_bits, B2R_norm.
  generalize (Bminus_correct 53 1024 eq_refl eq_refl binop_nan_pl64 mode_NE _ _ Fa Fb).
  rewrite Rlt_bool_true by exact Hov. intros (H & _). exact H.
Qed.
Theorem f64_mul_round a b :
  (Rabs (rnd (R_of a * R_of b)) < bpow radix2 1024)%R ->
  R_of (f64_mul a b) = rnd (R_of a * R_of b).
Proof.
  intros Hov. unfold f64_mul, f64_lift2, b64_mult. rewrite of_to_bits, B2R_norm.
  generalize (Bmult_correct 53 1024 eq_refl eq_refl binop_nan_pl64 mode_NE (b64_of_bits a) (b64_of_bits b)).
  rewrite Rlt_bool_true by exact Hov. intros (H & _). exact H.
Qed.
Theorem f64_div_round a b :
  R_of b <> 0%R ->
  (Rabs (rnd (R_of a / R_of b)) < bpow radix2 1024)%R ->
  R_of (f64_div a b) = rnd (R_of a / R_of b).
Proof.
  intros Hb Hov. unfold f64_div, f64_lift2, b64_div. rewrite of_to_bits, B2R_norm.
  generalize (Bdiv_correct 53 1024 eq_refl eq_refl binop_nan_pl64 mode_NE (b64_of_bits a) (b64_of_bits b) Hb).
  rewrite Rlt_bool_true by exact Hov. intros (H & _). exact H.
Qed.

(** ** special values (the documented NaN and infinity behaviour) *)
Definition f64_INF : Z := 0x7FF0000000000000.
Definition f64_NINF : Z := 0xFFF0000000000000.

Theorem f64_undefined_forms :
  f64_add f64_INF f64_NINF = f64_nan /\ f64_add f64_NINF f64_INF = f64_nan /\
  f64_sub f64_INF f64_INF = f64_nan /\ f64_sub f64_NINF f64_NINF = f64_nan /\
  f64_mul f64_zero f64_INF = f64_nan /\ f64_mul f64_NINF f64_zero = f64_nan /\
  f64_div f64_zero f64_zero = f64_nan /\
  f64_div f64_INF f64_INF = f64_nan /\ f64_div f64_INF f64_NINF = f64_nan /\
  f64_div f64_NINF f64_INF = f64_nan /\ f64_div f64_NINF f64_NINF = f64_nan.
Proof. repeat split; vm_compute; reflexivity. Qed.

(** x / 0 for finite non-zero x: the infinity of the sign of x *)
Theorem f64_div_zero x s m e H :
  b64_of_bits x = B754_finite 53 1024 s m e H ->
  f64_div x f64_zero = if s then f64_NINF else f64_INF.
Proof.
  intros E. f64_unfold. rewrite B2BSN_zero, E. simpl. destruct s; reflexivity.
Qed.

(** signed zero is normalised away: (-1) * 0, 0 / (-1), (-x) + x all give +0 *)
Example f64_signed_zero_ex :
  f64_mul 0xBFF0000000000000 f64_zero = f64_zero /\
  f64_div f64_zero 0xBFF0000000000000 = f64_zero /\
  f64_add 0xBFF0000000000000 f64_one = f64_zero.
Proof. repeat split; vm_compute; reflexivity. Qed.

(** why the zero laws need normalised operands: with an (impossible) operand
    -0 the law x + 0 = x would fail; [F64::from] rules this operand out *)
Example f64_add_zero_r_negzero : f64_add f64_NEG_ZERO_bits f64_zero <> f64_NEG_ZERO_bits.
Proof. vm_compute. discriminate. Qed.

(** hypotheses are satisfiable / non-trivial instances *)
Example f64_examples :
  f64_normal 0x3FB999999999999A /\
  f64_add 0x3FB999999999999A 0x3FC999999999999A = 0x3FD3333333333334 /\ (* 0.1 + 0.2 *)
  f64_mul 0x7FEFFFFFFFFFFFFF 0x4000000000000000 = f64_INF /\             (* overflow *)
  f64_div 0x0000000000000001 0x4000000000000000 = f64_zero /\            (* underflow, ties to even *)
  f64_from_bits 0xFFF8000000000001 = f64_nan /\
  f64_partial_cmp f64_NINF f64_one = Some Lt.
Proof. repeat split; vm_compute; reflexivity. Qed.

(** ** bundles (one statement per group; used by Props/C10.v and meant as the
    hypotheses of the diagram-level lifting) *)

Theorem f64_closed a b :
  f64_normal (f64_add a b) /\ f64_normal (f64_sub a b) /\
  f64_normal (f64_mul a b) /\ f64_normal (f64_div a b) /\
  (f64_normal a -> f64_normal b -> f64_normal (f64_min a b) /\ f64_normal (f64_max a b)).
Proof.
  split; [apply f64_add_normal|]. split; [apply f64_sub_normal|].
  split; [apply f64_mul_normal|]. split; [apply f64_div_normal|].
  intros Ha Hb. split. now apply f64_min_normal. now apply f64_max_normal.
Qed.

Theorem f64_shortcut_laws t x :
  f64_normal x ->
  (f64_is_zero t = true -> f64_add t x = x /\ f64_add x t = x /\ f64_sub x t = x) /\
  (f64_is_one t = true -> f64_mul t x = x /\ f64_mul x t = x /\ f64_div x t = x).
Proof.
  intros Hx. split; intros Ht; repeat split.
  - now apply f64_add_zero_l. - now apply f64_add_zero_r. - now apply f64_sub_zero_r.
  - now apply f64_mul_one_l. - now apply f64_mul_one_r. - now apply f64_div_one_r.
Qed.

Theorem f64_swap_laws a b :
  f64_add a b = f64_add b a /\ f64_mul a b = f64_mul b a /\
  (f64_normal a -> f64_normal b ->
   f64_min a b = f64_min b a /\ f64_max a b = f64_max b a).
Proof.
  split; [apply f64_add_comm|]. split; [apply f64_mul_comm|].
  intros Ha Hb. split. now apply f64_min_comm. now apply f64_max_comm.
Qed.

Theorem f64_minmax_idem a : f64_normal a -> f64_min a a = a /\ f64_max a a = a.
Proof. intros H. split. now apply f64_min_idem. now apply f64_max_idem. Qed.

Theorem f64_cmp_order :
  (forall a, f64_normal a -> f64_partial_cmp a a = Some Eq) /\
  (forall a b, f64_normal a -> f64_normal b -> (f64_partial_cmp a b = Some Eq <-> a = b)) /\
  (forall a b, f64_partial_cmp b a = option_map CompOpp (f64_partial_cmp a b)) /\
  (forall a b, f64_normal a -> f64_normal b ->
     (f64_partial_cmp a b = None <->
      ((a = f64_nan /\ b <> f64_nan) \/ (a <> f64_nan /\ b = f64_nan)))).
Proof.
  split; [exact f64_cmp_refl|]. split; [exact f64_cmp_eq_iff|].
  split; [exact f64_cmp_antisym|exact f64_cmp_none_iff].
Qed.

Theorem f64_round_correct a b :
  let fin x := is_finite 53 1024 (b64_of_bits x) = true in
  let no_ovf (r : R) := (Rabs (rnd r) < bpow radix2 1024)%R in
  (fin a -> fin b -> no_ovf (R_of a + R_of b)%R -> R_of (f64_add a b) = rnd (R_of a + R_of b)) /\
  (fin a -> fin b -> no_ovf (R_of a - R_of b)%R -> R_of (f64_sub a b) = rnd (R_of a - R_of b)) /\
  (no_ovf (R_of a * R_of b)%R -> R_of (f64_mul a b) = rnd (R_of a * R_of b)) /\
  (R_of b <> 0%R -> no_ovf (R_of a / R_of b)%R -> R_of (f64_div a b) = rnd (R_of a / R_of b)).
Proof.
  cbv zeta. split; [apply f64_add_round|]. split; [apply f64_sub_round|].
  split; [apply f64_mul_round|apply f64_div_round].
Qed.
