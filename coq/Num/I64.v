(** C10, scalar level — model of the integer terminal type [I64]
    (/repo/crates/oxidd-rules-mtbdd/src/terminal/i64.rs) and of the default
    methods of [NumberBase] (/repo/crates/oxidd-core/src/function.rs).

    Executable Gallina only; the theorems are in [Num/I64Proofs.v].

    Two layers:
    - the *model* ([i64_add] ... [i64_max]) mirrors the Rust match arms one to
      one (same case order, same conditions);
    - the *spec* ([ext_add] ... [ext_cmp], [clamp]) is exact arithmetic on the
      extended integers Z ∪ {-∞, +∞, NaN} and the saturation to 64 bits that
      the property text describes.

    Both layers use the type [i64v]: with an unbounded payload it is the set of
    extended integers, with a payload satisfying [in_i64] (predicate [wf]) it
    is the set of values of the Rust enum [I64]. *)
From Coq Require Import ZArith Bool.
Local Open Scope Z_scope.

(** Rust: [enum I64 { NaN, MinusInf, Num(i64), PlusInf }] (same constructor order) *)
Inductive i64v : Type :=
| INaN
| IMinusInf
| INum (z : Z)
| IPlusInf.

Definition i64_MIN : Z := -9223372036854775808.
Definition i64_MAX : Z := 9223372036854775807.

(** range of the machine type [i64] *)
Definition in_i64 (z : Z) : Prop := - 2 ^ 63 <= z < 2 ^ 63.
Definition in_i64b (z : Z) : bool := (i64_MIN <=? z) && (z <=? i64_MAX).

(** the values that exist in the Rust program *)
Definition wf (a : i64v) : Prop :=
  match a with INum z => in_i64 z | _ => True end.
Definition wfb (a : i64v) : bool :=
  match a with INum z => in_i64b z | _ => true end.

(** Rust: [i64::checked_add/checked_sub/checked_mul]: [None] on overflow *)
Definition checked_add (x y : Z) : option Z :=
  if in_i64b (x + y) then Some (x + y) else None.
Definition checked_sub (x y : Z) : option Z :=
  if in_i64b (x - y) then Some (x - y) else None.
Definition checked_mul (x y : Z) : option Z :=
  if in_i64b (x * y) then Some (x * y) else None.

(** Rust: [I64::signum] ([None] for NaN; [i64::signum] is [Z.sgn]) *)
Definition i64_signum (a : i64v) : option Z :=
  match a with
  | INaN => None
  | IMinusInf => Some (-1)
  | INum n => Some (Z.sgn n)
  | IPlusInf => Some 1
  end.

(** Rust: [NumberBase::zero/one/nan for I64] *)
Definition i64_zero : i64v := INum 0.
Definition i64_one : i64v := INum 1.
Definition i64_nan : i64v := INaN.

(** Rust: [impl Add for I64] (after the fix of the overflow branch) *)
Definition i64_add (a b : i64v) : i64v :=
  match a, b with
  | INum lhs, INum rhs =>
      match checked_add lhs rhs with
      | Some n => INum n
      | None => if (0 <? lhs) && (0 <? rhs) then IPlusInf else IMinusInf
      end
  | INaN, _ | _, INaN | IMinusInf, IPlusInf | IPlusInf, IMinusInf => INaN
  | IMinusInf, _ | _, IMinusInf => IMinusInf
  | IPlusInf, _ | _, IPlusInf => IPlusInf
  end.

(** Rust: [impl Sub for I64] (after the fix of the overflow branch) *)
Definition i64_sub (a b : i64v) : i64v :=
  match a, b with
  | INum lhs, INum rhs =>
      match checked_sub lhs rhs with
      | Some n => INum n
      | None => if (0 <=? lhs) && (rhs <? 0) then IPlusInf else IMinusInf
      end
  | INaN, _ | _, INaN | IMinusInf, IMinusInf | IPlusInf, IPlusInf => INaN
  | IMinusInf, _ | _, IPlusInf => IMinusInf
  | IPlusInf, _ | _, IMinusInf => IPlusInf
  end.

(** Rust: [impl Mul for I64].  The last arm calls [signum().unwrap()] on both
    operands; NaN has been excluded by the arm before, so the [None] cases
    below are unreachable ([i64_mul_unwrap_reachable] in the proofs file
    shows that the result never comes from them). *)
Definition i64_mul (a b : i64v) : i64v :=
  match a, b with
  | INum lhs, INum rhs =>
      match checked_mul lhs rhs with
      | Some n => INum n
      | None =>
          if ((0 <? lhs) && (0 <? rhs)) || ((lhs <? 0) && (rhs <? 0))
          then IPlusInf else IMinusInf
      end
  | INaN, _ | _, INaN => INaN
  | _, _ =>
      match i64_signum a, i64_signum b with
      | Some sa, Some sb =>
          match sa * sb with
          | 1 => IPlusInf
          | -1 => IMinusInf
          | _ => INaN
          end
      | _, _ => INaN (* unwrap() would panic; unreachable *)
      end
  end.

(** Rust: [impl Div for I64]; [/] on [i64] truncates toward zero = [Z.quot] *)
Definition i64_div (a b : i64v) : i64v :=
  match a, b with
  | INum lhs, INum rhs =>
      if rhs =? 0 then
        match lhs ?= 0 with
        | Lt => IMinusInf
        | Eq => INaN
        | Gt => IPlusInf
        end
      else if (lhs =? i64_MIN) && (rhs =? -1) then IPlusInf
      else INum (Z.quot lhs rhs)
  | INum _, (IMinusInf | IPlusInf) => INum 0
  | IPlusInf, INum n => if n <? 0 then IMinusInf else IPlusInf
  | IMinusInf, INum n => if n <? 0 then IPlusInf else IMinusInf
  | _, _ => INaN
  end.

(** Rust: [impl PartialOrd for I64] ([Ordering::Less/Equal/Greater] = [Lt/Eq/Gt]) *)
Definition i64_partial_cmp (a b : i64v) : option comparison :=
  match a, b with
  | INum lhs, INum rhs => Some (lhs ?= rhs)
  | INaN, INaN | IMinusInf, IMinusInf | IPlusInf, IPlusInf => Some Eq
  | INaN, _ | _, INaN => None
  | IMinusInf, _ | _, IPlusInf => Some Lt
  | _, IMinusInf | IPlusInf, _ => Some Gt
  end.

(** Rust: [#[derive(PartialEq, Eq)]] *)
Definition i64_eqb (a b : i64v) : bool :=
  match a, b with
  | INaN, INaN | IMinusInf, IMinusInf | IPlusInf, IPlusInf => true
  | INum x, INum y => x =? y
  | _, _ => false
  end.

(** Rust: default methods [NumberBase::is_zero/is_one/is_nan] ([self == &Self::zero()] ...) *)
Definition i64_is_zero (a : i64v) : bool := i64_eqb a i64_zero.
Definition i64_is_one (a : i64v) : bool := i64_eqb a i64_one.
Definition i64_is_nan (a : i64v) : bool := i64_eqb a i64_nan.

(** Rust: the (Terminal, Terminal) arm of [terminal_bin] for [MTBDDOp::Min] /
    [MTBDDOp::Max] in oxidd-rules-mtbdd/src/lib.rs, instantiated for [I64] *)
Definition i64_min (a b : i64v) : i64v :=
  match i64_partial_cmp a b with
  | Some Lt | Some Eq => a
  | Some Gt => b
  | None => i64_nan
  end.
Definition i64_max (a b : i64v) : i64v :=
  match i64_partial_cmp a b with
  | Some Gt | Some Eq => a
  | Some Lt => b
  | None => i64_nan
  end.

(** ** Spec layer: exact arithmetic on the extended integers *)

(** sign of a non-NaN extended integer *)
Definition ext_sgn (a : i64v) : Z :=
  match a with
  | INaN => 0
  | IMinusInf => -1
  | INum z => Z.sgn z
  | IPlusInf => 1
  end.

(** the infinity of a sign; no sign (0) is the undefined form *)
Definition inf_of_sgn (s : Z) : i64v :=
  match s with
  | Z0 => INaN
  | Zpos _ => IPlusInf
  | Zneg _ => IMinusInf
  end.

Definition ext_opp (a : i64v) : i64v :=
  match a with
  | INaN => INaN
  | IMinusInf => IPlusInf
  | INum z => INum (- z)
  | IPlusInf => IMinusInf
  end.

(** x + y; ∞ + (-∞) undefined *)
Definition ext_add (a b : i64v) : i64v :=
  match a, b with
  | INaN, _ | _, INaN => INaN
  | INum x, INum y => INum (x + y)
  | INum _, _ => b
  | _, INum _ => a
  | IPlusInf, IPlusInf => IPlusInf
  | IMinusInf, IMinusInf => IMinusInf
  | _, _ => INaN
  end.

(** x - y = x + (-y); ∞ - ∞ undefined *)
Definition ext_sub (a b : i64v) : i64v := ext_add a (ext_opp b).

(** x * y; with an infinite factor the result is the infinity of the product of
    the signs, 0 * ∞ undefined *)
Definition ext_mul (a b : i64v) : i64v :=
  match a, b with
  | INaN, _ | _, INaN => INaN
  | INum x, INum y => INum (x * y)
  | _, _ => inf_of_sgn (ext_sgn a * ext_sgn b)
  end.

(** x / y, truncating toward zero; x/0 = ±∞ by the sign of x (0/0 undefined);
    finite/∞ = 0; ∞/finite = ∞ with the sign of ∞ flipped by a negative
    divisor (∞/0 keeps the sign of ∞: "x/0 = ±∞ by the sign of x"); ∞/∞ undefined *)
Definition ext_div (a b : i64v) : i64v :=
  match a, b with
  | INaN, _ | _, INaN => INaN
  | INum x, INum y => if y =? 0 then inf_of_sgn (Z.sgn x) else INum (Z.quot x y)
  | INum _, _ => INum 0
  | _, INum y => inf_of_sgn (ext_sgn a * (if y <? 0 then -1 else 1))
  | _, _ => INaN
  end.

(** saturation: a finite value stays if it is representable, otherwise it
    becomes the infinity of its sign *)
Definition clamp (a : i64v) : i64v :=
  match a with
  | INum z => if in_i64b z then INum z else inf_of_sgn (Z.sgn z)
  | _ => a
  end.

(** order of the extended integers: -∞ < every integer < +∞; NaN is comparable
    only with itself *)
Definition ext_rank (a : i64v) : Z * Z :=
  match a with
  | INaN => (0, 0)
  | IMinusInf => (-1, 0)
  | INum z => (0, z)
  | IPlusInf => (1, 0)
  end.
Definition ext_cmp (a b : i64v) : option comparison :=
  match a, b with
  | INaN, INaN => Some Eq
  | INaN, _ | _, INaN => None
  | _, _ =>
      let (ta, za) := ext_rank a in
      let (tb, zb) := ext_rank b in
      Some (match ta ?= tb with Eq => za ?= zb | c => c end)
  end.
Definition ext_le (a b : i64v) : Prop :=
  match ext_cmp a b with Some Lt | Some Eq => True | _ => False end.

(** for the driver: all binary results at once *)
Definition i64_spec_add (a b : i64v) : i64v := clamp (ext_add a b).
Definition i64_spec_sub (a b : i64v) : i64v := clamp (ext_sub a b).
Definition i64_spec_mul (a b : i64v) : i64v := clamp (ext_mul a b).
Definition i64_spec_div (a b : i64v) : i64v := clamp (ext_div a b).
