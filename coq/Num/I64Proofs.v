(** C10, scalar level — theorems about the [I64] model of [Num/I64.v].

    Naming scheme (shared with [Num/F64Proofs.v], prefix [f64_]):
      [i64_add_spec] ...          model = clamp (exact extended-integer result)
      [i64_add_wf] ...            closure: results are values of the Rust type
      [i64_add_zero_l] ...        short-cut laws used by [terminal_bin]
      [i64_add_nan_l/_r] ...      NaN absorbing
      [i64_add_comm] ...          operand swap of the cache normalisation
      [..._refuted]               a short-cut arm of [terminal_bin] that is not a law *)
From Coq Require Import ZArith Bool Lia.
From OxiVerif Require Import Num.I64.
Local Open Scope Z_scope.

Arguments Z.add : simpl never.
Arguments Z.sub : simpl never.
Arguments Z.mul : simpl never.
Arguments Z.quot : simpl never.
Arguments Z.pow : simpl never.

(** ** range predicate *)

Lemma pow63 : 2 ^ 63 = 9223372036854775808.
Proof. reflexivity. Qed.

Lemma in_i64b_true z : in_i64b z = true <-> in_i64 z.
Proof.
  unfold in_i64b, in_i64, i64_MIN, i64_MAX. rewrite pow63.
  rewrite andb_true_iff, !Z.leb_le. lia.
Qed.

Lemma in_i64b_false z : in_i64b z = false <-> (z < - 2 ^ 63 \/ 2 ^ 63 <= z).
Proof.
  unfold in_i64b, i64_MIN, i64_MAX. rewrite pow63.
  rewrite andb_false_iff, !Z.leb_gt. lia.
Qed.

Lemma wfb_true a : wfb a = true <-> wf a.
Proof. destruct a; simpl; try tauto. apply in_i64b_true. Qed.

Lemma in_i64_MIN : in_i64 i64_MIN.
Proof. unfold in_i64, i64_MIN. rewrite pow63. lia. Qed.
Lemma in_i64_MAX : in_i64 i64_MAX.
Proof. unfold in_i64, i64_MAX. rewrite pow63. lia. Qed.

(** [checked_*] return the exact result exactly when it is representable *)
Lemma checked_add_some x y : in_i64 (x + y) -> checked_add x y = Some (x + y).
Proof. intros H. unfold checked_add. apply in_i64b_true in H. now rewrite H. Qed.
Lemma checked_add_none x y : ~ in_i64 (x + y) -> checked_add x y = None.
Proof.
  intros H. unfold checked_add. destruct (in_i64b (x + y)) eqn:E; trivial.
  apply in_i64b_true in E. contradiction.
Qed.
Lemma checked_sub_some x y : in_i64 (x - y) -> checked_sub x y = Some (x - y).
Proof. intros H. unfold checked_sub. apply in_i64b_true in H. now rewrite H. Qed.
Lemma checked_sub_none x y : ~ in_i64 (x - y) -> checked_sub x y = None.
Proof.
  intros H. unfold checked_sub. destruct (in_i64b (x - y)) eqn:E; trivial.
  apply in_i64b_true in E. contradiction.
Qed.
Lemma checked_mul_some x y : in_i64 (x * y) -> checked_mul x y = Some (x * y).
Proof. intros H. unfold checked_mul. apply in_i64b_true in H. now rewrite H. Qed.
Lemma checked_mul_none x y : ~ in_i64 (x * y) -> checked_mul x y = None.
Proof.
  intros H. unfold checked_mul. destruct (in_i64b (x * y)) eqn:E; trivial.
  apply in_i64b_true in E. contradiction.
Qed.

(** ** clamp *)

Lemma clamp_wf a : wf (clamp a).
Proof.
  destruct a; simpl; trivial.
  destruct (in_i64b z) eqn:E.
  - simpl. now apply in_i64b_true.
  - destruct (Z.sgn z); simpl; trivial.
Qed.

Lemma clamp_id a : wf a -> clamp a = a.
Proof.
  destruct a; simpl; trivial. intros H. apply in_i64b_true in H. now rewrite H.
Qed.

Lemma clamp_idem a : clamp (clamp a) = clamp a.
Proof. apply clamp_id, clamp_wf. Qed.

Lemma clamp_num_in z : in_i64 z -> clamp (INum z) = INum z.
Proof. intros H. now apply (clamp_id (INum z)). Qed.
Lemma clamp_num_hi z : 2 ^ 63 <= z -> clamp (INum z) = IPlusInf.
Proof.
  intros H. simpl. replace (in_i64b z) with false.
  - rewrite Z.sgn_pos; trivial. rewrite pow63 in H. lia.
  - symmetry. apply in_i64b_false. lia.
Qed.
Lemma clamp_num_lo z : z < - 2 ^ 63 -> clamp (INum z) = IMinusInf.
Proof.
  intros H. simpl. replace (in_i64b z) with false.
  - rewrite Z.sgn_neg; trivial. rewrite pow63 in H. lia.
  - symmetry. apply in_i64b_false. lia.
Qed.

(** ** add / sub / mul: the model returns the exact result when representable,
    otherwise the infinity of the exact result's sign *)

Theorem i64_add_spec a b : wf a -> wf b -> i64_add a b = clamp (ext_add a b).
Proof.
  destruct a as [| |x|], b as [| |y|]; simpl; trivial. intros Hx Hy.
  unfold checked_add. destruct (in_i64b (x + y)) eqn:E; trivial.
  apply in_i64b_false in E. unfold in_i64 in Hx, Hy. rewrite pow63 in *.
  destruct (0 <? x) eqn:Ex, (0 <? y) eqn:Ey; simpl;
    rewrite ?Z.ltb_lt, ?Z.ltb_ge in Ex, Ey.
  - rewrite Z.sgn_pos by lia. reflexivity.
  - rewrite Z.sgn_neg by lia. reflexivity.
  - rewrite Z.sgn_neg by lia. reflexivity.
  - rewrite Z.sgn_neg by lia. reflexivity.
Qed.

Theorem i64_sub_spec a b : wf a -> wf b -> i64_sub a b = clamp (ext_sub a b).
Proof.
  destruct a as [| |x|], b as [| |y|]; simpl; trivial. intros Hx Hy.
  unfold checked_sub. replace (x + - y) with (x - y) by lia.
  destruct (in_i64b (x - y)) eqn:E; trivial.
  apply in_i64b_false in E. unfold in_i64 in Hx, Hy. rewrite pow63 in *.
  destruct (0 <=? x) eqn:Ex, (y <? 0) eqn:Ey; simpl;
    rewrite ?Z.leb_le, ?Z.leb_gt, ?Z.ltb_lt, ?Z.ltb_ge in Ex, Ey.
  - rewrite Z.sgn_pos by lia. reflexivity.
  - rewrite Z.sgn_neg by lia. reflexivity.
  - rewrite Z.sgn_neg by lia. reflexivity.
  - rewrite Z.sgn_neg by lia. reflexivity.
Qed.

Lemma sgn_cases z : (z < 0 /\ Z.sgn z = -1) \/ (z = 0 /\ Z.sgn z = 0) \/ (0 < z /\ Z.sgn z = 1).
Proof. destruct z; simpl; lia. Qed.

Theorem i64_mul_spec a b : wf a -> wf b -> i64_mul a b = clamp (ext_mul a b).
Proof.
  destruct a as [| |x|], b as [| |y|]; simpl; trivial.
  - (* -inf * finite *)
    intros _ _. destruct (sgn_cases y) as [[_ ->]|[[_ ->]| [_ ->]]]; reflexivity.
  - intros _ _. destruct (sgn_cases x) as [[_ ->]|[[_ ->]| [_ ->]]]; reflexivity.
  - (* finite * finite *)
    intros Hx Hy. unfold checked_mul.
    destruct (in_i64b (x * y)) eqn:E; trivial.
    apply in_i64b_false in E. rewrite pow63 in E.
    rewrite Z.sgn_mul.
    destruct (sgn_cases x) as [[Hx' ->]|[[Hx' ->]| [Hx' ->]]];
    destruct (sgn_cases y) as [[Hy' ->]|[[Hy' ->]| [Hy' ->]]];
      try (exfalso; subst; lia).
    + replace (0 <? x) with false by (symmetry; apply Z.ltb_ge; lia).
      replace (x <? 0) with true by (symmetry; apply Z.ltb_lt; lia).
      replace (y <? 0) with true by (symmetry; apply Z.ltb_lt; lia).
      reflexivity.
    + replace (0 <? x) with false by (symmetry; apply Z.ltb_ge; lia).
      replace (y <? 0) with false by (symmetry; apply Z.ltb_ge; lia).
      rewrite andb_false_r. reflexivity.
    + replace (0 <? y) with false by (symmetry; apply Z.ltb_ge; lia).
      replace (x <? 0) with false by (symmetry; apply Z.ltb_ge; lia).
      rewrite andb_false_r. reflexivity.
    + replace (0 <? x) with true by (symmetry; apply Z.ltb_lt; lia).
      replace (0 <? y) with true by (symmetry; apply Z.ltb_lt; lia).
      reflexivity.
  - intros _ _. destruct (sgn_cases x) as [[_ ->]|[[_ ->]| [_ ->]]]; reflexivity.
  - intros _ _. destruct (sgn_cases y) as [[_ ->]|[[_ ->]| [_ ->]]]; reflexivity.
Qed.

(** the [unwrap()] calls in the last arm of [Mul] can not panic: [signum] is
    [Some] for every non-NaN value *)
Lemma i64_signum_some a : a <> INaN -> exists s, i64_signum a = Some s /\ s = ext_sgn a.
Proof. destruct a; simpl; intros H; try congruence; eauto. Qed.

Lemma i64_mul_unwrap_reachable a b :
  a <> INaN -> b <> INaN -> i64_signum a <> None /\ i64_signum b <> None.
Proof. destruct a, b; simpl; intros; split; congruence. Qed.

(** ** div *)

Lemma quot_in_range x y :
  in_i64 x -> y <> 0 -> ~ (x = i64_MIN /\ y = -1) -> in_i64 (Z.quot x y).
Proof.
  unfold in_i64, i64_MIN. rewrite pow63. intros Hx Hy Hm.
  assert (Hq := Z.quot_div x y Hy).
  assert (Ha : 0 <= Z.abs x / Z.abs y <= Z.abs x).
  { split. apply Z.div_pos; lia.
    destruct (Z.eq_dec (Z.abs x) 0) as [->|Hx0]. now rewrite Z.div_0_l by lia.
    destruct (Z.eq_dec (Z.abs y) 1) as [->|Hy1]. rewrite Z.div_1_r. lia.
    assert (Z.abs x / Z.abs y < Z.abs x) by (apply Z.div_lt; lia). lia. }
  destruct (Z.eq_dec (Z.abs y) 1) as [Hy1|Hy1].
  - (* |y| = 1 *)
    rewrite Hy1, Z.div_1_r in Hq.
    destruct (sgn_cases x) as [[? Sx]|[[? Sx]| [? Sx]]];
    destruct (sgn_cases y) as [[? Sy]|[[? Sy]| [? Sy]]];
      rewrite Sx, Sy in Hq; lia.
  - assert (Z.abs x / Z.abs y <= Z.abs x / 2).
    { apply Z.div_le_compat_l; lia. }
    assert (Z.abs x / 2 <= 4611686018427387904).
    { apply Z.div_le_upper_bound; lia. }
    destruct (sgn_cases x) as [[? Sx]|[[? Sx]| [? Sx]]];
    destruct (sgn_cases y) as [[? Sy]|[[? Sy]| [? Sy]]];
      rewrite Sx, Sy in Hq; lia.
Qed.

Theorem i64_div_spec a b : wf a -> wf b -> i64_div a b = clamp (ext_div a b).
Proof.
  destruct a as [| |x|], b as [| |y|]; simpl; trivial.
  - intros _ _. destruct (y <? 0); reflexivity.
  - intros Hx Hy. destruct (y =? 0) eqn:Ey.
    + destruct x; reflexivity.
    + apply Z.eqb_neq in Ey.
      destruct ((x =? i64_MIN) && (y =? -1)) eqn:Em.
      * apply andb_true_iff in Em. destruct Em as [E1 E2].
        apply Z.eqb_eq in E1, E2. subst. reflexivity.
      * symmetry. apply clamp_num_in. apply quot_in_range; trivial.
        intros [E1 E2]. subst. discriminate.
  - intros _ _. destruct (y <? 0); reflexivity.
Qed.

(** the individual clauses of the property text *)
Theorem i64_div_trunc x y :
  in_i64 x -> in_i64 y -> y <> 0 -> ~ (x = i64_MIN /\ y = -1) ->
  i64_div (INum x) (INum y) = INum (Z.quot x y) /\ in_i64 (Z.quot x y) /\
  (* truncation toward zero: magnitude = floor of the magnitudes' quotient,
     sign = product of the signs *)
  Z.quot x y = Z.sgn x * Z.sgn y * (Z.abs x / Z.abs y).
Proof.
  intros Hx Hy Hy0 Hm. split; [|split].
  - simpl. replace (y =? 0) with false by (symmetry; now apply Z.eqb_neq).
    destruct ((x =? i64_MIN) && (y =? -1)) eqn:Em; trivial.
    apply andb_true_iff in Em. destruct Em as [E1 E2].
    apply Z.eqb_eq in E1, E2. tauto.
  - now apply quot_in_range.
  - now apply Z.quot_div.
Qed.

Theorem i64_div_zero x :
  i64_div (INum x) (INum 0) =
  if x <? 0 then IMinusInf else if x =? 0 then INaN else IPlusInf.
Proof. destruct x; reflexivity. Qed.

Theorem i64_div_min_m1 : i64_div (INum i64_MIN) (INum (-1)) = IPlusInf.
Proof. reflexivity. Qed.

Theorem i64_div_inf_inf :
  i64_div IPlusInf IPlusInf = INaN /\ i64_div IPlusInf IMinusInf = INaN /\
  i64_div IMinusInf IPlusInf = INaN /\ i64_div IMinusInf IMinusInf = INaN.
Proof. repeat split. Qed.

Theorem i64_div_fin_inf x :
  i64_div (INum x) IPlusInf = INum 0 /\ i64_div (INum x) IMinusInf = INum 0.
Proof. split; reflexivity. Qed.

Theorem i64_div_inf_fin y :
  i64_div IPlusInf (INum y) = (if y <? 0 then IMinusInf else IPlusInf) /\
  i64_div IMinusInf (INum y) = (if y <? 0 then IPlusInf else IMinusInf).
Proof. split; reflexivity. Qed.

(** the undefined forms give NaN *)
Theorem i64_undefined_forms :
  i64_add IPlusInf IMinusInf = INaN /\ i64_add IMinusInf IPlusInf = INaN /\
  i64_sub IPlusInf IPlusInf = INaN /\ i64_sub IMinusInf IMinusInf = INaN /\
  i64_mul (INum 0) IPlusInf = INaN /\ i64_mul (INum 0) IMinusInf = INaN /\
  i64_mul IPlusInf (INum 0) = INaN /\ i64_mul IMinusInf (INum 0) = INaN /\
  i64_div (INum 0) (INum 0) = INaN /\
  i64_div IPlusInf IPlusInf = INaN /\ i64_div IPlusInf IMinusInf = INaN /\
  i64_div IMinusInf IPlusInf = INaN /\ i64_div IMinusInf IMinusInf = INaN.
Proof. repeat split. Qed.

(** ** closure *)

Theorem i64_add_wf a b : wf a -> wf b -> wf (i64_add a b).
Proof. intros. rewrite i64_add_spec by trivial. apply clamp_wf. Qed.
Theorem i64_sub_wf a b : wf a -> wf b -> wf (i64_sub a b).
Proof. intros. rewrite i64_sub_spec by trivial. apply clamp_wf. Qed.
Theorem i64_mul_wf a b : wf a -> wf b -> wf (i64_mul a b).
Proof. intros. rewrite i64_mul_spec by trivial. apply clamp_wf. Qed.
Theorem i64_div_wf a b : wf a -> wf b -> wf (i64_div a b).
Proof. intros. rewrite i64_div_spec by trivial. apply clamp_wf. Qed.

(** ** order *)

Theorem i64_partial_cmp_spec a b : i64_partial_cmp a b = ext_cmp a b.
Proof. destruct a, b; reflexivity. Qed.

Theorem i64_cmp_num x y : i64_partial_cmp (INum x) (INum y) = Some (x ?= y).
Proof. reflexivity. Qed.

Theorem i64_cmp_refl a : i64_partial_cmp a a = Some Eq.
Proof. destruct a; simpl; trivial. now rewrite Z.compare_refl. Qed.

Theorem i64_cmp_eq_iff a b : i64_partial_cmp a b = Some Eq <-> a = b.
Proof.
  split.
  - destruct a, b; simpl; intros H; try discriminate; trivial.
    injection H as H. apply Z.compare_eq in H. now subst.
  - intros ->. apply i64_cmp_refl.
Qed.

(** NaN is incomparable to everything but itself, and nothing else is incomparable *)
Theorem i64_cmp_none_iff a b :
  i64_partial_cmp a b = None <-> ((a = INaN /\ b <> INaN) \/ (a <> INaN /\ b = INaN)).
Proof.
  destruct a, b; simpl; split; intros H; try discriminate; trivial;
    try (left; split; congruence); try (right; split; congruence);
    destruct H as [[? ?]|[? ?]]; congruence.
Qed.

Theorem i64_cmp_antisym a b :
  i64_partial_cmp b a = option_map CompOpp (i64_partial_cmp a b).
Proof. destruct a, b; simpl; trivial. now rewrite Z.compare_antisym. Qed.

Theorem i64_cmp_lt_trans a b c :
  i64_partial_cmp a b = Some Lt -> i64_partial_cmp b c = Some Lt ->
  i64_partial_cmp a c = Some Lt.
Proof.
  destruct a as [| |x|], b as [| |y|], c as [| |z|]; simpl; intros H1 H2;
    try discriminate; trivial.
  injection H1 as H1. injection H2 as H2. f_equal.
  rewrite Z.compare_lt_iff in *. lia.
Qed.

(** -∞ is the least and +∞ the greatest non-NaN value *)
Theorem i64_cmp_inf a :
  a <> INaN ->
  (a <> IMinusInf -> i64_partial_cmp IMinusInf a = Some Lt) /\
  (a <> IPlusInf -> i64_partial_cmp a IPlusInf = Some Lt).
Proof. destruct a; simpl; intros; split; intros; congruence. Qed.

Theorem i64_eqb_spec a b : i64_eqb a b = true <-> a = b.
Proof.
  destruct a, b; simpl; split; intros H; try discriminate; trivial.
  - apply Z.eqb_eq in H. now subst.
  - injection H as ->. apply Z.eqb_refl.
Qed.

Theorem i64_is_zero_spec a : i64_is_zero a = true <-> a = i64_zero.
Proof. apply i64_eqb_spec. Qed.
Theorem i64_is_one_spec a : i64_is_one a = true <-> a = i64_one.
Proof. apply i64_eqb_spec. Qed.
Theorem i64_is_nan_spec a : i64_is_nan a = true <-> a = i64_nan.
Proof. apply i64_eqb_spec. Qed.

(** ** min / max (the terminal arm of [terminal_bin]) *)

Theorem i64_min_spec a b :
  i64_min a b =
  match ext_cmp a b with Some Gt => b | Some _ => a | None => INaN end.
Proof. unfold i64_min. rewrite i64_partial_cmp_spec. destruct (ext_cmp a b) as [[| |]|]; reflexivity. Qed.

Theorem i64_max_spec a b :
  i64_max a b =
  match ext_cmp a b with Some Lt => b | Some _ => a | None => INaN end.
Proof. unfold i64_max. rewrite i64_partial_cmp_spec. destruct (ext_cmp a b) as [[| |]|]; reflexivity. Qed.

(** on finite values min/max are [Z.min]/[Z.max] *)
Theorem i64_min_num x y : i64_min (INum x) (INum y) = INum (Z.min x y).
Proof. unfold i64_min, Z.min. simpl. destruct (x ?= y); reflexivity. Qed.
Theorem i64_max_num x y : i64_max (INum x) (INum y) = INum (Z.max x y).
Proof.
  unfold i64_max, Z.max. simpl. destruct (x ?= y); reflexivity.
Qed.

Theorem i64_min_wf a b : wf a -> wf b -> wf (i64_min a b).
Proof. unfold i64_min. destruct (i64_partial_cmp a b) as [[| |]|]; simpl; trivial. Qed.
Theorem i64_max_wf a b : wf a -> wf b -> wf (i64_max a b).
Proof. unfold i64_max. destruct (i64_partial_cmp a b) as [[| |]|]; simpl; trivial. Qed.

Lemma ext_le_num u v : ext_le (INum u) (INum v) <-> u <= v.
Proof.
  unfold ext_le, Z.le. simpl. destruct (u ?= v); split; intros H; try exact I;
    try discriminate; try contradiction; exfalso; now apply H.
Qed.

(** min is a lower bound / max an upper bound w.r.t. the order (non-NaN operands) *)
Theorem i64_min_le a b :
  a <> INaN -> b <> INaN -> ext_le (i64_min a b) a /\ ext_le (i64_min a b) b /\
  (i64_min a b = a \/ i64_min a b = b).
Proof.
  destruct a as [| |x|], b as [| |y|]; intros Ha Hb; try congruence;
    try (unfold i64_min, ext_le; simpl; rewrite ?Z.compare_refl; repeat split; auto; fail).
  rewrite i64_min_num, !ext_le_num. repeat split.
  - apply Z.le_min_l.
  - apply Z.le_min_r.
  - destruct (Z.min_spec x y) as [[_ ->]|[_ ->]]; auto.
Qed.
Theorem i64_max_ge a b :
  a <> INaN -> b <> INaN -> ext_le a (i64_max a b) /\ ext_le b (i64_max a b) /\
  (i64_max a b = a \/ i64_max a b = b).
Proof.
  destruct a as [| |x|], b as [| |y|]; intros Ha Hb; try congruence;
    try (unfold i64_max, ext_le; simpl; rewrite ?Z.compare_refl; repeat split; auto; fail).
  rewrite i64_max_num, !ext_le_num. repeat split.
  - apply Z.le_max_l.
  - apply Z.le_max_r.
  - destruct (Z.max_spec x y) as [[_ ->]|[_ ->]]; auto.
Qed.

(** ** short-cut laws of [terminal_bin] (oxidd-rules-mtbdd/src/lib.rs) *)

(** Add: [(Terminal(t), _) if t.is_zero() => g], [(_, Terminal(t)) if t.is_zero() => f] *)
Theorem i64_add_zero_l t x : i64_is_zero t = true -> wf x -> i64_add t x = x.
Proof.
  intros Ht Hx. apply i64_is_zero_spec in Ht. subst t.
  rewrite i64_add_spec by (simpl; trivial; apply in_i64b_true; reflexivity).
  destruct x; simpl in *; trivial. apply in_i64b_true in Hx.
  replace (0 + z) with z by lia. now rewrite Hx.
Qed.
Theorem i64_add_zero_r t x : i64_is_zero t = true -> wf x -> i64_add x t = x.
Proof.
  intros Ht Hx. apply i64_is_zero_spec in Ht. subst t.
  rewrite i64_add_spec by (simpl; trivial; apply in_i64b_true; reflexivity).
  destruct x; simpl in *; trivial. apply in_i64b_true in Hx.
  replace (z + 0) with z by lia. now rewrite Hx.
Qed.

(** Sub: [(_, Terminal(t)) if t.is_zero() => f] *)
Theorem i64_sub_zero_r t x : i64_is_zero t = true -> wf x -> i64_sub x t = x.
Proof.
  intros Ht Hx. apply i64_is_zero_spec in Ht. subst t.
  rewrite i64_sub_spec by (simpl; trivial; apply in_i64b_true; reflexivity).
  destruct x; simpl in *; trivial. apply in_i64b_true in Hx.
  rewrite ?Z.opp_0, ?Z.add_0_r. now rewrite Hx.
Qed.

(** Sub: [(Terminal(t), _) if t.is_zero() => g] claims 0 - g = g: NOT a law *)
Theorem i64_sub_zero_l_refuted :
  exists t x, i64_is_zero t = true /\ wf x /\ i64_sub t x <> x.
Proof.
  exists (INum 0), (INum 3). split; [reflexivity|]. split.
  - apply in_i64b_true. reflexivity.
  - vm_compute. discriminate.
Qed.
(** what the arm would have to return instead: 0 - x = -x (saturated) *)
Theorem i64_sub_zero_l t x :
  i64_is_zero t = true -> wf x -> i64_sub t x = clamp (ext_opp x).
Proof.
  intros Ht Hx. apply i64_is_zero_spec in Ht. subst t.
  rewrite i64_sub_spec by (simpl; trivial; apply in_i64b_true; reflexivity).
  destruct x; simpl; trivial.
Qed.
(** and it coincides with [g] only for x = 0, NaN *)
Theorem i64_sub_zero_l_fix x : wf x -> (i64_sub i64_zero x = x <-> x = INum 0 \/ x = INaN).
Proof.
  intros Hx. rewrite (i64_sub_zero_l i64_zero x eq_refl Hx).
  destruct x; simpl; split; intros H; try discriminate; auto;
    try (destruct H; discriminate).
  - destruct (in_i64b (- z)) eqn:E.
    + injection H as H. left. f_equal. lia.
    + destruct (Z.sgn (- z)); discriminate.
  - destruct H as [H|H]; [|discriminate]. injection H as ->. reflexivity.
Qed.

(** Mul: [(Terminal(t), _) if t.is_one() => g], [(_, Terminal(t)) if t.is_one() => f] *)
Theorem i64_mul_one_l t x : i64_is_one t = true -> wf x -> i64_mul t x = x.
Proof.
  intros Ht Hx. apply i64_is_one_spec in Ht. subst t.
  rewrite i64_mul_spec by (simpl; trivial; apply in_i64b_true; reflexivity).
  destruct x; simpl in *; trivial. apply in_i64b_true in Hx.
  replace (1 * z) with z by lia. now rewrite Hx.
Qed.
Theorem i64_mul_one_r t x : i64_is_one t = true -> wf x -> i64_mul x t = x.
Proof.
  intros Ht Hx. apply i64_is_one_spec in Ht. subst t.
  rewrite i64_mul_spec by (simpl; trivial; apply in_i64b_true; reflexivity).
  destruct x; simpl in *; trivial. apply in_i64b_true in Hx.
  replace (z * 1) with z by lia. now rewrite Hx.
Qed.

(** Div: [(_, Terminal(t)) if t.is_one() => f] *)
Theorem i64_div_one_r t x : i64_is_one t = true -> wf x -> i64_div x t = x.
Proof.
  intros Ht Hx. apply i64_is_one_spec in Ht. subst t.
  rewrite i64_div_spec by (simpl; trivial; apply in_i64b_true; reflexivity).
  destruct x; simpl in *; trivial. apply in_i64b_true in Hx.
  rewrite Z.quot_1_r. now rewrite Hx.
Qed.

(** NaN is absorbing for all six operators:
    [(Terminal(t), _) | (_, Terminal(t)) if t.is_nan() => nan] *)
Theorem i64_nan_absorbing t x :
  i64_is_nan t = true ->
  i64_add t x = i64_nan /\ i64_add x t = i64_nan /\
  i64_sub t x = i64_nan /\ i64_sub x t = i64_nan /\
  i64_mul t x = i64_nan /\ i64_mul x t = i64_nan /\
  i64_div t x = i64_nan /\ i64_div x t = i64_nan /\
  i64_min t x = i64_nan /\ i64_min x t = i64_nan /\
  i64_max t x = i64_nan /\ i64_max x t = i64_nan.
Proof.
  intros Ht. apply i64_is_nan_spec in Ht. subst t.
  destruct x; repeat split.
Qed.

(** operand swap ([_ if f > g => Binary(op, g, f)]): Add, Mul, Min, Max commute *)
Theorem i64_add_comm a b : i64_add a b = i64_add b a.
Proof.
  destruct a as [| |x|], b as [| |y|]; simpl; trivial.
  unfold checked_add. rewrite (Z.add_comm y x), (andb_comm (0 <? y)). reflexivity.
Qed.
Theorem i64_mul_comm a b : i64_mul a b = i64_mul b a.
Proof.
  destruct a as [| |x|], b as [| |y|]; simpl; trivial.
  - destruct (sgn_cases y) as [[_ ->]|[[_ ->]| [_ ->]]]; reflexivity.
  - destruct (sgn_cases x) as [[_ ->]|[[_ ->]| [_ ->]]]; reflexivity.
  - unfold checked_mul. rewrite (Z.mul_comm y x), (andb_comm (0 <? y)), (andb_comm (y <? 0)).
    reflexivity.
  - destruct (sgn_cases x) as [[_ ->]|[[_ ->]| [_ ->]]]; reflexivity.
  - destruct (sgn_cases y) as [[_ ->]|[[_ ->]| [_ ->]]]; reflexivity.
Qed.
Theorem i64_min_comm a b : i64_min a b = i64_min b a.
Proof.
  unfold i64_min. rewrite (i64_cmp_antisym a b).
  destruct (i64_partial_cmp a b) as [[| |]|] eqn:E; simpl; trivial.
  now apply i64_cmp_eq_iff in E.
Qed.
Theorem i64_max_comm a b : i64_max a b = i64_max b a.
Proof.
  unfold i64_max. rewrite (i64_cmp_antisym a b).
  destruct (i64_partial_cmp a b) as [[| |]|] eqn:E; simpl; trivial.
  now apply i64_cmp_eq_iff in E.
Qed.
(** Sub and Div are not swapped by the code, and indeed do not commute *)
Theorem i64_sub_div_not_comm :
  i64_sub (INum 1) (INum 2) <> i64_sub (INum 2) (INum 1) /\
  i64_div (INum 1) (INum 2) <> i64_div (INum 2) (INum 1).
Proof. split; vm_compute; discriminate. Qed.

(** Min/Max: [if f == g { return f }] *)
Theorem i64_min_idem a : i64_min a a = a.
Proof. unfold i64_min. now rewrite i64_cmp_refl. Qed.
Theorem i64_max_idem a : i64_max a a = a.
Proof. unfold i64_max. now rewrite i64_cmp_refl. Qed.

(** Max: the non-terminal arms return [Binary(MTBDDOp::Min, ..)], i.e. they
    treat max as min (same cache key, and [apply_bin] recurses with the
    operator it was called with, so the recursion is still max, but the
    cache entries are shared with min): max = min is NOT a law *)
Theorem i64_max_as_min_refuted :
  exists a b, wf a /\ wf b /\ i64_max a b <> i64_min a b.
Proof.
  exists (INum 1), (INum 2). repeat split; try (apply in_i64b_true; reflexivity).
  vm_compute. discriminate.
Qed.
(** max = min exactly on equal or NaN-involving operands *)
Theorem i64_max_eq_min_iff a b :
  i64_max a b = i64_min a b <-> (a = b \/ a = INaN \/ b = INaN).
Proof.
  unfold i64_max, i64_min.
  destruct (i64_partial_cmp a b) as [[| |]|] eqn:E.
  - apply i64_cmp_eq_iff in E. tauto.
  - split; intros H.
    + left. now symmetry.
    + destruct H as [H|[H|H]]; subst; trivial.
      * destruct b; discriminate.
      * destruct a; discriminate.
  - split; intros H.
    + now left.
    + destruct H as [H|[H|H]]; subst; trivial.
      * destruct b; discriminate.
      * destruct a; discriminate.
  - apply i64_cmp_none_iff in E. split; trivial. tauto.
Qed.

(** hypotheses are satisfiable / the interesting cases are reached *)
Example i64_add_spec_ex :
  wf (INum i64_MIN) /\ wf (INum (-1)) /\
  i64_add (INum i64_MIN) (INum (-1)) = IMinusInf /\
  i64_sub (INum 0) (INum i64_MIN) = IPlusInf /\
  i64_mul (INum 4294967296) (INum (-4294967296)) = IMinusInf /\
  i64_mul (INum 3037000499) (INum 3037000499) = INum 9223372030926249001 /\
  i64_div (INum (-7)) (INum 2) = INum (-3).
Proof. repeat split; try (apply in_i64b_true; reflexivity). Qed.

(** ** bundles (one statement per group; used by Props/C10.v and meant as the
    hypotheses of the diagram-level lifting) *)

Theorem i64_closed a b :
  wf a -> wf b ->
  wf (i64_add a b) /\ wf (i64_sub a b) /\ wf (i64_mul a b) /\ wf (i64_div a b) /\
  wf (i64_min a b) /\ wf (i64_max a b).
Proof.
  intros Ha Hb. repeat split.
  - now apply i64_add_wf. - now apply i64_sub_wf. - now apply i64_mul_wf.
  - now apply i64_div_wf. - now apply i64_min_wf. - now apply i64_max_wf.
Qed.

Theorem i64_cmp_partial_order :
  (forall a, i64_partial_cmp a a = Some Eq) /\
  (forall a b, i64_partial_cmp a b = Some Eq <-> a = b) /\
  (forall a b, i64_partial_cmp b a = option_map CompOpp (i64_partial_cmp a b)) /\
  (forall a b c, i64_partial_cmp a b = Some Lt -> i64_partial_cmp b c = Some Lt ->
                 i64_partial_cmp a c = Some Lt).
Proof.
  split; [exact i64_cmp_refl|]. split; [exact i64_cmp_eq_iff|].
  split; [exact i64_cmp_antisym|exact i64_cmp_lt_trans].
Qed.

Theorem i64_shortcut_laws t x :
  wf x ->
  (i64_is_zero t = true -> i64_add t x = x /\ i64_add x t = x /\ i64_sub x t = x) /\
  (i64_is_one t = true -> i64_mul t x = x /\ i64_mul x t = x /\ i64_div x t = x).
Proof.
  intros Hx. split; intros Ht; repeat split.
  - now apply i64_add_zero_l. - now apply i64_add_zero_r. - now apply i64_sub_zero_r.
  - now apply i64_mul_one_l. - now apply i64_mul_one_r. - now apply i64_div_one_r.
Qed.

Theorem i64_swap_laws a b :
  i64_add a b = i64_add b a /\ i64_mul a b = i64_mul b a /\
  i64_min a b = i64_min b a /\ i64_max a b = i64_max b a.
Proof.
  repeat split.
  - apply i64_add_comm. - apply i64_mul_comm. - apply i64_min_comm. - apply i64_max_comm.
Qed.

Theorem i64_minmax_idem a : i64_min a a = a /\ i64_max a a = a.
Proof. split. apply i64_min_idem. apply i64_max_idem. Qed.

Theorem i64_minmax_bounds a b :
  a <> INaN -> b <> INaN ->
  (ext_le (i64_min a b) a /\ ext_le (i64_min a b) b /\ (i64_min a b = a \/ i64_min a b = b)) /\
  (ext_le a (i64_max a b) /\ ext_le b (i64_max a b) /\ (i64_max a b = a \/ i64_max a b = b)).
Proof. intros Ha Hb. split. now apply i64_min_le. now apply i64_max_ge. Qed.

Theorem i64_div_clauses :
  (forall x, i64_div (INum x) (INum 0) =
             if x <? 0 then IMinusInf else if x =? 0 then INaN else IPlusInf) /\
  i64_div (INum i64_MIN) (INum (-1)) = IPlusInf /\
  (forall x, i64_div (INum x) IPlusInf = INum 0 /\ i64_div (INum x) IMinusInf = INum 0) /\
  (forall y, i64_div IPlusInf (INum y) = (if y <? 0 then IMinusInf else IPlusInf) /\
             i64_div IMinusInf (INum y) = (if y <? 0 then IPlusInf else IMinusInf)).
Proof.
  split; [exact i64_div_zero|]. split; [exact i64_div_min_m1|].
  split; [exact i64_div_fin_inf|exact i64_div_inf_fin].
Qed.
