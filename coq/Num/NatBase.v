(** * Arithmetic facts used by the proofs about [Num/Natural.v]

    Powers of two, [N.size] (bit width), [ctz] (trailing zeros), the u64
    primitives ([shl64], [shr64], [N.lor] of disjoint values) and the value
    [digits_val] of the digit-list algorithms ([add_digits], [shl_digits],
    [shr_digits], [fit], [strip_lsd_zeros], [strip_msd_zeros]). *)

From Coq Require Import List NArith Bool Lia.
From OxiVerif Require Import Num.Natural.
Import ListNotations.
Local Open Scope N_scope.

#[local] Arguments N.add : simpl never.
#[local] Arguments N.sub : simpl never.
#[local] Arguments N.mul : simpl never.
#[local] Arguments N.div : simpl never.
#[local] Arguments N.modulo : simpl never.
#[local] Arguments N.pow : simpl never.
#[local] Arguments N.min : simpl never.
#[local] Arguments N.max : simpl never.
#[local] Arguments N.shiftl : simpl never.
#[local] Arguments N.shiftr : simpl never.
#[local] Arguments N.lor : simpl never.
#[local] Arguments N.size : simpl never.

(** ** Powers of two *)

Lemma p2_pos : forall k, 0 < 2 ^ k.
Proof. intros k. apply N.neq_0_lt_0. apply N.pow_nonzero. discriminate. Qed.

Lemma p2_nz : forall k, 2 ^ k <> 0.
Proof. intros k. apply N.pow_nonzero. discriminate. Qed.

Lemma p2_le : forall a b, a <= b -> 2 ^ a <= 2 ^ b.
Proof. intros a b Hab. apply N.pow_le_mono_r; [discriminate | exact Hab]. Qed.

Lemma p2_lt : forall a b, a < b -> 2 ^ a < 2 ^ b.
Proof. intros a b Hab. apply N.pow_lt_mono_r; [reflexivity | exact Hab]. Qed.

Lemma p2_le_inv : forall a b, 2 ^ a <= 2 ^ b -> a <= b.
Proof. intros a b Hab. apply (N.pow_le_mono_r_iff 2); [reflexivity | exact Hab]. Qed.

Lemma p2_lt_inv : forall a b, 2 ^ a < 2 ^ b -> a < b.
Proof. intros a b Hab. apply (N.pow_lt_mono_r_iff 2); [reflexivity | exact Hab]. Qed.

Lemma p2_add : forall a b, 2 ^ (a + b) = 2 ^ a * 2 ^ b.
Proof. intros. apply N.pow_add_r. Qed.

Lemma p2_split : forall a b, b <= a -> 2 ^ a = 2 ^ b * 2 ^ (a - b).
Proof. intros a b Hab. rewrite <- p2_add. f_equal. lia. Qed.

Lemma p2_succ : forall a, 2 ^ (a + 1) = 2 * 2 ^ a.
Proof. intros a. rewrite p2_add. change (2 ^ 1) with 2. lia. Qed.

Lemma B64_eq : B64 = 2 ^ 64.
Proof. reflexivity. Qed.

Lemma B128_eq : B128 = 2 ^ 128.
Proof. reflexivity. Qed.

Lemma U64MAX_eq : U64MAX = B64 - 1.
Proof. reflexivity. Qed.

Lemma B64_pos : 0 < B64.
Proof. reflexivity. Qed.

Lemma B64_pow : forall k, B64 ^ k = 2 ^ (64 * k).
Proof. intros k. rewrite B64_eq, <- N.pow_mul_r. reflexivity. Qed.

Lemma B64p_pos : forall k, 0 < B64 ^ k.
Proof. intros k. rewrite B64_pow. apply p2_pos. Qed.

Lemma mul_lt_p2 : forall a b j k, a < 2 ^ j -> b < 2 ^ k -> a * b < 2 ^ (j + k).
Proof.
  intros a b j k Ha Hb. rewrite p2_add.
  pose proof (p2_pos j). pose proof (p2_pos k). nia.
Qed.

(** division of a power of two by a smaller one *)
Lemma p2_div : forall a b, b <= a -> 2 ^ a / 2 ^ b = 2 ^ (a - b).
Proof.
  intros a b Hab. rewrite (p2_split a b Hab), N.mul_comm. apply N.div_mul. apply p2_nz.
Qed.

Lemma div_p2_lt : forall x a b, x < 2 ^ (a + b) -> x / 2 ^ a < 2 ^ b.
Proof.
  intros x a b Hx. apply N.div_lt_upper_bound; [apply p2_nz|]. rewrite <- p2_add. exact Hx.
Qed.

Lemma div_small_iff : forall x k, x / 2 ^ k = 0 <-> x < 2 ^ k.
Proof.
  intros x k. split.
  - intros Hd. pose proof (N.div_mod x (2 ^ k) (p2_nz k)) as E.
    pose proof (N.mod_lt x (2 ^ k) (p2_nz k)). rewrite Hd in E. lia.
  - apply N.div_small.
Qed.

(** ** [N.size]: the bit width *)

Lemma size_le_iff : forall m k, N.size m <= k <-> m < 2 ^ k.
Proof.
  intros m k. destruct (N.eq_dec m 0) as [->|Hm].
  - change (N.size 0) with 0. pose proof (p2_pos k). lia.
  - rewrite (N.size_log2 m Hm). rewrite (N.log2_lt_pow2 m k) by lia. lia.
Qed.

Lemma size_gt_iff : forall m k, k < N.size m <-> 2 ^ k <= m.
Proof. intros m k. pose proof (size_le_iff m k). lia. Qed.

Lemma size_0_iff : forall m, N.size m = 0 <-> m = 0.
Proof.
  intros m. split; [|intros ->; reflexivity]. intros Hs.
  assert (H : N.size m <= 0) by lia. apply size_le_iff in H. change (2 ^ 0) with 1 in H. lia.
Qed.

Lemma size_unique : forall m k, 2 ^ k <= m -> m < 2 ^ (k + 1) -> N.size m = k + 1.
Proof.
  intros m k H1 H2. apply size_gt_iff in H1. apply size_le_iff in H2. lia.
Qed.

Lemma size_lo : forall m, m <> 0 -> 2 ^ (N.size m - 1) <= m.
Proof.
  intros m Hm. apply size_gt_iff. assert (N.size m <> 0) by (rewrite size_0_iff; exact Hm). lia.
Qed.

Lemma size_mono : forall a b, a <= b -> N.size a <= N.size b.
Proof.
  intros a b Hab. apply size_le_iff. pose proof (N.size_gt b). lia.
Qed.

Lemma size_mul_p2 : forall m e, m <> 0 -> N.size (m * 2 ^ e) = N.size m + e.
Proof.
  intros m e Hm. pose proof (size_lo m Hm) as Hlo. pose proof (N.size_gt m) as Hhi.
  assert (Hs : N.size m <> 0) by (rewrite size_0_iff; exact Hm).
  replace (N.size m + e) with ((N.size m - 1 + e) + 1) by lia.
  apply size_unique.
  - rewrite p2_add. apply N.mul_le_mono_r. exact Hlo.
  - replace (N.size m - 1 + e + 1) with (N.size m + e) by lia. rewrite p2_add.
    apply N.mul_lt_mono_pos_r; [apply p2_pos | exact Hhi].
Qed.

Lemma size_div_p2 : forall m t, N.size (m / 2 ^ t) = N.size m - t.
Proof.
  intros m t. destruct (N.le_gt_cases (N.size m) t) as [Hle|Hgt].
  - assert (Hm : m < 2 ^ t) by (apply size_le_iff; exact Hle).
    rewrite N.div_small by exact Hm. change (N.size 0) with 0. lia.
  - assert (Hlo : 2 ^ (N.size m - 1) <= m).
    { apply size_lo. intros ->. change (N.size 0) with 0 in Hgt. lia. }
    replace (N.size m - t) with ((N.size m - t - 1) + 1) by lia.
    apply size_unique.
    + apply N.div_le_lower_bound; [apply p2_nz|]. rewrite <- p2_add.
      replace (t + (N.size m - t - 1)) with (N.size m - 1) by lia. exact Hlo.
    + apply div_p2_lt. replace (t + (N.size m - t - 1 + 1)) with (N.size m) by lia. apply N.size_gt.
Qed.

Lemma size_add_lo : forall x y, N.max (N.size x) (N.size y) <= N.size (x + y).
Proof.
  intros x y. pose proof (size_mono x (x + y) ltac:(lia)). pose proof (size_mono y (x + y) ltac:(lia)). lia.
Qed.

Lemma size_add_hi : forall x y, N.size (x + y) <= N.max (N.size x) (N.size y) + 1.
Proof.
  intros x y. apply size_le_iff. rewrite p2_succ.
  pose proof (N.size_gt x) as Hx. pose proof (N.size_gt y) as Hy.
  pose proof (p2_le (N.size x) (N.max (N.size x) (N.size y)) ltac:(lia)).
  pose proof (p2_le (N.size y) (N.max (N.size x) (N.size y)) ltac:(lia)). lia.
Qed.

Lemma size_lt_B64 : forall d, d < B64 -> N.size d <= 64.
Proof. intros d Hd. apply size_le_iff. exact Hd. Qed.

(** ** Odd numbers and [ctz] *)

Lemma odd_iff : forall m, N.odd m = true <-> exists q, m = 2 * q + 1.
Proof. intros m. rewrite N.odd_spec. reflexivity. Qed.

Lemma odd_nz : forall m, N.odd m = true -> m <> 0.
Proof. intros m H ->. discriminate. Qed.

Lemma odd_mod2 : forall m, N.odd m = true <-> m mod 2 = 1.
Proof.
  intros m. rewrite odd_iff. split.
  - intros [q ->]. rewrite N.add_comm, N.mul_comm, N.mod_add by discriminate. reflexivity.
  - intros Hm. exists (m / 2). pose proof (N.div_mod m 2 ltac:(discriminate)). lia.
Qed.

Lemma ctz_pos_spec : forall p, exists q, Npos p = (2 * q + 1) * 2 ^ ctz_pos p.
Proof.
  induction p as [p IH|p IH|].
  - exists (Npos p). simpl ctz_pos. change (2 ^ 0) with 1. lia.
  - destruct IH as [q Hq]. exists q. simpl ctz_pos.
    rewrite <- N.add_1_r, p2_succ. change (N.pos p~0) with (2 * N.pos p). rewrite Hq. lia.
  - exists 0. reflexivity.
Qed.

Lemma ctz_spec : forall x, x <> 0 -> exists q, x = (2 * q + 1) * 2 ^ ctz x.
Proof. intros [|p] Hx; [contradiction|]. apply ctz_pos_spec. Qed.

(** a power of two times an odd number determines both *)
Lemma odd_p2_unique : forall m1 e1 m2 e2, N.odd m1 = true -> N.odd m2 = true ->
  m1 * 2 ^ e1 = m2 * 2 ^ e2 -> m1 = m2 /\ e1 = e2.
Proof.
  assert (X : forall m1 e1 m2 e2, N.odd m1 = true -> N.odd m2 = true ->
    e1 <= e2 -> m1 * 2 ^ e1 = m2 * 2 ^ e2 -> m1 = m2 /\ e1 = e2).
  { intros m1 e1 m2 e2 H1 H2 Hle E.
    rewrite (p2_split e2 e1 Hle) in E.
    assert (E' : m1 = m2 * 2 ^ (e2 - e1)).
    { apply (N.mul_cancel_r _ _ (2 ^ e1)); [apply p2_nz|]. lia. }
    destruct (N.eq_dec (e2 - e1) 0) as [Hz|Hnz].
    - rewrite Hz in E'. change (2 ^ 0) with 1 in E'. split; lia.
    - exfalso. rewrite E' in H1. rewrite N.odd_mul, N.odd_pow in H1 by exact Hnz.
      rewrite andb_comm in H1. discriminate. }
  intros m1 e1 m2 e2 H1 H2 E. destruct (N.le_ge_cases e1 e2) as [Hle|Hge].
  - apply X; assumption.
  - destruct (X m2 e2 m1 e1 H2 H1 Hge (eq_sym E)). split; congruence.
Qed.

Lemma ctz_unique : forall m e, N.odd m = true -> ctz (m * 2 ^ e) = e.
Proof.
  intros m e Hm.
  assert (Hnz : m * 2 ^ e <> 0) by (pose proof (odd_nz m Hm); pose proof (p2_pos e); nia).
  destruct (ctz_spec _ Hnz) as [q Hq].
  assert (Ho : N.odd (2 * q + 1) = true) by (apply odd_iff; eauto).
  destruct (odd_p2_unique _ _ _ _ Hm Ho Hq). congruence.
Qed.

Lemma ctz_odd : forall m, N.odd m = true -> ctz m = 0.
Proof.
  intros m Hm. pose proof (ctz_unique m 0 Hm) as H. change (2 ^ 0) with 1 in H.
  rewrite N.mul_1_r in H. exact H.
Qed.

(** the odd part *)
Lemma ctz_div_odd : forall x, x <> 0 -> N.odd (x / 2 ^ ctz x) = true /\ x = (x / 2 ^ ctz x) * 2 ^ ctz x.
Proof.
  intros x Hx. destruct (ctz_spec x Hx) as [q Hq].
  assert (E : x / 2 ^ ctz x = 2 * q + 1).
  { rewrite Hq at 1. apply N.div_mul. apply p2_nz. }
  rewrite E. split; [apply odd_iff; eauto | exact Hq].
Qed.

Lemma ctz_lt_size : forall x, x <> 0 -> ctz x < N.size x.
Proof.
  intros x Hx. destruct (ctz_spec x Hx) as [q Hq]. apply size_gt_iff.
  rewrite Hq at 2. pose proof (p2_pos (ctz x)). nia.
Qed.

Lemma ctz_mul_p2 : forall x k, x <> 0 -> ctz (x * 2 ^ k) = ctz x + k.
Proof.
  intros x k Hx. destruct (ctz_div_odd x Hx) as [Ho E].
  rewrite E at 1. rewrite <- N.mul_assoc, <- p2_add. apply ctz_unique. exact Ho.
Qed.

(** [2^k] divides [x] iff [k <= ctz x] *)
Lemma mod_p2_ctz : forall x k, x <> 0 -> (x mod 2 ^ k = 0 <-> k <= ctz x).
Proof.
  intros x k Hx. destruct (ctz_div_odd x Hx) as [Ho E]. set (m := x / 2 ^ ctz x) in *.
  split.
  - intros Hm. destruct (N.le_gt_cases k (ctz x)) as [|Hgt]; [assumption|exfalso].
    apply N.mod_divide in Hm; [|apply p2_nz]. destruct Hm as [c Hc].
    rewrite (p2_split k (ctz x)) in Hc by lia.
    assert (Em : m = c * 2 ^ (k - ctz x)).
    { apply (N.mul_cancel_r _ _ (2 ^ ctz x)); [apply p2_nz|]. lia. }
    rewrite Em, N.odd_mul, N.odd_pow in Ho by lia. rewrite andb_comm in Ho. discriminate.
  - intros Hle. rewrite E, (p2_split (ctz x) k Hle).
    replace (m * (2 ^ k * 2 ^ (ctz x - k))) with (m * 2 ^ (ctz x - k) * 2 ^ k) by lia.
    apply N.mod_mul. apply p2_nz.
Qed.

(** ** u64 primitives *)

Lemma lor_disjoint : forall a b k, a < 2 ^ k -> N.lor (b * 2 ^ k) a = b * 2 ^ k + a.
Proof.
  intros a b k Ha.
  assert (Hl : N.land (b * 2 ^ k) a = 0).
  { apply N.bits_inj. intros i. rewrite N.land_spec, N.bits_0.
    destruct (N.lt_ge_cases i k) as [Hi|Hi].
    - rewrite N.mul_pow2_bits_low by exact Hi. reflexivity.
    - destruct (N.eq_dec a 0) as [->|Hnz]; [rewrite N.bits_0; apply andb_false_r|].
      rewrite (N.bits_above_log2 a i); [apply andb_false_r|].
      apply N.log2_lt_pow2; [lia|]. pose proof (p2_le k i Hi). lia. }
  rewrite (N.add_nocarry_lxor _ _ Hl). symmetry. apply N.lxor_lor. exact Hl.
Qed.

Lemma lor_disjoint' : forall a b k, a < 2 ^ k -> N.lor a (b * 2 ^ k) = b * 2 ^ k + a.
Proof. intros. rewrite N.lor_comm. apply lor_disjoint. assumption. Qed.

Lemma shr64_eq : forall x k, shr64 x k = x / 2 ^ k.
Proof. intros. unfold shr64. apply N.shiftr_div_pow2. Qed.

(** [x << k] keeps the low [64 - k] bits *)
Lemma shl64_eq : forall x k, k <= 64 -> shl64 x k = (x mod 2 ^ (64 - k)) * 2 ^ k.
Proof.
  intros x k Hk. unfold shl64. rewrite N.shiftl_mul_pow2, B64_eq, (p2_split 64 k Hk).
  rewrite (N.mul_comm (2 ^ k)). apply N.mul_mod_distr_r; apply p2_nz.
Qed.

Lemma shl64_small : forall x k, x * 2 ^ k < B64 -> shl64 x k = x * 2 ^ k.
Proof. intros x k Hx. unfold shl64. rewrite N.shiftl_mul_pow2. apply N.mod_small. exact Hx. Qed.

Lemma shl64_lt : forall x k, shl64 x k < B64.
Proof. intros. unfold shl64. apply N.mod_lt. discriminate. Qed.

Lemma lz64_eq : forall d, lz64 d = 64 - N.size d.
Proof. reflexivity. Qed.

(** ** Digit lists *)

Definition inr (l : list N) : Prop := Forall (fun d => d < B64) l.

Lemma inr_nil : inr [].
Proof. constructor. Qed.

Lemma inr_cons : forall d l, d < B64 -> inr l -> inr (d :: l).
Proof. intros. constructor; assumption. Qed.

Lemma inr_inv : forall d l, inr (d :: l) -> d < B64 /\ inr l.
Proof. intros d l H. inversion H; subst. split; assumption. Qed.

Lemma inr_app : forall l r, inr (l ++ r) <-> inr l /\ inr r.
Proof. intros. apply Forall_app. Qed.

Lemma inr_repeat0 : forall k, inr (repeat 0 k).
Proof. intros k. apply Forall_forall. intros x Hx. apply repeat_spec in Hx. subst x. reflexivity. Qed.

Lemma lenN_cons : forall (d : N) l, lenN (d :: l) = lenN l + 1.
Proof. intros. unfold lenN. simpl length. lia. Qed.

Lemma lenN_nil : lenN (@nil N) = 0.
Proof. reflexivity. Qed.

Lemma lenN_app : forall (l r : list N), lenN (l ++ r) = lenN l + lenN r.
Proof. intros. unfold lenN. rewrite app_length. lia. Qed.

Lemma digits_val_cons : forall d l, digits_val (d :: l) = d + B64 * digits_val l.
Proof. reflexivity. Qed.

Lemma digits_val_app : forall l r, digits_val (l ++ r) = digits_val l + B64 ^ lenN l * digits_val r.
Proof.
  induction l as [|d l IH]; intros r.
  - simpl app. rewrite lenN_nil. change (digits_val []) with 0. rewrite N.pow_0_r. lia.
  - simpl app. rewrite !digits_val_cons, IH, lenN_cons, N.pow_add_r, N.pow_1_r. lia.
Qed.

Lemma digits_val_lt : forall l, inr l -> digits_val l < B64 ^ lenN l.
Proof.
  induction l as [|d l IH]; intros H.
  - reflexivity.
  - apply inr_inv in H. destruct H as [Hd Hl]. specialize (IH Hl).
    rewrite digits_val_cons, lenN_cons, N.pow_add_r, N.pow_1_r. nia.
Qed.

Lemma digits_val_repeat0 : forall k, digits_val (repeat 0 k) = 0.
Proof. induction k as [|k IH]; [reflexivity|]. simpl repeat. rewrite digits_val_cons, IH. reflexivity. Qed.

Lemma digits_val_single : forall d, digits_val [d] = d.
Proof. intros. unfold digits_val. lia. Qed.

(** last digit decomposition *)
Lemma digits_val_last : forall l, l <> [] ->
  digits_val l = digits_val (removelast l) + B64 ^ (lenN l - 1) * last l 0.
Proof.
  intros l Hl. rewrite (app_removelast_last 0 Hl) at 1. rewrite digits_val_app, digits_val_single.
  f_equal. f_equal. f_equal. rewrite (app_removelast_last 0 Hl) at 2. rewrite lenN_app.
  change (lenN [last l 0]) with 1. lia.
Qed.

Lemma lenN_removelast : forall (l : list N), l <> [] -> lenN (removelast l) = lenN l - 1.
Proof.
  intros l Hl. rewrite (app_removelast_last 0 Hl) at 2. rewrite lenN_app.
  change (lenN [last l 0]) with 1. lia.
Qed.

Lemma inr_removelast : forall l, inr l -> inr (removelast l).
Proof.
  intros l H. destruct l as [|d l]; [exact H|].
  rewrite (app_removelast_last 0 (l := d :: l)) in H by discriminate. apply inr_app in H. apply H.
Qed.

Lemma inr_last : forall l, inr l -> last l 0 < B64.
Proof.
  intros l H. destruct l as [|d l]; [reflexivity|].
  rewrite (app_removelast_last 0 (l := d :: l)) in H by discriminate. apply inr_app in H.
  destruct H as [_ H]. apply inr_inv in H. apply H.
Qed.

Lemma inr_hd : forall l, inr l -> hd 0 l < B64.
Proof. intros [|d l] H; [reflexivity|]. apply inr_inv in H. apply H. Qed.

Lemma inr_tl : forall l, inr l -> inr (tl l).
Proof. intros [|d l] H; [exact H|]. apply inr_inv in H. apply H. Qed.

(** ** [carry_digits], [add_digits] *)

Lemma carry_digits_val : forall l c, digits_val (carry_digits c l) = c + digits_val l.
Proof.
  induction l as [|a l IH]; intros c.
  - simpl carry_digits. rewrite digits_val_single. change (digits_val []) with 0. lia.
  - simpl carry_digits. rewrite !digits_val_cons, IH.
    pose proof (N.div_mod (a + c) B64 ltac:(discriminate)). lia.
Qed.

Lemma add_digits_val : forall l r c, digits_val (add_digits c l r) = c + digits_val l + digits_val r.
Proof.
  induction l as [|a l IH]; intros r c.
  - simpl add_digits. rewrite carry_digits_val. change (digits_val []) with 0. lia.
  - destruct r as [|b r].
    + unfold add_digits. rewrite carry_digits_val. change (digits_val []) with 0. lia.
    + simpl add_digits. rewrite !digits_val_cons, IH.
      pose proof (N.div_mod (a + b + c) B64 ltac:(discriminate)). lia.
Qed.

Lemma carry_digits_inr : forall l c, c <= 1 -> inr l -> inr (carry_digits c l).
Proof.
  induction l as [|a l IH]; intros c Hc H.
  - simpl. apply inr_cons; [unfold B64; lia | apply inr_nil].
  - apply inr_inv in H. destruct H as [Ha Hl]. simpl carry_digits. apply inr_cons.
    + apply N.mod_lt. discriminate.
    + apply IH; [|exact Hl]. assert ((a + c) / B64 < 2); [|lia].
      apply N.div_lt_upper_bound; [discriminate|]. unfold B64 in *. lia.
Qed.

Lemma add_digits_inr : forall l r c, c <= 1 -> inr l -> inr r -> inr (add_digits c l r).
Proof.
  induction l as [|a l IH]; intros r c Hc Hl Hr.
  - simpl. apply carry_digits_inr; assumption.
  - destruct r as [|b r].
    + unfold add_digits. apply carry_digits_inr; assumption.
    + apply inr_inv in Hl. destruct Hl as [Ha Hl]. apply inr_inv in Hr. destruct Hr as [Hb Hr].
      simpl add_digits. apply inr_cons.
      * apply N.mod_lt. discriminate.
      * apply IH; [|exact Hl|exact Hr]. assert ((a + b + c) / B64 < 2); [|lia].
        apply N.div_lt_upper_bound; [discriminate|]. unfold B64 in *. lia.
Qed.

(** ** [shl_digits] *)

Lemma shl_digits_spec : forall sb ds lower, sb < 64 -> lower < 2 ^ sb -> inr ds ->
  digits_val (shl_digits sb lower ds) = lower + 2 ^ sb * digits_val ds /\
  inr (shl_digits sb lower ds).
Proof.
  intros sb ds lower Hsb. revert lower.
  assert (HB : B64 = 2 ^ (64 - sb) * 2 ^ sb) by (rewrite <- p2_add; replace (64 - sb + sb) with 64 by lia; reflexivity).
  induction ds as [|d r IH]; intros lower Hlo H.
  - simpl shl_digits. rewrite digits_val_single. change (digits_val []) with 0. split; [lia|].
    apply inr_cons; [|apply inr_nil]. pose proof (p2_lt sb 64 Hsb). rewrite B64_eq. lia.
  - apply inr_inv in H. destruct H as [Hd Hr]. simpl shl_digits.
    rewrite shl64_eq by lia. rewrite lor_disjoint by exact Hlo. rewrite shr64_eq.
    assert (Hq : d / 2 ^ (64 - sb) < 2 ^ sb).
    { apply div_p2_lt. replace (64 - sb + sb) with 64 by lia. exact Hd. }
    destruct (IH (d / 2 ^ (64 - sb)) Hq Hr) as [IHv IHr].
    pose proof (N.div_mod d (2 ^ (64 - sb)) (p2_nz _)) as Ed.
    pose proof (N.mod_lt d (2 ^ (64 - sb)) (p2_nz _)) as Hm.
    split.
    + rewrite !digits_val_cons, IHv. rewrite HB. nia.
    + apply inr_cons; [|exact IHr]. rewrite HB. nia.
Qed.

Lemma shl_digits_length : forall sb ds lower, length (shl_digits sb lower ds) = S (length ds).
Proof. intros sb. induction ds as [|d r IH]; intros lower; simpl; [reflexivity | rewrite IH; reflexivity]. Qed.

(** ** [shr_digits] *)

Lemma shr_digits_length : forall s ds, length (shr_digits s ds) = length ds.
Proof. intros s. induction ds as [|d r IH]; simpl; [reflexivity | rewrite IH; reflexivity]. Qed.

Lemma hd_mod : forall r k, k <= 64 -> hd 0 r mod 2 ^ k = digits_val r mod 2 ^ k.
Proof.
  intros [|h r] k Hk; [reflexivity|]. simpl hd. rewrite digits_val_cons, B64_eq, (p2_split 64 k Hk).
  replace (h + 2 ^ k * 2 ^ (64 - k) * digits_val r) with (h + (2 ^ (64 - k) * digits_val r) * 2 ^ k) by lia.
  rewrite N.mod_add by apply p2_nz. reflexivity.
Qed.

Lemma shr_digits_spec : forall s ds, s < 64 -> inr ds ->
  digits_val (shr_digits s ds) = digits_val ds / 2 ^ s /\ inr (shr_digits s ds).
Proof.
  intros s ds Hs.
  assert (HB : B64 = 2 ^ (64 - s) * 2 ^ s) by (rewrite <- p2_add; replace (64 - s + s) with 64 by lia; reflexivity).
  induction ds as [|d r IH]; intros H.
  - simpl. split; [symmetry; apply N.div_0_l; apply p2_nz | apply inr_nil].
  - apply inr_inv in H. destruct H as [Hd Hr]. destruct (IH Hr) as [IHv IHr]. simpl shr_digits.
    rewrite shl64_eq by lia. replace (64 - (64 - s)) with s by lia.
    rewrite shr64_eq.
    assert (Hq : d / 2 ^ s < 2 ^ (64 - s)).
    { apply div_p2_lt. replace (s + (64 - s)) with 64 by lia. exact Hd. }
    rewrite lor_disjoint' by exact Hq. rewrite (hd_mod r s) by lia.
    set (V := digits_val r) in *.
    pose proof (N.div_mod V (2 ^ s) (p2_nz _)) as EV.
    pose proof (N.mod_lt V (2 ^ s) (p2_nz _)) as HVm.
    split.
    + rewrite !digits_val_cons, IHv. fold V.
      replace (d + B64 * V) with (d + (2 ^ (64 - s) * V) * 2 ^ s) by (rewrite HB; lia).
      rewrite N.div_add by apply p2_nz. rewrite HB. nia.
    + apply inr_cons; [|exact IHr]. rewrite HB. nia.
Qed.

(** ** [firstn] / [fit] *)

Lemma firstn_val : forall k l, inr l -> digits_val (firstn k l) = digits_val l mod B64 ^ N.of_nat k.
Proof.
  induction k as [|k IH]; intros l H.
  - simpl firstn. change (N.of_nat 0) with 0. rewrite N.pow_0_r, N.mod_1_r. reflexivity.
  - destruct l as [|d l].
    + simpl firstn. change (digits_val []) with 0. symmetry. apply N.mod_0_l. pose proof (B64p_pos (N.of_nat (S k))). lia.
    + apply inr_inv in H. destruct H as [Hd Hl]. simpl firstn. rewrite !digits_val_cons, (IH l Hl).
      rewrite Nat2N.inj_succ, N.pow_succ_r'.
      pose proof (B64p_pos (N.of_nat k)) as Hp.
      pose proof (N.div_mod (digits_val l) (B64 ^ N.of_nat k) ltac:(lia)) as E.
      pose proof (N.mod_lt (digits_val l) (B64 ^ N.of_nat k) ltac:(lia)) as Hm.
      set (q := digits_val l / B64 ^ N.of_nat k) in *. set (m := digits_val l mod B64 ^ N.of_nat k) in *.
      apply N.mod_unique with (q := q); [unfold B64 in *; nia | rewrite E; lia].
Qed.

Lemma inr_firstn : forall k l, inr l -> inr (firstn k l).
Proof.
  intros k l H. rewrite <- (firstn_skipn k l) in H. apply inr_app in H. apply H.
Qed.

Lemma fit_length : forall len ds, length (fit len ds) = len.
Proof.
  intros len ds. unfold fit. rewrite firstn_length, app_length, repeat_length. lia.
Qed.

Lemma fit_inr : forall len ds, inr ds -> inr (fit len ds).
Proof.
  intros len ds H. unfold fit. apply inr_firstn. apply inr_app. split; [exact H | apply inr_repeat0].
Qed.

Lemma fit_val : forall len ds, inr ds -> digits_val ds < B64 ^ N.of_nat len ->
  digits_val (fit len ds) = digits_val ds.
Proof.
  intros len ds H Hlt. unfold fit. rewrite firstn_val.
  - rewrite digits_val_app, digits_val_repeat0, N.mul_0_r, N.add_0_r. apply N.mod_small. exact Hlt.
  - apply inr_app. split; [exact H | apply inr_repeat0].
Qed.

(** ** stripping zero digits *)

Lemma strip_lsd_spec : forall ds z t, strip_lsd_zeros ds = (z, t) ->
  ds = repeat 0 (N.to_nat z) ++ t /\ (t = [] \/ hd 0 t <> 0).
Proof.
  induction ds as [|d r IH]; intros z t E.
  - simpl in E. inversion E; subst. split; [reflexivity | left; reflexivity].
  - simpl in E. destruct (N.eqb_spec d 0) as [->|Hd].
    + destruct (strip_lsd_zeros r) as [z' t'] eqn:E'. inversion E; subst.
      destruct (IH z' t eq_refl) as [-> Ht]. split; [|exact Ht].
      rewrite N2Nat.inj_succ. reflexivity.
    + inversion E; subst. split; [reflexivity | right; exact Hd].
Qed.

Lemma strip_lsd_val : forall ds z t, strip_lsd_zeros ds = (z, t) ->
  digits_val ds = B64 ^ z * digits_val t.
Proof.
  intros ds z t E. destruct (strip_lsd_spec ds z t E) as [-> _].
  rewrite digits_val_app, digits_val_repeat0. unfold lenN. rewrite repeat_length, N2Nat.id. lia.
Qed.

Lemma strip_lsd_inr : forall ds z t, strip_lsd_zeros ds = (z, t) -> inr ds -> inr t.
Proof.
  intros ds z t E H. destruct (strip_lsd_spec ds z t E) as [-> _]. apply inr_app in H. apply H.
Qed.

Lemma strip_msd_val : forall ds, digits_val (strip_msd_zeros ds) = digits_val ds.
Proof.
  induction ds as [|d r IH]; [reflexivity|]. simpl strip_msd_zeros.
  rewrite digits_val_cons, <- IH. destruct (strip_msd_zeros r) as [|a r'].
  - change (digits_val []) with 0. destruct (N.eqb_spec d 0) as [->|_].
    + reflexivity.
    + rewrite digits_val_single. lia.
  - rewrite digits_val_cons. reflexivity.
Qed.

Lemma strip_msd_inr : forall ds, inr ds -> inr (strip_msd_zeros ds).
Proof.
  induction ds as [|d r IH]; intros H; [exact H|]. apply inr_inv in H. destruct H as [Hd Hr].
  specialize (IH Hr). simpl strip_msd_zeros. destruct (strip_msd_zeros r) as [|a r'].
  - destruct (d =? 0); [apply inr_nil | apply inr_cons; [exact Hd | apply inr_nil]].
  - apply inr_cons; assumption.
Qed.

Lemma strip_msd_last : forall ds, strip_msd_zeros ds = [] \/ last (strip_msd_zeros ds) 0 <> 0.
Proof.
  induction ds as [|d r IH]; [left; reflexivity|]. simpl strip_msd_zeros.
  destruct (strip_msd_zeros r) as [|a r'].
  - destruct (N.eqb_spec d 0) as [->|Hd]; [left; reflexivity | right; exact Hd].
  - right. destruct IH as [IH|IH]; [discriminate|]. exact IH.
Qed.

(** ** bounds of a digit list through its last digit *)

Lemma digits_val_ge_last : forall l, l <> [] -> B64 ^ (lenN l - 1) * last l 0 <= digits_val l.
Proof. intros l Hl. rewrite (digits_val_last l Hl). lia. Qed.

Lemma digits_val_lt_last : forall l, l <> [] -> inr l ->
  digits_val l < B64 ^ (lenN l - 1) * (last l 0 + 1).
Proof.
  intros l Hl H. rewrite (digits_val_last l Hl).
  pose proof (digits_val_lt (removelast l) (inr_removelast l H)) as Hlt.
  rewrite (lenN_removelast l Hl) in Hlt. lia.
Qed.

(** the bit width of a digit list whose last digit is not zero *)
Lemma size_digits : forall l, l <> [] -> inr l -> last l 0 <> 0 ->
  N.size (digits_val l) = 64 * (lenN l - 1) + N.size (last l 0).
Proof.
  intros l Hl H Hlast.
  pose proof (digits_val_ge_last l Hl) as Hlo. pose proof (digits_val_lt_last l Hl H) as Hhi.
  rewrite B64_pow in Hlo, Hhi.
  pose proof (size_lo _ Hlast) as Slo. pose proof (N.size_gt (last l 0)) as Shi.
  assert (Hs : N.size (last l 0) <> 0) by (rewrite size_0_iff; exact Hlast).
  replace (64 * (lenN l - 1) + N.size (last l 0)) with (64 * (lenN l - 1) + (N.size (last l 0) - 1) + 1) by lia.
  apply size_unique.
  - rewrite p2_add. pose proof (p2_pos (64 * (lenN l - 1))). nia.
  - replace (64 * (lenN l - 1) + (N.size (last l 0) - 1) + 1) with (64 * (lenN l - 1) + N.size (last l 0)) by lia.
    rewrite p2_add. pose proof (p2_pos (64 * (lenN l - 1))). nia.
Qed.
