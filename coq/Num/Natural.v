(** * Model of [oxidd_core::util::num::Natural]
      (/repo/crates/oxidd-core/src/util/num/bigint.rs)

    Executable Gallina only (proofs: Num/NaturalProofs.v).

    A [Natural] is [m * 2^e]: a mantissa [m] stored as little-endian [u64]
    digits and a binary exponent [e : u64]; [e = u64::MAX] encodes the error
    value NaN.  The Rust struct has two shapes: the mantissa stored inline in
    the field [len] ([ptr == DANGLING]) and a heap array of [len >= 2]
    digits.  The model keeps the raw digit list: a one-element list is the
    inline shape, a longer list the heap shape (so [self.len == 0] is
    [digits = [0]], see [len_is_zero]).  The raw array may carry one most
    significant zero digit (then the digit below it has its top bit set);
    [mantissa] strips it like [Natural::mantissa()] does.

    Level of the model: every public operation is mirrored function by
    function with the same case distinctions, the same length / exponent /
    overflow computations and the same u64 digit arithmetic ("align, add with
    carry over u64 digits, strip trailing zero bits into the exponent").  The
    Rust code implements the digit loops of [add] several times (in place when
    the result has as many digits as the left operand, into a fresh [Vec]
    otherwise, zipped / unzipped tails); these variants compute the same digit
    sequence and are one function here ([add_digits], [shl_digits],
    [shr_digits], [fit]); in-place versus fresh allocation is a run-time
    matter.  u64 operations: [x << k] is [(x * 2^k) mod 2^64], [x >> k] is
    [x / 2^k], [rot & upper_mask] / [rot & lower_mask] of a rotated digit are
    the two halves [(x * 2^k) mod 2^64] and [x / 2^(64-k)], [|] of two values
    with disjoint bits is [N.lor]. *)

From Coq Require Import List NArith ZArith Bool.
Import ListNotations.
Local Open Scope N_scope.

(** ** u64 / u128 primitives *)

Definition B64 : N := 18446744073709551616.          (* 2^64 *)
Definition U64MAX : N := 18446744073709551615.       (* u64::MAX *)
Definition B128 : N := 340282366920938463463374607431768211456. (* 2^128 *)

(** [u64::leading_zeros] *)
Definition lz64 (d : N) : N := 64 - N.size d.
(** [u128::leading_zeros] *)
Definition lz128 (d : N) : N := 128 - N.size d.

(** [trailing_zeros] of a non-zero number (0 for 0: never used there) *)
Fixpoint ctz_pos (p : positive) : N :=
  match p with
  | xO q => N.succ (ctz_pos q)
  | _ => 0
  end.
Definition ctz (x : N) : N := match x with N0 => 0 | Npos p => ctz_pos p end.

(** [shl_amount]: [if value == 0 { 0 } else { value.trailing_zeros() }] *)
Definition shl_amount (v : N) : N := ctz v.

(** [x << k] on u64 for [k < 64] *)
Definition shl64 (x k : N) : N := (N.shiftl x k) mod B64.
(** [x >> k] *)
Definition shr64 (x k : N) : N := N.shiftr x k.
(** [x.rotate_right(k)] on u64, [k < 64] *)
Definition rotr64 (x k : N) : N :=
  if k =? 0 then x else N.lor (shr64 x k) (shl64 x (64 - k)).

(** [u64::saturating_add], [u64::saturating_mul] *)
Definition sat_add64 (a b : N) : N := N.min (a + b) U64MAX.
Definition sat_mul64 (a b : N) : N := N.min (a * b) U64MAX.

(** [u128::div_ceil] *)
Definition div_ceil (a b : N) : N := (a + (b - 1)) / b.

(** ** Digit lists (little endian) *)

Fixpoint digits_val (l : list N) : N :=
  match l with
  | [] => 0
  | d :: r => d + B64 * digits_val r
  end.

Definition lenN {A} (l : list A) : N := N.of_nat (length l).

(** exactly [len] digits: missing high digits are 0, digits beyond are
    dropped (the callers only drop zero digits: NaturalProofs.fit_val) *)
Definition fit (len : nat) (ds : list N) : list N := firstn len (ds ++ repeat 0 len).

(** ripple-carry addition of two digit lists of any lengths
    ([carrying_add] / [overflowing_add] digit by digit); the final carry is the
    last digit of the result *)
Fixpoint carry_digits (c : N) (l : list N) : list N :=
  match l with
  | [] => [c]
  | a :: l' => let s := a + c in (s mod B64) :: carry_digits (s / B64) l'
  end.

Fixpoint add_digits (c : N) (l r : list N) : list N :=
  match l with
  | [] => carry_digits c r
  | a :: l' =>
    match r with
    | [] => carry_digits c l
    | b :: r' => let s := a + b + c in (s mod B64) :: add_digits (s / B64) l' r'
    end
  end.

(** shift a digit list left by [sb < 64] bits: the loops
    [rot = r.rotate_left(sb); out = rot & upper_mask | lower; lower = rot & lower_mask];
    the last element is the final [lower] *)
Fixpoint shl_digits (sb lower : N) (ds : list N) : list N :=
  match ds with
  | [] => [lower]
  | d :: r => N.lor (shl64 d sb) lower :: shl_digits sb (shr64 d (64 - sb)) r
  end.

(** shift a digit list right by [s < 64] bits: the loops
    [rot = d.rotate_right(s); out = lower | (rot & upper_mask); lower = rot & lower_mask] *)
Fixpoint shr_digits (s : N) (ds : list N) : list N :=
  match ds with
  | [] => []
  | d :: r => N.lor (shr64 d s) (shl64 (hd 0 r) (64 - s)) :: shr_digits s r
  end.

(** [while let [r @ .., 0] = digits { digits = r }] *)
Fixpoint strip_msd_zeros (ds : list N) : list N :=
  match ds with
  | [] => []
  | d :: r =>
    match strip_msd_zeros r with
    | [] => if d =? 0 then [] else [d]
    | r' => d :: r'
    end
  end.

(** [while let [0, r @ ..] = digits { digits = r; count += 1 }] *)
Fixpoint strip_lsd_zeros (ds : list N) : N * list N :=
  match ds with
  | d :: r => if d =? 0 then let '(z, t) := strip_lsd_zeros r in (N.succ z, t) else (0, ds)
  | [] => (0, [])
  end.

(** ** The type *)

Record natural := mkNat { digits : list N; expo : N }.

(** [Natural::ZERO], [Natural::NAN] *)
Definition ZERO : natural := mkNat [0] 0.
Definition NAN : natural := mkNat [0] U64MAX.

(** [is_nan()], [exp()] *)
Definition is_nan (n : natural) : bool := expo n =? U64MAX.
Definition exp (n : natural) : N := expo n.

(** [self.len == 0] (inline mantissa 0; a heap array has [len >= 2]) *)
Definition len_is_zero (n : natural) : bool :=
  match digits n with [d] => d =? 0 | _ => false end.

(** [ptr == DANGLING] *)
Definition is_inline (n : natural) : bool :=
  match digits n with [_] => true | _ => false end.

(** [mantissa()]: the digits without the most significant zero digit of a
    heap array; [mantissa_raw()] is [digits] *)
Definition mantissa (n : natural) : list N :=
  match digits n with
  | [d] => [d]
  | ds => if last ds 0 =? 0 then removelast ds else ds
  end.

(** the free function [bit_width(digits, shl)] (u128 arithmetic) *)
Definition bit_width_digits (ds : list N) (shl : N) : N :=
  64 * lenN ds - lz64 (last ds 0) + shl.

(** [Natural::bit_width()] *)
Definition bit_width (n : natural) : N := bit_width_digits (digits n) (expo n).

(** [check_inv] (private, asserted by the unit tests and by
    [from_raw_parts] in debug builds), as a boolean *)
Definition check_inv (n : natural) : bool :=
  match digits n with
  | [] => false
  | [d] => if d =? 0 then (expo n =? 0) || (expo n =? U64MAX) else N.odd d
  | d0 :: _ =>
    N.odd d0 &&
    (if last (digits n) 0 =? 0 then 2 ^ 63 <=? last (removelast (digits n)) 0 else true)
  end.

(** ** Constructors *)

(** [From<u64>] (and, through [as u64], [From<u32>], [From<u16>], [From<u8>]) *)
Definition from_u64 (v : N) : natural :=
  let s := shl_amount v in
  mkNat [shr64 v s] s.
Definition from_u32 (v : N) : natural := from_u64 v.
Definition from_u16 (v : N) : natural := from_u64 v.
Definition from_u8 (v : N) : natural := from_u64 v.

(** [From<u128>] (after the fix of the width test:
    [leading + shl >= 64] iff the mantissa [value >> shl] fits one digit) *)
Definition from_u128 (v : N) : natural :=
  if v =? 0 then ZERO
  else
    let leading := lz128 v in
    let s := ctz v in
    if 64 <=? leading + s then mkNat [shr64 v s] s
    else
      let w := shr64 v s in
      mkNat [w mod B64; shr64 w 64] s.

(** [from_le_digits] *)
Definition from_le_digits (ds : list N) : natural :=
  let ds1 := strip_msd_zeros ds in
  let '(shl_digits_cnt, ds2) := strip_lsd_zeros ds1 in
  match ds2 with
  | [] => ZERO
  | [d] =>
    let s := ctz d in
    mkNat [shr64 d s] (sat_add64 s (sat_mul64 shl_digits_cnt 64))
  | lsd :: _ =>
    let msd := last ds2 0 in
    let shr_bits := ctz lsd in
    let shl := sat_mul64 shl_digits_cnt 64 in
    if shr_bits =? 0 then mkNat ds2 shl
    else
      let shl := sat_add64 shl shr_bits in
      let len := Nat.sub (length ds2) (N.to_nat ((shr_bits + lz64 msd) / 64)) in
      if Nat.eqb len 1 then mkNat [N.lor (rotr64 msd shr_bits) (shr64 lsd shr_bits)] shl
      else mkNat (fit len (shr_digits shr_bits ds2)) shl
  end.

(** ** Addition *)

(** [l_shl.checked_add(bit_shr).and_then(|s| s.checked_add(z.checked_mul(64)?))] *)
Definition checked_exp (l_shl bit_shr z : N) : option N :=
  let s1 := l_shl + bit_shr in
  if U64MAX <? s1 then None
  else
    let p := z * 64 in
    if U64MAX <? p then None
    else
      let s2 := s1 + p in
      if U64MAX <? s2 then None else Some s2.

(** [impl Add for Natural] (with the fix that a NaN operand with [len == 0]
    is propagated) *)
Definition nat_add (a b : natural) : natural :=
  if len_is_zero b then (if is_nan b then b else a)
  else if len_is_zero a then (if is_nan a then a else b)
  else
    (* if self.shl > rhs.shl { swap } *)
    let '(l, r) := if expo b <? expo a then (b, a) else (a, b) in
    let l_shl := expo l in
    let r_shl := expo r in
    let l_bw := bit_width_digits (digits l) l_shl in
    let r_bw := bit_width_digits (digits r) r_shl in
    let bw := N.max l_bw r_bw + 1 in
    if l_shl <? r_shl then
      if r_shl =? U64MAX then NAN
      else
        let bit_len := bw - l_shl in
        let len := div_ceil bit_len 64 in
        let start_digit := (r_shl - l_shl) / 64 in
        let start_bit := (r_shl - l_shl) mod 64 in
        if bit_len <=? 65 then
          (* both operands are inline *)
          let s := hd 0 (digits l) + shl64 (hd 0 (digits r)) start_bit in
          if B64 <=? s then mkNat [s mod B64; 1] l_shl else mkNat [s] l_shl
        else
          let rs := repeat 0 (N.to_nat start_digit) ++ shl_digits start_bit 0 (digits r) in
          mkNat (fit (N.to_nat len) (add_digits 0 (digits l) rs)) l_shl
    else
      (* same exponent: the least significant bits cancel each other *)
      let sum := add_digits 0 (digits l) (digits r) in
      let '(z, rest) := strip_lsd_zeros sum in         (* z = i_in - 1 *)
      let lsd := hd 0 rest in
      let bit_shr := shl_amount lsd in
      match checked_exp l_shl bit_shr z with
      | None => NAN
      | Some shl =>
        let bit_len := bw - shl in
        let len := div_ceil bit_len 64 in
        let next_lsd := hd 0 (tl rest) in
        let m := shr_digits bit_shr rest in
        if (bit_len <=? 65) && (shr64 next_lsd bit_shr =? 0) then mkNat [hd 0 m] shl
        else mkNat (fit (N.to_nat len) m) shl
      end.

(** ** Shifts *)

(** [impl Shl<u64>] ([Shl<u32>] forwards to it) *)
Definition nat_shl (a : natural) (k : N) : natural :=
  if len_is_zero a then a else mkNat (digits a) (sat_add64 (expo a) k).

(** [impl Shr<u64>] ([Shr<u32>] forwards to it) *)
Definition nat_shr (a : natural) (k : N) : natural :=
  if k <=? expo a then
    (if expo a =? U64MAX then a else mkNat (digits a) (expo a - k))
  else if len_is_zero a then a
  else mkNat (digits a) U64MAX.

(** ** Comparison, equality, hashing *)

(** the mantissa shifted left so that its top bit is the top bit of the most
    significant digit, as a list of u64 digits starting with the most
    significant one: the digits [l | (l_next.rotate_left(l_shl) & l_lower_mask)]
    that [partial_cmp] compares, ending with the partial digit [l] *)
Definition left_aligned (ds : list N) : list N :=
  rev (removelast (shl_digits (lz64 (last ds 0)) 0 ds)).

(** the comparison loop of [partial_cmp] and its three exits: when one side
    runs out of digits while all compared digits were equal, the longer side
    is the greater one (its remaining digits contain a 1 bit) *)
Fixpoint cmp_streams (l r : list N) : comparison :=
  match l, r with
  | [], [] => Eq
  | _ :: _, [] => Gt
  | [], _ :: _ => Lt
  | a :: l', b :: r' =>
    match a ?= b with
    | Eq => cmp_streams l' r'
    | c => c
    end
  end.

(** [impl PartialOrd] (with the fix that two zeros are equal without shifting) *)
Definition partial_cmp (a b : natural) : option comparison :=
  if is_nan a || is_nan b then None
  else
    let l_digits := mantissa a in
    let r_digits := mantissa b in
    let l_bw := bit_width_digits l_digits (expo a) in
    let r_bw := bit_width_digits r_digits (expo b) in
    if negb (l_bw =? r_bw) then Some (l_bw ?= r_bw)
    else if l_bw =? 0 then Some Eq
    else Some (cmp_streams (left_aligned l_digits) (left_aligned r_digits)).

Fixpoint list_eqb (l r : list N) : bool :=
  match l, r with
  | [], [] => true
  | a :: l', b :: r' => (a =? b) && list_eqb l' r'
  | _, _ => false
  end.

(** [impl PartialEq] *)
Definition nat_eqb (a b : natural) : bool :=
  if negb (expo a =? expo b) then false
  else if is_nan a then true
  else list_eqb (mantissa a) (mantissa b).

(** what [impl Hash] feeds to the hasher: a constant for NaN, otherwise the
    exponent and the mantissa slice *)
Definition hash_key (a : natural) : option (N * list N) :=
  if is_nan a then None else Some (expo a, mantissa a).

(** ** Conversions *)

(** [TryFrom<&Natural> for u128] (after the fix that applies the exponent) *)
Definition try_into_u128 (a : natural) : option N :=
  let m := digits a in
  if (expo a <? 128) && (lenN m <=? 3) && (lenN m * 64 - lz64 (last m 0) + expo a <=? 128) then
    let upper := nth 1 m 0 in
    Some ((N.shiftl (nth 0 m 0 + B64 * upper) (expo a)) mod B128)
  else None.

(** [TryFrom<&Natural> for u64] *)
Definition try_into_u64 (a : natural) : option N :=
  if (expo a <? 64) && is_inline a && (expo a <=? lz64 (hd 0 (digits a))) then
    Some (shl64 (hd 0 (digits a)) (expo a))
  else None.

Definition F64_NAN_BITS : N := 9221120237041090560.    (* 0x7ff8000000000000 *)
Definition F64_INF_BITS : N := 9218868437227405312.    (* 0x7ff0000000000000 *)

(** [From<&Natural> for f64], as the bit pattern [f64::to_bits] *)
Definition to_f64_bits (a : natural) : N :=
  if is_nan a then F64_NAN_BITS
  else
    let m := mantissa a in
    let msd := last m 0 in
    if msd =? 0 then 0
    else
      let leading_zeros := lz64 msd in
      let bw := sat_add64 (sat_mul64 (lenN m) 64) (expo a) - leading_zeros in
      if 1024 <? bw then F64_INF_BITS
      else
        let e := bw + 1023 - 1 in
        let msd2 := last (removelast m) 0 in       (* 0 when there is one digit *)
        let frac_trunc_msb :=
          if msd =? 1 then msd2
          else N.lor (shl64 msd (leading_zeros + 1)) (shr64 msd2 (64 - (leading_zeros + 1))) in
        let frac_trunc := shr64 frac_trunc_msb 12 in
        let frac_rounded :=
          frac_trunc +
          (if bw - expo a =? 54 then N.land frac_trunc 1
           else N.land (shr64 frac_trunc_msb 11) 1) in
        e * 2 ^ 52 + frac_rounded.

(** ** Text *)

(** The output of the [fmt] traits is modelled as the list of digit values
    (most significant first) in the respective base; [None] is the text [?]
    that [fmt_nan] writes.  The decimal digits of [Display] are produced by
    [dashu_int::UBig] (outside the model): [fmt_dec] returns the number handed
    to it. *)

(** [TryFrom<&Natural> for UBig] as used by [Display]: [Err] for NaN and for
    exponents above [2^40] *)
Definition fmt_dec (a : natural) : option N :=
  if 1099511627776 <? expo a then None
  else Some (N.shiftl (digits_val (mantissa a)) (expo a)).

(** bits [pos-1 .. 0] of [d], most significant first: the inner [while] of
    [Binary::fmt] *)
Fixpoint bits_from (pos : nat) (d : N) : list N :=
  match pos with
  | O => []
  | S p => (if N.testbit d (N.of_nat p) then 1 else 0) :: bits_from p d
  end.

(** [impl fmt::Binary] (the digits written by the [write_digits] closure) *)
Definition fmt_bin (a : natural) : option (list N) :=
  if is_nan a then None
  else
    let m := mantissa a in
    let msd := last m 0 in
    if msd =? 0 then Some [0]
    else
      Some (bits_from (N.to_nat (64 - lz64 msd)) msd
            ++ flat_map (bits_from 64) (tl (rev m))
            ++ repeat 0 (N.to_nat (expo a))).

(** the [while !done] loop of [fmt_pow2]; [rest] are the remaining mantissa
    digits, most significant first; [offset] is an [i32] *)
Fixpoint pow2_loop (fuel : nat) (bpd : N) (msd : N) (rest : list N) (offset : Z)
  (acc : list N) : option (list N) :=
  match fuel with
  | O => None
  | S f =>
    let mask := 2 ^ bpd - 1 in
    if (0 <=? offset)%Z then
      let digit := N.land (shr64 msd (Z.to_N offset)) mask in
      pow2_loop f bpd msd rest (offset - Z.of_N bpd)%Z (digit :: acc)
    else
      let upper := shl64 msd (Z.to_N (- offset)) in
      let offset' := (offset + 64)%Z in
      match rest with
      | v :: rest' =>
        let digit := N.land (N.lor upper (shr64 v (Z.to_N offset'))) mask in
        pow2_loop f bpd v rest' (offset' - Z.of_N bpd)%Z (digit :: acc)
      | [] =>
        if (offset' =? 64 - Z.of_N bpd)%Z then Some (rev acc)
        else Some (rev (N.land upper mask :: acc))
      end
  end.

(** [fmt_pow2] with [bits_per_digit = bpd] (3: Octal, 4: LowerHex/UpperHex) *)
Definition fmt_pow2 (bpd : N) (a : natural) : option (list N) :=
  if is_nan a then None
  else
    let m := mantissa a in
    let bw := bit_width_digits m (expo a) in
    let rem_bits := bw mod bpd in
    let msd := last m 0 in
    if msd =? 0 then Some [0]
    else
      let rem_bits := if rem_bits =? 0 then bpd else rem_bits in
      let offset := (Z.of_N (64 - lz64 msd) - Z.of_N rem_bits)%Z in
      match pow2_loop (S (S (N.to_nat (div_ceil (64 * lenN m) bpd)))) bpd msd (tl (rev m)) offset [] with
      | None => None
      | Some ds => Some (ds ++ repeat 0 (N.to_nat (expo a / bpd)))
      end.

Definition fmt_oct := fmt_pow2 3.
Definition fmt_hex := fmt_pow2 4.

(** number of digits announced to [pad_integral]: [bit_width] for Binary,
    [bit_width.div_ceil(bits_per_digit)] for [fmt_pow2] *)
Definition fmt_digit_count (bpd : N) (a : natural) : N :=
  div_ceil (bit_width_digits (mantissa a) (expo a)) bpd.

(** *** Padding ([pad_integral], [fmt_nan]) *)

Inductive alignment := ALeft | ACenter | ARight | AUnknown.

Record fmt_flags := mkFlags {
  f_alternate : bool;          (* # *)
  f_sign_plus : bool;          (* + *)
  f_zero_pad : bool;           (* 0 *)
  f_width : option N;
  f_align : alignment
}.

(** what is written around the digits, in this order: [l_fill] fill
    characters, ['+'] if [l_plus], the prefix if [l_prefix], [l_zeros] zeros,
    the digits, [l_back] fill characters *)
Record layout := mkLayout {
  l_fill : N; l_plus : bool; l_prefix : bool; l_zeros : N; l_back : N
}.

(** the re-implementation of [Formatter::pad_integral] in bigint.rs (after the
    two fixes: sign and prefix between fill and zero padding; the number 0
    has one digit); [digits] is the announced digit count, [prefix_len] the
    length of ["0b"], ["0o"], ["0x"] *)
Definition pad_integral (f : fmt_flags) (ndigits prefix_len : N) : layout :=
  let prefix_width := (if f_alternate f then prefix_len else 0) + (if f_sign_plus f then 1 else 0) in
  let min_digits := match f_width f with Some w => w - prefix_width | None => 0 end in
  let pad := min_digits - N.max ndigits 1 in
  if (negb (pad =? 0)) && f_zero_pad f then
    mkLayout 0 (f_sign_plus f) (f_alternate f) pad 0
  else
    let front :=
      match f_align f with
      | ALeft => 0
      | ACenter => pad / 2
      | _ => pad
      end in
    mkLayout front (f_sign_plus f) (f_alternate f) 0 (pad - front).

(** [fmt_nan]: fill characters before and after the [?] *)
Definition fmt_nan_layout (f : fmt_flags) : N * N :=
  match f_width f with
  | Some width =>
    if 2 <=? width then
      let w := width - 1 in
      match f_align f with
      | ALeft => (0, w)
      | ACenter => (w / 2, w - w / 2)
      | _ => (w, 0)
      end
    else (0, 0)
  | None => (0, 0)
  end.
