(** * [impl Add for Natural]: the sum is exact (Num/Natural.v, [nat_add])

    [nat_add_spec]: for operands satisfying the invariant the result satisfies
    it, and denotes [x + y] -- or NaN exactly when an operand is NaN or the
    exponent of the sum (its number of trailing zero bits) is not below
    [u64::MAX]. *)

From Coq Require Import List NArith Bool Lia.
From OxiVerif Require Import Num.Natural Num.NatBase Num.NaturalProofs.
Import ListNotations.
Local Open Scope N_scope.

Arguments N.add : simpl never.
Arguments N.sub : simpl never.
Arguments N.mul : simpl never.
Arguments N.div : simpl never.
Arguments N.modulo : simpl never.
Arguments N.pow : simpl never.
Arguments N.min : simpl never.
Arguments N.max : simpl never.
Arguments N.shiftl : simpl never.
Arguments N.shiftr : simpl never.
Arguments N.lor : simpl never.
Arguments N.size : simpl never.

(** ** The two branches of [nat_add] as functions *)

(** different exponents, [expo l < expo r < u64::MAX] *)
Definition add_diff (l r : natural) : natural :=
  let l_shl := expo l in
  let r_shl := expo r in
  let l_bw := bit_width_digits (digits l) l_shl in
  let r_bw := bit_width_digits (digits r) r_shl in
  let bw := N.max l_bw r_bw + 1 in
  let bit_len := bw - l_shl in
  let len := div_ceil bit_len 64 in
  let start_digit := (r_shl - l_shl) / 64 in
  let start_bit := (r_shl - l_shl) mod 64 in
  if bit_len <=? 65 then
    let s := hd 0 (digits l) + shl64 (hd 0 (digits r)) start_bit in
    if B64 <=? s then mkNat [s mod B64; 1] l_shl else mkNat [s] l_shl
  else
    let rs := repeat 0 (N.to_nat start_digit) ++ shl_digits start_bit 0 (digits r) in
    mkNat (fit (N.to_nat len) (add_digits 0 (digits l) rs)) l_shl.

(** equal exponents *)
Definition add_same (l r : natural) : natural :=
  let l_shl := expo l in
  let r_shl := expo r in
  let l_bw := bit_width_digits (digits l) l_shl in
  let r_bw := bit_width_digits (digits r) r_shl in
  let bw := N.max l_bw r_bw + 1 in
  let sum := add_digits 0 (digits l) (digits r) in
  let '(z, rest) := strip_lsd_zeros sum in
  let lsd := hd 0 rest in
  let bit_shr := shl_amount lsd in
  match checked_exp l_shl bit_shr z with
  | None => NAN
  | Some shl =>
    let bit_len := bw - shl in
    let len := div_ceil bit_len 64 in
    let next_lsd := hd 0 (tl rest) in
    let m := shr_digits bit_shr rest in
    if (bit_len <=? 65) && (shr64 next_lsd bit_shr =? 0) then mkNat [hd 0 m] shl
    else mkNat (fit (N.to_nat len) m) shl
  end.

Lemma nat_add_unfold : forall a b,
  nat_add a b =
  if len_is_zero b then (if is_nan b then b else a)
  else if len_is_zero a then (if is_nan a then a else b)
  else
    let l := if expo b <? expo a then b else a in
    let r := if expo b <? expo a then a else b in
    if expo l <? expo r then (if expo r =? U64MAX then NAN else add_diff l r)
    else add_same l r.
Proof.
  intros a b. unfold nat_add, add_diff, add_same.
  destruct (len_is_zero b); [reflexivity|]. destruct (len_is_zero a); [reflexivity|].
  destruct (expo b <? expo a); reflexivity.
Qed.

(** ** Helpers *)

Lemma div_ceil_64 : forall b, 64 * div_ceil b 64 <= b + 63 /\ b <= 64 * div_ceil b 64.
Proof.
  intros b. unfold div_ceil. change (64 - 1) with 63.
  pose proof (N.div_mod (b + 63) 64 ltac:(discriminate)) as E.
  pose proof (N.mod_lt (b + 63) 64 ltac:(discriminate)).
  set (q := (b + 63) / 64) in *. set (r := (b + 63) mod 64) in *. clearbody q r. lia.
Qed.

Lemma checked_exp_spec : forall a b z,
  checked_exp a b z = if a + b + z * 64 <=? U64MAX then Some (a + b + z * 64) else None.
Proof.
  intros a b z. unfold checked_exp.
  destruct (N.ltb_spec U64MAX (a + b)) as [H1|H1].
  - destruct (N.leb_spec (a + b + z * 64) U64MAX); [lia | reflexivity].
  - destruct (N.ltb_spec U64MAX (z * 64)) as [H2|H2].
    + destruct (N.leb_spec (a + b + z * 64) U64MAX); [lia | reflexivity].
    + destruct (N.ltb_spec U64MAX (a + b + z * 64)) as [H3|H3];
        destruct (N.leb_spec (a + b + z * 64) U64MAX); try lia; reflexivity.
Qed.

(** an odd mantissa of [bl - 1] or [bl] bits that does not fit one digit, stored
    in [ceil(bl / 64)] digits *)
Lemma fit_Inv : forall ds e bl, inr ds -> e <= U64MAX -> N.odd (digits_val ds) = true ->
  bl - 1 <= N.size (digits_val ds) -> N.size (digits_val ds) <= bl -> B64 <= digits_val ds ->
  Inv (mkNat (fit (N.to_nat (div_ceil bl 64)) ds) e) /\
  digits_val (fit (N.to_nat (div_ceil bl 64)) ds) = digits_val ds.
Proof.
  intros ds e bl Hr He Ho Hlo Hhi Hbig. set (M := digits_val ds) in *.
  destruct (div_ceil_64 bl) as [L1 L2]. set (len := div_ceil bl 64) in *.
  assert (HsM : 65 <= N.size M).
  { assert (64 < N.size M); [|lia]. apply size_gt_iff. rewrite <- B64_eq. exact Hbig. }
  assert (Hlt : M < B64 ^ N.of_nat (N.to_nat len)).
  { rewrite N2Nat.id, B64_pow. apply size_le_iff. lia. }
  pose proof (fit_val (N.to_nat len) ds Hr Hlt) as Ev. fold M in Ev.
  split; [|exact Ev].
  assert (Hne : fit (N.to_nat len) ds <> []).
  { intros Hc. apply (f_equal (@length N)) in Hc. rewrite fit_length in Hc. simpl in Hc. lia. }
  apply mk_Inv.
  - apply fit_inr. exact Hr.
  - exact Hne.
  - exact He.
  - rewrite Ev. exact Ho.
  - right. rewrite Ev. split; [exact Hbig|].
    unfold lenN. rewrite fit_length, N2Nat.id.
    apply N.le_trans with (2 ^ (N.size M - 1)).
    + apply p2_le. lia.
    + apply size_lo. unfold B64 in Hbig. lia.
Qed.

(** trailing zeros of a number are those of its non-zero lowest digit *)
Lemma odd_part_low : forall x y k, x <> 0 -> x < 2 ^ k ->
  N.odd ((x + 2 ^ k * y) / 2 ^ ctz x) = true /\
  x + 2 ^ k * y = ((x + 2 ^ k * y) / 2 ^ ctz x) * 2 ^ ctz x.
Proof.
  intros x y k Hx Hk. destruct (ctz_div_odd x Hx) as [Ho E]. set (c := ctz x) in *.
  set (o := x / 2 ^ c) in *.
  assert (Hc : c < k).
  { pose proof (ctz_lt_size x Hx). assert (N.size x <= k) by (apply size_le_iff; exact Hk). fold c in H. lia. }
  assert (Es : x + 2 ^ k * y = (o + 2 ^ (k - c) * y) * 2 ^ c).
  { rewrite (p2_split k c) by lia. rewrite E at 1. lia. }
  rewrite Es, N.div_mul by apply p2_nz. split; [|reflexivity].
  rewrite N.odd_add, Ho, N.odd_mul, N.odd_pow by lia. reflexivity.
Qed.

(** ** Different exponents *)

Lemma add_diff_spec : forall l r, Inv l -> Inv r -> mval l <> 0 -> mval r <> 0 ->
  expo l < expo r -> expo r <> U64MAX ->
  Inv (add_diff l r) /\
  val (add_diff l r) = Some (mval l * 2 ^ expo l + mval r * 2 ^ expo r).
Proof.
  intros l r Hl Hr Hml Hmr Hlt HrM.
  pose proof (inv_exp r Hr) as Her.
  assert (HlM : expo l <> U64MAX) by lia.
  pose proof (inv_odd l Hl Hml) as Ol. pose proof (inv_odd r Hr Hmr) as Or.
  set (D := expo r - expo l).
  assert (HD : 0 < D) by (unfold D; lia).
  set (M := mval l + mval r * 2 ^ D).
  assert (EM : M * 2 ^ expo l = mval l * 2 ^ expo l + mval r * 2 ^ expo r).
  { unfold M. replace (expo r) with (D + expo l) by (unfold D; lia). rewrite p2_add. lia. }
  assert (OM : N.odd M = true).
  { unfold M. rewrite N.odd_add, Ol, N.odd_mul, N.odd_pow by lia. rewrite andb_false_r. reflexivity. }
  (* bit widths *)
  set (sl := N.size (mval l)). set (sr := N.size (mval r)).
  assert (Hsl : 1 <= sl) by (assert (sl <> 0) by (unfold sl; rewrite size_0_iff; exact Hml); lia).
  assert (Hsr : 1 <= sr) by (assert (sr <> 0) by (unfold sr; rewrite size_0_iff; exact Hmr); lia).
  assert (SrD : N.size (mval r * 2 ^ D) = sr + D) by (apply size_mul_p2; exact Hmr).
  pose proof (size_add_lo (mval l) (mval r * 2 ^ D)) as SMlo.
  pose proof (size_add_hi (mval l) (mval r * 2 ^ D)) as SMhi.
  rewrite SrD in SMlo, SMhi. fold M sl in SMlo, SMhi.
  unfold add_diff.
  change (bit_width_digits (digits l) (expo l)) with (bit_width l).
  change (bit_width_digits (digits r) (expo r)) with (bit_width r).
  rewrite (bit_width_spec l Hl), (bit_width_spec r Hr). fold sl sr D.
  set (bl := N.max (sl + expo l) (sr + expo r) + 1 - expo l).
  assert (Ebl : bl = N.max sl (sr + D) + 1) by (unfold bl, D; lia).
  destruct (N.leb_spec bl 65) as [Hsmall|Hlarge].
  - (* both operands inline *)
    assert (Il : mval l < B64) by (rewrite B64_eq; apply size_le_iff; fold sl; lia).
    assert (Ir : mval r < B64).
    { rewrite B64_eq. apply size_le_iff. fold sr. lia. }
    assert (Edl : hd 0 (digits l) = mval l).
    { apply (inline_iff l Hl) in Il. unfold is_inline in Il. unfold mval.
      destruct (digits l) as [|d [|d' t]]; try discriminate. rewrite digits_val_single. reflexivity. }
    assert (Edr : hd 0 (digits r) = mval r).
    { apply (inline_iff r Hr) in Ir. unfold is_inline in Ir. unfold mval.
      destruct (digits r) as [|d [|d' t]]; try discriminate. rewrite digits_val_single. reflexivity. }
    assert (HD64 : D < 64) by lia.
    rewrite (N.mod_small D 64 HD64), Edl, Edr.
    assert (Hshift : mval r * 2 ^ D < B64).
    { rewrite B64_eq. apply size_le_iff. rewrite SrD. lia. }
    rewrite (shl64_small _ _ Hshift). fold M.
    assert (HM65 : M < 2 ^ 65) by (apply size_le_iff; lia).
    destruct (N.leb_spec B64 M) as [Hc|Hnc].
    + assert (EV : digits_val [M mod B64; 1] = M).
      { rewrite digits_val_cons, digits_val_single.
        pose proof (N.div_mod M B64 ltac:(discriminate)) as E.
        assert (M / B64 = 1); [|lia].
        assert (M / B64 < 2) by (apply N.div_lt_upper_bound; [discriminate | exact HM65]).
        assert (1 <= M / B64) by (apply N.div_le_lower_bound; [discriminate | lia]). lia. }
      split.
      * apply mk_Inv.
        -- apply inr_cons; [apply N.mod_lt; discriminate|]. apply inr_cons; [reflexivity | apply inr_nil].
        -- discriminate.
        -- lia.
        -- rewrite EV. exact OM.
        -- right. rewrite EV. split; [exact Hc|]. change (lenN [M mod B64; 1]) with 2.
           change (64 * 2 - 65) with 63. pose proof (p2_lt 63 64 ltac:(lia)). rewrite B64_eq in Hc. lia.
      * rewrite val_mk. destruct (N.eqb_spec (expo l) U64MAX); [contradiction|]. rewrite EV, EM. reflexivity.
    + split.
      * apply mk_Inv.
        -- apply inr_cons; [exact Hnc | apply inr_nil].
        -- discriminate.
        -- lia.
        -- rewrite digits_val_single. exact OM.
        -- left. reflexivity.
      * rewrite val_mk. destruct (N.eqb_spec (expo l) U64MAX); [contradiction|].
        rewrite digits_val_single, EM. reflexivity.
  - (* general case *)
    set (sd := D / 64). set (sb := D mod 64).
    assert (ED : D = 64 * sd + sb) by (apply N.div_mod; discriminate).
    assert (Hsb : sb < 64) by (apply N.mod_lt; discriminate).
    destruct (shl_digits_spec sb (digits r) 0 Hsb (p2_pos sb) (inv_inr r Hr)) as [Vs Rs].
    set (rs := repeat 0 (N.to_nat sd) ++ shl_digits sb 0 (digits r)).
    assert (Vrs : digits_val rs = mval r * 2 ^ D).
    { unfold rs. rewrite digits_val_app, digits_val_repeat0, Vs. unfold lenN.
      rewrite repeat_length, N2Nat.id, B64_pow, ED, p2_add. unfold mval. lia. }
    assert (Rrs : inr rs) by (apply inr_app; split; [apply inr_repeat0 | exact Rs]).
    set (ds := add_digits 0 (digits l) rs).
    assert (Vds : digits_val ds = M) by (unfold ds; rewrite add_digits_val, Vrs; unfold M, mval; lia).
    assert (Rds : inr ds) by (apply add_digits_inr; [lia | apply (inv_inr l Hl) | exact Rrs]).
    assert (HB : B64 <= M).
    { rewrite B64_eq. apply size_gt_iff. lia. }
    destruct (fit_Inv ds (expo l) bl Rds ltac:(lia)) as [HI HV]; try (rewrite Vds; assumption || lia).
    split; [exact HI|].
    rewrite val_mk. destruct (N.eqb_spec (expo l) U64MAX); [contradiction|]. rewrite HV, Vds, EM. reflexivity.
Qed.

(** ** Equal exponents *)

Lemma add_same_spec : forall l r, Inv l -> Inv r -> mval l <> 0 -> mval r <> 0 ->
  expo l = expo r ->
  Inv (add_same l r) /\
  val (add_same l r) =
    if expo l + ctz (mval l + mval r) <? U64MAX
    then Some ((mval l + mval r) * 2 ^ expo l) else None.
Proof.
  intros l r Hl Hr Hml Hmr Ee.
  pose proof (inv_exp l Hl) as Hel.
  pose proof (inv_odd l Hl Hml) as Ol. pose proof (inv_odd r Hr Hmr) as Or.
  set (S := mval l + mval r).
  assert (HS : S <> 0) by (unfold S; lia).
  set (sl := N.size (mval l)). set (sr := N.size (mval r)).
  pose proof (size_add_lo (mval l) (mval r)) as SSlo. pose proof (size_add_hi (mval l) (mval r)) as SShi.
  fold S sl sr in SSlo, SShi.
  unfold add_same.
  change (bit_width_digits (digits l) (expo l)) with (bit_width l).
  change (bit_width_digits (digits r) (expo r)) with (bit_width r).
  rewrite (bit_width_spec l Hl), (bit_width_spec r Hr). fold sl sr. rewrite <- Ee.
  set (sum := add_digits 0 (digits l) (digits r)).
  assert (Vsum : digits_val sum = S) by (unfold sum; rewrite add_digits_val; unfold S, mval; lia).
  assert (Rsum : inr sum) by (apply add_digits_inr; [lia | apply (inv_inr l Hl) | apply (inv_inr r Hr)]).
  destruct (strip_lsd_zeros sum) as [z rest] eqn:Est.
  pose proof (strip_lsd_val sum z rest Est) as Vst. rewrite Vsum in Vst.
  pose proof (strip_lsd_inr sum z rest Est Rsum) as Rrest.
  destruct (strip_lsd_spec sum z rest Est) as [_ Hhd].
  destruct rest as [|lsd rest'].
  { exfalso. change (digits_val []) with 0 in Vst. lia. }
  destruct Hhd as [Hhd|Hhd]; [discriminate|]. simpl hd in Hhd. simpl hd. simpl tl.
  apply inr_inv in Rrest. destruct Rrest as [Rlsd Rrest'].
  unfold shl_amount. set (s := ctz lsd).
  assert (Hs : s < 64).
  { pose proof (ctz_lt_size lsd Hhd). pose proof (size_lt_B64 lsd Rlsd). fold s in H. lia. }
  (* the odd part of the sum *)
  set (Y := digits_val rest').
  assert (VR : digits_val (lsd :: rest') = lsd + 2 ^ 64 * Y) by (rewrite digits_val_cons, B64_eq; reflexivity).
  destruct (odd_part_low lsd Y 64 Hhd ltac:(rewrite <- B64_eq; exact Rlsd)) as [OM EM0]. fold s in OM, EM0.
  rewrite <- VR in OM, EM0. set (M := digits_val (lsd :: rest') / 2 ^ s) in *.
  set (t := s + z * 64).
  assert (ES : S = M * 2 ^ t).
  { rewrite Vst, EM0. unfold t. rewrite p2_add, B64_pow, (N.mul_comm z 64). lia. }
  assert (Et : ctz S = t) by (rewrite ES; apply ctz_unique; exact OM).
  rewrite Et.
  assert (HMnz : M <> 0) by (apply odd_nz; exact OM).
  assert (SM : N.size S = N.size M + t) by (rewrite ES; apply size_mul_p2; exact HMnz).
  assert (HsM : 1 <= N.size M) by (assert (N.size M <> 0) by (rewrite size_0_iff; exact HMnz); lia).
  (* the shifted digits *)
  destruct (shr_digits_spec s (lsd :: rest') Hs (inr_cons _ _ Rlsd Rrest')) as [Vm Rm]. fold M in Vm.
  rewrite checked_exp_spec. replace (expo l + s + z * 64) with (expo l + t) by (unfold t; lia).
  destruct (N.leb_spec (expo l + t) U64MAX) as [Hfit|Hover].
  2:{ split; [exact Inv_NAN|]. rewrite val_NAN. destruct (N.ltb_spec (expo l + t) U64MAX); [lia | reflexivity]. }
  set (bl := N.max (sl + expo l) (sr + expo l) + 1 - (expo l + t)).
  assert (Ebl : bl = N.max sl sr + 1 - t) by (unfold bl; lia).
  assert (Hbl1 : bl - 1 <= N.size M) by lia.
  assert (Hbl2 : N.size M <= bl) by lia.
  (* the value of the result is the same in both shapes *)
  assert (Hval : forall ds, digits_val ds = M ->
    val (mkNat ds (expo l + t)) =
    if expo l + t <? U64MAX then Some (S * 2 ^ expo l) else None).
  { intros ds Vds. rewrite val_mk. destruct (N.eqb_spec (expo l + t) U64MAX) as [Ex|Ex].
    - destruct (N.ltb_spec (expo l + t) U64MAX); [lia | reflexivity].
    - destruct (N.ltb_spec (expo l + t) U64MAX); [|lia].
      rewrite Vds, ES, p2_add. f_equal. lia. }
  simpl shr_digits. simpl hd.
  set (m0 := N.lor (shr64 lsd s) (shl64 (hd 0 rest') (64 - s))) in *.
  set (mt := shr_digits s rest') in *.
  assert (Vm' : m0 + B64 * digits_val mt = M) by (rewrite <- Vm; reflexivity).
  destruct (shr_digits_spec s rest' Hs Rrest') as [Vmt Rmt]. fold mt Y in Vmt.
  apply inr_inv in Rm. destruct Rm as [Rm0 _].
  destruct ((bl <=? 65) && (shr64 (hd 0 rest') s =? 0)) eqn:Ec.
  - (* one digit *)
    apply andb_prop in Ec. destruct Ec as [Hb65 Hnext]. apply N.leb_le in Hb65. apply N.eqb_eq in Hnext.
    rewrite shr64_eq in Hnext. apply div_small_iff in Hnext.
    assert (HM65 : M < 2 ^ 65) by (apply size_le_iff; lia).
    assert (Hmt : digits_val mt = 0).
    { assert (Hlt2 : digits_val mt < 2).
      { destruct (N.lt_ge_cases (digits_val mt) 2) as [|Hge]; [assumption|exfalso].
        assert (B64 * 2 <= B64 * digits_val mt) by (apply N.mul_le_mono_l; exact Hge).
        change (2 ^ 65) with (B64 * 2) in HM65. lia. }
      rewrite Vmt in *. destruct rest' as [|nx rest'']; [apply N.div_0_l; apply p2_nz|].
      simpl hd in Hnext. unfold Y in *. rewrite digits_val_cons in *.
      set (Y' := digits_val rest'') in *.
      destruct (N.eq_dec Y' 0) as [->|HY'].
      - rewrite N.mul_0_r, N.add_0_r. apply N.div_small. exact Hnext.
      - exfalso.
        assert (2 <= (nx + B64 * Y') / 2 ^ s); [|lia].
        apply N.div_le_lower_bound; [apply p2_nz|].
        assert (2 ^ s * 2 <= B64) by (rewrite B64_eq, N.mul_comm, <- p2_succ; apply p2_le; lia).
        assert (B64 * 1 <= B64 * Y') by (apply N.mul_le_mono_l; lia). lia. }
    assert (EM1 : m0 = M) by lia.
    split.
    + apply mk_Inv.
      * apply inr_cons; [exact Rm0 | apply inr_nil].
      * discriminate.
      * exact Hfit.
      * rewrite digits_val_single, EM1. exact OM.
      * left. reflexivity.
    + apply Hval. rewrite digits_val_single. exact EM1.
  - (* several digits *)
    assert (HB : B64 <= M).
    { apply andb_false_iff in Ec. destruct Ec as [Hb65|Hnext].
      - apply N.leb_gt in Hb65. rewrite B64_eq. apply size_gt_iff. lia.
      - apply N.eqb_neq in Hnext. rewrite shr64_eq in Hnext.
        assert (1 <= digits_val mt); [|unfold B64 in *; lia].
        rewrite Vmt. destruct rest' as [|nx rest'']; [simpl hd in Hnext; rewrite N.div_0_l in Hnext by apply p2_nz; contradiction|].
        simpl hd in Hnext. unfold Y. rewrite digits_val_cons.
        assert (Hq : nx / 2 ^ s <= (nx + B64 * digits_val rest'') / 2 ^ s) by (apply N.div_le_mono; [apply p2_nz | lia]).
        revert Hq Hnext. generalize (nx / 2 ^ s) ((nx + B64 * digits_val rest'') / 2 ^ s). intros; lia. }
    assert (Rall : inr (m0 :: mt)) by (apply inr_cons; assumption).
    assert (Vall : digits_val (m0 :: mt) = M) by (rewrite digits_val_cons; exact Vm').
    destruct (fit_Inv (m0 :: mt) (expo l + t) bl Rall Hfit) as [HI HV]; try (rewrite Vall; assumption).
    split; [exact HI|]. apply Hval. rewrite HV. exact Vall.
Qed.

(** ** The theorem *)

Lemma norm_sum_diff : forall ml el mr er, N.odd ml = true -> mr <> 0 -> el < er -> el <> U64MAX ->
  el <= U64MAX -> norm (ml * 2 ^ el + mr * 2 ^ er) = Some (ml * 2 ^ el + mr * 2 ^ er).
Proof.
  intros ml el mr er Ol Hmr Hlt HM Hle. unfold norm.
  replace (ml * 2 ^ el + mr * 2 ^ er) with ((ml + mr * 2 ^ (er - el)) * 2 ^ el).
  2:{ rewrite (p2_split er el) by lia. lia. }
  rewrite ctz_unique.
  - destruct (N.ltb_spec el U64MAX); [|lia]. rewrite orb_true_r. reflexivity.
  - rewrite N.odd_add, Ol, N.odd_mul, N.odd_pow by lia. rewrite andb_false_r. reflexivity.
Qed.

Theorem nat_add_spec : forall a b, Inv a -> Inv b ->
  Inv (nat_add a b) /\
  val (nat_add a b) =
    match val a, val b with
    | Some x, Some y => norm (x + y)
    | _, _ => None
    end.
Proof.
  intros a b Ha Hb. rewrite nat_add_unfold.
  destruct (len_is_zero b) eqn:Zb.
  { apply (len_is_zero_iff b Hb) in Zb. unfold is_nan. destruct (N.eqb_spec (expo b) U64MAX) as [Eb|Eb].
    - split; [exact Hb|]. rewrite (val_nan b Eb). destruct (val a); reflexivity.
    - split; [exact Ha|]. rewrite (val_some b Eb), Zb, N.mul_0_l.
      destruct (val a) as [x|] eqn:Ea; [|reflexivity]. rewrite N.add_0_r.
      symmetry. apply (val_norm a x Ha Ea). }
  destruct (len_is_zero a) eqn:Za.
  { apply (len_is_zero_iff a Ha) in Za. unfold is_nan. destruct (N.eqb_spec (expo a) U64MAX) as [Ea|Ea].
    - split; [exact Ha|]. rewrite (val_nan a Ea). reflexivity.
    - split; [exact Hb|]. rewrite (val_some a Ea), Za, N.mul_0_l.
      destruct (val b) as [y|] eqn:Eb; [|reflexivity]. rewrite N.add_0_l.
      symmetry. apply (val_norm b y Hb Eb). }
  assert (Hma : mval a <> 0) by (intros Hz; apply (len_is_zero_iff a Ha) in Hz; congruence).
  assert (Hmb : mval b <> 0) by (intros Hz; apply (len_is_zero_iff b Hb) in Hz; congruence).
  (* symmetric statement for the ordered pair *)
  assert (Main : forall l r, Inv l -> Inv r -> mval l <> 0 -> mval r <> 0 -> expo l <= expo r ->
    let res := if expo l <? expo r then (if expo r =? U64MAX then NAN else add_diff l r)
               else add_same l r in
    Inv res /\ val res = match val l, val r with Some x, Some y => norm (x + y) | _, _ => None end).
  { clear. intros l r Hl Hr Hml Hmr Hle. cbv zeta.
    pose proof (inv_exp l Hl) as Hel. pose proof (inv_exp r Hr) as Her.
    pose proof (inv_odd l Hl Hml) as Ol. pose proof (inv_odd r Hr Hmr) as Or.
    destruct (N.ltb_spec (expo l) (expo r)) as [Hlt|Hge].
    - destruct (N.eqb_spec (expo r) U64MAX) as [Er|Er].
      + split; [exact Inv_NAN|]. rewrite (val_nan r Er), val_NAN. destruct (val l); reflexivity.
      + destruct (add_diff_spec l r Hl Hr Hml Hmr Hlt Er) as [HI HV]. split; [exact HI|].
        assert (El : expo l <> U64MAX) by lia.
        rewrite HV, (val_some l El), (val_some r Er). symmetry.
        apply norm_sum_diff; assumption.
    - assert (Ee : expo l = expo r) by lia.
      destruct (add_same_spec l r Hl Hr Hml Hmr Ee) as [HI HV]. split; [exact HI|]. rewrite HV.
      set (S := mval l + mval r). assert (HS : S <> 0) by (unfold S; lia).
      destruct (ctz_div_odd S HS) as [OS ES].
      destruct (N.eq_dec (expo l) U64MAX) as [El|El].
      + rewrite (val_nan l El). destruct (N.ltb_spec (expo l + ctz S) U64MAX); [lia | reflexivity].
      + assert (Er : expo r <> U64MAX) by lia. rewrite (val_some l El), (val_some r Er), <- Ee.
        rewrite <- N.mul_add_distr_r. fold S. unfold norm.
        assert (Ec : ctz (S * 2 ^ expo l) = expo l + ctz S) by (rewrite ctz_mul_p2 by exact HS; lia).
        rewrite Ec.
        assert (Hnz : S * 2 ^ expo l <> 0) by (pose proof (p2_pos (expo l)); nia).
        destruct (N.eqb_spec (S * 2 ^ expo l) 0); [contradiction|]. reflexivity. }
  cbv zeta. destruct (N.ltb_spec (expo b) (expo a)) as [Hsw|Hns].
  - destruct (Main b a Hb Ha Hmb Hma ltac:(lia)) as [HI HV]. split; [exact HI|]. rewrite HV.
    destruct (val a), (val b); try reflexivity. rewrite N.add_comm. reflexivity.
  - apply (Main a b Ha Hb Hma Hmb Hns).
Qed.
