(** * [PartialEq], [Hash], [PartialOrd] of [Natural] (Num/Natural.v)

    The representation is canonical: two values satisfying the invariant are
    [nat_eqb]-equal / feed the same data to the hasher iff they denote the
    same number (NaN equals NaN, as the derived [Eq] demands), and
    [partial_cmp] is the order of the denoted numbers ([None] iff an operand
    is NaN). *)

From Coq Require Import List NArith Bool Lia.
From OxiVerif Require Import Num.Natural Num.NatBase Num.NaturalProofs.
Import ListNotations.
Local Open Scope N_scope.

Arguments N.add : simpl never.
Arguments N.sub : simpl never.
Arguments N.mul : simpl never.
Arguments N.div : simpl never.
Arguments N.modulo : simpl never.
Arguments N.pow : simpl never.
Arguments N.min : simpl never.
Arguments N.max : simpl never.
Arguments N.shiftl : simpl never.
Arguments N.shiftr : simpl never.
Arguments N.lor : simpl never.
Arguments N.size : simpl never.

(** ** Digit lists with the same value *)

Lemma digits_val_inj : forall l r, length l = length r -> inr l -> inr r ->
  digits_val l = digits_val r -> l = r.
Proof.
  induction l as [|a l IH]; intros r Hlen Hl Hr E.
  - destruct r; [reflexivity | discriminate].
  - destruct r as [|b r]; [discriminate|].
    apply inr_inv in Hl. destruct Hl as [Ha Hl]. apply inr_inv in Hr. destruct Hr as [Hb Hr].
    rewrite !digits_val_cons in E.
    assert (Eab : a = b).
    { assert (Em : (a + B64 * digits_val l) mod B64 = (b + B64 * digits_val r) mod B64) by (rewrite E; reflexivity).
      rewrite !(N.mul_comm B64), !N.mod_add, !N.mod_small in Em by (assumption || discriminate). exact Em. }
    subst b. f_equal. apply IH; [simpl in Hlen; lia | assumption | assumption|].
    unfold B64 in E. lia.
Qed.

Lemma canon_digits_eq : forall l r, inr l -> inr r -> l <> [] -> r <> [] ->
  last l 0 <> 0 -> last r 0 <> 0 -> digits_val l = digits_val r -> l = r.
Proof.
  intros l r Hl Hr Nl Nr Ll Lr E.
  assert (X : forall l r, inr l -> inr r -> l <> [] -> r <> [] -> last l 0 <> 0 -> last r 0 <> 0 ->
    digits_val l = digits_val r -> ~ lenN l < lenN r).
  { clear. intros l r Hl Hr Nl Nr Ll Lr E Hlt.
    pose proof (digits_val_lt l Hl) as H1. pose proof (digits_val_ge_last r Nr) as H2.
    rewrite B64_pow in H1, H2.
    pose proof (p2_le (64 * lenN l) (64 * (lenN r - 1)) ltac:(lia)) as H3.
    pose proof (p2_pos (64 * (lenN r - 1))). nia. }
  apply digits_val_inj; try assumption.
  pose proof (X l r Hl Hr Nl Nr Ll Lr E). pose proof (X r l Hr Hl Nr Nl Lr Ll (eq_sym E)).
  unfold lenN in *. lia.
Qed.

Lemma list_eqb_eq : forall l r, list_eqb l r = true <-> l = r.
Proof.
  induction l as [|a l IH]; intros [|b r]; simpl; split; intros H; try reflexivity; try discriminate.
  - apply andb_prop in H. destruct H as [H1 H2]. apply N.eqb_eq in H1. apply IH in H2. subst. reflexivity.
  - inversion H; subst. rewrite N.eqb_refl. simpl. apply IH. reflexivity.
Qed.

(** ** [mantissa()] *)

Lemma mantissa_spec : forall n, Inv n ->
  inr (mantissa n) /\ mantissa n <> [] /\ digits_val (mantissa n) = mval n /\
  (mval n <> 0 -> last (mantissa n) 0 <> 0) /\ (mval n = 0 -> mantissa n = [0]).
Proof.
  intros n H. pose proof (inv_inr n H) as Hr. pose proof (inv_ne n H) as Hne.
  pose proof (inv_big n H) as Hb. unfold mantissa, mval in *.
  destruct (digits n) as [|d0 [|d1 l]]; [contradiction| |].
  - rewrite digits_val_single. repeat split; try assumption; try discriminate.
    + intros Hd. exact Hd.
    + intros ->. reflexivity.
  - set (ds := d0 :: d1 :: l) in *. destruct (Hb (length_ge2 _ _ _ _)) as [Hb1 Hb2].
    assert (Hds : ds <> []) by discriminate.
    destruct (N.eqb_spec (last ds 0) 0) as [Hz|Hnz].
    + pose proof (digits_val_last ds Hds) as E. rewrite Hz, N.mul_0_r, N.add_0_r in E.
      set (ds' := removelast ds) in *.
      assert (Hds' : ds' <> []) by (unfold ds', ds; simpl; destruct l; discriminate).
      assert (Hr' : inr ds') by (apply inr_removelast; exact Hr).
      repeat split; try assumption; try (symmetry; exact E).
      * intros _ Hl0. pose proof (digits_val_lt_last ds' Hds' Hr') as Hlt.
        rewrite Hl0, N.add_0_l, N.mul_1_r, B64_pow in Hlt.
        pose proof (lenN_removelast ds Hds) as El. fold ds' in El.
        assert (Hlen : 2 <= lenN ds) by (unfold ds; rewrite !lenN_cons; lia).
        pose proof (p2_le (64 * (lenN ds' - 1)) (64 * lenN ds - 65) ltac:(lia)). lia.
      * intros Hc. unfold B64 in Hb1. lia.
    + repeat split; try assumption.
      * intros _. exact Hnz.
      * intros Hc. unfold B64 in Hb1. lia.
Qed.

(** ** The representation is canonical *)

Lemma canon : forall a b, Inv a -> Inv b -> expo a <> U64MAX -> expo b <> U64MAX ->
  (val a = val b <-> expo a = expo b /\ mantissa a = mantissa b).
Proof.
  intros a b Ha Hb Ea Eb. rewrite (val_some a Ea), (val_some b Eb).
  destruct (mantissa_spec a Ha) as [Ra [Na [Va [La Za]]]].
  destruct (mantissa_spec b Hb) as [Rb [Nb [Vb [Lb Zb]]]].
  split.
  - intros E. inversion E as [E']. clear E.
    destruct (N.eq_dec (mval a) 0) as [Hza|Hnza].
    + assert (Hzb : mval b = 0).
      { rewrite Hza, N.mul_0_l in E'. pose proof (p2_pos (expo b)). nia. }
      split.
      * destruct (inv_zero a Ha Hza); [|contradiction]. destruct (inv_zero b Hb Hzb); [|contradiction]. congruence.
      * rewrite (Za Hza), (Zb Hzb). reflexivity.
    + assert (Hnzb : mval b <> 0).
      { intros Hzb. rewrite Hzb, N.mul_0_l in E'. pose proof (p2_pos (expo a)). nia. }
      destruct (odd_p2_unique _ _ _ _ (inv_odd a Ha Hnza) (inv_odd b Hb Hnzb) E') as [Em Ee].
      split; [exact Ee|]. apply canon_digits_eq; auto. congruence.
  - intros [Ee Em]. rewrite <- Va, <- Vb, Em, Ee. reflexivity.
Qed.

(** [==]: equal iff the same number (or both NaN) *)
Theorem nat_eqb_spec : forall a b, Inv a -> Inv b -> (nat_eqb a b = true <-> val a = val b).
Proof.
  intros a b Ha Hb. unfold nat_eqb, is_nan.
  destruct (N.eqb_spec (expo a) (expo b)) as [Ee|Ene]; simpl negb; cbv iota.
  - destruct (N.eqb_spec (expo a) U64MAX) as [Ea|Ea].
    + rewrite (val_nan a Ea), (val_nan b ltac:(congruence)). split; reflexivity.
    + assert (Eb : expo b <> U64MAX) by congruence. rewrite list_eqb_eq, (canon a b Ha Hb Ea Eb).
      split; [intros Em; split; assumption | intros [_ Em]; exact Em].
  - split; [discriminate|]. intros E. exfalso.
    destruct (N.eq_dec (expo a) U64MAX) as [Ea|Ea].
    + rewrite (val_nan a Ea) in E. assert (Eb : expo b <> U64MAX) by congruence.
      rewrite (val_some b Eb) in E. discriminate.
    + destruct (N.eq_dec (expo b) U64MAX) as [Eb|Eb].
      * rewrite (val_nan b Eb), (val_some a Ea) in E. discriminate.
      * apply (canon a b Ha Hb Ea Eb) in E. destruct E. contradiction.
Qed.

(** [Hash]: the same data is hashed iff the same number (or both NaN) *)
Theorem hash_key_spec : forall a b, Inv a -> Inv b -> (hash_key a = hash_key b <-> val a = val b).
Proof.
  intros a b Ha Hb. unfold hash_key, is_nan.
  destruct (N.eqb_spec (expo a) U64MAX) as [Ea|Ea]; destruct (N.eqb_spec (expo b) U64MAX) as [Eb|Eb].
  - rewrite (val_nan a Ea), (val_nan b Eb). split; reflexivity.
  - rewrite (val_nan a Ea), (val_some b Eb). split; discriminate.
  - rewrite (val_nan b Eb), (val_some a Ea). split; discriminate.
  - rewrite (canon a b Ha Hb Ea Eb). split.
    + intros E. split; congruence.
    + intros [E1 E2]. rewrite E1, E2. reflexivity.
Qed.

(** ** Comparison *)

Lemma compare_mul_r : forall a b c, 0 < c -> (a * c ?= b * c) = (a ?= b).
Proof.
  intros a b c Hc. destruct (N.compare_spec a b) as [->|Hlt|Hgt].
  - apply N.compare_refl.
  - apply N.compare_lt_iff. nia.
  - apply N.compare_gt_iff. nia.
Qed.

Lemma size_lt_lt : forall x y, N.size x < N.size y -> x < y.
Proof.
  intros x y H. pose proof (N.size_gt x) as Hx.
  assert (Hy : 2 ^ N.size x <= y) by (apply size_gt_iff; exact H). lia.
Qed.

(** the value of a most-significant-digit-first list *)
Definition bev (l : list N) : N := digits_val (rev l).

Lemma bev_cons : forall a l, bev (a :: l) = bev l + B64 ^ lenN l * a.
Proof.
  intros a l. unfold bev. simpl rev. rewrite digits_val_app, digits_val_single.
  unfold lenN. rewrite rev_length. reflexivity.
Qed.

Lemma inr_rev : forall l, inr l -> inr (rev l).
Proof. intros l H. apply Forall_rev. exact H. Qed.

Lemma bev_lt : forall l, inr l -> bev l < B64 ^ lenN l.
Proof.
  intros l H. unfold bev. pose proof (digits_val_lt (rev l) (inr_rev l H)) as X.
  unfold lenN in *. rewrite rev_length in X. exact X.
Qed.

Lemma bev_pos : forall l, l <> [] -> last l 0 <> 0 -> 0 < bev l.
Proof.
  intros l Hne Hl. unfold bev. rewrite (app_removelast_last 0 Hne), rev_app_distr. simpl rev. simpl app.
  rewrite digits_val_cons. lia.
Qed.

Lemma lex_lt : forall a b P X Y, X < P -> a < b -> X + a * P < Y + b * P.
Proof.
  intros a b P X Y HX Hab.
  assert (Hm : (a + 1) * P <= b * P) by (apply N.mul_le_mono_r; lia).
  rewrite N.mul_add_distr_r, N.mul_1_l in Hm. lia.
Qed.

(** the comparison loop compares the digit strings as fractions: both are
    padded with zero digits at the least significant end *)
Lemma cmp_streams_spec : forall l r n, inr l -> inr r ->
  (l <> [] -> last l 0 <> 0) -> (r <> [] -> last r 0 <> 0) ->
  lenN l <= n -> lenN r <= n ->
  cmp_streams l r = (bev l * B64 ^ (n - lenN l) ?= bev r * B64 ^ (n - lenN r)).
Proof.
  induction l as [|a l IH]; intros r n Hl Hr Ll Lr Nl Nr.
  - destruct r as [|b r].
    + simpl. reflexivity.
    + simpl cmp_streams. symmetry. apply N.compare_lt_iff.
      pose proof (bev_pos (b :: r) ltac:(discriminate) (Lr ltac:(discriminate))).
      pose proof (B64p_pos (n - lenN (b :: r))). change (bev []) with 0. nia.
  - destruct r as [|b r].
    + simpl cmp_streams. symmetry. apply N.compare_gt_iff.
      pose proof (bev_pos (a :: l) ltac:(discriminate) (Ll ltac:(discriminate))).
      pose proof (B64p_pos (n - lenN (a :: l))). change (bev []) with 0. nia.
    + apply inr_inv in Hl. destruct Hl as [Ha Hl]. apply inr_inv in Hr. destruct Hr as [Hb Hr].
      rewrite !lenN_cons in *.
      assert (Fl : bev (a :: l) * B64 ^ (n - (lenN l + 1)) =
                   bev l * B64 ^ (n - 1 - lenN l) + a * B64 ^ (n - 1)).
      { rewrite bev_cons. replace (n - (lenN l + 1)) with (n - 1 - lenN l) by lia.
        rewrite N.mul_add_distr_r. f_equal.
        replace (n - 1) with (lenN l + (n - 1 - lenN l)) at 2 by lia. rewrite N.pow_add_r. lia. }
      assert (Fr : bev (b :: r) * B64 ^ (n - (lenN r + 1)) =
                   bev r * B64 ^ (n - 1 - lenN r) + b * B64 ^ (n - 1)).
      { rewrite bev_cons. replace (n - (lenN r + 1)) with (n - 1 - lenN r) by lia.
        rewrite N.mul_add_distr_r. f_equal.
        replace (n - 1) with (lenN r + (n - 1 - lenN r)) at 2 by lia. rewrite N.pow_add_r. lia. }
      rewrite Fl, Fr.
      assert (Bl : bev l * B64 ^ (n - 1 - lenN l) < B64 ^ (n - 1)).
      { pose proof (bev_lt l Hl). replace (n - 1) with (lenN l + (n - 1 - lenN l)) at 2 by lia.
        rewrite N.pow_add_r. apply N.mul_lt_mono_pos_r; [apply B64p_pos | assumption]. }
      assert (Br : bev r * B64 ^ (n - 1 - lenN r) < B64 ^ (n - 1)).
      { pose proof (bev_lt r Hr). replace (n - 1) with (lenN r + (n - 1 - lenN r)) at 2 by lia.
        rewrite N.pow_add_r. apply N.mul_lt_mono_pos_r; [apply B64p_pos | assumption]. }
      set (P := B64 ^ (n - 1)) in *. set (X := bev l * B64 ^ (n - 1 - lenN l)) in *.
      set (Y := bev r * B64 ^ (n - 1 - lenN r)) in *.
      simpl cmp_streams. destruct (N.compare_spec a b) as [->|Hlt|Hgt].
      * rewrite (IH r (n - 1) Hl Hr); try lia.
        -- fold X Y. destruct (N.compare_spec X Y) as [->|H1|H1].
           ++ symmetry. apply N.compare_refl.
           ++ symmetry. apply N.compare_lt_iff. lia.
           ++ symmetry. apply N.compare_gt_iff. lia.
        -- intros Hne. specialize (Ll ltac:(discriminate)). destruct l; [contradiction | exact Ll].
        -- intros Hne. specialize (Lr ltac:(discriminate)). destruct r; [contradiction | exact Lr].
      * symmetry. apply N.compare_lt_iff. apply lex_lt; assumption.
      * symmetry. apply N.compare_gt_iff. apply lex_lt; assumption.
Qed.

(** the mantissa shifted to the top of its digits *)
Lemma left_aligned_spec : forall ds, inr ds -> ds <> [] -> last ds 0 <> 0 -> N.odd (digits_val ds) = true ->
  let la := left_aligned ds in
  inr la /\ lenN la = lenN ds /\ (la <> [] -> last la 0 <> 0) /\
  bev la = digits_val ds * 2 ^ (64 * lenN ds - N.size (digits_val ds)).
Proof.
  intros ds Hr Hne Hl Ho. unfold left_aligned. rewrite lz64_eq.
  pose proof (inr_last ds Hr) as Hlast. pose proof (size_lt_B64 _ Hlast) as Hs.
  assert (Hs1 : 1 <= N.size (last ds 0)).
  { assert (N.size (last ds 0) <> 0) by (rewrite size_0_iff; exact Hl). lia. }
  set (k := 64 - N.size (last ds 0)). assert (Hk : k < 64) by (unfold k; lia).
  destruct (shl_digits_spec k ds 0 Hk (p2_pos k) Hr) as [Vs Rs].
  set (sh := shl_digits k 0 ds) in *.
  assert (Lsh : lenN sh = lenN ds + 1) by (unfold lenN, sh; rewrite shl_digits_length; lia).
  assert (Nsh : sh <> []) by (intros Hc; rewrite Hc in Lsh; rewrite lenN_nil in Lsh; lia).
  pose proof (size_digits ds Hne Hr Hl) as Sd.
  assert (Hlen : 1 <= lenN ds) by (destruct ds; [contradiction | rewrite lenN_cons; lia]).
  assert (Ek : k = 64 * lenN ds - N.size (digits_val ds)) by (unfold k; lia).
  (* the digit shifted out at the top is zero *)
  assert (Hlt : digits_val sh < B64 ^ lenN ds).
  { rewrite Vs, N.add_0_l, B64_pow, N.mul_comm. apply size_le_iff.
    rewrite size_mul_p2 by (apply odd_nz; exact Ho). lia. }
  pose proof (digits_val_last sh Nsh) as E. rewrite Lsh in E. replace (lenN ds + 1 - 1) with (lenN ds) in E by lia.
  assert (Htop : last sh 0 = 0).
  { destruct (N.eq_dec (last sh 0) 0) as [|Hnz]; [assumption|exfalso].
    assert (B64 ^ lenN ds * 1 <= B64 ^ lenN ds * last sh 0) by (apply N.mul_le_mono_l; lia). lia. }
  rewrite Htop, N.mul_0_r, N.add_0_r in E.
  set (la := removelast sh) in *.
  assert (Rla : inr la) by (apply inr_removelast; exact Rs).
  assert (Lla : lenN la = lenN ds) by (unfold la; rewrite lenN_removelast by exact Nsh; lia).
  split; [apply inr_rev; exact Rla|]. split; [unfold lenN in *; rewrite rev_length; exact Lla|].
  split.
  - (* the least significant digit is not zero: the mantissa is odd and k < 64 *)
    intros _. destruct la as [|d0 la'] eqn:Ela.
    { rewrite lenN_nil in Lla. lia. }
    simpl rev. rewrite last_last. intros Hd0. subst d0.
    rewrite digits_val_cons, N.add_0_l in E. rewrite Vs, N.add_0_l in E.
    assert (Hc : ctz (2 ^ k * digits_val ds) = k) by (rewrite N.mul_comm; apply ctz_unique; exact Ho).
    assert (Hnz : 2 ^ k * digits_val ds <> 0) by (pose proof (p2_pos k); pose proof (odd_nz _ Ho); nia).
    assert (Hd : (2 ^ k * digits_val ds) mod 2 ^ 64 = 0).
    { rewrite E, B64_eq, N.mul_comm. apply N.mod_mul. apply p2_nz. }
    apply (mod_p2_ctz _ _ Hnz) in Hd. lia.
  - unfold bev. rewrite rev_involutive, <- E, Vs, <- Ek. lia.
Qed.

(** [partial_cmp]: the order of the denoted numbers *)
Theorem partial_cmp_spec : forall a b, Inv a -> Inv b ->
  partial_cmp a b =
    match val a, val b with
    | Some x, Some y => Some (x ?= y)
    | _, _ => None
    end.
Proof.
  intros a b Ha Hb. unfold partial_cmp, is_nan.
  destruct (N.eqb_spec (expo a) U64MAX) as [Ea|Ea]; [rewrite (val_nan a Ea); reflexivity|].
  destruct (N.eqb_spec (expo b) U64MAX) as [Eb|Eb]; [rewrite (val_nan b Eb); destruct (val a); reflexivity|].
  simpl orb. cbv iota. rewrite (val_some a Ea), (val_some b Eb).
  destruct (mantissa_spec a Ha) as [Ra [Na [Va [La Za]]]].
  destruct (mantissa_spec b Hb) as [Rb [Nb [Vb [Lb Zb]]]].
  set (x := mval a * 2 ^ expo a). set (y := mval b * 2 ^ expo b).
  (* the bit widths computed from the stripped mantissas *)
  assert (BW : forall n, Inv n -> expo n <> U64MAX ->
    bit_width_digits (mantissa n) (expo n) = N.size (mval n * 2 ^ expo n)).
  { clear. intros n H E. destruct (mantissa_spec n H) as [R [Nn [V [L Z]]]].
    destruct (N.eq_dec (mval n) 0) as [Hz|Hnz].
    - rewrite (Z Hz), Hz, N.mul_0_l. destruct (inv_zero n H Hz) as [->|]; [reflexivity | contradiction].
    - rewrite bit_width_digits_spec; try assumption.
      + rewrite V. symmetry. apply size_mul_p2. exact Hnz.
      + right. pose proof (digits_val_ge_last (mantissa n) Nn) as Hge. rewrite B64_pow in Hge.
        specialize (L Hnz).
        assert (Hlen : 1 <= lenN (mantissa n)) by (destruct (mantissa n); [contradiction | rewrite lenN_cons; lia]).
        pose proof (p2_le (64 * lenN (mantissa n) - 65) (64 * (lenN (mantissa n) - 1)) ltac:(lia)).
        pose proof (p2_pos (64 * (lenN (mantissa n) - 1))). nia. }
  rewrite (BW a Ha Ea), (BW b Hb Eb). fold x y.
  destruct (N.eqb_spec (N.size x) (N.size y)) as [Es|Ens]; simpl negb; cbv iota.
  2:{ f_equal. destruct (N.compare_spec (N.size x) (N.size y)) as [|Hlt|Hgt]; [contradiction| |].
      - symmetry. apply N.compare_lt_iff. apply size_lt_lt. exact Hlt.
      - symmetry. apply N.compare_gt_iff. apply size_lt_lt. exact Hgt. }
  destruct (N.eqb_spec (N.size x) 0) as [E0|N0].
  { f_equal. symmetry. apply N.compare_eq_iff.
    apply (proj1 (size_0_iff x)) in E0. rewrite E0 in Es. symmetry in Es.
    apply (proj1 (size_0_iff y)) in Es. congruence. }
  f_equal.
  assert (Hx : x <> 0) by (rewrite <- size_0_iff; exact N0).
  assert (Hy : y <> 0) by (rewrite <- size_0_iff; congruence).
  assert (Hma : mval a <> 0) by (intros Hz; unfold x in Hx; rewrite Hz in Hx; lia).
  assert (Hmb : mval b <> 0) by (intros Hz; unfold y in Hy; rewrite Hz in Hy; lia).
  pose proof (inv_odd a Ha Hma) as Oa. pose proof (inv_odd b Hb Hmb) as Ob.
  rewrite <- Va in Oa. rewrite <- Vb in Ob.
  destruct (left_aligned_spec (mantissa a) Ra Na (La Hma) Oa) as [RA [LA [NA VA]]].
  destruct (left_aligned_spec (mantissa b) Rb Nb (Lb Hmb) Ob) as [RB [LB [NB VB]]].
  set (n := N.max (lenN (mantissa a)) (lenN (mantissa b))).
  rewrite (cmp_streams_spec _ _ n RA RB NA NB) by (unfold n; lia).
  rewrite VA, VB, LA, LB, Va, Vb.
  (* both sides times 2^S are x resp. y times 2^(64 n) *)
  set (S := N.size x).
  assert (Sx : N.size (mval a) + expo a = S) by (unfold S, x; symmetry; apply size_mul_p2; exact Hma).
  assert (Sy : N.size (mval b) + expo b = S) by (unfold S; rewrite Es; unfold y; symmetry; apply size_mul_p2; exact Hmb).
  assert (Sa : N.size (mval a) <= 64 * lenN (mantissa a)).
  { apply size_le_iff. rewrite <- B64_pow, <- Va. apply digits_val_lt. exact Ra. }
  assert (Sb : N.size (mval b) <= 64 * lenN (mantissa b)).
  { apply size_le_iff. rewrite <- B64_pow, <- Vb. apply digits_val_lt. exact Rb. }
  rewrite <- (compare_mul_r _ _ (2 ^ S) (p2_pos S)).
  rewrite <- (compare_mul_r x y (2 ^ (64 * n)) (p2_pos _)).
  f_equal.
  - unfold x. rewrite !B64_pow, <- !N.mul_assoc, <- !p2_add. f_equal. f_equal. unfold n. lia.
  - unfold y. rewrite !B64_pow, <- !N.mul_assoc, <- !p2_add. f_equal. f_equal. unfold n. lia.
Qed.
