(** * [impl fmt::Display for Natural]: the decimal digits
      (/repo/crates/oxidd-core/src/util/num/bigint.rs, [Display::fmt]:
      [match UBig::try_from(self) { Ok(num) => num.fmt(f), Err(_) => fmt_nan(f) }])

    Executable Gallina only (proofs: Num/NaturalDecProofs.v).  The conversion
    to [dashu_int::UBig] is [Natural.fmt_dec] (Num/Natural.v); the digits are
    written by [dashu_int]'s [Display], an external library whose algorithm
    is not modelled: [dec_digits] is its specification (the decimal digits of
    the number, most significant first, no leading zeros, [0] for 0), tied
    to the code by the correspondence run. *)
From Coq Require Import List NArith.
From OxiVerif Require Import Num.Natural.
Import ListNotations.
Local Open Scope N_scope.

Fixpoint dec_digits_fuel (fuel : nat) (v : N) (acc : list N) : list N :=
  match fuel with
  | O => acc
  | S f => if v <? 10 then v :: acc else dec_digits_fuel f (v / 10) (v mod 10 :: acc)
  end.

(** [UBig]'s decimal text as a list of digit values *)
Definition dec_digits (v : N) : list N := dec_digits_fuel (S (N.to_nat (N.size v))) v [].

(** [Display]: [None] is the text [?] (NaN, or an exponent above [2^40]) *)
Definition fmt_dec_digits (a : natural) : option (list N) := option_map dec_digits (fmt_dec a).
