(** * [Display] of a [Natural] writes the decimal digits of the denoted number
      (Num/NaturalDec.v; the conversion [fmt_dec] is proved in
      Num/NaturalTextProofs.v, [fmt_dec_spec]) *)
From Coq Require Import List NArith Bool Lia.
From OxiVerif Require Import Num.Natural Num.NatBase Num.NaturalProofs Num.NaturalTextProofs.
From OxiVerif Require Import Num.NaturalDec.
Import ListNotations.
Local Open Scope N_scope.

Arguments N.add : simpl never.
Arguments N.sub : simpl never.
Arguments N.mul : simpl never.
Arguments N.div : simpl never.
Arguments N.modulo : simpl never.
Arguments N.pow : simpl never.
Arguments N.size : simpl never.

Lemma base_val_app : forall b l r, base_val b (l ++ r) = base_val b l * b ^ lenN r + base_val b r.
Proof.
  intros b l r. unfold base_val at 1. unfold base_acc. rewrite fold_left_app.
  fold (base_acc b l 0). fold (base_acc b r (base_acc b l 0)). rewrite base_acc_lin. reflexivity.
Qed.

(** the loop: [acc] holds the digits already produced (the low end) *)
Lemma dec_fuel_spec : forall f v acc, v < 10 ^ N.of_nat f -> is_digits 10 acc ->
  let ds := dec_digits_fuel f v acc in
  base_val 10 ds = v * 10 ^ lenN acc + base_val 10 acc /\ is_digits 10 ds /\
  (f <> O -> exists d t, ds = d :: t /\ (v <> 0 -> d <> 0) /\ (v = 0 -> ds = 0 :: acc)).
Proof.
  induction f as [|f IH]; intros v acc Hv Hacc; cbv zeta.
  - change (10 ^ N.of_nat 0) with 1 in Hv. assert (v = 0) by lia. subst v. simpl.
    split; [lia|]. split; [exact Hacc | intros C; contradiction].
  - simpl dec_digits_fuel. destruct (N.ltb_spec v 10) as [Hs|Hb].
    + split; [|split].
      * rewrite base_val_cons. reflexivity.
      * constructor; assumption.
      * intros _. exists v, acc. split; [reflexivity|]. split; [auto | intros ->; reflexivity].
    + assert (Hq : v / 10 < 10 ^ N.of_nat f).
      { rewrite Nat2N.inj_succ, N.pow_succ_r' in Hv. apply N.div_lt_upper_bound; lia. }
      assert (Hm : v mod 10 < 10) by (apply N.mod_lt; lia).
      assert (Hacc' : is_digits 10 (v mod 10 :: acc)) by (constructor; assumption).
      destruct (IH (v / 10) (v mod 10 :: acc) Hq Hacc') as [V [D X]].
      split; [|split].
      * rewrite V, base_val_cons, lenN_cons, N.pow_add_r, N.pow_1_r.
        pose proof (N.div_mod v 10 ltac:(lia)) as E. set (P := 10 ^ lenN acc) in *.
        set (q := v / 10) in *. set (r := v mod 10) in *. rewrite E. lia.
      * exact D.
      * intros _. assert (Hq0 : v / 10 <> 0).
        { intros C. apply N.div_small_iff in C; lia. }
        destruct f as [|f'].
        { exfalso. change (10 ^ N.of_nat 0) with 1 in Hq. lia. }
        destruct (X ltac:(discriminate)) as [d [t [E [Hd _]]]].
        exists d, t. split; [exact E|]. split; [intros _; apply Hd; exact Hq0 | intros ->; lia].
Qed.

Lemma lt_pow10_size : forall v, v < 10 ^ N.of_nat (S (N.to_nat (N.size v))).
Proof.
  intros v. rewrite Nat2N.inj_succ, N2Nat.id, N.pow_succ_r'.
  pose proof (N.size_gt v) as H.
  assert (2 ^ N.size v <= 10 ^ N.size v) by (apply N.pow_le_mono_l; lia).
  pose proof (p2_pos (N.size v)). lia.
Qed.

(** the decimal digits of [v]: their value is [v], every digit is below 10,
    no leading zero ([[0]] for 0) *)
Theorem dec_digits_spec : forall v,
  base_val 10 (dec_digits v) = v /\ is_digits 10 (dec_digits v) /\
  (v = 0 -> dec_digits v = [0]) /\ (v <> 0 -> hd 0 (dec_digits v) <> 0).
Proof.
  intros v. unfold dec_digits.
  destruct (dec_fuel_spec (S (N.to_nat (N.size v))) v [] (lt_pow10_size v) ltac:(constructor)) as [V [D X]].
  destruct (X ltac:(discriminate)) as [d [t [E [Hd Hz]]]].
  split; [|split; [exact D|split]].
  - rewrite V, lenN_nil, N.pow_0_r, base_val_nil. lia.
  - exact Hz.
  - intros Hnz. rewrite E. simpl. apply Hd. exact Hnz.
Qed.

(** [Display]: [?] (modelled as [None]) for NaN and for exponents above
    [2^40] (the limit in [TryFrom<&Natural> for UBig]); otherwise the decimal
    digits of the denoted number *)
Theorem fmt_dec_digits_spec : forall a, Inv a ->
  match val a with
  | None => fmt_dec_digits a = None
  | Some v =>
    if expo a <=? 2 ^ 40 then
      exists ds, fmt_dec_digits a = Some ds /\ base_val 10 ds = v /\ is_digits 10 ds /\
        (v = 0 -> ds = [0]) /\ (v <> 0 -> hd 0 ds <> 0)
    else fmt_dec_digits a = None
  end.
Proof.
  intros a H. unfold fmt_dec_digits. rewrite (fmt_dec_spec a H).
  destruct (val a) as [v|]; [|reflexivity].
  destruct (expo a <=? 2 ^ 40); [|reflexivity].
  exists (dec_digits v). split; [reflexivity|]. apply dec_digits_spec.
Qed.

Example ex_fmt_dec_digits :
  fmt_dec_digits (from_u64 1200) = Some [1; 2; 0; 0] /\ fmt_dec_digits (from_u64 0) = Some [0] /\
  fmt_dec_digits (mkNat [3] U64MAX) = None /\ fmt_dec_digits (mkNat [1] (2 ^ 40 + 1)) = None /\
  fmt_dec_digits (from_u128 (2 ^ 64)) = Some [1; 8; 4; 4; 6; 7; 4; 4; 0; 7; 3; 7; 0; 9; 5; 5; 1; 6; 1; 6] /\
  fmt_dec_digits (mkNat [3] 5) = Some [9; 6].
Proof. vm_compute. repeat split; reflexivity. Qed.

(** the examples of the text theorems in one statement (coq/Props/C12.v) *)
Example ex_text :
  (fmt_oct (from_u64 10) = Some [1; 2] /\ fmt_hex (from_u64 0) = Some [0] /\
   fmt_oct (mkNat [3] U64MAX) = None /\ fmt_hex (mkNat [3] U64MAX) = None /\
   fmt_hex (mkNat [3] 5) = Some [6; 0] /\ fmt_oct (mkNat [5] 7) = Some [1; 2; 0; 0]) /\
  (fmt_dec_digits (from_u64 1200) = Some [1; 2; 0; 0] /\ fmt_dec_digits (from_u64 0) = Some [0] /\
   fmt_dec_digits (mkNat [3] U64MAX) = None /\ fmt_dec_digits (mkNat [1] (2 ^ 40 + 1)) = None /\
   fmt_dec_digits (mkNat [3] 5) = Some [9; 6]) /\
  (Inv (mkNat [1; 1; 1] 2) /\ val (mkNat [1; 1; 1] 2) = Some ((1 + 2 ^ 64 + 2 ^ 128) * 4)).
Proof.
  refine (conj _ (conj _ ex_inv_three_digits)).
  - destruct ex_fmt_pow2 as (A & B & C & D & _ & _ & E & F & _). repeat split; assumption.
  - destruct ex_fmt_dec_digits as (A & B & C & D & _ & E). repeat split; assumption.
Qed.
