(** * [Natural::from_le_digits] (Num/Natural.v, [from_le_digits])

    [from_le_digits_spec]: for every list of u64 digits the result satisfies
    the invariant and denotes the number given by the digits -- or NaN when
    the number of trailing zero bits is not below [u64::MAX] (only possible
    for lists of more than 2^57 digits). *)

From Coq Require Import List NArith Bool Lia Arith.
From OxiVerif Require Import Num.Natural Num.NatBase Num.NaturalProofs Num.NaturalAddProofs.
Import ListNotations.
Local Open Scope N_scope.

Arguments N.add : simpl never.
Arguments N.sub : simpl never.
Arguments N.mul : simpl never.
Arguments N.div : simpl never.
Arguments N.modulo : simpl never.
Arguments N.pow : simpl never.
Arguments N.min : simpl never.
Arguments N.max : simpl never.
Arguments N.shiftl : simpl never.
Arguments N.shiftr : simpl never.
Arguments N.lor : simpl never.
Arguments N.size : simpl never.

(** an odd mantissa whose bit width needs exactly [len >= 2] digits *)
Lemma fit_Inv_exact : forall ds e len, inr ds -> e <= U64MAX -> N.odd (digits_val ds) = true ->
  (2 <= len)%nat -> 64 * (N.of_nat len - 1) < N.size (digits_val ds) ->
  N.size (digits_val ds) <= 64 * N.of_nat len ->
  Inv (mkNat (fit len ds) e) /\ digits_val (fit len ds) = digits_val ds.
Proof.
  intros ds e len Hr He Ho Hlen Hlo Hhi. set (M := digits_val ds) in *.
  assert (Hlt : M < B64 ^ N.of_nat len) by (rewrite B64_pow; apply size_le_iff; exact Hhi).
  pose proof (fit_val len ds Hr Hlt) as Ev. fold M in Ev. split; [|exact Ev].
  assert (Hne : fit len ds <> []).
  { intros Hc. apply (f_equal (@length N)) in Hc. rewrite fit_length in Hc. simpl in Hc. lia. }
  assert (HM : 2 ^ (64 * (N.of_nat len - 1)) <= M) by (apply size_gt_iff; exact Hlo).
  apply mk_Inv.
  - apply fit_inr. exact Hr.
  - exact Hne.
  - exact He.
  - rewrite Ev. exact Ho.
  - right. rewrite Ev. unfold lenN. rewrite fit_length. split.
    + rewrite B64_eq. pose proof (p2_le 64 (64 * (N.of_nat len - 1)) ltac:(lia)). lia.
    + pose proof (p2_le (64 * N.of_nat len - 65) (64 * (N.of_nat len - 1)) ltac:(lia)). lia.
Qed.

(** the saturating exponent computations *)
Lemma sat_exp_1 : forall t cnt, sat_add64 t (sat_mul64 cnt 64) = N.min (t + 64 * cnt) U64MAX.
Proof. intros. unfold sat_add64, sat_mul64. lia. Qed.

Lemma sat_exp_2 : forall t cnt, sat_add64 (sat_mul64 cnt 64) t = N.min (t + 64 * cnt) U64MAX.
Proof. intros. unfold sat_add64, sat_mul64. lia. Qed.

(** the value of a result with mantissa [M] (odd) and the saturated exponent *)
Lemma val_sat_exp : forall ds M E V, digits_val ds = M -> N.odd M = true -> V = M * 2 ^ E ->
  val (mkNat ds (N.min E U64MAX)) = norm V.
Proof.
  intros ds M E V EM Ho EV. rewrite val_mk, EM. unfold norm. subst V.
  rewrite (ctz_unique M E Ho).
  assert (Hnz : M * 2 ^ E <> 0) by (pose proof (odd_nz M Ho); pose proof (p2_pos E); nia).
  destruct (N.eqb_spec (M * 2 ^ E) 0); [contradiction|]. simpl orb.
  destruct (N.ltb_spec E U64MAX) as [Hlt|Hge].
  - rewrite N.min_l by lia. destruct (N.eqb_spec E U64MAX); [lia | reflexivity].
  - rewrite N.min_r by lia. reflexivity.
Qed.

Lemma last_app_ne : forall (l r : list N) d, r <> [] -> last (l ++ r) d = last r d.
Proof.
  induction l as [|a l IH]; intros r d Hr; [reflexivity|].
  simpl app. destruct (l ++ r) eqn:E.
  - destruct l; simpl in E; [contradiction | discriminate].
  - rewrite <- E. simpl. rewrite E. rewrite <- E. apply IH. exact Hr.
Qed.

Theorem from_le_digits_spec : forall ds, inr ds ->
  Inv (from_le_digits ds) /\ val (from_le_digits ds) = norm (digits_val ds).
Proof.
  intros ds Hr. unfold from_le_digits.
  pose proof (strip_msd_val ds) as V1. pose proof (strip_msd_inr ds Hr) as R1.
  pose proof (strip_msd_last ds) as L1. set (ds1 := strip_msd_zeros ds) in *.
  destruct (strip_lsd_zeros ds1) as [cnt ds2] eqn:Est.
  pose proof (strip_lsd_val ds1 cnt ds2 Est) as V2. pose proof (strip_lsd_inr ds1 cnt ds2 Est R1) as R2.
  destruct (strip_lsd_spec ds1 cnt ds2 Est) as [E1 Hhd].
  rewrite V1 in V2. set (V := digits_val ds) in *.
  destruct ds2 as [|lsd rest].
  { (* zero *) change (digits_val []) with 0 in V2. rewrite N.mul_0_r in V2. rewrite V2.
    split; [exact Inv_ZERO | reflexivity]. }
  destruct Hhd as [Hhd|Hhd]; [discriminate|]. simpl hd in Hhd.
  assert (Rlsd : lsd < B64) by (apply inr_inv in R2; apply R2).
  set (t := ctz lsd).
  assert (Ht : t < 64).
  { pose proof (ctz_lt_size lsd Hhd). pose proof (size_lt_B64 lsd Rlsd). fold t in H. lia. }
  (* the last digit of ds2 is not zero *)
  assert (Hlast : last (lsd :: rest) 0 <> 0).
  { destruct L1 as [L1|L1].
    - rewrite L1 in E1. destruct (repeat 0 (N.to_nat cnt)); discriminate.
    - rewrite E1 in L1. rewrite last_app_ne in L1 by discriminate. exact L1. }
  destruct rest as [|d1 rest'].
  - (* one digit *)
    rewrite sat_exp_1, shr64_eq. fold t.
    destruct (ctz_div_odd lsd Hhd) as [Ho E]. fold t in Ho, E.
    assert (Hle : lsd / 2 ^ t <= lsd) by (apply N.div_le_upper_bound; [apply p2_nz | pose proof (p2_pos t); nia]).
    split.
    + apply mk_Inv.
      * apply inr_cons; [lia | apply inr_nil].
      * discriminate.
      * lia.
      * rewrite digits_val_single. exact Ho.
      * left. reflexivity.
    + apply (val_sat_exp _ (lsd / 2 ^ t)); [apply digits_val_single | exact Ho|].
      rewrite V2, digits_val_single, B64_pow, p2_add. rewrite E at 1. lia.
  - (* several digits *)
    set (ds2 := lsd :: d1 :: rest') in *.
    assert (N2 : ds2 <> []) by discriminate.
    set (msd := last ds2 0) in *.
    assert (Rmsd : msd < B64) by (apply inr_last; exact R2).
    set (L := lenN ds2). assert (HL : 2 <= L) by (unfold L, ds2; rewrite !lenN_cons; lia).
    pose proof (size_digits ds2 N2 R2 Hlast) as Sz. fold L msd in Sz.
    set (sm := N.size msd) in *.
    assert (Hsm : 1 <= sm <= 64).
    { split; [|apply size_lt_B64; exact Rmsd].
      assert (sm <> 0) by (unfold sm; rewrite size_0_iff; exact Hlast). lia. }
    (* the odd part *)
    assert (VR : digits_val ds2 = lsd + 2 ^ 64 * digits_val (d1 :: rest')) by (unfold ds2; rewrite digits_val_cons, B64_eq; reflexivity).
    assert (HB64 : lsd < 2 ^ 64) by (rewrite <- B64_eq; exact Rlsd).
    destruct (odd_part_low lsd (digits_val (d1 :: rest')) 64 Hhd HB64) as [OM EM0].
    fold t in OM, EM0. rewrite <- VR in OM, EM0. set (M := digits_val ds2 / 2 ^ t) in *.
    assert (EV : V = M * 2 ^ (t + 64 * cnt)).
    { rewrite V2, EM0, B64_pow, p2_add. lia. }
    destruct (N.eqb_spec t 0) as [Et|Et].
    + (* the digits are used as they are *)
      assert (EM : M = digits_val ds2) by (unfold M; rewrite Et; change (2 ^ 0) with 1; apply N.div_1_r).
      replace (sat_mul64 cnt 64) with (N.min (t + 64 * cnt) U64MAX) by (unfold sat_mul64; lia).
      split.
      * apply mk_Inv.
        -- exact R2.
        -- exact N2.
        -- lia.
        -- rewrite <- EM. exact OM.
        -- right. pose proof (digits_val_ge_last ds2 N2) as Hge. fold L msd in Hge. rewrite B64_pow in Hge.
           pose proof (p2_pos (64 * (L - 1))).
           split.
           ++ rewrite B64_eq. pose proof (p2_le 64 (64 * (L - 1)) ltac:(lia)). nia.
           ++ fold L. pose proof (p2_le (64 * L - 65) (64 * (L - 1)) ltac:(lia)). nia.
      * apply (val_sat_exp _ M); [symmetry; exact EM | exact OM | exact EV].
    + rewrite sat_exp_2. rewrite lz64_eq. fold sm.
      assert (SM : N.size M = 64 * (L - 1) + sm - t) by (unfold M; rewrite size_div_p2, Sz; reflexivity).
      set (q := (t + (64 - sm)) / 64).
      assert (Hq : (t < sm /\ q = 0) \/ (sm <= t /\ q = 1)).
      { unfold q. destruct (N.lt_ge_cases t sm) as [Hlt|Hge].
        - left. split; [exact Hlt|]. apply N.div_small. lia.
        - right. split; [exact Hge|].
          assert (Hq1 : (t + (64 - sm)) / 64 < 2) by (apply N.div_lt_upper_bound; lia).
          assert (Hq2 : 1 <= (t + (64 - sm)) / 64) by (apply N.div_le_lower_bound; lia). lia. }
      assert (Elen : N.of_nat (length ds2 - N.to_nat q) = L - q).
      { rewrite Nat2N.inj_sub, N2Nat.id. reflexivity. }
      destruct (shr_digits_spec t ds2 Ht R2) as [Vsh Rsh]. fold M in Vsh.
      destruct (Nat.eqb_spec (length ds2 - N.to_nat q) 1) as [E1len|N1len].
      * (* one digit: two input digits, the upper one moves into the lower *)
        assert (Hq' : sm <= t /\ q = 1 /\ L = 2).
        { rewrite E1len in Elen. change (N.of_nat 1) with 1 in Elen. destruct Hq as [[? ?]|[? ?]]; lia. }
        destruct Hq' as [Hst [_ HL2]].
        assert (Er : rest' = []).
        { unfold L, ds2 in HL2. rewrite !lenN_cons in HL2. destruct rest'; [reflexivity|]. rewrite lenN_cons in HL2. lia. }
        subst rest'. assert (Emsd : msd = d1) by reflexivity.
        assert (Hmsd : msd < 2 ^ t).
        { pose proof (N.size_gt msd). fold sm in H. pose proof (p2_le sm t Hst). lia. }
        assert (HP : 2 ^ 64 = 2 ^ (64 - t) * 2 ^ t) by (rewrite <- p2_add; f_equal; lia).
        assert (ED : N.lor (rotr64 msd t) (shr64 lsd t) = M).
        { unfold rotr64. destruct (N.eqb_spec t 0); [contradiction|].
          rewrite !shr64_eq, shl64_eq by lia. replace (64 - (64 - t)) with t by lia.
          rewrite (N.div_small msd (2 ^ t) Hmsd), N.lor_0_l, (N.mod_small msd (2 ^ t) Hmsd).
          assert (Hlq : lsd / 2 ^ t < 2 ^ (64 - t)).
          { apply div_p2_lt. replace (t + (64 - t)) with 64 by lia. exact HB64. }
          rewrite (lor_disjoint _ _ _ Hlq). unfold M, ds2. rewrite digits_val_cons, digits_val_single, <- Emsd, B64_eq, HP.
          replace (lsd + 2 ^ (64 - t) * 2 ^ t * msd) with (lsd + (msd * 2 ^ (64 - t)) * 2 ^ t) by lia.
          rewrite N.div_add by apply p2_nz. lia. }
        rewrite ED.
        assert (HM64 : M < B64).
        { rewrite B64_eq. apply size_le_iff. rewrite SM, HL2. lia. }
        split.
        -- apply mk_Inv.
           ++ apply inr_cons; [exact HM64 | apply inr_nil].
           ++ discriminate.
           ++ lia.
           ++ rewrite digits_val_single. exact OM.
           ++ left. reflexivity.
        -- apply (val_sat_exp _ M); [apply digits_val_single | exact OM | exact EV].
      * set (len := (length ds2 - N.to_nat q)%nat) in *.
        assert (Hlen2 : (2 <= len)%nat).
        { destruct Hq as [[_ Hq0]|[_ Hq1]]; [rewrite Hq0 in Elen | rewrite Hq1 in Elen]; lia. }
        destruct (fit_Inv_exact (shr_digits t ds2) (N.min (t + 64 * cnt) U64MAX) len Rsh ltac:(lia)) as [HI HV].
        -- rewrite Vsh. exact OM.
        -- exact Hlen2.
        -- rewrite Vsh, SM, Elen. destruct Hq as [[? ->]|[? ->]]; lia.
        -- rewrite Vsh, SM, Elen. destruct Hq as [[? ->]|[? ->]]; lia.
        -- split; [exact HI|]. apply (val_sat_exp _ M); [rewrite HV; exact Vsh | exact OM | exact EV].
Qed.
