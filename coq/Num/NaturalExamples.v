(** * A decision procedure for the invariant of [Natural] and concrete instances
      of the theorems (non-vacuity: the hypotheses hold for non-trivial values
      of every shape, and the error value arises exactly where documented) *)

From Coq Require Import List NArith Bool Lia Arith.
From OxiVerif Require Import Num.Natural Num.NatBase Num.NaturalProofs Num.NaturalAddProofs
  Num.NaturalCmpProofs Num.NaturalDigitsProofs.
Import ListNotations.
Local Open Scope N_scope.

(** [Inv] as a boolean *)
Definition inv_b (n : natural) : bool :=
  forallb (fun d => d <? B64) (digits n) &&
  negb (match digits n with [] => true | _ => false end) &&
  (expo n <=? U64MAX) &&
  (if mval n =? 0 then (expo n =? 0) || (expo n =? U64MAX) else N.odd (mval n)) &&
  (if Nat.leb 2 (length (digits n))
   then (B64 <=? mval n) && (2 ^ (64 * lenN (digits n) - 65) <=? mval n) else true).

Theorem inv_b_spec : forall n, inv_b n = true <-> Inv n.
Proof.
  intros n. unfold inv_b. split.
  - intros H. repeat (apply andb_prop in H; destruct H as [H ?]).
    rename H into H1, H3 into H2, H2 into H3, H1 into H4, H0 into H5.
    constructor.
    + apply Forall_forall. intros d Hd. rewrite forallb_forall in H1. apply N.ltb_lt. apply H1. exact Hd.
    + intros Hc. rewrite Hc in H2. discriminate.
    + apply N.leb_le. exact H3.
    + intros Hz. rewrite Hz in H4. simpl in H4. apply orb_prop in H4.
      destruct H4 as [E|E]; apply N.eqb_eq in E; auto.
    + intros Hnz. destruct (N.eqb_spec (mval n) 0); [contradiction | exact H4].
    + intros Hl. destruct (Nat.leb_spec 2 (length (digits n))); [|lia].
      apply andb_prop in H5. destruct H5 as [A B]. apply N.leb_le in A. apply N.leb_le in B. split; assumption.
  - intros H. repeat (apply andb_true_intro; split).
    + apply forallb_forall. intros d Hd. apply N.ltb_lt.
      pose proof (inv_inr n H) as Hr. unfold inr in Hr. rewrite Forall_forall in Hr. apply Hr. exact Hd.
    + pose proof (inv_ne n H). destruct (digits n); [contradiction | reflexivity].
    + apply N.leb_le. apply (inv_exp n H).
    + destruct (N.eqb_spec (mval n) 0) as [Hz|Hnz].
      * destruct (inv_zero n H Hz) as [E|E]; rewrite E; reflexivity.
      * apply (inv_odd n H Hnz).
    + destruct (Nat.leb_spec 2 (length (digits n))) as [Hl|]; [|reflexivity].
      destruct (inv_big n H Hl) as [A B]. apply andb_true_intro. split; apply N.leb_le; assumption.
Qed.

(** ** Values of every shape satisfy the invariant *)

(** a heap mantissa with a zero most significant digit; an inline value with
    a large exponent; NaN with a non-zero mantissa (as left by an overflowing shift) *)
Definition ex_heap : natural := mkNat [1; 2 ^ 63; 0] 5.
Definition ex_inline : natural := mkNat [12345677] (2 ^ 40).
Definition ex_nan3 : natural := mkNat [3] U64MAX.

Example ex_inv : Inv ex_heap /\ Inv ex_inline /\ Inv ex_nan3 /\
  val ex_heap = Some ((1 + 2 ^ 127) * 32) /\ bit_width ex_heap = 133 /\
  val ex_nan3 = None /\ check_inv ex_heap = true.
Proof.
  split; [apply inv_b_spec; vm_compute; reflexivity|].
  split; [apply inv_b_spec; vm_compute; reflexivity|].
  split; [apply inv_b_spec; vm_compute; reflexivity|].
  vm_compute. repeat split; reflexivity.
Qed.

(** ** Addition *)

(** a carry across the digit boundary followed by stripping a whole zero digit:
    (2^64 - 1) + 1 = 1 * 2^64; the sum of two two-digit numbers whose low bits
    cancel; different exponents *)
Example ex_add :
  nat_add (from_u64 (2 ^ 64 - 1)) (from_u64 1) = mkNat [1] 64 /\
  val (nat_add (from_u128 (2 ^ 100 + 1)) (from_u128 (2 ^ 100 - 1))) = Some (2 ^ 101) /\
  nat_add (from_u128 (2 ^ 100 + 1)) (from_u128 (2 ^ 100 - 1)) = mkNat [1] 101 /\
  val (nat_add (nat_shl (from_u64 3) 200) (from_u64 5)) = Some (3 * 2 ^ 200 + 5) /\
  Inv (nat_add (nat_shl (from_u64 3) 200) (from_u64 5)).
Proof.
  split; [vm_compute; reflexivity|]. split; [vm_compute; reflexivity|]. split; [vm_compute; reflexivity|].
  split; [vm_compute; reflexivity|]. apply inv_b_spec. vm_compute. reflexivity.
Qed.

(** the error value arises from numbers only through exponent overflow:
    2^(u64::MAX - 1) + 2^(u64::MAX - 1) = 2^(u64::MAX) *)
Lemma pow2_nat : forall e, e < U64MAX ->
  Inv (nat_shl (from_u64 1) e) /\ val (nat_shl (from_u64 1) e) = Some (2 ^ e).
Proof.
  intros e He. destruct (from_u64_spec 1 ltac:(reflexivity)) as [I1 V1].
  destruct (nat_shl_spec (from_u64 1) e I1 ltac:(lia)) as [I2 V2].
  split; [exact I2|]. rewrite V2, V1. unfold norm.
  rewrite (ctz_unique 1 e eq_refl), N.mul_1_l.
  destruct (N.ltb_spec e U64MAX); [|lia]. rewrite orb_true_r. reflexivity.
Qed.

Lemma add_overflow_gen : forall e, 1 <= e -> e + 1 = U64MAX ->
  let x := nat_shl (from_u64 1) e in
  Inv x /\ val x = Some (2 ^ e) /\ val (nat_add x x) = None /\
  val (nat_add x (from_u64 1)) = Some (2 ^ e + 1).
Proof.
  intros e He1 He. cbv zeta. destruct (pow2_nat e ltac:(lia)) as [Ix Vx].
  split; [exact Ix|]. split; [exact Vx|].
  destruct (from_u64_spec 1 ltac:(reflexivity)) as [I1 V1].
  split.
  - destruct (nat_add_spec _ _ Ix Ix) as [_ Va]. rewrite Va, Vx. unfold norm.
    assert (E2 : 2 ^ e + 2 ^ e = 1 * 2 ^ U64MAX) by (rewrite <- He, p2_succ; lia).
    rewrite E2, (ctz_unique 1 U64MAX eq_refl), N.ltb_irrefl.
    destruct (N.eqb_spec (1 * 2 ^ U64MAX) 0) as [Hc|_]; [|reflexivity].
    pose proof (p2_pos U64MAX). lia.
  - destruct (nat_add_spec _ _ Ix I1) as [_ Va]. rewrite Va, Vx, V1. unfold norm.
    assert (Ho : N.odd (2 ^ e + 1) = true).
    { rewrite N.odd_add, N.odd_pow by lia. reflexivity. }
    rewrite (ctz_odd _ Ho). rewrite orb_true_r. reflexivity.
Qed.

Example ex_add_overflow :
  let x := nat_shl (from_u64 1) (U64MAX - 1) in
  Inv x /\ val x = Some (2 ^ (U64MAX - 1)) /\ val (nat_add x x) = None /\
  val (nat_add x (from_u64 1)) = Some (2 ^ (U64MAX - 1) + 1).
Proof. exact (add_overflow_gen (U64MAX - 1) ltac:(unfold U64MAX; lia) eq_refl). Qed.

(** ** Shifts *)
Lemma shl_big_gen : forall e, e + 1 = U64MAX ->
  val (nat_shl (from_u64 5) e) = Some (5 * 2 ^ e) /\ val (nat_shl (from_u64 6) e) = None.
Proof.
  intros e He. split.
  - destruct (from_u64_spec 5 ltac:(reflexivity)) as [I V].
    destruct (nat_shl_spec (from_u64 5) e I ltac:(lia)) as [_ E]. rewrite E, V. unfold norm.
    rewrite (ctz_unique 5 e eq_refl).
    destruct (N.ltb_spec e U64MAX); [|lia]. rewrite orb_true_r. reflexivity.
  - destruct (from_u64_spec 6 ltac:(reflexivity)) as [I V].
    destruct (nat_shl_spec (from_u64 6) e I ltac:(lia)) as [_ E]. rewrite E, V. unfold norm.
    assert (E6 : 6 * 2 ^ e = 3 * 2 ^ U64MAX) by (rewrite <- He, p2_succ; lia).
    rewrite E6, (ctz_unique 3 U64MAX eq_refl), N.ltb_irrefl.
    destruct (N.eqb_spec (3 * 2 ^ U64MAX) 0) as [Hc|_]; [|reflexivity].
    pose proof (p2_pos U64MAX). lia.
Qed.

Example ex_shifts :
  val (nat_shr (from_u64 12) 2) = Some 3 /\ val (nat_shr (from_u64 12) 3) = None /\
  val (nat_shr (from_u64 0) 7) = Some 0 /\
  val (nat_shl (from_u64 5) (U64MAX - 1)) = Some (5 * 2 ^ (U64MAX - 1)) /\
  val (nat_shl (from_u64 6) (U64MAX - 1)) = None /\ val (nat_shl (from_u64 0) U64MAX) = Some 0.
Proof.
  split; [vm_compute; reflexivity|]. split; [vm_compute; reflexivity|]. split; [vm_compute; reflexivity|].
  destruct (shl_big_gen (U64MAX - 1) eq_refl) as [A B].
  split; [exact A|]. split; [exact B|]. vm_compute. reflexivity.
Qed.

(** ** Comparison, equality, conversions *)
Example ex_cmp :
  partial_cmp (from_u128 (2 ^ 100 + 1)) (nat_shl (from_u64 1) 100) = Some Gt /\
  partial_cmp (from_u64 7) (nat_shl (from_u64 1) 3) = Some Lt /\
  partial_cmp ex_heap ex_heap = Some Eq /\
  partial_cmp ex_nan3 (from_u64 1) = None /\
  nat_eqb (mkNat [1; 2 ^ 63; 0] 5) (mkNat [1; 2 ^ 63] 5) = true /\
  nat_eqb ex_nan3 NAN = true /\ nat_eqb (from_u64 4) (from_u64 2) = false /\
  try_into_u64 (from_u128 (2 ^ 64)) = None /\ try_into_u64 (nat_shl (from_u64 3) 62) = Some (3 * 2 ^ 62) /\
  try_into_u128 (from_u64 4) = Some 4 /\
  from_le_digits [0; 0; 12; 0] = mkNat [3] 130.
Proof. vm_compute. repeat split; reflexivity. Qed.
