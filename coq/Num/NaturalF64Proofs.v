(** * [impl From<&Natural> for f64] is the correctly rounded conversion
      (Num/Natural.v, [to_f64_bits]; /repo/crates/oxidd-core/src/util/num/bigint.rs,
      [impl From<&Natural> for f64], lines 975-1026)

    [to_f64_bits a] is the bit pattern ([f64::to_bits]) of the float the Rust
    code assembles from the two most significant digits of the mantissa, the
    digit count and the exponent.  Proved here, for every value satisfying the
    representation invariant [Inv]:

    - [to_f64_bits_spec]: NaN gives [f64::NAN]; a number [v] gives exactly the
      bit pattern of Flocq's [binary_normalize] of the integer [v] in binary64
      with rounding to nearest, ties to even ([f64_of_N]), i.e. the correctly
      rounded value, +infinity on overflow;
    - the same in terms of real numbers ([to_f64_round], [to_f64_overflow],
      [to_f64_exact_gen], [to_f64_exact], [to_f64_nan]).

    Part 1 is pure integer arithmetic (no Flocq, closed under the global
    context): the code's [frac_trunc_msb] are the 64 bits following the leading one of the mantissa
    ([topbits_digits]), the code's [frac_rounded] is the 53 bit significand
    rounded to nearest even minus the hidden bit ([frac_model_spec], [rnd53]),
    and the saturating bit width computation either is exact or both it and
    the exact bit width exceed 1024 ([bw_model_spec]; the digit count is not
    bounded by [Inv], so the saturation of [len * 64] is not excluded but
    shown to be harmless).  Part 2 identifies [rnd53] with Flocq's rounding
    ([round_val]) and the assembled bit pattern with the float
    ([model_float], [f64_of_N_bits]).

    Assumptions: only the classical axioms of Coq's real numbers that Flocq's
    theorems rest on ([ClassicalDedekindReals.sig_forall_dec], [sig_not_dec],
    [FunctionalExtensionality.functional_extensionality_dep],
    [Classical_Prop.classic]); Part 1 ([to_f64_bits_int]) is axiom free. *)

From Coq Require Import List NArith ZArith Bool Lia Reals Lra.
From Flocq Require Import Core.Core IEEE754.BinarySingleNaN IEEE754.Binary IEEE754.Bits.
From OxiVerif Require Import Num.F64Count Num.Natural Num.NatBase Num.NaturalProofs Num.NaturalCmpProofs.
Import ListNotations.

Arguments N.add : simpl never.
Arguments N.sub : simpl never.
Arguments N.mul : simpl never.
Arguments N.div : simpl never.
Arguments N.modulo : simpl never.
Arguments N.pow : simpl never.
Arguments N.min : simpl never.
Arguments N.max : simpl never.
Arguments N.shiftl : simpl never.
Arguments N.shiftr : simpl never.
Arguments N.lor : simpl never.
Arguments N.land : simpl never.
Arguments N.size : simpl never.

Local Open Scope N_scope.

(** ** Part 1: integers *)

(** the [w] most significant bits of [m] (a number in [2^(w-1), 2^w) for [m <> 0]) *)
Definition topbits (m w : N) : N := (m * 2 ^ w) / 2 ^ N.size m.

Lemma topbits_small : forall m w, N.size m <= w -> topbits m w = m * 2 ^ (w - N.size m).
Proof.
  intros m w H. unfold topbits. rewrite (p2_split w (N.size m) H).
  replace (m * (2 ^ N.size m * 2 ^ (w - N.size m))) with (m * 2 ^ (w - N.size m) * 2 ^ N.size m) by lia.
  apply N.div_mul. apply p2_nz.
Qed.

Lemma topbits_big : forall m w, w <= N.size m -> topbits m w = m / 2 ^ (N.size m - w).
Proof.
  intros m w H. unfold topbits. rewrite (p2_split (N.size m) w H).
  rewrite (N.mul_comm (2 ^ w)). apply N.div_mul_cancel_r; apply p2_nz.
Qed.

Lemma topbits_div : forall m w j, j <= w -> topbits m w / 2 ^ j = topbits m (w - j).
Proof.
  intros m w j H. unfold topbits. rewrite N.div_div by apply p2_nz.
  rewrite (p2_split w j H).
  replace (m * (2 ^ j * 2 ^ (w - j))) with (m * 2 ^ (w - j) * 2 ^ j) by lia.
  apply N.div_mul_cancel_r; apply p2_nz.
Qed.

Lemma topbits_range : forall m w, m <> 0 -> 1 <= w -> 2 ^ (w - 1) <= topbits m w < 2 ^ w.
Proof.
  intros m w Hm Hw. unfold topbits.
  pose proof (size_lo m Hm) as Hlo. pose proof (N.size_gt m) as Hhi.
  assert (Hs : N.size m <> 0) by (rewrite size_0_iff; exact Hm).
  split.
  - apply N.div_le_lower_bound; [apply p2_nz|].
    replace (2 ^ N.size m * 2 ^ (w - 1)) with (2 ^ (N.size m - 1) * 2 ^ w).
    + apply N.mul_le_mono_r. exact Hlo.
    + rewrite <- !p2_add. f_equal. lia.
  - apply N.div_lt_upper_bound; [apply p2_nz|].
    apply N.mul_lt_mono_pos_r; [apply p2_pos | exact Hhi].
Qed.

(** the significand rounded to 53 bits, to nearest, ties to even *)
Definition rnd53 (m : N) : N :=
  let n := N.size m in
  if n <=? 53 then m * 2 ^ (53 - n)
  else
    let k := n - 53 in
    let q := m / 2 ^ k in
    let r := m mod 2 ^ k in
    q + (if (2 ^ k <? 2 * r) || ((2 * r =? 2 ^ k) && N.odd q) then 1 else 0).

Lemma land1 : forall x, N.land x 1 = x mod 2.
Proof. intros x. change 1 with (N.ones 1) at 1. rewrite N.land_ones. reflexivity. Qed.

Lemma odd_b2n : forall q, (if N.odd q then 1 else 0) = q mod 2.
Proof. intros q. rewrite <- N.bit0_mod, N.bit0_odd. destruct (N.odd q); reflexivity. Qed.

(** the fraction bits the code computes from the 64 bits [ftm] that follow the
    leading one of the mantissa *)
Definition frac_model (n ftm : N) : N :=
  let frac_trunc := shr64 ftm 12 in
  frac_trunc + (if n =? 54 then N.land frac_trunc 1 else N.land (shr64 ftm 11) 1).

Lemma rnd53_range : forall m, m <> 0 -> 2 ^ 52 <= rnd53 m <= 2 ^ 53.
Proof.
  intros m Hm. pose proof (topbits_range m 53 Hm ltac:(lia)) as [Hlo Hhi].
  change (53 - 1) with 52 in Hlo. unfold rnd53.
  destruct (N.leb_spec (N.size m) 53) as [Hn|Hn].
  - rewrite <- topbits_small by exact Hn. lia.
  - rewrite topbits_big in Hlo, Hhi by lia.
    destruct ((2 ^ (N.size m - 53) <? 2 * (m mod 2 ^ (N.size m - 53))) ||
              ((2 * (m mod 2 ^ (N.size m - 53)) =? 2 ^ (N.size m - 53)) && N.odd (m / 2 ^ (N.size m - 53)))); lia.
Qed.

Lemma frac_model_spec : forall m ftm, N.odd m = true ->
  topbits m 65 = 2 ^ 64 + ftm ->
  frac_model (N.size m) ftm = rnd53 m - 2 ^ 52 /\ 2 ^ 52 <= rnd53 m.
Proof.
  intros m ftm Ho HX. pose proof (odd_nz m Ho) as Hm.
  pose proof (rnd53_range m Hm) as [Rlo _]. split; [|exact Rlo].
  (* the top 53 and 54 bits *)
  assert (HQ : topbits m 53 = 2 ^ 52 + ftm / 2 ^ 12).
  { change 53 with (65 - 12). rewrite <- topbits_div by lia. rewrite HX.
    change (2 ^ 64) with (2 ^ 52 * 2 ^ 12). apply N.div_add_l. apply p2_nz. }
  assert (HQ2 : topbits m 54 = 2 ^ 53 + ftm / 2 ^ 11).
  { change 54 with (65 - 11). rewrite <- topbits_div by lia. rewrite HX.
    change (2 ^ 64) with (2 ^ 53 * 2 ^ 11). apply N.div_add_l. apply p2_nz. }
  assert (Hb2 : (ftm / 2 ^ 11) mod 2 = topbits m 54 mod 2).
  { rewrite HQ2. change (2 ^ 53) with (2 ^ 52 * 2). rewrite N.add_comm, N.mod_add by discriminate. reflexivity. }
  assert (Hb1 : (ftm / 2 ^ 12) mod 2 = topbits m 53 mod 2).
  { rewrite HQ. change (2 ^ 52) with (2 ^ 51 * 2). rewrite N.add_comm, N.mod_add by discriminate. reflexivity. }
  unfold frac_model. rewrite !shr64_eq, !land1, Hb1, Hb2.
  set (ft := ftm / 2 ^ 12) in *. clearbody ft. clear Hb1 Hb2 HQ2.
  unfold rnd53.
  destruct (N.leb_spec (N.size m) 53) as [Hn|Hn].
  - (* no rounding *)
    destruct (N.eqb_spec (N.size m) 54) as [Hc|_]; [lia|].
    rewrite (topbits_small m 54) by lia.
    replace (54 - (N.size m)) with (53 - (N.size m) + 1) by lia. rewrite p2_succ.
    replace (m * (2 * 2 ^ (53 - (N.size m)))) with (m * 2 ^ (53 - (N.size m)) * 2) by lia.
    rewrite N.mod_mul by discriminate.
    rewrite <- (topbits_small m 53) by lia. rewrite HQ. lia.
  - set (k := (N.size m) - 53). set (q := m / 2 ^ k). set (r := m mod 2 ^ k).
    assert (Eq53 : topbits m 53 = q) by (rewrite topbits_big by lia; reflexivity).
    assert (Hq : ft = q - 2 ^ 52) by lia.
    pose proof (N.div_mod m (2 ^ k) (p2_nz k)) as Em. fold q r in Em.
    pose proof (N.mod_lt m (2 ^ k) (p2_nz k)) as Hr. fold r in Hr.
    assert (Hmo : m mod 2 = 1) by (apply odd_mod2; exact Ho).
    destruct (N.eqb_spec (N.size m) 54) as [Hc|Hc].
    + (* a tie *)
      assert (Ek : k = 1) by (unfold k; lia). rewrite Eq53.
      assert (Er : r = 1) by (unfold r; rewrite Ek; exact Hmo).
      rewrite Er, Ek. change (2 ^ 1 <? 2 * 1) with false. change (2 * 1 =? 2 ^ 1) with true.
      simpl orb. simpl andb. rewrite odd_b2n. clear - HQ Eq53. clearbody q. generalize (q mod 2). intros b. lia.
    + assert (Hk : 2 <= k) by (unfold k; lia).
      assert (E54 : topbits m 54 = m / 2 ^ (k - 1)).
      { rewrite topbits_big by lia. f_equal. f_equal. unfold k. lia. }
      assert (Ek : 2 ^ k = 2 * 2 ^ (k - 1)) by (rewrite <- p2_succ; f_equal; lia).
      assert (Ek2 : 2 ^ (k - 1) = 2 * 2 ^ (k - 2)) by (rewrite <- p2_succ; f_equal; lia).
      pose proof (p2_pos (k - 2)) as Hp.
      (* r is odd *)
      assert (Hro : r mod 2 = 1).
      { rewrite <- Hmo. clearbody q r. rewrite Em, Ek, Ek2.
        replace (2 * (2 * 2 ^ (k - 2)) * q + r) with (r + (2 * 2 ^ (k - 2) * q) * 2) by lia.
        rewrite N.mod_add by discriminate. reflexivity. }
      assert (Hne : 2 * r <> 2 ^ k).
      { intros Hc'. assert (Er : r = 2 * 2 ^ (k - 2)) by lia.
        rewrite Er, N.mul_comm, N.mod_mul in Hro by discriminate. discriminate. }
      (* the round bit *)
      assert (Ediv : m / 2 ^ (k - 1) = 2 * q + r / 2 ^ (k - 1)).
      { rewrite Em at 1. rewrite Ek.
        replace (2 * 2 ^ (k - 1) * q + r) with (r + (2 * q) * 2 ^ (k - 1)) by lia.
        rewrite N.div_add by apply p2_nz. lia. }
      rewrite E54, Ediv.
      replace (2 * q + r / 2 ^ (k - 1)) with (r / 2 ^ (k - 1) + q * 2) by lia.
      rewrite N.mod_add by discriminate.
      destruct (N.ltb_spec (2 ^ k) (2 * r)) as [Hup|Hdn]; simpl orb.
      * assert (E1 : r / 2 ^ (k - 1) = 1).
        { symmetry. apply (N.div_unique r (2 ^ (k - 1)) 1 (r - 2 ^ (k - 1))); lia. }
        rewrite E1. change (1 mod 2) with 1. lia.
      * destruct (N.eqb_spec (2 * r) (2 ^ k)) as [Hc'|_]; [contradiction|]. simpl andb.
        rewrite (N.div_small r) by lia. change (0 mod 2) with 0. lia.
Qed.

(** the 64 bits after the leading one, from the two most significant digits *)
Definition ftm_model (msd msd2 : N) : N :=
  if msd =? 1 then msd2
  else N.lor (shl64 msd (lz64 msd + 1)) (shr64 msd2 (64 - (lz64 msd + 1))).

Lemma ftm_model_spec : forall msd msd2, msd <> 0 -> msd < B64 -> msd2 < B64 ->
  (msd2 + B64 * msd) / 2 ^ (N.size msd - 1) = 2 ^ 64 + ftm_model msd msd2.
Proof.
  intros msd msd2 Hnz Hd Hd2.
  pose proof (size_lo msd Hnz) as Hlo. pose proof (N.size_gt msd) as Hhi.
  pose proof (size_lt_B64 msd Hd) as Hs.
  assert (Hs0 : N.size msd <> 0) by (rewrite size_0_iff; exact Hnz).
  set (s := N.size msd) in *. set (t := s - 1) in *.
  assert (Es : 2 ^ s = 2 * 2 ^ t) by (rewrite <- p2_succ; f_equal; unfold t; lia).
  assert (EB : B64 = 2 ^ (65 - s) * 2 ^ t) by (rewrite B64_eq, <- p2_add; f_equal; unfold t; lia).
  pose proof (N.div_mod msd2 (2 ^ t) (p2_nz t)) as E2.
  pose proof (N.mod_lt msd2 (2 ^ t) (p2_nz t)) as H2.
  assert (Hq2 : msd2 / 2 ^ t < 2 ^ (65 - s)).
  { apply div_p2_lt. rewrite p2_add, (N.mul_comm (2 ^ t)), <- EB. exact Hd2. }
  assert (Ediv : (msd2 + B64 * msd) / 2 ^ t = msd2 / 2 ^ t + 2 ^ (65 - s) * msd).
  { rewrite EB. replace (2 ^ (65 - s) * 2 ^ t * msd) with ((2 ^ (65 - s) * msd) * 2 ^ t) by lia.
    apply N.div_add. apply p2_nz. }
  rewrite Ediv. unfold ftm_model.
  destruct (N.eqb_spec msd 1) as [E1|N1].
  - assert (Et : t = 0) by (unfold t, s; rewrite E1; reflexivity).
    assert (Es1 : s = 1) by (unfold s; rewrite E1; reflexivity).
    rewrite Et, Es1, E1. change (2 ^ 0) with 1. rewrite N.div_1_r. change (65 - 1) with 64. lia.
  - rewrite lz64_eq. fold s. replace (64 - s + 1) with (65 - s) by lia.
    replace (64 - (65 - s)) with t by (unfold t; lia).
    rewrite shl64_eq, shr64_eq by lia. replace (64 - (65 - s)) with t by (unfold t; lia).
    rewrite lor_disjoint by exact Hq2.
    assert (Eh : msd mod 2 ^ t = msd - 2 ^ t).
    { symmetry. apply (N.mod_unique msd (2 ^ t) 1); lia. }
    rewrite Eh, N.mul_sub_distr_r.
    assert (E64 : 2 ^ t * 2 ^ (65 - s) = 2 ^ 64) by (rewrite N.mul_comm, <- EB; reflexivity).
    rewrite E64.
    assert (2 ^ 64 <= msd * 2 ^ (65 - s)) by (rewrite <- E64; apply N.mul_le_mono_r; exact Hlo).
    lia.
Qed.

Lemma ftm_model_lt : forall msd msd2, msd <> 0 -> msd < B64 -> msd2 < B64 -> ftm_model msd msd2 < 2 ^ 64.
Proof.
  intros msd msd2 Hnz Hd Hd2. pose proof (ftm_model_spec msd msd2 Hnz Hd Hd2) as E.
  pose proof (N.size_gt msd) as Hhi. pose proof (size_lt_B64 msd Hd) as Hs.
  assert (Hs0 : N.size msd <> 0) by (rewrite size_0_iff; exact Hnz).
  set (s := N.size msd) in *.
  assert (Hlt : (msd2 + B64 * msd) / 2 ^ (s - 1) < 2 ^ 65).
  { apply div_p2_lt. replace (s - 1 + 65) with (64 + s) by lia. rewrite p2_add, <- B64_eq. nia. }
  change (2 ^ 65) with (2 ^ 64 + 2 ^ 64) in Hlt. lia.
Qed.

(** Key lemma A: the code's [frac_trunc_msb] are the 64 bits following the leading one *)
Lemma topbits_digits : forall ds, inr ds -> ds <> [] -> last ds 0 <> 0 ->
  topbits (digits_val ds) 65 = 2 ^ 64 + ftm_model (last ds 0) (last (removelast ds) 0).
Proof.
  intros ds Hr Hne Hl.
  pose proof (size_digits ds Hne Hr Hl) as Sn.
  pose proof (inr_last ds Hr) as Hd. pose proof (size_lt_B64 _ Hd) as Hs.
  assert (Hs0 : N.size (last ds 0) <> 0) by (rewrite size_0_iff; exact Hl).
  pose proof (inr_removelast ds Hr) as Hr'.
  pose proof (inr_last _ Hr') as Hd2.
  rewrite <- (ftm_model_spec _ _ Hl Hd Hd2).
  pose proof (digits_val_last ds Hne) as E.
  pose proof (lenN_removelast ds Hne) as El.
  assert (Hlen1 : lenN ds <> 0) by (destruct ds; [contradiction | rewrite lenN_cons; lia]).
  set (msd := last ds 0) in *. set (s := N.size msd) in *.
  set (ds' := removelast ds) in *. clearbody ds'.
  destruct ds' as [|x l'].
  - (* one digit *)
    rewrite lenN_nil in El. assert (El1 : lenN ds = 1) by lia.
    rewrite El1 in E, Sn. change (digits_val []) with 0 in E. change (1 - 1) with 0 in E, Sn.
    rewrite N.pow_0_r in E. rewrite N.mul_0_r in Sn.
    assert (Em : digits_val ds = msd) by lia. simpl last.
    rewrite topbits_small by (rewrite Sn; lia). rewrite Sn, Em, !N.add_0_l.
    rewrite B64_eq, (p2_split 64 (s - 1)) by lia. replace (64 - (s - 1)) with (65 - s) by lia.
    replace (2 ^ (s - 1) * 2 ^ (65 - s) * msd) with (msd * 2 ^ (65 - s) * 2 ^ (s - 1)) by lia.
    symmetry. apply N.div_mul. apply p2_nz.
  - set (ds' := x :: l') in *.
    assert (Hne' : ds' <> []) by discriminate.
    pose proof (digits_val_last ds' Hne') as E'.
    pose proof (digits_val_lt _ (inr_removelast ds' Hr')) as Hlow.
    rewrite (lenN_removelast ds' Hne') in Hlow.
    assert (Hlen : 2 <= lenN ds).
    { assert (lenN ds' <> 0) by (unfold ds'; rewrite lenN_cons; lia). lia. }
    set (msd2 := last ds' 0) in *. set (low := digits_val (removelast ds')) in *.
    pose proof (B64p_pos (lenN ds' - 1)) as HP.
    set (P := B64 ^ (lenN ds' - 1)) in *.
    assert (EP : B64 ^ (lenN ds - 1) = P * B64).
    { unfold P. rewrite <- (N.pow_1_r B64) at 3. rewrite <- N.pow_add_r. f_equal. lia. }
    assert (Em : digits_val ds = low + (msd2 + B64 * msd) * P) by (rewrite E, E', EP; lia).
    rewrite topbits_big by (rewrite Sn; lia). rewrite Sn.
    replace (64 * (lenN ds - 1) + s - 65) with (64 * (lenN ds' - 1) + (s - 1)) by lia.
    rewrite p2_add, <- B64_pow. fold P.
    rewrite <- N.div_div by (try apply p2_nz; lia).
    f_equal. rewrite Em, N.div_add by lia.
    rewrite (N.div_small low) by exact Hlow. reflexivity.
Qed.

(** the saturating computation of the bit width *)
Lemma bw_model_spec : forall len e lz, 1 <= len -> lz <= 63 ->
  let bwm := sat_add64 (sat_mul64 len 64) e - lz in
  let bw := 64 * len + e - lz in
  (1024 <? bwm) = (1024 <? bw) /\ (bw <= 1024 -> bwm = bw).
Proof.
  intros len e lz Hlen Hlz. unfold sat_add64, sat_mul64, U64MAX. cbv zeta.
  destruct (N.ltb_spec 1024 (64 * len + e - lz)) as [Hb|Hb].
  - split; [|lia]. apply N.ltb_lt. lia.
  - split; [|lia]. apply N.ltb_ge. lia.
Qed.

(** the body of [to_f64_bits] after the NaN test *)
Definition f64_core (m : list N) (ex : N) : N :=
  let msd := last m 0 in
  if msd =? 0 then 0
  else
    let leading_zeros := lz64 msd in
    let bw := sat_add64 (sat_mul64 (lenN m) 64) ex - leading_zeros in
    if 1024 <? bw then F64_INF_BITS
    else
      (bw + 1023 - 1) * 2 ^ 52 +
      frac_model (bw - ex) (ftm_model msd (last (removelast m) 0)).

Lemma to_f64_bits_unfold : forall a,
  to_f64_bits a = if is_nan a then F64_NAN_BITS else f64_core (mantissa a) (expo a).
Proof. reflexivity. Qed.

(** Conclusion of the integer part *)
Theorem to_f64_bits_int : forall a, Inv a -> expo a <> U64MAX ->
  let m := mval a in
  let bw := N.size m + expo a in
  to_f64_bits a =
    if m =? 0 then 0
    else if 1024 <? bw then F64_INF_BITS
    else (bw + 1022) * 2 ^ 52 + (rnd53 m - 2 ^ 52).
Proof.
  intros a H Ea. cbv zeta. rewrite to_f64_bits_unfold.
  unfold is_nan. destruct (N.eqb_spec (expo a) U64MAX) as [|_]; [contradiction|].
  destruct (mantissa_spec a H) as [Hr [Hne [Hv [Hl Hz]]]].
  unfold f64_core.
  destruct (N.eqb_spec (mval a) 0) as [Hm0|Hm].
  - rewrite (Hz Hm0). reflexivity.
  - specialize (Hl Hm). destruct (N.eqb_spec (last (mantissa a) 0) 0) as [|_]; [contradiction|].
    set (ds := mantissa a) in *. set (msd := last ds 0) in *.
    pose proof (size_digits ds Hne Hr Hl) as Sn. rewrite Hv in Sn. fold msd in Sn.
    pose proof (inr_last ds Hr) as Hd. fold msd in Hd. pose proof (size_lt_B64 _ Hd) as Hs.
    assert (Hs0 : N.size msd <> 0) by (rewrite size_0_iff; exact Hl).
    assert (Hlen : 1 <= lenN ds) by (destruct ds; [contradiction | rewrite lenN_cons; lia]).
    assert (Hlz : lz64 msd <= 63) by (rewrite lz64_eq; lia).
    destruct (bw_model_spec (lenN ds) (expo a) (lz64 msd) Hlen Hlz) as [B1 B2].
    assert (Ebw : 64 * lenN ds + expo a - lz64 msd = N.size (mval a) + expo a) by (rewrite lz64_eq, Sn; lia).
    rewrite Ebw in B1, B2. rewrite B1.
    destruct (N.ltb_spec 1024 (N.size (mval a) + expo a)) as [Hov|Hfit]; [reflexivity|].
    rewrite (B2 Hfit).
    replace (N.size (mval a) + expo a - expo a) with (N.size (mval a)) by lia.
    pose proof (topbits_digits ds Hr Hne Hl) as HX. rewrite Hv in HX. fold msd in HX.
    destruct (frac_model_spec (mval a) _ (inv_odd a H Hm) HX) as [HF _]. rewrite HF.
    f_equal. lia.
Qed.

Close Scope N_scope.

(** ** Part 2: Flocq *)

(** [f64_of_N] (Num/F64Count.v): Flocq's correctly rounded (to nearest, ties to
    even) conversion of an integer to binary64,
    [binary_normalize 53 1024 _ _ mode_NE (Z.of_N v) 0 false]; overflow gives
    +infinity *)

Notation rnd64 := (round radix2 (FLT_exp (-1074) 53) ZnearestE).

Lemma of_to_bits : forall v, b64_of_bits (bits_of_b64 v) = v.
Proof. exact (binary_float_of_bits_of_binary_float 52 11 eq_refl eq_refl eq_refl). Qed.
Lemma to_of_bits : forall x, (0 <= x < 2 ^ 64)%Z -> bits_of_b64 (b64_of_bits x) = x.
Proof. intros x H. exact (bits_of_binary_float_of_bits 52 11 eq_refl eq_refl eq_refl x H). Qed.

Lemma bpow_N : forall k : N, bpow radix2 (Z.of_N k) = IZR (Z.of_N (2 ^ k)).
Proof.
  intros k. rewrite N2Z.inj_pow. change (Z.of_N 2) with (radix_val radix2).
  rewrite IZR_Zpower; [reflexivity | lia].
Qed.

Lemma IZR_N_pos : forall m : N, m <> 0%N -> (0 < IZR (Z.of_N m))%R.
Proof. intros m Hm. apply IZR_lt. lia. Qed.

(** *** rounding a quotient to the nearest integer, ties to even *)

Lemma ZnearestE_div : forall m d : Z, (0 < d)%Z ->
  ZnearestE (IZR m / IZR d) =
    match (2 * (m mod d) ?= d)%Z with
    | Lt => (m / d)%Z
    | Eq => if Z.even (m / d) then (m / d)%Z else (m / d + 1)%Z
    | Gt => (m / d + 1)%Z
    end.
Proof.
  intros m d Hd.
  pose proof (Z.div_mod m d ltac:(lia)) as Em. pose proof (Z.mod_pos_bound m d Hd) as Hr.
  set (q := (m / d)%Z) in *. set (r := (m mod d)%Z) in *.
  assert (HdR : (0 < IZR d)%R) by (apply IZR_lt; exact Hd).
  assert (Hx : (IZR m / IZR d - IZR q = IZR r / IZR d)%R).
  { rewrite Em, plus_IZR, mult_IZR. field. lra. }
  assert (Hfl : Zfloor (IZR m / IZR d) = q) by (apply Zfloor_div; lia).
  assert (Hce : (0 < r)%Z -> Zceil (IZR m / IZR d) = (q + 1)%Z).
  { intros Hr0. rewrite Zceil_floor_neq; rewrite Hfl; [reflexivity|].
    intros Hc. assert (H0 : (IZR r / IZR d = 0)%R) by (rewrite <- Hx, Hc; lra).
    assert (0 < IZR r)%R by (apply IZR_lt; exact Hr0).
    assert (0 < IZR r / IZR d)%R by (apply Rdiv_lt_0_compat; assumption). lra. }
  assert (Hy : (0 < / IZR d)%R) by (apply Rinv_0_lt_compat; exact HdR).
  assert (Hyd : (IZR d * / IZR d = 1)%R) by (apply Rinv_r; lra).
  unfold Znearest. rewrite Hfl, Hx.
  destruct (Z.compare_spec (2 * r) d) as [He|Hl|Hg].
  - rewrite Rcompare_Eq.
    + rewrite Hce by lia. destruct (Z.even q); reflexivity.
    + unfold Rdiv. assert (Ed : IZR d = (2 * IZR r)%R) by (rewrite <- He, mult_IZR; reflexivity).
      rewrite Ed in Hyd at 1. lra.
  - rewrite Rcompare_Lt; [reflexivity|]. unfold Rdiv.
    apply IZR_lt in Hl. rewrite mult_IZR in Hl. nra.
  - rewrite Rcompare_Gt; [apply Hce; lia|]. unfold Rdiv.
    apply IZR_lt in Hg. rewrite mult_IZR in Hg. nra.
Qed.

Lemma even_of_N : forall q, Z.even (Z.of_N q) = negb (N.odd q).
Proof. intros [|[p|p|]]; reflexivity. Qed.

(** [rnd53 m] is the scaled mantissa rounded to nearest even *)
Lemma rnd53_nearest : forall m, m <> 0%N ->
  ZnearestE (IZR (Z.of_N m) * bpow radix2 (53 - Z.of_N (N.size m))) = Z.of_N (rnd53 m).
Proof.
  intros m Hm. unfold rnd53. destruct (N.leb_spec (N.size m) 53) as [Hn|Hn].
  - replace (53 - Z.of_N (N.size m))%Z with (Z.of_N (53 - N.size m)) by lia.
    rewrite bpow_N, <- mult_IZR, <- N2Z.inj_mul. apply Zrnd_IZR. apply valid_rnd_N.
  - set (k := (N.size m - 53)%N).
    replace (53 - Z.of_N (N.size m))%Z with (- Z.of_N k)%Z by lia.
    rewrite bpow_opp, bpow_N. fold (Rdiv (IZR (Z.of_N m)) (IZR (Z.of_N (2 ^ k)))).
    pose proof (p2_pos k) as Hp.
    rewrite ZnearestE_div by lia.
    rewrite <- N2Z.inj_div, <- N2Z.inj_mod.
    set (q := (m / 2 ^ k)%N). set (r := (m mod 2 ^ k)%N).
    change 2%Z with (Z.of_N 2). rewrite <- N2Z.inj_mul, N2Z.inj_compare.
    destruct (N.compare_spec (2 * r) (2 ^ k)) as [He|Hl|Hg].
    + rewrite He, N.ltb_irrefl, N.eqb_refl. simpl orb. simpl andb.
      rewrite even_of_N. destruct (N.odd q); simpl negb; cbv iota; lia.
    + destruct (N.ltb_spec (2 ^ k) (2 * r)) as [|_]; [lia|].
      destruct (N.eqb_spec (2 * r) (2 ^ k)) as [|_]; [lia|]. simpl. lia.
    + destruct (N.ltb_spec (2 ^ k) (2 * r)) as [_|]; [|lia]. simpl orb. cbv iota. lia.
Qed.

(** *** the rounded value *)

Lemma mag_N : forall m, m <> 0%N -> mag radix2 (IZR (Z.of_N m)) = Z.of_N (N.size m) :> Z.
Proof.
  intros m Hm. apply mag_unique_pos.
  pose proof (size_lo m Hm) as Hlo. pose proof (N.size_gt m) as Hhi.
  assert (Hs : N.size m <> 0%N) by (rewrite size_0_iff; exact Hm).
  replace (Z.of_N (N.size m) - 1)%Z with (Z.of_N (N.size m - 1)) by lia.
  rewrite !bpow_N. split; [apply IZR_le | apply IZR_lt]; lia.
Qed.

Lemma IZR_val : forall m e, IZR (Z.of_N (m * 2 ^ e)) = (IZR (Z.of_N m) * bpow radix2 (Z.of_N e))%R.
Proof. intros m e. rewrite N2Z.inj_mul, mult_IZR, bpow_N. reflexivity. Qed.

Theorem round_val : forall m e, m <> 0%N ->
  rnd64 (IZR (Z.of_N (m * 2 ^ e))) =
  (IZR (Z.of_N (rnd53 m)) * bpow radix2 (Z.of_N (N.size m) + Z.of_N e - 53))%R.
Proof.
  intros m e Hm. rewrite IZR_val.
  pose proof (IZR_N_pos m Hm) as Hpos.
  assert (Hs : N.size m <> 0%N) by (rewrite size_0_iff; exact Hm).
  unfold round, scaled_mantissa, cexp.
  rewrite mag_mult_bpow by lra. rewrite (mag_N m Hm).
  unfold FLT_exp. rewrite Z.max_l by lia.
  unfold F2R. cbn [Fnum Fexp]. f_equal. f_equal.
  rewrite Rmult_assoc, <- bpow_plus.
  replace (Z.of_N e + - (Z.of_N (N.size m) + Z.of_N e - 53))%Z with (53 - Z.of_N (N.size m))%Z by lia.
  apply rnd53_nearest. exact Hm.
Qed.

(** *** bit patterns of normal numbers *)

Lemma bits_aux_normal : forall E f, (1 <= E <= 2046)%Z -> (0 <= f < 2 ^ 52)%Z ->
  binary_float_of_bits_aux 52 11 (E * 2 ^ 52 + f) =
  F754_finite false (Z.to_pos (2 ^ 52 + f)) (E - 1075).
Proof.
  intros E f HE Hf. unfold binary_float_of_bits_aux, split_bits.
  assert (E1 : ((E * 2 ^ 52 + f) mod 2 ^ 52 = f)%Z).
  { rewrite Z.add_comm, Z.mod_add by lia. apply Z.mod_small. exact Hf. }
  assert (E2 : (((E * 2 ^ 52 + f) / 2 ^ 52) mod 2 ^ 11 = E)%Z).
  { rewrite Z.div_add_l by lia. rewrite (Z.div_small f) by exact Hf. rewrite Z.add_0_r.
    apply Z.mod_small. lia. }
  assert (E3 : (2 ^ 52 * 2 ^ 11 <=? E * 2 ^ 52 + f)%Z = false).
  { apply Z.leb_gt. lia. }
  rewrite E1, E2, E3.
  assert (Z1 : Zeq_bool E 0 = false) by (apply Zeq_bool_false; lia).
  assert (Z2 : Zeq_bool E (2 ^ 11 - 1) = false) by (apply Zeq_bool_false; lia).
  rewrite Z1, Z2.
  destruct (f + 2 ^ 52)%Z as [|px|px] eqn:Ep; try lia.
  replace (2 ^ 52 + f)%Z with (Z.pos px) by lia.
  f_equal. unfold SpecFloat.emin. lia.
Qed.

Lemma b64_of_bits_normal : forall E f, (1 <= E <= 2046)%Z -> (0 <= f < 2 ^ 52)%Z ->
  let F := b64_of_bits (E * 2 ^ 52 + f) in
  is_finite 53 1024 F = true /\ Bsign 53 1024 F = false /\
  B2R 53 1024 F = (IZR (2 ^ 52 + f) * bpow radix2 (E - 1075))%R.
Proof.
  intros E f HE Hf F. unfold F, b64_of_bits, binary_float_of_bits.
  rewrite is_finite_FF2B, Bsign_FF2B, B2R_FF2B, (bits_aux_normal E f HE Hf).
  repeat split. unfold FF2R, F2R. cbn [Fnum Fexp SpecFloat.cond_Zopp].
  rewrite Z2Pos.id by lia. reflexivity.
Qed.

(** *** size of the rounded value *)

Lemma IZR_p52 : IZR (2 ^ 52) = bpow radix2 52.
Proof. apply (IZR_Zpower radix2 52). lia. Qed.

Lemma IZR_p53 : IZR (2 ^ 53) = bpow radix2 53.
Proof. apply (IZR_Zpower radix2 53). lia. Qed.

Lemma rnd_R_bounds : forall Zr bw : Z, (2 ^ 52 <= Zr <= 2 ^ 53)%Z ->
  let R := (IZR Zr * bpow radix2 (bw - 53))%R in
  (bpow radix2 (bw - 1) <= R)%R /\ (R <= bpow radix2 bw)%R /\
  ((Zr < 2 ^ 53)%Z -> (R < bpow radix2 bw)%R) /\ (Zr = (2 ^ 53)%Z -> R = bpow radix2 bw).
Proof.
  intros Zr bw [Hlo Hhi] R. unfold R.
  pose proof (bpow_gt_0 radix2 (bw - 53)) as Hb.
  assert (E1 : bpow radix2 (bw - 1) = (IZR (2 ^ 52) * bpow radix2 (bw - 53))%R).
  { replace (bw - 1)%Z with (52 + (bw - 53))%Z by lia. rewrite bpow_plus, IZR_p52. reflexivity. }
  assert (E2 : bpow radix2 bw = (IZR (2 ^ 53) * bpow radix2 (bw - 53))%R).
  { replace bw with (53 + (bw - 53))%Z at 1 by lia. rewrite bpow_plus, IZR_p53. reflexivity. }
  rewrite E1, E2. apply IZR_le in Hlo. pose proof (IZR_le _ _ Hhi) as Hhi'.
  repeat split.
  - apply Rmult_le_compat_r; lra.
  - apply Rmult_le_compat_r; lra.
  - intros Hlt. apply Rmult_lt_compat_r; [exact Hb | apply IZR_lt; exact Hlt].
  - intros ->. reflexivity.
Qed.

(** the float denoted by the bit pattern the code assembles *)
Lemma model_float : forall Zr bw : Z, (2 ^ 52 <= Zr <= 2 ^ 53)%Z -> (1 <= bw <= 1024)%Z ->
  (bw = 1024%Z -> (Zr < 2 ^ 53)%Z) ->
  let bits := ((bw + 1022) * 2 ^ 52 + (Zr - 2 ^ 52))%Z in
  let F := b64_of_bits bits in
  (0 <= bits < 2 ^ 64)%Z /\
  is_finite 53 1024 F = true /\ Bsign 53 1024 F = false /\
  B2R 53 1024 F = (IZR Zr * bpow radix2 (bw - 53))%R.
Proof.
  intros Zr bw HZ Hbw Hc bits F. split; [unfold bits; lia|].
  destruct (Z.eq_dec Zr (2 ^ 53)) as [Ez|Nz].
  - assert (Eb : bits = ((bw + 1023) * 2 ^ 52 + 0)%Z) by (unfold bits; lia).
    unfold F. rewrite Eb.
    destruct (b64_of_bits_normal (bw + 1023) 0 ltac:(lia) ltac:(lia)) as [Hf [Hs Hr]].
    repeat split; [exact Hf | exact Hs |]. rewrite Hr, Ez, Z.add_0_r.
    rewrite IZR_p52, IZR_p53, <- !bpow_plus. f_equal. lia.
  - destruct (b64_of_bits_normal (bw + 1022) (Zr - 2 ^ 52) ltac:(lia) ltac:(lia)) as [Hf [Hs Hr]].
    repeat split; [exact Hf | exact Hs |]. unfold F, bits. rewrite Hr. f_equal; [f_equal; lia | f_equal; lia].
Qed.

Lemma F2R_int : forall z : Z, F2R (Float radix2 z 0) = IZR z.
Proof. intros z. unfold F2R. cbn [Fnum Fexp bpow]. apply Rmult_1_r. Qed.

Lemma b64_inf_bits : bits_of_b64 (B754_infinity 53 1024 false) = Z.of_N F64_INF_BITS.
Proof. reflexivity. Qed.

Lemma f64_overflow_inf : forall z : binary64,
  B2FF 53 1024 z = binary_overflow 53 1024 mode_NE false -> z = B754_infinity 53 1024 false.
Proof.
  intros z Hz. change (binary_overflow 53 1024 mode_NE false) with (F754_infinity false) in Hz.
  destruct z; try discriminate. simpl in Hz. inversion Hz. reflexivity.
Qed.

(** the specification of the rounding applied to [IZR v] *)
Lemma f64_of_N_correct : forall v,
  let x := IZR (Z.of_N v) in
  if Rlt_bool (Rabs (rnd64 x)) (bpow radix2 1024)
  then B2R 53 1024 (f64_of_N v) = rnd64 x /\ is_finite 53 1024 (f64_of_N v) = true /\
       Bsign 53 1024 (f64_of_N v) = false
  else f64_of_N v = B754_infinity 53 1024 false.
Proof.
  intros v x.
  pose proof (binary_normalize_correct 53 1024 (eq_refl _) (eq_refl _) mode_NE (Z.of_N v) 0 false) as BC.
  rewrite F2R_int in BC. change (binary_normalize 53 1024 eq_refl eq_refl mode_NE (Z.of_N v) 0 false) with (f64_of_N v) in BC. fold x in BC.
  change (SpecFloat.fexp 53 1024) with (FLT_exp (-1074) 53) in BC.
  change (round_mode mode_NE) with ZnearestE in BC.
  assert (Hx : (0 <= x)%R) by (apply IZR_le; lia).
  destruct (Rlt_bool (Rabs (rnd64 x)) (bpow radix2 1024)).
  - destruct BC as [B1 [B2 B3]]. repeat split; [exact B1 | exact B2|].
    rewrite B3. destruct (Rcompare_spec x 0) as [Hl|He|Hg]; [lra | reflexivity | reflexivity].
  - apply f64_overflow_inf. rewrite BC. rewrite Rlt_bool_false by exact Hx. reflexivity.
Qed.

(** the bit pattern of the correctly rounded value *)
Theorem f64_of_N_bits : forall m e, m <> 0%N ->
  let bw := (N.size m + e)%N in
  bits_of_b64 (f64_of_N (m * 2 ^ e)) =
  Z.of_N (if (1024 <? bw)%N then F64_INF_BITS
          else ((bw + 1022) * 2 ^ 52 + (rnd53 m - 2 ^ 52))%N).
Proof.
  intros m e Hm bw.
  pose proof (f64_of_N_correct (m * 2 ^ e)) as BC. cbv zeta in BC.
  rewrite (round_val m e Hm) in BC.
  pose proof (rnd53_range m Hm) as [Rlo Rhi].
  assert (HZ : (2 ^ 52 <= Z.of_N (rnd53 m) <= 2 ^ 53)%Z).
  { change (2 ^ 52)%Z with (Z.of_N (2 ^ 52)). change (2 ^ 53)%Z with (Z.of_N (2 ^ 53)). lia. }
  assert (Hs : N.size m <> 0%N) by (rewrite size_0_iff; exact Hm).
  replace (Z.of_N (N.size m) + Z.of_N e)%Z with (Z.of_N bw) in BC by (unfold bw; lia).
  destruct (rnd_R_bounds (Z.of_N (rnd53 m)) (Z.of_N bw) HZ) as [B1 [B2 [B3 B4]]].
  set (R := (IZR (Z.of_N (rnd53 m)) * bpow radix2 (Z.of_N bw - 53))%R) in *.
  assert (HR : (0 <= R)%R).
  { pose proof (bpow_ge_0 radix2 (Z.of_N bw - 1)). lra. }
  rewrite (Rabs_pos_eq R HR) in BC.
  destruct (N.ltb_spec 1024 bw) as [Hov|Hfit].
  - (* overflow by the exponent *)
    rewrite Rlt_bool_false in BC.
    + rewrite BC. apply b64_inf_bits.
    + apply Rle_trans with (2 := B1). apply bpow_le. lia.
  - destruct (N.eq_dec bw 1024) as [E1024|N1024].
    + destruct (N.eq_dec (rnd53 m) (2 ^ 53)) as [Ecarry|Ncarry].
      * (* rounding carries into the overflow *)
        rewrite Rlt_bool_false in BC.
        -- rewrite BC, E1024, Ecarry. reflexivity.
        -- rewrite B4 by (rewrite Ecarry; reflexivity). rewrite E1024. apply Rle_refl.
      * rewrite Rlt_bool_true in BC.
        2:{ rewrite E1024 in B3. apply B3. change (2 ^ 53)%Z with (Z.of_N (2 ^ 53)). lia. }
        destruct BC as [C1 [C2 C3]].
        destruct (model_float (Z.of_N (rnd53 m)) (Z.of_N bw) HZ ltac:(lia)) as [Hrg [F1 [F2 F3]]].
        { intros _. change (2 ^ 53)%Z with (Z.of_N (2 ^ 53)). lia. }
        rewrite <- (B2R_Bsign_inj 53 1024 _ _ F1 C2 ltac:(rewrite F3, C1; reflexivity) ltac:(rewrite F2, C3; reflexivity)).
        rewrite to_of_bits by exact Hrg.
        rewrite N2Z.inj_add, N2Z.inj_mul, N2Z.inj_add, N2Z.inj_sub by exact Rlo. reflexivity.
    + rewrite Rlt_bool_true in BC.
      2:{ apply Rle_lt_trans with (1 := B2). apply bpow_lt. lia. }
      destruct BC as [C1 [C2 C3]].
      destruct (model_float (Z.of_N (rnd53 m)) (Z.of_N bw) HZ ltac:(lia)) as [Hrg [F1 [F2 F3]]].
      { intros Hc. lia. }
      rewrite <- (B2R_Bsign_inj 53 1024 _ _ F1 C2 ltac:(rewrite F3, C1; reflexivity) ltac:(rewrite F2, C3; reflexivity)).
      rewrite to_of_bits by exact Hrg.
      rewrite N2Z.inj_add, N2Z.inj_mul, N2Z.inj_add, N2Z.inj_sub by exact Rlo. reflexivity.
Qed.

Lemma f64_of_N_0 : bits_of_b64 (f64_of_N 0) = 0%Z.
Proof. reflexivity. Qed.

(** ** The theorems *)

(** [f64::from(&Natural)] is NaN for NaN and otherwise the value correctly
    rounded to binary64 (to nearest, ties to even, overflow to +infinity) *)
Theorem to_f64_bits_spec : forall a, Inv a ->
  match val a with
  | None => to_f64_bits a = F64_NAN_BITS
  | Some v => Z.of_N (to_f64_bits a) = bits_of_b64 (f64_of_N v)
  end.
Proof.
  intros a H. destruct (val a) as [v|] eqn:Ev.
  - destruct (val_inv a v Ev) as [Ea ->].
    rewrite (to_f64_bits_int a H Ea). cbv zeta.
    destruct (N.eqb_spec (mval a) 0) as [Hz|Hnz].
    + rewrite Hz, N.mul_0_l. symmetry. exact f64_of_N_0.
    + symmetry. apply (f64_of_N_bits (mval a) (expo a) Hnz).
  - rewrite to_f64_bits_unfold. unfold val in Ev. destruct (is_nan a); [reflexivity | discriminate].
Qed.

(** the same in terms of real numbers: the result is the rounded value ... *)
Theorem to_f64_round : forall a v, Inv a -> val a = Some v ->
  (Rabs (rnd64 (IZR (Z.of_N v))) < bpow radix2 1024)%R ->
  let f := b64_of_bits (Z.of_N (to_f64_bits a)) in
  is_finite 53 1024 f = true /\
  B2R 53 1024 f = rnd64 (IZR (Z.of_N v)) /\
  Bsign 53 1024 f = false.
Proof.
  intros a v H Hv Hlt f. pose proof (to_f64_bits_spec a H) as S. rewrite Hv in S.
  unfold f. rewrite S, of_to_bits.
  pose proof (f64_of_N_correct v) as C. cbv zeta in C. rewrite (Rlt_bool_true _ _ Hlt) in C.
  destruct C as [C1 [C2 C3]]. repeat split; assumption.
Qed.

(** ... and +infinity when the rounded value is not below [2^1024] *)
Theorem to_f64_overflow : forall a v, Inv a -> val a = Some v ->
  (bpow radix2 1024 <= Rabs (rnd64 (IZR (Z.of_N v))))%R ->
  to_f64_bits a = F64_INF_BITS.
Proof.
  intros a v H Hv Hge. pose proof (to_f64_bits_spec a H) as S. rewrite Hv in S.
  apply N2Z.inj. rewrite S.
  pose proof (f64_of_N_correct v) as C. cbv zeta in C. rewrite (Rlt_bool_false _ _ Hge) in C.
  rewrite C. apply b64_inf_bits.
Qed.

Lemma bpow_1024 : bpow radix2 1024 = IZR (Z.of_N (2 ^ 1024)).
Proof. apply (bpow_N 1024). Qed.

(** numbers with at most 53 significant bits below [2^1024] are converted exactly *)
Theorem to_f64_exact_gen : forall a v m e, Inv a -> val a = Some v ->
  v = (m * 2 ^ e)%N -> (m < 2 ^ 53)%N -> (v < 2 ^ 1024)%N ->
  let f := b64_of_bits (Z.of_N (to_f64_bits a)) in
  is_finite 53 1024 f = true /\ B2R 53 1024 f = IZR (Z.of_N v) /\ Bsign 53 1024 f = false.
Proof.
  intros a v m e H Hv Ev Hm Hlt.
  assert (Hx : (0 <= IZR (Z.of_N v))%R) by (apply IZR_le; lia).
  assert (Hr : rnd64 (IZR (Z.of_N v)) = IZR (Z.of_N v)).
  { apply round_generic; [apply valid_rnd_N|]. apply generic_format_FLT.
    apply (FLT_spec radix2 (-1074) 53 _ (Float radix2 (Z.of_N m) (Z.of_N e))).
    - rewrite Ev, IZR_val. reflexivity.
    - cbn [Fnum]. rewrite Z.abs_eq by lia. change (radix2 ^ 53)%Z with (Z.of_N (2 ^ 53)). lia.
    - cbn [Fexp]. lia. }
  pose proof (to_f64_round a v H Hv) as R. rewrite Hr in R. apply R.
  rewrite Rabs_pos_eq by exact Hx. rewrite bpow_1024. apply IZR_lt. lia.
Qed.

Theorem to_f64_exact : forall a v, Inv a -> val a = Some v -> (v < 2 ^ 53)%N ->
  B2R 53 1024 (b64_of_bits (Z.of_N (to_f64_bits a))) = IZR (Z.of_N v).
Proof.
  intros a v H Hv Hlt.
  assert (Hp : (2 ^ 53 < 2 ^ 1024)%N) by (apply p2_lt; reflexivity).
  apply (to_f64_exact_gen a v v 0 H Hv); [rewrite N.pow_0_r; lia | exact Hlt | lia].
Qed.

(** the pattern returned for NaN is a NaN *)
Theorem to_f64_nan : Binary.is_nan 53 1024 (b64_of_bits (Z.of_N F64_NAN_BITS)) = true.
Proof. reflexivity. Qed.

Theorem to_f64_NAN : to_f64_bits NAN = F64_NAN_BITS.
Proof. reflexivity. Qed.

(** ** Examples *)

Local Open Scope N_scope.

Example ex_tof64_zero : to_f64_bits (from_u64 0) = 0.
Proof. vm_compute. reflexivity. Qed.
Example ex_tof64_one : to_f64_bits (from_u64 1) = 0x3ff0000000000000.
Proof. vm_compute. reflexivity. Qed.
(* 2^53 + 1 is a tie: to even, 2^53 *)
Example ex_tof64_tie_even : to_f64_bits (from_u64 (2 ^ 53 + 1)) = 0x4340000000000000.
Proof. vm_compute. reflexivity. Qed.
(* 2^53 + 3 is a tie: to even, 2^53 + 4 *)
Example ex_tof64_tie_up : to_f64_bits (from_u64 (2 ^ 53 + 3)) = 0x4340000000000002.
Proof. vm_compute. reflexivity. Qed.
(* two digits: 2^64 + 1 rounds down, 2^64 + 2^11 + 1 rounds up *)
Example ex_tof64_two_digits_dn : to_f64_bits (from_u128 (2 ^ 64 + 1)) = 0x43f0000000000000.
Proof. vm_compute. reflexivity. Qed.
Example ex_tof64_two_digits_up : to_f64_bits (from_u128 (2 ^ 64 + 2 ^ 11 + 1)) = 0x43f0000000000001.
Proof. vm_compute. reflexivity. Qed.
Example ex_tof64_max_pow : to_f64_bits (nat_shl (from_u64 1) 1023) = 0x7fe0000000000000.
Proof. vm_compute. reflexivity. Qed.
Example ex_tof64_inf : to_f64_bits (nat_shl (from_u64 1) 1024) = F64_INF_BITS.
Proof. vm_compute. reflexivity. Qed.
(* the rounding carries into the overflow *)
Example ex_tof64_carry_inf : to_f64_bits (nat_shl (from_u64 (2 ^ 54 - 1)) 970) = F64_INF_BITS.
Proof. vm_compute. reflexivity. Qed.
Example ex_tof64_nan : to_f64_bits NAN = F64_NAN_BITS.
Proof. vm_compute. reflexivity. Qed.

(** the hypotheses of the theorems are satisfiable, and Flocq's conversion
    computes the same patterns *)
Example ex_tof64_inv : Inv (nat_shl (from_u64 (2 ^ 54 - 1)) 970) /\
  val (nat_shl (from_u64 (2 ^ 54 - 1)) 970) = Some ((2 ^ 54 - 1) * 2 ^ 970).
Proof.
  destruct (from_u64_spec (2 ^ 54 - 1) ltac:(reflexivity)) as [HI HV].
  destruct (nat_shl_spec _ 970 HI ltac:(discriminate)) as [HI' HV'].
  split; [exact HI'|]. vm_compute. reflexivity.
Qed.

Example ex_tof64_flocq_tie : bits_of_b64 (f64_of_N (2 ^ 53 + 1)) = 0x4340000000000000%Z.
Proof. vm_compute. reflexivity. Qed.
Example ex_tof64_flocq_carry_inf : bits_of_b64 (f64_of_N ((2 ^ 54 - 1) * 2 ^ 970)) = Z.of_N F64_INF_BITS.
Proof. vm_compute. reflexivity. Qed.
