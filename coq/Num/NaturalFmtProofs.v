(** * [impl fmt::Binary for Natural]: the digits written are the binary
      representation of the number (Num/Natural.v, [fmt_bin])

    [fmt_bin_spec]: for a value satisfying the invariant, [fmt_bin] is [None]
    (the text [?]) exactly for NaN; otherwise the list of bits, most
    significant first, whose value is the denoted number, without leading
    zeros ([[0]] for 0).  Octal / hexadecimal output ([fmt_pow2]), padding and
    the decimal output (delegated to [dashu_int::UBig]) are covered by the
    correspondence runs only. *)

From Coq Require Import List NArith Bool Lia.
From OxiVerif Require Import Num.Natural Num.NatBase Num.NaturalProofs Num.NaturalCmpProofs.
Import ListNotations.
Local Open Scope N_scope.

Arguments N.add : simpl never.
Arguments N.sub : simpl never.
Arguments N.mul : simpl never.
Arguments N.div : simpl never.
Arguments N.modulo : simpl never.
Arguments N.pow : simpl never.
Arguments N.size : simpl never.

(** the number written by a list of digits in base 2, most significant first *)
Definition bits_acc (bs : list N) (acc : N) : N := fold_left (fun a b => 2 * a + b) bs acc.
Definition bits_val (bs : list N) : N := bits_acc bs 0.

Definition is_bits (bs : list N) : Prop := Forall (fun b => b <= 1) bs.

Lemma bits_acc_app : forall l r acc, bits_acc (l ++ r) acc = bits_acc r (bits_acc l acc).
Proof. intros. unfold bits_acc. apply fold_left_app. Qed.

Lemma mod_p2_succ : forall d p,
  d mod 2 ^ (p + 1) = (if N.testbit d p then 1 else 0) * 2 ^ p + d mod 2 ^ p.
Proof.
  intros d p. rewrite N.testbit_odd, N.shiftr_div_pow2.
  pose proof (N.div_mod d (2 ^ p) (p2_nz p)) as E. pose proof (N.mod_lt d (2 ^ p) (p2_nz p)) as Hm.
  set (q := d / 2 ^ p) in *. set (r := d mod 2 ^ p) in *.
  pose proof (N.div_mod q 2 ltac:(discriminate)) as Eq. pose proof (N.mod_lt q 2 ltac:(discriminate)) as Hq.
  assert (Eb : (if N.odd q then 1 else 0) = q mod 2).
  { destruct (N.odd q) eqn:Ho.
    - symmetry. apply odd_mod2. exact Ho.
    - destruct (N.eq_dec (q mod 2) 0) as [E0|N0]; [symmetry; exact E0|].
      assert (E1 : q mod 2 = 1) by (revert Hq N0; generalize (q mod 2); intros; lia).
      apply odd_mod2 in E1. congruence. }
  rewrite Eb. symmetry. apply N.mod_unique with (q := q / 2).
  - rewrite p2_succ. nia.
  - rewrite E, p2_succ. set (h := q / 2) in *. set (b := q mod 2) in *. clearbody h b q r. subst q. lia.
Qed.

Lemma bits_from_spec : forall k d acc,
  bits_acc (bits_from k d) acc = acc * 2 ^ N.of_nat k + d mod 2 ^ N.of_nat k /\
  length (bits_from k d) = k /\ is_bits (bits_from k d).
Proof.
  induction k as [|k IH]; intros d acc.
  - simpl. change (2 ^ 0) with 1. rewrite N.mod_1_r. repeat split; [unfold bits_acc; simpl; lia | constructor].
  - destruct (IH d (2 * acc + (if N.testbit d (N.of_nat k) then 1 else 0))) as [V [L B]].
    simpl bits_from. split; [|split].
    + change (bits_acc ((if N.testbit d (N.of_nat k) then 1 else 0) :: bits_from k d) acc)
        with (bits_acc (bits_from k d) (2 * acc + (if N.testbit d (N.of_nat k) then 1 else 0))).
      rewrite V, Nat2N.inj_succ, <- N.add_1_r, (mod_p2_succ d (N.of_nat k)), p2_succ. lia.
    + simpl. rewrite L. reflexivity.
    + constructor; [destruct (N.testbit d (N.of_nat k)); lia | exact B].
Qed.

Lemma flat_bits_spec : forall ds acc, inr ds ->
  bits_acc (flat_map (bits_from 64) ds) acc = acc * B64 ^ lenN ds + bev ds /\
  N.of_nat (length (flat_map (bits_from 64) ds)) = 64 * lenN ds /\
  is_bits (flat_map (bits_from 64) ds).
Proof.
  induction ds as [|d t IH]; intros acc H.
  - simpl. rewrite lenN_nil, N.pow_0_r. change (bev []) with 0. repeat split; [unfold bits_acc; simpl; lia | constructor].
  - apply inr_inv in H. destruct H as [Hd Ht].
    change (flat_map (bits_from 64) (d :: t)) with (bits_from 64 d ++ flat_map (bits_from 64) t).
    destruct (bits_from_spec 64 d acc) as [V1 [L1 B1]].
    destruct (IH (bits_acc (bits_from 64 d) acc) Ht) as [V2 [L2 B2]].
    split; [|split].
    + rewrite bits_acc_app, V2, V1, bev_cons, lenN_cons, N.pow_add_r, N.pow_1_r.
      change (2 ^ N.of_nat 64) with B64. rewrite (N.mod_small d B64 Hd). lia.
    + rewrite app_length, Nat2N.inj_add, L2, L1, lenN_cons. lia.
    + apply Forall_app. split; assumption.
Qed.

Lemma repeat0_bits : forall k acc,
  bits_acc (repeat 0 k) acc = acc * 2 ^ N.of_nat k /\ is_bits (repeat 0 k).
Proof.
  induction k as [|k IH]; intros acc.
  - simpl. change (2 ^ 0) with 1. split; [unfold bits_acc; simpl; lia | constructor].
  - destruct (IH (2 * acc + 0)) as [V B]. simpl repeat. split.
    + change (bits_acc (0 :: repeat 0 k) acc) with (bits_acc (repeat 0 k) (2 * acc + 0)).
      rewrite V, Nat2N.inj_succ, <- N.add_1_r, p2_succ. lia.
    + constructor; [lia | exact B].
Qed.

(** [Binary]: NaN is written as [?]; otherwise the bits of the number *)
Theorem fmt_bin_spec : forall a, Inv a ->
  match val a with
  | None => fmt_bin a = None
  | Some v =>
    exists bs, fmt_bin a = Some bs /\ bits_val bs = v /\ is_bits bs /\
      (v = 0 -> bs = [0]) /\ (v <> 0 -> hd 0 bs = 1 /\ N.of_nat (length bs) = N.size v)
  end.
Proof.
  intros a H. unfold fmt_bin, is_nan.
  destruct (N.eqb_spec (expo a) U64MAX) as [Ea|Ea]; [rewrite (val_nan a Ea); reflexivity|].
  rewrite (val_some a Ea).
  destruct (mantissa_spec a H) as [Rm [Nm [Vm [Lm Zm]]]].
  destruct (N.eq_dec (mval a) 0) as [Hz|Hnz].
  - rewrite (Zm Hz). simpl last. simpl. exists [0]. rewrite Hz, N.mul_0_l.
    split; [reflexivity|]. split; [reflexivity|]. split; [constructor; [lia | constructor]|].
    split; [intros _; reflexivity | intros Hc; contradiction].
  - specialize (Lm Hnz). set (m := mantissa a) in *. set (msd := last m 0) in *.
    destruct (N.eqb_spec msd 0) as [|_]; [contradiction|].
    assert (Er : rev m = msd :: rev (removelast m)).
    { rewrite (app_removelast_last 0 Nm) at 1. rewrite rev_app_distr. reflexivity. }
    rewrite Er. simpl tl. rewrite lz64_eq.
    assert (Rmsd : msd < B64) by (apply inr_last; exact Rm).
    pose proof (size_lt_B64 msd Rmsd) as Hs.
    replace (64 - (64 - N.size msd)) with (N.size msd) by lia.
    set (k := N.to_nat (N.size msd)). set (rest := rev (removelast m)).
    assert (Rrest : inr rest) by (apply inr_rev; apply inr_removelast; exact Rm).
    destruct (bits_from_spec k msd 0) as [V1 [L1 B1]].
    destruct (flat_bits_spec rest (bits_acc (bits_from k msd) 0) Rrest) as [V2 [L2 B2]].
    destruct (repeat0_bits (N.to_nat (expo a))
                (bits_acc (flat_map (bits_from 64) rest) (bits_acc (bits_from k msd) 0))) as [V3 B3].
    eexists. split; [reflexivity|].
    assert (Ek : N.of_nat k = N.size msd) by (unfold k; apply N2Nat.id).
    assert (Emsd : msd mod 2 ^ N.size msd = msd) by (apply N.mod_small; apply N.size_gt).
    assert (Eb : bev (msd :: rest) = mval a).
    { unfold bev, rest. rewrite <- Er, rev_involutive. exact Vm. }
    rewrite bev_cons in Eb.
    split; [|split; [|split]].
    + unfold bits_val. rewrite !bits_acc_app, V3, V2, V1, Ek, Emsd, N2Nat.id. rewrite <- Eb. lia.
    + apply Forall_app. split; [exact B1|]. apply Forall_app. split; [exact B2 | exact B3].
    + intros Hc. exfalso. pose proof (p2_pos (expo a)). nia.
    + intros _. split.
      * (* the first bit is the top bit of the most significant digit *)
        assert (Hk : k = S (N.to_nat (N.log2 msd))).
        { unfold k. rewrite (N.size_log2 msd Lm), N2Nat.inj_succ. reflexivity. }
        rewrite Hk. simpl bits_from. simpl hd. rewrite N2Nat.id, (N.bit_log2 msd Lm). reflexivity.
      * rewrite !app_length, !Nat2N.inj_add, L1, L2, repeat_length, N2Nat.id, Ek.
        rewrite size_mul_p2 by exact Hnz. rewrite <- Vm.
        rewrite (size_digits m Nm Rm Lm). fold msd. unfold rest, lenN. rewrite rev_length.
        pose proof (lenN_removelast m Nm) as El. unfold lenN in El. rewrite El. lia.
Qed.

Example ex_fmt_bin :
  fmt_bin (from_u64 10) = Some [1; 0; 1; 0] /\ fmt_bin (from_u64 0) = Some [0] /\
  fmt_bin (mkNat [3] U64MAX) = None /\
  option_map (@length N) (fmt_bin (from_u128 (2 ^ 100 + 1))) = Some 101%nat.
Proof. vm_compute. repeat split; reflexivity. Qed.
