(** * Proofs about the model of [oxidd_core::util::num::Natural] (Num/Natural.v)

    [val n] is the number a [natural] denotes: [None] for the error value NaN
    (exponent [u64::MAX]), otherwise [mantissa * 2^exponent].  [Inv n] is the
    representation invariant (it implies the code's own [check_inv]).  This
    file: the invariant, [bit_width], the constructors [From<u8..u128>], the
    shifts, [TryFrom -> u64/u128].  Addition: Num/NaturalAddProofs.v;
    [from_le_digits]: Num/NaturalDigitsProofs.v; equality, comparison and
    hashing: Num/NaturalCmpProofs.v. *)

From Coq Require Import List NArith Bool Lia.
From OxiVerif Require Import Num.Natural Num.NatBase.
Import ListNotations.
Local Open Scope N_scope.

Arguments N.add : simpl never.
Arguments N.sub : simpl never.
Arguments N.mul : simpl never.
Arguments N.div : simpl never.
Arguments N.modulo : simpl never.
Arguments N.pow : simpl never.
Arguments N.min : simpl never.
Arguments N.max : simpl never.
Arguments N.shiftl : simpl never.
Arguments N.shiftr : simpl never.
Arguments N.lor : simpl never.
Arguments N.size : simpl never.

(** ** The denotation and the invariant *)

(** the mantissa as a number *)
Definition mval (n : natural) : N := digits_val (digits n).

(** the denoted number; [None] is NaN *)
Definition val (n : natural) : option N :=
  if is_nan n then None else Some (mval n * 2 ^ expo n).

(** The representation invariant:
    - every digit is a u64, there is at least one digit, the exponent is a u64;
    - the mantissa is odd or zero; zero has exponent 0 (or is NaN);
    - a digit array with two or more elements (heap shape) holds a mantissa
      above [u64::MAX], and at most its most significant digit is zero, in
      which case the digit below has its top bit set
      ([2^(64*(len-1)-1) <= mantissa]). *)
Record Inv (n : natural) : Prop := mkInv {
  inv_inr : inr (digits n);
  inv_ne : digits n <> [];
  inv_exp : expo n <= U64MAX;
  inv_zero : mval n = 0 -> expo n = 0 \/ expo n = U64MAX;
  inv_odd : mval n <> 0 -> N.odd (mval n) = true;
  inv_big : (2 <= length (digits n))%nat ->
            B64 <= mval n /\ 2 ^ (64 * lenN (digits n) - 65) <= mval n
}.

(** what a computation may return for the exact result [v]: the number
    itself if its exponent (number of trailing zero bits) is a valid exponent,
    NaN otherwise *)
Definition norm (v : N) : option N :=
  if (v =? 0) || (ctz v <? U64MAX) then Some v else None.

Lemma is_nan_iff : forall n, is_nan n = true <-> expo n = U64MAX.
Proof. intros n. unfold is_nan. apply N.eqb_eq. Qed.

Lemma val_nan : forall n, expo n = U64MAX -> val n = None.
Proof. intros n E. unfold val, is_nan. rewrite E. reflexivity. Qed.

Lemma val_some : forall n, expo n <> U64MAX -> val n = Some (mval n * 2 ^ expo n).
Proof. intros n E. unfold val, is_nan. destruct (N.eqb_spec (expo n) U64MAX); [contradiction | reflexivity]. Qed.

Lemma val_inv : forall n v, val n = Some v -> expo n <> U64MAX /\ v = mval n * 2 ^ expo n.
Proof.
  intros n v. unfold val, is_nan. destruct (N.eqb_spec (expo n) U64MAX); [discriminate|].
  intros E. inversion E. split; [assumption | reflexivity].
Qed.

Lemma val_mk : forall ds e, val (mkNat ds e) = if e =? U64MAX then None else Some (digits_val ds * 2 ^ e).
Proof. reflexivity. Qed.

Lemma mval_lt : forall n, Inv n -> mval n < B64 ^ lenN (digits n).
Proof. intros n H. apply digits_val_lt. apply (inv_inr n H). Qed.

Lemma length_ge2 : forall (A : Type) (a b : A) l, (2 <= length (a :: b :: l))%nat.
Proof. intros. simpl. lia. Qed.

(** inline shape iff the mantissa is a u64 *)
Lemma inline_iff : forall n, Inv n -> (is_inline n = true <-> mval n < B64).
Proof.
  intros n H. unfold is_inline, mval. pose proof (inv_inr n H) as Hr. pose proof (inv_ne n H) as Hne.
  pose proof (inv_big n H) as Hb. unfold mval in Hb.
  destruct (digits n) as [|d [|d' l]]; [contradiction| |].
  - rewrite digits_val_single. apply inr_inv in Hr. split; [intros _; apply Hr | reflexivity].
  - destruct (Hb (length_ge2 _ _ _ _)) as [Hb1 _]. split; [discriminate | lia].
Qed.

(** the mantissa of a heap array in terms of its last digits *)
Lemma mval_zero_digits : forall n, Inv n -> mval n = 0 -> digits n = [0].
Proof.
  intros n H Hz. pose proof (inv_ne n H) as Hne. pose proof (inv_big n H) as Hb. unfold mval in *.
  destruct (digits n) as [|d [|d' l]]; [contradiction| |].
  - rewrite digits_val_single in Hz. subst d. reflexivity.
  - destruct (Hb (length_ge2 _ _ _ _)) as [Hb1 _]. unfold B64 in Hb1. lia.
Qed.

Lemma len_is_zero_iff : forall n, Inv n -> (len_is_zero n = true <-> mval n = 0).
Proof.
  intros n H. split.
  - unfold len_is_zero, mval. destruct (digits n) as [|d [|d' l]]; try discriminate.
    intros E. apply N.eqb_eq in E. subst d. reflexivity.
  - intros Hz. unfold len_is_zero. rewrite (mval_zero_digits n H Hz). reflexivity.
Qed.

(** [Inv] implies the code's own [check_inv] *)
Theorem Inv_check_inv : forall n, Inv n -> check_inv n = true.
Proof.
  intros n H. unfold check_inv.
  pose proof (inv_inr n H) as Hr. pose proof (inv_ne n H) as Hne. pose proof (inv_big n H) as Hb.
  pose proof (inv_odd n H) as Ho. pose proof (inv_zero n H) as Hz. unfold mval in *.
  destruct (digits n) as [|d0 [|d1 l]] eqn:Ed; [contradiction| |].
  - rewrite digits_val_single in *. destruct (N.eqb_spec d0 0) as [->|Hd].
    + destruct (Hz eq_refl) as [->| ->]; reflexivity.
    + apply Ho. exact Hd.
  - destruct (Hb (length_ge2 _ _ _ _)) as [Hb1 Hb2].
    assert (Hodd : N.odd d0 = true).
    { assert (Hnz : digits_val (d0 :: d1 :: l) <> 0) by (unfold B64 in Hb1; lia).
      specialize (Ho Hnz). rewrite digits_val_cons in Ho.
      rewrite N.odd_add_mul_even in Ho; [exact Ho|]. exists (B64 / 2). reflexivity. }
    rewrite Hodd, andb_true_l. destruct (N.eqb_spec (last (d0 :: d1 :: l) 0) 0) as [Hl|_]; [|reflexivity].
    apply N.leb_le.
    (* the array without its zero top digit *)
    set (ds := d0 :: d1 :: l) in *. assert (Hds : ds <> []) by discriminate.
    pose proof (digits_val_last ds Hds) as E. rewrite Hl, N.mul_0_r, N.add_0_r in E.
    set (ds' := removelast ds) in *.
    assert (Hds' : ds' <> []) by (unfold ds', ds; simpl; destruct l; discriminate).
    assert (Hr' : inr ds') by (apply inr_removelast; exact Hr).
    pose proof (digits_val_lt_last ds' Hds' Hr') as Hlt.
    pose proof (lenN_removelast ds Hds) as El. fold ds' in El.
    rewrite E in Hb2. rewrite B64_pow in Hlt.
    assert (Hlen : 2 <= lenN ds) by (unfold ds; rewrite !lenN_cons; lia).
    destruct (N.le_gt_cases (2 ^ 63) (last ds' 0)) as [Hok|Hbad]; [exact Hok|exfalso].
    assert (Hx : 2 ^ (64 * (lenN ds' - 1)) * (last ds' 0 + 1) <= 2 ^ (64 * (lenN ds' - 1)) * 2 ^ 63)
      by (apply N.mul_le_mono_l; lia).
    rewrite <- p2_add in Hx. replace (64 * (lenN ds' - 1) + 63) with (64 * lenN ds - 65) in Hx by lia. lia.
Qed.

(** a way to establish the invariant *)
Lemma mk_Inv : forall ds e, inr ds -> ds <> [] -> e <= U64MAX -> N.odd (digits_val ds) = true ->
  (length ds = 1%nat \/ (B64 <= digits_val ds /\ 2 ^ (64 * lenN ds - 65) <= digits_val ds)) ->
  Inv (mkNat ds e).
Proof.
  intros ds e Hr Hne He Ho Hb. constructor; simpl; unfold mval; simpl; try assumption.
  - intros Hz. rewrite Hz in Ho. discriminate.
  - intros _. exact Ho.
  - intros Hl. destruct Hb as [Hb|Hb]; [lia | exact Hb].
Qed.

Lemma Inv_ZERO : Inv ZERO.
Proof.
  constructor; simpl; unfold mval; simpl.
  - apply inr_cons; [reflexivity | apply inr_nil].
  - discriminate.
  - discriminate.
  - intros _. left. reflexivity.
  - intros Hc. exfalso. apply Hc. reflexivity.
  - lia.
Qed.

Lemma Inv_NAN : Inv NAN.
Proof.
  constructor; simpl; unfold mval; simpl.
  - apply inr_cons; [reflexivity | apply inr_nil].
  - discriminate.
  - reflexivity.
  - intros _. right. reflexivity.
  - intros Hc. exfalso. apply Hc. reflexivity.
  - lia.
Qed.

Lemma val_ZERO : val ZERO = Some 0.
Proof. reflexivity. Qed.

Lemma val_NAN : val NAN = None.
Proof. reflexivity. Qed.

(** changing the exponent of a non-zero number keeps the invariant *)
Lemma Inv_set_expo : forall n e, Inv n -> mval n <> 0 -> e <= U64MAX -> Inv (mkNat (digits n) e).
Proof.
  intros n e H Hnz He. constructor; simpl; unfold mval; simpl.
  - apply (inv_inr n H).
  - apply (inv_ne n H).
  - exact He.
  - intros Hz. contradiction.
  - apply (inv_odd n H).
  - apply (inv_big n H).
Qed.

(** the exponent is the number of trailing zeros of the value *)
Lemma val_ctz : forall n v, Inv n -> val n = Some v -> v <> 0 ->
  ctz v = expo n /\ N.odd (mval n) = true.
Proof.
  intros n v H Hv Hnz. destruct (val_inv n v Hv) as [He ->].
  assert (Hm : mval n <> 0) by (intros Hz; rewrite Hz in Hnz; lia).
  pose proof (inv_odd n H Hm) as Ho. split; [apply ctz_unique; exact Ho | exact Ho].
Qed.

Lemma val_zero_expo : forall n, Inv n -> val n = Some 0 -> mval n = 0 /\ expo n = 0.
Proof.
  intros n H Hv. destruct (val_inv n 0 Hv) as [He E].
  assert (Hm : mval n = 0) by (pose proof (p2_pos (expo n)); nia).
  split; [exact Hm|]. destruct (inv_zero n H Hm); [assumption | contradiction].
Qed.

(** every number a [natural] denotes is representable *)
Lemma val_norm : forall n v, Inv n -> val n = Some v -> norm v = Some v.
Proof.
  intros n v H Hv. unfold norm. destruct (N.eqb_spec v 0) as [|Hnz]; [reflexivity|].
  destruct (val_ctz n v H Hv Hnz) as [Hc _]. destruct (val_inv n v Hv) as [He _].
  pose proof (inv_exp n H). rewrite Hc. destruct (N.ltb_spec (expo n) U64MAX); [reflexivity | lia].
Qed.

(** ** [bit_width] *)

Lemma bit_width_digits_spec : forall ds e, inr ds -> ds <> [] ->
  (length ds = 1%nat \/ 2 ^ (64 * lenN ds - 65) <= digits_val ds) ->
  bit_width_digits ds e = N.size (digits_val ds) + e.
Proof.
  intros ds e Hr Hne Hb. unfold bit_width_digits. rewrite lz64_eq. f_equal.
  pose proof (inr_last ds Hr) as Hl. pose proof (size_lt_B64 _ Hl) as Hs.
  assert (Hlen : 1 <= lenN ds) by (destruct ds; [contradiction | rewrite lenN_cons; lia]).
  destruct (N.eq_dec (last ds 0) 0) as [Hz|Hnz].
  - rewrite Hz. change (N.size 0) with 0.
    pose proof (digits_val_last ds Hne) as E. rewrite Hz, N.mul_0_r, N.add_0_r in E.
    destruct Hb as [Hb|Hb].
    + destruct ds as [|d [|d' l]]; try discriminate. simpl in Hz. subst d.
      rewrite digits_val_single. reflexivity.
    + pose proof (digits_val_lt (removelast ds) (inr_removelast ds Hr)) as Hlt.
      rewrite (lenN_removelast ds Hne), B64_pow, <- E in Hlt.
      destruct (N.eq_dec (lenN ds) 1) as [E1|N1].
      { rewrite E1 in Hlt. change (2 ^ (64 * (1 - 1))) with 1 in Hlt.
        assert (E0 : digits_val ds = 0) by lia. rewrite E0, E1. reflexivity. }
      replace (64 * lenN ds - (64 - 0)) with ((64 * lenN ds - 65) + 1) by lia.
      symmetry. apply size_unique; [exact Hb|].
      replace (64 * lenN ds - 65 + 1) with (64 * (lenN ds - 1)) by lia. exact Hlt.
  - rewrite (size_digits ds Hne Hr Hnz). lia.
Qed.

Theorem bit_width_spec : forall n, Inv n -> bit_width n = N.size (mval n) + expo n.
Proof.
  intros n H. unfold bit_width, mval. apply bit_width_digits_spec.
  - apply (inv_inr n H).
  - apply (inv_ne n H).
  - pose proof (inv_big n H) as Hb. pose proof (inv_ne n H) as Hne. unfold mval in Hb.
    destruct (digits n) as [|d [|d' l]]; [contradiction | left; reflexivity|].
    right. apply Hb. apply length_ge2.
Qed.

(** [bit_width] is [1 + floor(log2 v)] ([N.size v]; 0 for 0) *)
Theorem bit_width_val : forall n v, Inv n -> val n = Some v -> bit_width n = N.size v.
Proof.
  intros n v H Hv. rewrite (bit_width_spec n H). destruct (N.eq_dec v 0) as [->|Hnz].
  - destruct (val_zero_expo n H Hv) as [-> ->]. reflexivity.
  - destruct (val_inv n v Hv) as [He ->]. symmetry. apply size_mul_p2.
    intros Hz. rewrite Hz in Hnz. lia.
Qed.

(** ** [From<u64>] (and the narrower unsigned types) *)

Theorem from_u64_spec : forall v, v < B64 -> Inv (from_u64 v) /\ val (from_u64 v) = Some v.
Proof.
  intros v Hv. unfold from_u64, shl_amount. rewrite shr64_eq.
  destruct (N.eq_dec v 0) as [->|Hnz].
  - split; [exact Inv_ZERO | reflexivity].
  - destruct (ctz_div_odd v Hnz) as [Ho E]. pose proof (ctz_lt_size v Hnz) as Hc.
    pose proof (size_lt_B64 v Hv) as Hs.
    assert (Hle : v / 2 ^ ctz v <= v) by (apply N.div_le_upper_bound; [apply p2_nz | pose proof (p2_pos (ctz v)); nia]).
    split.
    + apply mk_Inv.
      * apply inr_cons; [lia | apply inr_nil].
      * discriminate.
      * unfold U64MAX. lia.
      * rewrite digits_val_single. exact Ho.
      * left. reflexivity.
    + rewrite val_mk. destruct (N.eqb_spec (ctz v) U64MAX) as [Hx|_]; [unfold U64MAX in Hx; lia|].
      rewrite digits_val_single, <- E. reflexivity.
Qed.

Theorem from_u32_spec : forall v, v < 2 ^ 32 -> Inv (from_u32 v) /\ val (from_u32 v) = Some v.
Proof. intros v Hv. apply from_u64_spec. pose proof (p2_lt 32 64 ltac:(lia)). rewrite B64_eq. lia. Qed.

Theorem from_u16_spec : forall v, v < 2 ^ 16 -> Inv (from_u16 v) /\ val (from_u16 v) = Some v.
Proof. intros v Hv. apply from_u64_spec. pose proof (p2_lt 16 64 ltac:(lia)). rewrite B64_eq. lia. Qed.

Theorem from_u8_spec : forall v, v < 2 ^ 8 -> Inv (from_u8 v) /\ val (from_u8 v) = Some v.
Proof. intros v Hv. apply from_u64_spec. pose proof (p2_lt 8 64 ltac:(lia)). rewrite B64_eq. lia. Qed.

(** ** [From<u128>] *)

Theorem from_u128_spec : forall v, v < B128 -> Inv (from_u128 v) /\ val (from_u128 v) = Some v.
Proof.
  intros v Hv. unfold from_u128. destruct (N.eqb_spec v 0) as [->|Hnz].
  - split; [exact Inv_ZERO | reflexivity].
  - destruct (ctz_div_odd v Hnz) as [Ho E]. pose proof (ctz_lt_size v Hnz) as Hc.
    assert (Hs : N.size v <= 128) by (apply size_le_iff; exact Hv).
    set (s := ctz v) in *. set (w := v / 2 ^ s) in *.
    assert (Sw : N.size w = N.size v - s) by apply size_div_p2.
    assert (Hse : s <> U64MAX) by (unfold U64MAX; lia).
    unfold lz128. rewrite !shr64_eq. fold w.
    destruct (N.leb_spec 64 (128 - N.size v + s)) as [Hfit|Hbig].
    + (* one digit *)
      assert (Hw : w < B64) by (rewrite B64_eq; apply size_le_iff; lia).
      split.
      * apply mk_Inv.
        -- apply inr_cons; [exact Hw | apply inr_nil].
        -- discriminate.
        -- unfold U64MAX. lia.
        -- rewrite digits_val_single. exact Ho.
        -- left. reflexivity.
      * rewrite val_mk. destruct (N.eqb_spec s U64MAX); [contradiction|].
        rewrite digits_val_single, <- E. reflexivity.
    + (* two digits *)
      assert (Hw : B64 <= w) by (rewrite B64_eq; apply size_gt_iff; lia).
      assert (Hw2 : w < B128) by (rewrite B128_eq; apply size_le_iff; lia).
      assert (Ev : digits_val [w mod B64; w / 2 ^ 64] = w).
      { rewrite digits_val_cons, digits_val_single. change (2 ^ 64) with B64.
        pose proof (N.div_mod w B64 ltac:(discriminate)). lia. }
      split.
      * apply mk_Inv.
        -- apply inr_cons; [apply N.mod_lt; discriminate|]. apply inr_cons; [|apply inr_nil].
           apply N.div_lt_upper_bound; [apply p2_nz|]. exact Hw2.
        -- discriminate.
        -- unfold U64MAX. lia.
        -- rewrite Ev. exact Ho.
        -- right. rewrite Ev. split; [exact Hw|]. change (lenN [w mod B64; w / 2 ^ 64]) with 2.
           change (64 * 2 - 65) with 63. pose proof (p2_lt 63 64 ltac:(lia)). rewrite B64_eq in Hw. lia.
      * rewrite val_mk. destruct (N.eqb_spec s U64MAX); [contradiction|].
        rewrite Ev, <- E. reflexivity.
Qed.

(** ** [Shl<u64>] *)

(** [a << k] is [a * 2^k]; NaN iff the exponent leaves the u64 range
    (or [a] is NaN) *)
Theorem nat_shl_spec : forall a k, Inv a -> k <= U64MAX ->
  Inv (nat_shl a k) /\
  val (nat_shl a k) = match val a with Some x => norm (x * 2 ^ k) | None => None end.
Proof.
  intros a k H Hk. unfold nat_shl. destruct (len_is_zero a) eqn:Ez.
  - split; [exact H|]. apply (len_is_zero_iff a H) in Ez.
    destruct (val a) as [x|] eqn:Ev; [|reflexivity].
    destruct (val_inv a x Ev) as [_ ->]. rewrite Ez, !N.mul_0_l. reflexivity.
  - assert (Hm : mval a <> 0).
    { intros Hz. apply (len_is_zero_iff a H) in Hz. congruence. }
    pose proof (inv_odd a H Hm) as Ho. pose proof (inv_exp a H) as He.
    unfold sat_add64. split.
    + apply Inv_set_expo; [exact H | exact Hm | lia].
    + rewrite val_mk. fold (mval a). unfold val, is_nan.
      destruct (N.eqb_spec (expo a) U64MAX) as [Ea|Ea].
      * rewrite N.min_r by lia. reflexivity.
      * unfold norm. rewrite <- N.mul_assoc, <- p2_add, (ctz_unique _ _ Ho).
        assert (Hnz : mval a * 2 ^ (expo a + k) <> 0) by (pose proof (p2_pos (expo a + k)); nia).
        destruct (N.eqb_spec (mval a * 2 ^ (expo a + k)) 0); [contradiction|]. simpl orb.
        destruct (N.ltb_spec (expo a + k) U64MAX) as [Hlt|Hge].
        -- rewrite N.min_l by lia. destruct (N.eqb_spec (expo a + k) U64MAX); [lia | reflexivity].
        -- rewrite N.min_r by lia. reflexivity.
Qed.

(** ** [Shr<u64>] *)

(** [a >> k] is the exact quotient [a / 2^k]; NaN iff a 1 bit would be
    shifted out (or [a] is NaN) *)
Theorem nat_shr_spec : forall a k, Inv a -> k <= U64MAX ->
  Inv (nat_shr a k) /\
  val (nat_shr a k) =
    match val a with
    | Some x => if x mod 2 ^ k =? 0 then Some (x / 2 ^ k) else None
    | None => None
    end.
Proof.
  intros a k H Hk. unfold nat_shr. pose proof (inv_exp a H) as He.
  destruct (N.leb_spec k (expo a)) as [Hle|Hgt].
  - destruct (N.eqb_spec (expo a) U64MAX) as [Ea|Ea].
    + split; [exact H|]. rewrite (val_nan a Ea). reflexivity.
    + rewrite (val_some a Ea). rewrite (p2_split (expo a) k Hle).
      replace (mval a * (2 ^ k * 2 ^ (expo a - k))) with (mval a * 2 ^ (expo a - k) * 2 ^ k) by lia.
      rewrite N.mod_mul, N.div_mul by apply p2_nz. simpl.
      assert (He' : expo a - k <> U64MAX) by lia.
      split.
      * constructor; simpl; unfold mval; simpl.
        -- apply (inv_inr a H).
        -- apply (inv_ne a H).
        -- lia.
        -- intros Hz. destruct (inv_zero a H Hz) as [E0|E0]; [left; lia | contradiction].
        -- apply (inv_odd a H).
        -- apply (inv_big a H).
      * rewrite val_mk. destruct (N.eqb_spec (expo a - k) U64MAX); [contradiction | reflexivity].
  - assert (Ea : expo a <> U64MAX) by lia. rewrite (val_some a Ea).
    destruct (len_is_zero a) eqn:Ez.
    + split; [exact H|]. apply (len_is_zero_iff a H) in Ez. rewrite Ez, N.mul_0_l.
      rewrite N.mod_0_l, N.div_0_l by apply p2_nz. simpl.
      rewrite (val_some a Ea), Ez, N.mul_0_l. reflexivity.
    + assert (Hm : mval a <> 0).
      { intros Hz. apply (len_is_zero_iff a H) in Hz. congruence. }
      pose proof (inv_odd a H Hm) as Ho. split.
      * apply Inv_set_expo; [exact H | exact Hm | lia].
      * rewrite val_mk. simpl.
        assert (Hnz : mval a * 2 ^ expo a <> 0) by (pose proof (p2_pos (expo a)); nia).
        destruct (N.eqb_spec ((mval a * 2 ^ expo a) mod 2 ^ k) 0) as [Hd|_]; [|reflexivity].
        apply (mod_p2_ctz _ _ Hnz) in Hd. rewrite (ctz_unique _ _ Ho) in Hd. lia.
Qed.

(** ** [TryFrom<&Natural> for u64 / u128] *)

Theorem try_into_u64_spec : forall a, Inv a ->
  try_into_u64 a = match val a with
                   | Some x => if x <? B64 then Some x else None
                   | None => None
                   end.
Proof.
  intros a H. unfold try_into_u64. pose proof (inv_exp a H) as He.
  destruct (N.ltb_spec (expo a) 64) as [H64|H64]; simpl andb.
  2:{ (* exponent >= 64: NaN, or a number >= 2^64 unless it is 0 (then the exponent is 0) *)
    destruct (val a) as [x|] eqn:Ev; [|reflexivity].
    destruct (N.ltb_spec x B64) as [Hx|]; [exfalso | reflexivity].
    destruct (val_inv a x Ev) as [Ea ->].
    destruct (N.eq_dec (mval a) 0) as [Hz|Hnz].
    - destruct (inv_zero a H Hz); lia.
    - pose proof (p2_le 64 (expo a) H64). rewrite B64_eq in Hx. nia. }
  assert (Ea : expo a <> U64MAX) by (unfold U64MAX; lia). rewrite (val_some a Ea).
  destruct (is_inline a) eqn:Ei; simpl andb.
  2:{ assert (Hm : ~ mval a < B64) by (rewrite <- (inline_iff a H); congruence).
      destruct (N.ltb_spec (mval a * 2 ^ expo a) B64) as [Hx|]; [exfalso | reflexivity].
      pose proof (p2_pos (expo a)). nia. }
  assert (Hm : mval a < B64) by (apply (inline_iff a H); exact Ei).
  assert (Ed : hd 0 (digits a) = mval a).
  { unfold is_inline in Ei. unfold mval. destruct (digits a) as [|d [|d' l]]; try discriminate.
    rewrite digits_val_single. reflexivity. }
  rewrite Ed, lz64_eq.
  assert (Hs : N.size (mval a) <= 64) by (apply size_lt_B64; exact Hm).
  destruct (N.leb_spec (expo a) (64 - N.size (mval a))) as [Hfit|Hbig].
  - assert (Hx : mval a * 2 ^ expo a < B64).
    { rewrite B64_eq. apply size_le_iff. destruct (N.eq_dec (mval a) 0) as [->|Hnz].
      - rewrite N.mul_0_l. change (N.size 0) with 0. lia.
      - rewrite size_mul_p2 by exact Hnz. lia. }
    rewrite (shl64_small _ _ Hx). destruct (N.ltb_spec (mval a * 2 ^ expo a) B64); [reflexivity | lia].
  - destruct (N.ltb_spec (mval a * 2 ^ expo a) B64) as [Hx|]; [exfalso | reflexivity].
    rewrite B64_eq in Hx. apply size_le_iff in Hx.
    destruct (N.eq_dec (mval a) 0) as [Hz|Hnz].
    + destruct (inv_zero a H Hz); lia.
    + rewrite size_mul_p2 in Hx by exact Hnz. lia.
Qed.

Theorem try_into_u128_spec : forall a, Inv a ->
  try_into_u128 a = match val a with
                    | Some x => if x <? B128 then Some x else None
                    | None => None
                    end.
Proof.
  intros a H. unfold try_into_u128. pose proof (inv_exp a H) as He.
  destruct (N.ltb_spec (expo a) 128) as [H128|H128]; simpl andb.
  2:{ destruct (val a) as [x|] eqn:Ev; [|reflexivity].
    destruct (N.ltb_spec x B128) as [Hx|]; [exfalso | reflexivity].
    destruct (val_inv a x Ev) as [Ea ->].
    destruct (N.eq_dec (mval a) 0) as [Hz|Hnz].
    - destruct (inv_zero a H Hz); lia.
    - pose proof (p2_le 128 (expo a) H128). rewrite B128_eq in Hx. nia. }
  assert (Ea : expo a <> U64MAX) by (unfold U64MAX; lia). rewrite (val_some a Ea).
  (* the bit width test *)
  pose proof (bit_width_spec a H) as Hbw. unfold bit_width, bit_width_digits in Hbw.
  assert (Hsz : N.size (mval a * 2 ^ expo a) <= 128 <-> mval a * 2 ^ expo a < B128)
    by (rewrite B128_eq; apply size_le_iff).
  assert (Hsm : mval a <> 0 -> N.size (mval a * 2 ^ expo a) = N.size (mval a) + expo a)
    by (intros; apply size_mul_p2; assumption).
  pose proof (mval_lt a H) as Hlt. rewrite B64_pow in Hlt.
  pose proof (inv_big a H) as Hb. pose proof (inv_ne a H) as Hne. pose proof (inv_inr a H) as Hr.
  destruct (N.leb_spec (lenN (digits a)) 3) as [Hl3|Hl3]; simpl andb.
  2:{ (* four or more digits: at least 2^(64*4-65) *)
    destruct (N.ltb_spec (mval a * 2 ^ expo a) B128) as [Hx|]; [exfalso | reflexivity].
    assert (Hl : (2 <= length (digits a))%nat) by (unfold lenN in Hl3; lia).
    destruct (Hb Hl) as [_ Hb2].
    pose proof (p2_le 191 (64 * lenN (digits a) - 65) ltac:(lia)).
    pose proof (p2_lt 128 191 ltac:(lia)). pose proof (p2_pos (expo a)). rewrite B128_eq in Hx. nia. }
  rewrite (N.mul_comm 64) in Hbw. rewrite Hbw.
  destruct (N.leb_spec (N.size (mval a) + expo a) 128) as [Hfit|Hbig].
  - assert (Hx : mval a * 2 ^ expo a < B128).
    { apply Hsz. destruct (N.eq_dec (mval a) 0) as [->|Hnz].
      - rewrite N.mul_0_l. change (N.size 0) with 0. lia.
      - rewrite Hsm by exact Hnz. exact Hfit. }
    destruct (N.ltb_spec (mval a * 2 ^ expo a) B128); [|lia].
    f_equal. rewrite N.shiftl_mul_pow2.
    assert (Em : nth 0 (digits a) 0 + B64 * nth 1 (digits a) 0 = mval a).
    { assert (Hm : mval a < B128).
      { pose proof (p2_pos (expo a)). nia. }
      unfold mval in *. destruct (digits a) as [|d0 [|d1 [|d2 l]]]; [contradiction| | |].
      - simpl nth. rewrite digits_val_single. lia.
      - simpl nth. rewrite digits_val_cons, digits_val_single. reflexivity.
      - simpl nth.
        change (digits_val (d0 :: d1 :: d2 :: l)) with (d0 + B64 * (d1 + B64 * digits_val (d2 :: l))) in *.
        set (V := digits_val (d2 :: l)) in *.
        assert (EB : B64 * (d1 + B64 * V) = B64 * d1 + B128 * V).
        { rewrite N.mul_add_distr_l, N.mul_assoc. reflexivity. }
        assert (V = 0); [|lia].
        destruct (N.eq_dec V 0) as [|Vnz]; [assumption|exfalso].
        assert (B128 * 1 <= B128 * V) by (apply N.mul_le_mono_l; lia). lia. }
    rewrite Em. apply N.mod_small. exact Hx.
  - destruct (N.ltb_spec (mval a * 2 ^ expo a) B128) as [Hx|]; [exfalso | reflexivity].
    apply Hsz in Hx. destruct (N.eq_dec (mval a) 0) as [Hz|Hnz].
    + rewrite Hz in Hbig. change (N.size 0) with 0 in Hbig. destruct (inv_zero a H Hz); lia.
    + rewrite Hsm in Hx by exact Hnz. lia.
Qed.
