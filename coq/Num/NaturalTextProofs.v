(** * [impl fmt::Octal / LowerHex / UpperHex / Display for Natural]
      (Num/Natural.v, section "Text": [fmt_pow2], [fmt_oct], [fmt_hex],
      [fmt_digit_count], [fmt_dec])

    Rust: /repo/crates/oxidd-core/src/util/num/bigint.rs,
    [Natural::fmt_pow2] (lines 1157-1220), [Octal], [LowerHex], [UpperHex]
    (1222-1240), [Display] (1064-1071) through [TryFrom<&Natural> for UBig]
    (932-943).

    [fmt_pow2_spec]: for every number of bits per digit [1 <= bpd <= 63] and
    every value satisfying the invariant, [fmt_pow2 bpd] is [None] (the text
    [?]) exactly for NaN; otherwise it is the list of digits in base [2^bpd],
    most significant first, whose value is the denoted number, without
    leading zeros ([[0]] for 0), and the number of digits is the digit count
    announced to [pad_integral], which is [ceil(bit width / bpd)].
    [fmt_oct_spec] / [fmt_hex_spec] are the instances 3 and 4.
    [fmt_dec_spec]: the number handed to [dashu_int::UBig] is the denoted
    number; [?] is printed for NaN and for exponents above [2^40]. *)

From Coq Require Import List NArith ZArith Bool Lia.
From OxiVerif Require Import Num.Natural Num.NatBase Num.NaturalProofs Num.NaturalCmpProofs Num.NaturalFmtProofs.
Import ListNotations.
Local Open Scope N_scope.

Arguments N.add : simpl never.
Arguments N.sub : simpl never.
Arguments N.mul : simpl never.
Arguments N.div : simpl never.
Arguments N.modulo : simpl never.
Arguments N.pow : simpl never.
Arguments N.shiftl : simpl never.
Arguments N.shiftr : simpl never.
Arguments N.lor : simpl never.
Arguments N.land : simpl never.
Arguments N.size : simpl never.

(** ** Digit lists in base [b], most significant first *)

Definition base_acc (b : N) (ds : list N) (acc : N) : N := fold_left (fun a d => b * a + d) ds acc.
(** the number written by a list of digits in base [b], most significant first *)
Definition base_val (b : N) (ds : list N) : N := base_acc b ds 0.
Definition is_digits (b : N) (ds : list N) : Prop := Forall (fun d => d < b) ds.

Lemma base_acc_cons : forall b d l acc, base_acc b (d :: l) acc = base_acc b l (b * acc + d).
Proof. reflexivity. Qed.

Lemma base_val_nil : forall b, base_val b [] = 0.
Proof. reflexivity. Qed.

Lemma base_acc_lin : forall b l acc, base_acc b l acc = acc * b ^ lenN l + base_val b l.
Proof.
  intros b. induction l as [|d l IH]; intros acc.
  - rewrite base_val_nil, lenN_nil, N.pow_0_r. unfold base_acc. simpl fold_left. lia.
  - unfold base_val. rewrite !base_acc_cons, (IH (b * acc + d)), (IH (b * 0 + d)).
    rewrite lenN_cons, N.pow_add_r, N.pow_1_r. set (X := b ^ lenN l). lia.
Qed.

Lemma base_val_cons : forall b d l, base_val b (d :: l) = d * b ^ lenN l + base_val b l.
Proof.
  intros b d l. unfold base_val at 1. rewrite base_acc_cons, base_acc_lin. f_equal. f_equal. lia.
Qed.

Lemma base_val_app : forall b l r, base_val b (l ++ r) = base_val b l * b ^ lenN r + base_val b r.
Proof.
  intros b l r. unfold base_val at 1. unfold base_acc. rewrite fold_left_app.
  fold (base_acc b l 0). fold (base_val b l). fold (base_acc b r (base_val b l)). apply base_acc_lin.
Qed.

Lemma base_val_repeat0 : forall b k, base_val b (repeat 0 k) = 0.
Proof.
  intros b. induction k as [|k IH]; [reflexivity|]. simpl repeat. rewrite base_val_cons, IH. lia.
Qed.

Lemma is_digits_repeat0 : forall b k, 0 < b -> is_digits b (repeat 0 k).
Proof. intros b k Hb. apply Forall_forall. intros x Hx. apply repeat_spec in Hx. subst x. exact Hb. Qed.

Lemma lenN_repeat : forall (x : N) k, lenN (repeat x k) = N.of_nat k.
Proof. intros. unfold lenN. rewrite repeat_length. reflexivity. Qed.

Lemma base_val_lt : forall b l, is_digits b l -> base_val b l < b ^ lenN l.
Proof.
  intros b. induction l as [|d l IH]; intros H.
  - rewrite base_val_nil, lenN_nil, N.pow_0_r. lia.
  - inversion H as [|? ? Hd Hl]; subst. specialize (IH Hl).
    rewrite base_val_cons, lenN_cons, N.pow_add_r, N.pow_1_r. set (X := b ^ lenN l) in *. nia.
Qed.

(** ** Arithmetic *)

Lemma land_mask : forall x n, N.land x (2 ^ n - 1) = x mod 2 ^ n.
Proof. intros x n. rewrite <- N.land_ones, N.ones_equiv, N.pred_sub. reflexivity. Qed.

Lemma mod_p2_split : forall x a b,
  x mod 2 ^ (a + b) = (x / 2 ^ a) mod 2 ^ b * 2 ^ a + x mod 2 ^ a.
Proof. intros x a b. rewrite p2_add, N.mod_mul_r by apply p2_nz. lia. Qed.

Lemma mod_p2_mod : forall x a b, a <= b -> (x mod 2 ^ b) mod 2 ^ a = x mod 2 ^ a.
Proof.
  intros x a b H. assert (E : b = a + (b - a)) by lia. rewrite E, mod_p2_split.
  rewrite N.add_comm, N.mod_add by apply p2_nz. apply N.mod_mod. apply p2_nz.
Qed.

(** the digit assembled from the low [t] bits of [msd] and the top [k] bits
    [w] of the next mantissa digit: [(msd << k | w) & mask] *)
Lemma digit_join : forall msd w t k, t + k <= 64 -> w < 2 ^ k ->
  (msd mod 2 ^ (64 - k) * 2 ^ k + w) mod 2 ^ (t + k) = msd mod 2 ^ t * 2 ^ k + w.
Proof.
  intros msd w t k Hk Hw. rewrite (N.add_comm t k), mod_p2_split.
  rewrite (N.add_comm (_ * 2 ^ k) w). rewrite N.div_add, N.mod_add by apply p2_nz.
  rewrite (N.div_small w), (N.mod_small w) by exact Hw.
  rewrite N.add_0_l, mod_p2_mod by lia. reflexivity.
Qed.

Lemma div_ceil_ge : forall a b, 1 <= b -> a <= b * div_ceil a b.
Proof.
  intros a b Hb. unfold div_ceil.
  pose proof (N.div_mod (a + (b - 1)) b ltac:(lia)) as E.
  pose proof (N.mod_lt (a + (b - 1)) b ltac:(lia)) as Hm. lia.
Qed.

(** [rem_bits] of [fmt_pow2] *)
Lemma rem_bits_spec : forall W bpd, 1 <= bpd ->
  let r := if W mod bpd =? 0 then bpd else W mod bpd in
  1 <= r /\ r <= bpd /\ W + bpd = bpd * div_ceil W bpd + r.
Proof.
  intros W bpd Hb r. unfold div_ceil.
  pose proof (N.div_mod W bpd ltac:(lia)) as E. pose proof (N.mod_lt W bpd ltac:(lia)) as Hm.
  set (q := W / bpd) in *. set (r0 := W mod bpd) in *.
  destruct (N.eqb_spec r0 0) as [Hz|Hnz]; subst r.
  - assert (Eq : (W + (bpd - 1)) / bpd = q).
    { symmetry. apply N.div_unique with (r := bpd - 1); lia. }
    rewrite Eq. lia.
  - assert (Eq : (W + (bpd - 1)) / bpd = q + 1).
    { symmetry. apply N.div_unique with (r := r0 - 1); lia. }
    rewrite Eq. lia.
Qed.

(** ** The loop of [fmt_pow2] *)

Lemma pow2_loop_A : forall f bpd msd rest offset acc, (0 <= offset)%Z ->
  pow2_loop (S f) bpd msd rest offset acc =
  pow2_loop f bpd msd rest (offset - Z.of_N bpd)%Z
    (N.land (shr64 msd (Z.to_N offset)) (2 ^ bpd - 1) :: acc).
Proof. intros. cbn [pow2_loop]. destruct (Z.leb_spec 0 offset); [reflexivity | lia]. Qed.

Lemma pow2_loop_B : forall f bpd msd v rest offset acc, (offset < 0)%Z ->
  pow2_loop (S f) bpd msd (v :: rest) offset acc =
  pow2_loop f bpd v rest (offset + 64 - Z.of_N bpd)%Z
    (N.land (N.lor (shl64 msd (Z.to_N (- offset))) (shr64 v (Z.to_N (offset + 64)))) (2 ^ bpd - 1) :: acc).
Proof. intros. cbn [pow2_loop]. destruct (Z.leb_spec 0 offset); [lia | reflexivity]. Qed.

Lemma pow2_loop_C : forall f bpd msd offset acc, (offset < 0)%Z ->
  pow2_loop (S f) bpd msd [] offset acc =
  if (offset + 64 =? 64 - Z.of_N bpd)%Z then Some (rev acc)
  else Some (rev (N.land (shl64 msd (Z.to_N (- offset))) (2 ^ bpd - 1) :: acc)).
Proof. intros. cbn [pow2_loop]. destruct (Z.leb_spec 0 offset); [lia | reflexivity]. Qed.

(** Invariant of the loop.  [t = offset + bpd] is the number of bits of [msd]
    that have not been written yet; the pending number is
    [msd mod 2^t * B64^|rest| + bev rest], a number of [t + 64 * |rest|] bits.
    The loop writes it left-aligned to a multiple of [bpd] bits (the [pad]
    zero bits at the end stand for the low bits of the exponent). *)
Lemma pow2_loop_spec : forall bpd, 1 <= bpd -> bpd <= 63 ->
  forall fuel msd rest t acc, inr rest ->
  t + 64 * lenN rest + bpd <= bpd * N.of_nat fuel ->
  exists out pad,
    pow2_loop fuel bpd msd rest (Z.of_N t - Z.of_N bpd)%Z acc = Some (rev acc ++ out) /\
    t + 64 * lenN rest + pad = bpd * lenN out /\ pad < bpd /\ is_digits (2 ^ bpd) out /\
    base_val (2 ^ bpd) out = (msd mod 2 ^ t * B64 ^ lenN rest + bev rest) * 2 ^ pad.
Proof.
  intros bpd Hb1 Hb2. induction fuel as [|f IH]; intros msd rest t acc Hr Hf.
  - exfalso. change (N.of_nat 0) with 0 in Hf. lia.
  - rewrite Nat2N.inj_succ in Hf. destruct (N.le_gt_cases bpd t) as [Ht|Ht].
    + (* offset >= 0 *)
      rewrite pow2_loop_A by lia.
      replace (Z.to_N (Z.of_N t - Z.of_N bpd)) with (t - bpd) by lia.
      replace (Z.of_N t - Z.of_N bpd - Z.of_N bpd)%Z with (Z.of_N (t - bpd) - Z.of_N bpd)%Z by lia.
      rewrite land_mask, shr64_eq. set (d := (msd / 2 ^ (t - bpd)) mod 2 ^ bpd).
      destruct (IH msd rest (t - bpd) (d :: acc) Hr ltac:(lia)) as [out [pad [E [HP [Hpad [Hd V]]]]]].
      exists (d :: out), pad. split; [|split; [|split; [|split]]].
      * rewrite E. simpl rev. rewrite <- app_assoc. reflexivity.
      * rewrite lenN_cons. lia.
      * exact Hpad.
      * constructor; [apply N.mod_lt, p2_nz | exact Hd].
      * assert (Em : msd mod 2 ^ t = d * 2 ^ (t - bpd) + msd mod 2 ^ (t - bpd)).
        { unfold d. rewrite <- mod_p2_split. f_equal. f_equal. lia. }
        rewrite base_val_cons, V, Em, <- N.pow_mul_r, <- HP, B64_pow, !p2_add.
        set (A := 2 ^ (t - bpd)). set (X := 2 ^ (64 * lenN rest)). set (Pd := 2 ^ pad).
        set (M := msd mod 2 ^ (t - bpd)). set (bv := bev rest). lia.
    + (* offset < 0 *)
      set (k := bpd - t). assert (Hk : t + k = bpd) by (unfold k; lia). clearbody k.
      destruct rest as [|v rest'].
      * rewrite pow2_loop_C by lia. rewrite lenN_nil in *.
        destruct (Z.eqb_spec (Z.of_N t - Z.of_N bpd + 64) (64 - Z.of_N bpd)) as [Hz|Hnz].
        -- assert (t = 0) by lia. subst t. exists [], 0.
           rewrite app_nil_r, lenN_nil, base_val_nil.
           change (2 ^ 0) with 1. rewrite N.mod_1_r. change (bev []) with 0.
           repeat split; [lia | lia | constructor].
        -- replace (Z.to_N (- (Z.of_N t - Z.of_N bpd))) with k by lia.
           rewrite land_mask, shl64_eq by lia.
           assert (Ed : (msd mod 2 ^ (64 - k) * 2 ^ k) mod 2 ^ bpd = msd mod 2 ^ t * 2 ^ k).
           { pose proof (digit_join msd 0 t k ltac:(lia) (p2_pos k)) as X.
             rewrite !N.add_0_r, Hk in X. exact X. }
           rewrite Ed. exists [msd mod 2 ^ t * 2 ^ k], k.
           split; [|split; [|split; [|split]]].
           ++ simpl rev. reflexivity.
           ++ unfold lenN. simpl length. lia.
           ++ lia.
           ++ constructor; [|constructor]. rewrite <- Hk, p2_add.
              apply N.mul_lt_mono_pos_r; [apply p2_pos | apply N.mod_lt, p2_nz].
           ++ rewrite base_val_cons, base_val_nil, lenN_nil, !N.pow_0_r. change (bev []) with 0. lia.
      * apply inr_inv in Hr. destruct Hr as [Hv Hr'].
        rewrite pow2_loop_B by lia. rewrite lenN_cons in *.
        replace (Z.to_N (- (Z.of_N t - Z.of_N bpd))) with k by lia.
        replace (Z.to_N (Z.of_N t - Z.of_N bpd + 64)) with (64 - k) by lia.
        replace (Z.of_N t - Z.of_N bpd + 64 - Z.of_N bpd)%Z with (Z.of_N (64 - k) - Z.of_N bpd)%Z by lia.
        rewrite land_mask, shl64_eq, shr64_eq by lia.
        set (w := v / 2 ^ (64 - k)).
        assert (Hw : w < 2 ^ k).
        { unfold w. apply div_p2_lt. replace (64 - k + k) with 64 by lia. exact Hv. }
        rewrite (lor_disjoint w _ k Hw).
        assert (Ed : (msd mod 2 ^ (64 - k) * 2 ^ k + w) mod 2 ^ bpd = msd mod 2 ^ t * 2 ^ k + w).
        { pose proof (digit_join msd w t k ltac:(lia) Hw) as X. rewrite Hk in X. exact X. }
        rewrite Ed. set (d := msd mod 2 ^ t * 2 ^ k + w).
        destruct (IH v rest' (64 - k) (d :: acc) Hr' ltac:(lia)) as [out [pad [E [HP [Hpad [Hd V]]]]]].
        exists (d :: out), pad. split; [|split; [|split; [|split]]].
        -- rewrite E. simpl rev. rewrite <- app_assoc. reflexivity.
        -- rewrite lenN_cons. lia.
        -- exact Hpad.
        -- constructor; [|exact Hd]. unfold d. rewrite <- Hk, p2_add.
           pose proof (N.mod_lt msd (2 ^ t) (p2_nz t)). pose proof (p2_pos k). nia.
        -- rewrite base_val_cons, V, bev_cons, <- N.pow_mul_r, <- HP.
           pose proof (N.div_mod v (2 ^ (64 - k)) (p2_nz _)) as Ev. fold w in Ev.
           assert (EB : B64 = 2 ^ k * 2 ^ (64 - k)).
           { rewrite <- p2_add. replace (k + (64 - k)) with 64 by lia. reflexivity. }
           rewrite (N.pow_add_r B64 (lenN rest') 1), N.pow_1_r, !p2_add, <- B64_pow.
           replace (B64 ^ lenN rest' * v)
             with (B64 ^ lenN rest' * (2 ^ (64 - k) * w + v mod 2 ^ (64 - k))) by (rewrite <- Ev; reflexivity).
           replace (B64 ^ lenN rest' * B64)
             with (B64 ^ lenN rest' * (2 ^ k * 2 ^ (64 - k))) by (rewrite <- EB; reflexivity).
           unfold d.
           set (A := 2 ^ (64 - k)). set (X := B64 ^ lenN rest'). set (Pd := 2 ^ pad).
           set (M := msd mod 2 ^ t). set (bv := bev rest'). set (vm := v mod A). set (K := 2 ^ k).
           lia.
Qed.

(** ** [fmt_pow2] *)

Theorem fmt_pow2_spec : forall bpd a, 1 <= bpd -> bpd <= 63 -> Inv a ->
  match val a with
  | None => fmt_pow2 bpd a = None
  | Some v =>
    exists ds, fmt_pow2 bpd a = Some ds /\ base_val (2 ^ bpd) ds = v /\ is_digits (2 ^ bpd) ds /\
      (v = 0 -> ds = [0]) /\
      (v <> 0 -> hd 0 ds <> 0 /\ N.of_nat (length ds) = fmt_digit_count bpd a /\
                 fmt_digit_count bpd a = div_ceil (N.size v) bpd)
  end.
Proof.
  intros bpd a Hb1 Hb2 H. unfold fmt_pow2, fmt_digit_count, is_nan.
  destruct (N.eqb_spec (expo a) U64MAX) as [Ea|Ea]; [rewrite (val_nan a Ea); reflexivity|].
  rewrite (val_some a Ea).
  destruct (mantissa_spec a H) as [Rm [Nm [Vm [Lm Zm]]]].
  destruct (N.eq_dec (mval a) 0) as [Hz|Hnz].
  - rewrite (Zm Hz). simpl last. rewrite N.eqb_refl. exists [0]. rewrite Hz, N.mul_0_l.
    split; [reflexivity|]. split; [rewrite base_val_cons, base_val_nil; lia|].
    split; [constructor; [apply p2_pos | constructor]|].
    split; [intros _; reflexivity | intros Hc; contradiction].
  - specialize (Lm Hnz). set (m := mantissa a) in *. set (msd := last m 0) in *.
    destruct (N.eqb_spec msd 0) as [|_]; [contradiction|].
    assert (Er : rev m = msd :: rev (removelast m)).
    { rewrite (app_removelast_last 0 Nm) at 1. rewrite rev_app_distr. reflexivity. }
    rewrite Er. simpl tl. set (rest := rev (removelast m)).
    assert (Rrest : inr rest) by (apply inr_rev; apply inr_removelast; exact Rm).
    assert (Lrest : lenN rest = lenN m - 1).
    { unfold rest, lenN. rewrite rev_length. apply (lenN_removelast m Nm). }
    assert (Lm1 : 1 <= lenN m) by (destruct m; [contradiction | rewrite lenN_cons; lia]).
    assert (Rmsd : msd < B64) by (apply inr_last; exact Rm).
    pose proof (size_lt_B64 msd Rmsd) as Hs.
    assert (Hs1 : 1 <= N.size msd).
    { assert (N.size msd <> 0) by (rewrite size_0_iff; exact Lm). lia. }
    pose proof (size_digits m Nm Rm Lm) as Sz. fold msd in Sz. rewrite Vm in Sz.
    unfold bit_width_digits. fold msd. rewrite lz64_eq.
    replace (64 - (64 - N.size msd)) with (N.size msd) by lia.
    assert (EW : 64 * lenN m - (64 - N.size msd) + expo a = N.size (mval a) + expo a) by lia.
    rewrite EW. set (W := N.size (mval a) + expo a).
    destruct (rem_bits_spec W bpd Hb1) as [Hr1 [Hr2 Hr3]].
    set (r := if W mod bpd =? 0 then bpd else W mod bpd) in *.
    set (Q := div_ceil W bpd) in *.
    set (t := N.size msd + bpd - r).
    replace (Z.of_N (N.size msd) - Z.of_N r)%Z with (Z.of_N t - Z.of_N bpd)%Z by (unfold t; lia).
    set (fuel := S (S (N.to_nat (div_ceil (64 * lenN m) bpd)))).
    assert (Hfuel : t + 64 * lenN rest + bpd <= bpd * N.of_nat fuel).
    { unfold fuel. rewrite !Nat2N.inj_succ, N2Nat.id.
      pose proof (div_ceil_ge (64 * lenN m) bpd Hb1) as Hg.
      set (dc := div_ceil (64 * lenN m) bpd) in *. rewrite Lrest. unfold t. lia. }
    destruct (pow2_loop_spec bpd Hb1 Hb2 fuel msd rest t [] Rrest Hfuel)
      as [out [pad [E [HP [Hpad [Hd V]]]]]].
    rewrite E. simpl rev. simpl app.
    (* the pending number is the mantissa *)
    assert (Emsd : msd mod 2 ^ t = msd).
    { apply N.mod_small. pose proof (N.size_gt msd). pose proof (p2_le (N.size msd) t ltac:(unfold t; lia)). lia. }
    assert (Eb : bev (msd :: rest) = mval a).
    { unfold bev, rest. rewrite <- Er, rev_involutive. exact Vm. }
    rewrite bev_cons in Eb. rewrite Emsd in V.
    assert (V' : base_val (2 ^ bpd) out = mval a * 2 ^ pad) by (rewrite V, <- Eb; f_equal; lia).
    (* digit count and padding *)
    pose proof (N.div_mod (expo a) bpd ltac:(lia)) as Ee.
    pose proof (N.mod_lt (expo a) bpd ltac:(lia)) as He.
    set (eq := expo a / bpd) in *. set (er := expo a mod bpd) in *.
    assert (HP' : N.size (mval a) + bpd + pad = bpd * lenN out + r) by (rewrite <- HP, Lrest; unfold t; lia).
    assert (Hu : bpd * Q + pad = bpd * (lenN out + eq) + er) by (unfold W in Hr3; lia).
    destruct (N.div_mod_unique bpd Q (lenN out + eq) pad er Hpad He Hu) as [EQ Epad].
    assert (Hlen : lenN (out ++ repeat 0 (N.to_nat eq)) = Q).
    { rewrite lenN_app, lenN_repeat, N2Nat.id. lia. }
    eexists. split; [reflexivity|]. split; [|split; [|split]].
    + rewrite base_val_app, base_val_repeat0, lenN_repeat, N2Nat.id, V', <- N.pow_mul_r, Epad.
      rewrite N.add_0_r, <- N.mul_assoc, <- p2_add. f_equal. f_equal. lia.
    + apply Forall_app. split; [exact Hd | apply is_digits_repeat0; apply p2_pos].
    + intros Hc. exfalso. apply N.eq_mul_0 in Hc. destruct Hc as [Hc|Hc]; [contradiction|].
      exact (p2_nz (expo a) Hc).
    + intros _. split; [|split].
      * (* the first digit contains the top bit of the mantissa *)
        destruct out as [|d out'].
        { exfalso. rewrite lenN_nil in HP'.
          assert (N.size (mval a) <> 0) by (rewrite size_0_iff; exact Hnz). lia. }
        simpl app. simpl hd. intros Hd0. rewrite Hd0 in V'.
        pose proof (Forall_inv_tail Hd) as Hd'.
        pose proof (base_val_lt (2 ^ bpd) out' Hd') as Hlt.
        rewrite base_val_cons, N.mul_0_l, N.add_0_l in V'. rewrite V', <- N.pow_mul_r in Hlt.
        rewrite lenN_cons in HP'.
        pose proof (size_lo (mval a) Hnz) as Hlo.
        assert (N.size (mval a) <> 0) by (rewrite size_0_iff; exact Hnz).
        assert (Hexp : bpd * lenN out' <= N.size (mval a) - 1 + pad) by (clear - HP' Hr1 H0; lia).
        pose proof (p2_le _ _ Hexp) as Hle.
        rewrite p2_add in Hle.
        pose proof (N.mul_le_mono_r _ _ (2 ^ pad) Hlo) as Hmul. clear - Hlt Hle Hmul. lia.
      * exact Hlen.
      * unfold Q, W. rewrite size_mul_p2 by exact Hnz. reflexivity.
Qed.

(** [impl fmt::Octal] *)
Theorem fmt_oct_spec : forall a, Inv a ->
  match val a with
  | None => fmt_oct a = None
  | Some v =>
    exists ds, fmt_oct a = Some ds /\ base_val 8 ds = v /\ is_digits 8 ds /\
      (v = 0 -> ds = [0]) /\
      (v <> 0 -> hd 0 ds <> 0 /\ N.of_nat (length ds) = fmt_digit_count 3 a /\
                 fmt_digit_count 3 a = div_ceil (N.size v) 3)
  end.
Proof. intros a H. exact (fmt_pow2_spec 3 a ltac:(lia) ltac:(lia) H). Qed.

(** [impl fmt::LowerHex], [impl fmt::UpperHex] (the two differ in the
    character table only) *)
Theorem fmt_hex_spec : forall a, Inv a ->
  match val a with
  | None => fmt_hex a = None
  | Some v =>
    exists ds, fmt_hex a = Some ds /\ base_val 16 ds = v /\ is_digits 16 ds /\
      (v = 0 -> ds = [0]) /\
      (v <> 0 -> hd 0 ds <> 0 /\ N.of_nat (length ds) = fmt_digit_count 4 a /\
                 fmt_digit_count 4 a = div_ceil (N.size v) 4)
  end.
Proof. intros a H. exact (fmt_pow2_spec 4 a ltac:(lia) ltac:(lia) H). Qed.

(** ** [Display]: the number handed to [UBig] *)

Theorem fmt_dec_spec : forall a, Inv a ->
  fmt_dec a = match val a with
              | Some v => if expo a <=? 2 ^ 40 then Some v else None
              | None => None
              end.
Proof.
  intros a H. unfold fmt_dec. change (2 ^ 40) with 1099511627776.
  destruct (N.eq_dec (expo a) U64MAX) as [Ea|Ea].
  - rewrite (val_nan a Ea), Ea. reflexivity.
  - rewrite (val_some a Ea). destruct (mantissa_spec a H) as [_ [_ [Vm _]]].
    rewrite Vm, N.shiftl_mul_pow2.
    destruct (N.ltb_spec 1099511627776 (expo a)); destruct (N.leb_spec (expo a) 1099511627776);
      try lia; reflexivity.
Qed.

(** ** Examples (also: the hypotheses are satisfiable by non-trivial values) *)

Example ex_fmt_pow2 :
  fmt_oct (from_u64 10) = Some [1; 2] /\ fmt_hex (from_u64 0) = Some [0] /\
  fmt_oct (mkNat [3] U64MAX) = None /\ fmt_hex (mkNat [3] U64MAX) = None /\
  option_map (@length N) (fmt_hex (from_u128 (2 ^ 100 + 1))) = Some 26%nat /\
  fmt_digit_count 4 (from_u128 (2 ^ 100 + 1)) = 26 /\
  (* exponent 5 is not a multiple of 4: 3 * 2^5 = 0x60 *)
  fmt_hex (mkNat [3] 5) = Some [6; 0] /\
  (* 5 * 2^7 = 640 = 0o1200 *)
  fmt_oct (mkNat [5] 7) = Some [1; 2; 0; 0] /\
  (* a mantissa of three u64 digits: 1 + 2^64 + 2^128, shifted by 2 *)
  fmt_hex (mkNat [1; 1; 1] 2) =
    Some ([4] ++ repeat 0 15 ++ [4] ++ repeat 0 15 ++ [4]) /\
  option_map (base_val 8) (fmt_oct (mkNat [1; 1; 1] 2)) = Some ((1 + 2 ^ 64 + 2 ^ 128) * 4) /\
  option_map (@length N) (fmt_oct (mkNat [1; 1; 1] 2)) = Some 44%nat /\
  fmt_digit_count 3 (mkNat [1; 1; 1] 2) = 44.
Proof. vm_compute. repeat split; reflexivity. Qed.

Example ex_fmt_dec :
  fmt_dec (from_u64 10) = Some 10 /\ fmt_dec (mkNat [3] 5) = Some 96 /\
  fmt_dec (mkNat [3] U64MAX) = None /\ fmt_dec (mkNat [1] (2 ^ 40 + 1)) = None /\
  fmt_dec (mkNat [1; 1; 1] 2) = Some ((1 + 2 ^ 64 + 2 ^ 128) * 4).
Proof. vm_compute. repeat split; reflexivity. Qed.

Example ex_inv_three_digits : Inv (mkNat [1; 1; 1] 2) /\ val (mkNat [1; 1; 1] 2) = Some ((1 + 2 ^ 64 + 2 ^ 128) * 4).
Proof.
  split; [|vm_compute; reflexivity].
  apply mk_Inv.
  - repeat constructor.
  - discriminate.
  - vm_compute. discriminate.
  - vm_compute. reflexivity.
  - right. split; vm_compute; discriminate.
Qed.
