(** * Model of [oxidd_core::util::num::Saturating<u64>] / [Saturating<u128>]
      (/repo/crates/oxidd-core/src/util/num/mod.rs, macro [impl_saturating])

    Executable Gallina only (proofs: Num/SaturatingProofs.v).  A value is the
    wrapped integer as an [N] below [2^w] ([w] = 64 or 128); [T::MAX] is the
    out-of-bounds marker.  The operators are modelled with the semantics of a
    release build (no overflow checks): [-] and the shift amount of [>>] wrap.
    [AddAssign]/[SubAssign]/[ShlAssign]/[ShrAssign] ([impl_assign_via_copy])
    are [*self = *self op rhs]. *)
From Coq Require Import NArith.
Local Open Scope N_scope.

(** [<$t>::MAX] *)
Definition su_max (w : N) : N := 2 ^ w - 1.

(** [From<u32>] *)
Definition su_from_u32 (v : N) : N := v.

(** [Add]: [self.0.saturating_add(rhs.0)] *)
Definition su_add (w a b : N) : N := N.min (a + b) (su_max w).

(** [Sub]: [if self.0 == MAX { MAX } else { self.0 - rhs.0 }] (wrapping) *)
Definition su_sub (w a b : N) : N :=
  if a =? su_max w then su_max w else (a + 2 ^ w - b) mod 2 ^ w.

(** [Shl<u32>]: [if self.0 == 0 { 0 } else if rhs > self.0.leading_zeros() { MAX }
    else { self.0 << rhs }]: the marker as soon as a 1 bit would be shifted out *)
Definition su_shl (w a k : N) : N :=
  if a =? 0 then 0
  else if w - N.size a <? k then su_max w
  else (a * 2 ^ k) mod 2 ^ w.

(** [Shr<u32>]: [if self.0 == MAX { MAX } else { self.0 >> rhs }] (the shift
    amount is taken modulo [BITS] without overflow checks) *)
Definition su_shr (w a k : N) : N :=
  if a =? su_max w then su_max w else a / 2 ^ (k mod w).
