(** * [Saturating<u64>] / [Saturating<u128>] (Num/Saturating.v)

    [sval w a] is the number a value denotes: [None] for the out-of-bounds
    marker [T::MAX].  Addition and left shift return the exact result while it
    is below the marker and the marker otherwise; the marker is absorbing for
    every operation; right shift and subtraction of in-range values are exact. *)

From Coq Require Import NArith Bool Lia.
From OxiVerif Require Import Num.Natural Num.NatBase Num.Saturating.
Local Open Scope N_scope.

Arguments N.add : simpl never.
Arguments N.sub : simpl never.
Arguments N.mul : simpl never.
Arguments N.div : simpl never.
Arguments N.modulo : simpl never.
Arguments N.pow : simpl never.
Arguments N.min : simpl never.
Arguments N.size : simpl never.

Definition sval (w a : N) : option N := if a =? su_max w then None else Some a.

(** what an operation with the exact result [x] returns *)
Definition sfit (w x : N) : option N := if x <? su_max w then Some x else None.

Section W.
Variable w : N.
Hypothesis Hw : 1 <= w.

Let MAX := su_max w.

Lemma su_max_eq : MAX = 2 ^ w - 1.
Proof. reflexivity. Qed.

Lemma su_max_pos : 1 <= MAX.
Proof. unfold MAX, su_max. pose proof (p2_le 1 w Hw). change (2 ^ 1) with 2 in H. lia. Qed.

Theorem su_add_spec : forall a b, a <= MAX -> b <= MAX ->
  su_add w a b <= MAX /\
  sval w (su_add w a b) =
    match sval w a, sval w b with
    | Some x, Some y => sfit w (x + y)
    | _, _ => None
    end.
Proof.
  intros a b Ha Hb. unfold su_add, sval, sfit. fold MAX. split; [lia|].
  destruct (N.eqb_spec a MAX) as [Ea|Ea].
  - rewrite N.min_r by lia. rewrite N.eqb_refl. reflexivity.
  - destruct (N.eqb_spec b MAX) as [Eb|Eb].
    + rewrite N.min_r by lia. rewrite N.eqb_refl. reflexivity.
    + destruct (N.ltb_spec (a + b) MAX) as [Hlt|Hge].
      * rewrite N.min_l by lia. destruct (N.eqb_spec (a + b) MAX); [lia | reflexivity].
      * rewrite N.min_r by lia. rewrite N.eqb_refl. reflexivity.
Qed.

Theorem su_shl_spec : forall a k, a <= MAX ->
  su_shl w a k <= MAX /\
  sval w (su_shl w a k) =
    match sval w a with
    | Some x => sfit w (x * 2 ^ k)
    | None => None
    end.
Proof.
  intros a k Ha. pose proof su_max_pos as Hm. pose proof su_max_eq as Em. pose proof (p2_pos w) as Hp.
  unfold su_shl, sval, sfit. fold MAX.
  destruct (N.eqb_spec a 0) as [->|Hnz].
  - split; [lia|]. destruct (N.eqb_spec 0 MAX); [lia|]. rewrite N.mul_0_l.
    destruct (N.ltb_spec 0 MAX); [reflexivity | lia].
  - assert (Ha2 : a < 2 ^ w) by lia.
    assert (Hs : N.size a <= w) by (apply size_le_iff; exact Ha2).
    pose proof (size_mul_p2 a k Hnz) as Sm. pose proof (size_le_iff (a * 2 ^ k) w) as Hiff.
    destruct (N.ltb_spec (w - N.size a) k) as [Hov|Hfit].
    + split; [lia|]. rewrite N.eqb_refl. destruct (N.eqb_spec a MAX); [reflexivity|].
      destruct (N.ltb_spec (a * 2 ^ k) MAX) as [Hlt|]; [|reflexivity].
      exfalso. assert (Hc : a * 2 ^ k < 2 ^ w) by lia. apply Hiff in Hc. lia.
    + assert (Hlt : a * 2 ^ k < 2 ^ w) by (apply Hiff; lia).
      rewrite (N.mod_small _ _ Hlt). split; [lia|].
      destruct (N.eqb_spec a MAX) as [Ea|Ea].
      * (* the marker with k = 0 *)
        assert (Ek : k = 0).
        { destruct (N.eq_dec k 0) as [|Hk]; [assumption|exfalso].
          subst a. pose proof (p2_le 1 k ltac:(lia)) as H2. change (2 ^ 1) with 2 in H2.
          assert (MAX * 2 <= MAX * 2 ^ k) by (apply N.mul_le_mono_l; exact H2).
          pose proof (p2_le 1 w Hw) as H3. change (2 ^ 1) with 2 in H3. lia. }
        subst k. change (2 ^ 0) with 1. rewrite N.mul_1_r. destruct (N.eqb_spec a MAX); [reflexivity | contradiction].
      * destruct (N.ltb_spec (a * 2 ^ k) MAX) as [Hl|Hg].
        -- destruct (N.eqb_spec (a * 2 ^ k) MAX); [lia | reflexivity].
        -- assert (E : a * 2 ^ k = MAX) by lia. rewrite E, N.eqb_refl. reflexivity.
Qed.

Theorem su_shr_spec : forall a k, a <= MAX -> k < w ->
  su_shr w a k <= MAX /\
  sval w (su_shr w a k) =
    match sval w a with
    | Some x => Some (x / 2 ^ k)
    | None => None
    end.
Proof.
  intros a k Ha Hk. unfold su_shr, sval. fold MAX. rewrite (N.mod_small k w Hk).
  destruct (N.eqb_spec a MAX) as [Ea|Ea].
  - split; [lia|]. rewrite N.eqb_refl. reflexivity.
  - assert (Hle : a / 2 ^ k <= a) by (apply N.div_le_upper_bound; [apply p2_nz | pose proof (p2_pos k); nia]).
    split; [lia|]. destruct (N.eqb_spec (a / 2 ^ k) MAX); [lia | reflexivity].
Qed.

Theorem su_sub_spec : forall a b, a <= MAX -> b <= a ->
  su_sub w a b <= MAX /\
  sval w (su_sub w a b) =
    match sval w a with
    | Some x => Some (x - b)
    | None => None
    end.
Proof.
  intros a b Ha Hb. pose proof su_max_eq as Em. pose proof (p2_pos w) as Hp.
  unfold su_sub, sval. fold MAX.
  destruct (N.eqb_spec a MAX) as [Ea|Ea].
  - split; [lia|]. rewrite N.eqb_refl. reflexivity.
  - assert (E : (a + 2 ^ w - b) mod 2 ^ w = a - b).
    { replace (a + 2 ^ w - b) with ((a - b) + 1 * 2 ^ w) by lia.
      rewrite N.mod_add by apply p2_nz. apply N.mod_small. lia. }
    rewrite E. split; [lia|]. destruct (N.eqb_spec (a - b) MAX); [lia | reflexivity].
Qed.

End W.

(** the widths of the code *)
Example ex_su :
  su_shl 64 3 63 = su_max 64 /\ su_shl 64 1 63 = 2 ^ 63 /\ su_shl 64 0 200 = 0 /\
  su_shl 128 5 126 = su_max 128 /\ su_add 64 (2 ^ 63) (2 ^ 63) = su_max 64 /\
  su_shr 64 (su_max 64) 1 = su_max 64 /\ su_shr 64 12 2 = 3 /\ su_sub 64 (su_max 64) 5 = su_max 64.
Proof. vm_compute. repeat split; reflexivity. Qed.
